(* Correspondence predicates for C08: convert_junos_to_ios and CiscoConfParse(lines, syntax='junos')
   against Model/Brace.v. *)
From Coq Require Import NArith Bool List Arith.
Require Import CCP.Lib.PyStr CCP.Lib.Res CCP.gen.TabC08 CCP.Model.Brace.
Import ListNotations.

Definition sw08 : nat := convert_stop_width.
Definition delims08 : list char := map (fun d => hd 0%N d) junos_comment_delims.

(* observation of CiscoConfParse(lines, syntax='junos', factory=..):
   None = raised, Some (get_text(), parent linenums, children linenums) *)
Definition obs_ccp := option (list str * list nat * list (list nat)).
(* (convert_junos_to_ios(lines) or None when it raised, factory=False, factory=True) *)
Definition obs08 := (option (list str) * obs_ccp * obs_ccp)%type.

Definition nats_eqb := list_eqb Nat.eqb.
Definition strs_eqb := list_eqb str_eqb.

Definition conv_matches (m : result (list str)) (o : option (list str)) : bool :=
  match m, o with
  | Ok l, Some t => strs_eqb l t
  | Raise _, None => true
  | _, _ => false
  end.
Definition ccp_matches (m : result (list str)) (o : obs_ccp) : bool :=
  match m, o with
  | Ok l, Some (t, ps, cs) =>
      let pm := parents_model (map (line_info delims08) l) in
      strs_eqb l t && nats_eqb pm ps && list_eqb nats_eqb (children_model pm) cs
  | Raise _, None => true
  | _, _ => false
  end.

Definition fidelity08 (lines : list str) (o : obs08) : bool :=
  let '(oc, o0, o1) := o in
  let m := convert_junos sw08 lines in
  conv_matches m oc && ccp_matches m o0 && ccp_matches m o1.

(* ---- raw stream: any list of strings *)
Definition case08r := (list str * obs08)%type.
Definition agree08r (c : case08r) : bool := let '(lines, o) := c in fidelity08 lines o.
Definition show08r (c : case08r) :=
  let '(lines, o) := c in
  let m := convert_junos sw08 lines in
  (m, match m with Ok l => parents_model (map (line_info delims08) l) | Raise _ => [] end).

(* ---- tree stream: a layout (decorated tree), the white space after it, the lines handed to the
   implementation, kind (0: complete rendering of a well-formed layout -> the flattened tree and its
   parents are demanded; 1: same with at least one closing brace missing -> must raise; 2: no demand) *)
Definition case08t := (lforest * str * list str * nat * obs08)%type.

Definition ccp_is (want : list str) (wantp : list nat) (o : obs_ccp) : bool :=
  match o with
  | Some (t, ps, cs) => strs_eqb want t && nats_eqb wantp ps && list_eqb nats_eqb (children_model wantp) cs
  | None => false
  end.
Definition property08 (c : case08t) : bool :=
  let '(top, fin, lines, kind, o) := c in
  let '(oc, o0, o1) := o in
  match kind with
  | 0 =>
      let want := flatten_forest 4 0 (erase_forest top) in
      let wantp := forest_parents None false 0 (erase_forest top) in
      str_eqb (join [NL] lines) (render_forest top ++ fin)
      && wfT_lforest true top && all_ws4 fin
      && (unclosed_forest top =? 0)
      && match oc with Some t => strs_eqb want t | None => false end
      && ccp_is want wantp o0 && ccp_is want wantp o1
  | 1 =>
      str_eqb (join [NL] lines) (render_forest top ++ fin)
      && wfT_lforest true top && all_ws4 fin
      && negb (unclosed_forest top =? 0)
      && match oc, o0, o1 with None, None, None => true | _, _, _ => false end
  | _ => true
  end.
Definition agree08t (c : case08t) : bool :=
  let '(top, fin, lines, kind, o) := c in fidelity08 lines o && property08 c.
Definition show08t (c : case08t) :=
  let '(top, fin, lines, kind, o) := c in
  (convert_junos sw08 lines, fidelity08 lines o, property08 c, wfT_lforest true top, all_ws4 fin,
   flatten_forest 4 0 (erase_forest top), forest_parents None false 0 (erase_forest top)).
