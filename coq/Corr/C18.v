(* Correspondence predicates for C18: the lines printed by `ccp ipgrep` / `ccp macgrep`
   (CliApplication.stdout) against Model/Grep.v; address parsing/rendering and regex answers are
   embedded in the case literal as oracles. *)
From Coq Require Import ZArith NArith List Bool.
Require Import CCP.Lib.PyStr CCP.Lib.Res CCP.Model.IPRef CCP.Model.Grep.
Import ListNotations.

(* literal helpers (no record syntax in case files) *)
Definition P (a p : Z) (ip cidr net : str) : parsed := mk_parsed (Build_ipo a p) ip cidr net.
Definition W0 : word := mk_word None None.
Definition W4 (a p : Z) (ip cidr net : str) : word := mk_word (Some (P a p ip cidr net)) None.
Definition W6 (a p : Z) (ip cidr net : str) : word := mk_word None (Some (P a p ip cidr net)).
Definition SN4 (a p : Z) : option subnet := Some (mk_subnet F4 (Build_ipo a p)).
Definition SN6 (a p : Z) : option subnet := Some (mk_subnet F6 (Build_ipo a p)).
Definition SNbad : option subnet := None.

Definition out_eqb := opt_eqb (list_eqb str_eqb).

(* ((unique, line, cidr, nets, exclude_hosts), -s pieces, -4, -6, input, printed lines or None) *)
Definition case_ip :=
  ((bool * bool * bool * bool * bool) * option (list (option subnet)) * bool * bool * input * option (list str))%type.
Definition model_ip (c : case_ip) : option (list str) :=
  let '((u, l, ci, n, h), sarg, v4, v6, inp, _) := c in
  ipgrep (mk_opts u l ci n h false) sarg v4 v6 inp.
Definition agree_ip (c : case_ip) : bool :=
  let '(_, _, _, _, _, o) := c in out_eqb (model_ip c) o.

(* (unique, line, input, printed lines or None) *)
Definition case_mac := (bool * bool * minput * option (list str))%type.
Definition model_mac (c : case_mac) : option (list str) :=
  let '(u, l, inp, _) := c in macgrep u l inp.
Definition agree_mac (c : case_mac) : bool :=
  let '(_, _, _, o) := c in out_eqb (model_mac c) o.
