(* Correspondence predicate for C03: the whole family dump of every line vs the model. *)
From Coq Require Import List Arith Bool NArith.
Require Import CCP.Lib.PyStr CCP.Model.Links CCP.Model.Parse CCP.Model.Family.
Import ListNotations.

(* per line: parent, children, all_children, all_parents, (lineage, geneology), (family_endpoint, siblings),
   (has_children, is_parent, is_child) *)
Definition dump1 := (option nat * list nat * list nat * list nat * (list nat * list nat) * (nat * list nat) * (bool * bool * bool))%type.
Definition case03 := ((bool * bool) * list N * list (list N * option (option N)) * list dump1)%type.

Definition model03 (c : case03) : list dump1 :=
  let '((mac, ibl), d, ls, _) := c in
  let o := PO mac ibl d in
  let pl := map (fun tb => PL (fst tb) (snd tb)) ls in
  let ps := construct_parents o pl in
  let inds := map (fun l => ind (linfo_of d (ptext l))) (ibl_filter o pl) in
  map (fun i => (parent_of ps i, kids ps i, all_children ps i, all_parents ps i, (lineage ps i, geneology ps i),
                 (family_endpoint ps i, siblings ps inds i), (has_children ps i, has_children ps i, is_child ps i)))
      (seq 0 (length ps)).

Definition nl_eqb := list_eqb Nat.eqb.
Definition dump1_eqb (a b : dump1) : bool :=
  let '(p1, c1, ac1, ap1, (l1, g1), (e1, s1), (f1, f2, f3)) := a in
  let '(p2, c2, ac2, ap2, (l2, g2), (e2, s2), (h1, h2, h3)) := b in
  opt_eqb Nat.eqb p1 p2 && nl_eqb c1 c2 && nl_eqb ac1 ac2 && nl_eqb ap1 ap2 && nl_eqb l1 l2 && nl_eqb g1 g2 &&
  Nat.eqb e1 e2 && nl_eqb s1 s2 && Bool.eqb f1 h1 && Bool.eqb f2 h2 && Bool.eqb f3 h3.

(* direct well-formedness of the implementation's dump, independent of the model *)
Definition impl_wf (ds : list dump1) : bool :=
  let ps := map (fun d => let '(p, _, _, _, _, _, _) := d in p) ds in
  WFmapb ps &&
  forallb (fun id => let '(i, (_, cs, _, _, _, _, _)) := id in nl_eqb cs (kids ps i)) (combine (seq 0 (length ds)) ds).

Definition agree03 (c : case03) : bool :=
  let '(_, _, _, ds) := c in list_eqb dump1_eqb ds (model03 c) && impl_wf ds.
