(* Correspondence predicate for C01: texts and line numbers after construction. *)
From Coq Require Import List Arith Bool NArith.
Require Import CCP.Lib.PyStr CCP.Model.Links CCP.Model.Parse.
Import ListNotations.

(* ((macro, ibl, allow_raise), delims, lines with banner oracle, Some (texts, linenums) | None = raised) *)
Definition case01 := ((bool * bool * bool) * list N * list (list N * option (option N)) * option (list (list N) * list nat))%type.

Definition ok_line (l : pline) : bool :=
  (if blank (ptext l) then match pban l with None => true | _ => false end else true) &&
  match pban l with Some (Some d) => negb (is_space d) | _ => true end.

Definition model01 (c : case01) : list (list N) * list nat :=
  let '((mac, ibl, _), d, ls, _) := c in
  let o := PO mac ibl d in
  let pl := map (fun tb => PL (fst tb) (snd tb)) ls in
  (map ptext (construct_texts o pl), construct_linenums o pl).

Definition agree01 (c : case01) : bool :=
  let '((mac, ibl, allow), d, ls, r) := c in
  forallb ok_line (map (fun tb => PL (fst tb) (snd tb)) ls) &&
  match r with
  | None => allow
  | Some (ts, ns) => let m := model01 c in list_eqb str_eqb ts (fst m) && list_eqb Nat.eqb ns (snd m)
  end.
