(* Correspondence predicates for C09: the real CiscoConfParse(...) / save_as against Model/IO.v. *)
From Coq Require Import NArith ZArith Bool List.
Require Import CCP.Lib.PyStr CCP.Lib.Res CCP.gen.TabC09 CCP.Model.IO.
Import ListNotations.

(* ---- codecs used by the tie: the model's text is encoded here and compared with the file BYTES *)
Definition utf8_char (c : N) : list N :=
  (if c <? 128 then [c]
   else if c <? 2048 then [192 + c / 64; 128 + c mod 64]
   else if c <? 65536 then [224 + c / 4096; 128 + (c / 64) mod 64; 128 + c mod 64]
   else [240 + c / 262144; 128 + (c / 4096) mod 64; 128 + (c / 64) mod 64; 128 + c mod 64])%N.
(* enc: 0 = latin-1 (code point = byte), 1 = utf-8 *)
Definition encode (enc : nat) (s : str) : list N :=
  match enc with O => s | _ => flat_map utf8_char s end.

(* observation of one input form: None = the constructor raised; Some (get_text(), parent linenums) *)
Definition obs_t := option (list str * list Z).

Definition res_matches (m : result (list str)) (o : obs_t) : bool :=
  match m, o with
  | Ok l, Some (t, _) => list_eqb str_eqb l t
  | Raise _, None => true
  | _, _ => false
  end.

Definition fs_none : str -> option str := fun _ => None.
Definition path_placeholder : str := [112%N].

Definition zlist_eqb (a b : list Z) : bool := list_eqb Z.eqb a b.

(* the tree is a function of the line texts: two forms with the same texts must have the same parents;
   a form whose texts are another's plus one final "" has the other's parents on the common lines *)
Definition tree_consistent (a b : obs_t) : bool :=
  match a, b with
  | Some (ta, pa), Some (tb, pb) =>
      if list_eqb str_eqb ta tb then zlist_eqb pa pb
      else if list_eqb str_eqb (ta ++ [[]]) tb then zlist_eqb pa (firstn (length pa) pb) && Nat.eqb (length pb) (S (length pa))
      else true
  | _, _ => true
  end.

(* faithful model, per form *)
Definition model09f (pairs : list (str * str)) : list (result (list str)) :=
  let text := text_of pairs in
  [ read_input fs_none (InList (lines_of pairs));
    read_input fs_none (InTuple (lines_of pairs));
    read_input fs_none (InStr text);
    read_input (fun _ => Some text) (InStr path_placeholder) ].

(* what the property demands of the string and file forms of `text` *)
Definition spec_str_ok (text : str) (o : obs_t) : bool :=
  let want := drop_last_empty (spec_lines text) in
  if (2 <=? length want)%nat then
    match o with Some (t, _) => list_eqb str_eqb want t | None => false end
  else true.
Definition spec_file_ok (text : str) (o : obs_t) : bool :=
  match o with Some (t, _) => list_eqb str_eqb (spec_lines text) t | None => false end.

(* case: ((line, terminator) list, o_list, o_tuple, o_str, o_file (str path), o_path (pathlib.Path)) *)
Definition case09f := (list (str * str) * obs_t * obs_t * obs_t * obs_t * obs_t)%type.

Definition fidelity09f (c : case09f) : bool :=
  let '(pairs, ol, ot, os, of_, op) := c in
  match model09f pairs with
  | [ml; mt; ms; mf] => res_matches ml ol && res_matches mt ot && res_matches ms os && res_matches mf of_ && res_matches mf op
  | _ => false
  end.
Definition property09f (c : case09f) : bool :=
  let '(pairs, ol, ot, os, of_, op) := c in
  let text := text_of pairs in
  res_matches (Ok (lines_of pairs)) ol && res_matches (Ok (lines_of pairs)) ot
  && spec_str_ok text os && spec_file_ok text of_ && spec_file_ok text op && tree_consistent of_ op
  && tree_consistent ol ot && tree_consistent ol os && tree_consistent ol of_
  && tree_consistent os of_ && tree_consistent ot of_.
Definition agree09f (c : case09f) : bool := fidelity09f c && property09f c.
Definition show09f (c : case09f) := let '(pairs, _, _, _, _, _) := c in (model09f pairs, fidelity09f c, property09f c).

(* ---- save/load cycles.
   case: (enc, start, bytes written by the initial save_as of a list start, [(get_text(), file bytes)] per cycle)
   start = inl content (a file holding `content`) | inr lines (a list handed to the constructor) *)
Definition bytes_eqb (a b : list N) : bool := list_eqb N.eqb a b.
Definition case09c := (nat * (str + list str) * option (list N) * option (list (list str * list N)))%type.

Fixpoint follow (enc : nat) (content : str) (obs : list (list str * list N)) : bool :=
  match obs with
  | [] => true
  | (t, b) :: r =>
      let L := load content in
      let c' := save L in
      list_eqb str_eqb L t && bytes_eqb (encode enc c') b && follow enc c' r
  end.

Definition all_eq_first {A} (eqb : A -> A -> bool) (l : list A) : bool :=
  match l with [] => true | x :: r => forallb (eqb x) r end.

Definition fidelity09c (c : case09c) : bool :=
  let '(enc, start, b0, obs) := c in
  match obs with
  | None => false
  | Some obs =>
      match start, b0 with
      | inl content, None => follow enc content obs
      | inr ls, Some b => bytes_eqb (encode enc (save ls)) b && follow enc (save ls) obs
      | _, _ => false
      end
  end.
(* the property on the observations alone: from the first save on the bytes never change, and
   every load after the first save reads the same lines *)
Definition property09c (c : case09c) : bool :=
  let '(enc, start, b0, obs) := c in
  match obs with
  | None => false
  | Some obs =>
      match start with
      | inl _ => all_eq_first bytes_eqb (map snd obs) && all_eq_first (list_eqb str_eqb) (tl (map fst obs))
      | inr ls =>
          if forallb no_crlf ls then
            all_eq_first bytes_eqb (match b0 with Some b => [b] | None => [] end ++ map snd obs)
            && all_eq_first (list_eqb str_eqb) (map fst obs)
          else true
      end
  end.
Definition agree09c (c : case09c) : bool := fidelity09c c && property09c c.
Definition show09c (c : case09c) :=
  let '(enc, start, b0, obs) := c in
  let c0 := match start with inl x => x | inr ls => save ls end in
  (fidelity09c c, property09c c, load c0, encode enc (save (load c0)), load (cycle c0)).
