(* Correspondence predicates for C06 (text after every edit) and C07 (tree after every step, search refusal). *)
From Coq Require Import List Arith Bool NArith ZArith.
Require Import CCP.Lib.Res CCP.Lib.PyStr CCP.Model.Links CCP.Model.Parse CCP.Model.Family CCP.Model.Session.
Import ListNotations.

(* observation after one step: None = the operation raised (state must be unchanged);
   Some (texts, parents, search) : texts of parse.get_text(), parent per line (only meaningful when committed),
   search = 0 all search APIs answered / 1 all refused / 2 mixed / 3 not probed *)
Definition obs := option (list (list N) * list (option nat) * nat).
(* ((macro, ibl, auto_commit), delims, initial lines, steps) *)
Definition case06 := ((bool * bool * bool) * list N * list pline * list (op * obs))%type.

Definition texts_of (st : sess) : list (list N) := map ptext (s_lines st).

(* tie of the index model: on a committed ios state (auto_indent_width 1) the observed insertion must be explained by
   the index atf_child_index computes whenever the payload is indented exactly one deeper than the target *)
Definition atf_index_agrees (o : popts) (st : sess) (p : op) : bool :=
  match p with
  | OAtf i k x =>
      if s_dirty st || negb (o_macro o) then true else
      let ls := s_lines st in
      let li := linfo_of (o_delims o) (ptext (nth i ls (PL [] None))) in
      let lx := linfo_of (o_delims o) (ptext x) in
      match atf_child_index (tree_parents o ls) i (ind li) (ind lx) with
      | Some k' => list_eqb pline_text_eqb (insert_at k' x ls) (insert_at k x ls)
      | None => true
      end
  | _ => true
  end.

Fixpoint check_steps (o : popts) (ac : bool) (tree : bool) (st : sess) (steps : list (op * obs)) : bool :=
  match steps with
  | [] => true
  | (p, ob) :: r =>
      match step o ac st p, ob with
      | Raise _, None => check_steps o ac tree st r
      | Ok st', Some (ts, ps, sr) =>
          list_eqb str_eqb ts (texts_of st') && atf_index_agrees o st p &&
          (if tree && negb (s_dirty st') && (ac || match p with OCommit => true | _ => false end)
           then list_eqb (opt_eqb Nat.eqb) ps (tree_parents o (s_lines st')) else true) &&
          (if tree then match sr with
                        | 0 => search_allowed st'
                        | 1 => negb (search_allowed st')
                        | 3 => true
                        | _ => false
                        end else true) &&
          check_steps o ac tree st' r
      | _, _ => false
      end
  end.

Definition agree_hist (tree : bool) (c : case06) : bool :=
  let '((mac, ibl, ac), d, ls, steps) := c in
  let o := PO mac ibl d in
  check_steps o ac tree (start o ls) steps.
Definition agree06 := agree_hist false.
Definition agree07 := agree_hist true.

Definition model_hist (c : case06) : list (option (list (list N) * bool)) :=
  let '((mac, ibl, ac), d, ls, steps) := c in
  let o := PO mac ibl d in
  map (option_map (fun st => (texts_of st, s_dirty st))) (run_hist o ac (start o ls) (map fst steps)).
