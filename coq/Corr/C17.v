(* Correspondence predicates for C17: the real CiscoPassword helpers vs Model/Pw7.v. *)
From Coq Require Import NArith ZArith List Bool.
Require Import CCP.Lib.PyStr CCP.Lib.Res CCP.gen.TabC17 CCP.Model.Pw7.
Import ListNotations.
Open Scope N_scope.

Definition ostr_eqb (a b : option str) : bool := opt_eqb str_eqb a b.
Definition res2opt (r : result str) : option str := match r with Ok s => Some s | Raise _ => None end.

(* what the property itself demands to be rejected, independent of the generated table *)
Definition must_reject (pw : str) : bool :=
  Nat.ltb 127 (length pw) || existsb (fun c => N.eqb c 63 || N.eqb c 34) pw.

(* ---- stream t7ref: (salt, plaintext, reference encoding computed by the harness' own encoder, impl decrypt_type_7(enc))
   obs = None when decrypt_type_7 raised.
   (1) the model's reference encoder over the table read from the source reproduces the harness' encoding (pins the xlat table),
   (2) the model's decrypt7 equals the implementation's answer, (3) that answer is the plaintext.
   Salts above 52 (accepted by the code through the modulo, not produced by the reference implementations) are only checked for (1). *)
Definition model17ref (c : N * str * str * option str) : str * option str :=
  let '(salt, pw, enc, _) := c in (encrypt7 salt pw, res2opt (decrypt7 enc)).
Definition agree17ref (c : N * str * str * option str) : bool :=
  let '(salt, pw, enc, obs) := c in
  str_eqb (encrypt7 salt pw) enc &&
  (if salt <=? 52 then ostr_eqb (res2opt (decrypt7 enc)) obs && ostr_eqb obs (Some pw) else true).

(* ---- stream t7lib: (pw, obs); obs = None when encrypt_type_7 raised, else Some (enc, dec) with
   dec = decrypt_type_7(enc) (None when that raised) *)
Definition salt_of (enc : str) : option N :=
  match enc with
  | a :: b :: _ => if is_digit a && is_digit b then Some (10 * (a - 48) + (b - 48)) else None
  | _ => None
  end.
Definition model17lib (c : str * option (str * option str)) : option (option str) :=
  let '(pw, obs) := c in
  match pwd_check pw, obs with
  | Ok _, Some (enc, _) => Some (res2opt (decrypt7 enc))
  | _, _ => None
  end.
Definition agree17lib (c : str * option (str * option str)) : bool :=
  let '(pw, obs) := c in
  match obs with
  | None => match pwd_check pw with Raise _ => true | Ok _ => false end
  | Some (enc, dec) =>
      negb (must_reject pw) &&
      match pwd_check pw with
      | Raise _ => false
      | Ok _ =>
          match pw with
          | [] => true      (* the empty password is outside the property's quantifier (length 1..127) *)
          | _ => match salt_of enc with
                 | Some s => str_eqb enc (encrypt7 s pw) && ostr_eqb dec (res2opt (decrypt7 enc)) && ostr_eqb dec (Some pw)
                 | None => false
                 end
          end
      end
  end.

(* ---- stream t7passlib: (salt, pw, passlib's cisco_type7 encoding with that salt) *)
Definition model17pl (c : N * str * str) : str := let '(salt, pw, _) := c in encrypt7 salt pw.
Definition agree17pl (c : N * str * str) : bool := let '(salt, pw, enc) := c in str_eqb enc (encrypt7 salt pw).

(* ---- stream fmt89: (kind '8'/'9', pw, obs); obs = None when encrypt_type_8/9 raised, else
   Some (out, salt, digest): out = the returned string, salt = its third '$' field, digest = the KDF of (pw, salt)
   recomputed by an independent implementation in the harness (PBKDF2-HMAC-SHA256 20000 rounds / scrypt 16384,1,1; 32 bytes). *)
Definition in_alpha (c : char) : bool := existsb (N.eqb c) tab_cisco_b64.
Definition model17fmt (c : N * str * option (str * str * list N)) : option str :=
  let '(kind, pw, obs) := c in
  match pwd_check pw, obs with
  | Ok _, Some (_, salt, digest) => Some (type89_string kind salt digest)
  | _, _ => None
  end.
Definition agree17fmt (c : N * str * option (str * str * list N)) : bool :=
  let '(kind, pw, obs) := c in
  match obs with
  | None => match pwd_check pw with Raise _ => true | Ok _ => false end
  | Some (out, salt, digest) =>
      negb (must_reject pw) &&
      match pwd_check pw with
      | Raise _ => false
      | Ok _ => str_eqb out (type89_string kind salt digest) && Nat.eqb (length salt) 14 && forallb in_alpha salt
                && Nat.eqb (length digest) 32
      end
  end.
