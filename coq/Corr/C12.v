(* Correspondence predicate for C12: implementation result of `x in y` vs the reference model. *)
From Coq Require Import ZArith Bool List.
Require Import CCP.Lib.Res CCP.Model.IPRef.
Import ListNotations.
Open Scope Z_scope.

(* (W, y.addr, y.plen, x.addr, x.plen, r)  with r = 1 true / 0 false / 2 raised *)
Definition model12 (c : Z * Z * Z * Z * Z * Z) : Z :=
  let '(W, ya, yp, xa, xp, _) := c in
  if contains_ref W {| addr := ya; plen := yp |} {| addr := xa; plen := xp |} then 1 else 0.
Definition agree12 (c : Z * Z * Z * Z * Z * Z) : bool :=
  let '(_, _, _, _, _, r) := c in r =? model12 c.
