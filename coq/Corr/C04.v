(* Correspondence predicate for C04: one case = parsed forest (dumped from the real objects) +
   regex oracle (computed by the harness with python `re` as the SPECIFIED meaning of each flag) +
   one query + the implementation's answer. *)
From Coq Require Import List Arith Bool NArith.
Require Import CCP.Lib.PyStr CCP.Model.Search.
Import ListNotations.

Inductive query :=
| QFind (r : nat) (ex ws esc rv : bool)              (* find_objects *)
| QRoot (r : nat) (recurse : bool)                   (* CiscoConfParse.re_search_children *)
| QBranches (rs : list nat) (empty rv : bool)        (* find_object_branches, len rs >= 2 *)
| QParentsL (rs : list nat)                          (* find_parent_objects([..]) *)
| QParents2 (p c : nat) (ws recurse esc rv : bool)   (* find_parent_objects(p, c, ...) *)
| QChildrenL (rs : list nat)
| QChildren2 (p c : nat) (ws recurse esc rv : bool)
| QWo2 (p c : nat) (ws recurse esc rv : bool)        (* find_parent_objects_wo_child(p, c, ...) *)
| QWoL (p c : nat) (c2 : option nat)                 (* find_parent_objects_wo_child([p, c]); c2: see F03 *)
| QObjRSC (line r : nat) (recurse : bool)            (* obj.re_search_children *)
| QObjHCW (line r : nat) (allc : bool)               (* obj.has_child_with *)
| QObjRS (line r : nat).                             (* bool(obj.re_search(r, default=False)) *)

Inductive answer :=
| ALines (l : list nat)
| ABranches (b : list (list (option nat)))
| ABool (b : bool)
| ARaised.

(* forest literal: (children lists, parent indices, truthiness bits) *)
Definition forestT := (list (list nat) * list nat * N)%type.
(* oracle literal: per regex slot, per mode (0..7): (truth bits, nometa, literal bits, non-empty bits) *)
Definition oentry := (N * bool * N * N)%type.
Definition oracleT := list (list oentry).
Definition caseT := (forestT * oracleT * query * answer)%type.

Definition bit (v : N) (l : nat) : bool := N.testbit v (N.of_nat l).
Definition oget (o : oracleT) (md r : nat) : oentry := nth md (nth r o []) (0%N, false, 0%N, 0%N).
Definition o_rxm (o : oracleT) (md r l : nat) : bool := let '(t, _, _, _) := oget o md r in bit t l.
Definition o_nometa (o : oracleT) (md r : nat) : bool := let '(_, m, _, _) := oget o md r in m.
Definition o_lit (o : oracleT) (md r l : nat) : bool := let '(_, _, s, _) := oget o md r in bit s l.
Definition o_ne (o : oracleT) (md r l : nat) : bool := let '(_, _, _, e) := oget o md r in bit e l.

Definition f_kids (f : forestT) : list (list nat) := let '(k, _, _) := f in k.
Definition f_par (f : forestT) (l : nat) : nat := let '(_, p, _) := f in nth l p l.
Definition f_tru (f : forestT) (l : nat) : bool := let '(_, _, t) := f in bit t l.

Definition run_query (f : forestT) (o : oracleT) (q : query) : answer :=
  let K := f_kids f in
  let rx := o_rxm o in let nm := o_nometa o in let li := o_lit o in let nn := o_ne o in
  match q with
  | QFind r ex ws esc rv => ALines (find_objects K rx r ex ws esc rv)
  | QRoot r rc => ALines (ccp_re_search_children K (f_par f) rx r rc)
  | QBranches rs em rv => ABranches (find_object_branches K (f_tru f) rx rs em rv)
  | QParentsL rs => ALines (find_parent_objects_list K (f_tru f) rx rs)
  | QParents2 p c ws rc esc rv => ALines (find_parent_objects_2 K rx nm li p c ws rc esc rv)
  | QChildrenL rs => ALines (find_child_objects_list K (f_tru f) rx rs)
  | QChildren2 p c ws rc esc rv => ALines (find_child_objects_2 K rx nn p c ws rc esc rv)
  | QWo2 p c ws rc esc rv => ALines (find_parent_objects_wo_child_2 K rx nm li p c ws rc esc rv)
  | QWoL p c _ => ALines (find_parent_objects_wo_child_list K rx nm li p c)
  | QObjRSC l r rc => ALines (obj_re_search_children K rx nm li 0 r rc l)
  | QObjHCW l r allc => ABool (has_child_with K rx nm li r allc l)
  | QObjRS l r => ABool (re_search rx nm li 0 r l)
  end.

Definition nat_list_eqb := list_eqb Nat.eqb.
Definition answer_eqb (a b : answer) : bool :=
  match a, b with
  | ALines x, ALines y => nat_list_eqb x y
  | ABranches x, ABranches y => list_eqb (list_eqb (opt_eqb Nat.eqb)) x y
  | ABool x, ABool y => Bool.eqb x y
  | ARaised, ARaised => true
  | _, _ => false
  end.

(* ---- hypotheses of the C04 theorems, checked on every real case ---- *)
(* children have larger line numbers than their parent and are lines of the config *)
Definition wf_forest_b (f : forestT) : bool :=
  let K := f_kids f in
  forallb (fun p => forallb (fun c => (p <? c) && (c <? length K)) (nth p K [])) (seq 0 (length K)).
(* a line whose object is falsy (empty text) has no children and is nobody's child *)
Definition blank_ok_b (f : forestT) : bool :=
  let K := f_kids f in
  forallb (fun p => (f_tru f p || is_nil (nth p K [])) && forallb (f_tru f) (nth p K [])) (seq 0 (length K)).
(* the substring shortcut of BaseCfgLine.re_search is sound: no metacharacters and literal
   occurrence imply a regex match (modes without exactmatch: 0..3) *)
Definition shortcut_ok_b (f : forestT) (o : oracleT) : bool :=
  let n := length (f_kids f) in
  forallb (fun r => forallb (fun md => forallb (fun l =>
     negb (o_nometa o md r && o_lit o md r l) || o_rxm o md r l) (seq 0 n)) (seq 0 4)) (seq 0 (length o)).

Definition hyps_ok (c : caseT) : bool :=
  let '(f, o, _, _) := c in wf_forest_b f && blank_ok_b f && shortcut_ok_b f o.

Definition model04 (c : caseT) : answer := let '(f, o, q, _) := c in run_query f o q.

(* the F03 prediction, for display *)
Definition model04_impl_F03 (c : caseT) : option (list nat) :=
  let '(f, o, q, _) := c in
  match q with
  | QWoL p _ c2 => find_parent_objects_wo_child_list_impl (f_kids f) (o_rxm o) (o_nometa o) (o_lit o) p c2
  | _ => None
  end.

Definition agree04 (c : caseT) : bool :=
  let '(_, _, _, a) := c in answer_eqb a (model04 c) && hyps_ok c.

Definition show04 (c : caseT) := (model04 c, hyps_ok c, model04_impl_F03 c).

(* The harness requires the dumped forest to be the tree the text denotes; it computes that tree with a Python restatement of
   the indentation rule (harness/props/c04.py spec_links).  This predicate ties the restatement to the rule C02 is proved
   about (Model/Links.v spec_parents / spec_children): case = (line texts, parents, child lists) as computed in Python. *)
Require Import CCP.Model.Links.
Definition spec_case : Type := list str * list (option nat) * list (list nat).
Definition model_spec (c : spec_case) : list (option nat) * list (list nat) :=
  let '(texts, _, _) := c in
  let li := map (linfo_of [33%N]) texts in
  (spec_parents li, map (spec_children li) (seq 0 (length li))).
Definition agree_spec (c : spec_case) : bool :=
  let '(_, ps, ks) := c in
  let m := model_spec c in
  list_eqb (opt_eqb Nat.eqb) (fst m) ps && list_eqb (list_eqb Nat.eqb) (snd m) ks.
