(* Correspondence predicates for C13: comparison flags, arithmetic, setters, sorted(). *)
From Coq Require Import ZArith Bool List.
Require Import CCP.Lib.Res CCP.Lib.PyStr CCP.Model.IPRef.
Import ListNotations.
Open Scope Z_scope.

Definition mk (a p : Z) : ipo := {| addr := a; plen := p |}.
Definition b2z (b : bool) : Z := if b then 1 else 0.

(* cmp: (W, a, pa, b, pb, flags) flags = lt + 2 gt + 4 eq + 8 ne + 16 hash_equal (+ 32 if anything raised) *)
Definition model13cmp (c : Z * Z * Z * Z * Z * Z) : Z :=
  let '(W, a, pa, b, pb, _) := c in
  let x := mk a pa in let y := mk b pb in
  b2z (lt_ref W x y) + 2 * b2z (gt_ref W x y) + 4 * b2z (eq_ref x y) + 8 * b2z (negb (eq_ref x y)).
Definition agree13cmp (c : Z * Z * Z * Z * Z * Z) : bool :=
  let '(W, a, pa, b, pb, f) := c in
  (f mod 16 =? model13cmp c) && (f <? 32) &&
  (* equal objects must hash equal; unequal ones may collide *)
  (if eq_ref (mk a pa) (mk b pb) then Z.testbit f 4 else true).

(* arith: (W, a, p, n, op, result) op 0 = add, 1 = sub; result = Some (addr, plen) or None (raised) *)
Definition res2opt (r : result ipo) : option (Z * Z) :=
  match r with Ok o => Some (addr o, plen o) | Raise _ => None end.
Definition zz_eqb (x y : Z * Z) : bool := (fst x =? fst y) && (snd x =? snd y).
Definition model13arith (c : Z * Z * Z * Z * Z * option (Z * Z)) : option (Z * Z) :=
  let '(W, a, p, n, op, _) := c in
  res2opt (if op =? 0 then add_ref W (mk a p) n else sub_ref W (mk a p) n).
Definition agree13arith (c : Z * Z * Z * Z * Z * option (Z * Z)) : bool :=
  let '(_, _, _, _, _, r) := c in opt_eqb zz_eqb r (model13arith c).

(* setters: (W, a, p, kind, arg, result) kind 0 = prefix-length setter, 1 = network_offset setter;
   result = (address, prefix length, NETWORK NUMBER of the changed object) -- the order of C13 is keyed on the network *)
Definition zzz_eqb (x y : Z * Z * Z) : bool :=
  (fst (fst x) =? fst (fst y)) && (snd (fst x) =? snd (fst y)) && (snd x =? snd y).
Definition model13set (c : Z * Z * Z * Z * Z * option (Z * Z * Z)) : option (Z * Z * Z) :=
  let '(W, a, p, k, arg, _) := c in
  match (if k =? 0 then set_plen_ref W (mk a p) arg else set_offset_ref W (mk a p) arg) with
  | Ok o => Some (addr o, plen o, netw W o)
  | Raise _ => None
  end.
Definition agree13set (c : Z * Z * Z * Z * Z * option (Z * Z * Z)) : bool :=
  let '(_, _, _, _, _, r) := c in opt_eqb zzz_eqb r (model13set c).

(* sorted(): (W, input list, implementation's sorted list) *)
Definition model13sort (c : Z * list (Z * Z) * list (Z * Z)) : list (Z * Z) :=
  let '(W, l, _) := c in
  map (fun o => (addr o, plen o)) (sort_ref W (map (fun ap => mk (fst ap) (snd ap)) l)).
Definition agree13sort (c : Z * list (Z * Z) * list (Z * Z)) : bool :=
  let '(_, _, r) := c in list_eqb zz_eqb r (model13sort c).
