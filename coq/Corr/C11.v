(* Correspondence predicate for C11 (numeric layer): the integer values reported by a real address
   object built from (addr, plen) in some textual/integer/copy form vs the reference model. *)
From Coq Require Import ZArith Bool List.
Require Import CCP.Lib.Res CCP.Model.IPRef.
Import ListNotations.
Open Scope Z_scope.

(* (W, a, p, [addr; network; plen; netmask; hostmask; last; numhosts]) *)
Definition model11 (c : Z * Z * Z * list Z) : list Z :=
  let '(W, a, p, _) := c in
  let o := {| addr := a; plen := p |} in
  [addr o; netw W o; plen o; netmask W o; hostmask W o; lastaddr W o; numhosts_ref W o].
Fixpoint zl_eqb (a b : list Z) : bool :=
  match a, b with
  | [], [] => true
  | x :: r, y :: s => (x =? y) && zl_eqb r s
  | _, _ => false
  end.
Definition agree11 (c : Z * Z * Z * list Z) : bool :=
  let '(_, _, _, r) := c in zl_eqb r (model11 c).

(* textual layer, IPv4: (string, Some (addr, plen) | None = rejected) *)
Require Import CCP.Lib.PyStr CCP.Model.IPText.
Definition model11t (c : list N * option (Z * Z)) : option (Z * Z) := v4_parse (fst c).
Definition agree11t (c : list N * option (Z * Z)) : bool :=
  match snd c, model11t c with
  | None, None => true
  | Some (a, p), Some (b, q) => (a =? b) && (p =? q)
  | _, _ => false
  end.

(* textual layer, IPv6 *)
Require Import CCP.Model.IPText6.
Definition model11t6 (c : list N * option (Z * Z)) : option (Z * Z) := v6_parse (fst c).
Definition agree11t6 (c : list N * option (Z * Z)) : bool :=
  match snd c, model11t6 c with
  | None, None => true
  | Some (a, p), Some (b, q) => (a =? b) && (p =? q)
  | _, _ => false
  end.

(* string renderings, IPv4: (a, p, [str(ip); as_cidr_addr; as_cidr_net; str(netmask); str(hostmask); str(broadcast)]) against the
   renderer of Model/IPText.v, for which Proofs/IPTextProofs.v proves that every rendering re-parses to (a, p) *)
Definition model11r (c : Z * Z * list (list N)) : list (list N) :=
  let '(a, p, _) := c in
  let o := {| addr := a; plen := p |} in
  [render_quad a; render4 F_cidr a p; render4 F_cidr (netw 32 o) p; render_quad (netmask 32 o); render_quad (hostmask 32 o);
   render_quad (lastaddr 32 o)].
Definition agree11r (c : Z * Z * list (list N)) : bool := list_eqb str_eqb (snd c) (model11r c).

(* string renderings, IPv6: (a, p, [str(ip); as_cidr_addr; as_cidr_net; str(netmask); str(hostmask)]) against Model/IPRender6.v,
   for which Proofs/IPRender6Proofs.v proves that the rendering re-parses to the same value *)
Require Import CCP.Model.IPRender6.
Definition model11r6 (c : Z * Z * list (list N)) : list (list N) :=
  let '(a, p, _) := c in
  let o := {| addr := a; plen := p |} in
  [render6 a; render6_cidr a p; render6_cidr (netw 128 o) p; render6 (netmask 128 o); render6 (hostmask 128 o)].
Definition agree11r6 (c : Z * Z * list (list N)) : bool := list_eqb str_eqb (snd c) (model11r6 c).
