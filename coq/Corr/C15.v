(* Correspondence predicates for C15: the implementation's observed outputs (embedded in the case
   literal) against Model/Intf.v, and against the specification for grammar-generated inputs. *)
From Coq Require Import NArith List Bool.
Require Import CCP.Lib.PyStr CCP.Lib.Res CCP.Model.Intf.
Import ListNotations.
Open Scope N_scope.

(* as_dict(): prefix, digit_separator, slot, card, port, subinterface, channel, interface_class *)
Definition dict := (str * option str * option N * option N * option N * option N * option N * option str)%type.
Definition dict_of (c : intf) : dict :=
  (i_prefix c, i_sep c, i_slot c, i_card c, Some (i_port c), i_sub c, i_chan c, i_class c).
Definition on_eqb := opt_eqb N.eqb.
Definition os_eqb := opt_eqb str_eqb.
Definition dict_eqb (a b : dict) : bool :=
  let '(p1, s1, a1, b1, c1, d1, e1, f1) := a in
  let '(p2, s2, a2, b2, c2, d2, e2, f2) := b in
  str_eqb p1 p2 && os_eqb s1 s2 && on_eqb a1 a2 && on_eqb b1 b2 && on_eqb c1 c2 && on_eqb d1 d2
  && on_eqb e1 e2 && os_eqb f1 f2.

(* Some (as_dict, str(obj)) or None when the constructor raised *)
Definition obs1 := option (dict * str).
Definition obs1_eqb (a b : obs1) : bool :=
  opt_eqb (fun x y => dict_eqb (fst x) (fst y) && str_eqb (snd x) (snd y)) a b.
Definition model_obs (s : str) : obs1 :=
  match parse_intf s with Ok c => Some (dict_of c, render c) | Raise _ => None end.

(* ---- stream "parse": (s, obs of s, [obs of the re-parsed rendering, a == b, hash equal (small only)]) *)
Definition case_parse := (str * obs1 * option (obs1 * bool * option bool))%type.
Definition model_parse (c : case_parse) := let '(s, _, _) := c in
  (model_obs s, match parse_intf s with Ok a => Some (model_obs (render a)) | Raise _ => None end).
Definition agree_parse (c : case_parse) : bool :=
  let '(s, o1, second) := c in
  obs1_eqb (model_obs s) o1 &&
  match parse_intf s, second with
  | Raise _, None => true
  | Ok a, Some (o2, e, h) =>
      obs1_eqb (model_obs (render a)) o2 &&
      match parse_intf (render a) with
      | Ok b => eqb e (intf_eqb a b) &&
                (* the property constrains only: equal objects hash equally *)
                match h with Some hb => implb (intf_eqb a b) hb | None => true end
      | Raise _ => negb e
      end
  | _, _ => false
  end.

(* ---- stream "name_spec": grammar-generated name; the expected components are the generator's *)
Definition intf_of_dict (d : dict) : intf :=
  let '(p, s, a, b, c, e, f, g) := d in
  mk_intf p s a b (match c with Some n => n | None => 0 end) e f g.
(* (expected dict, canonical text, obs of the text, obs of the canonical text, a == b) *)
Definition case_spec := (dict * str * obs1 * obs1 * bool)%type.
Definition model_spec (c : case_spec) := let '(d, canon, _, _, _) := c in (render (intf_of_dict d), model_obs canon).
Definition agree_spec (c : case_spec) : bool :=
  let '(d, canon, o1, o2, e) := c in
  str_eqb (render (intf_of_dict d)) canon &&
  obs1_eqb o1 (Some (d, canon)) && obs1_eqb o2 (Some (d, canon)) && e.

(* ---- stream "order": two names; (lt, gt: 0 false / 1 true / 2 raised; eq; hash(a) == hash(b) when evaluated) *)
Definition case_order := (str * str * option (N * N * bool * option bool))%type.
Definition r2n (r : result bool) : N := match r with Ok true => 1 | Ok false => 0 | Raise _ => 2 end.
Definition model_order (c : case_order) :=
  let '(s1, s2, _) := c in
  match parse_intf s1, parse_intf s2 with
  | Ok a, Ok b => Some (r2n (intf_lt a b), r2n (intf_gt a b), intf_eqb a b)
  | _, _ => None
  end.
Definition agree_order (c : case_order) : bool :=
  let '(s1, s2, o) := c in
  match parse_intf s1, parse_intf s2, o with
  | Ok a, Ok b, Some (l, g, e, h) =>
      N.eqb l (r2n (intf_lt a b)) && N.eqb g (r2n (intf_gt a b)) && eqb e (intf_eqb a b) &&
      match h with Some hb => implb (intf_eqb a b) hb | None => true end
  | Ok _, Ok _, None => false
  | _, _, None => true
  | _, _, Some _ => false
  end.

(* ---- stream "sorted": names, Some (renderings of sorted(objects)) or None when it raised *)
Definition case_sorted := (list str * option (list str))%type.
Definition model_sorted (c : case_sorted) : option (list str) :=
  match map_res parse_intf (fst c) with
  | Ok l => match py_sorted l with Ok r => Some (map render r) | Raise _ => None end
  | Raise _ => None
  end.
Definition agree_sorted (c : case_sorted) : bool :=
  opt_eqb (list_eqb str_eqb) (model_sorted c) (snd c).

(* ---- stream "range": text, readers, None (constructor raised) or the outputs of the readers *)
Definition rout_eqb (a b : rout) : bool :=
  match a, b with
  | O_len x, O_len y => N.eqb x y
  | O_list x, O_list y => list_eqb str_eqb x y
  | O_set x, O_set y => list_eqb str_eqb x y
  | O_raise, O_raise => true
  | _, _ => false
  end.
Definition case_range := (str * list reader * option (list rout))%type.
Definition model_range (c : case_range) : option (list rout) :=
  let '(t, rs, _) := c in
  match parse_range t with Ok st => Some (snd (read_all st rs)) | Raise _ => None end.
Definition agree_range (c : case_range) : bool :=
  let '(_, _, o) := c in opt_eqb (list_eqb rout_eqb) (model_range c) o.

(* ---- stream "range_spec": grammar-generated range.  base = the first interface (dict), k = iterated
   component (0 port, 1 subinterface, 2 channel), items = (a, None) | (a, Some b); observed = Some
   (renderings in list order, len) or None.  Expected: the base with its iterated component replaced by
   every listed value, each once, ascending. *)
Definition attr_of (k : N) : iattr := match k with 0 => A_port | 1 => A_sub | _ => A_chan end.
Fixpoint insert_N (x : N) (l : list N) : list N :=
  match l with
  | [] => [x]
  | y :: r => if N.ltb y x then y :: insert_N x r else if N.eqb x y then l else x :: l
  end.
Definition item_values (it : N * option N) : list N :=
  match snd it with None => [fst it] | Some b => py_range (fst it) b end.
Definition spec_values (items : list (N * option N)) : list N :=
  fold_right insert_N [] (flat_map item_values items).
Definition spec_members (base : intf) (a : iattr) (items : list (N * option N)) : list intf :=
  map (fun v => set_attr a base (Some v)) (spec_values items).
Definition case_rspec := (dict * N * list (N * option N) * option (list str * N))%type.
Definition model_rspec (c : case_rspec) : list str :=
  let '(d, k, items, _) := c in map render (spec_members (intf_of_dict d) (attr_of k) items).
Definition agree_rspec (c : case_rspec) : bool :=
  let '(_, _, _, o) := c in
  match o with
  | Some (l, n) => list_eqb str_eqb (model_rspec c) l && N.eqb n (N.of_nat (length (model_rspec c)))
  | None => false
  end.
