(* Correspondence predicate for C05: forest dumped from the real objects + regex/group oracle +
   conversion oracle + one query + the implementation's answer (value ids interned by the harness). *)
From Coq Require Import List Arith Bool NArith.
Require Import CCP.Lib.Res CCP.Lib.PyStr CCP.Model.Search CCP.Model.Extract.
Import ListNotations.

Inductive query5 :=
| QMatch (line : nat)                          (* obj.re_match(rx, group, default) *)
| QTyped (line : nat) (untyped : bool)         (* obj.re_match_typed *)
| QIter (line : nat) (recurse untyped : bool)  (* obj.re_match_iter_typed *)
| QList (line : nat) (recurse : bool)          (* obj.re_list_iter_typed *)
| QRootIter (untyped : bool).                  (* parse.re_match_iter_typed *)

Inductive answer5 := RVal (r : result nat) | RList (r : result (list nat)).

(* (children lists, parent indices) , mg per line, conv per string, conv_none, dconv, draw *)
Definition case5T := ((list (list nat) * list nat) * list mres * list (result nat) * result nat * result nat * nat * query5 * answer5)%type.

Definition run_query5 (c : case5T) : answer5 :=
  let '(f, mgl, convl, cnone, dconv, draw, q, _) := c in
  let '(K, P) := f in
  let par := fun l => nth l P l in
  let mg := fun l => nth l mgl NoM in
  let conv := fun s => nth s convl (Raise E_Other) in
  match q with
  | QMatch l => RVal (re_match mg conv cnone draw l)
  | QTyped l u => RVal (re_match_typed mg conv dconv draw l u)
  | QIter l rc u => RVal (re_match_iter_typed K mg conv cnone dconv draw l rc u)
  | QList l rc => RList (re_list_iter_typed K mg conv cnone l rc)
  | QRootIter u => RVal (ccp_re_match_iter_typed K par mg conv cnone dconv draw u)
  end.

Definition answer5_eqb (a b : answer5) : bool :=
  match a, b with
  | RVal x, RVal y => res_eqb_anyexn Nat.eqb x y
  | RList x, RList y => res_eqb_anyexn (list_eqb Nat.eqb) x y
  | _, _ => false
  end.

(* hypothesis of the recurse=True theorems, checked on every real case *)
Definition wf_forest5_b (K : list (list nat)) : bool :=
  forallb (fun p => forallb (fun c => (p <? c) && (c <? length K)) (nth p K [])) (seq 0 (length K)).

Definition model05 (c : case5T) : answer5 := run_query5 c.
Definition agree05 (c : case5T) : bool :=
  let '(f, _, _, _, _, _, _, a) := c in
  answer5_eqb a (model05 c) && wf_forest5_b (fst f).
