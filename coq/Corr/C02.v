(* Correspondence predicate for C02: links reported by the real parser vs the model. *)
From Coq Require Import List Arith Bool NArith.
Require Import CCP.Lib.PyStr CCP.Model.Links.
Import ListNotations.

(* (comment delimiters, line texts, parent per line (None = root), children per line) *)
Definition case02 := (list N * list (list N) * list (option nat) * list (list nat))%type.
Definition model02 (c : case02) : list (option nat) * list (list nat) :=
  let '(d, ls, _, _) := c in
  let li := map (linfo_of d) ls in
  (bootstrap_parents li, map (bootstrap_children li) (seq 0 (length ls))).
Definition agree02 (c : case02) : bool :=
  let '(_, _, ps, cs) := c in
  let m := model02 c in
  list_eqb (opt_eqb Nat.eqb) ps (fst m) && list_eqb (list_eqb Nat.eqb) cs (snd m).
