(* Correspondence predicates for C16: the real MACObj / EUI64Obj / MACEUISearch vs Model/Mac.v. *)
From Coq Require Import NArith List Bool.
Require Import CCP.Lib.PyStr CCP.Lib.Res CCP.Model.Mac.
Import ListNotations.
Open Scope N_scope.

Definition unres (r : result str) : option str := match r with Ok s => Some s | Raise _ => None end.
Fixpoint all_some (l : list (option str)) : option (list str) :=
  match l with
  | [] => Some []
  | None :: _ => None
  | Some x :: r => match all_some r with Some y => Some (x :: y) | None => None end
  end.

(* stream obj: (W, s, obs).  obs = None when the constructor raised, else
   Some (renderings, flags): renderings = [cisco; dash; colon; unix] for W = 48, [cisco; dash; colon] for W = 64;
   flags[i] = (Obj(renderings[i]) == Obj(s)) evaluated by the implementation. *)
Definition obs16 := option (list str * list bool).
Definition renderings (W : N) (v : N) : option (list str) :=
  if W =? 48 then all_some (map unres [mac_cisco v; mac_dash v; mac_colon v; mac_unix v])
  else all_some (map unres [eui_cisco v; eui_dash v; eui_colon v]).
Definition new_ (W : N) (s : str) : result N := if W =? 48 then mac_new s else eui_new s.
Definition eq_ (W : N) (a b : N) : result bool := if W =? 48 then mac_eq a b else eui_eq a b.
Definition reparse_flag (W : N) (v : N) (r : str) : bool :=
  match new_ W r with
  | Ok v' => match eq_ W v' v with Ok b => b | Raise _ => false end
  | Raise _ => false
  end.
Definition model16 (c : N * str * obs16) : obs16 :=
  let '(W, s, _) := c in
  match new_ W s with
  | Raise _ => None
  | Ok v => match renderings W v with
            | None => None      (* a rendering raised: cannot happen, see Props/C16.v *)
            | Some rs => Some (rs, map (reparse_flag W v) rs)
            end
  end.
Definition obs16_eqb (a b : obs16) : bool :=
  opt_eqb (fun x y => list_eqb str_eqb (fst x) (fst y) && list_eqb Bool.eqb (snd x) (snd y)) a b.
Definition agree16 (c : N * str * obs16) : bool := obs16_eqb (snd c) (model16 c).

(* stream eq: (W, s1, s2, r), r = 1 equal / 0 different / 2 a constructor or == raised *)
Definition model16eq (c : N * str * str * N) : N :=
  let '(W, s1, s2, _) := c in
  match new_ W s1, new_ W s2 with
  | Ok a, Ok b => match eq_ W a b with Ok true => 1 | Ok false => 0 | Raise _ => 2 end
  | _, _ => 2
  end.
Definition agree16eq (c : N * str * str * N) : bool := snd c =? model16eq c.

(* stream search: (word, kind, cisco) with kind = 0 (mac_retval is None) / 48 (MACObj) / 64 (EUI64Obj) and
   cisco = mac_retval.cisco ([] when None) *)
Definition model16s (c : str * N * str) : N * str :=
  let '(w, _, _) := c in
  match classify w with
  | F_none => (0, [])
  | F_mac v => (48, match mac_cisco v with Ok s => s | Raise _ => [] end)
  | F_eui64 v => (64, match eui_cisco v with Ok s => s | Raise _ => [] end)
  end.
Definition agree16s (c : str * N * str) : bool :=
  let '(_, k, r) := c in let '(k', r') := model16s c in (k =? k') && str_eqb r r'.
