(* Correspondence predicates for C10.
   Stream "neutral": (old form, new form, get_diff() of the implementation, get_rollback() of it).
     The implementation's printed lines are read back into commands and
       (1) checked against the property's clauses directly (spec_ok: application yields the new
           config's path set, additions absent from old unless they are context lines, removals
           present in old and absent from new) in both directions, and
       (2) compared, as a set of commands, with the model's output.
   Stream "device": outputs of the real code for the same pair given in different input forms, through
     the CLI, the mirror diff and the self diff; only equalities (device-independent clauses). *)
From Coq Require Import NArith ZArith List Bool.
Require Import CCP.Lib.PyStr CCP.Model.Diff.
Import ListNotations.

Definition case10 := (form * form * list str * list str)%type.

Definition model10 (c : case10) : list str * list str :=
  let '(o, n, _, _) := c in (get_diff o n, get_rollback o n).

Definition agree10 (c : case10) : bool :=
  let '(o, n, d, r) := c in
  let po := paths (load o) in
  let pn := paths (load n) in
  let cd := parse_out d in
  let cr := parse_out r in
  spec_ok po pn cd && spec_ok pn po cr
  && seteq_b cd (parse_out (get_diff o n)) && seteq_b cr (parse_out (get_rollback o n)).

Definition lines_eqb (a b : list str) : bool := list_eqb str_eqb a b.
Definition all_same (l : list (list str)) : bool :=
  match l with [] => true | x :: r => forallb (lines_eqb x) r end.

(* (all renderings of the diff, all renderings of the rollback incl. the mirror diff, the self diff) *)
Definition case10dev := (list (list str) * list (list str) * list str)%type.
Definition agree10dev (c : case10dev) : bool :=
  let '(ds, rs, self) := c in
  all_same ds && all_same rs && match self with [] => true | _ => false end.
