(* Correspondence predicates for C10.
   Stream "neutral": (old form, new form, get_diff() of the implementation, get_rollback() of it).
     The implementation's printed lines are read back into commands and
       (1) checked against the property's clauses directly (spec_ok: application yields the new
           config's path set, additions absent from old unless they are context lines, removals
           present in old and absent from new) in both directions, and
       (2) compared, as a set of commands, with the model's output.
   Stream "device": outputs of the real code for the same pair given in different input forms, through
     the CLI, the mirror diff and the self diff; only equalities (device-independent clauses). *)
From Coq Require Import NArith ZArith List Bool.
Require Import CCP.Lib.PyStr CCP.Model.Diff.
Import ListNotations.

Definition case10 := (form * form * list str * list str)%type.

Definition model10 (c : case10) : list str * list str :=
  let '(o, n, _, _) := c in (get_diff o n, get_rollback o n).

Definition agree10 (c : case10) : bool :=
  let '(o, n, d, r) := c in
  let po := paths (load o) in
  let pn := paths (load n) in
  let cd := parse_out d in
  let cr := parse_out r in
  spec_ok po pn cd && spec_ok pn po cr
  && seteq_b cd (parse_out (get_diff o n)) && seteq_b cr (parse_out (get_rollback o n)).

(* device stream: the driver compared outputs of the real code with each other:
   (all renderings of the diff equal, all renderings of the rollback incl. the mirror diff equal, self diff empty) *)
Definition case10dev := (bool * bool * bool)%type.
Definition agree10dev (c : case10dev) : bool := let '(a, b, e) := c in a && b && e.
