(* Correspondence predicates for C19.
   intf  : (header text, all_children as (is direct child, text), accessor values of the real IOSIntfLine,
            flag: the driver found these values equal to the structured description the stanza was rendered from)
   route : (line, accessor values of the real IOSRouteLine, the same flag)
   transp: (dump with factory=False, dump with factory=True) — equality only (tested, not modelled). *)
From Coq Require Import NArith ZArith List Bool.
Require Import CCP.Lib.PyStr CCP.Model.IntfCfg.
Import ListNotations.

Definition oZ_eqb := opt_eqb Z.eqb.
Definition sec_eqb (a b : str * Z) : bool := str_eqb (fst a) (fst b) && Z.eqb (snd a) (snd b).
Definition sec_sub (a b : list (str * Z)) : bool := forallb (fun x => existsb (sec_eqb x) b) a.
Definition secs_eqb (a b : option (list (str * Z))) : bool :=
  match a, b with
  | Some x, Some y => sec_sub x y && sec_sub y x
  | None, None => true
  | _, _ => false
  end.

(* name, port_type, ordinal_list (None = raised) *)
Definition obs_a := (str * str * option (list Z))%type.
(* description, ipv4_addr, ipv4_netmask, ipv4_masklength, secondaries (address, mask length) *)
Definition obs_b := (str * str * str * option Z * option (list (str * Z)))%type.
(* vrf, manual_mtu, is_shutdown *)
Definition obs_c := (str * option Z * bool)%type.
(* is_switchport, access_vlan, native_vlan, trunk_vlans_allowed (bit set), portchannel_number *)
Definition obs_d := (bool * option Z * option Z * option N * option Z)%type.
Definition obs_intf := (obs_a * obs_b * obs_c * obs_d)%type.

Definition model_intf (st : stanza) : option (list Z) * obs_intf :=
  (acc_ordinal st,
   ((acc_name st, acc_port_type st, acc_ordinal st),
    (acc_description st, acc_ipv4_addr st, acc_ipv4_netmask st, acc_ipv4_masklength st, acc_secondaries st),
    (acc_vrf st, acc_mtu st, acc_shutdown st),
    (acc_is_switchport st, acc_access_vlan st, acc_native_vlan st, acc_trunk_allowed st, acc_portchannel st))).

(* ord_model = None: the interface name has a shape the ordinal model does not cover -> not compared *)
Definition obs_eqb (ord_model : option (list Z)) (m o : obs_intf) : bool :=
  let '((n1, p1, o1), (d1, a1, k1, l1, s1), (v1, m1, h1), (w1, x1, y1, t1, c1)) := m in
  let '((n2, p2, o2), (d2, a2, k2, l2, s2), (v2, m2, h2), (w2, x2, y2, t2, c2)) := o in
  str_eqb n1 n2 && str_eqb p1 p2
  && match ord_model with None => true | Some _ => opt_eqb (list_eqb Z.eqb) o1 o2 end
  && str_eqb d1 d2 && str_eqb a1 a2 && str_eqb k1 k2 && oZ_eqb l1 l2 && secs_eqb s1 s2
  && str_eqb v1 v2 && oZ_eqb m1 m2 && Bool.eqb h1 h2
  && Bool.eqb w1 w2 && oZ_eqb x1 x2 && oZ_eqb y1 y2 && opt_eqb N.eqb t1 t2 && oZ_eqb c1 c2.

(* the last component: the driver found the real values equal to the generating description *)
Definition case19i := (str * list (bool * str) * obs_intf * bool)%type.
Definition model19i (c : case19i) : obs_intf :=
  let '(h, d, _, _) := c in snd (model_intf {| hdr := h; desc := d |}).
Definition agree19i (c : case19i) : bool :=
  let '(h, d, o, e) := c in
  let '(om, m) := model_intf {| hdr := h; desc := d |} in
  obs_eqb om m o && e.

(* route: vrf, network, netmask, masklen, next_hop_interface, next_hop_addr, admin_distance, route_name,
   tracking_object_name, tag;   None = the IOSRouteLine constructor raised *)
Definition obs_route := option (str * str * str * option Z * str * str * option Z * str * str * str).
Definition model_route (l : str) : obs_route :=
  match parse_route l with
  | Some r => Some (r_vrf r, r_prefix r, r_mask r, r_masklen r, r_nh_intf r, r_nh_addr r, r_ad r, r_name r, r_track r, r_tag r)
  | None => None
  end.
Definition route_eqb (a b : obs_route) : bool :=
  match a, b with
  | Some (v1, p1, m1, l1, i1, a1, d1, n1, t1, g1), Some (v2, p2, m2, l2, i2, a2, d2, n2, t2, g2) =>
      str_eqb v1 v2 && str_eqb p1 p2 && str_eqb m1 m2 && oZ_eqb l1 l2 && str_eqb i1 i2 && str_eqb a1 a2
      && oZ_eqb d1 d2 && str_eqb n1 n2 && str_eqb t1 t2 && str_eqb g1 g2
  | None, None => true
  | _, _ => false
  end.
Definition case19r := (str * obs_route * bool)%type.
Definition model19r (c : case19r) : obs_route := let '(l, _, _) := c in model_route l.
Definition agree19r (c : case19r) : bool :=
  let '(l, o, e) := c in
  route_eqb (model_route l) o && e.

(* transparency: per line (text, parent linenum, children linenums) *)
Definition dump := list (str * Z * list Z).
Definition dline_eqb (a b : str * Z * list Z) : bool :=
  let '(t1, p1, c1) := a in let '(t2, p2, c2) := b in
  str_eqb t1 t2 && Z.eqb p1 p2 && list_eqb Z.eqb c1 c2.
Definition case19t := (dump * dump)%type.
Definition agree19t (c : case19t) : bool := list_eqb dline_eqb (fst c) (snd c).
