(* Correspondence predicate for C14.
   case = (text, ops, observed) where observed = (data after the constructor as runs | None = raised,
   per call: (data after the call as runs, result of the call)).
   Lists are transported as runs (maximal segments x, x+1, x+2, ... written (first, last)); the encoding
   is injective (Proofs/RangeProofs.runs_injective), so comparing runs is comparing the lists. *)
From Coq Require Import NArith ZArith List Bool.
Require Import CCP.Lib.PyStr CCP.Lib.Res CCP.Model.Range.
Import ListNotations.
Open Scope Z_scope.

Inductive o14 := XInt (z : Z) | XRuns (l : list (Z * Z)) | XStr (s : str) | XBool (b : bool) | XDone | XRaised.

Definition zz_eqb (a b : Z * Z) : bool := (fst a =? fst b) && (snd a =? snd b).
Definition runs_eqb (a b : list (Z * Z)) : bool := list_eqb zz_eqb a b.

Definition enc_out (v : out) : o14 :=
  match v with
  | VInt n => XInt n | VList l => XRuns (runs l) | VStr s => XStr s | VBool b => XBool b
  | VDone => XDone | VRaised => XRaised
  end.
Definition o14_eqb (a b : o14) : bool :=
  match a, b with
  | XInt x, XInt y => x =? y
  | XRuns x, XRuns y => runs_eqb x y
  | XStr x, XStr y => str_eqb x y
  | XBool x, XBool y => Bool.eqb x y
  | XDone, XDone => true
  | XRaised, XRaised => true
  | _, _ => false
  end.

Definition case14 : Type := str * list op * (option (list (Z * Z)) * list (list (Z * Z) * o14)).

Definition model14 (c : case14) : option (list (Z * Z)) * list (list (Z * Z) * o14) :=
  let '(text, ops, _) := c in
  match ctor text with
  | Raise _ => (None, [])
  | Ok st => (Some (runs st), map (fun p => (runs (fst p), enc_out (snd p))) (run_ops st ops))
  end.

Definition step_eqb (a b : list (Z * Z) * o14) : bool := runs_eqb (fst a) (fst b) && o14_eqb (snd a) (snd b).

Definition agree14 (c : case14) : bool :=
  let '(_, _, obs) := c in
  let m := model14 c in
  opt_eqb runs_eqb (fst m) (fst obs) && list_eqb step_eqb (snd m) (snd obs).
