(* Correspondence predicates for C20.
   groups stream: case = (names, groups, acls, oracle, observed)
     oracle   : for every string that occurs in an observed network_strings list, what IPv4Obj(string) gave
                ((address, prefix length) or None = raised) — IPv4Obj is C11's subject and a parameter here;
     observed : (names dict, group dict as (name, line), acl dict as (name, lines),
                 per group in config order: (network_strings | None = raised, networks | None, networks again | None)).
   ports stream: case = (protocol, port_spec, syntax, port_list as runs | None = raised). *)
From Coq Require Import NArith ZArith List Bool.
Require Import CCP.Lib.PyStr CCP.Lib.Res CCP.Model.Range CCP.Model.Asa CCP.Model.L4.
Import ListNotations.
Open Scope Z_scope.

Definition zz_eqb (a b : Z * Z) : bool := (fst a =? fst b) && (snd a =? snd b).

(* equality of two dicts with unique keys, irrespective of order *)
Definition dict_eqb {V W} (eqv : V -> W -> bool) (a : list (str * V)) (b : list (str * W)) : bool :=
  (length a =? length b)%nat &&
  forallb (fun kv => match dict_get b (fst kv) with Some w => eqv (snd kv) w | None => false end) a.
Fixpoint keys_unique {V} (d : list (str * V)) : bool :=
  match d with [] => true | (k, _) :: r => match dict_get r k with Some _ => false | None => keys_unique r end end.

Definition obs_group : Type := option (list str) * option (list (Z * Z)) * option (list (Z * Z)).
Definition obs20 : Type := list (str * str) * list (str * Z) * list (str * list Z) * list obs_group.
Definition case20g : Type :=
  list (str * str) * list group * list (str * Z) * list (str * option (Z * Z)) * obs20.

Definition oracle_fun (o : list (str * option (Z * Z))) (s : str) : result (Z * Z) :=
  match dict_get o s with Some (Some v) => Ok v | _ => Raise E_AddressValueError end.

Definition res_opt {A} (r : result A) : option A := match r with Ok a => Some a | Raise _ => None end.

(* the harness asks every group, in config order: network_strings, networks, networks *)
Fixpoint model_groups (c : config) (oracle : list (str * option (Z * Z))) (cache : list (str * (Z * Z)))
         (gs : list group) : list obs_group :=
  match gs with
  | [] => []
  | g :: r =>
      let ns := network_strings c g in
      match ns with
      | Raise _ => (None, None, None) :: model_groups c oracle cache r
      | Ok strs =>
          let '(n1, cache1) := networks_loop (Z * Z) (oracle_fun oracle) cache strs in
          let '(n2, cache2) := networks_loop (Z * Z) (oracle_fun oracle) cache1 strs in
          (Some strs, res_opt n1, res_opt n2) :: model_groups c oracle cache2 r
      end
  end.

Definition model20g (cs : case20g) : obs20 :=
  let '(names, groups, acls, oracle, _) := cs in
  let c := Build_config names groups acls in
  (names_table c, map (fun e => (fst e, g_line (snd e))) (group_table c), acl_table c,
   model_groups c oracle [] groups).

Definition obs_group_eqb (a b : obs_group) : bool :=
  let '(s1, n1, m1) := a in let '(s2, n2, m2) := b in
  opt_eqb (list_eqb str_eqb) s1 s2 && opt_eqb (list_eqb zz_eqb) n1 n2 && opt_eqb (list_eqb zz_eqb) m1 m2.

Definition agree20g (cs : case20g) : bool :=
  let '(_, _, _, _, obs) := cs in
  let '(on, og, oa, ogs) := obs in
  let '(mn, mg, ma, mgs) := model20g cs in
  keys_unique on && keys_unique og && keys_unique oa &&
  dict_eqb str_eqb mn on && dict_eqb Z.eqb mg og && dict_eqb (list_eqb Z.eqb) ma oa &&
  list_eqb obs_group_eqb mgs ogs.

(* ---------------------------------------------------------------- ports *)
(* (protocol, port_spec, syntax, observed port_list as runs | None = raised,
    expectation: None | Some (what the spec DENOTES according to the harness' own reading of the property)) *)
Definition case20p : Type := str * str * str * option (list (Z * Z)) * option (option (list (Z * Z))).
Definition model20p (c : case20p) : option (list (Z * Z)) :=
  let '(proto, spec, syntax, _, _) := c in
  match l4_object proto spec syntax with Ok l => Some (runs l) | Raise _ => None end.
Definition agree20p (c : case20p) : bool :=
  let '(_, _, _, obs, expect) := c in
  opt_eqb (list_eqb zz_eqb) (model20p c) obs &&
  match expect with None => true | Some e => opt_eqb (list_eqb zz_eqb) e obs end.
