(* Obligations regenerated on every run: comparison, arithmetic and setter methods of
   IPv4Obj / IPv6Obj, as translated from the current /repo source, equal the reference. *)
From Coq Require Import ZArith Lia Bool.
Require Import CCP.Lib.Res CCP.Lib.Pow2 CCP.Model.IPRef CCP.gen.GenIP CCP.gen.GenTac.
Open Scope Z_scope.

Ltac two W self val Hs Hv := abstract_obj W self Hs; abstract_obj W val Hv; finish.

Lemma gen_v4_eq_ok self val : wf 32 self -> wf 32 val -> gen_v4_eq self val = Ok (eq_ref self val).
Proof. intros Hs Hv. repeat autounfold with genip. unfold eq_ref. two 32 self val Hs Hv. Qed.
Lemma gen_v6_eq_ok self val : wf 128 self -> wf 128 val -> gen_v6_eq self val = Ok (eq_ref self val).
Proof. intros Hs Hv. repeat autounfold with genip. unfold eq_ref. two 128 self val Hs Hv. Qed.

Lemma gen_v4_ne_ok self val : wf 32 self -> wf 32 val -> gen_v4_ne self val = Ok (negb (eq_ref self val)).
Proof. intros Hs Hv. repeat autounfold with genip. unfold eq_ref. two 32 self val Hs Hv. Qed.
Lemma gen_v6_ne_ok self val : wf 128 self -> wf 128 val -> gen_v6_ne self val = Ok (negb (eq_ref self val)).
Proof. intros Hs Hv. repeat autounfold with genip. unfold eq_ref. two 128 self val Hs Hv. Qed.

Lemma gen_v4_lt_ok self val : wf 32 self -> wf 32 val -> gen_v4_lt self val = Ok (lt_ref 32 self val).
Proof. intros Hs Hv. repeat autounfold with genip. unfold lt_ref. two 32 self val Hs Hv. Qed.
Lemma gen_v6_lt_ok self val : wf 128 self -> wf 128 val -> gen_v6_lt self val = Ok (lt_ref 128 self val).
Proof. intros Hs Hv. repeat autounfold with genip. unfold lt_ref. two 128 self val Hs Hv. Qed.

Lemma gen_v4_gt_ok self val : wf 32 self -> wf 32 val -> gen_v4_gt self val = Ok (gt_ref 32 self val).
Proof. intros Hs Hv. repeat autounfold with genip. unfold gt_ref. two 32 self val Hs Hv. Qed.
Lemma gen_v6_gt_ok self val : wf 128 self -> wf 128 val -> gen_v6_gt self val = Ok (gt_ref 128 self val).
Proof. intros Hs Hv. repeat autounfold with genip. unfold gt_ref. two 128 self val Hs Hv. Qed.

Ltac one W self Hs := abstract_obj W self Hs; finish.

Lemma gen_v4_add_ok self n : wf 32 self -> gen_v4_add self n = add_ref 32 self n.
Proof. intros Hs. repeat autounfold with genip. unfold add_ref. one 32 self Hs. Qed.
Lemma gen_v6_add_ok self n : wf 128 self -> gen_v6_add self n = add_ref 128 self n.
Proof. intros Hs. repeat autounfold with genip. unfold add_ref. one 128 self Hs. Qed.

Lemma gen_v4_sub_ok self n : wf 32 self -> gen_v4_sub self n = sub_ref 32 self n.
Proof. intros Hs. repeat autounfold with genip. unfold sub_ref. one 32 self Hs. Qed.
Lemma gen_v6_sub_ok self n : wf 128 self -> gen_v6_sub self n = sub_ref 128 self n.
Proof. intros Hs. repeat autounfold with genip. unfold sub_ref. one 128 self Hs. Qed.

Lemma gen_v4_set_prefixlen_ok self p : gen_v4_set_prefixlen self p = set_plen_ref 32 self p.
Proof. repeat autounfold with genip. unfold set_plen_ref. finish. Qed.
Lemma gen_v4_set_masklen_ok self p : gen_v4_set_masklen self p = set_plen_ref 32 self p.
Proof. repeat autounfold with genip. unfold set_plen_ref. finish. Qed.
Lemma gen_v4_set_prefixlength_ok self p : gen_v4_set_prefixlength self p = set_plen_ref 32 self p.
Proof. repeat autounfold with genip. unfold set_plen_ref. finish. Qed.
Lemma gen_v4_set_masklength_ok self p : gen_v4_set_masklength self p = set_plen_ref 32 self p.
Proof. repeat autounfold with genip. unfold set_plen_ref. finish. Qed.
Lemma gen_v6_set_prefixlen_ok self p : gen_v6_set_prefixlen self p = set_plen_ref 128 self p.
Proof. repeat autounfold with genip. unfold set_plen_ref. finish. Qed.
Lemma gen_v6_set_masklen_ok self p : gen_v6_set_masklen self p = set_plen_ref 128 self p.
Proof. repeat autounfold with genip. unfold set_plen_ref. finish. Qed.
Lemma gen_v6_set_masklength_ok self p : gen_v6_set_masklength self p = set_plen_ref 128 self p.
Proof. repeat autounfold with genip. unfold set_plen_ref. finish. Qed.

Lemma gen_v4_set_network_offset_ok self k : wf 32 self ->
  gen_v4_set_network_offset self k = set_offset_ref 32 self k.
Proof.
  intros Hs. repeat autounfold with genip. unfold set_offset_ref.
  one 32 self Hs.
Qed.
Lemma gen_v6_set_network_offset_ok self k : wf 128 self ->
  gen_v6_set_network_offset self k = set_offset_ref 128 self k.
Proof.
  intros Hs. repeat autounfold with genip. unfold set_offset_ref.
  one 128 self Hs.
Qed.
