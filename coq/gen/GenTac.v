(* Generic tactic proving a translated method equal to its hand-written reference:
   unfold, expose 2^e and the network numbers as opaque variables, split every boolean
   comparison, finish with lia.  A semantic edit of the Python method breaks the lemma;
   a cosmetic one (reordered conjuncts, flipped comparison, extra local) does not. *)
From Coq Require Import ZArith Lia Bool.
Require Import CCP.Lib.Res CCP.Lib.Pow2 CCP.Model.IPRef.
Open Scope Z_scope.

Ltac bool_split :=
  repeat match goal with
  | |- context [?a >=? ?b] => rewrite (Z.geb_leb a b)
  | |- context [?a >? ?b] => rewrite (Z.gtb_ltb a b)
  | |- context [?a <=? ?b] => destruct (Z.leb_spec a b)
  | |- context [?a <? ?b] => destruct (Z.ltb_spec a b)
  | |- context [?a =? ?b] => destruct (Z.eqb_spec a b)
  end.

Lemma pow2_pos e : 0 <= e -> 0 < 2 ^ e.
Proof. intros. apply Z.pow_pos_nonneg; lia. Qed.

Lemma pow2_W32 : 2 ^ 32 = 4294967296. Proof. reflexivity. Qed.
Lemma pow2_W128 : 2 ^ 128 = 340282366920938463463374607431768211456. Proof. reflexivity. Qed.

(* facts about a well-formed object, with the block size abstracted to a variable *)
Lemma wf_facts W o : 0 < W -> wf W o ->
  0 <= plen o <= W /\ 0 <= addr o < 2 ^ W /\ 0 < 2 ^ (W - plen o) /\
  0 <= netw W o <= addr o /\ addr o < netw W o + 2 ^ (W - plen o) /\
  netw W o + 2 ^ (W - plen o) <= 2 ^ W /\
  (plen o = W -> 2 ^ (W - plen o) = 1) /\ (plen o = W - 1 -> 2 ^ (W - plen o) = 2) /\
  (plen o <= W - 2 -> 4 <= 2 ^ (W - plen o)) /\ (plen o = 0 -> 2 ^ (W - plen o) = 2 ^ W /\ netw W o = 0).
Proof.
  intros HW [Ha Hp].
  assert (Hb : 0 < 2 ^ (W - plen o)) by (apply pow2_pos; lia).
  pose proof (net_le (addr o) _ Hb) as H1. pose proof (net_gt (addr o) _ Hb) as H2.
  fold (blk W o) in *. fold (netw W o) in *.
  assert (Hn0 : 0 <= netw W o).
  { unfold netw, net. apply Z.mul_nonneg_nonneg; [apply Z.div_pos; lia | lia]. }
  assert (Htop : netw W o + blk W o <= 2 ^ W).
  { unfold netw, net, blk.
    assert (E : 2 ^ W = 2 ^ (plen o) * 2 ^ (W - plen o)) by (rewrite <- Z.pow_add_r by lia; f_equal; lia).
    assert (Hq : addr o / 2 ^ (W - plen o) < 2 ^ plen o).
    { apply Z.div_lt_upper_bound; [lia|]. rewrite Z.mul_comm, <- E. lia. }
    rewrite E. nia. }
  assert (C1 : plen o = W -> blk W o = 1).
  { intros E. unfold blk. rewrite E, Z.sub_diag. reflexivity. }
  assert (C2 : plen o = W - 1 -> blk W o = 2).
  { intros E. unfold blk. replace (W - plen o) with 1 by lia. reflexivity. }
  assert (C3 : plen o <= W - 2 -> 4 <= blk W o).
  { intros E. unfold blk. replace (W - plen o) with (2 + (W - plen o - 2)) by lia.
    rewrite Z.pow_add_r by lia. assert (0 < 2 ^ (W - plen o - 2)) by (apply pow2_pos; lia). lia. }
  assert (C4 : plen o = 0 -> blk W o = 2 ^ W /\ netw W o = 0).
  { intros E. split.
    - unfold blk. rewrite E, Z.sub_0_r. reflexivity.
    - unfold netw, net, blk. rewrite E, Z.sub_0_r. rewrite Z.div_small by lia. reflexivity. }
  unfold blk in *. repeat split; try lia; try assumption; intros E;
    try (apply C1; exact E); try (apply C2; exact E); try (apply C3; exact E); apply C4; exact E.
Qed.

Ltac abstract_obj W o Hwf :=
  let F := fresh "F" in
  pose proof (wf_facts W o ltac:(lia) Hwf) as F;
  unfold lastaddr, hostmask, netmask, maxint in *; unfold blk in *;
  generalize dependent (netw W o); intro;
  generalize dependent (2 ^ (W - plen o)); intro; intros;
  destruct F as (? & ? & ? & ? & ? & ? & ? & ? & ? & ?).

Ltac finish :=
  cbv beta zeta; cbn [bind mk_host set_plen set_addr addr plen]; bool_split;
  cbn [andb orb negb Bool.eqb]; try reflexivity; try (exfalso; lia); try (f_equal; lia);
  try (repeat f_equal; lia); try lia.
