(* Obligations regenerated on every run: derived integer values of IPv4Obj / IPv6Obj. *)
From Coq Require Import ZArith Lia Bool.
Require Import CCP.Lib.Res CCP.Lib.Pow2 CCP.Model.IPRef CCP.gen.GenIP CCP.gen.GenTac.
Open Scope Z_scope.

Lemma gen_v4_numhosts_ok self : wf 32 self -> gen_v4_numhosts self = Ok (numhosts_ref 32 self).
Proof. intros Hs. repeat autounfold with genip. unfold numhosts_ref. abstract_obj 32 self Hs. finish. Qed.
Lemma gen_v6_numhosts_ok self : wf 128 self -> gen_v6_numhosts self = Ok (numhosts_ref 128 self).
Proof. intros Hs. repeat autounfold with genip. unfold numhosts_ref. abstract_obj 128 self Hs. finish. Qed.
Lemma gen_v4_as_decimal_broadcast_ok self : wf 32 self -> gen_v4_as_decimal_broadcast self = Ok (lastaddr 32 self).
Proof. intros Hs. repeat autounfold with genip. abstract_obj 32 self Hs. finish. Qed.
Lemma gen_v6_as_decimal_network_maxint_ok self : wf 128 self -> gen_v6_as_decimal_network_maxint self = Ok (lastaddr 128 self).
Proof. intros Hs. repeat autounfold with genip. abstract_obj 128 self Hs. finish. Qed.
Lemma gen_v4_int_ok self : gen_v4_int self = Ok (addr self) /\ gen_v4_index self = Ok (addr self).
Proof. repeat autounfold with genip. split; finish. Qed.
Lemma gen_v6_int_ok self : gen_v6_int self = Ok (addr self) /\ gen_v6_index self = Ok (addr self).
Proof. repeat autounfold with genip. split; finish. Qed.
Lemma c_maxint4 : c_IPV4_MAXINT = maxint 32. Proof. reflexivity. Qed.
Lemma c_maxint6 : c_IPV6_MAXINT = maxint 128. Proof. reflexivity. Qed.
Lemma c_maxplen4 : c_IPV4_MAX_PREFIXLEN = 32. Proof. reflexivity. Qed.
Lemma c_maxplen6 : c_IPV6_MAX_PREFIXLEN = 128. Proof. reflexivity. Qed.
