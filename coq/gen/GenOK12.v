(* Obligations regenerated on every run: the membership methods, as translated from the
   current /repo source, equal the reference definition on all well-formed objects. *)
From Coq Require Import ZArith Lia Bool.
Require Import CCP.Lib.Res CCP.Lib.Pow2 CCP.Model.IPRef CCP.gen.GenIP CCP.gen.GenTac.
Open Scope Z_scope.

Lemma gen_v4_contains_ok self val : wf 32 self -> wf 32 val ->
  gen_v4_contains self val = Ok (contains_ref 32 self val).
Proof.
  intros Hs Hv. repeat autounfold with genip. unfold contains_ref.
  abstract_obj 32 self Hs. abstract_obj 32 val Hv. finish.
Qed.

Lemma gen_v6_contains_ok self val : wf 128 self -> wf 128 val ->
  gen_v6_contains self val = Ok (contains_ref 128 self val).
Proof.
  intros Hs Hv. repeat autounfold with genip. unfold contains_ref.
  abstract_obj 128 self Hs. abstract_obj 128 val Hv. finish.
Qed.
