(* C01 / C03 / C07: theorems about the constructor model (Model/Parse.v). *)
From Coq Require Import List Arith Bool NArith Lia.
Require Import CCP.Lib.PyStr CCP.Model.Links CCP.Model.Parse CCP.Proofs.LinksProofs.
Import ListNotations.

(* ---- hypotheses on the banner oracle, true of every real regex answer (checked by the harness on
        every case): a blank line is not a banner start, and a delimiter is a non-space character *)
Definition oracle_ok (l : pline) : Prop :=
  (blank (ptext l) = true -> pban l = None) /\
  (forall d, pban l = Some (Some d) -> is_space d = false).
Definition oracle_okb (l : pline) : bool :=
  (if blank (ptext l) then match pban l with None => true | _ => false end else true) &&
  match pban l with Some (Some d) => negb (is_space d) | _ => true end.
Lemma oracle_okb_ok l : oracle_okb l = true -> oracle_ok l.
Proof.
  unfold oracle_okb, oracle_ok. intros H. apply andb_true_iff in H. destruct H as [H1 H2]. split.
  - intros Hb. rewrite Hb in H1. destruct (pban l); [discriminate|reflexivity].
  - intros d Hd. rewrite Hd in H2. apply negb_true_iff in H2. exact H2.
Qed.

(* ---- keep flags only: the scan with indices forgotten *)
Definition kstep (macro : bool) (A : list N) (m : bool) (l : pline) : bool * (list N * bool) :=
  let t := ptext l in
  let mstart := macro && is_macro_start t in
  let keep := existsb (fun d => negb (has_char d t)) A || m || is_banner_start l || mstart in
  let A' := filter (fun d => negb (has_char d t)) A ++ match opens l with Some d => [d] | None => [] end in
  let m' := if mstart then true else if m then negb (is_macro_end t) else false in
  (keep, (A', m')).
Fixpoint kscan (macro : bool) (A : list N) (m : bool) (ls : list pline) : list bool :=
  match ls with
  | [] => []
  | l :: r => let '(k, (A', m')) := kstep macro A m l in k :: kscan macro A' m' r
  end.

Definition is_some {A} (o : option A) : bool := match o with Some _ => true | None => false end.

Lemma existsb_map_fst (f : N -> bool) (a : list (N * nat)) :
  existsb (fun e => f (fst e)) a = existsb f (map fst a).
Proof. induction a as [|e a IH]; cbn; [reflexivity|]. now rewrite IH. Qed.
Lemma filter_map_fst (f : N -> bool) (a : list (N * nat)) :
  map fst (filter (fun e => f (fst e)) a) = filter f (map fst a).
Proof. induction a as [|e a IH]; cbn; [reflexivity|]. destruct (f (fst e)); cbn; now rewrite IH. Qed.

Lemma scan_kscan macro : forall ls st j,
  map fst (scan macro st j ls) = kscan macro (map fst (s_ban st)) (is_some (s_mac st)) ls.
Proof.
  induction ls as [|l r IH]; intros st j; cbn [scan kscan map]; [reflexivity|].
  unfold scan_line, kstep. cbn [map fst].
  pose proof (existsb_map_fst (fun d => negb (has_char d (ptext l))) (s_ban st)) as E1.
  pose proof (filter_map_fst (fun d => negb (has_char d (ptext l))) (s_ban st)) as E2.
  f_equal.
  - rewrite E1. destruct (s_mac st); reflexivity.
  - rewrite IH. cbn [s_ban s_mac]. f_equal.
    + rewrite map_app, E2. destruct (opens l); reflexivity.
    + destruct (macro && is_macro_start (ptext l)); [reflexivity|].
      destruct (s_mac st); [destruct (is_macro_end (ptext l)); reflexivity | reflexivity].
Qed.

Lemma keep_flags_kscan o ls : keep_flags o ls = kscan (o_macro o) [] false ls.
Proof. unfold keep_flags. rewrite scan_kscan. reflexivity. Qed.

(* survivors of a list under per-line keep flags *)
Fixpoint surv (ls : list pline) (ks : list bool) : list bool :=
  match ls, ks with
  | l :: r, k :: g => survives l k :: surv r g
  | _, _ => []
  end.
Lemma surv_combine ls ks : map (fun lk => survives (fst lk) (snd lk)) (combine ls ks) = surv ls ks.
Proof. revert ks; induction ls as [|l r IH]; intros [|k g]; cbn; try reflexivity. now rewrite IH. Qed.

Lemma blank_no_char t d : blank t = true -> is_space d = false -> has_char d t = false.
Proof.
  unfold blank, has_char. induction t as [|c r IH]; cbn; intros Hb Hd; [reflexivity|].
  apply andb_true_iff in Hb. destruct Hb as [Hc Hr].
  destruct (N.eqb d c) eqn:E; [apply N.eqb_eq in E; subst; congruence|]. cbn. apply IH; assumption.
Qed.

Lemma blank_not_macro t : blank t = true -> is_macro_start t = false /\ is_macro_end t = false.
Proof.
  intros Hb. split.
  - unfold is_macro_start, macro_prefix. destruct t as [|c r]; [reflexivity|]. cbn [starts_with].
    cbn in Hb. apply andb_true_iff in Hb. destruct Hb as [Hc _].
    destruct (N.eqb 109 c) eqn:E; [apply N.eqb_eq in E; subst c; discriminate|reflexivity].
  - unfold is_macro_end, rstrip, rstrip_by.
    assert (Hl : forall s, forallb is_space s = true -> lstrip_by is_space s = []).
    { induction s as [|c r IH]; cbn; [reflexivity|]. intros H. apply andb_true_iff in H. destruct H as [Hc Hr].
      rewrite Hc. apply IH; exact Hr. }
    rewrite Hl; [reflexivity|]. unfold blank in Hb. rewrite forallb_forall in *. intros x Hx. apply Hb. apply in_rev. exact Hx.
Qed.

(* delimiters in the running set are non-space (they came from `opens` of oracle_ok lines) *)
Definition nonspace (A : list N) : Prop := forall d, In d A -> is_space d = false.

Lemma opens_nonspace l d : oracle_ok l -> opens l = Some d -> is_space d = false.
Proof.
  intros [_ H]. unfold opens. destruct (pban l) as [[d'|]|] eqn:E; try discriminate.
  destruct (2 <=? _); [discriminate|]. intros H1; inversion H1; subst. apply H. reflexivity.
Qed.

Lemma kstep_nonspace macro A m l : oracle_ok l -> nonspace A -> nonspace (fst (snd (kstep macro A m l))).
Proof.
  intros Ho HA d. unfold kstep. cbn [fst snd]. rewrite in_app_iff, filter_In. intros [[H _]|H]; [apply HA; exact H|].
  destruct (opens l) as [d'|] eqn:E; [|destruct H]. destruct H as [<-|[]]. eapply opens_nonspace; eauto.
Qed.

(* the heart of C01 with ignore_blank_lines: lines removed by the filter were scanned in a state with no
   running walk and leave that state unchanged, so re-scanning the filtered text gives the same flags *)
Lemma kscan_filter macro : forall ls A m, Forall oracle_ok ls -> nonspace A ->
  kscan macro A m (filter2 ls (surv ls (kscan macro A m ls))) =
  filter2 (kscan macro A m ls) (surv ls (kscan macro A m ls)).
Proof.
  induction ls as [|l r IH]; intros A m Hok HA; [reflexivity|].
  inversion Hok as [|? ? Hl Hr]; subst.
  cbn [kscan]. destruct (kstep macro A m l) as [k [A' m']] eqn:Ek. cbn [surv filter2].
  assert (HA' : nonspace A') by (pose proof (kstep_nonspace macro A m l Hl HA) as H; rewrite Ek in H; exact H).
  destruct (survives l k) eqn:Es.
  - cbn [kscan]. rewrite Ek. f_equal. apply IH; assumption.
  - (* removed: blank and not kept *)
    unfold survives in Es. apply orb_false_iff in Es. destruct Es as [Eb Ekf]. apply negb_false_iff in Eb.
    unfold kstep in Ek. injection Ek as Hk HA2 Hm2. rewrite Ekf in Hk.
    apply orb_false_iff in Hk. destruct Hk as [Hk Hms]. apply orb_false_iff in Hk. destruct Hk as [Hk Hbs].
    apply orb_false_iff in Hk. destruct Hk as [Hex Hm].
    (* no running banner walk: every d in A is non-space, hence absent from the blank line, hence would keep it *)
    assert (HAnil : A = []).
    { destruct A as [|d A0]; [reflexivity|exfalso]. cbn in Hex.
      rewrite (blank_no_char _ d Eb (HA d (or_introl eq_refl))) in Hex. discriminate. }
    destruct Hl as [Hb1 _]. specialize (Hb1 Eb).
    assert (Hop : opens l = None) by (unfold opens; rewrite Hb1; reflexivity).
    rewrite Hop, HAnil in HA2. cbn in HA2. rewrite Hms, Hm in Hm2.
    rewrite <- HA2, <- Hm2. rewrite HAnil, Hm in *.
    apply IH; assumption.
Qed.

Lemma filter2_length_le {A} (ls : list A) fs : length (filter2 ls fs) <= length ls.
Proof. revert fs; induction ls as [|l r IH]; intros [|f g]; cbn; try lia. destruct f; cbn; specialize (IH g); lia. Qed.

Lemma surv_true_after : forall ls ks,
  surv (filter2 ls (surv ls ks)) (filter2 ks (surv ls ks)) = map (fun _ => true) (filter2 ls (surv ls ks)).
Proof.
  induction ls as [|l r IH]; intros [|k g]; cbn [surv filter2 map]; try reflexivity.
  destruct (survives l k) eqn:E; cbn [surv filter2 map]; rewrite IH; [rewrite E|]; reflexivity.
Qed.

Lemma filter2_all_true {A} (ls : list A) : filter2 ls (map (fun _ => true) ls) = ls.
Proof. induction ls as [|l r IH]; cbn; [reflexivity|]. now rewrite IH. Qed.

Theorem ibl_filter_idempotent o ls : Forall oracle_ok ls -> ibl_filter o (ibl_filter o ls) = ibl_filter o ls.
Proof.
  intros Hok. unfold ibl_filter. destruct (o_ibl o); [|reflexivity].
  rewrite !surv_combine, !keep_flags_kscan.
  rewrite kscan_filter by (auto; intros d []).
  rewrite surv_true_after. apply filter2_all_true.
Qed.

(* ---- C01: what the constructor keeps *)
Theorem parse_lossless o ls : o_ibl o = false -> construct_texts o ls = ls.
Proof. intros H. unfold construct_texts, ibl_filter. rewrite H. reflexivity. Qed.

Theorem parse_lossless_ibl o ls : Forall oracle_ok ls -> o_ibl o = true ->
  construct_texts o ls = filter2 ls (surv ls (keep_flags o ls)).
Proof.
  intros Hok H. unfold construct_texts. rewrite ibl_filter_idempotent by assumption.
  unfold ibl_filter. rewrite H, surv_combine. reflexivity.
Qed.

(* removed lines are blank, kept lines stay in order: filter2 is a subsequence selection and a removed line
   has survives = false, i.e. it is blank and outside every banner / macro body *)
Theorem removed_only_blank_outside l k : survives l k = false -> blank (ptext l) = true /\ k = false.
Proof. unfold survives. intros H. apply orb_false_iff in H. destruct H as [H1 H2]. apply negb_false_iff in H1. auto. Qed.

(* line numbers: objects of the second bootstrap are numbered by their index in the text it parsed; the
   filter of that second bootstrap removes nothing, so the numbers are 0..n-1 *)
Lemma filter2_same_flags {A B} (a : list A) (b : list B) fs : length a = length b ->
  filter2 a fs = a -> filter2 b fs = b.
Proof.
  revert b fs; induction a as [|x a IH]; intros b fs Hl H.
  - destruct b; [destruct fs; reflexivity | cbn in Hl; lia].
  - destruct b as [|y b]; [cbn in Hl; lia|]. destruct fs as [|f g]; [cbn in H; discriminate|].
    cbn [filter2] in *. destruct f.
    + injection H as H1. f_equal. apply IH; [cbn in Hl; lia | exact H1].
    + exfalso. pose proof (filter2_length_le a g) as Hx. rewrite H in Hx. cbn in Hx. lia.
Qed.

Theorem linenum_seq o ls : Forall oracle_ok ls ->
  construct_linenums o ls = seq 0 (length (construct_texts o ls)).
Proof.
  intros Hok. unfold construct_linenums, construct_texts. rewrite ibl_filter_idempotent by assumption.
  destruct (o_ibl o) eqn:E; [|reflexivity]. rewrite surv_combine.
  pose proof (ibl_filter_idempotent o ls Hok) as Hi. unfold ibl_filter at 1 in Hi. rewrite E, surv_combine in Hi.
  apply (filter2_same_flags (ibl_filter o ls)); [now rewrite seq_length|exact Hi].
Qed.

Lemma filter2_In {A} (x : A) ls fs : In x (filter2 ls fs) -> In x ls.
Proof.
  revert fs; induction ls as [|l r IH]; intros [|f g]; cbn; try tauto.
  destruct f; cbn; [intros [H|H]; [auto|right; eapply IH; eauto] | intros H; right; eapply IH; eauto].
Qed.

Lemma ibl_filter_ok o ls : Forall oracle_ok ls -> Forall oracle_ok (ibl_filter o ls).
Proof.
  intros H. unfold ibl_filter. destruct (o_ibl o); [|exact H].
  rewrite Forall_forall in *. intros x Hx. apply H. eapply filter2_In; eauto.
Qed.

(* C07 core: committing again changes nothing (commit = bootstrap of the current text) *)
Theorem commit_idempotent o ls : Forall oracle_ok ls ->
  construct_texts o (construct_texts o ls) = construct_texts o ls.
Proof.
  intros Hok. unfold construct_texts.
  rewrite !ibl_filter_idempotent; auto using ibl_filter_ok.
Qed.

(* ---- C03: parents imposed by the passes come before the line *)
Definition starts_lt (st : sstate) (j : nat) : Prop :=
  (forall e, In e (s_ban st) -> snd e < j) /\ (forall m, s_mac st = Some m -> m < j).

Lemma max_start_lt a j : (forall e, In e a -> snd e < j) -> forall p, max_start a = Some p -> p < j.
Proof.
  unfold max_start. intros H.
  assert (G : forall acc, (forall q, acc = Some q -> q < j) ->
              forall p, fold_left (fun acc e => match acc with None => Some (snd e) | Some m => Some (Nat.max m (snd e)) end) a acc = Some p -> p < j).
  { induction a as [|e a IH]; intros acc Ha p; cbn [fold_left]; [apply Ha|].
    apply IH; [intros e' He'; apply H; right; exact He'|].
    intros q. destruct acc as [m|]; intros Hq; inversion Hq; subst.
    - specialize (Ha m eq_refl). specialize (H e (or_introl eq_refl)). lia.
    - apply H. left; reflexivity. }
  apply G. intros q Hq; discriminate.
Qed.

Lemma scan_parent_lt macro : forall ls st j i p, starts_lt st j ->
  nth_error (scan macro st j ls) i = Some (true, Some p) \/ nth_error (scan macro st j ls) i = Some (false, Some p) ->
  p < j + i.
Proof.
  induction ls as [|l r IH]; intros st j i p Hst H; cbn [scan] in H.
  - destruct i; destruct H; discriminate.
  - destruct (scan_line macro st j l) as [out st'] eqn:E. destruct i as [|i]; cbn in H.
    + unfold scan_line in E. inversion E as [[Ho Hs]]. clear E.
      assert (Hp : match s_mac st with Some m => Some m | None => max_start (s_ban st) end = Some p).
      { destruct H as [H|H]; inversion H as [Hx]; rewrite <- Ho in Hx; inversion Hx; reflexivity. }
      destruct Hst as [Hb Hm]. destruct (s_mac st) as [m|] eqn:Em.
      * inversion Hp; subst. specialize (Hm p eq_refl). lia.
      * pose proof (max_start_lt _ j Hb p Hp). lia.
    + replace (j + S i) with (S j + i) by lia. apply (IH st' (S j) i p); [|exact H].
      unfold scan_line in E. inversion E as [[Ho Hs]]. destruct Hst as [Hb Hm]. split; cbn [s_ban s_mac].
      * intros e He. apply in_app_iff in He. destruct He as [He|He].
        -- apply filter_In in He. destruct He as [He _]. specialize (Hb e He). lia.
        -- destruct (opens l); [destruct He as [<-|[]]; cbn; lia | destruct He].
      * intros m. destruct (macro && is_macro_start (ptext l)); [intros Hx; inversion Hx; lia|].
        destruct (s_mac st) as [m0|]; [|discriminate]. destruct (is_macro_end (ptext l)); [discriminate|].
        intros Hx; inversion Hx; subst. specialize (Hm m eq_refl). lia.
Qed.

Lemma nth_error_combine {A B} (a : list A) (b : list B) i x y :
  nth_error (combine a b) i = Some (x, y) -> nth_error a i = Some x /\ nth_error b i = Some y.
Proof.
  revert b i; induction a as [|u a IH]; intros b i E.
  - destruct i; discriminate.
  - destruct b as [|v b]; [destruct i; discriminate|]. destruct i as [|i]; cbn in *.
    + inversion E; subst. auto.
    + apply IH. exact E.
Qed.

Theorem pass_parent_before_child o ls i p : nth_error (pass_parents o ls) i = Some (Some p) -> p < i.
Proof.
  unfold pass_parents. set (li := map _ ls). set (sc := scan (o_macro o) idle 0 ls).
  intros H. rewrite nth_error_map in H.
  destruct (nth_error (combine (bootstrap_parents li) sc) i) as [[b [k q]]|] eqn:E; [|discriminate].
  cbn in H. inversion H as [Hq]. clear H.
  pose proof (nth_error_combine _ _ _ _ _ E) as Hb.
  destruct Hb as [Hb Hs]. destruct q as [q|].
  - inversion Hq; subst q.
    assert (p < 0 + i); [|lia]. apply (scan_parent_lt (o_macro o) ls idle 0 i p).
    + split; cbn; [intros e []|discriminate].
    + fold sc. destruct k; auto.
  - subst b. apply (parent_before_child li i p). exact Hb.
Qed.

Theorem construct_parent_before_child o ls i p : nth_error (construct_parents o ls) i = Some (Some p) -> p < i.
Proof. apply pass_parent_before_child. Qed.

(* without banner/macro starts the constructor's links are exactly the indentation links of C02 *)
Lemma scan_idle_none macro : forall ls j, Forall (fun l => pban l = None /\ (macro && is_macro_start (ptext l)) = false) ls ->
  map snd (scan macro idle j ls) = map (fun _ => None) ls.
Proof.
  induction ls as [|l r IH]; intros j H; cbn [scan map]; [reflexivity|].
  inversion H as [|? ? [Hb Hm] Hr]; subst. unfold scan_line, idle. cbn [s_ban s_mac filter app].
  unfold opens. rewrite Hb, Hm. cbn [map snd max_start fold_left]. f_equal. apply IH. exact Hr.
Qed.

Theorem no_starts_plain_links o ls :
  Forall (fun l => pban l = None /\ (o_macro o && is_macro_start (ptext l)) = false) ls ->
  pass_parents o ls = bootstrap_parents (map (fun l => linfo_of (o_delims o) (ptext l)) ls).
Proof.
  intros H. unfold pass_parents. set (li := map _ ls).
  pose proof (scan_idle_none (o_macro o) ls 0 H) as Hs.
  assert (Hlen : length (bootstrap_parents li) = length ls).
  { unfold bootstrap_parents. pose proof (run_einv li init (conj eq_refl eq_refl)) as [HL _]. fold (run li) in HL.
    rewrite HL. clear. unfold run.
    assert (G : forall l st, length (seen (fold_left step l st)) = length l + length (seen st)).
    { induction l as [|x l IH]; intros st; cbn [fold_left]; [reflexivity|]. rewrite IH. cbn. lia. }
    rewrite G. unfold li. rewrite map_length. cbn. lia. }
  revert Hs Hlen. generalize (scan (o_macro o) idle 0 ls). generalize (bootstrap_parents li). clear.
  induction ls as [|x r IH]; intros bp sc Hs Hl; destruct bp as [|b bp]; cbn in Hl; try lia; [reflexivity|].
  destruct sc as [|[k q] sc]; cbn in Hs; [discriminate|]. inversion Hs as [[Hq Hr]]. subst q.
  cbn. f_equal. apply IH; [exact Hr|lia].
Qed.

(* non-vacuity: a banner with a blank body line, an outside blank line, ignore_blank_lines on *)
Definition exl (s : str) (b : option (option N)) := PL s b.
Example ex_parse :
  let ls := [exl [98;97;110;110;101;114;32;109;111;116;100;32;94]%N (Some (Some 94%N)); exl [] None; exl [32;120]%N None;
             exl [94]%N None; exl [] None; exl [120]%N None] in
  let o := PO true true [33%N] in
  Forall oracle_ok ls /\ map ptext (construct_texts o ls) = [[98;97;110;110;101;114;32;109;111;116;100;32;94]; []; [32;120]; [94]; [120]]%N
  /\ construct_parents o ls = [None; Some 0; Some 0; Some 0; None].
Proof.
  cbn zeta. split; [|split; vm_compute; reflexivity].
  repeat constructor; try (intros H; discriminate H); try (intros d H; inversion H; reflexivity); try (intros d H; discriminate H).
Qed.
