(* C11, IPv6 textual layer, embedded IPv4 tail: x:x:x:x:x:x:d.d.d.d and hi::lo:d.d.d.d (either side possibly empty),
   in any hextet spelling, with or without "/len" and surrounding blanks.  About Model/IPText6.v. *)
From Coq Require Import List Arith Bool NArith ZArith Lia.
Require Import CCP.Lib.PyStr CCP.Model.IPText CCP.Model.IPText6 CCP.Proofs.IPTextProofs CCP.Proofs.IPText6Proofs CCP.Proofs.IPText6Compressed.
Import ListNotations.

Definition hi16 (a : Z) : N := Z.to_N (a / 65536).
Definition lo16 (a : Z) : N := Z.to_N (a mod 65536).

(* characters that may appear in an address part: not ':', '/', '%', blank (dots allowed) *)
Definition plain4 (c : char) : bool := negb (N.eqb c c_colon || N.eqb c c_slash || N.eqb c c_pct || is_space c).
Lemma plain_plain4 c : plain c = true -> plain4 c = true.
Proof. intros H. apply plain_facts in H. unfold plain4. destruct H as (-> & _ & -> & -> & ->). reflexivity. Qed.
Lemma dd_plain4 c : is_dd c = true -> plain4 c = true.
Proof.
  intros H. assert (Hc : (c < 58)%N).
  { unfold is_dd, is_digit in H. apply orb_true_iff in H. destruct H as [H|H].
    - apply andb_true_iff in H. destruct H as [_ H]. apply N.leb_le in H. lia.
    - apply N.eqb_eq in H. subst c. reflexivity. }
  assert (A : all_below 58 (fun c => implb (is_dd c) (plain4 c)) = true) by (vm_compute; reflexivity).
  pose proof (all_below_spec _ _ A c Hc) as B. cbv beta in B. rewrite H in B. exact B.
Qed.
Lemma plain4_facts c : plain4 c = true ->
  N.eqb c c_colon = false /\ N.eqb c c_slash = false /\ N.eqb c c_pct = false /\ is_space c = false.
Proof. unfold plain4. intros H. apply negb_true_iff in H. repeat (apply orb_false_iff in H; destruct H as [H ?]). auto. Qed.

(* ---- the shape of a joined address text, for any list of parts ---- *)
Lemma list_sum_cons a l : list_sum (a :: l) = a + list_sum l. Proof. reflexivity. Qed.
Lemma list_sum_nil : list_sum [] = 0. Proof. reflexivity. Qed.
Ltac sums := cbn [length map join] in *; rewrite ?list_sum_cons, ?list_sum_nil in *.
Definition weight (ps : list str) : nat := list_sum (map (fun s => S (length s)) ps).
Lemma length_join_weight c ps : length (join [c] ps) <= weight ps.
Proof.
  unfold weight. induction ps as [|s r IH]; [cbn; lia|]. destruct r as [|s2 r2]; [clear IH; sums; lia|].
  change (join [c] (s :: s2 :: r2)) with (s ++ [c] ++ join [c] (s2 :: r2)).
  rewrite !app_length. sums. lia.
Qed.
Lemma length_join_weight' c ps : ps <> [] -> S (length (join [c] ps)) <= weight ps.
Proof.
  unfold weight. induction ps as [|s r IH]; intros Hne; [contradiction|]. destruct r as [|s2 r2]; [clear IH; sums; lia|].
  change (join [c] (s :: s2 :: r2)) with (s ++ [c] ++ join [c] (s2 :: r2)).
  rewrite !app_length. specialize (IH ltac:(discriminate)). sums. lia.
Qed.

Lemma text_shape ps : 2 <= length ps -> Forall (fun s => forallb plain4 s = true) ps -> weight ps <= 46 ->
  forallb (fun x => negb (N.eqb x c_slash)) (join [c_colon] ps) = true /\
  existsb (N.eqb c_pct) (join [c_colon] ps) = false /\
  forallb (fun x => negb (is_space x)) (join [c_colon] ps) = true /\
  join [c_colon] ps <> [] /\ length (join [c_colon] ps) <= 45.
Proof.
  intros L2 HF HW.
  assert (A : forall Q : N -> bool, Q c_colon = true -> (forall x, plain4 x = true -> Q x = true) ->
              forallb Q (join [c_colon] ps) = true).
  { intros Q Qc Qp. apply forallb_join; [exact Qc|]. rewrite Forall_forall in *. intros s Hs. specialize (HF s Hs).
    rewrite forallb_forall in *. intros x Hx. apply Qp. apply HF. exact Hx. }
  split; [|split; [|split; [|split]]].
  - apply A; [reflexivity|]. intros x Hx. apply plain4_facts in Hx. apply negb_true_iff. tauto.
  - assert (G : forallb (fun x => negb (N.eqb x c_pct)) (join [c_colon] ps) = true).
    { apply A; [reflexivity|]. intros x Hx. apply plain4_facts in Hx. apply negb_true_iff. tauto. }
    apply not_true_is_false. intros Hx. apply existsb_exists in Hx. destruct Hx as [x [Hi He]].
    rewrite forallb_forall in G. specialize (G x Hi). apply N.eqb_eq in He. subst x. rewrite N.eqb_refl in G. discriminate.
  - apply A; [reflexivity|]. intros x Hx. apply plain4_facts in Hx. apply negb_true_iff. tauto.
  - destruct ps as [|s1 [|s2 r]]; [cbn in L2; lia|cbn in L2; lia|].
    change (join [c_colon] (s1 :: s2 :: r)) with (s1 ++ [c_colon] ++ join [c_colon] (s2 :: r)). destruct s1; discriminate.
  - assert (Hne : ps <> []) by (destruct ps; [cbn in L2; lia|discriminate]).
    pose proof (length_join_weight' c_colon ps Hne). lia.
Qed.

Lemma weight_app a b : weight (a ++ b) = weight a + weight b.
Proof. unfold weight. rewrite map_app, list_sum_app. reflexivity. Qed.
Lemma weight_sp sp gs : spelling sp -> Forall lt16 gs -> weight (map sp gs) <= 5 * length gs.
Proof.
  intros Hsp HF. unfold weight. induction gs as [|g r IH]; [cbn; lia|].
  inversion HF as [|? ? Hg Hr]; subst. specialize (IH Hr). destruct (classify_sp sp g Hsp Hg) as (_ & _ & L).
  sums. lia.
Qed.
Lemma weight_side sp gs : spelling sp -> Forall lt16 gs -> weight (side sp gs) <= Nat.max 1 (5 * length gs).
Proof.
  intros Hsp HF. destruct gs as [|g r]; [cbn; lia|]. unfold side. pose proof (weight_sp sp (g :: r) Hsp HF). lia.
Qed.

(* ---- the dotted quad ---- *)
Lemma octet_len n : (n < 256)%N -> length (render_dec n) <= 3.
Proof.
  intros H. assert (A : all_below 256 (fun n => length (render_dec n) <=? 3) = true) by (vm_compute; reflexivity).
  apply Nat.leb_le. apply (all_below_spec _ _ A n H).
Qed.
Lemma quad_facts a : (0 <= a < 2 ^ 32)%Z ->
  dotted (render_quad a) = Some a /\ has_dot (render_quad a) = true /\
  forallb plain4 (render_quad a) = true /\ length (render_quad a) <= 15.
Proof.
  intros H. destruct (render_quad_facts a H) as (_ & D & DD & _). pose proof (octets_lt a H) as L.
  split; [exact D|]. split; [|split].
  - unfold render_quad, octets_of. cbn [map join]. unfold has_dot. rewrite existsb_app. apply orb_true_iff. right.
    cbn [app existsb]. rewrite N.eqb_refl. reflexivity.
  - rewrite forallb_forall in *. intros x Hx. apply dd_plain4. apply DD. exact Hx.
  - unfold render_quad. destruct (octets_of a) as [|x [|y [|z [|w [|? ?]]]]] eqn:E;
      try (unfold octets_of in E; discriminate).
    pose proof (Forall_inv L) as Lx. pose proof (Forall_inv_tail L) as L1.
    pose proof (Forall_inv L1) as Ly. pose proof (Forall_inv_tail L1) as L2.
    pose proof (Forall_inv L2) as Lz. pose proof (Forall_inv_tail L2) as L3.
    pose proof (Forall_inv L3) as Lw. cbv beta in Lx, Ly, Lz, Lw.
    pose proof (octet_len x Lx). pose proof (octet_len y Ly). pose proof (octet_len z Lz). pose proof (octet_len w Lw).
    cbn [map join]. rewrite !app_length. cbn [length]. lia.
Qed.
Lemma hi_lo_16 a : (0 <= a < 2 ^ 32)%Z -> lt16 (hi16 a) /\ lt16 (lo16 a) /\ (Z.of_N (hi16 a) * 65536 + Z.of_N (lo16 a) = a)%Z.
Proof.
  intros H. unfold lt16, hi16, lo16.
  assert (H1 : (0 <= a / 65536 < 65536)%Z) by (split; [apply Z.div_pos; lia|apply Z.div_lt_upper_bound; lia]).
  assert (H2 : (0 <= a mod 65536 < 65536)%Z) by (apply Z.mod_pos_bound; lia).
  rewrite !Z2N.id by lia. split; [lia|]. split; [lia|]. pose proof (Z.div_mod a 65536 ltac:(lia)). lia.
Qed.

Lemma fields_of_quad ps a : (0 <= a < 2 ^ 32)%Z ->
  fields_of (ps ++ [render_quad a]) = Some (map classify ps ++ [FHex (hi16 a); FHex (lo16 a)]).
Proof.
  intros H. destruct (quad_facts a H) as (D & HD & _). unfold fields_of. rewrite rev_app_distr. cbn [rev app].
  rewrite HD, D, rev_involutive. reflexivity.
Qed.

Lemma value_of_app gs1 gs2 acc :
  fold_left (fun acc g => (acc * 65536 + Z.of_N g)%Z) (gs1 ++ gs2) acc =
  fold_left (fun acc g => (acc * 65536 + Z.of_N g)%Z) gs2 (fold_left (fun acc g => (acc * 65536 + Z.of_N g)%Z) gs1 acc).
Proof. apply fold_left_app. Qed.
(* the last 32 bits are the IPv4 address *)
Lemma value_of_embedded gs a : (0 <= a < 2 ^ 32)%Z -> (value_of (gs ++ [hi16 a; lo16 a]) = value_of gs * 2 ^ 32 + a)%Z.
Proof.
  intros H. unfold value_of. rewrite fold_left_app. cbn [fold_left]. destruct (hi_lo_16 a H) as (_ & _ & E).
  change (2 ^ 32)%Z with (65536 * 65536)%Z. lia.
Qed.

(* ---- uncompressed: six groups and a dotted quad ---- *)
Definition ftext4 (sp : N -> str) (gs : list N) (a : Z) : str := join [c_colon] (map sp gs ++ [render_quad a]).

Lemma v6_groups_full gs : length gs = 8 -> v6_groups (map FHex gs) = Some gs.
Proof.
  intros H. do 9 (destruct gs as [|? gs]; [try (cbn [length] in H; lia)|]); [reflexivity|cbn [length] in H; lia].
Qed.

Lemma sp_parts_plain4 sp gs : spelling sp -> Forall lt16 gs -> Forall (fun s => forallb plain4 s = true) (map sp gs).
Proof.
  intros Hsp HF. apply Forall_forall. intros s Hs. apply in_map_iff in Hs. destruct Hs as [g [<- Hg]].
  rewrite Forall_forall in HF. destruct (classify_sp sp g Hsp (HF g Hg)) as (_ & P & _).
  rewrite forallb_forall in *. intros x Hx. apply plain_plain4. apply P. exact Hx.
Qed.
Lemma plain4_nocolon ps : Forall (fun s => forallb plain4 s = true) ps ->
  Forall (fun s => forallb (fun x => negb (N.eqb x c_colon)) s = true) ps.
Proof.
  intros HF. rewrite Forall_forall in *. intros s Hs. specialize (HF s Hs). rewrite forallb_forall in *.
  intros x Hx. specialize (HF x Hx). apply plain4_facts in HF. apply negb_true_iff. tauto.
Qed.
Lemma map_classify_sp sp gs : spelling sp -> Forall lt16 gs -> map classify (map sp gs) = map FHex gs.
Proof.
  intros Hsp HF. rewrite map_map. apply map_ext_in. intros g Hg. rewrite Forall_forall in HF. apply (classify_sp sp g Hsp (HF g Hg)).
Qed.

Theorem v6_addr_embedded_full sp gs a : spelling sp -> Forall lt16 gs -> (length gs = 6)%nat -> (0 <= a < 2 ^ 32)%Z ->
  v6_addr (ftext4 sp gs a) = Some (value_of gs * 2 ^ 32 + a)%Z.
Proof.
  intros Hsp HF Hlen Ha. destruct (quad_facts a Ha) as (_ & _ & Q4 & _).
  unfold v6_addr, ftext4. rewrite split_join.
  - assert (L3 : (length (map sp gs ++ [render_quad a]) <? 3) = false)
      by (apply Nat.ltb_ge; rewrite app_length, map_length; cbn [length]; lia).
    rewrite L3, fields_of_quad by exact Ha. rewrite map_classify_sp by assumption.
    change [FHex (hi16 a); FHex (lo16 a)] with (map FHex [hi16 a; lo16 a]). rewrite <- map_app.
    rewrite v6_groups_full by (rewrite app_length; cbn [length]; lia).
    cbn [option_map]. rewrite value_of_embedded by exact Ha. reflexivity.
  - destruct (map sp gs); discriminate.
  - apply plain4_nocolon. apply Forall_app. split; [apply sp_parts_plain4; assumption|constructor; [exact Q4|constructor]].
Qed.

(* ---- compressed with an IPv4 tail: hi :: lo : d.d.d.d ---- *)
Definition eparts (sp : N -> str) (hi lo : list N) (a : Z) : list str := side sp hi ++ [[]] ++ map sp lo ++ [render_quad a].
Definition etext (sp : N -> str) (hi lo : list N) (a : Z) : str := join [c_colon] (eparts sp hi lo a).

Example etext_ex :
  etext (sp_min false) [] [65535%N] 3232235777%Z =
    [58; 58; 102; 102; 102; 102; 58; 49; 57; 50; 46; 49; 54; 56; 46; 49; 46; 49]%N /\     (* "::ffff:192.168.1.1" *)
  etext (sp_min false) [100; 65435]%N [] 167772417%Z =
    [54; 52; 58; 102; 102; 57; 98; 58; 58; 49; 48; 46; 48; 46; 49; 46; 49]%N.          (* "64:ff9b::10.0.1.1" *)
Proof. split; vm_compute; reflexivity. Qed.

Lemma side_plain4 sp gs : spelling sp -> Forall lt16 gs -> Forall (fun s => forallb plain4 s = true) (side sp gs).
Proof. intros Hsp HF. destruct gs as [|g r]; [constructor; [reflexivity|constructor]|apply sp_parts_plain4; assumption]. Qed.

Lemma eparts_plain4 sp hi lo a : spelling sp -> Forall lt16 hi -> Forall lt16 lo -> (0 <= a < 2 ^ 32)%Z ->
  Forall (fun s => forallb plain4 s = true) (eparts sp hi lo a).
Proof.
  intros Hsp Hh Hl Ha. destruct (quad_facts a Ha) as (_ & _ & Q4 & _). unfold eparts.
  apply Forall_app. split; [apply side_plain4; assumption|]. apply Forall_app. split; [constructor; [reflexivity|constructor]|].
  apply Forall_app. split; [apply sp_parts_plain4; assumption|constructor; [exact Q4|constructor]].
Qed.

Theorem v6_addr_embedded_compressed sp hi lo a : spelling sp -> Forall lt16 hi -> Forall lt16 lo ->
  (length hi + length lo <= 5)%nat -> (0 <= a < 2 ^ 32)%Z ->
  v6_addr (etext sp hi lo a) = Some (value_of (hi ++ repeat 0%N (6 - (length hi + length lo))%nat ++ lo) * 2 ^ 32 + a)%Z.
Proof.
  intros Hsp Hh Hl Hlen Ha. unfold v6_addr, etext. rewrite split_join.
  - assert (L3 : (length (eparts sp hi lo a) <? 3) = false).
    { apply Nat.ltb_ge. unfold eparts. rewrite !app_length, side_length, map_length. cbn [length]. lia. }
    rewrite L3. unfold eparts.
    replace (side sp hi ++ [[]] ++ map sp lo ++ [render_quad a]) with ((side sp hi ++ [[]] ++ map sp lo) ++ [render_quad a])
      by (rewrite <- !app_assoc; reflexivity).
    rewrite fields_of_quad by exact Ha. rewrite !map_app, classify_side, map_classify_sp by assumption. cbn [map classify].
    pose proof (hi_lo_16 a Ha) as (B1 & B2 & _).
    replace ((sidef hi ++ [FEmpty] ++ map FHex lo) ++ [FHex (hi16 a); FHex (lo16 a)])
      with (cfields hi (lo ++ [hi16 a; lo16 a])).
    2:{ unfold cfields, sidef at 2. destruct (lo ++ [hi16 a; lo16 a]) eqn:E; [destruct lo; discriminate|].
        rewrite <- E, map_app, <- !app_assoc. reflexivity. }
    rewrite v6_groups_compressed by (rewrite app_length; cbn [length]; lia).
    cbn [option_map]. f_equal. rewrite app_length. cbn [length].
    replace (8 - (length hi + (length lo + 2))) with (6 - (length hi + length lo)) by lia.
    replace (hi ++ repeat 0%N (6 - (length hi + length lo))%nat ++ lo ++ [hi16 a; lo16 a])
      with ((hi ++ repeat 0%N (6 - (length hi + length lo))%nat ++ lo) ++ [hi16 a; lo16 a]) by (rewrite <- !app_assoc; reflexivity).
    apply value_of_embedded. exact Ha.
  - unfold eparts, side. destruct hi; discriminate.
  - apply plain4_nocolon. apply eparts_plain4; assumption.
Qed.

(* ---- the full parse of both embedded forms ---- *)
Theorem v6_parse_embedded_full sp gs a p (with_len : bool) pre post : spelling sp ->
  Forall lt16 gs -> (length gs = 6)%nat -> (0 <= a < 2 ^ 32)%Z -> (0 <= p <= 128)%Z ->
  forallb is_space pre = true -> forallb is_space post = true ->
  v6_parse (pre ++ (ftext4 sp gs a ++ (if with_len then [c_slash] ++ render_dec (Z.to_N p) else [])) ++ post)
  = Some ((value_of gs * 2 ^ 32 + a)%Z, if with_len then p else 128%Z).
Proof.
  intros Hsp HF Hlen Ha Hp Hpre Hpost. destruct (quad_facts a Ha) as (_ & _ & Q4 & QL).
  destruct (text_shape (map sp gs ++ [render_quad a])) as (S1 & S2 & S3 & S4 & S5).
  - rewrite app_length, map_length. cbn [length]. lia.
  - apply Forall_app. split; [apply sp_parts_plain4; assumption|constructor; [exact Q4|constructor]].
  - rewrite weight_app. pose proof (weight_sp sp gs Hsp HF). unfold weight in *. sums. lia.
  - apply v6_parse_wrap; try assumption. apply v6_addr_embedded_full; assumption.
Qed.

Theorem v6_parse_embedded_compressed sp hi lo a p (with_len : bool) pre post : spelling sp ->
  Forall lt16 hi -> Forall lt16 lo -> (length hi + length lo <= 5)%nat -> (0 <= a < 2 ^ 32)%Z -> (0 <= p <= 128)%Z ->
  forallb is_space pre = true -> forallb is_space post = true ->
  v6_parse (pre ++ (etext sp hi lo a ++ (if with_len then [c_slash] ++ render_dec (Z.to_N p) else [])) ++ post)
  = Some ((value_of (hi ++ repeat 0%N (6 - (length hi + length lo))%nat ++ lo) * 2 ^ 32 + a)%Z, if with_len then p else 128%Z).
Proof.
  intros Hsp Hh Hl Hlen Ha Hp Hpre Hpost. destruct (quad_facts a Ha) as (_ & _ & Q4 & QL).
  destruct (text_shape (eparts sp hi lo a)) as (S1 & S2 & S3 & S4 & S5).
  - unfold eparts. rewrite !app_length, side_length, map_length. cbn [length]. lia.
  - apply eparts_plain4; assumption.
  - unfold eparts. rewrite !weight_app. pose proof (weight_side sp hi Hsp Hh). pose proof (weight_sp sp lo Hsp Hl).
    unfold weight in *. sums. lia.
  - apply v6_parse_wrap; try assumption. apply v6_addr_embedded_compressed; assumption.
Qed.

Example v6_embedded_ex :
  v6_parse (etext (sp_min false) [] [65535%N] 3232235777%Z ++ [c_slash] ++ render_dec 96%N)
  = Some (281473913979137%Z, 96%Z).
Proof. vm_compute. reflexivity. Qed.
