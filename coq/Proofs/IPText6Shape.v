(* C11, IPv6 textual layer, "never silently truncated": whatever v6_parse accepts is, after whitespace normalisation (strip; one
   field, or two fields joined by "/"), EXACTLY an address text accepted as a whole, followed by nothing or by "/" and a whole
   decimal length -- there is no unread remainder.  About Model/IPText6.v. *)
From Coq Require Import List Arith Bool NArith ZArith Lia.
Require Import CCP.Lib.PyStr CCP.Model.IPText CCP.Model.IPText6.
Import ListNotations.

Lemma split_first_spec c : forall t a m, split_first c t = (a, m) ->
  match m with Some r => t = a ++ c :: r | None => t = a end /\ forallb (fun x => negb (N.eqb x c)) a = true.
Proof.
  induction t as [|x r IH]; intros a m H; cbn [split_first] in H.
  - inversion H; subst. split; reflexivity.
  - destruct (N.eqb x c) eqn:E.
    + inversion H; subst. apply N.eqb_eq in E. subst x. split; reflexivity.
    + destruct (split_first c r) as [a' m'] eqn:Es. injection H as Ha Hm. subst a m. destruct (IH a' m' eq_refl) as [A B]. split.
      * destruct m' as [r'|]; cbn [app]; f_equal; exact A.
      * cbn [forallb]. rewrite E. exact B.
Qed.

(* the whitespace-normalised text the constructor works on *)
Definition v6_text (s : str) : option str :=
  match split_ws (strip s) with
  | [x] => Some x
  | [a; b] => Some (a ++ [c_slash] ++ b)
  | _ => None
  end.

Theorem v6_parse_shape s a p : v6_parse s = Some (a, p) ->
  exists t addr, v6_text s = Some t /\ (length t <= v6_maxlen)%nat /\ v6_addr addr = Some a /\
    forallb (fun x => negb (N.eqb x c_slash)) addr = true /\
    ((t = addr /\ p = 128%Z) \/ (exists m, t = addr ++ c_slash :: m /\ plen6_of_digits m = Some p)).
Proof.
  unfold v6_parse. fold (v6_text s). destruct (v6_text s) as [t|]; [|discriminate].
  destruct (v6_maxlen <? length t) eqn:El; [discriminate|]. apply Nat.ltb_ge in El.
  destruct (split_first c_slash t) as [addr m] eqn:Es. destruct (split_first_spec c_slash t addr m Es) as [A B].
  destruct (existsb (N.eqb c_pct) addr); [discriminate|].
  destruct (v6_addr addr) as [v|] eqn:Ea; [|discriminate].
  intros H. exists t, addr. split; [reflexivity|]. split; [exact El|].
  destruct m as [ds|].
  - destruct (plen6_of_digits ds) as [q|] eqn:Ep; [|discriminate]. inversion H; subst.
    split; [exact Ea|]. split; [exact B|]. right. exists ds. split; [reflexivity|exact Ep].
  - inversion H; subst. split; [exact Ea|]. split; [exact B|]. left. split; reflexivity.
Qed.

Lemma plen6_digits_whole m p : plen6_of_digits m = Some p -> forallb is_digit m = true /\ m <> [].
Proof.
  unfold plen6_of_digits. destruct (digits_only m) eqn:E; [|discriminate]. intros _.
  unfold digits_only in E. destruct m; [discriminate|]. split; [exact E|discriminate].
Qed.

Example shape6_ex : (* "2001:db8::1/64x", "1:2:3:4:5:6:7:8:9", "1::2::3" are refused *)
  v6_parse [50;48;48;49;58;100;98;56;58;58;49;47;54;52;120]%N = None /\
  v6_parse [49;58;50;58;51;58;52;58;53;58;54;58;55;58;56;58;57]%N = None /\
  v6_parse [49;58;58;50;58;58;51]%N = None.
Proof. repeat split; vm_compute; reflexivity. Qed.
