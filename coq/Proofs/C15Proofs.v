(* C15: proofs about Model/Intf.v — name round trip, canonical form, numeric ordering, equality/hash
   compatibility, range expansion, purity of the read accessors. *)
From Coq Require Import NArith List Bool Lia Sorting.Sorted Permutation.
Require Import CCP.Lib.PyStr CCP.Lib.Res CCP.Model.Intf.
Import ListNotations.
Open Scope N_scope.

(* ================================================================== scanners *)
Definition stops (p : char -> bool) (s : str) : Prop :=
  match s with [] => True | c :: _ => p c = false end.

Lemma take_drop p s : take_while p s ++ drop_while p s = s.
Proof. induction s as [|c r IH]; simpl; [reflexivity|]. destruct (p c); simpl; [rewrite IH|]; reflexivity. Qed.

Lemma take_while_all p s : forallb p (take_while p s) = true.
Proof. induction s as [|c r IH]; simpl; [reflexivity|]. destruct (p c) eqn:E; simpl; [rewrite E, IH|]; reflexivity. Qed.

Lemma drop_while_stops p s : stops p (drop_while p s).
Proof. induction s as [|c r IH]; simpl; [exact I|]. destruct (p c) eqn:E; simpl; assumption. Qed.

Lemma take_while_app p a b : forallb p a = true -> stops p b -> take_while p (a ++ b) = a.
Proof.
  induction a as [|c r IH]; simpl; intros Ha Hb.
  - destruct b as [|d b']; simpl in *; [reflexivity|]. rewrite Hb. reflexivity.
  - apply andb_true_iff in Ha. destruct Ha as [Hc Hr]. rewrite Hc, IH; auto.
Qed.

Lemma drop_while_app p a b : forallb p a = true -> stops p b -> drop_while p (a ++ b) = b.
Proof.
  induction a as [|c r IH]; simpl; intros Ha Hb.
  - destruct b as [|d b']; simpl in *; [reflexivity|]. rewrite Hb. reflexivity.
  - apply andb_true_iff in Ha. destruct Ha as [Hc Hr]. rewrite Hc, IH; auto.
Qed.

Lemma take_while_stops p s : stops p s -> take_while p s = [].
Proof. destruct s as [|c r]; simpl; intros H; [reflexivity|]. rewrite H. reflexivity. Qed.
Lemma drop_while_stops_id p s : stops p s -> drop_while p s = s.
Proof. destruct s as [|c r]; simpl; intros H; [reflexivity|]. rewrite H. reflexivity. Qed.

Lemma forallb_app' {A} (p : A -> bool) a b : forallb p (a ++ b) = forallb p a && forallb p b.
Proof. induction a as [|c r IH]; simpl; [reflexivity|]. rewrite IH, andb_assoc. reflexivity. Qed.

Lemma forallb_impl {A} (p q : A -> bool) l : (forall x, p x = true -> q x = true) -> forallb p l = true -> forallb q l = true.
Proof.
  intros H. induction l as [|c r IH]; simpl; [reflexivity|]. intros Hl. apply andb_true_iff in Hl.
  destruct Hl as [H1 H2]. rewrite (H c H1), (IH H2). reflexivity.
Qed.

Lemma forallb_rev {A} (p : A -> bool) l : forallb p (rev l) = forallb p l.
Proof.
  induction l as [|c r IH]; simpl; [reflexivity|]. rewrite forallb_app', IH. simpl. rewrite andb_true_r, andb_comm. reflexivity.
Qed.

(* ================================================================== decimal rendering *)
Lemma dec_val_app a b : dec_val (a ++ b) = fold_left (fun x c => x * 10 + digit_val c) b (dec_val a).
Proof. unfold dec_val. apply fold_left_app. Qed.

Lemma dec_val_snoc a d : dec_val (a ++ [d]) = dec_val a * 10 + digit_val d.
Proof. rewrite dec_val_app. reflexivity. Qed.

Lemma is_digit_of_small d : d < 10 -> is_digit (48 + d) = true.
Proof. intros H. unfold is_digit. apply andb_true_iff. split; apply N.leb_le; lia. Qed.

Lemma render_fuel_S f n acc :
  render_dec_fuel (S f) n acc =
  if n <? 10 then (48 + n mod 10) :: acc else render_dec_fuel f (n / 10) ((48 + n mod 10) :: acc).
Proof. reflexivity. Qed.

Lemma render_fuel_spec f : forall n acc, n < 2 ^ N.of_nat (S f) ->
  exists ds, render_dec_fuel (S f) n acc = ds ++ acc /\ forallb is_digit ds = true /\ ds <> [] /\ dec_val ds = n.
Proof.
  induction f as [|f IH]; intros n acc Hn; rewrite render_fuel_S; destruct (n <? 10) eqn:E.
  - apply N.ltb_lt in E. exists [48 + n mod 10]. rewrite N.mod_small by assumption.
    split; [reflexivity|]. split; [cbn [forallb]; rewrite is_digit_of_small by assumption; reflexivity|].
    split; [discriminate|]. unfold dec_val, digit_val. cbn [fold_left]. lia.
  - apply N.ltb_ge in E. simpl in Hn. lia.
  - apply N.ltb_lt in E. exists [48 + n mod 10]. rewrite N.mod_small by assumption.
    split; [reflexivity|]. split; [cbn [forallb]; rewrite is_digit_of_small by assumption; reflexivity|].
    split; [discriminate|]. unfold dec_val, digit_val. cbn [fold_left]. lia.
  - apply N.ltb_ge in E.
    assert (Hd : n / 10 < 2 ^ N.of_nat (S f)).
    { apply N.div_lt_upper_bound; [lia|]. rewrite (Nat2N.inj_succ (S f)), N.pow_succ_r' in Hn. lia. }
    destruct (IH (n / 10) ((48 + n mod 10) :: acc) Hd) as [ds [H1 [H2 [H3 H4]]]].
    exists (ds ++ [48 + n mod 10]). rewrite H1, <- app_assoc. split; [reflexivity|].
    assert (Hm : n mod 10 < 10) by (apply N.mod_lt; lia).
    split; [rewrite forallb_app', H2; cbn [forallb]; rewrite is_digit_of_small by assumption; reflexivity|].
    split; [destruct ds; discriminate|].
    rewrite dec_val_snoc, H4. unfold digit_val.
    assert (Hc : forall d, 48 + d - 48 = d) by (intros; lia). rewrite Hc.
    rewrite N.mul_comm. symmetry. apply N.div_mod. lia.
Qed.

Lemma render_dec_spec n : forallb is_digit (render_dec n) = true /\ render_dec n <> [] /\ dec_val (render_dec n) = n.
Proof.
  unfold render_dec.
  assert (Hn : n < 2 ^ N.of_nat (S (N.to_nat (N.log2 n)))).
  { rewrite Nat2N.inj_succ, N2Nat.id. destruct n as [|p]; [simpl; lia|]. apply N.log2_spec. lia. }
  destruct (render_fuel_spec _ n [] Hn) as [ds [H1 [H2 [H3 H4]]]]. rewrite app_nil_r in H1. rewrite H1. auto.
Qed.

Lemma render_dec_digits n : forallb is_digit (render_dec n) = true.
Proof. apply render_dec_spec. Qed.
Lemma render_dec_nonempty n : render_dec n <> [].
Proof. apply render_dec_spec. Qed.
Lemma render_dec_val n : dec_val (render_dec n) = n.
Proof. apply render_dec_spec. Qed.

Lemma render_dec_cons n : exists d r, render_dec n = d :: r /\ is_digit d = true.
Proof.
  pose proof (render_dec_digits n) as H. pose proof (render_dec_nonempty n) as H0.
  destruct (render_dec n) as [|d r]; [congruence|]. simpl in H. apply andb_true_iff in H. exists d, r. tauto.
Qed.

Lemma forallb_last (p : char -> bool) l : l <> [] -> forallb p l = true -> p (last l 0) = true.
Proof.
  intros Hn H. destruct (exists_last Hn) as [l' [a E]]. subst. rewrite last_last.
  rewrite forallb_app' in H. apply andb_true_iff in H. destruct H as [_ H]. simpl in H. rewrite andb_true_r in H. exact H.
Qed.

Lemma render_dec_last n : is_digit (last (render_dec n) 0) = true.
Proof. apply forallb_last; [apply render_dec_nonempty|apply render_dec_digits]. Qed.

(* ================================================================== character classes *)
Lemma ascii_check (P : char -> bool) :
  forallb P (map N.of_nat (seq 0 128)) = true -> forall c, c < 128 -> P c = true.
Proof.
  intros H c Hc. rewrite forallb_forall in H. apply H. apply in_map_iff. exists (N.to_nat c).
  split; [apply N2Nat.id|]. apply in_seq. lia.
Qed.

Lemma is_digit_bound c : is_digit c = true -> c < 128.
Proof. unfold is_digit. intros H. apply andb_true_iff in H. destruct H as [_ H]. apply N.leb_le in H. lia. Qed.
Lemma is_alpha_bound c : is_alpha_ascii c = true -> c < 128.
Proof.
  unfold is_alpha_ascii. intros H. apply orb_true_iff in H.
  destruct H as [H|H]; apply andb_true_iff in H; destruct H as [_ H]; apply N.leb_le in H; lia.
Qed.
Lemma in_classw_bound c : in_classw c = true -> c < 128.
Proof.
  unfold in_classw. intros H. apply orb_true_iff in H. destruct H as [H|H]; [apply is_alpha_bound; assumption|].
  apply N.eqb_eq in H. subst. reflexivity.
Qed.

Definition digit_facts (c : char) : bool :=
  implb (is_digit c)
    (negb (in_prefix c) && negb (in_classw c) && negb (is_space c) && in_short c && negb (is_sep c)
     && negb (N.eqb c c_dot) && negb (N.eqb c c_colon) && negb (N.eqb c c_comma) && negb (N.eqb c c_slash) && negb (N.eqb c c_dash)).
Lemma digit_facts_ok c : digit_facts c = true.
Proof.
  destruct (is_digit c) eqn:E; [|unfold digit_facts; rewrite E; reflexivity].
  apply (ascii_check digit_facts); [vm_compute; reflexivity|apply is_digit_bound; assumption].
Qed.

Definition classw_facts (c : char) : bool :=
  implb (in_classw c)
    (in_prefix c && negb (is_digit c) && negb (is_space c) && in_short c && negb (is_sep c)
     && negb (N.eqb c c_dot) && negb (N.eqb c c_colon) && negb (N.eqb c c_comma) && negb (N.eqb c c_slash)).
Lemma classw_facts_ok c : classw_facts c = true.
Proof.
  destruct (in_classw c) eqn:E; [|unfold classw_facts; rewrite E; reflexivity].
  apply (ascii_check classw_facts); [vm_compute; reflexivity|apply in_classw_bound; assumption].
Qed.

Ltac split_andb H :=
  repeat match type of H with
         | _ && _ = true => let H1 := fresh H in apply andb_true_iff in H; destruct H as [H H1]
         end.

Section DigitFacts.
Variable c : char.
Hypothesis Hd : is_digit c = true.
Let F := digit_facts_ok c.
Lemma digit_not_prefix : in_prefix c = false.
Proof. pose proof F as H. unfold digit_facts in H. rewrite Hd in H. simpl in H. split_andb H. apply negb_true_iff. assumption. Qed.
Lemma digit_not_classw : in_classw c = false.
Proof. pose proof F as H. unfold digit_facts in H. rewrite Hd in H. simpl in H. split_andb H. apply negb_true_iff. assumption. Qed.
Lemma digit_not_space : is_space c = false.
Proof. pose proof F as H. unfold digit_facts in H. rewrite Hd in H. simpl in H. split_andb H. apply negb_true_iff. assumption. Qed.
Lemma digit_in_short : in_short c = true.
Proof. pose proof F as H. unfold digit_facts in H. rewrite Hd in H. simpl in H. split_andb H. assumption. Qed.
Lemma digit_not_sep : is_sep c = false.
Proof. pose proof F as H. unfold digit_facts in H. rewrite Hd in H. simpl in H. split_andb H. apply negb_true_iff. assumption. Qed.
Lemma digit_not_dot : N.eqb c c_dot = false.
Proof. pose proof F as H. unfold digit_facts in H. rewrite Hd in H. simpl in H. split_andb H. apply negb_true_iff. assumption. Qed.
Lemma digit_not_colon : N.eqb c c_colon = false.
Proof. pose proof F as H. unfold digit_facts in H. rewrite Hd in H. simpl in H. split_andb H. apply negb_true_iff. assumption. Qed.
Lemma digit_not_comma : N.eqb c c_comma = false.
Proof. pose proof F as H. unfold digit_facts in H. rewrite Hd in H. simpl in H. split_andb H. apply negb_true_iff. assumption. Qed.
Lemma digit_not_slash : N.eqb c c_slash = false.
Proof. pose proof F as H. unfold digit_facts in H. rewrite Hd in H. simpl in H. split_andb H. apply negb_true_iff. assumption. Qed.
Lemma digit_not_dash : N.eqb c c_dash = false.
Proof. pose proof F as H. unfold digit_facts in H. rewrite Hd in H. simpl in H. split_andb H. apply negb_true_iff. assumption. Qed.
End DigitFacts.

Section ClasswFacts.
Variable c : char.
Hypothesis Hc : in_classw c = true.
Let F := classw_facts_ok c.
Lemma classw_in_prefix : in_prefix c = true.
Proof. pose proof F as H. unfold classw_facts in H. rewrite Hc in H. simpl in H. split_andb H. assumption. Qed.
Lemma classw_not_digit : is_digit c = false.
Proof. pose proof F as H. unfold classw_facts in H. rewrite Hc in H. simpl in H. split_andb H. apply negb_true_iff. assumption. Qed.
Lemma classw_not_space : is_space c = false.
Proof. pose proof F as H. unfold classw_facts in H. rewrite Hc in H. simpl in H. split_andb H. apply negb_true_iff. assumption. Qed.
Lemma classw_in_short : in_short c = true.
Proof. pose proof F as H. unfold classw_facts in H. rewrite Hc in H. simpl in H. split_andb H. assumption. Qed.
Lemma classw_not_dot : N.eqb c c_dot = false.
Proof. pose proof F as H. unfold classw_facts in H. rewrite Hc in H. simpl in H. split_andb H. apply negb_true_iff. assumption. Qed.
Lemma classw_not_colon : N.eqb c c_colon = false.
Proof. pose proof F as H. unfold classw_facts in H. rewrite Hc in H. simpl in H. split_andb H. apply negb_true_iff. assumption. Qed.
Lemma classw_not_comma : N.eqb c c_comma = false.
Proof. pose proof F as H. unfold classw_facts in H. rewrite Hc in H. simpl in H. split_andb H. apply negb_true_iff. assumption. Qed.
Lemma classw_not_slash : N.eqb c c_slash = false.
Proof. pose proof F as H. unfold classw_facts in H. rewrite Hc in H. simpl in H. split_andb H. apply negb_true_iff. assumption. Qed.
End ClasswFacts.

Lemma space_in_prefix c : is_space c = true -> in_prefix c = true.
Proof. intros H. unfold in_prefix. rewrite H. apply orb_true_r. Qed.
Lemma prefix_in_short c : in_prefix c = true -> in_short c = true.
Proof.
  unfold in_prefix, in_short. intros H.
  destruct (is_alpha_ascii c), (N.eqb c c_dash), (is_space c); simpl in *; try discriminate; rewrite ?orb_true_r; reflexivity.
Qed.
Lemma short_in_long c : in_short c = true -> in_long c = true.
Proof. unfold in_long. intros ->. reflexivity. Qed.
Lemma prefix_not_digit c : in_prefix c = true -> is_digit c = false.
Proof. intros H. destruct (is_digit c) eqn:E; [|reflexivity]. rewrite (digit_not_prefix c E) in H. discriminate. Qed.
Lemma prefix_not_comma c : in_prefix c = true -> N.eqb c c_comma = false.
Proof. intros H. destruct (N.eqb c c_comma) eqn:E; [|reflexivity]. apply N.eqb_eq in E. subst. discriminate. Qed.
Lemma prefix_not_slash c : in_prefix c = true -> N.eqb c c_slash = false.
Proof. intros H. destruct (N.eqb c c_slash) eqn:E; [|reflexivity]. apply N.eqb_eq in E. subst. discriminate. Qed.
Lemma long_not_comma c : in_long c = true -> N.eqb c c_comma = false.
Proof. intros H. destruct (N.eqb c c_comma) eqn:E; [|reflexivity]. apply N.eqb_eq in E. subst. discriminate. Qed.
Lemma short_not_slash c : in_short c = true -> N.eqb c c_slash = false.
Proof. intros H. destruct (N.eqb c c_slash) eqn:E; [|reflexivity]. apply N.eqb_eq in E. subst. discriminate. Qed.

(* a separator that may occur in a name matched by the long regex is the slash *)
Lemma sep_in_long_is_slash c : in_long c = true -> is_sep c = true -> c = c_slash.
Proof.
  unfold in_long, in_short, is_sep. intros H1 H2.
  destruct (N.eqb c c_slash) eqn:E; [apply N.eqb_eq; assumption|].
  destruct (is_digit c), (N.eqb c c_colon), (N.eqb c c_dot), (N.eqb c c_caret), (N.eqb c c_dash), (is_alpha_ascii c), (is_space c);
    simpl in *; discriminate.
Qed.

(* ================================================================== strip *)
Lemma lstrip_is_drop p s : lstrip_by p s = drop_while p s.
Proof. induction s as [|c r IH]; simpl; [reflexivity|]. destruct (p c); [apply IH|reflexivity]. Qed.

Definition no_edge (p : char -> bool) (s : str) : Prop := stops p s /\ stops p (rev s).

Lemma strip_by_id p s : no_edge p s -> strip_by p s = s.
Proof.
  intros [H1 H2]. unfold strip_by, rstrip_by. rewrite (lstrip_is_drop p s), (drop_while_stops_id p s H1).
  rewrite (lstrip_is_drop p (rev s)), (drop_while_stops_id p (rev s) H2). apply rev_involutive.
Qed.

Lemma rstrip_decomp p t : exists k, t = rstrip_by p t ++ k /\ forallb p k = true /\ stops p (rev (rstrip_by p t)).
Proof.
  unfold rstrip_by. rewrite lstrip_is_drop. exists (rev (take_while p (rev t))). split; [|split].
  - rewrite <- rev_app_distr, take_drop. symmetry. apply rev_involutive.
  - rewrite forallb_rev. apply take_while_all.
  - rewrite rev_involutive. apply drop_while_stops.
Qed.

Lemma strip_by_no_edge p s : no_edge p (strip_by p s).
Proof.
  unfold strip_by. set (t := lstrip_by p s).
  assert (Ht : stops p t) by (unfold t; rewrite lstrip_is_drop; apply drop_while_stops).
  destruct (rstrip_decomp p t) as [k [E [_ Hs]]]. split; [|assumption].
  destruct (rstrip_by p t) as [|c u]; [exact I|]. rewrite E in Ht. exact Ht.
Qed.

Lemma strip_by_forallb p (q : char -> bool) s : forallb q s = true -> forallb q (strip_by p s) = true.
Proof.
  intros H. unfold strip_by. set (t := lstrip_by p s).
  assert (Ht : forallb q t = true).
  { unfold t. rewrite lstrip_is_drop. rewrite <- (take_drop p s), forallb_app' in H. apply andb_true_iff in H. tauto. }
  destruct (rstrip_decomp p t) as [k [E _]]. rewrite E, forallb_app' in Ht. apply andb_true_iff in Ht. tauto.
Qed.

Lemma strip_by_idem p s : strip_by p (strip_by p s) = strip_by p s.
Proof. apply strip_by_id, strip_by_no_edge. Qed.

Lemma strip_lead p ws b : forallb p ws = true -> no_edge p b -> strip_by p (ws ++ b) = b.
Proof.
  intros Hw [H1 H2]. unfold strip_by. rewrite lstrip_is_drop, drop_while_app by assumption.
  unfold rstrip_by. rewrite lstrip_is_drop, (drop_while_stops_id p (rev b) H2). apply rev_involutive.
Qed.

Lemma strip_trail p a ws : forallb p ws = true -> no_edge p a -> strip_by p (a ++ ws) = a.
Proof.
  intros Hw [H1 H2]. unfold strip_by. destruct a as [|c r].
  - simpl. rewrite lstrip_is_drop. rewrite <- (app_nil_r ws), drop_while_app by (auto; exact I). reflexivity.
  - assert (E : lstrip_by p ((c :: r) ++ ws) = (c :: r) ++ ws).
    { rewrite lstrip_is_drop. apply drop_while_stops_id. exact H1. }
    rewrite E. unfold rstrip_by. rewrite lstrip_is_drop, rev_app_distr, drop_while_app; [apply rev_involutive|rewrite forallb_rev; assumption|assumption].
Qed.

Lemma stops_all_not p s : forallb (fun c => negb (p c)) s = true -> stops p s.
Proof.
  destruct s as [|c r]; [intros; exact I|]. simpl. intros H. apply andb_true_iff in H. destruct H as [H _].
  apply negb_true_iff. assumption.
Qed.

Lemma no_edge_all_not p s : forallb (fun c => negb (p c)) s = true -> no_edge p s.
Proof.
  intros H. split; apply stops_all_not; [assumption|]. rewrite forallb_rev. assumption.
Qed.

(* ================================================================== find_after / find_class *)
Definition not_char (m c : char) : bool := negb (N.eqb c m).

Lemma find_after_skip m a b : forallb (not_char m) a = true -> find_after m (a ++ b) = find_after m b.
Proof.
  induction a as [|c r IH]; simpl; intros H; [reflexivity|]. apply andb_true_iff in H. destruct H as [H1 H2].
  unfold not_char in H1. apply negb_true_iff in H1. rewrite H1. simpl. apply IH. assumption.
Qed.

Lemma find_after_none m a : forallb (not_char m) a = true -> find_after m a = None.
Proof. intros H. rewrite <- (app_nil_r a), find_after_skip by assumption. reflexivity. Qed.

Lemma find_after_hit m ds rest :
  ds <> [] -> forallb is_digit ds = true -> stops is_digit rest ->
  find_after m (m :: ds ++ rest) = Some (dec_val ds).
Proof.
  intros Hn Hd Hr. simpl. rewrite N.eqb_refl. destruct ds as [|d r]; [congruence|].
  simpl in Hd. apply andb_true_iff in Hd. destruct Hd as [Hd1 Hd2]. simpl. rewrite Hd1. simpl.
  rewrite take_while_app by assumption. reflexivity.
Qed.

Lemma find_class_hit (x w : list N) :
  w <> [] -> forallb in_classw w = true -> stops is_space (rev x) ->
  find_class (x ++ c_space :: w) = Some (c_space :: w).
Proof.
  intros Hn Hw Hx. unfold find_class. rewrite rev_app_distr. simpl rev. rewrite <- app_assoc. simpl app.
  assert (Hs : stops in_classw (c_space :: rev x)) by reflexivity.
  rewrite take_while_app, drop_while_app by (rewrite ?forallb_rev; assumption).
  simpl take_while. change (is_space c_space) with true. cbv iota.
  rewrite (take_while_stops is_space (rev x) Hx).
  destruct (rev w) as [|c r] eqn:E.
  - exfalso. apply Hn. rewrite <- (rev_involutive w), E. reflexivity.
  - rewrite <- E, rev_involutive. reflexivity.
Qed.

Lemma find_class_miss x : stops in_classw (rev x) -> find_class x = None.
Proof. intros H. unfold find_class. rewrite (take_while_stops _ _ H). reflexivity. Qed.

Lemma find_class_shape s r : find_class s = Some r ->
  exists ws w, r = ws ++ w /\ forallb is_space ws = true /\ w <> [] /\ forallb in_classw w = true.
Proof.
  unfold find_class. set (w := take_while in_classw (rev s)). set (r1 := drop_while in_classw (rev s)).
  set (ws := take_while is_space r1). intros H.
  destruct w as [|c w'] eqn:Ew; [discriminate|]. destruct ws as [|d ws'] eqn:Ews; [discriminate|].
  inversion H; subst r. exists (rev (d :: ws')), (rev (c :: w')). split; [reflexivity|].
  split; [rewrite forallb_rev, <- Ews; apply take_while_all|].
  split; [simpl; intros E; apply app_eq_nil in E; destruct E; discriminate|].
  rewrite forallb_rev, <- Ew. apply take_while_all.
Qed.

Lemma strip_class ws w : forallb is_space ws = true -> forallb in_classw w = true -> strip (ws ++ w) = w.
Proof.
  intros H1 H2. apply strip_lead; [assumption|]. apply no_edge_all_not.
  apply (forallb_impl in_classw); [|assumption]. intros c Hc. rewrite (classw_not_space c Hc). reflexivity.
Qed.

(* ================================================================== canonical component tuples *)
Definition class_ok (o : option str) : Prop :=
  match o with Some w => w <> [] /\ forallb in_classw w = true | None => True end.
Definition shape_ok (c : intf) : Prop :=
  (i_slot c = None /\ i_card c = None /\ i_sep c = None) \/
  ((exists sl, i_slot c = Some sl) /\ i_sep c = Some [c_slash]).
Definition canon (c : intf) : Prop :=
  forallb in_prefix (i_prefix c) = true /\ no_edge is_space (i_prefix c) /\ class_ok (i_class c) /\ shape_ok c.

(* the text after the number *)
Definition ext_of (sub chan : option N) (cls : option str) : str :=
  match sub with Some n => c_dot :: render_dec n | None => [] end
  ++ match chan with Some n => c_colon :: render_dec n | None => [] end
  ++ match cls with Some w => c_space :: w | None => [] end.

Lemma tail_str_ext c : tail_str c = number_str c ++ ext_of (i_sub c) (i_chan c) (i_class c).
Proof. reflexivity. Qed.

Definition ends_digit (s : str) : Prop := exists y d, s = y ++ [d] /\ is_digit d = true.

Lemma render_dec_ends n : ends_digit (render_dec n).
Proof.
  destruct (exists_last (render_dec_nonempty n)) as [y [d E]]. exists y, d. split; [assumption|].
  pose proof (render_dec_last n) as H. rewrite E, last_last in H. assumption.
Qed.

Lemma ends_digit_app a b : ends_digit b -> ends_digit (a ++ b).
Proof. intros [y [d [E H]]]. exists (a ++ y), d. subst. rewrite app_assoc. auto. Qed.

Lemma ends_digit_rev_stops (p : char -> bool) s :
  (forall d, is_digit d = true -> p d = false) -> ends_digit s -> stops p (rev s).
Proof. intros Hp [y [d [E H]]]. subst. rewrite rev_app_distr. simpl. apply Hp. assumption. Qed.

Lemma digits_all (P : char -> bool) n : (forall d, is_digit d = true -> P d = true) -> forallb P (render_dec n) = true.
Proof. intros H. apply (forallb_impl is_digit); [assumption|apply render_dec_digits]. Qed.

Lemma stops_render_dec_app (p : char -> bool) n rest :
  (forall d, is_digit d = true -> p d = false) -> stops p (render_dec n ++ rest).
Proof. intros H. destruct (render_dec_cons n) as [d [r [E Hd]]]. rewrite E. simpl. apply H. assumption. Qed.

Section Ext.
Variables (sub chan : option N) (cls : option str).
Hypothesis Hcls : class_ok cls.
Let e := ext_of sub chan cls.

Lemma ext_stops_digit : stops is_digit e.
Proof.
  unfold e, ext_of. destruct sub; [reflexivity|]. destruct chan; [reflexivity|]. destruct cls; [reflexivity|exact I].
Qed.
Lemma ext_stops_sep : stops is_sep e.
Proof.
  unfold e, ext_of. destruct sub; [reflexivity|]. destruct chan; [reflexivity|]. destruct cls; [reflexivity|exact I].
Qed.
Lemma ext_stops_prefix : e <> [] -> stops is_digit e.
Proof. intros _. apply ext_stops_digit. Qed.

Let cpart := match cls with Some w => c_space :: w | None => [] end.
Let chpart := match chan with Some n => c_colon :: render_dec n | None => [] end.

Lemma cpart_no (m : char) : m <> c_space -> (forall c, in_classw c = true -> N.eqb c m = false) -> forallb (not_char m) cpart = true.
Proof.
  intros H1 H2. unfold cpart. destruct cls as [w|]; [|reflexivity]. simpl. destruct Hcls as [_ Hw].
  unfold not_char at 1. destruct (N.eqb c_space m) eqn:E; [apply N.eqb_eq in E; congruence|]. simpl.
  apply (forallb_impl in_classw); [|assumption]. intros c Hc. unfold not_char. rewrite (H2 c Hc). reflexivity.
Qed.

Lemma ext_find_dot : find_after c_dot e = sub.
Proof.
  unfold e, ext_of. fold chpart cpart. destruct sub as [n|].
  - cbn [app]. rewrite find_after_hit; [rewrite render_dec_val; reflexivity|apply render_dec_nonempty|apply render_dec_digits|].
    unfold chpart. destruct chan; [reflexivity|]. unfold cpart. destruct cls; [reflexivity|exact I].
  - simpl. apply find_after_none. rewrite forallb_app'. apply andb_true_iff. split.
    + unfold chpart. destruct chan as [n|]; [|reflexivity]. simpl. apply digits_all. intros d Hd. unfold not_char. rewrite (digit_not_dot d Hd). reflexivity.
    + apply cpart_no; [discriminate|apply classw_not_dot].
Qed.

Lemma ext_find_colon : find_after c_colon e = chan.
Proof.
  unfold e, ext_of. fold chpart cpart. rewrite find_after_skip.
  - unfold chpart. destruct chan as [n|].
    + cbn [app]. rewrite find_after_hit; [rewrite render_dec_val; reflexivity|apply render_dec_nonempty|apply render_dec_digits|].
      unfold cpart. destruct cls; [reflexivity|exact I].
    + simpl. apply find_after_none. apply cpart_no; [discriminate|apply classw_not_colon].
  - destruct sub as [n|]; [|reflexivity]. simpl. apply digits_all. intros d Hd. unfold not_char. rewrite (digit_not_colon d Hd). reflexivity.
Qed.

Lemma ext_find_class x : ends_digit x -> find_class (x ++ e) = option_map (cons c_space) cls.
Proof.
  intros Hx. unfold e, ext_of.
  set (s1 := match sub with Some n => c_dot :: render_dec n | None => [] end).
  set (s2 := match chan with Some n => c_colon :: render_dec n | None => [] end).
  assert (H1 : ends_digit (x ++ s1)).
  { unfold s1. destruct sub as [n|]; [|rewrite app_nil_r; assumption]. apply ends_digit_app.
    change (c_dot :: render_dec n) with ([c_dot] ++ render_dec n). apply ends_digit_app, render_dec_ends. }
  assert (H2 : ends_digit ((x ++ s1) ++ s2)).
  { unfold s2. destruct chan as [n|]; [|rewrite app_nil_r; assumption]. apply ends_digit_app.
    change (c_colon :: render_dec n) with ([c_colon] ++ render_dec n). apply ends_digit_app, render_dec_ends. }
  rewrite !app_assoc. destruct cls as [w|]; simpl.
  - destruct Hcls as [Hn Hw]. apply find_class_hit; [assumption|assumption|].
    apply ends_digit_rev_stops; [apply digit_not_space|assumption].
  - rewrite app_nil_r. apply find_class_miss. apply ends_digit_rev_stops; [apply digit_not_classw|assumption].
Qed.

Lemma ext_all (P : char -> bool) :
  (forall d, is_digit d = true -> P d = true) -> (forall c, in_classw c = true -> P c = true) ->
  P c_dot = true -> P c_colon = true -> P c_space = true -> forallb P e = true.
Proof.
  intros Hd Hc H1 H2 H3. unfold e, ext_of. rewrite !forallb_app'. repeat (apply andb_true_iff; split).
  - destruct sub; [|reflexivity]. simpl. rewrite H1. apply digits_all; assumption.
  - destruct chan; [|reflexivity]. simpl. rewrite H2. apply digits_all; assumption.
  - destruct cls as [w|]; [|reflexivity]. simpl. rewrite H3. destruct Hcls as [_ Hw].
    apply (forallb_impl in_classw); assumption.
Qed.
End Ext.

(* ================================================================== the two inner parsers on rendered text *)
Lemma opt_sep_stops s : stops is_sep s -> opt_sep s = (None, s).
Proof. destruct s as [|c r]; simpl; intros H; [reflexivity|]. rewrite H. reflexivity. Qed.

Lemma strip_space_class w : forallb in_classw w = true -> strip (c_space :: w) = w.
Proof. intros H. change (c_space :: w) with ([c_space] ++ w). apply strip_class; [reflexivity|assumption]. Qed.

Lemma class_restore cls : class_ok cls -> option_map strip (option_map (cons c_space) cls) = cls.
Proof. destruct cls as [w|]; simpl; [|reflexivity]. intros [_ H]. rewrite strip_space_class by assumption. reflexivity. Qed.

Lemma match_nonempty {A B} (s : list A) (a b : B) : s <> [] -> match s with [] => a | _ :: _ => b end = b.
Proof. destruct s; [congruence|reflexivity]. Qed.

Lemma render_app_nonempty n rest : render_dec n ++ rest <> [].
Proof. destruct (render_dec_cons n) as [d [r [E _]]]. rewrite E. discriminate. Qed.

Lemma parse_short_ok pre port sub chan cls :
  class_ok cls ->
  parse_short pre (render_dec port ++ ext_of sub chan cls) =
  Ok (mk_intf (strip (strip pre)) None None None port sub chan cls).
Proof.
  intros Hc. unfold parse_short.
  assert (Hs : stops not_digit (render_dec port ++ ext_of sub chan cls)).
  { apply stops_render_dec_app. intros d Hd. unfold not_digit. rewrite Hd. reflexivity. }
  rewrite (drop_while_stops_id _ _ Hs). cbv zeta.
  rewrite match_nonempty by apply render_app_nonempty.
  rewrite take_while_app; [|apply render_dec_digits|apply ext_stops_digit; assumption].
  rewrite render_dec_val.
  rewrite !find_after_skip by (apply digits_all; intros x Hx; unfold not_char; rewrite ?(digit_not_dot x Hx), ?(digit_not_colon x Hx); reflexivity).
  rewrite ext_find_dot, ext_find_colon by assumption.
  rewrite ext_find_class by (try assumption; apply render_dec_ends).
  unfold update_state. simpl. rewrite class_restore by assumption. reflexivity.
Qed.

Definition number_long (sl : N) (card : option N) (port : N) : str :=
  render_dec sl ++ c_slash :: match card with Some cd => render_dec cd ++ c_slash :: render_dec port | None => render_dec port end.

Lemma number_long_ends sl card port : ends_digit (number_long sl card port).
Proof.
  unfold number_long. apply ends_digit_app. change (c_slash :: ?x) with ([c_slash] ++ x). apply ends_digit_app.
  destruct card as [cd|]; [|apply render_dec_ends]. apply ends_digit_app.
  change (c_slash :: render_dec port) with ([c_slash] ++ render_dec port). apply ends_digit_app, render_dec_ends.
Qed.

Lemma number_long_all (P : char -> bool) sl card port :
  (forall d, is_digit d = true -> P d = true) -> P c_slash = true -> forallb P (number_long sl card port) = true.
Proof.
  intros Hd Hs. unfold number_long. rewrite forallb_app', digits_all by assumption. simpl. rewrite Hs. simpl.
  destruct card as [cd|]; [|apply digits_all; assumption]. rewrite forallb_app', digits_all by assumption. simpl. rewrite Hs.
  apply digits_all; assumption.
Qed.

Lemma parse_long_ok pre sl card port sub chan cls :
  class_ok cls ->
  parse_long pre (number_long sl card port ++ ext_of sub chan cls) =
  Ok (mk_intf (strip pre) (Some [c_slash]) (Some sl) card port sub chan cls).
Proof.
  intros Hc. unfold parse_long.
  assert (Hfa : forall m, (forall d, is_digit d = true -> N.eqb d m = false) -> N.eqb c_slash m = false ->
                find_after m (number_long sl card port ++ ext_of sub chan cls) = find_after m (ext_of sub chan cls)).
  { intros m H1 H2. apply find_after_skip. apply number_long_all.
    - intros d Hd. unfold not_char. rewrite (H1 d Hd). reflexivity.
    - unfold not_char. rewrite H2. reflexivity. }
  rewrite (Hfa c_dot digit_not_dot eq_refl), (Hfa c_colon digit_not_colon eq_refl).
  rewrite ext_find_dot, ext_find_colon by assumption.
  rewrite (ext_find_class sub chan cls Hc _ (number_long_ends sl card port)).
  set (e := ext_of sub chan cls).
  assert (He1 : stops is_digit e) by (apply ext_stops_digit; assumption).
  assert (He2 : stops is_sep e) by (apply ext_stops_sep; assumption).
  unfold number_long. rewrite <- !app_assoc. cbn [app].
  rewrite take_while_app by (try apply render_dec_digits; reflexivity).
  rewrite drop_while_app by (try apply render_dec_digits; reflexivity).
  destruct (render_dec sl) as [|s0 sr] eqn:Esl; [exfalso; apply (render_dec_nonempty sl Esl)|]. rewrite <- Esl.
  cbn [opt_sep]. change (is_sep c_slash) with true. cbv iota.
  destruct card as [cd|].
  - rewrite <- !app_assoc. cbn [app].
    rewrite take_while_app by (try apply render_dec_digits; reflexivity).
    rewrite drop_while_app by (try apply render_dec_digits; reflexivity).
    cbn [opt_sep]. change (is_sep c_slash) with true. cbv iota.
    rewrite take_while_app by (try apply render_dec_digits; assumption).
    unfold opt_digits.
    destruct (render_dec cd) as [|c0 cr] eqn:Ecd; [exfalso; apply (render_dec_nonempty cd Ecd)|]. rewrite <- Ecd.
    destruct (render_dec port) as [|p0 pr] eqn:Ep; [exfalso; apply (render_dec_nonempty port Ep)|]. rewrite <- Ep.
    rewrite !render_dec_val. unfold update_state. simpl. rewrite class_restore by assumption. reflexivity.
  - rewrite take_while_app by (try apply render_dec_digits; assumption).
    rewrite drop_while_app by (try apply render_dec_digits; assumption).
    rewrite (opt_sep_stops e He2). rewrite (take_while_stops is_digit e He1).
    unfold opt_digits.
    destruct (render_dec port) as [|p0 pr] eqn:Ep; [exfalso; apply (render_dec_nonempty port Ep)|]. rewrite <- Ep.
    rewrite !render_dec_val. unfold update_state. simpl. rewrite class_restore by assumption. reflexivity.
Qed.

(* ================================================================== parse (render c) = c *)
Lemma forallb_false_mid {A} (p : A -> bool) a x b : p x = false -> forallb p (a ++ x :: b) = false.
Proof. intros H. rewrite forallb_app'. simpl. rewrite H. apply andb_false_r. Qed.

Lemma existsb_false_of_forallb {A} (p q : A -> bool) l :
  (forall x, p x = true -> q x = false) -> forallb p l = true -> existsb q l = false.
Proof.
  intros H. induction l as [|c r IH]; simpl; [reflexivity|]. intros Hl. apply andb_true_iff in Hl.
  destruct Hl as [H1 H2]. rewrite (H c H1), (IH H2). reflexivity.
Qed.

(* the tail (number and everything after it) of a canonical tuple *)
Lemma tail_cases c : shape_ok c ->
  (i_slot c = None /\ i_card c = None /\ i_sep c = None /\
   tail_str c = render_dec (i_port c) ++ ext_of (i_sub c) (i_chan c) (i_class c)) \/
  (exists sl, i_slot c = Some sl /\ i_sep c = Some [c_slash] /\
   tail_str c = number_long sl (i_card c) (i_port c) ++ ext_of (i_sub c) (i_chan c) (i_class c)).
Proof.
  intros [[H1 [H2 H3]]|[[sl H1] H2]]; rewrite tail_str_ext; unfold number_str.
  - left. rewrite H1. auto.
  - right. exists sl. rewrite H1. repeat split; try assumption. f_equal. unfold number_long, sep_str. rewrite H2.
    destruct (i_card c) as [cd|]; simpl; rewrite <- ?app_assoc; reflexivity.
Qed.

Lemma tail_starts_digit c : shape_ok c -> exists d r, tail_str c = d :: r /\ is_digit d = true.
Proof.
  intros H. destruct (tail_cases c H) as [[_ [_ [_ E]]]|[sl [_ [_ E]]]]; rewrite E.
  - destruct (render_dec_cons (i_port c)) as [d [r [E1 Hd]]]. rewrite E1. simpl. eauto.
  - unfold number_long. destruct (render_dec_cons sl) as [d [r [E1 Hd]]]. rewrite E1. simpl. eauto.
Qed.

Lemma tail_last_not_space c : class_ok (i_class c) -> shape_ok c -> exists y d, tail_str c = y ++ [d] /\ is_space d = false.
Proof.
  intros Hc Hs.
  assert (Hn : ends_digit (number_str c ++ match i_sub c with Some n => c_dot :: render_dec n | None => [] end
                                        ++ match i_chan c with Some n => c_colon :: render_dec n | None => [] end)).
  { assert (H0 : ends_digit (number_str c)).
    { destruct (tail_cases c Hs) as [[H1 [H2 [H3 _]]]|[sl [H1 [H2 _]]]]; unfold number_str; rewrite H1.
      - apply render_dec_ends.
      - destruct (i_card c); repeat (apply ends_digit_app); apply render_dec_ends. }
    rewrite app_assoc. destruct (i_chan c) as [n|].
    - apply ends_digit_app. change (c_colon :: render_dec n) with ([c_colon] ++ render_dec n). apply ends_digit_app, render_dec_ends.
    - rewrite app_nil_r. destruct (i_sub c) as [n|]; [|rewrite app_nil_r; assumption].
      apply ends_digit_app. change (c_dot :: render_dec n) with ([c_dot] ++ render_dec n). apply ends_digit_app, render_dec_ends. }
  unfold tail_str. destruct (i_class c) as [w|].
  - destruct Hc as [Hne Hw]. destruct (exists_last Hne) as [w' [d E]]. subst w.
    exists (number_str c ++ match i_sub c with Some n => c_dot :: render_dec n | None => [] end
                       ++ match i_chan c with Some n => c_colon :: render_dec n | None => [] end ++ c_space :: w'), d.
    split; [rewrite <- !app_assoc; reflexivity|].
    rewrite forallb_app' in Hw. apply andb_true_iff in Hw. destruct Hw as [_ Hw]. simpl in Hw. rewrite andb_true_r in Hw.
    apply classw_not_space. assumption.
  - rewrite !app_nil_r. destruct Hn as [y [d [E Hd]]]. exists y, d. split; [|apply digit_not_space; assumption].
    rewrite <- E. rewrite <- ?app_assoc. reflexivity.
Qed.

Lemma tail_all (P : char -> bool) c : class_ok (i_class c) -> shape_ok c ->
  (forall d, is_digit d = true -> P d = true) -> (forall x, in_classw x = true -> P x = true) ->
  P c_dot = true -> P c_colon = true -> P c_space = true -> (i_slot c <> None -> P c_slash = true) ->
  forallb P (tail_str c) = true.
Proof.
  intros Hc Hs Hd Hw H1 H2 H3 H4.
  destruct (tail_cases c Hs) as [[_ [_ [_ E]]]|[sl [E1 [_ E]]]]; rewrite E, forallb_app'; apply andb_true_iff; split.
  - apply digits_all; assumption.
  - apply ext_all; assumption.
  - apply number_long_all; [assumption|]. apply H4. rewrite E1. discriminate.
  - apply ext_all; assumption.
Qed.

(* name_blank: the rendering, with any run of whitespace after a non-empty prefix, parses back to c *)
Lemma name_blank c ws :
  canon c -> forallb is_space ws = true -> (ws = [] \/ i_prefix c <> []) ->
  parse_intf (i_prefix c ++ ws ++ tail_str c) = Ok c.
Proof.
  intros [Hp [Hpe [Hc Hs]]] Hws Hor.
  set (p := i_prefix c) in *. set (t := tail_str c).
  destruct (tail_starts_digit c Hs) as [d0 [t0 [Et Hd0]]]. fold t in Et.
  destruct (tail_last_not_space c Hc Hs) as [ty [td [Ety Htd]]]. fold t in Ety.
  assert (Hpw : forallb in_prefix (p ++ ws) = true).
  { rewrite forallb_app', Hp. simpl. apply (forallb_impl is_space); [apply space_in_prefix|assumption]. }
  assert (Hlong : forallb in_long (p ++ ws ++ t) = true).
  { rewrite app_assoc, forallb_app'. apply andb_true_iff. split.
    - apply (forallb_impl in_prefix); [|assumption]. intros x Hx. apply short_in_long, prefix_in_short. assumption.
    - apply tail_all; try assumption; try reflexivity.
      + intros x Hx. apply short_in_long, digit_in_short. assumption.
      + intros x Hx. apply short_in_long, classw_in_short. assumption. }
  unfold parse_intf.
  rewrite (existsb_false_of_forallb in_long (N.eqb c_comma)); [|intros x Hx; rewrite N.eqb_sym; apply long_not_comma; assumption|assumption].
  (* strip is the identity *)
  assert (Hstrip : strip (p ++ ws ++ t) = p ++ ws ++ t).
  { apply strip_by_id. split.
    - destruct p as [|c0 pr] eqn:Ep.
      + destruct Hor as [->|H]; [|congruence]. simpl. rewrite Et. simpl. apply digit_not_space. assumption.
      + simpl. destruct Hpe as [H _]. exact H.
    - rewrite Ety, !rev_app_distr. simpl. exact Htd. }
  rewrite Hstrip.
  rewrite match_nonempty by (rewrite Et; destruct p; destruct ws; discriminate).
  assert (Htk : take_while in_prefix (p ++ ws ++ t) = p ++ ws).
  { rewrite app_assoc. apply take_while_app; [assumption|]. rewrite Et. simpl. apply digit_not_prefix. assumption. }
  assert (Hdr : drop_while in_prefix (p ++ ws ++ t) = t).
  { rewrite app_assoc. apply drop_while_app; [assumption|]. rewrite Et. simpl. apply digit_not_prefix. assumption. }
  assert (Hsp : strip (p ++ ws) = p) by (apply strip_trail; assumption).
  assert (Hpp : strip p = p) by (apply strip_by_id; assumption).
  destruct (tail_cases c Hs) as [[H1 [H2 [H3 E]]]|[sl [H1 [H2 E]]]]; fold t in E.
  - (* short *)
    assert (Hshort : forallb in_short (p ++ ws ++ t) = true).
    { rewrite app_assoc, forallb_app'. apply andb_true_iff. split.
      - apply (forallb_impl in_prefix); [apply prefix_in_short|assumption].
      - apply tail_all; try assumption; try reflexivity.
        + apply digit_in_short.
        + apply classw_in_short.
        + intros H. congruence. }
    rewrite Hshort, Htk, Hdr. rewrite Et. rewrite <- Et. rewrite E.
    rewrite parse_short_ok by assumption. rewrite Hsp, Hpp.
    destruct c; simpl in *; subst; reflexivity.
  - (* long *)
    assert (Hshort : forallb in_short (p ++ ws ++ t) = false).
    { rewrite E. unfold number_long. rewrite !app_assoc. rewrite <- (app_assoc _ (c_slash :: _) _). cbn [app].
      apply forallb_false_mid. reflexivity. }
    rewrite Hshort, Hlong, Htk, Hdr, E.
    rewrite parse_long_ok by assumption. rewrite Hsp.
    destruct c; simpl in *; subst; reflexivity.
Qed.

Lemma name_roundtrip c : canon c -> parse_intf (render c) = Ok c.
Proof.
  intros H. unfold render. change (tail_str c) with ([] ++ tail_str c). apply name_blank; [assumption|reflexivity|left; reflexivity].
Qed.

(* ================================================================== every successful parse is canonical *)
Lemma class_ok_find s : class_ok (option_map strip (find_class s)).
Proof.
  destruct (find_class s) as [r|] eqn:E; simpl; [|exact I].
  destruct (find_class_shape s r E) as [ws [w [-> [H1 [H2 H3]]]]]. rewrite strip_class by assumption. auto.
Qed.

Lemma update_state_canon d c :
  forallb in_prefix (r_prefix d) = true ->
  (r_slot d = None -> r_sep d = None) -> (r_slot d <> None -> r_sep d = Some [c_slash]) ->
  class_ok (option_map strip (r_class d)) ->
  update_state d = Ok c -> canon c.
Proof.
  intros Hp H1 H2 Hc. unfold update_state.
  destruct (r_slot d) as [sl|] eqn:Es; destruct (r_port d) as [p|] eqn:Ep; try discriminate; intros H; inversion H; subst c; clear H;
    (split; [apply strip_by_forallb; assumption|]); (split; [apply strip_by_no_edge|]); (split; [assumption|]).
  - right. simpl. split; [eauto|]. apply H2. discriminate.
  - left. simpl. auto.
Qed.

Lemma parse_short_canon pre P c : forallb in_prefix pre = true -> parse_short pre P = Ok c -> canon c.
Proof.
  intros Hp. unfold parse_short. destruct (drop_while not_digit P) as [|d0 dr]; [discriminate|].
  apply update_state_canon; simpl.
  - apply strip_by_forallb. assumption.
  - reflexivity.
  - congruence.
  - apply class_ok_find.
Qed.

Lemma opt_sep_some s sc r : opt_sep s = (Some sc, r) -> s = sc :: r /\ is_sep sc = true.
Proof.
  destruct s as [|c0 s']; simpl; [discriminate|]. destruct (is_sep c0) eqn:E; intros H; inversion H; subst. auto.
Qed.

Lemma forallb_drop_while (P p : char -> bool) s : forallb P s = true -> forallb P (drop_while p s) = true.
Proof. intros H. rewrite <- (take_drop p s), forallb_app' in H. apply andb_true_iff in H. tauto. Qed.

Lemma parse_long_canon pre L c :
  forallb in_prefix pre = true -> forallb in_long L = true -> parse_long pre L = Ok c -> canon c.
Proof.
  intros Hp HL. unfold parse_long.
  destruct (take_while is_digit L) as [|s0 sr]; [discriminate|].
  destruct (opt_sep (drop_while is_digit L)) as [sep1 r2] eqn:E1.
  destruct (opt_sep (drop_while is_digit r2)) as [sep2 r4] eqn:E2.
  set (card0 := opt_digits (take_while is_digit r2)). set (port0 := opt_digits (take_while is_digit r4)).
  destruct (match card0, port0 with Some c1, None => (None, Some c1) | _, _ => (card0, port0) end) as [card port] eqn:E3.
  destruct sep1 as [sc|]; [|discriminate].
  apply opt_sep_some in E1. destruct E1 as [E1 Hsep].
  assert (Hsc : sc = c_slash).
  { apply sep_in_long_is_slash; [|assumption].
    pose proof (forallb_drop_while in_long is_digit L HL) as H. rewrite E1 in H. simpl in H. apply andb_true_iff in H. tauto. }
  subst sc. apply update_state_canon; simpl.
  - assumption.
  - discriminate.
  - reflexivity.
  - apply class_ok_find.
Qed.

Lemma forallb_removelast {A} (P : A -> bool) l : forallb P l = true -> forallb P (removelast l) = true.
Proof.
  induction l as [|c r IH]; simpl; [reflexivity|]. intros H. apply andb_true_iff in H. destruct H as [H1 H2].
  destruct r; [reflexivity|]. simpl. rewrite H1. apply IH. assumption.
Qed.

Lemma parse_canon s c : parse_intf s = Ok c -> canon c.
Proof.
  unfold parse_intf. destruct (existsb (N.eqb c_comma) s); [discriminate|].
  destruct (strip s) as [|s0 sr] eqn:Es; [discriminate|]. rewrite <- Es. set (t := strip s).
  destruct (forallb in_short t) eqn:Hsh.
  - destruct (drop_while in_prefix t) as [|r0 rr] eqn:Ed.
    + apply parse_short_canon. apply forallb_removelast.
      rewrite <- (take_drop in_prefix t), Ed, app_nil_r. apply take_while_all.
    + apply parse_short_canon. apply take_while_all.
  - destruct (forallb in_long t) eqn:Hlo; [|discriminate].
    apply parse_long_canon; [apply take_while_all|apply forallb_drop_while; assumption].
Qed.

(* render_parse_canonical *)
Lemma render_parse_canonical s c :
  parse_intf s = Ok c -> canon c /\ parse_intf (render c) = Ok c.
Proof. intros H. pose proof (parse_canon s c H) as Hc. split; [assumption|apply name_roundtrip; assumption]. Qed.

Lemma render_fixed_point s c c' :
  parse_intf s = Ok c -> parse_intf (render c) = Ok c' -> c' = c /\ render c' = render c.
Proof.
  intros H H'. destruct (render_parse_canonical s c H) as [_ E]. rewrite E in H'. inversion H'. auto.
Qed.

(* ================================================================== ordering, equality, hashing *)
Fixpoint lex_ltb (a b : list N) : bool :=
  match a, b with
  | [], [] => false
  | [], _ :: _ => true
  | _ :: _, [] => false
  | x :: r, y :: s => if N.eqb x y then lex_ltb r s else N.ltb x y
  end.

Lemma str_ltb_lex a : forall b, str_ltb a b = lex_ltb a b.
Proof.
  induction a as [|x r IH]; intros [|y s]; simpl; try reflexivity.
  destruct (N.ltb x y) eqn:E1; destruct (N.eqb x y) eqn:E2; try apply IH; try reflexivity.
  apply N.ltb_lt in E1. apply N.eqb_eq in E2. lia.
Qed.

Lemma lex_irrefl a : lex_ltb a a = false.
Proof. induction a as [|x r IH]; simpl; [reflexivity|]. rewrite N.eqb_refl. assumption. Qed.

Lemma lex_trans a : forall b c, lex_ltb a b = true -> lex_ltb b c = true -> lex_ltb a c = true.
Proof.
  induction a as [|x r IH]; intros [|y s] [|z t]; simpl; try discriminate; try reflexivity.
  destruct (N.eqb x y) eqn:E1; destruct (N.eqb y z) eqn:E2; destruct (N.eqb x z) eqn:E3;
    rewrite ?N.eqb_eq, ?N.eqb_neq in *; intros H1 H2; rewrite ?N.ltb_lt in *; subst; try lia; try assumption;
    try congruence; try (eapply IH; eassumption).
Qed.

Lemma lex_total a : forall b, lex_ltb a b = false -> lex_ltb b a = false -> a = b.
Proof.
  induction a as [|x r IH]; intros [|y s]; simpl; try discriminate; try reflexivity.
  rewrite (N.eqb_sym y x). destruct (N.eqb x y) eqn:E.
  - apply N.eqb_eq in E. subst. intros H1 H2. f_equal. apply IH; assumption.
  - apply N.eqb_neq in E. rewrite !N.ltb_ge. intros. lia.
Qed.

Lemma lex_asym a b : lex_ltb a b = true -> lex_ltb b a = false.
Proof.
  intros H. destruct (lex_ltb b a) eqn:E; [|reflexivity]. pose proof (lex_trans _ _ _ H E) as H1. rewrite lex_irrefl in H1. discriminate.
Qed.

Lemma lex_app n1 : forall n2 c1 c2, length n1 = length n2 ->
  lex_ltb (n1 ++ c1) (n2 ++ c2) = lex_ltb n1 n2 || (list_eqb N.eqb n1 n2 && lex_ltb c1 c2).
Proof.
  induction n1 as [|x r IH]; intros [|y s] c1 c2 Hl; simpl in *; try discriminate; [reflexivity|].
  destruct (N.eqb x y); [apply IH; lia|]. simpl. rewrite orb_false_r. reflexivity.
Qed.

Definition olist (o : option N) : list N := match o with Some n => [n] | None => [] end.
Definition nums (c : intf) : list N :=
  olist (i_slot c) ++ olist (i_card c) ++ [i_port c] ++ olist (i_sub c) ++ olist (i_chan c).
Definition isS {A} (o : option A) : bool := match o with Some _ => true | None => false end.
Definition same_shape (a b : intf) : Prop :=
  isS (i_slot a) = isS (i_slot b) /\ isS (i_card a) = isS (i_card b) /\ isS (i_sub a) = isS (i_sub b) /\
  isS (i_chan a) = isS (i_chan b) /\ isS (i_class a) = isS (i_class b).
Definition class_ltb (a b : option str) : bool :=
  match a, b with Some x, Some y => str_ltb x y | _, _ => false end.
(* the order of the property: numeric components first (numerically, position by position), then the class word *)
Definition key_ltb (a b : intf) : bool :=
  lex_ltb (nums a) (nums b) || (list_eqb N.eqb (nums a) (nums b) && class_ltb (i_class a) (i_class b)).

Lemma str_ltb_irrefl x : str_ltb x x = false.
Proof. rewrite str_ltb_lex. apply lex_irrefl. Qed.

Lemma order_numeric a b : same_shape a b -> intf_lt a b = Ok (key_ltb a b).
Proof.
  destruct a as [pa sa sla cda poa sba cha cla], b as [pb sb slb cdb pob sbb chb clb].
  unfold same_shape, intf_lt, sort_list, key_ltb, nums. simpl.
  intros [H1 [H2 [H3 [H4 H5]]]].
  destruct sla, slb; try discriminate; destruct cda, cdb; try discriminate; destruct sba, sbb; try discriminate;
    destruct cha, chb; try discriminate; destruct cla as [wa|], clb as [wb|]; try discriminate; simpl;
    repeat match goal with |- context [N.eqb ?x ?y] => destruct (N.eqb x y); simpl end;
    rewrite ?orb_false_r; try reflexivity;
    destruct (str_eqb wa wb) eqn:E; try reflexivity; apply str_eqb_eq in E; subst; rewrite str_ltb_irrefl; reflexivity.
Qed.

Definition key (c : intf) : list N := nums c ++ match i_class c with Some w => w | None => [] end.

Lemma nums_length a b : same_shape a b -> length (nums a) = length (nums b).
Proof.
  destruct a as [pa sa sla cda poa sba cha cla], b as [pb sb slb cdb pob sbb chb clb]. unfold same_shape, nums. simpl.
  intros [H1 [H2 [H3 [H4 H5]]]].
  destruct sla, slb; try discriminate; destruct cda, cdb; try discriminate; destruct sba, sbb; try discriminate;
    destruct cha, chb; try discriminate; reflexivity.
Qed.

Lemma key_ltb_lex a b : same_shape a b -> key_ltb a b = lex_ltb (key a) (key b).
Proof.
  intros H. unfold key. rewrite lex_app by (apply nums_length; assumption). unfold key_ltb. f_equal. f_equal.
  destruct H as [_ [_ [_ [_ H]]]]. unfold class_ltb. destruct (i_class a) as [x|], (i_class b) as [y|]; try discriminate.
  - apply str_ltb_lex.
  - reflexivity.
Qed.

Lemma same_shape_refl a : same_shape a a.
Proof. unfold same_shape. auto. Qed.
Lemma same_shape_sym a b : same_shape a b -> same_shape b a.
Proof. unfold same_shape. intuition. Qed.
Lemma same_shape_trans a b c : same_shape a b -> same_shape b c -> same_shape a c.
Proof. unfold same_shape. intros [? [? [? [? ?]]]] [? [? [? [? ?]]]]. repeat split; congruence. Qed.

Lemma lt_irrefl a : intf_lt a a = Ok false.
Proof. rewrite order_numeric by apply same_shape_refl. rewrite key_ltb_lex by apply same_shape_refl. rewrite lex_irrefl. reflexivity. Qed.

Lemma lt_trans a b c : same_shape a b -> same_shape b c ->
  intf_lt a b = Ok true -> intf_lt b c = Ok true -> intf_lt a c = Ok true.
Proof.
  intros S1 S2. pose proof (same_shape_trans _ _ _ S1 S2) as S3.
  rewrite !order_numeric, !key_ltb_lex by assumption. intros H1 H2. injection H1 as H1. injection H2 as H2.
  f_equal. eapply lex_trans; eassumption.
Qed.

Lemma lt_asym a b : same_shape a b -> intf_lt a b = Ok true -> intf_lt b a = Ok false.
Proof.
  intros S. pose proof (same_shape_sym _ _ S) as S'. rewrite !order_numeric, !key_ltb_lex by assumption. intros H. injection H as H.
  f_equal. apply lex_asym. assumption.
Qed.

Lemma gt_is_flipped_lt a b : intf_gt a b = intf_lt b a.
Proof. reflexivity. Qed.

(* equality *)
Lemma item_eqb_eq x y : item_eqb x y = true <-> x = y.
Proof.
  destruct x, y; simpl; split; intros H; try discriminate; try reflexivity.
  - apply N.eqb_eq in H. subst. reflexivity.
  - inversion H. apply N.eqb_refl.
  - apply str_eqb_eq in H. subst. reflexivity.
  - inversion H. apply str_eqb_refl.
Qed.

Lemma list_eqb_item a : forall b, list_eqb item_eqb a b = true <-> a = b.
Proof.
  induction a as [|x r IH]; intros [|y s]; simpl; split; intros H; try discriminate; try reflexivity.
  - apply andb_true_iff in H. destruct H as [H1 H2]. apply item_eqb_eq in H1. apply IH in H2. subst. reflexivity.
  - inversion H; subst. apply andb_true_iff. split; [apply item_eqb_eq; reflexivity|apply IH; reflexivity].
Qed.

Lemma intf_eqb_spec a b :
  intf_eqb a b = true <->
  i_prefix a = i_prefix b /\ i_slot a = i_slot b /\ i_card a = i_card b /\ i_port a = i_port b /\
  i_sub a = i_sub b /\ i_chan a = i_chan b /\ i_class a = i_class b.
Proof.
  unfold intf_eqb. rewrite andb_true_iff, str_eqb_eq, list_eqb_item. unfold sort_list.
  destruct a as [pa sa sla cda poa sba cha cla], b as [pb sb slb cdb pob sbb chb clb]. simpl. split.
  - intros [H1 H2]. inversion H2.
    destruct sla, slb; try discriminate; destruct cda, cdb; try discriminate; destruct sba, sbb; try discriminate;
      destruct cha, chb; try discriminate; destruct cla, clb; try discriminate; simpl in *;
      repeat match goal with H : IInt _ = IInt _ |- _ => inversion H; clear H | H : IStr _ = IStr _ |- _ => inversion H; clear H end;
      subst; repeat split; reflexivity.
  - intros [H1 [H2 [H3 [H4 [H5 [H6 H7]]]]]]. subst. auto.
Qed.

Lemma list_lt_refl l : list_lt l l = Ok false.
Proof. induction l as [|x r IH]; simpl; [reflexivity|]. rewrite (proj2 (item_eqb_eq x x) eq_refl). assumption. Qed.

Lemma eq_sort_list a b : intf_eqb a b = true -> sort_list a = sort_list b.
Proof.
  rewrite intf_eqb_spec. intros [_ [H2 [H3 [H4 [H5 [H6 H7]]]]]]. unfold sort_list. congruence.
Qed.

(* order_eq_hash_compat *)
Lemma eq_hash a b : intf_eqb a b = true -> intf_hash a = intf_hash b.
Proof. rewrite intf_eqb_spec. intros [_ [H2 [H3 [H4 [H5 [H6 H7]]]]]]. unfold intf_hash. congruence. Qed.

Lemma eq_not_lt a b : intf_eqb a b = true -> intf_lt a b = Ok false /\ intf_gt a b = Ok false.
Proof.
  intros H. apply eq_sort_list in H. unfold intf_gt, intf_lt. rewrite H. split; apply list_lt_refl.
Qed.

Lemma intf_eqb_refl a : intf_eqb a a = true.
Proof. apply intf_eqb_spec. repeat split; reflexivity. Qed.

Lemma intf_eqb_sym a b : intf_eqb a b = intf_eqb b a.
Proof.
  destruct (intf_eqb a b) eqn:E1; destruct (intf_eqb b a) eqn:E2; try reflexivity.
  - rewrite intf_eqb_spec in E1. assert (intf_eqb b a = true) by (apply intf_eqb_spec; intuition). congruence.
  - rewrite intf_eqb_spec in E2. assert (intf_eqb a b = true) by (apply intf_eqb_spec; intuition). congruence.
Qed.

Lemma key_eq_fields a b : same_shape a b -> key a = key b ->
  i_slot a = i_slot b /\ i_card a = i_card b /\ i_port a = i_port b /\ i_sub a = i_sub b /\ i_chan a = i_chan b /\ i_class a = i_class b.
Proof.
  intros S E. pose proof (nums_length a b S) as Hl. unfold key in E.
  assert (En : nums a = nums b /\ match i_class a with Some w => w | None => [] end = match i_class b with Some w => w | None => [] end).
  { revert Hl E. generalize (nums a) (nums b). induction l as [|x r IH]; intros [|y s] Hl E; simpl in *; try discriminate; [auto|].
    inversion E. destruct (IH s) as [K1 K2]; [lia|assumption|]. subst. auto. }
  destruct En as [En Ec]. clear E Hl.
  destruct a as [pa sa sla cda poa sba cha cla], b as [pb sb slb cdb pob sbb chb clb]. unfold same_shape, nums in *. simpl in *.
  destruct S as [H1 [H2 [H3 [H4 H5]]]].
  destruct sla, slb; try discriminate; destruct cda, cdb; try discriminate; destruct sba, sbb; try discriminate;
    destruct cha, chb; try discriminate; destruct cla, clb; try discriminate; simpl in *; inversion En; subst; repeat split; reflexivity.
Qed.

(* exactly one of  a < b,  a == b,  b < a  for interfaces of one shape and prefix *)
Lemma trichotomy a b : same_shape a b -> i_prefix a = i_prefix b ->
  (intf_lt a b = Ok true /\ intf_eqb a b = false /\ intf_lt b a = Ok false) \/
  (intf_lt a b = Ok false /\ intf_eqb a b = true /\ intf_lt b a = Ok false) \/
  (intf_lt a b = Ok false /\ intf_eqb a b = false /\ intf_lt b a = Ok true).
Proof.
  intros S Hp. pose proof (same_shape_sym _ _ S) as S'.
  rewrite !order_numeric, !key_ltb_lex by assumption.
  destruct (lex_ltb (key a) (key b)) eqn:E1; destruct (lex_ltb (key b) (key a)) eqn:E2.
  - rewrite (lex_asym _ _ E1) in E2. discriminate.
  - left. repeat split. destruct (intf_eqb a b) eqn:E; [|reflexivity].
    destruct (eq_not_lt _ _ E) as [H _]. rewrite order_numeric, key_ltb_lex, E1 in H by assumption. discriminate.
  - right. right. repeat split. destruct (intf_eqb a b) eqn:E; [|reflexivity].
    destruct (eq_not_lt _ _ E) as [_ H]. change (intf_lt b a = Ok false) in H. rewrite order_numeric, key_ltb_lex, E2 in H by assumption. discriminate.
  - right. left. repeat split. apply intf_eqb_spec. pose proof (lex_total _ _ E1 E2) as Ek.
    destruct (key_eq_fields a b S Ek) as [? [? [? [? [? ?]]]]]. repeat split; assumption.
Qed.

(* mixed shapes are not ordered: the comparison raises (TypeError) as soon as the first differing position is not int/int or str/str *)
Lemma lt_raises_example :
  exists a b, parse_intf [69; 116; 104; 49] = Ok a /\ parse_intf [69; 116; 104; 49; 47; 50] = Ok b /\ intf_lt a b = Raise E_TypeError.
Proof. eexists. eexists. split; [vm_compute; reflexivity|]. split; [vm_compute; reflexivity|]. vm_compute. reflexivity. Qed.

(* Eth1/2 sorts before Eth1/10 although the text "Eth1/10" sorts before "Eth1/2" *)
Example order_numeric_example :
  exists a b, parse_intf [69; 116; 104; 49; 47; 50] = Ok a /\ parse_intf [69; 116; 104; 49; 47; 49; 48] = Ok b /\
              same_shape a b /\ intf_lt a b = Ok true /\ str_ltb (render b) (render a) = true.
Proof.
  eexists. eexists. split; [vm_compute; reflexivity|]. split; [vm_compute; reflexivity|].
  split; [unfold same_shape; simpl; auto|]. split; vm_compute; reflexivity.
Qed.

(* ================================================================== range expansion *)
Lemma item_eqb_refl x : item_eqb x x = true.
Proof. apply item_eqb_eq. reflexivity. Qed.

Lemma list_lt_at pre post v w :
  list_lt (pre ++ IInt v :: post) (pre ++ IInt w :: post) = Ok (N.ltb v w).
Proof.
  induction pre as [|x r IH]; simpl.
  - destruct (N.eqb v w) eqn:E; [|reflexivity]. apply N.eqb_eq in E. subst. rewrite list_lt_refl, N.ltb_irrefl. reflexivity.
  - rewrite item_eqb_refl. assumption.
Qed.

Lemma list_eqb_refl l : list_eqb item_eqb l l = true.
Proof. apply list_eqb_item. reflexivity. Qed.

Lemma list_eqb_at pre post v w :
  list_eqb item_eqb (pre ++ IInt v :: post) (pre ++ IInt w :: post) = N.eqb v w.
Proof.
  induction pre as [|x r IH]; simpl.
  - rewrite list_eqb_refl. apply andb_true_r.
  - rewrite item_eqb_refl. assumption.
Qed.

Definition member (a : iattr) (base : intf) (v : N) : intf := set_attr a base (Some v).

Lemma member_sort_list a base : exists pre post, forall v, sort_list (member a base v) = pre ++ IInt v :: post.
Proof.
  destruct a.
  - exists [oi (i_slot base); oi (i_card base); IInt (i_port base); oi (i_sub base)], [os (i_class base)]. reflexivity.
  - exists [oi (i_slot base); oi (i_card base); IInt (i_port base)], [oi (i_chan base); os (i_class base)]. reflexivity.
  - exists [oi (i_slot base); oi (i_card base)], [oi (i_sub base); oi (i_chan base); os (i_class base)]. reflexivity.
Qed.

Lemma member_prefix a base v : i_prefix (member a base v) = i_prefix base.
Proof. destruct a; reflexivity. Qed.

Lemma member_lt a base v w : intf_lt (member a base v) (member a base w) = Ok (N.ltb v w).
Proof. destruct (member_sort_list a base) as [pre [post H]]. unfold intf_lt. rewrite !H. apply list_lt_at. Qed.

Lemma member_eqb a base v w : intf_eqb (member a base v) (member a base w) = N.eqb v w.
Proof.
  destruct (member_sort_list a base) as [pre [post H]]. unfold intf_eqb. rewrite !member_prefix, str_eqb_refl, !H. apply list_eqb_at.
Qed.

Lemma member_ltb_tot a base v w : ltb_tot (member a base v) (member a base w) = N.ltb v w.
Proof. unfold ltb_tot. rewrite member_lt. reflexivity. Qed.

Lemma member_comparable a base v w : comparable (member a base v) (member a base w) = true.
Proof. unfold comparable. rewrite member_lt. reflexivity. Qed.

(* numeric counterparts of dedup / isort *)
Fixpoint dedupN (l : list N) : list N :=
  match l with [] => [] | x :: r => x :: filter (fun y => negb (N.eqb x y)) (dedupN r) end.
Fixpoint insertN (x : N) (l : list N) : list N :=
  match l with [] => [x] | y :: r => if N.ltb y x then y :: insertN x r else x :: l end.
Definition sortN (l : list N) : list N := fold_right insertN [] l.

Section Family.
Variables (a : iattr) (base : intf).
Let m := member a base.

Lemma filter_map_member x l :
  filter (fun y => negb (intf_eqb (m x) y)) (map m l) = map m (filter (fun y => negb (N.eqb x y)) l).
Proof.
  induction l as [|y r IH]; simpl; [reflexivity|]. unfold m at 1 2. rewrite member_eqb. fold m.
  destruct (N.eqb x y); simpl; rewrite IH; reflexivity.
Qed.

Lemma dedup_member l : dedup (map m l) = map m (dedupN l).
Proof. induction l as [|x r IH]; simpl; [reflexivity|]. rewrite IH, filter_map_member. reflexivity. Qed.

Lemma insert_member x l : insert_sorted (m x) (map m l) = map m (insertN x l).
Proof.
  induction l as [|y r IH]; simpl; [reflexivity|]. unfold m at 1 2. rewrite member_ltb_tot. fold m.
  destruct (N.ltb y x); simpl; [rewrite IH|]; reflexivity.
Qed.

Lemma isort_member l : isort (map m l) = map m (sortN l).
Proof. induction l as [|x r IH]; simpl; [reflexivity|]. unfold isort in *. simpl. rewrite IH. apply insert_member. Qed.

Lemma all_comparable_member l : all_comparable (map m l) = true.
Proof.
  induction l as [|x r IH]; simpl; [reflexivity|]. rewrite IH, andb_true_r. apply forallb_forall.
  intros y Hy. apply in_map_iff in Hy. destruct Hy as [w [<- _]]. apply member_comparable.
Qed.

Lemma py_sorted_member l : py_sorted (map m l) = Ok (map m (sortN l)).
Proof. unfold py_sorted. rewrite all_comparable_member, isort_member. reflexivity. Qed.
End Family.

(* sortN (dedupN l): strictly ascending, same members *)
Lemma dedupN_in l x : In x (dedupN l) <-> In x l.
Proof.
  induction l as [|y r IH]; simpl; [tauto|]. rewrite filter_In, IH, negb_true_iff, N.eqb_neq. split.
  - intros [H|[H _]]; auto.
  - intros [H|H]; [auto|]. destruct (N.eq_dec y x); auto.
Qed.

Lemma dedupN_nodup l : NoDup (dedupN l).
Proof.
  induction l as [|y r IH]; simpl; constructor.
  - rewrite filter_In, negb_true_iff, N.eqb_neq. intros [_ H]. congruence.
  - apply NoDup_filter. assumption.
Qed.

Lemma insertN_in x l y : In y (insertN x l) <-> y = x \/ In y l.
Proof.
  induction l as [|z r IH]; simpl; [intuition|]. destruct (N.ltb z x); simpl; [rewrite IH|]; intuition.
Qed.

Lemma insertN_sorted x l : StronglySorted N.lt l -> ~ In x l -> StronglySorted N.lt (insertN x l).
Proof.
  induction l as [|z r IH]; simpl; intros Hs Hn.
  - constructor; constructor.
  - inversion Hs as [|z' r' Hs' Hall]; subst. destruct (N.ltb z x) eqn:E.
    + apply N.ltb_lt in E. constructor; [apply IH; auto|]. apply Forall_forall. intros y Hy. apply insertN_in in Hy.
      destruct Hy as [->|Hy]; [assumption|]. rewrite Forall_forall in Hall. auto.
    + apply N.ltb_ge in E. assert (x < z) by (assert (x <> z) by (intros ->; apply Hn; left; reflexivity); lia).
      constructor; [assumption|]. constructor; [assumption|]. rewrite Forall_forall in *. intros y Hy. specialize (Hall y Hy). lia.
Qed.

Lemma sortN_in l x : In x (sortN l) <-> In x l.
Proof. induction l as [|y r IH]; simpl; [tauto|]. rewrite insertN_in, IH. intuition. Qed.

Lemma sortN_sorted l : NoDup l -> StronglySorted N.lt (sortN l).
Proof.
  induction l as [|y r IH]; simpl; intros Hn; [constructor|]. inversion Hn; subst.
  apply insertN_sorted; [auto|]. rewrite sortN_in. assumption.
Qed.

Lemma sorted_values_spec l :
  StronglySorted N.lt (sortN (dedupN l)) /\ (forall v, In v (sortN (dedupN l)) <-> In v l).
Proof. split; [apply sortN_sorted, dedupN_nodup|]. intros v. rewrite sortN_in, dedupN_in. tauto. Qed.

Lemma strongly_sorted_nodup l : StronglySorted N.lt l -> NoDup l.
Proof.
  induction 1 as [|x r Hs IH Hall]; constructor; [|assumption]. intros Hin. rewrite Forall_forall in Hall. specialize (Hall x Hin). lia.
Qed.

(* attribute algebra *)
Lemma set_attr_self a base v : get_attr a base = Some v -> set_attr a base (Some v) = base.
Proof. destruct base, a; simpl; intros H; inversion H; reflexivity. Qed.
Lemma set_attr_twice a base x v : set_attr a (set_attr a base x) (Some v) = set_attr a base (Some v).
Proof. destruct a; reflexivity. Qed.

(* the values listed by one token (start interface, optional end ordinal) *)
Definition tok_vals (a : iattr) (t : intf * option N) : list N :=
  match get_attr a (fst t) with
  | None => []
  | Some v => match snd t with None => [v] | Some en => py_range v en end
  end.

Lemma part_members_ok a base first t v :
  get_attr a (fst t) = Some v -> (first = true -> get_attr a base = Some v) ->
  part_members a base first t = Ok (map (member a base) (tok_vals a t)).
Proof.
  destruct t as [start e]. simpl. intros Hv Hf. unfold part_members, tok_vals. simpl. rewrite Hv.
  destruct e as [en|].
  - f_equal. apply map_ext. intros v'. destruct first; [reflexivity|]. apply set_attr_twice.
  - simpl. f_equal. f_equal. destruct first; [|reflexivity]. symmetry. apply set_attr_self. auto.
Qed.

Lemma members_loop_ok a base : forall toks first,
  (forall t, In t toks -> get_attr a (fst t) <> None) ->
  (first = true -> match toks with t0 :: _ => get_attr a (fst t0) = get_attr a base | [] => True end) ->
  members_loop a base first toks = Ok (map (member a base) (flat_map (tok_vals a) toks)).
Proof.
  induction toks as [|t r IH]; intros first Hg Hf; simpl; [reflexivity|].
  destruct (get_attr a (fst t)) as [v|] eqn:Ev; [|exfalso; apply (Hg t (or_introl eq_refl)); assumption].
  assert (Hb : first = true -> get_attr a base = Some v).
  { intros E. specialize (Hf E). simpl in Hf. congruence. }
  rewrite (part_members_ok a base first t v Ev Hb).
  simpl. rewrite IH; [|intros t' Ht'; apply Hg; right; assumption|discriminate].
  simpl. rewrite map_app. reflexivity.
Qed.

Lemma range_expand_spec base toks :
  let a := pick_attr base in
  let vals := flat_map (tok_vals a) toks in
  (forall t, In t toks -> get_attr a (fst t) <> None) ->
  match toks with t0 :: _ => get_attr a (fst t0) = get_attr a base | [] => True end ->
  (vals <> [] ->
     expand base toks = Ok (map (member a base) (sortN (dedupN vals))) /\
     StronglySorted N.lt (sortN (dedupN vals)) /\ (forall v, In v (sortN (dedupN vals)) <-> In v vals)) /\
  (vals = [] -> expand base toks = Raise E_ValueError).
Proof.
  intros a vals Hg Hf. unfold expand. fold a. rewrite (members_loop_ok a base toks true Hg (fun _ => Hf)). simpl. fold vals.
  rewrite dedup_member. split.
  - intros Hne. destruct (dedupN vals) as [|x r] eqn:E.
    + exfalso. destruct vals as [|v0 vr]; [congruence|]. pose proof (proj2 (dedupN_in (v0 :: vr) v0) (or_introl eq_refl)) as H. rewrite E in H. exact H.
    + rewrite <- E. destruct (map (member a base) (dedupN vals)) as [|y s] eqn:Em; [rewrite E in Em; discriminate|]. rewrite <- Em.
      rewrite py_sorted_member. split; [reflexivity|apply sorted_values_spec].
  - intros ->. reflexivity.
Qed.

(* the iterated component of a port range is always present: no guard needed *)
Lemma range_expand_port base toks :
  pick_attr base = A_port ->
  match toks with t0 :: _ => i_port (fst t0) = i_port base | [] => True end ->
  flat_map (tok_vals A_port) toks <> [] ->
  exists vs, expand base toks = Ok (map (member A_port base) vs) /\ StronglySorted N.lt vs /\
             (forall v, In v vs <-> In v (flat_map (tok_vals A_port) toks)).
Proof.
  intros Ha Hf Hne. pose proof (range_expand_spec base toks) as H. rewrite Ha in H. simpl in H.
  destruct H as [H _]; [intros t _; discriminate|destruct toks; [exact I|simpl; f_equal; assumption]|].
  exists (sortN (dedupN (flat_map (tok_vals A_port) toks))). apply H. assumption.
Qed.

(* F20/F28: when the iterated component is a channel (or sub-interface), a later bare part has no such component *)
Lemma range_channel_refuted :
  parse_range [83; 101; 114; 105; 97; 108; 49; 47; 48; 58; 49; 45; 51; 44; 55] = Raise E_TypeError.   (* "Serial1/0:1-3,7" *)
Proof. vm_compute. reflexivity. Qed.
Lemma range_dash_prefix_refuted :
  parse_range [80; 111; 114; 116; 45; 99; 104; 97; 110; 110; 101; 108; 49; 44; 51] = Raise E_Other.     (* "Port-channel1,3" *)
Proof. vm_compute. reflexivity. Qed.
(* F27: a class word holding a digit is dropped *)
Lemma class_digit_refuted :
  exists c, parse_intf [69; 116; 104; 49; 47; 50; 32; 108; 50; 116; 114; 97; 110; 115; 112; 111; 114; 116] = Ok c /\ i_class c = None.  (* "Eth1/2 l2transport" *)
Proof. eexists. split; [vm_compute; reflexivity|reflexivity]. Qed.

Example range_example :
  option_map (map render) (match parse_range [69; 116; 104; 49; 47; 51; 44; 49; 45; 50; 44; 50] with Ok l => Some l | Raise _ => None end)   (* "Eth1/3,1-2,2" *)
  = Some [[69; 116; 104; 49; 47; 49]; [69; 116; 104; 49; 47; 50]; [69; 116; 104; 49; 47; 51]].
Proof. vm_compute. reflexivity. Qed.

(* ================================================================== read accessors *)
Lemma readers_pure st rs : fst (read_all st rs) = st /\ snd (read_all st rs) = map (fun r => snd (read st r)) rs.
Proof.
  induction rs as [|r more IH]; simpl; [auto|].
  assert (E : fst (read st r) = st) by (destruct r; reflexivity).
  destruct (read st r) as [st1 o] eqn:Er. simpl in E. subst st1.
  destruct (read_all st more) as [st2 os]. simpl in *. destruct IH as [-> ->]. auto.
Qed.

Lemma filter_all_true {A} (p : A -> bool) l : forallb p l = true -> filter p l = l.
Proof.
  induction l as [|x r IH]; simpl; [reflexivity|]. intros H. apply andb_true_iff in H. destruct H as [H1 H2].
  rewrite H1, IH by assumption. reflexivity.
Qed.

Lemma dedupN_id l : NoDup l -> dedupN l = l.
Proof.
  induction 1 as [|x r Hn Hnd IH]; simpl; [reflexivity|]. rewrite IH. f_equal.
  apply filter_all_true. apply forallb_forall. intros y Hy.
  apply negb_true_iff, N.eqb_neq. intros ->. contradiction.
Qed.

Lemma insertN_head x l : Forall (N.lt x) l -> insertN x l = x :: l.
Proof.
  destruct l as [|y r]; simpl; [reflexivity|]. intros H. inversion H; subst.
  assert (E : N.ltb y x = false) by (apply N.ltb_ge; lia). rewrite E. reflexivity.
Qed.

Lemma sortN_id l : StronglySorted N.lt l -> sortN l = l.
Proof.
  induction 1 as [|x r Hs IH Hall]; simpl; [reflexivity|]. unfold sortN in *. rewrite IH. apply insertN_head. assumption.
Qed.

(* as_list() of an expanded range returns the members in the order of iteration, and nothing else changes *)
Lemma as_list_agrees a base vs :
  StronglySorted N.lt vs -> vs <> [] ->
  read (map (member a base) vs) R_as_list = (map (member a base) vs, O_list (map render (map (member a base) vs))).
Proof.
  intros Hs Hne. unfold read. destruct (map (member a base) vs) as [|y s] eqn:E; [destruct vs; [congruence|discriminate]|].
  rewrite <- E. rewrite dedup_member, py_sorted_member, dedupN_id, sortN_id by (try apply strongly_sorted_nodup; assumption).
  reflexivity.
Qed.

Lemma len_agrees st : read st R_len = (st, O_len (N.of_nat (length st))).
Proof. reflexivity. Qed.

(* ================================================================== tokenisation of one comma-separated part *)
Lemma split_on_aux_nosep sep a : forall cur rest, forallb (not_char sep) a = true ->
  split_on_aux sep cur (a ++ rest) = split_on_aux sep (rev a ++ cur) rest.
Proof.
  induction a as [|c r IH]; intros cur rest H; simpl; [reflexivity|].
  apply andb_true_iff in H. destruct H as [H1 H2]. unfold not_char in H1. apply negb_true_iff in H1. rewrite H1.
  rewrite IH by assumption. rewrite <- app_assoc. reflexivity.
Qed.

Lemma split_on_nosep sep a : forallb (not_char sep) a = true -> split_on sep a = [a].
Proof.
  intros H. unfold split_on. pose proof (split_on_aux_nosep sep a [] [] H) as E. rewrite app_nil_r in E. rewrite E. simpl.
  rewrite app_nil_r, rev_involutive. reflexivity.
Qed.

Lemma split_on_app sep a b : forallb (not_char sep) a = true -> split_on sep (a ++ sep :: b) = a :: split_on sep b.
Proof.
  intros H. unfold split_on. rewrite split_on_aux_nosep by assumption. simpl. rewrite N.eqb_refl, app_nil_r, rev_involutive. reflexivity.
Qed.

Lemma existsb_not_char sep a : forallb (not_char sep) a = true -> existsb (N.eqb sep) a = false.
Proof.
  induction a as [|c r IH]; simpl; [reflexivity|]. intros H. apply andb_true_iff in H. destruct H as [H1 H2].
  unfold not_char in H1. apply negb_true_iff in H1. rewrite N.eqb_sym, H1. simpl. auto.
Qed.

Lemma ext_all_cls sub chan cls (P : char -> bool) :
  (forall d, is_digit d = true -> P d = true) -> match cls with Some w => forallb P w = true | None => True end ->
  P c_dot = true -> P c_colon = true -> P c_space = true -> forallb P (ext_of sub chan cls) = true.
Proof.
  intros Hd Hc H1 H2 H3. unfold ext_of. rewrite !forallb_app'. repeat (apply andb_true_iff; split).
  - destruct sub; [|reflexivity]. simpl. rewrite H1. apply digits_all; assumption.
  - destruct chan; [|reflexivity]. simpl. rewrite H2. apply digits_all; assumption.
  - destruct cls as [w|]; [|reflexivity]. simpl. rewrite H3. assumption.
Qed.

Lemma tail_all_cls (P : char -> bool) c : shape_ok c ->
  (forall d, is_digit d = true -> P d = true) -> match i_class c with Some w => forallb P w = true | None => True end ->
  P c_dot = true -> P c_colon = true -> P c_space = true -> (i_slot c <> None -> P c_slash = true) ->
  forallb P (tail_str c) = true.
Proof.
  intros Hs Hd Hw H1 H2 H3 H4.
  destruct (tail_cases c Hs) as [[_ [_ [_ E]]]|[sl [E1 [_ E]]]]; rewrite E, forallb_app'; apply andb_true_iff; split.
  - apply digits_all; assumption.
  - apply ext_all_cls; assumption.
  - apply number_long_all; [assumption|]. apply H4. rewrite E1. discriminate.
  - apply ext_all_cls; assumption.
Qed.

(* no '-' in the prefix nor in the class word (the guard that F28 violates) *)
Definition dash_free (c : intf) : Prop :=
  forallb (not_char c_dash) (i_prefix c) = true /\
  match i_class c with Some w => forallb (not_char c_dash) w = true | None => True end.

Lemma render_no_dash c : canon c -> dash_free c -> forallb (not_char c_dash) (render c) = true.
Proof.
  intros [_ [_ [_ Hs]]] [H1 H2]. unfold render. rewrite forallb_app', H1. simpl.
  apply tail_all_cls; try assumption; try reflexivity.
  intros d Hd. unfold not_char. rewrite (digit_not_dash d Hd). reflexivity.
Qed.

Lemma render_no_edge c : canon c -> no_edge is_space (render c).
Proof.
  intros [Hp [Hpe [Hc Hs]]]. unfold render.
  destruct (tail_starts_digit c Hs) as [d0 [t0 [Et Hd0]]].
  destruct (tail_last_not_space c Hc Hs) as [ty [td [Ety Htd]]]. split.
  - destruct (i_prefix c) as [|c0 pr] eqn:Ep.
    + simpl. rewrite Et. simpl. apply digit_not_space. assumption.
    + simpl. destruct Hpe as [H _]. exact H.
  - rewrite Ety, !rev_app_distr. simpl. exact Htd.
Qed.

Lemma strip_render c : canon c -> strip (render c) = render c.
Proof. intros H. apply strip_by_id, render_no_edge. assumption. Qed.

Lemma nth_str_0 x l : nth_str (x :: l) 0 = x.
Proof. reflexivity. Qed.

(* a part without '-' : a single interface *)
Lemma part_token_single c : canon c -> dash_free c -> part_token (render c) = Ok (c, None).
Proof.
  intros Hc Hd. pose proof (render_no_dash c Hc Hd) as Hn. unfold part_token.
  rewrite (split_on_nosep c_dash _ Hn), nth_str_0, (strip_render c Hc), (name_roundtrip c Hc). simpl.
  rewrite (existsb_not_char c_dash _ Hn). reflexivity.
Qed.

(* a part  <interface>-<end> *)
Lemma part_token_range c e : canon c -> dash_free c ->
  part_token (render c ++ c_dash :: render_dec e) = Ok (c, Some e).
Proof.
  intros Hc Hd. pose proof (render_no_dash c Hc Hd) as Hn. unfold part_token.
  assert (He : forallb (not_char c_dash) (render_dec e) = true).
  { apply digits_all. intros d H. unfold not_char. rewrite (digit_not_dash d H). reflexivity. }
  rewrite (split_on_app c_dash _ _ Hn), (split_on_nosep c_dash _ He), nth_str_0, (strip_render c Hc), (name_roundtrip c Hc). simpl.
  assert (Hx : existsb (N.eqb c_dash) (render c ++ c_dash :: render_dec e) = true).
  { rewrite existsb_app. simpl. apply orb_true_r. }
  rewrite Hx.
  assert (Hst : strip (render_dec e) = render_dec e).
  { apply strip_by_id, no_edge_all_not. apply digits_all. intros d H. rewrite (digit_not_space d H). reflexivity. }
  rewrite Hst, (filter_all_true is_digit _ (render_dec_digits e)).
  pose proof (render_dec_val e) as Hv. pose proof (render_dec_nonempty e) as Hne.
  destruct (render_dec e) as [|d0 dr]; [congruence|]. exact (f_equal (fun v => Ok (c, Some v)) Hv).
Qed.

(* the bare parts after the first: "<n>" and "<n>-<end>" *)
Definition bare (n : N) : intf := mk_intf [] None None None n None None None.
Lemma bare_canon n : canon (bare n).
Proof. unfold canon, bare. simpl. repeat split; auto. left. auto. Qed.
Lemma bare_dash_free n : dash_free (bare n).
Proof. split; [reflexivity|exact I]. Qed.
Lemma bare_render n : render (bare n) = render_dec n.
Proof. unfold render, tail_str, number_str, bare. simpl. rewrite !app_nil_r. reflexivity. Qed.

Lemma part_token_bare n : part_token (render_dec n) = Ok (bare n, None).
Proof. rewrite <- bare_render. apply part_token_single; [apply bare_canon|apply bare_dash_free]. Qed.
Lemma part_token_bare_range n e : part_token (render_dec n ++ c_dash :: render_dec e) = Ok (bare n, Some e).
Proof. rewrite <- bare_render. apply part_token_range; [apply bare_canon|apply bare_dash_free]. Qed.

(* ================================================================== the whole range text (no class word, port iterated) *)
Definition optdash (e : option N) : str := match e with Some n => c_dash :: render_dec n | None => [] end.
Definition part_text (it : N * option N) : str := render_dec (fst it) ++ optdash (snd it).
Fixpoint join_comma (l : list str) : str :=
  match l with [] => [] | [x] => x | x :: r => x ++ c_comma :: join_comma r end.
(* "<interface>[-<end>],<n>[-<end>],..." *)
Definition range_text (base : intf) (e0 : option N) (items : list (N * option N)) : str :=
  join_comma ((render base ++ optdash e0) :: map part_text items).

Definition item_vals (it : N * option N) : list N :=
  match snd it with None => [fst it] | Some en => py_range (fst it) en end.

Lemma join_comma_cons x y r : join_comma (x :: y :: r) = x ++ c_comma :: join_comma (y :: r).
Proof. reflexivity. Qed.

Lemma split_join parts : parts <> [] -> Forall (fun p => forallb (not_char c_comma) p = true) parts ->
  split_on c_comma (join_comma parts) = parts.
Proof.
  induction parts as [|x r IH]; intros Hn Hall; [congruence|]. inversion Hall as [|x' r' Hx Hr]; subst.
  destruct r as [|y r].
  - simpl. apply split_on_nosep. assumption.
  - rewrite join_comma_cons, split_on_app by assumption. f_equal. apply IH; [discriminate|assumption].
Qed.

Lemma contains_cc_free c x : forallb (not_char c) x = true -> contains [c; c] x = false.
Proof.
  induction x as [|a r IH]; simpl; intros H; [reflexivity|]. apply andb_true_iff in H. destruct H as [H1 H2].
  unfold not_char in H1. apply negb_true_iff in H1. rewrite N.eqb_sym in H1. rewrite H1. simpl. apply IH. assumption.
Qed.

Lemma contains_cc_app c x rest : forallb (not_char c) x = true -> x <> [] -> stops (N.eqb c) rest ->
  contains [c; c] (x ++ c :: rest) = contains [c; c] rest.
Proof.
  induction x as [|a r IH]; intros H Hn Hr; [congruence|]. simpl in H. apply andb_true_iff in H. destruct H as [H1 H2].
  unfold not_char in H1. apply negb_true_iff in H1. rewrite N.eqb_sym in H1.
  change ((a :: r) ++ c :: rest) with (a :: (r ++ c :: rest)). cbn [contains starts_with]. rewrite H1. cbn [andb orb].
  destruct r as [|b r'].
  - cbn [app contains starts_with]. rewrite N.eqb_refl. cbn [andb].
    destruct rest as [|d rest']; [reflexivity|]. simpl in Hr. rewrite Hr. reflexivity.
  - apply IH; [assumption|discriminate|assumption].
Qed.

Lemma join_head_stops c parts : parts <> [] -> Forall (fun p => forallb (not_char c) p = true /\ p <> []) parts ->
  stops (N.eqb c) (join_comma parts).
Proof.
  destruct parts as [|x r]; [congruence|]. intros _ H. inversion H as [|x' r' [Hx Hne] Hr]; subst.
  destruct x as [|a x']; [congruence|]. simpl in Hx. apply andb_true_iff in Hx. destruct Hx as [H1 _].
  unfold not_char in H1. apply negb_true_iff in H1. rewrite N.eqb_sym in H1.
  destruct r; simpl; exact H1.
Qed.

Lemma contains_join parts : Forall (fun p => forallb (not_char c_comma) p = true /\ p <> []) parts ->
  contains [c_comma; c_comma] (join_comma parts) = false.
Proof.
  induction parts as [|x r IH]; intros H; [reflexivity|]. inversion H as [|x' r' [Hx Hne] Hr]; subst.
  destruct r as [|y r].
  - simpl. apply contains_cc_free. assumption.
  - rewrite join_comma_cons, contains_cc_app; [apply IH; assumption|assumption|assumption|].
    apply join_head_stops; [discriminate|assumption].
Qed.

Lemma split_ws_aux_nospace a : forall cur rest, forallb (fun c => negb (is_space c)) a = true ->
  split_ws_aux is_space cur (a ++ rest) = split_ws_aux is_space (rev a ++ cur) rest.
Proof.
  induction a as [|c r IH]; intros cur rest H; simpl; [reflexivity|].
  apply andb_true_iff in H. destruct H as [H1 H2]. apply negb_true_iff in H1. rewrite H1.
  rewrite IH by assumption. rewrite <- app_assoc. reflexivity.
Qed.

Lemma split_ws_nospace a : a <> [] -> forallb (fun c => negb (is_space c)) a = true -> split_ws a = [a].
Proof.
  intros Hn H. unfold split_ws. pose proof (split_ws_aux_nospace a [] [] H) as E. rewrite app_nil_r in E. rewrite E. simpl.
  rewrite app_nil_r. destruct (rev a) as [|c r] eqn:Er.
  - exfalso. apply Hn. rewrite <- (rev_involutive a), Er. reflexivity.
  - rewrite <- Er, rev_involutive. reflexivity.
Qed.

Lemma filter_digit_nonempty a d b : is_digit d = true -> filter is_digit (a ++ d :: b) <> [].
Proof. intros H. rewrite filter_app. simpl. rewrite H. destruct (filter is_digit a); discriminate. Qed.

(* hypotheses on the first interface of the range *)
Definition plain_base (base : intf) : Prop :=
  canon base /\ dash_free base /\ i_class base = None /\ i_sub base = None /\ i_chan base = None /\
  forallb (fun c => negb (is_space c)) (i_prefix base) = true.

Lemma plain_tail base : plain_base base -> forall (P : char -> bool),
  (forall d, is_digit d = true -> P d = true) -> P c_slash = true -> forallb P (tail_str base) = true.
Proof.
  intros [[_ [_ [_ Hs]]] [_ [Hc [Hsub [Hch _]]]]] P Hd Hsl.
  destruct (tail_cases base Hs) as [[_ [_ [_ E]]]|[sl [_ [_ E]]]]; rewrite E, Hc, Hsub, Hch; unfold ext_of; simpl; rewrite app_nil_r.
  - apply digits_all. assumption.
  - apply number_long_all; assumption.
Qed.

Lemma plain_render_all base (P : char -> bool) : plain_base base ->
  forallb P (i_prefix base) = true -> (forall d, is_digit d = true -> P d = true) -> P c_slash = true ->
  forallb P (render base) = true.
Proof. intros Hb Hp Hd Hs. unfold render. rewrite forallb_app', Hp. simpl. apply plain_tail; assumption. Qed.

Lemma optdash_all (P : char -> bool) e : (forall d, is_digit d = true -> P d = true) -> P c_dash = true -> forallb P (optdash e) = true.
Proof. intros Hd H. destruct e as [n|]; [|reflexivity]. simpl. rewrite H. apply digits_all. assumption. Qed.

Lemma part_text_all (P : char -> bool) it : (forall d, is_digit d = true -> P d = true) -> P c_dash = true -> forallb P (part_text it) = true.
Proof. intros Hd H. unfold part_text. rewrite forallb_app', digits_all, optdash_all by assumption. reflexivity. Qed.

Lemma part_token_first base e0 : plain_base base -> part_token (render base ++ optdash e0) = Ok (base, e0).
Proof.
  intros [Hc [Hd _]]. destruct e0 as [e|]; simpl.
  - apply part_token_range; assumption.
  - rewrite app_nil_r. apply part_token_single; assumption.
Qed.

Lemma part_token_item it : part_token (part_text it) = Ok (bare (fst it), snd it).
Proof.
  destruct it as [a [e|]]; unfold part_text; simpl.
  - apply part_token_bare_range.
  - rewrite app_nil_r. apply part_token_bare.
Qed.

Lemma map_res_items items : map_res part_token (map part_text items) = Ok (map (fun it => (bare (fst it), snd it)) items).
Proof. induction items as [|it r IH]; simpl; [reflexivity|]. rewrite part_token_item, IH. reflexivity. Qed.

Lemma tok_vals_items items :
  flat_map (tok_vals A_port) (map (fun it => (bare (fst it), snd it)) items) = flat_map item_vals items.
Proof. induction items as [|it r IH]; simpl; [reflexivity|]. rewrite IH. reflexivity. Qed.

(* range_text_spec: the text "<interface>[-e0],<n>[-e],..." expands to the first interface with its port
   replaced by every listed value, each once, ascending *)
Lemma range_text_spec base e0 items :
  plain_base base ->
  let vals := item_vals (i_port base, e0) ++ flat_map item_vals items in
  vals <> [] ->
  exists vs, parse_range (range_text base e0 items) = Ok (map (member A_port base) vs) /\
             StronglySorted N.lt vs /\ (forall v, In v vs <-> In v vals).
Proof.
  intros Hb vals Hne. pose proof Hb as [Hc [Hd [Hcls [Hsub [Hch Hsp]]]]].
  set (parts := (render base ++ optdash e0) :: map part_text items).
  assert (Hdig : forall (P : char -> bool) (x : char), True) by auto.
  (* every part is comma-free, non-empty, space-free *)
  assert (Hparts : Forall (fun p => forallb (not_char c_comma) p = true /\ p <> []) parts).
  { unfold parts. constructor.
    - split.
      + rewrite forallb_app'. apply andb_true_iff. split.
        * apply plain_render_all; [assumption| |intros d H; unfold not_char; rewrite (digit_not_comma d H); reflexivity|reflexivity].
          destruct Hc as [Hp _]. apply (forallb_impl in_prefix); [|assumption]. intros x Hx. unfold not_char. rewrite (prefix_not_comma x Hx). reflexivity.
        * apply optdash_all; [intros d H; unfold not_char; rewrite (digit_not_comma d H); reflexivity|reflexivity].
      + destruct Hc as [_ [_ [_ Hs]]]. destruct (tail_starts_digit base Hs) as [d0 [t0 [Et _]]]. unfold render. rewrite Et.
        destruct (i_prefix base); discriminate.
    - apply Forall_forall. intros p Hp. apply in_map_iff in Hp. destruct Hp as [it [<- _]]. split.
      + apply part_text_all; [intros d H; unfold not_char; rewrite (digit_not_comma d H); reflexivity|reflexivity].
      + unfold part_text. apply render_app_nonempty. }
  assert (Hparts1 : Forall (fun p => forallb (not_char c_comma) p = true) parts).
  { apply Forall_forall. intros p Hp. rewrite Forall_forall in Hparts. apply (Hparts p Hp). }
  assert (Hnospace : forallb (fun c => negb (is_space c)) (join_comma parts) = true).
  { assert (Hall : Forall (fun p => forallb (fun c => negb (is_space c)) p = true) parts).
    { unfold parts. constructor.
      - rewrite forallb_app'. apply andb_true_iff. split.
        + apply plain_render_all; [assumption|assumption|intros d H; rewrite (digit_not_space d H); reflexivity|reflexivity].
        + apply optdash_all; [intros d H; rewrite (digit_not_space d H); reflexivity|reflexivity].
      - apply Forall_forall. intros p Hp. apply in_map_iff in Hp. destruct Hp as [it [<- _]].
        apply part_text_all; [intros d H; rewrite (digit_not_space d H); reflexivity|reflexivity]. }
    clear -Hall. induction parts as [|x r IH]; [reflexivity|]. inversion Hall; subst. destruct r as [|y r]; [assumption|].
    rewrite join_comma_cons, forallb_app'. apply andb_true_iff. split; [assumption|]. simpl. apply IH. assumption. }
  assert (Htext : range_text base e0 items = join_comma parts) by reflexivity.
  assert (Hhead : exists d t p, join_comma parts = p ++ d :: t /\ is_digit d = true).
  { destruct Hc as [_ [_ [_ Hs]]]. destruct (tail_starts_digit base Hs) as [d0 [t0 [Et Hd0]]].
    exists d0. unfold parts. destruct (map part_text items) as [|y r].
    - exists (t0 ++ optdash e0), (i_prefix base). split; [|assumption]. simpl. unfold render. rewrite Et, <- app_assoc. reflexivity.
    - exists (t0 ++ optdash e0 ++ c_comma :: join_comma (y :: r)), (i_prefix base). split; [|assumption].
      rewrite join_comma_cons. unfold render. rewrite Et, <- !app_assoc. reflexivity. }
  destruct Hhead as [d [t [p [Ejoin Hdd]]]].
  unfold parse_range. rewrite Htext.
  rewrite match_nonempty by (rewrite Ejoin; destruct p; discriminate).
  rewrite (contains_join parts Hparts).
  rewrite (split_join parts) by (try discriminate; assumption).
  unfold parts at 1. cbn [map_res]. rewrite (part_token_first base e0 Hb). cbn [bind]. rewrite map_res_items. cbn [bind].
  (* no class word for the whole text *)
  assert (Hrc : range_class (join_comma parts) = None).
  { unfold range_class. rewrite split_ws_nospace; [|rewrite Ejoin; destruct p; discriminate|assumption].
    change (rev [join_comma parts]) with [join_comma parts]. cbv iota.
    destruct (filter is_digit (join_comma parts)) eqn:Ef; [|reflexivity]. exfalso. rewrite Ejoin in Ef. revert Ef. apply filter_digit_nonempty. assumption. }
  rewrite Hrc.
  assert (Ha : pick_attr base = A_port) by (unfold pick_attr; rewrite Hch, Hsub; reflexivity).
  destruct (range_expand_port base ((base, e0) :: map (fun it => (bare (fst it), snd it)) items) Ha) as [vs [H1 [H2 H3]]].
  - reflexivity.
  - simpl. rewrite tok_vals_items. exact Hne.
  - exists vs. split; [assumption|]. split; [assumption|]. intros v. rewrite H3. simpl. rewrite tok_vals_items. reflexivity.
Qed.

(* ================================================================== range text with a trailing class word *)
Definition classword (w : str) : Prop := w <> [] /\ forallb in_classw w = true /\ forallb (not_char c_dash) w = true.

Lemma classw_all (P : char -> bool) w : (forall x, in_classw x = true -> P x = true) -> forallb in_classw w = true -> forallb P w = true.
Proof. intros H Hw. apply (forallb_impl in_classw); assumption. Qed.

Lemma strip_classword w : forallb in_classw w = true -> strip w = w.
Proof.
  intros H. apply strip_by_id, no_edge_all_not. apply classw_all; [|assumption]. intros x Hx. rewrite (classw_not_space x Hx). reflexivity.
Qed.

Lemma filter_none {A} (p : A -> bool) l : forallb (fun x => negb (p x)) l = true -> filter p l = [].
Proof.
  induction l as [|x r IH]; simpl; [reflexivity|]. intros H. apply andb_true_iff in H. destruct H as [H1 H2].
  apply negb_true_iff in H1. rewrite H1. auto.
Qed.

Lemma render_set_class c w : i_class c = None -> forallb in_classw w = true ->
  render (set_class c w) = render c ++ c_space :: w.
Proof.
  intros Hc Hw. destruct c as [p s sl cd po sb ch cl]. simpl in Hc. subst cl.
  unfold set_class, render, tail_str, number_str, sep_str. simpl. rewrite (strip_classword w Hw).
  rewrite !app_nil_r. rewrite <- !app_assoc. reflexivity.
Qed.

Lemma canon_set_class c w : canon c -> classword w -> canon (set_class c w).
Proof.
  intros [H1 [H2 [H3 H4]]] [Hn [Hw _]]. unfold canon, set_class. simpl. rewrite (strip_classword w Hw).
  split; [assumption|]. split; [assumption|]. split; [split; assumption|]. exact H4.
Qed.

Lemma dash_free_set_class c w : dash_free c -> classword w -> dash_free (set_class c w).
Proof. intros [H1 _] [_ [Hw Hd]]. unfold dash_free, set_class. simpl. rewrite (strip_classword w Hw). auto. Qed.

Lemma set_class_idem c w : set_class (set_class c w) w = set_class c w.
Proof. reflexivity. Qed.

Lemma digits_then_class (e : N) (w : list N) : forallb in_classw w = true ->
  filter is_digit (render_dec e ++ c_space :: w) = render_dec e.
Proof.
  intros Hw. rewrite filter_app. rewrite filter_all_true by apply render_dec_digits.
  assert (Hf : filter is_digit (c_space :: w) = []).
  { apply filter_none. simpl. apply classw_all; [|assumption]. intros x Hx. rewrite (classw_not_digit x Hx). reflexivity. }
  unfold char in *. rewrite Hf. apply app_nil_r.
Qed.

Lemma part_token_range_cls c e w : canon c -> dash_free c -> classword w ->
  part_token (render c ++ c_dash :: render_dec e ++ c_space :: w) = Ok (c, Some e).
Proof.
  intros Hc Hd [Hne [Hw Hwd]]. pose proof (render_no_dash c Hc Hd) as Hn. unfold part_token.
  set (X := render_dec e ++ c_space :: w).
  assert (HX : forallb (not_char c_dash) X = true).
  { unfold X. rewrite forallb_app'. apply andb_true_iff. split.
    - apply digits_all. intros d H. unfold not_char. rewrite (digit_not_dash d H). reflexivity.
    - simpl. assumption. }
  rewrite (split_on_app c_dash _ _ Hn), (split_on_nosep c_dash _ HX), nth_str_0, (strip_render c Hc), (name_roundtrip c Hc). simpl.
  assert (Hx : existsb (N.eqb c_dash) (render c ++ c_dash :: X) = true).
  { rewrite existsb_app. simpl. apply orb_true_r. }
  rewrite Hx.
  assert (Hst : strip X = X).
  { apply strip_by_id. split.
    - unfold X. apply stops_render_dec_app. apply digit_not_space.
    - unfold X. rewrite rev_app_distr. simpl. destruct (exists_last Hne) as [w' [x E]]. subst w. rewrite rev_app_distr. simpl.
      rewrite forallb_app' in Hw. apply andb_true_iff in Hw. destruct Hw as [_ Hw]. simpl in Hw. rewrite andb_true_r in Hw.
      apply classw_not_space. assumption. }
  rewrite Hst. unfold X. rewrite digits_then_class by assumption.
  pose proof (render_dec_val e) as Hv. pose proof (render_dec_nonempty e) as Hne'.
  destruct (render_dec e) as [|d0 dr]; [congruence|]. exact (f_equal (fun v => Ok (c, Some v)) Hv).
Qed.

Fixpoint app_last (l : list str) (suf : str) : list str :=
  match l with [] => [] | [x] => [x ++ suf] | x :: r => x :: app_last r suf end.

Lemma join_app_last l suf : l <> [] -> join_comma (app_last l suf) = join_comma l ++ suf.
Proof.
  induction l as [|x r IH]; intros Hn; [congruence|]. destruct r as [|y r]; [reflexivity|].
  change (app_last (x :: y :: r) suf) with (x :: app_last (y :: r) suf).
  assert (E : exists z r', app_last (y :: r) suf = z :: r') by (destruct r; simpl; eauto).
  destruct E as [z [r' E]]. rewrite E, join_comma_cons, <- E, IH by discriminate. rewrite join_comma_cons, <- app_assoc. reflexivity.
Qed.

Lemma Forall_app_last (Q : str -> Prop) l suf :
  Forall Q l -> (forall x, Q x -> Q (x ++ suf)) -> Forall Q (app_last l suf).
Proof.
  intros H Hs. induction H as [|x r Hx Hr IH]; [constructor|]. destruct r as [|y r]; [constructor; auto|].
  change (app_last (x :: y :: r) suf) with (x :: app_last (y :: r) suf). constructor; assumption.
Qed.

Lemma split_ws_two a b : a <> [] -> b <> [] ->
  forallb (fun c => negb (is_space c)) a = true -> forallb (fun c => negb (is_space c)) b = true ->
  split_ws (a ++ c_space :: b) = [a; b].
Proof.
  intros Ha Hb Hna Hnb. unfold split_ws. rewrite split_ws_aux_nospace by assumption. rewrite app_nil_r.
  cbn [split_ws_aux]. change (is_space c_space) with true. cbv iota.
  destruct (rev a) as [|x r] eqn:Er.
  { exfalso. apply Ha. rewrite <- (rev_involutive a), Er. reflexivity. }
  rewrite <- Er, rev_involutive. f_equal. apply split_ws_nospace; assumption.
Qed.

(* tokens of the parts when the last part carries the class word *)
Lemma tokens_with_class base e0 items w :
  plain_base base -> classword w ->
  exists toks, map_res part_token (app_last ((render base ++ optdash e0) :: map part_text items) (c_space :: w)) = Ok toks /\
    (exists t0 r, toks = t0 :: r /\ i_port (fst t0) = i_port base /\ set_class (fst t0) w = set_class base w) /\
    flat_map (tok_vals A_port) toks = item_vals (i_port base, e0) ++ flat_map item_vals items.
Proof.
  intros Hb Hw. pose proof Hb as [Hc [Hd [Hcls _]]]. pose proof Hw as [Hne [Hcw Hdw]].
  destruct items as [|it0 items].
  - (* a single part *)
    cbn [map app_last map_res flat_map]. destruct e0 as [e|]; cbn [optdash].
    + rewrite <- app_assoc. cbn [app]. rewrite part_token_range_cls by assumption. cbn [bind].
      eexists. split; [reflexivity|]. split; [eauto|]. cbn [flat_map]. rewrite !app_nil_r. reflexivity.
    + rewrite app_nil_r, <- (render_set_class base w Hcls Hcw).
      rewrite part_token_single by (try apply canon_set_class; try apply dash_free_set_class; assumption). cbn [bind].
      eexists. split; [reflexivity|]. split.
      * eexists. eexists. split; [reflexivity|]. split; [destruct base; reflexivity|]. apply set_class_idem.
      * cbn [flat_map]. rewrite !app_nil_r. destruct base; reflexivity.
  - (* several parts: the class word is attached to the last bare part *)
    change (app_last ((render base ++ optdash e0) :: map part_text (it0 :: items)) (c_space :: w))
      with ((render base ++ optdash e0) :: app_last (map part_text (it0 :: items)) (c_space :: w)).
    cbn [map_res]. rewrite (part_token_first base e0 Hb). cbn [bind].
    assert (Hrest : exists toks', map_res part_token (app_last (map part_text (it0 :: items)) (c_space :: w)) = Ok toks' /\
                    flat_map (tok_vals A_port) toks' = flat_map item_vals (it0 :: items)).
    { clear -Hw Hne Hcw Hdw. revert it0. induction items as [|it1 items IH]; intros it0.
      - cbn [map app_last map_res]. destruct it0 as [a [e|]]; unfold part_text; cbn [fst snd optdash].
        + rewrite <- app_assoc. cbn [app]. rewrite <- (bare_render a).
          rewrite part_token_range_cls by (try apply bare_canon; try apply bare_dash_free; assumption). cbn [bind].
          eexists. split; reflexivity.
        + rewrite app_nil_r, <- (bare_render a), <- (render_set_class (bare a) w eq_refl Hcw).
          rewrite part_token_single by (try apply canon_set_class; try apply dash_free_set_class; try apply bare_canon; try apply bare_dash_free; assumption).
          cbn [bind]. eexists. split; reflexivity.
      - change (app_last (map part_text (it0 :: it1 :: items)) (c_space :: w))
          with (part_text it0 :: app_last (map part_text (it1 :: items)) (c_space :: w)).
        cbn [map_res]. rewrite part_token_item. cbn [bind]. destruct (IH it1) as [toks' [E1 E2]]. rewrite E1. cbn [bind].
        eexists. split; [reflexivity|]. simpl. simpl in E2. rewrite E2. reflexivity. }
    destruct Hrest as [toks' [E1 E2]]. rewrite E1. cbn [bind].
    eexists. split; [reflexivity|]. split; [eauto|]. simpl. simpl in E2. rewrite E2. reflexivity.
Qed.

Definition range_text_cls (base : intf) (e0 : option N) (items : list (N * option N)) (w : str) : str :=
  range_text base e0 items ++ c_space :: w.

(* "<interface>[-e0],<n>[-e],... <classword>" : the same expansion, every member carrying the class word *)
Lemma range_text_cls_spec base e0 items w :
  plain_base base -> classword w ->
  let vals := item_vals (i_port base, e0) ++ flat_map item_vals items in
  vals <> [] ->
  exists vs, parse_range (range_text_cls base e0 items w) = Ok (map (member A_port (set_class base w)) vs) /\
             StronglySorted N.lt vs /\ (forall v, In v vs <-> In v vals).
Proof.
  intros Hb Hw vals Hne. pose proof Hb as [Hc [Hd [Hcls [Hsub [Hch Hsp]]]]]. pose proof Hw as [Hwn [Hcw Hdw]].
  set (parts := (render base ++ optdash e0) :: map part_text items).
  set (parts' := app_last parts (c_space :: w)).
  assert (Htext : range_text_cls base e0 items w = join_comma parts').
  { unfold parts'. rewrite join_app_last by discriminate. reflexivity. }
  (* comma-free, non-empty parts *)
  assert (Hparts : Forall (fun p => forallb (not_char c_comma) p = true /\ p <> []) parts).
  { unfold parts. constructor.
    - split.
      + rewrite forallb_app'. apply andb_true_iff. split.
        * apply plain_render_all; [assumption| |intros d H; unfold not_char; rewrite (digit_not_comma d H); reflexivity|reflexivity].
          destruct Hc as [Hp _]. apply (forallb_impl in_prefix); [|assumption]. intros x Hx. unfold not_char. rewrite (prefix_not_comma x Hx). reflexivity.
        * apply optdash_all; [intros d H; unfold not_char; rewrite (digit_not_comma d H); reflexivity|reflexivity].
      + destruct Hc as [_ [_ [_ Hs]]]. destruct (tail_starts_digit base Hs) as [d0 [t0 [Et _]]]. unfold render. rewrite Et.
        destruct (i_prefix base); discriminate.
    - apply Forall_forall. intros p Hp. apply in_map_iff in Hp. destruct Hp as [it [<- _]]. split.
      + apply part_text_all; [intros d H; unfold not_char; rewrite (digit_not_comma d H); reflexivity|reflexivity].
      + unfold part_text. apply render_app_nonempty. }
  assert (Hparts' : Forall (fun p => forallb (not_char c_comma) p = true /\ p <> []) parts').
  { unfold parts'. apply Forall_app_last; [assumption|]. intros x [H1 H2]. split.
    - rewrite forallb_app', H1. simpl. apply classw_all; [|assumption]. intros y Hy. unfold not_char. rewrite (classw_not_comma y Hy). reflexivity.
    - destruct x; discriminate. }
  assert (Hparts1 : Forall (fun p => forallb (not_char c_comma) p = true) parts').
  { apply Forall_forall. intros p Hp. rewrite Forall_forall in Hparts'. apply (Hparts' p Hp). }
  assert (Hnospace : forallb (fun c => negb (is_space c)) (join_comma parts) = true).
  { assert (Hall : Forall (fun p => forallb (fun c => negb (is_space c)) p = true) parts).
    { unfold parts. constructor.
      - rewrite forallb_app'. apply andb_true_iff. split.
        + apply plain_render_all; [assumption|assumption|intros d H; rewrite (digit_not_space d H); reflexivity|reflexivity].
        + apply optdash_all; [intros d H; rewrite (digit_not_space d H); reflexivity|reflexivity].
      - apply Forall_forall. intros p Hp. apply in_map_iff in Hp. destruct Hp as [it [<- _]].
        apply part_text_all; [intros d H; rewrite (digit_not_space d H); reflexivity|reflexivity]. }
    clear -Hall. induction parts as [|x r IH]; [reflexivity|]. inversion Hall; subst. destruct r as [|y r]; [assumption|].
    rewrite join_comma_cons, forallb_app'. apply andb_true_iff. split; [assumption|]. simpl. apply IH. assumption. }
  assert (Hbody : join_comma parts <> []).
  { unfold parts. destruct Hc as [_ [_ [_ Hs]]]. destruct (tail_starts_digit base Hs) as [d0 [t0 [Et _]]].
    destruct (map part_text items); simpl; unfold render; rewrite Et; destruct (i_prefix base); discriminate. }
  assert (Ejoin : join_comma parts' = join_comma parts ++ c_space :: w).
  { unfold parts'. apply join_app_last. discriminate. }
  unfold parse_range. rewrite Htext.
  rewrite match_nonempty by (rewrite Ejoin; destruct (join_comma parts); [congruence|discriminate]).
  rewrite (contains_join parts' Hparts').
  rewrite (split_join parts') by (try assumption; unfold parts', parts; destruct (map part_text items); discriminate).
  destruct (tokens_with_class base e0 items w Hb Hw) as [toks [Etok [[t0 [r [Et0 [Hport Hset]]]] Hvals]]].
  fold parts in Etok. fold parts' in Etok. rewrite Etok. cbn [bind]. rewrite Et0. destruct t0 as [b0 x0]. simpl in Hport, Hset.
  (* the class word of the whole text *)
  assert (Hrc : range_class (join_comma parts') = Some w).
  { unfold range_class. rewrite Ejoin, split_ws_two; try assumption.
    - change (rev [join_comma parts; w]) with [w; join_comma parts]. cbv iota.
      rewrite filter_none; [reflexivity|]. apply classw_all; [|assumption]. intros y Hy. rewrite (classw_not_digit y Hy). reflexivity.
    - apply classw_all; [|assumption]. intros y Hy. rewrite (classw_not_space y Hy). reflexivity. }
  rewrite Hrc, Hset. rewrite <- Et0.
  assert (Ha : pick_attr (set_class base w) = A_port) by (unfold pick_attr, set_class; simpl; rewrite Hch, Hsub; reflexivity).
  destruct (range_expand_port (set_class base w) toks Ha) as [vs [H1 [H2 H3]]].
  - rewrite Et0. simpl. rewrite Hport. destruct base; reflexivity.
  - rewrite Hvals. exact Hne.
  - exists vs. split; [assumption|]. split; [assumption|]. intros v. rewrite H3, Hvals. reflexivity.
Qed.
