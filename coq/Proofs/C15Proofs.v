(* C15 proofs (in progress) *)
From Coq Require Import NArith List Bool Lia.
Require Import CCP.Lib.PyStr CCP.Lib.Res CCP.Model.Intf.
Import ListNotations.
Open Scope N_scope.

Lemma readers_pure st rs : fst (read_all st rs) = st.
Proof.
  revert st; induction rs as [|r more IH]; intros st; simpl; [reflexivity|].
  destruct (read st r) as [st1 o] eqn:E. specialize (IH st1). destruct (read_all st1 more) as [st2 os]. simpl in *.
  rewrite IH. destruct r; simpl in E; inversion E; reflexivity.
Qed.
