(* The forward scan of Model/Parse.v computes what the code's per-start forward walks compute.
   ConfigList._banner_mark_regex starts, at every banner start line b whose delimiter d could be extracted
   (and does not occur twice on the line: opens l_b = Some d), a walk over the following lines that re-parents
   each line to b and sets blank_line_keep on it, until and including the first line containing d (which is
   re-parented but not kept).  _ciscoios_macro_mark_children does the same from every "macro name " line up to
   and including the first line whose rstrip is "@", keeping and re-parenting all of them.  Walks are run in
   line order (later ones override earlier ones) and the macro pass runs after the banner pass.
   reachB / reachM say "the walk started at b reaches line j"; the theorems say the scan's keep flag and parent
   at line j are exactly: kept iff a start line or reached by some walk (not as a banner terminator); parent =
   the greatest macro start reaching j, else the greatest banner start reaching j, else none. *)
From Coq Require Import List Arith Bool NArith Lia.
Require Import CCP.Lib.PyStr CCP.Model.Links CCP.Model.Parse.
Import ListNotations.

Definition line_at (ls : list pline) (k : nat) : pline := nth k ls (PL [] None).

Definition reachB (ls : list pline) (b : nat) (d : N) (j : nat) : Prop :=
  b < j /\ b < length ls /\ opens (line_at ls b) = Some d /\
  forall k, b < k < j -> has_char d (ptext (line_at ls k)) = false.
Definition reachM (macro : bool) (ls : list pline) (m j : nat) : Prop :=
  macro = true /\ m < j /\ m < length ls /\ is_macro_start (ptext (line_at ls m)) = true /\
  forall k, m < k < j -> is_macro_end (ptext (line_at ls k)) = false.


(* ---- invariants of the scan state at position j of ls *)
Definition BanInv (ls : list pline) (j : nat) (A : list (N * nat)) : Prop :=
  (forall d b, In (d, b) A <-> reachB ls b d j) /\
  (forall i1 i2 e1 e2, i1 < i2 -> nth_error A i1 = Some e1 -> nth_error A i2 = Some e2 -> snd e1 < snd e2).

Definition MacInv (macro : bool) (ls : list pline) (j : nat) (mc : option nat) : Prop :=
  match mc with
  | Some m => reachM macro ls m j /\ (forall k, m < k < j -> (macro && is_macro_start (ptext (line_at ls k))) = false)
  | None => forall m, ~ reachM macro ls m j
  end.

Definition Inv (macro : bool) (ls : list pline) (j : nat) (st : sstate) : Prop :=
  BanInv ls j (s_ban st) /\ MacInv macro ls j (s_mac st).

(* the specification of one output of the scan *)
Definition Spec (macro : bool) (ls : list pline) (j : nat) (out : bool * option nat) : Prop :=
  let l := line_at ls j in
  (fst out = true <->
     is_banner_start l = true \/ (macro && is_macro_start (ptext l)) = true \/
     (exists b d, reachB ls b d j /\ has_char d (ptext l) = false) \/ (exists m, reachM macro ls m j)) /\
  (forall q, snd out = Some q <->
     (reachM macro ls q j /\ forall m, reachM macro ls m j -> m <= q) \/
     ((forall m, ~ reachM macro ls m j) /\ (exists d, reachB ls q d j) /\ forall b d, reachB ls b d j -> b <= q)).

Lemma max_start_spec (A : list (N * nat)) :
  (forall i1 i2 e1 e2, i1 < i2 -> nth_error A i1 = Some e1 -> nth_error A i2 = Some e2 -> snd e1 < snd e2) ->
  forall q, max_start A = Some q <-> (exists d, In (d, q) A) /\ forall d b, In (d, b) A -> b <= q.
Proof.
  intros Hasc. unfold max_start.
  assert (G : forall (B : list (N * nat)) acc,
            (forall e, In e B -> forall a, acc = Some a -> a < snd e) ->
            (forall i1 i2 e1 e2, i1 < i2 -> nth_error B i1 = Some e1 -> nth_error B i2 = Some e2 -> snd e1 < snd e2) ->
            forall q, fold_left (fun acc e => match acc with None => Some (snd e) | Some m => Some (Nat.max m (snd e)) end) B acc = Some q <->
              match B with [] => acc = Some q | _ => (exists d, In (d, q) B) /\ forall d b, In (d, b) B -> b <= q end).
  { induction B as [|e B IH]; intros acc Hacc HB q; cbn [fold_left]; [reflexivity|].
    set (acc' := match acc with None => Some (snd e) | Some m => Some (Nat.max m (snd e)) end).
    assert (Eacc : acc' = Some (snd e)).
    { unfold acc'. destruct acc as [a|]; [|reflexivity]. specialize (Hacc e (or_introl eq_refl) a eq_refl). f_equal. lia. }
    rewrite IH.
    - destruct B as [|e2 B2].
      + rewrite Eacc. split.
        * intros H; inversion H; subst. split; [exists (fst e); left; destruct e; reflexivity|].
          intros d b [H1|[]]. subst e. cbn. lia.
        * intros [[d [H1|[]]] _]. subst e. reflexivity.
      + split.
        * intros [[d Hd] Hmax]. split; [exists d; right; exact Hd|]. intros d0 b [H1|H1]; [|eapply Hmax; eauto].
          subst e. cbn.
          assert (Hlt : snd (d0, b) < snd e2) by (apply (HB 0 1 (d0, b) e2); [lia|reflexivity|reflexivity]).
          cbn in Hlt. destruct e2 as [d2 b2]. specialize (Hmax d2 b2 (or_introl eq_refl)). cbn in Hlt. lia.
        * intros [[d [Hd|Hd]] Hmax].
          -- exfalso. subst e. assert (Hlt : snd (d, q) < snd e2) by (apply (HB 0 1 (d, q) e2); [lia|reflexivity|reflexivity]).
             destruct e2 as [d2 b2]. specialize (Hmax d2 b2 (or_intror (or_introl eq_refl))). cbn in Hlt. lia.
          -- split; [exists d; exact Hd|]. intros d0 b Hb. apply (Hmax d0 b). right; exact Hb.
    - intros e' He' a Ha. rewrite Eacc in Ha. inversion Ha; subst a.
      apply In_nth_error in He'. destruct He' as [n Hn]. apply (HB 0 (S n) e e'); [lia|reflexivity|exact Hn].
    - intros i1 i2 e1 e2 Hlt H1 H2. apply (HB (S i1) (S i2) e1 e2); [lia|exact H1|exact H2]. }
  intros q. rewrite (G A None); [|intros e _ a Ha; discriminate|exact Hasc].
  destruct A as [|e A']; [|reflexivity]. split; [discriminate|]. intros [[d []] _].
Qed.

Lemma existsb_ban (A : list (N * nat)) t :
  existsb (fun e => negb (has_char (fst e) t)) A = true <-> exists d b, In (d, b) A /\ has_char d t = false.
Proof.
  rewrite existsb_exists. split.
  - intros [[d b] [Hin H]]. exists d, b. split; [exact Hin|]. apply negb_true_iff in H. exact H.
  - intros [d [b [Hin H]]]. exists (d, b). split; [exact Hin|]. apply negb_true_iff. exact H.
Qed.

Lemma reachB_step ls b d j : j < length ls ->
  (reachB ls b d (S j) <->
   (reachB ls b d j /\ has_char d (ptext (line_at ls j)) = false) \/ (b = j /\ opens (line_at ls j) = Some d)).
Proof.
  intros Hj. unfold reachB. split.
  - intros (H1 & H2 & H3 & H4). destruct (Nat.eq_dec b j) as [->|Hne]; [right; auto|left].
    split; [repeat split; try lia; auto; intros k Hk; apply H4; lia|]. apply H4. lia.
  - intros [[(H1 & H2 & H3 & H4) H5]|[-> H]].
    + repeat split; try lia; auto. intros k Hk. destruct (Nat.eq_dec k j) as [->|Hne]; [exact H5|apply H4; lia].
    + repeat split; try lia; auto; try (intros k Hk; lia).
Qed.

Lemma reachM_step macro ls m j : j < length ls ->
  (reachM macro ls m (S j) <->
   (reachM macro ls m j /\ is_macro_end (ptext (line_at ls j)) = false) \/
   (m = j /\ macro = true /\ is_macro_start (ptext (line_at ls j)) = true)).
Proof.
  intros Hj. unfold reachM. split.
  - intros (H0 & H1 & H2 & H3 & H4). destruct (Nat.eq_dec m j) as [->|Hne]; [right; auto|left].
    split; [repeat split; try lia; auto; intros k Hk; apply H4; lia|]. apply H4. lia.
  - intros [[(H0 & H1 & H2 & H3 & H4) H5]|[-> [H0 H]]].
    + repeat split; try lia; auto. intros k Hk. destruct (Nat.eq_dec k j) as [->|Hne]; [exact H5|apply H4; lia].
    + repeat split; try lia; auto; try (intros k Hk; lia).
Qed.

Lemma nth_error_filter_asc {A} (R : A -> A -> Prop) (f : A -> bool) (l : list A) :
  (forall i1 i2 e1 e2, i1 < i2 -> nth_error l i1 = Some e1 -> nth_error l i2 = Some e2 -> R e1 e2) ->
  (forall i1 i2 e1 e2, i1 < i2 -> nth_error (filter f l) i1 = Some e1 -> nth_error (filter f l) i2 = Some e2 -> R e1 e2).
Proof.
  induction l as [|a l IH]; intros H i1 i2 e1 e2 Hlt H1 H2; cbn in *; [destruct i1; discriminate|].
  assert (Hl : forall i1 i2 e1 e2, i1 < i2 -> nth_error l i1 = Some e1 -> nth_error l i2 = Some e2 -> R e1 e2).
  { intros j1 j2 x1 x2 Hj A1 A2. apply (H (S j1) (S j2) x1 x2); [lia|exact A1|exact A2]. }
  destruct (f a) eqn:Ef.
  - destruct i1 as [|i1]; destruct i2 as [|i2]; try lia; cbn in *.
    + inversion H1; subst e1. apply nth_error_In in H2. apply filter_In in H2. destruct H2 as [H2 _].
      apply In_nth_error in H2. destruct H2 as [n Hn]. apply (H 0 (S n) a e2); [lia|reflexivity|exact Hn].
    + apply (IH Hl i1 i2); [lia|exact H1|exact H2].
  - apply (IH Hl i1 i2); assumption.
Qed.

Lemma step_spec macro ls j st : j < length ls -> Inv macro ls j st ->
  Spec macro ls j (fst (scan_line macro st j (line_at ls j))) /\ Inv macro ls (S j) (snd (scan_line macro st j (line_at ls j))).
Proof.
  intros Hj [[HA Hasc] HM]. set (l := line_at ls j). set (t := ptext l).
  unfold scan_line. fold t. cbn [fst snd].
  assert (Hkm : forall q, s_mac st = Some q -> reachM macro ls q j /\ forall m, reachM macro ls m j -> m <= q).
  { intros q Eq. unfold MacInv in HM. rewrite Eq in HM. destruct HM as [Hr Hno]. split; [exact Hr|].
    intros m Hm. destruct (le_gt_dec m q) as [|Hgt]; [assumption|exfalso].
    destruct Hm as (H0 & H1 & H2 & H3 & _). specialize (Hno m ltac:(lia)). rewrite H0, H3 in Hno. discriminate. }
  split.
  - (* Spec *) unfold Spec. cbn [fst snd]. fold l. fold t. split.
    + rewrite !orb_true_iff, existsb_ban. split.
      * intros [[[H|H]|H]|H]; auto.
        -- destruct H as [d [b [Hin H]]]. right; right; left. exists b, d. split; [apply HA; exact Hin|exact H].
        -- destruct (s_mac st) as [m|] eqn:Em; [|discriminate]. right; right; right. exists m. apply Hkm. reflexivity.
      * intros [H|[H|[[b [d [Hr H]]]|[m Hm]]]]; auto.
        -- left; left; left. exists d, b. split; [apply HA; exact Hr|exact H].
        -- left; left; right. destruct (s_mac st) as [q|] eqn:Em; [reflexivity|]. exfalso. apply (HM m Hm).
    + intros q. destruct (s_mac st) as [m|] eqn:Em.
      * destruct (Hkm m eq_refl) as [Hr Hmax]. split.
        -- intros H; inversion H; subst q. left. split; assumption.
        -- intros [[Hq Hqm]|[Hno _]]; [|exfalso; apply (Hno m Hr)]. f_equal. specialize (Hmax q Hq). specialize (Hqm m Hr). lia.
      * rewrite (max_start_spec (s_ban st) Hasc). split.
        -- intros [[d Hd] Hmax]. right. split; [exact HM|]. split; [exists d; apply HA; exact Hd|].
           intros b d0 Hb. apply (Hmax d0 b). apply HA. exact Hb.
        -- intros [[Hq _]|[_ [[d Hd] Hmax]]]; [exfalso; apply (HM q Hq)|].
           split; [exists d; apply HA; exact Hd|]. intros d0 b Hb. apply (Hmax b d0). apply HA. exact Hb.
  - (* invariant at S j *) split; cbn [s_ban s_mac].
    + split.
      * intros d b. rewrite in_app_iff, filter_In, (reachB_step ls b d j Hj). fold l. fold t. cbn [fst].
        rewrite negb_true_iff, HA. split.
        -- intros [[H1 H2]|H]; [left; auto|]. destruct (opens l) as [d'|] eqn:Eo; [|destruct H].
           destruct H as [H|[]]. inversion H; subst. right. auto.
        -- intros [[H1 H2]|[-> H]]; [left; auto|]. right. rewrite H. left; reflexivity.
      * (* ascending *)
        intros i1 i2 e1 e2 Hlt H1 H2.
        set (F := filter (fun e : N * nat => negb (has_char (fst e) t)) (s_ban st)) in *.
        assert (HF : forall i1 i2 e1 e2, i1 < i2 -> nth_error F i1 = Some e1 -> nth_error F i2 = Some e2 -> snd e1 < snd e2)
          by (apply nth_error_filter_asc; exact Hasc).
        assert (Hlt_j : forall e, In e F -> snd e < j).
        { intros [d b] He. apply filter_In in He. destruct He as [He _]. apply HA in He. destruct He as [Hb _]. exact Hb. }
        destruct (Nat.lt_ge_cases i2 (length F)) as [Hi2|Hi2].
        -- rewrite nth_error_app1 in H1 by lia. rewrite nth_error_app1 in H2 by lia. exact (HF i1 i2 e1 e2 Hlt H1 H2).
        -- rewrite nth_error_app2 in H2 by lia.
           destruct (opens l) as [d'|]; [|destruct (i2 - length F); discriminate].
           destruct (i2 - length F) as [|n] eqn:En; [|destruct n; discriminate]. cbn in H2. inversion H2; subst e2. cbn [snd].
           assert (Hi1 : i1 < length F) by lia. rewrite nth_error_app1 in H1 by lia. apply Hlt_j. eapply nth_error_In; eauto.
    + (* macro *)
      unfold MacInv. destruct (macro && is_macro_start t) eqn:Ems.
      * apply andb_true_iff in Ems. destruct Ems as [Em Es]. split.
        -- apply reachM_step; [exact Hj|]. right. fold l. fold t. auto.
        -- intros k Hk. lia.
      * destruct (s_mac st) as [m|] eqn:Em.
        -- destruct (Hkm m eq_refl) as [Hr _]. unfold MacInv in HM. destruct HM as [_ Hno].
           destruct (is_macro_end t) eqn:Ee.
           ++ intros m' Hm'. apply reachM_step in Hm'; [|exact Hj]. fold l in Hm'. fold t in Hm'.
              destruct Hm' as [[_ H]|[_ [H0 H]]]; [congruence|]. rewrite H0, H in Ems. discriminate.
           ++ split.
              ** apply reachM_step; [exact Hj|]. left. fold l. fold t. auto.
              ** intros k Hk. destruct (Nat.eq_dec k j) as [->|Hne]; [fold l; fold t; exact Ems|apply Hno; lia].
        -- intros m' Hm'. apply reachM_step in Hm'; [|exact Hj]. fold l in Hm'. fold t in Hm'.
           unfold MacInv in HM.
           destruct Hm' as [[H _]|[_ [H0 H]]]; [apply (HM m' H)|]. rewrite H0, H in Ems. discriminate.
Qed.

Lemma inv_idle macro ls : Inv macro ls 0 idle.
Proof.
  split; cbn.
  - split; [|intros i1 i2 e1 e2 _ H; destruct i1; discriminate].
    intros d b. split; [intros []|]. intros (H & _). lia.
  - intros m (_ & H & _). lia.
Qed.

Lemma scan_spec_gen macro ls : forall suffix pre st, ls = pre ++ suffix -> Inv macro ls (length pre) st ->
  forall i out, nth_error (scan macro st (length pre) suffix) i = Some out -> Spec macro ls (length pre + i) out.
Proof.
  induction suffix as [|l r IH]; intros pre st E HI i out H; cbn [scan] in H; [destruct i; discriminate|].
  assert (Hl : line_at ls (length pre) = l).
  { subst ls. unfold line_at. rewrite app_nth2 by lia. rewrite Nat.sub_diag. reflexivity. }
  assert (Hj : length pre < length ls) by (subst ls; rewrite app_length; cbn; lia).
  pose proof (step_spec macro ls (length pre) st Hj HI) as [HS HI']. rewrite Hl in HS, HI'.
  destruct (scan_line macro st (length pre) l) as [o st'] eqn:Es. cbn [fst snd] in HS, HI'.
  destruct i as [|i]; cbn in H.
  - inversion H; subst out. rewrite Nat.add_0_r. exact HS.
  - replace (length pre + S i) with (length (pre ++ [l]) + i) by (rewrite app_length; cbn; lia).
    apply (IH (pre ++ [l]) st'); [subst ls; rewrite <- app_assoc; reflexivity| |].
    + rewrite app_length. cbn. replace (length pre + 1) with (S (length pre)) by lia. exact HI'.
    + rewrite app_length. cbn. replace (length pre + 1) with (S (length pre)) by lia. exact H.
Qed.

(* the scan computes exactly what the per-start walks of the banner and macro passes compute *)
Theorem scan_is_walks macro ls j out :
  nth_error (scan macro idle 0 ls) j = Some out -> Spec macro ls j out.
Proof. intros H. apply (scan_spec_gen macro ls ls [] idle eq_refl (inv_idle macro ls) j out H). Qed.

(* non-vacuity: an unterminated banner containing a macro *)
Example ex_walks :
  let ls := [PL [98]%N (Some (Some 94%N)); PL [] None; PL [109;97;99;114;111;32;110;97;109;101;32;120]%N None; PL [94]%N None; PL [] None; PL [64]%N None; PL [120]%N None] in
  scan true idle 0 ls = [(true, None); (true, Some 0); (true, Some 0); (true, Some 2); (true, Some 2); (true, Some 2); (false, None)]
  /\ reachB ls 0 94%N 2 /\ reachM true ls 2 5 /\ ~ reachM true ls 2 6.
Proof.
  cbn zeta. split; [vm_compute; reflexivity|]. split; [|split].
  - unfold reachB. repeat split; try (cbn; lia). intros k Hk. assert (k = 1) by lia. subst. reflexivity.
  - unfold reachM. repeat split; try (cbn; lia). intros k Hk. assert (k = 3 \/ k = 4) as [->| ->] by lia; reflexivity.
  - intros (_ & _ & _ & _ & H). specialize (H 5 ltac:(lia)). discriminate H.
Qed.
