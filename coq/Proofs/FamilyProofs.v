(* C03: the derived family views over a well-founded parent map. *)
From Coq Require Import List Arith Bool Lia Sorted.
Require Import CCP.Model.Links CCP.Model.Family.
Import ListNotations.

(* ---- child lists *)
Lemma indices_with_spec p : forall ps i c,
  In c (indices_with p i ps) <-> i <= c /\ nth_error ps (c - i) = Some (Some p).
Proof.
  induction ps as [|[q|] r IH]; intros i c; cbn [indices_with].
  - split; [intros []|]. intros [_ H]. destruct (c - i); discriminate.
  - destruct (q =? p) eqn:E.
    + apply Nat.eqb_eq in E. subst q. cbn [In]. rewrite IH. split.
      * intros [<-|[H1 H2]]; [split; [lia|]; rewrite Nat.sub_diag; reflexivity|].
        split; [lia|]. replace (c - i) with (S (c - S i)) by lia. exact H2.
      * intros [H1 H2]. destruct (Nat.eq_dec i c) as [->|Hne]; [left; reflexivity|right].
        split; [lia|]. replace (c - i) with (S (c - S i)) in H2 by lia. exact H2.
    + apply Nat.eqb_neq in E. rewrite IH. split.
      * intros [H1 H2]. split; [lia|]. replace (c - i) with (S (c - S i)) by lia. exact H2.
      * intros [H1 H2]. destruct (Nat.eq_dec i c) as [->|Hne].
        -- rewrite Nat.sub_diag in H2. cbn in H2. inversion H2. congruence.
        -- split; [lia|]. replace (c - i) with (S (c - S i)) in H2 by lia. exact H2.
  - rewrite IH. split.
    + intros [H1 H2]. split; [lia|]. replace (c - i) with (S (c - S i)) by lia. exact H2.
    + intros [H1 H2]. destruct (Nat.eq_dec i c) as [->|Hne].
      * rewrite Nat.sub_diag in H2. discriminate.
      * split; [lia|]. replace (c - i) with (S (c - S i)) in H2 by lia. exact H2.
Qed.

Theorem kids_spec ps p c : In c (kids ps p) <-> nth_error ps c = Some (Some p).
Proof. unfold kids. rewrite indices_with_spec. rewrite Nat.sub_0_r. split; [tauto|intros; split; [lia|assumption]]. Qed.

Lemma indices_with_sorted p : forall ps i, StronglySorted lt (indices_with p i ps) /\ (forall c, In c (indices_with p i ps) -> i <= c).
Proof.
  induction ps as [|[q|] r IH]; intros i; cbn [indices_with].
  - split; [constructor|intros c []].
  - destruct (IH (S i)) as [HS HB]. destruct (q =? p).
    + split.
      * constructor; [exact HS|]. apply Forall_forall. intros x Hx. specialize (HB x Hx). lia.
      * intros c [<-|Hc]; [lia|]. specialize (HB c Hc). lia.
    + split; [exact HS|]. intros c Hc. specialize (HB c Hc). lia.
  - destruct (IH (S i)) as [HS HB]. split; [exact HS|]. intros c Hc. specialize (HB c Hc). lia.
Qed.

Theorem kids_ascending ps p : StronglySorted lt (kids ps p).
Proof. apply indices_with_sorted. Qed.

Theorem kids_after_parent ps p c : WFmap ps -> In c (kids ps p) -> p < c.
Proof. intros W H. apply kids_spec in H. apply (W c p H). Qed.

Theorem kids_unique_parent ps p q c : In c (kids ps p) -> In c (kids ps q) -> p = q.
Proof. rewrite !kids_spec. intros H1 H2. congruence. Qed.

Theorem kids_nodup ps p : NoDup (kids ps p).
Proof.
  pose proof (kids_ascending ps p) as H. induction H as [|x l Hs IH Hf]; constructor; [|exact IH].
  intros Hin. rewrite Forall_forall in Hf. specialize (Hf x Hin). lia.
Qed.

Theorem root_iff_in_no_list ps i : i < length ps ->
  (parent_of ps i = None <-> forall p, ~ In i (kids ps p)).
Proof.
  intros Hi. unfold parent_of. split.
  - intros H p Hin. apply kids_spec in Hin. rewrite Hin in H. discriminate.
  - intros H. destruct (nth_error ps i) as [[p|]|] eqn:E; try reflexivity.
    exfalso. apply (H p). apply kids_spec. exact E.
Qed.

Theorem nonroot_in_parents_list ps i p : parent_of ps i = Some p <-> In i (kids ps p).
Proof.
  rewrite kids_spec. unfold parent_of. destruct (nth_error ps i) as [[q|]|]; split; intros H; try discriminate; congruence.
Qed.

(* ---- iterated parent *)
Lemma iter_parent_decreases ps : WFmap ps -> forall k i a, iter_parent k ps i = Some a -> a + k <= i.
Proof.
  intros W. induction k as [|k IH]; intros i a H; cbn in H.
  - inversion H; lia.
  - unfold parent_of in H. destruct (nth_error ps i) as [[p|]|] eqn:E; try discriminate.
    apply IH in H. specialize (W i p E). lia.
Qed.

Lemma iter_parent_snoc ps : forall k x p,
  iter_parent (S k) ps x = Some p <-> exists c, iter_parent k ps x = Some c /\ parent_of ps c = Some p.
Proof.
  induction k as [|k IH]; intros x p.
  - cbn. split.
    + destruct (parent_of ps x) as [q|] eqn:E; [|discriminate]. intros H; inversion H; subst. exists x. auto.
    + intros [c [H1 H2]]. inversion H1; subst. rewrite H2. reflexivity.
  - cbn [iter_parent]. destruct (parent_of ps x) as [q|] eqn:E.
    + rewrite <- IH. cbn [iter_parent]. reflexivity.
    + split; [discriminate|]. intros [c [H _]]. discriminate.
Qed.

Lemma iter_parent_dom ps k i a : 0 < k -> iter_parent k ps i = Some a -> i < length ps.
Proof.
  intros Hk H. destruct k as [|k]; [lia|]. cbn in H. unfold parent_of in H.
  destruct (nth_error ps i) eqn:E; [|discriminate]. apply nth_error_Some. congruence.
Qed.

(* ---- sorting *)
Lemma In_insert x y l : In y (insert_nat x l) <-> y = x \/ In y l.
Proof.
  induction l as [|z r IH]; cbn.
  - split; [intros [H|[]]; auto | intros [H|[]]; auto].
  - destruct (x <=? z); cbn [In].
    + split; [intros [H|H]; [left; auto | right; exact H] | intros [H|H]; [left; auto | right; exact H]].
    + rewrite IH. split; [intros [H|[H|H]]; auto | intros [H|[H|H]]; auto].
Qed.
Lemma In_sort x l : In x (sort_nat l) <-> In x l.
Proof. induction l as [|y r IH]; cbn; [tauto|]. rewrite In_insert, IH. split; intros [H|H]; auto. Qed.

Lemma insert_sorted x l : StronglySorted le l -> StronglySorted le (insert_nat x l).
Proof.
  induction 1 as [|z r Hs IH Hf]; cbn; [repeat constructor|].
  destruct (x <=? z) eqn:E.
  - apply Nat.leb_le in E. constructor; [constructor; assumption|]. constructor; [exact E|].
    rewrite Forall_forall in *. intros y Hy. specialize (Hf y Hy). lia.
  - apply Nat.leb_gt in E. constructor; [exact IH|]. rewrite Forall_forall in *. intros y Hy.
    apply In_insert in Hy. destruct Hy as [->|Hy]; [lia|auto].
Qed.
Theorem sort_sorted l : StronglySorted le (sort_nat l).
Proof. induction l as [|x r IH]; cbn; [constructor|]. apply insert_sorted. exact IH. Qed.

Lemma sorted_last_max l d : StronglySorted le l -> forall x, In x l -> x <= last l d.
Proof.
  induction 1 as [|z r Hs IH Hf]; intros x Hx; [destruct Hx|].
  destruct r as [|w r']; [destruct Hx as [->|[]]; cbn; lia|].
  change (last (z :: w :: r') d) with (last (w :: r') d).
  destruct Hx as [->|Hx]; [|apply IH; exact Hx].
  rewrite Forall_forall in Hf. specialize (Hf w (or_introl eq_refl)). specialize (IH w (or_introl eq_refl)). lia.
Qed.
Lemma last_In_or_default (l : list nat) d : last l d = d \/ In (last l d) l.
Proof.
  induction l as [|z r IH]; [left; reflexivity|]. destruct r as [|w r']; [right; left; reflexivity|].
  change (last (z :: w :: r') d) with (last (w :: r') d). destruct IH as [IH|IH]; [|right; right; exact IH].
  (* non-empty tail: last is its last element *) right. right.
  clear IH. revert w. induction r' as [|u r'' IH2]; intros w; [left; reflexivity|].
  change (last (w :: u :: r'') d) with (last (u :: r'') d). right. apply IH2.
Qed.

(* ---- ancestors *)
Lemma chain_spec ps : forall fuel i a,
  In a (chain fuel ps i) <-> exists k, 0 < k <= fuel /\ iter_parent k ps i = Some a.
Proof.
  induction fuel as [|f IH]; intros i a; cbn [chain].
  - split; [intros []|]. intros [k [H _]]. lia.
  - destruct (parent_of ps i) as [p|] eqn:E.
    + cbn [In]. rewrite IH. split.
      * intros [<-|[k [Hk H]]]; [exists 1; split; [lia|]; cbn; rewrite E; reflexivity|].
        exists (S k). split; [lia|]. cbn. rewrite E. exact H.
      * intros [k [Hk H]]. destruct k as [|k]; [lia|]. cbn in H. rewrite E in H.
        destruct k as [|k]; [left; cbn in H; inversion H; reflexivity|]. right. exists (S k). split; [lia|exact H].
    + split; [intros []|]. intros [k [Hk H]]. destruct k as [|k]; [lia|]. cbn in H. rewrite E in H. discriminate.
Qed.

Theorem all_parents_spec ps i a : WFmap ps -> (In a (all_parents ps i) <-> ancestor ps a i).
Proof.
  intros W. unfold all_parents, ancestor. rewrite In_sort, nodup_In, chain_spec. split.
  - intros [k [Hk H]]. exists k. split; [lia|exact H].
  - intros [k [Hk H]]. exists k. split; [|exact H].
    pose proof (iter_parent_decreases ps W k i a H). pose proof (iter_parent_dom ps k i a Hk H). lia.
Qed.
Theorem all_parents_sorted ps i : StronglySorted le (all_parents ps i).
Proof. apply sort_sorted. Qed.
Theorem all_parents_before ps i a : WFmap ps -> In a (all_parents ps i) -> a < i.
Proof.
  intros W H. apply all_parents_spec in H; auto. destruct H as [k [Hk H]].
  pose proof (iter_parent_decreases ps W k i a H). lia.
Qed.

(* ---- descendants *)
Lemma collect_spec ps : forall fuel p x,
  In x (collect fuel ps p) <-> exists k, 0 < k <= fuel /\ iter_parent k ps x = Some p.
Proof.
  induction fuel as [|f IH]; intros p x; cbn [collect].
  - split; [intros []|]. intros [k [H _]]. lia.
  - rewrite in_flat_map. split.
    + intros [c [Hc Hx]]. apply nonroot_in_parents_list in Hc. destruct Hx as [<-|Hx].
      * exists 1. split; [lia|]. cbn. rewrite Hc. reflexivity.
      * apply IH in Hx. destruct Hx as [k [Hk H]]. exists (S k). split; [lia|].
        apply iter_parent_snoc. exists c. auto.
    + intros [k [Hk H]]. destruct k as [|k]; [lia|]. apply iter_parent_snoc in H. destruct H as [c [H1 H2]].
      exists c. split; [apply nonroot_in_parents_list; exact H2|].
      destruct k as [|k]; [left; cbn in H1; inversion H1; reflexivity|]. right. apply IH. exists (S k). split; [lia|exact H1].
Qed.

Theorem all_children_spec ps p x : WFmap ps -> (In x (all_children ps p) <-> ancestor ps p x).
Proof.
  intros W. unfold all_children, ancestor. rewrite In_sort, collect_spec. split.
  - intros [k [Hk H]]. exists k. split; [lia|exact H].
  - intros [k [Hk H]]. exists k. split; [|exact H].
    pose proof (iter_parent_decreases ps W k x p H). pose proof (iter_parent_dom ps k x p Hk H). lia.
Qed.
Theorem all_children_sorted ps p : StronglySorted le (all_children ps p).
Proof. apply sort_sorted. Qed.
Theorem all_children_after ps p x : WFmap ps -> In x (all_children ps p) -> p < x.
Proof.
  intros W H. apply all_children_spec in H; auto. destruct H as [k [Hk H]].
  pose proof (iter_parent_decreases ps W k x p H). lia.
Qed.
Theorem descendants_ancestors_dual ps p x : WFmap ps -> (In x (all_children ps p) <-> In p (all_parents ps x)).
Proof. intros W. rewrite all_children_spec, all_parents_spec by assumption. reflexivity. Qed.

Theorem children_are_descendants ps p c : WFmap ps -> In c (kids ps p) -> In c (all_children ps p).
Proof.
  intros W H. apply all_children_spec; auto. exists 1. split; [lia|]. cbn.
  apply nonroot_in_parents_list in H. rewrite H. reflexivity.
Qed.

(* ---- compositions *)
Theorem family_endpoint_spec ps i : WFmap ps ->
  (forall x, In x (all_children ps i) -> x <= family_endpoint ps i) /\
  (family_endpoint ps i = i \/ In (family_endpoint ps i) (all_children ps i)) /\ i <= family_endpoint ps i.
Proof.
  intros W. unfold family_endpoint. split; [|split].
  - intros x Hx. apply sorted_last_max; [apply sort_sorted|exact Hx].
  - apply last_In_or_default.
  - destruct (last_In_or_default (all_children ps i) i) as [H|H]; [lia|]. apply all_children_after in H; auto. lia.
Qed.

Theorem geneology_spec ps i : geneology ps i = all_parents ps i ++ [i].
Proof. reflexivity. Qed.

Theorem lineage_spec ps i x : WFmap ps ->
  (In x (lineage ps i) <-> ancestor ps x i \/ x = i \/ ancestor ps i x).
Proof.
  intros W. unfold lineage. rewrite In_sort, !in_app_iff. cbn [In].
  rewrite all_parents_spec by assumption.
  destruct (has_children ps i) eqn:E.
  - rewrite all_children_spec by assumption. split; [intros [H|[[H|[]]|H]]; auto | intros [H|[H|H]]; auto].
  - split; [intros [H|[[H|[]]|[]]]; auto|]. intros [H|[H|H]]; auto. exfalso.
    (* no children, hence no descendants *)
    destruct H as [k [Hk H]]. destruct k as [|k]; [lia|]. apply iter_parent_snoc in H. destruct H as [c [_ Hc]].
    apply nonroot_in_parents_list in Hc. unfold has_children in E. destruct (kids ps i); [destruct Hc|discriminate].
Qed.
Theorem lineage_sorted ps i : StronglySorted le (lineage ps i).
Proof. apply sort_sorted. Qed.

Theorem siblings_spec ps inds i c :
  In c (siblings ps inds i) <->
  In c (kids ps (match parent_of ps i with Some p => p | None => i end)) /\ nth c inds 0 = nth i inds 0.
Proof. unfold siblings. rewrite filter_In, Nat.eqb_eq. reflexivity. Qed.

Theorem has_children_spec ps i : has_children ps i = true <-> exists c, parent_of ps c = Some i.
Proof.
  unfold has_children. split.
  - destruct (kids ps i) as [|c r] eqn:E; [discriminate|]. intros _. exists c. apply nonroot_in_parents_list. rewrite E. left; reflexivity.
  - intros [c H]. apply nonroot_in_parents_list in H. destruct (kids ps i); [destruct H|reflexivity].
Qed.
Theorem is_child_spec ps i : is_child ps i = true <-> exists p, parent_of ps i = Some p.
Proof. unfold is_child. destruct (parent_of ps i) as [p|]; split; intros H; try discriminate; eauto. destruct H; discriminate. Qed.


(* ---- all_children has no duplicates (each descendant is collected exactly once) *)
Lemma NoDup_app_intro {A} (l1 l2 : list A) :
  NoDup l1 -> NoDup l2 -> (forall x, In x l1 -> ~ In x l2) -> NoDup (l1 ++ l2).
Proof.
  induction l1 as [|a l1 IH]; intros H1 H2 Hd; cbn; [exact H2|].
  inversion H1 as [|? ? Ha Hl1]; subst. constructor.
  - rewrite in_app_iff. intros [H|H]; [contradiction|]. apply (Hd a); [left; reflexivity|exact H].
  - apply IH; auto. intros x Hx. apply Hd. right; exact Hx.
Qed.

Lemma NoDup_flat_map_intro {A B} (f : A -> list B) (l : list A) :
  NoDup l -> (forall a, In a l -> NoDup (f a)) ->
  (forall a1 a2 x, In a1 l -> In a2 l -> a1 <> a2 -> In x (f a1) -> ~ In x (f a2)) ->
  NoDup (flat_map f l).
Proof.
  induction l as [|a l IH]; intros Hl Hf Hd; cbn; [constructor|].
  inversion Hl as [|? ? Ha Hl']; subst. apply NoDup_app_intro.
  - apply Hf. left; reflexivity.
  - apply IH; auto.
    + intros b Hb. apply Hf. right; exact Hb.
    + intros a1 a2 x H1 H2. apply Hd; right; assumption.
  - intros x Hx Hin. apply in_flat_map in Hin. destruct Hin as [b [Hb Hxb]].
    apply (Hd a b x); auto; [left; reflexivity|right; exact Hb|]. intros ->. contradiction.
Qed.

Lemma iter_parent_add ps : forall k1 k2 x c, iter_parent k1 ps x = Some c -> iter_parent (k1 + k2) ps x = iter_parent k2 ps c.
Proof.
  induction k1 as [|k1 IH]; intros k2 x c H; cbn in *.
  - inversion H; reflexivity.
  - destruct (parent_of ps x) as [p|]; [|discriminate]. apply IH. exact H.
Qed.

(* a line cannot lie below two different children of the same parent *)
Lemma one_branch ps p c1 c2 x k1 k2 : WFmap ps ->
  parent_of ps c1 = Some p -> parent_of ps c2 = Some p ->
  iter_parent k1 ps x = Some c1 -> iter_parent k2 ps x = Some c2 -> c1 = c2.
Proof.
  intros W P1 P2 H1 H2.
  assert (G : forall a b ka kb, parent_of ps a = Some p -> parent_of ps b = Some p ->
              iter_parent ka ps x = Some a -> iter_parent kb ps x = Some b -> ka <= kb -> a = b).
  { intros a b ka kb Pa Pb Ha Hb Hle.
    replace kb with (ka + (kb - ka)) in Hb by lia. rewrite (iter_parent_add ps ka (kb - ka) x a Ha) in Hb.
    destruct (kb - ka) as [|d] eqn:Ed; [cbn in Hb; inversion Hb; reflexivity|exfalso].
    cbn in Hb. rewrite Pa in Hb. pose proof (iter_parent_decreases ps W d p b Hb).
    unfold parent_of in Pb. destruct (nth_error ps b) as [[q|]|] eqn:E; try discriminate. inversion Pb; subst q.
    specialize (W b p E). lia. }
  destruct (Nat.le_ge_cases k1 k2) as [Hle|Hge]; [eapply G; eauto|symmetry; eapply G; eauto].
Qed.

Lemma collect_nodup ps : WFmap ps -> forall fuel p, NoDup (collect fuel ps p).
Proof.
  intros W. induction fuel as [|f IH]; intros p; cbn [collect]; [constructor|].
  apply NoDup_flat_map_intro.
  - apply kids_nodup.
  - intros c Hc. constructor; [|apply IH]. intros Hin. apply collect_spec in Hin. destruct Hin as [k [Hk H]].
    pose proof (iter_parent_decreases ps W k c c H). lia.
  - intros c1 c2 x H1 H2 Hne Hx1 Hx2. apply Hne.
    apply nonroot_in_parents_list in H1. apply nonroot_in_parents_list in H2.
    assert (A1 : exists k, iter_parent k ps x = Some c1).
    { destruct Hx1 as [<-|Hx1]; [exists 0; reflexivity|]. apply collect_spec in Hx1. destruct Hx1 as [k [_ H]]. eauto. }
    assert (A2 : exists k, iter_parent k ps x = Some c2).
    { destruct Hx2 as [<-|Hx2]; [exists 0; reflexivity|]. apply collect_spec in Hx2. destruct Hx2 as [k [_ H]]. eauto. }
    destruct A1 as [k1 A1]. destruct A2 as [k2 A2]. eapply one_branch; eauto.
Qed.

Lemma insert_nat_nodup x l : ~ In x l -> NoDup l -> NoDup (insert_nat x l).
Proof.
  induction l as [|y r IH]; intros Hx Hl; cbn; [repeat constructor; auto|].
  destruct (x <=? y); [constructor; assumption|]. inversion Hl as [|? ? Hy Hr]; subst. constructor.
  - rewrite In_insert. intros [->|H]; [apply Hx; left; reflexivity|contradiction].
  - apply IH; auto. intros H. apply Hx. right; exact H.
Qed.
Lemma sort_nat_nodup l : NoDup l -> NoDup (sort_nat l).
Proof.
  induction l as [|x r IH]; intros H; cbn; [constructor|]. inversion H as [|? ? Hx Hr]; subst.
  apply insert_nat_nodup; [rewrite In_sort; exact Hx|apply IH; exact Hr].
Qed.

Theorem all_children_nodup ps p : WFmap ps -> NoDup (all_children ps p).
Proof. intros W. unfold all_children. apply sort_nat_nodup. apply collect_nodup. exact W. Qed.

Lemma sorted_nodup_strict l : StronglySorted le l -> NoDup l -> StronglySorted lt l.
Proof.
  induction 1 as [|x r Hs IH Hf]; intros Hn; constructor.
  - apply IH. inversion Hn; assumption.
  - inversion Hn as [|? ? Hx Hr]; subst. rewrite Forall_forall in *. intros y Hy. specialize (Hf y Hy).
    destruct (Nat.eq_dec x y) as [->|Hne]; [contradiction|lia].
Qed.

Theorem all_children_strictly_ascending ps p : WFmap ps -> StronglySorted lt (all_children ps p).
Proof. intros W. apply sorted_nodup_strict; [apply all_children_sorted|apply all_children_nodup; exact W]. Qed.
