(* C08 x C02: the parent rule used by C08 (Model/Brace.v parents_model) IS the rule of property C02
   (Model/Links.v spec_parents), so brace_parents can be read about C02's specification directly.
   Depends on the definitions of Model/Links.v only (not on C02's proofs). *)
From Coq Require Import NArith List Bool Arith Lia.
Require Import CCP.Lib.PyStr CCP.Lib.Res CCP.Model.Brace CCP.Proofs.C08Proofs.
Require CCP.Model.Links.
Import ListNotations.

Definition conv (x : linfo) : Links.linfo := let '(i, c, m) := x in Links.LI i c m.

Fixpoint indexed (prev : list (nat * linfo)) : Prop :=
  match prev with [] => True | (j, _) :: r => j = length r /\ indexed r end.

Lemma nearest_find prev k : indexed prev ->
  Links.nearest (map (fun e => conv (snd e)) prev) k = find_parent prev k.
Proof.
  induction prev as [|[j [[ij cj] mj]] r IH]; intros H; [reflexivity|].
  destruct H as [Hj Hr]. cbn [map snd conv Links.nearest find_parent Links.cfg Links.ind].
  rewrite map_length. rewrite <- Hj. rewrite (IH Hr). reflexivity.
Qed.
Lemma hd_deeper prev k : (k <? Links.hd_ind (map (fun e => conv (snd e)) prev)) = head_deeper prev k.
Proof.
  destruct prev as [|[j [[ij cj] mj]] r]; [cbn; destruct k; reflexivity | reflexivity].
Qed.

Lemma spec_go ls : forall prev, indexed prev ->
  self_or (length prev) (Links.spec_from (map (fun e => conv (snd e)) prev) (map conv ls))
  = parents_go prev (length prev) ls.
Proof.
  induction ls as [|[[i c] m] ls IH]; intros prev Hp; [reflexivity|].
  cbn [map Links.spec_from parents_go].
  assert (Hnext : self_or (S (length prev))
            (Links.spec_from (conv (i, c, m) :: map (fun e => conv (snd e)) prev) (map conv ls))
          = parents_go ((length prev, (i, c, m)) :: prev) (S (length prev)) ls).
  { apply (IH ((length prev, (i, c, m)) :: prev)). split; [reflexivity | exact Hp]. }
  unfold Links.spec_parent, parent_of. cbn [conv Links.ind Links.cmt].
  rewrite hd_deeper, nearest_find by exact Hp.
  destruct (i =? 0) eqn:E0.
  - cbn [self_or]. f_equal. exact Hnext.
  - destruct (find_parent prev i) as [j|] eqn:Ef.
    + destruct (m && head_deeper prev i)%bool; cbn [self_or]; f_equal; exact Hnext.
    + destruct (m && head_deeper prev i)%bool; cbn [self_or]; f_equal; exact Hnext.
Qed.

Lemma spec_is_parents_model ls : self_or 0 (Links.spec_parents (map conv ls)) = parents_model ls.
Proof. apply (spec_go ls [] I). Qed.

(* the two ways of reading (indent, is_config_line, is_comment) off a text agree *)
Lemma count_leading_lstrip p s : length s - length (lstrip_by p s) = count_leading p s.
Proof.
  induction s as [|c r IH]; [reflexivity|]. cbn [lstrip_by count_leading]. destruct (p c).
  - rewrite <- IH. cbn [length]. assert (length (lstrip_by p r) <= length r).
    { clear IH. induction r as [|c' r' IH']; [cbn; lia|]. cbn [lstrip_by]. destruct (p c'); cbn [length]; lia. }
    lia.
  - cbn [length]. lia.
Qed.
Lemma linfo_of_line_info delims t : Links.linfo_of delims t = conv (line_info delims t).
Proof.
  unfold Links.linfo_of, line_info, conv. unfold lstrip. rewrite count_leading_lstrip. reflexivity.
Qed.

Lemma brace_parents_c02 sw f : 0 < sw -> wf_forest f = true ->
  self_or 0 (Links.spec_parents (map (Links.linfo_of [HASH]) (flatten_forest sw 0 f))) = forest_parents None false 0 f.
Proof.
  intros Hsw Hwf. rewrite <- (brace_parents sw Hsw f Hwf). rewrite <- spec_is_parents_model. f_equal. f_equal.
  rewrite map_map. apply map_ext. intros t. apply linfo_of_line_info.
Qed.
