(* C04 proofs *)
From Coq Require Import List Arith Bool Lia.
Require Import CCP.Model.Search.
Import ListNotations.

Lemma find_objects_spec kids rxm r ex ws esc rv :
  find_objects kids rxm r ex ws esc rv =
  (if rv then @rev nat else (fun l => l)) (filter (rxm (mode_of ex ws esc) r) (seq 0 (length kids))).
Proof. unfold find_objects, find_line, all_lines, nlines. destruct rv; reflexivity. Qed.
