(* C04 — specification-level definitions and proofs about Model/Search.v.
   Everything is proved for an ARBITRARY forest `kids` and ARBITRARY oracles; hypotheses (WF forest,
   blank-line shape, soundness of the substring shortcut) appear only where they are needed. *)
From Coq Require Import List Arith Bool Lia Sorting.Sorted Sorting.Permutation.
Require Import CCP.Model.Search.
Import ListNotations.

(* ------------------------------------------------------------------ generic list facts *)
Lemma flat_map_flat_map {A B C} (f : A -> list B) (g : B -> list C) l :
  flat_map g (flat_map f l) = flat_map (fun a => flat_map g (f a)) l.
Proof. induction l as [|a l IH]; simpl; auto. rewrite flat_map_app, IH. reflexivity. Qed.

Lemma flat_map_map' {A B C} (f : A -> B) (g : B -> list C) l :
  flat_map g (map f l) = flat_map (fun a => g (f a)) l.
Proof. induction l as [|a l IH]; simpl; auto. now rewrite IH. Qed.

Lemma map_flat_map {A B C} (f : B -> C) (g : A -> list B) l :
  map f (flat_map g l) = flat_map (fun x => map f (g x)) l.
Proof. induction l as [|a l IH]; simpl; auto. now rewrite map_app, IH. Qed.

Lemma filter_idem {A} (f : A -> bool) l : filter f (filter f l) = filter f l.
Proof.
  induction l as [|a l IH]; simpl; auto.
  destruct (f a) eqn:E; simpl; [rewrite E, IH|]; auto.
Qed.

Lemma is_nil_filter_existsb {A} (f : A -> bool) l : negb (is_nil (filter f l)) = existsb f l.
Proof. induction l as [|a l IH]; simpl; auto. destruct (f a); simpl; auto. Qed.

Lemma is_nil_filter_existsb' {A} (f : A -> bool) l : is_nil (filter f l) = negb (existsb f l).
Proof. rewrite <- is_nil_filter_existsb, negb_involutive. reflexivity. Qed.

(* ------------------------------------------------------------------ sorting *)
Lemma insert_perm x l : Permutation (insert x l) (x :: l).
Proof.
  induction l as [|y t IH]; simpl; auto.
  destruct (x <=? y); auto.
  rewrite IH. apply perm_swap.
Qed.

Lemma isort_perm l : Permutation (isort l) l.
Proof. induction l as [|x t IH]; simpl; auto. rewrite insert_perm. auto. Qed.

Lemma In_isort x l : In x (isort l) <-> In x l.
Proof. split; apply Permutation_in; [|symmetry]; apply isort_perm. Qed.

Lemma insert_sorted x l : StronglySorted le l -> StronglySorted le (insert x l).
Proof.
  induction l as [|y t IH]; intros Hs; simpl.
  - constructor; constructor.
  - inversion Hs as [|? ? Ht Hy]; subst.
    destruct (x <=? y) eqn:E.
    + apply Nat.leb_le in E. constructor; auto. constructor; auto.
      eapply Forall_impl; [|exact Hy]. intros; lia.
    + apply Nat.leb_gt in E. constructor; auto.
      eapply Permutation_Forall; [symmetry; apply insert_perm|].
      constructor; [lia|auto].
Qed.

Lemma isort_sorted l : StronglySorted le (isort l).
Proof. induction l as [|x t IH]; simpl; [constructor|apply insert_sorted; auto]. Qed.

Lemma sorted_le_nodup_lt l : StronglySorted le l -> NoDup l -> StronglySorted lt l.
Proof.
  induction 1 as [|a t Hs IH Ha]; intros Hn; [constructor|].
  inversion Hn as [|? ? Hni Hnt]; subst. constructor; auto.
  rewrite Forall_forall in *. intros y Hy. specialize (Ha y Hy).
  assert (a <> y) by (intros ->; contradiction). lia.
Qed.

Lemma sort_set_sorted l : StronglySorted lt (sort_set l).
Proof.
  unfold sort_set. apply sorted_le_nodup_lt; [apply isort_sorted|].
  eapply Permutation_NoDup; [symmetry; apply isort_perm|apply NoDup_nodup].
Qed.

Lemma In_sort_set x l : In x (sort_set l) <-> In x l.
Proof. unfold sort_set. rewrite In_isort. apply nodup_In. Qed.

Lemma sorted_lt_NoDup l : StronglySorted lt l -> NoDup l.
Proof.
  induction 1 as [|a t Hs IH Ha]; constructor; auto.
  intros Hin. rewrite Forall_forall in Ha. specialize (Ha a Hin). lia.
Qed.

(* a strictly ascending list is determined by its set of members *)
Lemma sorted_lt_unique l1 : forall l2,
  StronglySorted lt l1 -> StronglySorted lt l2 -> (forall x, In x l1 <-> In x l2) -> l1 = l2.
Proof.
  induction l1 as [|a t1 IH]; intros l2 H1 H2 Hm.
  - destruct l2 as [|b t2]; auto. exfalso. apply (proj2 (Hm b)). left; auto.
  - destruct l2 as [|b t2]; [exfalso; apply (proj1 (Hm a)); left; auto|].
    inversion H1 as [|? ? Hs1 Ha]; subst. inversion H2 as [|? ? Hs2 Hb]; subst.
    rewrite Forall_forall in Ha, Hb.
    assert (a = b) as ->.
    { destruct (proj1 (Hm a) (or_introl eq_refl)) as [E|E]; auto.
      destruct (proj2 (Hm b) (or_introl eq_refl)) as [E'|E']; auto.
      specialize (Ha _ E'). specialize (Hb _ E). lia. }
    f_equal. apply IH; auto. intros x. split; intros Hx.
    + destruct (proj1 (Hm x) (or_intror Hx)) as [E|E]; auto. subst x. specialize (Ha _ Hx). lia.
    + destruct (proj2 (Hm x) (or_intror Hx)) as [E|E]; auto. subst x. specialize (Hb _ Hx). lia.
Qed.

Lemma sort_set_ext l1 l2 : (forall x, In x l1 <-> In x l2) -> sort_set l1 = sort_set l2.
Proof.
  intros H. apply sorted_lt_unique; try apply sort_set_sorted.
  intros x. rewrite !In_sort_set. apply H.
Qed.

Lemma sort_set_of_sorted l : StronglySorted lt l -> sort_set l = l.
Proof.
  intros H. apply sorted_lt_unique; auto using sort_set_sorted.
  intros x. apply In_sort_set.
Qed.

Lemma seq_sorted a n : StronglySorted lt (seq a n).
Proof.
  revert a. induction n as [|n IH]; intros a; simpl; constructor; auto.
  rewrite Forall_forall. intros x Hx. apply in_seq in Hx. lia.
Qed.

Lemma filter_sorted {R : nat -> nat -> Prop} (f : nat -> bool) l :
  StronglySorted R l -> StronglySorted R (filter f l).
Proof.
  induction 1 as [|a t Hs IH Ha]; simpl; [constructor|].
  destruct (f a); auto. constructor; auto.
  rewrite Forall_forall in *. intros x Hx. apply filter_In in Hx. apply Ha. tauto.
Qed.

(* ------------------------------------------------------------------ the searches *)
Section Proofs.
Variable kids : list (list nat).
Variable par : nat -> nat.
Variable tru : nat -> bool.
Variable rxm : nat -> nat -> nat -> bool.
Variable nometa : nat -> nat -> bool.
Variable lit : nat -> nat -> nat -> bool.
Variable ne : nat -> nat -> nat -> bool.

(* tactics such as lia/tauto generalise over every section variable in sight: drop the unused ones first *)
Ltac clr := try clear rxm; try clear par; try clear tru; try clear nometa; try clear lit; try clear ne.

Notation nlines := (nlines kids).
Notation children := (children kids).
Notation all_lines := (all_lines kids).
Notation all_children := (all_children kids).
Notation find_line := (find_line kids rxm).
Notation find_objects := (find_objects kids rxm).
Notation next_kids := (next_kids kids rxm).
Notation grow1 := (grow1 kids rxm).
Notation branches_raw := (branches_raw kids rxm).
Notation find_object_branches := (find_object_branches kids tru rxm).
Notation re_search := (re_search rxm nometa lit).

(* ---------------- hypotheses used by some theorems ---------------- *)
(* children have larger line numbers than their parent and are lines of the config *)
Definition WF : Prop := forall p c, In c (children p) -> p < c < nlines.
(* a falsy line object (empty text) has no children and is nobody's child *)
Definition BlankOK : Prop :=
  forall l, tru l = false -> children l = [] /\ forall p, ~ In l (children p).
(* the literal-substring shortcut of BaseCfgLine.re_search is sound for regex slot r in mode md *)
Definition ShortcutOK (md r : nat) : Prop :=
  forall l, nometa md r = true -> lit md r l = true -> rxm md r l = true.
(* every match of regex slot r in mode md is a non-empty string *)
Definition NonEmptyOK (md r : nat) : Prop := forall l, rxm md r l = true -> ne md r l = true.

(* ---------------- descendants ---------------- *)
Inductive Desc (p : nat) : nat -> Prop :=
| Desc_child c : In c (children p) -> Desc p c
| Desc_step q c : In q (children p) -> Desc q c -> Desc p c.

Lemma children_overflow p : nlines <= p -> children p = [].
Proof using Type. clr. intros H. unfold Search.children. apply nth_overflow. exact H. Qed.

Lemma In_desc (Hwf : WF) : forall fuel p, nlines <= fuel + p ->
  forall x, In x (desc kids fuel p) <-> Desc p x.
Proof using Type. clr.
  induction fuel as [|f IH]; intros p Hf x.
  - simpl. rewrite Nat.add_0_l in Hf. pose proof (children_overflow p Hf) as E.
    split; [contradiction|]. intros HD. destruct HD as [c Hc|q c Hq _]; rewrite E in *; contradiction.
  - cbn [desc]. rewrite In_isort, in_flat_map. split.
    + intros (c & Hc & Hx). destruct Hx as [->|Hx]; [apply Desc_child; auto|].
      apply Desc_step with c; auto. apply IH; auto. apply Hwf in Hc. lia.
    + intros HD. destruct HD as [c Hc|q c Hq HD].
      * exists c. split; auto. left; auto.
      * exists q. split; auto. right. apply IH; auto. apply Hwf in Hq. lia.
Qed.

Lemma In_all_children (Hwf : WF) p x : In x (all_children p) <-> Desc p x.
Proof using Type. clr. unfold Search.all_children. apply In_desc; auto. unfold Search.nlines. lia. Qed.

Lemma all_children_sorted p : StronglySorted le (all_children p).
Proof using Type. clr.
  unfold Search.all_children. destruct (Search.nlines kids) as [|f]; simpl; [constructor|apply isort_sorted].
Qed.

Lemma Desc_gt (Hwf : WF) p x : Desc p x -> p < x < nlines.
Proof using Type. clr. induction 1 as [p c Hc|p q c Hq _ IH]; [apply Hwf; auto|]. apply Hwf in Hq. lia. Qed.

(* ---------------- find_objects ---------------- *)
Lemma find_objects_spec r ex ws esc rv :
  find_objects r ex ws esc rv =
  (if rv then @rev nat else (fun l => l)) (filter (rxm (mode_of ex ws esc) r) (seq 0 (length kids))).
Proof using Type. clr. unfold Search.find_objects, Search.find_line, Search.all_lines, Search.nlines. destruct rv; reflexivity. Qed.

Lemma find_line_sorted md r : StronglySorted lt (find_line md r).
Proof using Type. clr. unfold Search.find_line, Search.all_lines. apply filter_sorted, seq_sorted. Qed.

Lemma In_find_line md r l : In l (find_line md r) <-> l < nlines /\ rxm md r l = true.
Proof using Type. clr.
  unfold Search.find_line, Search.all_lines. rewrite filter_In, in_seq. intuition lia.
Qed.

Lemma find_objects_members r ex ws esc rv l :
  In l (find_objects r ex ws esc rv) <-> l < length kids /\ rxm (mode_of ex ws esc) r l = true.
Proof using Type. clr.
  unfold Search.find_objects. destruct rv; [rewrite <- in_rev|]; apply In_find_line.
Qed.

Lemma find_objects_sorted r ex ws esc :
  StronglySorted lt (find_objects r ex ws esc false).
Proof using Type. clr. unfold Search.find_objects. apply find_line_sorted. Qed.

Lemma find_objects_reverse r ex ws esc :
  find_objects r ex ws esc true = rev (find_objects r ex ws esc false).
Proof using Type. clr. reflexivity. Qed.

Lemma find_objects_nodup r ex ws esc rv : NoDup (find_objects r ex ws esc rv).
Proof using Type. clr.
  unfold Search.find_objects. destruct rv.
  - apply NoDup_rev. apply sorted_lt_NoDup, find_line_sorted.
  - apply sorted_lt_NoDup, find_line_sorted.
Qed.

(* CiscoConfParse.re_search_children *)
Lemma ccp_re_search_children_spec r recurse :
  ccp_re_search_children kids par rxm r recurse =
  filter (fun l => rxm 0 r l && (recurse || (par l =? l))) (seq 0 (length kids)).
Proof using Type. clr.
  unfold ccp_re_search_children, Search.find_objects, Search.find_line, Search.all_lines, Search.nlines. cbn [mode_of Nat.add].
  destruct recurse.
  - apply filter_ext. intros l. rewrite orb_true_l, andb_true_r. reflexivity.
  - induction (seq 0 (length kids)) as [|a t IH]; simpl; auto.
    destruct (rxm 0 r a); simpl; [destruct (par a =? a); simpl; rewrite IH|]; auto.
Qed.

(* ---------------- branch growth = depth-first chains (DESIGN appendix B.5) ---------------- *)
Fixpoint ext (rs : list nat) (lst : elt) : list (list elt) :=
  match rs with
  | [] => [[]]
  | r :: rs' =>
      match lst with
      | None => map (cons None) (ext rs' None)
      | Some p => flat_map (fun k => map (cons k) (ext rs' k)) (next_kids (Some p) r)
      end
  end.

(* the specification: depth-first, lexicographic enumeration of the (None-padded) chains *)
Definition chains (rs : list nat) : list (list elt) :=
  match rs with
  | [] => []
  | r0 :: rs' => flat_map (fun k => map (cons k) (ext rs' k)) (next_kids None r0)
  end.

Lemma last_snoc (b : list elt) k : last_of (b ++ [k]) = k.
Proof using Type. clr. unfold last_of. apply last_last. Qed.

Lemma grow_spec rs : forall bs,
  fold_left (fun bs r => grow1 r bs) rs bs =
  flat_map (fun b => map (app b) (ext rs (last_of b))) bs.
Proof using Type. clr.
  induction rs as [|r rs IH]; intros bs; cbn [fold_left ext].
  - induction bs as [|b bs IHb]; simpl; auto. rewrite app_nil_r. f_equal. exact IHb.
  - rewrite IH. unfold Search.grow1. rewrite flat_map_flat_map.
    apply flat_map_ext. intros b.
    destruct (last_of b) as [p|] eqn:El.
    + rewrite flat_map_map'.
      rewrite map_flat_map.
      apply flat_map_ext. intros k. rewrite last_snoc, map_map.
      apply map_ext. intros c. now rewrite <- app_assoc.
    + simpl. rewrite app_nil_r, last_snoc, map_map.
      apply map_ext. intros c. now rewrite <- app_assoc.
Qed.

Lemma branches_raw_spec rs : branches_raw rs = chains rs.
Proof using Type. clr.
  destruct rs as [|r0 rs]; [reflexivity|]. unfold Search.branches_raw, chains.
  rewrite grow_spec, flat_map_map'. apply flat_map_ext. intros k. reflexivity.
Qed.

Lemma find_object_branches_spec rs empty rv :
  find_object_branches rs empty rv =
  (if rv then @rev (list elt) else (fun l => l))
    ((if empty then (fun l => l) else filter (forallb (elt_truthy tru))) (chains rs)).
Proof using Type. clr.
  unfold Search.find_object_branches. rewrite branches_raw_spec. destruct empty, rv; reflexivity.
Qed.

(* every branch has exactly one element per regex *)
Lemma ext_length rs : forall lst b, In b (ext rs lst) -> length b = length rs.
Proof using Type. clr.
  induction rs as [|r rs IH]; intros lst b Hb; cbn [ext] in Hb.
  - destruct Hb as [<-|[]]. reflexivity.
  - destruct lst as [p|].
    + apply in_flat_map in Hb. destruct Hb as (k & _ & Hb). apply in_map_iff in Hb.
      destruct Hb as (b' & <- & Hb'). simpl. f_equal. eapply IH; eauto.
    + apply in_map_iff in Hb. destruct Hb as (b' & <- & Hb'). simpl. f_equal. eapply IH; eauto.
Qed.

Lemma chains_length rs b : In b (chains rs) -> length b = length rs.
Proof using Type. clr.
  destruct rs as [|r0 rs]; simpl; [contradiction|]. intros Hb.
  apply in_flat_map in Hb. destruct Hb as (k & _ & Hb). apply in_map_iff in Hb.
  destruct Hb as (b' & <- & Hb'). simpl. f_equal. eapply ext_length; eauto.
Qed.

(* ---------------- complete branches = chains of direct parent-to-child lines ---------------- *)
(* ls continues a chain below line prev: line i is a direct child of line i-1 and matches regex i *)
Fixpoint chain_from (prev : nat) (rs ls : list nat) : Prop :=
  match rs, ls with
  | [], [] => True
  | r :: rs', l :: ls' => In l (children prev) /\ rxm 0 r l = true /\ chain_from l rs' ls'
  | _, _ => False
  end.

Definition is_chain (rs ls : list nat) : Prop :=
  match rs, ls with
  | r0 :: rs', l0 :: ls' => l0 < nlines /\ rxm 0 r0 l0 = true /\ chain_from l0 rs' ls'
  | _, _ => False
  end.

Lemma In_next_kids_Some p r l :
  In (Some l) (next_kids (Some p) r) <-> In l (children p) /\ rxm 0 r l = true.
Proof using Type. clr.
  unfold Search.next_kids. destruct (filter (rxm 0 r) (children p)) as [|a t] eqn:E.
  - split.
    + intros [H|[]]; discriminate.
    + intros H. apply filter_In in H. rewrite E in H. contradiction.
  - rewrite <- E. rewrite in_map_iff. split.
    + intros (x & Hx & Hin). inversion Hx; subst. apply filter_In in Hin. exact Hin.
    + intros H. exists l. split; auto. apply filter_In. exact H.
Qed.

Lemma In_next_kids_root r l :
  In (Some l) (next_kids None r) <-> l < nlines /\ rxm 0 r l = true.
Proof using Type. clr.
  unfold Search.next_kids.
  assert (E0 : filter (rxm 0 r) (find_line 0 r) = find_line 0 r) by (unfold Search.find_line; apply filter_idem).
  rewrite E0. clear E0.
  destruct (find_line 0 r) as [|a t] eqn:E.
  - split.
    + intros [H|[]]; discriminate.
    + intros H. apply In_find_line in H. rewrite E in H. contradiction.
  - rewrite <- E. rewrite in_map_iff. split.
    + intros (x & Hx & Hin). inversion Hx; subst. apply In_find_line in Hin. exact Hin.
    + intros H. exists l. split; auto. apply In_find_line. exact H.
Qed.

Lemma ext_complete rs : forall p ls,
  In (map Some ls) (ext rs (Some p)) <-> chain_from p rs ls.
Proof using Type. clr.
  induction rs as [|r rs IH]; intros p ls; cbn [ext chain_from].
  - destruct ls; simpl; split; auto; intros [H|[]]; discriminate.
  - rewrite in_flat_map. split.
    + intros (k & Hk & Hb). apply in_map_iff in Hb. destruct Hb as (b' & Hb & Hin).
      destruct ls as [|l ls']; [discriminate|]. simpl in Hb. inversion Hb; subst.
      apply In_next_kids_Some in Hk. destruct Hk. repeat split; auto. apply IH. exact Hin.
    + destruct ls as [|l ls']; [contradiction|]. intros (Hc & Hm & Hch).
      exists (Some l). split; [apply In_next_kids_Some; auto|].
      simpl. apply in_map. apply IH. exact Hch.
Qed.

Lemma chains_complete rs ls : In (map Some ls) (chains rs) <-> is_chain rs ls.
Proof using Type. clr.
  destruct rs as [|r0 rs]; simpl; [tauto|].
  rewrite in_flat_map. split.
  - intros (k & Hk & Hb). apply in_map_iff in Hb. destruct Hb as (b' & Hb & Hin).
    destruct ls as [|l ls']; [discriminate|]. simpl in Hb. inversion Hb; subst.
    apply In_next_kids_root in Hk. destruct Hk. repeat split; auto. apply ext_complete. exact Hin.
  - destruct ls as [|l ls']; [contradiction|]. intros (Hc & Hm & Hch).
    exists (Some l). split; [apply In_next_kids_root; auto|].
    simpl. apply in_map. apply ext_complete. exact Hch.
Qed.

Definition is_some (e : elt) : bool := match e with Some _ => true | None => false end.

Lemma all_some_map b : forallb is_some b = true -> exists ls, b = map Some ls.
Proof using Type. clr.
  induction b as [|e b IH]; intros H; [exists []; auto|].
  simpl in H. apply andb_prop in H. destruct H as [He Hb]. destruct e as [x|]; [|discriminate].
  destruct (IH Hb) as (ls & ->). exists (x :: ls). reflexivity.
Qed.

Lemma truthy_some b : forallb (elt_truthy tru) b = true -> forallb is_some b = true.
Proof using Type. clr.
  induction b as [|e b IH]; simpl; auto. intros H. apply andb_prop in H. destruct H as [He Hb].
  destruct e; [|discriminate]. simpl. auto.
Qed.

(* on real forests all(branch) only removes the branches that contain None *)
Lemma chain_from_truthy (Hb : BlankOK) rs : forall prev ls,
  chain_from prev rs ls -> forallb (elt_truthy tru) (map Some ls) = true.
Proof using Type. clr.
  induction rs as [|r rs IH]; intros prev ls H; destruct ls as [|l ls']; simpl in *; try tauto.
  destruct H as (Hc & _ & Hch). apply andb_true_intro. split; [|eapply IH; eauto].
  destruct (tru l) eqn:E; auto. exfalso. destruct (Hb l E) as [_ Hn]. exact (Hn _ Hc).
Qed.

Lemma chain_truthy (Hb : BlankOK) rs ls :
  2 <= length rs -> is_chain rs ls -> forallb (elt_truthy tru) (map Some ls) = true.
Proof using Type. clr.
  destruct rs as [|r0 [|r1 rs]]; simpl; try lia. intros _.
  destruct ls as [|l0 [|l1 ls]]; simpl; try tauto.
  intros (_ & _ & Hc & Hm & Hch).
  assert (T0 : tru l0 = true).
  { destruct (tru l0) eqn:E; auto. exfalso. destruct (Hb l0 E) as [Hk _]. rewrite Hk in Hc. contradiction. }
  assert (T1 : tru l1 = true).
  { destruct (tru l1) eqn:E; auto. exfalso. destruct (Hb l1 E) as [_ Hn]. exact (Hn _ Hc). }
  rewrite T0, T1. simpl. eapply chain_from_truthy; eauto.
Qed.

(* complete branches (empty_branches=False) are exactly the chains *)
Lemma branches_complete_iff (Hb : BlankOK) rs b :
  2 <= length rs ->
  (In b (find_object_branches rs false false) <-> exists ls, b = map Some ls /\ is_chain rs ls).
Proof using Type. clr.
  intros Hl. rewrite find_object_branches_spec. cbn beta iota. rewrite filter_In. split.
  - intros (Hin & Ht). destruct (all_some_map b (truthy_some b Ht)) as (ls & ->).
    exists ls. split; auto. apply chains_complete. exact Hin.
  - intros (ls & -> & Hc). split; [apply chains_complete; auto|eapply chain_truthy; eauto].
Qed.

(* with empty_branches=True nothing is filtered; every branch still has one element per regex *)
Lemma branches_padded_length rs rv b :
  In b (find_object_branches rs true rv) -> length b = length rs.
Proof using Type. clr.
  rewrite find_object_branches_spec. destruct rv; [rewrite <- in_rev|]; apply chains_length.
Qed.

(* None only ever pads: once a branch has None, all later elements are None, and the first None
   appears only where NO direct child of the previous line matches the next regex *)
Fixpoint padded_from (prev : elt) (rs : list nat) (b : list elt) : Prop :=
  match rs, b with
  | [], [] => True
  | r :: rs', e :: b' =>
      match prev, e with
      | None, None => padded_from None rs' b'
      | None, Some _ => False
      | Some p, Some l => In l (children p) /\ rxm 0 r l = true /\ padded_from (Some l) rs' b'
      | Some p, None => (forall l, In l (children p) -> rxm 0 r l = false) /\ padded_from None rs' b'
      end
  | _, _ => False
  end.

Lemma In_next_kids_None p r :
  In None (next_kids (Some p) r) <-> forall l, In l (children p) -> rxm 0 r l = false.
Proof using Type. clr.
  unfold Search.next_kids. destruct (filter (rxm 0 r) (children p)) as [|a t] eqn:E.
  - split; [|left; auto]. intros _ l Hl. destruct (rxm 0 r l) eqn:Em; auto.
    assert (In l (filter (rxm 0 r) (children p))) as Hf by (apply filter_In; auto).
    rewrite E in Hf. contradiction.
  - split.
    + intros H. apply in_map_iff in H. destruct H as (x & Hx & _). discriminate.
    + intros H. assert (In a (filter (rxm 0 r) (children p))) as Hf by (rewrite E; left; auto).
      apply filter_In in Hf. destruct Hf as [Hc Hm]. rewrite (H _ Hc) in Hm. discriminate.
Qed.

Lemma ext_padded rs : forall prev b, In b (ext rs prev) <-> padded_from prev rs b.
Proof using Type. clr.
  induction rs as [|r rs IH]; intros prev b; cbn [ext padded_from].
  - destruct b; simpl; split; auto; try tauto. intros [H|[]]; discriminate.
  - destruct prev as [p|].
    + rewrite in_flat_map. split.
      * intros (k & Hk & Hb). apply in_map_iff in Hb. destruct Hb as (b' & <- & Hin).
        destruct k as [l|].
        -- apply In_next_kids_Some in Hk. destruct Hk. repeat split; auto. apply IH; auto.
        -- split; [apply In_next_kids_None; auto|apply IH; auto].
      * destruct b as [|e b']; [tauto|]. destruct e as [l|].
        -- intros (Hc & Hm & Hp). exists (Some l). split; [apply In_next_kids_Some; auto|].
           apply in_map. apply IH; auto.
        -- intros (Hn & Hp). exists None. split; [apply In_next_kids_None; auto|].
           apply in_map. apply IH; auto.
    + rewrite in_map_iff. split.
      * intros (b' & <- & Hin). apply IH; auto.
      * destruct b as [|e b']; [tauto|]. destruct e as [l|]; [tauto|].
        intros Hp. exists b'. split; auto. apply IH; auto.
Qed.

(* ---------------- list forms of find_parent_objects / find_child_objects ---------------- *)
Notation find_parent_objects_list := (find_parent_objects_list kids tru rxm).
Notation find_child_objects_list := (find_child_objects_list kids tru rxm).

Lemma In_somes x l : In x (somes l) <-> In (Some x) l.
Proof using Type. clr.
  unfold somes. rewrite in_flat_map. split.
  - intros (e & He & Hx). destruct e; simpl in Hx; [destruct Hx as [->|[]]; auto|contradiction].
  - intros H. exists (Some x). split; auto. left; auto.
Qed.

Lemma parents_list_sorted rs : StronglySorted lt (find_parent_objects_list rs).
Proof using Type. clr.
  destruct rs as [|r0 [|r1 rs]]; cbn [Search.find_parent_objects_list].
  - constructor.
  - apply find_objects_sorted.
  - apply sort_set_sorted.
Qed.

Lemma parents_list_members (Hb : BlankOK) rs x : 2 <= length rs ->
  (In x (find_parent_objects_list rs) <-> exists ls, is_chain rs (x :: ls)).
Proof using Type. clr.
  intros Hl. destruct rs as [|r0 [|r1 rs]]; simpl in Hl; try lia.
  assert (L2 : 2 <= length (r0 :: r1 :: rs)) by (simpl; lia).
  cbn [Search.find_parent_objects_list]. rewrite In_sort_set, In_somes, in_map_iff. split.
  - intros (b & Hh & Hin). apply (branches_complete_iff Hb _ _ L2) in Hin.
    destruct Hin as (ls & -> & Hc). destruct ls as [|l0 ls]; [simpl in Hc; contradiction|].
    simpl in Hh. inversion Hh; subst. exists ls. exact Hc.
  - intros (ls & Hc). exists (map Some (x :: ls)). split; [reflexivity|].
    apply (branches_complete_iff Hb _ _ L2). exists (x :: ls). auto.
Qed.

Lemma parents_list_single r : find_parent_objects_list [r] = filter (rxm 0 r) (seq 0 (length kids)).
Proof using Type. clr. reflexivity. Qed.

Lemma children_list_sorted rs : StronglySorted lt (find_child_objects_list rs).
Proof using Type. clr.
  destruct rs as [|r0 [|r1 rs]]; cbn [Search.find_child_objects_list].
  - constructor.
  - apply find_objects_sorted.
  - apply sort_set_sorted.
Qed.

Lemma children_list_members (Hb : BlankOK) rs x : 2 <= length rs ->
  (In x (find_child_objects_list rs) <-> exists ls, is_chain rs (ls ++ [x])).
Proof using Type. clr.
  intros Hl. destruct rs as [|r0 [|r1 rs]]; simpl in Hl; try lia.
  assert (L2 : 2 <= length (r0 :: r1 :: rs)) by (simpl; lia).
  cbn [Search.find_child_objects_list]. rewrite In_sort_set, In_somes, in_map_iff. split.
  - intros (b & Hh & Hin). apply (branches_complete_iff Hb _ _ L2) in Hin.
    destruct Hin as (ls & -> & Hc).
    destruct (exists_last (l := ls)) as (ls' & y & ->).
    { intros ->. simpl in Hc. contradiction. }
    unfold last_of in Hh. rewrite map_app in Hh. simpl in Hh. rewrite last_last in Hh.
    inversion Hh; subst. exists ls'. exact Hc.
  - intros (ls & Hc). exists (map Some (ls ++ [x])). split.
    + unfold last_of. rewrite map_app. simpl. apply last_last.
    + apply (branches_complete_iff Hb _ _ L2). exists (ls ++ [x]). auto.
Qed.

(* ---------------- two-argument forms ---------------- *)
Notation obj_re_search_children := (obj_re_search_children kids rxm nometa lit).
Notation find_parent_objects_2 := (find_parent_objects_2 kids rxm nometa lit).
Notation find_parent_objects_wo_child_2 := (find_parent_objects_wo_child_2 kids rxm nometa lit).
Notation find_child_objects_2 := (find_child_objects_2 kids rxm ne).

Lemma re_search_sound md r (Hs : ShortcutOK md r) l : re_search md r l = rxm md r l.
Proof using Type. clr.
  unfold Search.re_search. destruct (nometa md r) eqn:En, (lit md r l) eqn:El; simpl; auto.
  rewrite (Hs l En El). reflexivity.
Qed.

Definition offspring (recurse : bool) (p : nat) : list nat :=
  if recurse then all_children p else children p.

(* the family relation the `recurse` flag selects *)
Definition Below (recurse : bool) (p x : nat) : Prop :=
  if recurse then Desc p x else In x (children p).

Lemma In_offspring (Hwf : WF) recurse p x : In x (offspring recurse p) <-> Below recurse p x.
Proof using Type. clr. destruct recurse; simpl; [apply In_all_children; auto|tauto]. Qed.

Lemma obj_re_search_children_spec md r recurse p (Hs : ShortcutOK md r) :
  obj_re_search_children md r recurse p = filter (rxm md r) (offspring recurse p).
Proof using Type. clr.
  unfold Search.obj_re_search_children, offspring. apply filter_ext. intros l. apply re_search_sound; auto.
Qed.

Lemma has_child_with_spec (Hwf : WF) r allc p (Hs : ShortcutOK 0 r) :
  has_child_with kids rxm nometa lit r allc p = true <-> exists x, Below allc p x /\ rxm 0 r x = true.
Proof using Type. clr.
  unfold Search.has_child_with. rewrite is_nil_filter_existsb, existsb_exists.
  split; intros (x & Hx & Hm); exists x.
  - rewrite re_search_sound in Hm; auto. split; auto. apply (In_offspring Hwf allc); exact Hx.
  - rewrite re_search_sound; auto. split; auto. apply (In_offspring Hwf allc) in Hx; exact Hx.
Qed.

Lemma parents_2_spec p c ws recurse esc rv (Hs : ShortcutOK (mode_of false ws esc) c) :
  find_parent_objects_2 p c ws recurse esc rv =
  filter (fun x => existsb (rxm (mode_of false ws esc) c) (offspring recurse x)) (find_objects p false ws esc rv).
Proof using Type. clr.
  unfold Search.find_parent_objects_2. apply filter_ext. intros x.
  rewrite obj_re_search_children_spec; auto. apply is_nil_filter_existsb.
Qed.

Lemma wo_child_2_spec p c ws recurse esc rv (Hs : ShortcutOK (mode_of false ws esc) c) :
  find_parent_objects_wo_child_2 p c ws recurse esc rv =
  filter (fun x => negb (existsb (rxm (mode_of false ws esc) c) (offspring recurse x))) (find_objects p false ws esc rv).
Proof using Type. clr.
  unfold Search.find_parent_objects_wo_child_2. apply filter_ext. intros x.
  rewrite obj_re_search_children_spec; auto. apply is_nil_filter_existsb'.
Qed.

Lemma parents_2_members (Hwf : WF) p c ws recurse esc rv (Hs : ShortcutOK (mode_of false ws esc) c) x :
  In x (find_parent_objects_2 p c ws recurse esc rv) <->
  x < length kids /\ rxm (mode_of false ws esc) p x = true /\
  exists y, Below recurse x y /\ rxm (mode_of false ws esc) c y = true.
Proof using Type. clr.
  rewrite parents_2_spec; auto. rewrite filter_In, find_objects_members, existsb_exists.
  split.
  - intros ((Hl & Hm) & y & Hy & Hc). repeat split; auto. exists y. split; auto. apply (In_offspring Hwf recurse); auto.
  - intros (Hl & Hm & y & Hy & Hc). repeat split; auto. exists y. split; auto. apply (In_offspring Hwf recurse); auto.
Qed.

Lemma wo_child_2_members (Hwf : WF) p c ws recurse esc rv (Hs : ShortcutOK (mode_of false ws esc) c) x :
  In x (find_parent_objects_wo_child_2 p c ws recurse esc rv) <->
  x < length kids /\ rxm (mode_of false ws esc) p x = true /\
  ~ exists y, Below recurse x y /\ rxm (mode_of false ws esc) c y = true.
Proof using Type. clr.
  rewrite wo_child_2_spec; auto. rewrite filter_In, find_objects_members, negb_true_iff.
  split.
  - intros ((Hl & Hm) & Hn). repeat split; auto. intros (y & Hy & Hc).
    assert (existsb (rxm (mode_of false ws esc) c) (offspring recurse x) = true) as E.
    { apply existsb_exists. exists y. split; auto. apply (In_offspring Hwf recurse); auto. }
    rewrite E in Hn. discriminate.
  - intros (Hl & Hm & Hn). repeat split; auto.
    destruct (existsb (rxm (mode_of false ws esc) c) (offspring recurse x)) eqn:E; auto.
    exfalso. apply Hn. apply existsb_exists in E. destruct E as (y & Hy & Hc). exists y. split; auto.
    apply (In_offspring Hwf recurse); auto.
Qed.

(* order: the two-argument parent searches keep the order of find_objects (ascending, or descending with reverse) *)
Lemma parents_2_sorted p c ws recurse esc : StronglySorted lt (find_parent_objects_2 p c ws recurse esc false).
Proof using Type. clr. unfold Search.find_parent_objects_2. apply filter_sorted, find_objects_sorted. Qed.

Lemma wo_child_2_sorted p c ws recurse esc : StronglySorted lt (find_parent_objects_wo_child_2 p c ws recurse esc false).
Proof using Type. clr. unfold Search.find_parent_objects_wo_child_2. apply filter_sorted, find_objects_sorted. Qed.

Lemma filter_rev {A} (f : A -> bool) l : filter f (rev l) = rev (filter f l).
Proof using Type. clr.
  induction l as [|a l IH]; simpl; auto. rewrite filter_app, IH. simpl.
  destruct (f a); simpl; [reflexivity|apply app_nil_r].
Qed.

Lemma parents_2_reverse p c ws recurse esc :
  find_parent_objects_2 p c ws recurse esc true = rev (find_parent_objects_2 p c ws recurse esc false).
Proof using Type. clr. unfold Search.find_parent_objects_2. rewrite find_objects_reverse. apply filter_rev. Qed.

Lemma wo_child_2_reverse p c ws recurse esc :
  find_parent_objects_wo_child_2 p c ws recurse esc true = rev (find_parent_objects_wo_child_2 p c ws recurse esc false).
Proof using Type. clr. unfold Search.find_parent_objects_wo_child_2. rewrite find_objects_reverse. apply filter_rev. Qed.

(* parents with and without a matching child partition the matching parents *)
Lemma parents_partition p c ws recurse esc x :
  In x (find_objects p false ws esc false) <->
  (In x (find_parent_objects_2 p c ws recurse esc false) \/ In x (find_parent_objects_wo_child_2 p c ws recurse esc false)).
Proof using Type. clr.
  unfold Search.find_parent_objects_2, Search.find_parent_objects_wo_child_2. rewrite !filter_In.
  destruct (is_nil (obj_re_search_children (mode_of false ws esc) c recurse x)); simpl; intuition discriminate.
Qed.

(* find_child_objects, two-argument form *)
Lemma children_2_sorted p c ws recurse esc rv : StronglySorted lt (find_child_objects_2 p c ws recurse esc rv).
Proof using Type. clr. unfold Search.find_child_objects_2. apply sort_set_sorted. Qed.

Lemma children_2_members (Hwf : WF) p c ws recurse esc rv (Hn : NonEmptyOK (mode_of false ws esc) c) x :
  In x (find_child_objects_2 p c ws recurse esc rv) <->
  rxm (mode_of false ws esc) c x = true /\
  exists y, y < length kids /\ rxm (mode_of false ws esc) p y = true /\ Below recurse y x.
Proof using Type. clr.
  unfold Search.find_child_objects_2. rewrite In_sort_set, in_flat_map. split.
  - intros (y & Hy & Hx). apply find_objects_members in Hy. destruct Hy as [Hl Hm].
    apply filter_In in Hx. destruct Hx as [Hin Hh]. unfold child_hit in Hh. apply andb_prop in Hh.
    destruct Hh as [Hc _]. split; auto. exists y. repeat split; auto.
    apply (In_offspring Hwf recurse). exact Hin.
  - intros (Hc & y & Hl & Hm & Hbel). exists y. split; [apply find_objects_members; auto|].
    apply filter_In. split; [apply (In_offspring Hwf recurse) in Hbel; exact Hbel|].
    unfold child_hit. rewrite Hc, (Hn _ Hc). reflexivity.
Qed.

(* ---------------- list form of length 2 = two-argument form at recurse=False ---------------- *)
Lemma is_chain_2 p c x y :
  is_chain [p; c] [x; y] <-> x < nlines /\ rxm 0 p x = true /\ In y (children x) /\ rxm 0 c y = true.
Proof using Type. clr. simpl. tauto. Qed.

Lemma is_chain_2_shape p c ls : is_chain [p; c] ls -> exists x y, ls = [x; y].
Proof using Type. clr.
  destruct ls as [|x [|y [|z t]]]; simpl; try tauto.
  - intros _. exists x, y. reflexivity.
Qed.

Lemma list_eq_2arg_parents (Hb : BlankOK) p c (Hs : ShortcutOK 0 c) :
  find_parent_objects_list [p; c] = find_parent_objects_2 p c false false false false.
Proof using Type. clr.
  apply sorted_lt_unique; [apply parents_list_sorted|apply parents_2_sorted|].
  intros x. rewrite parents_list_members; auto. rewrite parents_2_spec; auto.
  rewrite filter_In, find_objects_members, existsb_exists. cbn [mode_of Nat.add offspring]. split.
  - intros (ls & Hc). destruct (is_chain_2_shape _ _ _ Hc) as (x' & y & E). inversion E; subst.
    apply is_chain_2 in Hc. destruct Hc as (H1 & H2 & H3 & H4). split; [split; auto|]. exists y. auto.
  - intros ((H1 & H2) & y & H3 & H4). exists [y]. apply is_chain_2. auto.
Qed.

Lemma list_eq_2arg_children (Hb : BlankOK) p c (Hn : NonEmptyOK 0 c) :
  find_child_objects_list [p; c] = find_child_objects_2 p c false false false false.
Proof using Type. clr.
  apply sorted_lt_unique; [apply children_list_sorted|apply children_2_sorted|].
  intros x. rewrite children_list_members; auto.
  unfold Search.find_child_objects_2. rewrite In_sort_set, in_flat_map. cbn [mode_of Nat.add]. split.
  - intros (ls & Hc). destruct (is_chain_2_shape _ _ _ Hc) as (x' & y & E).
    destruct ls as [|a [|b t]]; simpl in E; inversion E; subst; [|destruct t; discriminate].
    apply is_chain_2 in Hc. destruct Hc as (H1 & H2 & H3 & H4).
    exists x'. split; [apply find_objects_members; auto|].
    apply filter_In. split; auto. unfold child_hit. rewrite H4, (Hn _ H4). reflexivity.
  - intros (y & Hy & Hx). apply find_objects_members in Hy. destruct Hy as [H1 H2].
    apply filter_In in Hx. destruct Hx as [H3 H4]. unfold child_hit in H4. apply andb_prop in H4.
    exists [y]. apply is_chain_2. tauto.
Qed.

(* the list form of find_parent_objects_wo_child AS DEMANDED by the property is, by definition, the
   two-argument form; the list form AS IMPLEMENTED (F03) is not: *)
End Proofs.

(* F03 witness: config ['ab',' b','ab',' c'], list form ['ab','c'].  Slot 0 = 'ab' (lines 0,2),
   slot 1 = 'c' (line 3), slot 2 = 'b' = second character of 'ab' (lines 0,1,2). *)
Definition f03_kids : list (list nat) := [[1]; []; [3]; []].
Definition f03_rxm (md r l : nat) : bool :=
  match r with
  | 0 => (l =? 0) || (l =? 2)
  | 1 => l =? 3
  | _ => (l =? 0) || (l =? 1) || (l =? 2)
  end.
Definition f03_no (md r : nat) := false.
Definition f03_lit (md r l : nat) := false.

Lemma wo_child_list_refuted :
  exists kids rxm nometa lit p c c2,
    find_parent_objects_wo_child_list_impl kids rxm nometa lit p c2 <>
    Some (find_parent_objects_wo_child_list kids rxm nometa lit p c).
Proof.
  exists f03_kids, f03_rxm, f03_no, f03_lit, 0, 1, (Some 2). vm_compute. discriminate.
Qed.

(* the two-argument child search really needs NonEmptyOK: a child regex that matches the empty
   string ('$') finds nothing, although the list form finds the child (information, see design/C04.md) *)
Lemma children_2_needs_nonempty :
  exists kids tru rxm ne p c,
    find_child_objects_2 kids rxm ne p c false false false false <> find_child_objects_list kids tru rxm [p; c].
Proof.
  exists [[1]; []], (fun _ => true), (fun _ r l => if r =? 0 then l =? 0 else true), (fun _ _ _ => false), 0, 1.
  vm_compute. discriminate.
Qed.

(* ---------------- non-vacuity: a real forest meets the hypotheses ---------------- *)
(* ['interface Eth1', ' ip address', '  secondary', ' shutdown', '', '!', 'interface Eth2', ' shutdown'] *)
Definition ex_kids : list (list nat) := [[1; 3]; [2]; []; []; []; []; [7]; []].
Definition ex_tru (l : nat) : bool := negb (l =? 4).
(* slot 0 = 'interface', slot 1 = 'shutdown', slot 2 = 'secondary' *)
Definition ex_rxm (md r l : nat) : bool :=
  match r with 0 => (l =? 0) || (l =? 6) | 1 => (l =? 3) || (l =? 7) | _ => l =? 2 end.

Example ex_WF : WF ex_kids.
Proof.
  intros p c H. unfold children, ex_kids in H.
  do 8 (destruct p as [|p]; [simpl in H; repeat (destruct H as [<-|H]; [unfold nlines; simpl; lia|]); contradiction|]).
  destruct p; simpl in H; contradiction.
Qed.

Example ex_BlankOK : BlankOK ex_kids ex_tru.
Proof.
  intros l H. unfold ex_tru in H. apply negb_false_iff, Nat.eqb_eq in H. subst l. split; [reflexivity|].
  intros p Hp. unfold children, ex_kids in Hp.
  do 8 (destruct p as [|p]; [simpl in Hp; repeat (destruct Hp as [Hp|Hp]; [discriminate|]); contradiction|]).
  destruct p; simpl in Hp; contradiction.
Qed.

Example ex_branches :
  find_object_branches ex_kids ex_tru ex_rxm [0; 1] true false = [[Some 0; Some 3]; [Some 6; Some 7]]
  /\ find_object_branches ex_kids ex_tru ex_rxm [0; 2] true false = [[Some 0; None]; [Some 6; None]]
  /\ find_parent_objects_2 ex_kids ex_rxm (fun _ _ => false) (fun _ _ _ => false) 0 2 false true false false = [0]
  /\ find_parent_objects_wo_child_2 ex_kids ex_rxm (fun _ _ => false) (fun _ _ _ => false) 0 2 false true false false = [6]
  /\ find_parent_objects_wo_child_2 ex_kids ex_rxm (fun _ _ => false) (fun _ _ _ => false) 0 2 false false false false = [0; 6].
Proof. vm_compute. repeat split. Qed.
