(* C14 — proofs about Model/Range.v (CiscoRange with result_type=int). *)
From Coq Require Import NArith ZArith List Bool Lia Sorting.Sorted Sorting.Permutation Sorting.Mergesort RelationClasses.
Require Import CCP.Lib.PyStr CCP.Lib.Res CCP.Lib.C14Aux CCP.Lib.C14StrAux CCP.Model.Range.
Import ListNotations.
Open Scope Z_scope.

(* ascending without duplicates *)
Definition asc (l : list Z) : Prop := StronglySorted Z.lt l.

(* ================================================================== A. sorting *)
Lemma StronglySorted_impl {A} (R R' : A -> A -> Prop) l :
  (forall x y, R x y -> R' x y) -> StronglySorted R l -> StronglySorted R' l.
Proof.
  intros H S. induction S as [|x l S IH F]; constructor; auto.
  eapply Forall_impl; [|exact F]. intros y. apply H.
Qed.

Lemma py_sorted_perm l : Permutation l (py_sorted l).
Proof. apply ZSort.Permuted_sort. Qed.

Lemma py_sorted_le l : StronglySorted Z.le (py_sorted l).
Proof.
  unfold py_sorted.
  assert (Transitive (fun x y : Z => is_true (ZOrder.leb x y))) as T.
  { intros x y z. unfold ZOrder.leb, is_true. rewrite !Z.leb_le. lia. }
  pose proof (ZSort.StronglySorted_sort l T) as S.
  eapply StronglySorted_impl; [|exact S]. intros x y. unfold ZOrder.leb, is_true. rewrite Z.leb_le. auto.
Qed.

Lemma py_sorted_In x l : In x (py_sorted l) <-> In x l.
Proof.
  split; intros H.
  - eapply Permutation_in; [apply Permutation_sym, py_sorted_perm|exact H].
  - eapply Permutation_in; [apply py_sorted_perm|exact H].
Qed.

Lemma dedup_In x l : In x (dedup l) <-> In x l.
Proof.
  induction l as [|a r IH]; [reflexivity|].
  destruct r as [|b r'].
  - reflexivity.
  - change (dedup (a :: b :: r')) with (if a =? b then dedup (b :: r') else a :: dedup (b :: r')).
    destruct (Z.eqb_spec a b) as [E|E].
    + rewrite IH. subst. simpl. tauto.
    + simpl In at 1. rewrite IH. simpl. tauto.
Qed.

Lemma dedup_asc l : StronglySorted Z.le l -> asc (dedup l).
Proof.
  unfold asc. induction l as [|a r IH]; intros S.
  - constructor.
  - destruct r as [|b r'].
    + simpl. constructor; constructor.
    + change (dedup (a :: b :: r')) with (if a =? b then dedup (b :: r') else a :: dedup (b :: r')).
      inversion S as [|? ? S' F]; subst.
      destruct (Z.eqb_spec a b) as [E|E]; [auto|].
      constructor; [auto|].
      apply Forall_forall. intros z Hz. apply (proj1 (dedup_In _ _)) in Hz.
      rewrite Forall_forall in F.
      inversion S' as [|? ? S'' F']; subst. rewrite Forall_forall in F'.
      assert (a <= b) by (apply F; left; reflexivity).
      destruct Hz as [<-|Hz]; [lia|]. specialize (F' z Hz). lia.
Qed.

Lemma sorted_set_asc l : asc (sorted_set l).
Proof. apply dedup_asc, py_sorted_le. Qed.
Lemma sorted_set_In x l : In x (sorted_set l) <-> In x l.
Proof. unfold sorted_set. rewrite dedup_In. apply py_sorted_In. Qed.

Lemma asc_head_lt a r x : asc (a :: r) -> In x r -> a < x.
Proof. intros S H. inversion S as [|? ? _ F]; subst. rewrite Forall_forall in F. auto. Qed.
Lemma asc_tail a r : asc (a :: r) -> asc r.
Proof. intros S. inversion S; assumption. Qed.

(* an ascending list is determined by its members *)
Lemma asc_unique l1 : forall l2, asc l1 -> asc l2 -> (forall x, In x l1 <-> In x l2) -> l1 = l2.
Proof.
  induction l1 as [|a r1 IH]; intros l2 S1 S2 M.
  - destruct l2 as [|b r2]; auto. exfalso. apply (M b). left. reflexivity.
  - destruct l2 as [|b r2]. { exfalso. apply (M a). left. reflexivity. }
    assert (a = b) as ->.
    { assert (In a (b :: r2)) as Ha by (apply M; left; reflexivity).
      assert (In b (a :: r1)) as Hb by (apply M; left; reflexivity).
      destruct Ha as [Ha|Ha]; [auto|]. destruct Hb as [Hb|Hb]; [auto|].
      pose proof (asc_head_lt _ _ _ S2 Ha). pose proof (asc_head_lt _ _ _ S1 Hb). lia. }
    f_equal. apply IH; eauto using asc_tail.
    intros x. split; intros Hx.
    + assert (In x (b :: r2)) as H by (apply M; right; exact Hx).
      destruct H as [<-|H]; auto. pose proof (asc_head_lt _ _ _ S1 Hx). lia.
    + assert (In x (b :: r1)) as H by (apply M; right; exact Hx).
      destruct H as [<-|H]; auto. pose proof (asc_head_lt _ _ _ S2 Hx). lia.
Qed.

Lemma sorted_set_id l : asc l -> sorted_set l = l.
Proof. intros S. apply asc_unique; auto using sorted_set_asc. intros x. apply sorted_set_In. Qed.

Lemma asc_NoDup l : asc l -> NoDup l.
Proof.
  intros S. induction S as [|a r S IH F]; constructor; auto.
  intros H. rewrite Forall_forall in F. specialize (F a H). lia.
Qed.

Lemma le_sorted_NoDup_asc l : StronglySorted Z.le l -> NoDup l -> asc l.
Proof.
  intros S. induction S as [|a r S IH F]; intros N; [constructor|].
  inversion N as [|? ? Hnin N']; subst. constructor; [apply IH; exact N'|].
  apply Forall_forall. intros x Hx. rewrite Forall_forall in F. specialize (F x Hx).
  assert (x <> a) by (intros ->; contradiction). lia.
Qed.

Lemma py_sorted_NoDup_asc l : NoDup l -> asc (py_sorted l).
Proof.
  intros N. apply le_sorted_NoDup_asc; [apply py_sorted_le|].
  eapply Permutation_NoDup; [apply py_sorted_perm|exact N].
Qed.

Lemma asc_filter f l : asc l -> asc (filter f l).
Proof.
  intros S. induction S as [|a r S IH F]; simpl; [constructor|].
  destruct (f a); auto. constructor; auto.
  apply Forall_forall. intros x Hx. apply filter_In in Hx. destruct Hx as [Hx _].
  rewrite Forall_forall in F. auto.
Qed.

(* ================================================================== B. integer intervals *)
Lemma zrange_n_In b n x : In x (zrange_n b n) <-> b <= x < b + Z.of_nat n.
Proof.
  revert b. induction n as [|n IH]; intros b; simpl zrange_n.
  - simpl. lia.
  - simpl In. rewrite IH. lia.
Qed.

Lemma zrange_In a b x : In x (zrange a b) <-> a <= x <= b.
Proof. unfold zrange. rewrite zrange_n_In. lia. Qed.

Lemma zrange_n_asc b n : asc (zrange_n b n).
Proof.
  revert b. induction n as [|n IH]; intros b; simpl; [constructor|].
  constructor; [apply IH|].
  apply Forall_forall. intros x Hx. apply zrange_n_In in Hx. lia.
Qed.
Lemma zrange_asc a b : asc (zrange a b).
Proof. apply zrange_n_asc. Qed.

Lemma zrange_n_app b n m : zrange_n b (n + m) = zrange_n b n ++ zrange_n (b + Z.of_nat n) m.
Proof.
  revert b. induction n as [|n IH]; intros b.
  - simpl. f_equal. lia.
  - cbn [Nat.add zrange_n app]. f_equal. rewrite IH. do 2 f_equal. lia.
Qed.

Lemma zrange_empty a b : b < a -> zrange a b = [].
Proof. intros H. unfold zrange. replace (Z.to_nat (b + 1 - a)) with O by lia. reflexivity. Qed.
Lemma zrange_single a : zrange a a = [a].
Proof. unfold zrange. replace (Z.to_nat (a + 1 - a)) with 1%nat by lia. reflexivity. Qed.
Lemma zrange_cons a b : a <= b -> zrange a b = a :: zrange (a + 1) b.
Proof.
  intros H. unfold zrange. replace (Z.to_nat (b + 1 - a)) with (S (Z.to_nat (b + 1 - (a + 1)))) by lia. reflexivity.
Qed.
Lemma zrange_snoc a b : a <= b + 1 -> zrange a (b + 1) = zrange a b ++ [b + 1].
Proof.
  intros H. unfold zrange. replace (Z.to_nat (b + 1 + 1 - a)) with (Z.to_nat (b + 1 - a) + 1)%nat by lia.
  rewrite zrange_n_app. f_equal. simpl. f_equal. lia.
Qed.
Lemma zrange_split a m b : a <= m + 1 -> m <= b -> zrange a b = zrange a m ++ zrange (m + 1) b.
Proof.
  intros H1 H2. unfold zrange.
  replace (Z.to_nat (b + 1 - a)) with (Z.to_nat (m + 1 - a) + Z.to_nat (b + 1 - (m + 1)))%nat by lia.
  rewrite zrange_n_app. do 2 f_equal. lia.
Qed.

(* ================================================================== C. the constructor on rendered interval lists *)
Definition blanks (ws : str) : Prop := forallb is_space ws = true.

(* one comma-separated part of a range text, with arbitrary blanks around the numbers *)
Inductive part :=
| PSingle (ws1 : str) (n : N) (ws2 : str)
| PRange (ws1 : str) (a : N) (ws2 ws3 : str) (b : N) (ws4 : str).

Definition part_ok (p : part) : Prop :=
  match p with
  | PSingle w1 _ w2 => blanks w1 /\ blanks w2
  | PRange w1 _ w2 w3 _ w4 => blanks w1 /\ blanks w2 /\ blanks w3 /\ blanks w4
  end.
Definition render_part (p : part) : str :=
  match p with
  | PSingle w1 n w2 => w1 ++ render_dec n ++ w2
  | PRange w1 a w2 w3 b w4 => (w1 ++ render_dec a ++ w2) ++ [hyphen] ++ (w3 ++ render_dec b ++ w4)
  end.
Definition part_lo (p : part) : Z := match p with PSingle _ n _ => Z.of_N n | PRange _ a _ _ _ _ => Z.of_N a end.
Definition part_hi (p : part) : Z := match p with PSingle _ n _ => Z.of_N n | PRange _ _ _ _ b _ => Z.of_N b end.
Definition denote_part (p : part) : list Z := zrange (part_lo p) (part_hi p).
Definition render_text (ps : list part) : str := join [comma] (map render_part ps).

Lemma padded_no_char (c : char) w1 n w2 :
  is_space c = false -> is_digit c = false -> blanks w1 -> blanks w2 -> ~ In c (w1 ++ render_dec n ++ w2).
Proof.
  intros Hs Hd B1 B2 H. apply in_app_or in H. destruct H as [H|H].
  - exact (space_no_char c w1 Hs B1 H).
  - apply in_app_or in H. destruct H as [H|H].
    + exact (digits_no_char c (render_dec n) Hd (render_dec_digits n) H).
    + exact (space_no_char c w2 Hs B2 H).
Qed.

Ltac pnc := apply padded_no_char; [reflexivity|reflexivity|assumption|assumption].

Lemma render_part_no_comma p : part_ok p -> ~ In comma (render_part p).
Proof.
  destruct p as [w1 n w2|w1 a w2 w3 b w4]; cbn [part_ok render_part].
  - intros [B1 B2]. pnc.
  - intros (B1 & B2 & B3 & B4) H. apply in_app_or in H. destruct H as [H|H].
    + revert H. pnc.
    + destruct H as [H|H]; [discriminate|].
      revert H. pnc.
Qed.

Lemma render_part_nonempty p : render_part p <> [].
Proof.
  assert (forall w1 n w2, w1 ++ render_dec n ++ w2 <> []) as K.
  { intros w1 n w2 H. apply app_eq_nil in H. destruct H as [_ H]. apply app_eq_nil in H. destruct H as [H _].
    exact (render_dec_nonempty n H). }
  destruct p as [w1 n w2|w1 a w2 w3 b w4]; simpl.
  - apply K.
  - intros H. apply app_eq_nil in H. destruct H as [H _]. exact (K _ _ _ H).
Qed.

Lemma int_or_raise_padded w1 n w2 : blanks w1 -> blanks w2 ->
  int_or_raise (w1 ++ render_dec n ++ w2) = Ok (Z.of_N n).
Proof. intros B1 B2. unfold int_or_raise. rewrite py_int_padded_dec by assumption. reflexivity. Qed.

Lemma parse_part_render p : part_ok p -> parse_part (render_part p) = Ok (denote_part p).
Proof.
  destruct p as [w1 n w2|w1 a w2 w3 b w4]; unfold parse_part, denote_part; cbn [part_ok render_part part_lo part_hi].
  - intros [B1 B2].
    assert (has_char hyphen (w1 ++ render_dec n ++ w2) = false) as Hh.
    { apply existsb_eqb_notIn. pnc. }
    rewrite Hh. rewrite int_or_raise_padded by assumption. simpl. rewrite zrange_single. reflexivity.
  - intros (B1 & B2 & B3 & B4).
    assert (has_char hyphen ((w1 ++ render_dec a ++ w2) ++ [hyphen] ++ w3 ++ render_dec b ++ w4) = true) as Hh.
    { apply existsb_eqb_In. apply in_or_app. right. left. reflexivity. }
    rewrite Hh.
    assert (split_on hyphen ((w1 ++ render_dec a ++ w2) ++ [hyphen] ++ w3 ++ render_dec b ++ w4)
            = [w1 ++ render_dec a ++ w2; w3 ++ render_dec b ++ w4]) as Hs.
    { apply (split_on_join hyphen [w1 ++ render_dec a ++ w2; w3 ++ render_dec b ++ w4]); [discriminate|].
      repeat constructor; pnc. }
    rewrite Hs.
    unfold strip. rewrite !strip_padded_digits by auto using render_dec_nonempty, render_dec_digits.
    rewrite filter_digits_id by apply render_dec_digits.
    unfold int_or_raise. rewrite !py_int_digits by auto using render_dec_nonempty, render_dec_digits.
    rewrite !parse_dec_render. reflexivity.
Qed.

Lemma parse_parts_render ps : Forall part_ok ps ->
  parse_parts (map render_part ps) = Ok (flat_map denote_part ps).
Proof.
  intros H. induction H as [|p r Hp Hr IH]; [reflexivity|].
  simpl. rewrite parse_part_render by assumption. simpl. rewrite IH. reflexivity.
Qed.

(* no double comma in a join of non-empty comma-free parts *)
Lemma contains_cc_skip c s : c <> comma -> contains [comma; comma] (c :: s) = contains [comma; comma] s.
Proof.
  intros H. rewrite contains_cons. cbn [starts_with].
  destruct (N.eqb_spec comma c) as [E|E]; [congruence|]. reflexivity.
Qed.
Lemma contains_cc_app p s : ~ In comma p -> contains [comma; comma] (p ++ s) = contains [comma; comma] s.
Proof.
  induction p as [|c p IH]; intros H; [reflexivity|].
  simpl app. rewrite contains_cc_skip; [apply IH|]; intros E; apply H; [right; exact E|left; exact E].
Qed.
Lemma contains_cc_sep c s : c <> comma ->
  contains [comma; comma] (comma :: c :: s) = contains [comma; comma] (c :: s).
Proof.
  intros H. rewrite contains_cons. cbn [starts_with].
  destruct (N.eqb_spec comma c) as [E|E]; [congruence|]. rewrite N.eqb_refl. reflexivity.
Qed.

Lemma join_head (sep : str) (q : str) r c q' : q = c :: q' -> exists t, join sep (q :: r) = c :: t.
Proof. intros ->. destruct r; simpl; eauto. Qed.

Lemma join_no_double_comma fields :
  Forall (fun f => f <> [] /\ ~ In comma f) fields -> contains [comma; comma] (join [comma] fields) = false.
Proof.
  intros H. induction H as [|p r [Hne Hnc] Hr IH]; [reflexivity|].
  destruct r as [|q r'].
  - simpl. rewrite <- (app_nil_r p). rewrite contains_cc_app by assumption. reflexivity.
  - change (join [comma] (p :: q :: r')) with (p ++ [comma] ++ join [comma] (q :: r')).
    rewrite contains_cc_app by assumption.
    inversion Hr as [|? ? [Hq Hqc] _]; subst.
    destruct q as [|c q']; [congruence|].
    assert (exists t, join [comma] ((c :: q') :: r') = c :: t) as (t & Et) by (destruct r'; simpl; eauto).
    rewrite Et in IH. rewrite Et. simpl app. rewrite contains_cc_sep; [exact IH|].
    intros ->. apply Hqc. left. reflexivity.
Qed.

Lemma join_nonempty (sep : str) (p : str) r : p <> [] -> join sep (p :: r) <> [].
Proof. intros H. destruct p as [|c p']; [congruence|]. destruct r; simpl; discriminate. Qed.

(* the constructor on ANY rendering of ANY non-empty list of parts *)
Lemma ctor_render ps : ps <> [] -> Forall part_ok ps ->
  ctor (render_text ps) = Ok (sorted_set (flat_map denote_part ps)).
Proof.
  intros Hne Hok. unfold ctor, render_text.
  destruct ps as [|p0 ps']; [congruence|].
  assert (Forall (fun f => f <> [] /\ ~ In comma f) (map render_part (p0 :: ps'))) as Hf.
  { apply Forall_forall. intros f Hf. apply in_map_iff in Hf. destruct Hf as (p & <- & Hp).
    rewrite Forall_forall in Hok. split; [apply render_part_nonempty|apply render_part_no_comma; auto]. }
  destruct (join [comma] (map render_part (p0 :: ps'))) eqn:J.
  { exfalso. simpl map in J. revert J. apply join_nonempty. apply render_part_nonempty. }
  rewrite <- J. rewrite join_no_double_comma by exact Hf.
  unfold parse_integers. rewrite split_on_join.
  - rewrite parse_parts_render by assumption. reflexivity.
  - discriminate.
  - eapply Forall_impl; [|exact Hf]. intros f [_ H]. exact H.
Qed.

(* C14 expand_spec: exactly the union of the closed intervals, ascending, duplicate-free *)
Lemma expand_spec ps : ps <> [] -> Forall part_ok ps ->
  exists l, ctor (render_text ps) = Ok l /\ asc l /\
            forall x, In x l <-> exists p, In p ps /\ part_lo p <= x <= part_hi p.
Proof.
  intros Hne Hok. eexists. split; [apply ctor_render; assumption|]. split; [apply sorted_set_asc|].
  intros x. rewrite sorted_set_In, in_flat_map. split; intros (p & Hp & Hx); exists p; split; auto;
    unfold denote_part in *; apply zrange_In; exact Hx.
Qed.

Lemma ctor_empty : ctor [] = Ok [].
Proof. reflexivity. Qed.

(* ================================================================== D. accessors, append, remove *)
Lemma copy_members_id st : copy_members st = st.
Proof. unfold copy_members. induction st as [|x r IH]; simpl; [reflexivity|]. f_equal. exact IH. Qed.

Lemma mem_In v st : mem v st = true <-> In v st.
Proof.
  unfold mem. rewrite existsb_exists. split.
  - intros (x & Hx & E). apply Z.eqb_eq in E. subst. exact Hx.
  - intros H. exists v. split; auto. apply Z.eqb_refl.
Qed.

(* a read accessor returns the state unchanged *)
Lemma reader_state st o : is_reader o = true -> fst (step st o) = st.
Proof.
  destruct o; simpl; intros H; try reflexivity; try discriminate.
  - unfold as_list. simpl. apply copy_members_id.
  - unfold as_compressed_str. destruct st as [|x r]; [reflexivity|].
    unfold as_list. cbn [fst]. apply copy_members_id.
Qed.

Lemma final_state_cons st o ops : final_state st (o :: ops) = final_state (fst (step st o)) ops.
Proof. reflexivity. Qed.

(* C14 readers_pure: no sequence of read accessors changes the range *)
Lemma readers_pure ops : forall st, Forall (fun o => is_reader o = true) ops -> final_state st ops = st.
Proof.
  induction ops as [|o r IH]; intros st H; [reflexivity|].
  inversion H as [|? ? Ho Hr]; subst. rewrite final_state_cons, reader_state by assumption. auto.
Qed.

(* every intermediate state of a reader sequence is the initial state, too *)
Lemma readers_trace ops : forall st, Forall (fun o => is_reader o = true) ops ->
  Forall (fun p => fst p = st) (run_ops st ops).
Proof.
  induction ops as [|o r IH]; intros st H; [constructor|].
  inversion H as [|? ? Ho Hr]; subst. simpl. pose proof (reader_state st o Ho) as E.
  destruct (step st o) as [s v]. simpl in E. subst s. constructor; [reflexivity|auto].
Qed.

Lemma filter_length_le {A} (f : A -> bool) l : (length (filter f l) <= length l)%nat.
Proof. induction l as [|x r IH]; simpl; [lia|]. destruct (f x); simpl; lia. Qed.
Lemma filter_length_lt {A} (f : A -> bool) l :
  (length (filter f l) < length l)%nat <-> exists x, In x l /\ f x = false.
Proof.
  induction l as [|x r IH]; simpl.
  - split; [lia|intros (x & [] & _)].
  - pose proof (filter_length_le f r). destruct (f x) eqn:E; simpl.
    + rewrite <- Nat.succ_lt_mono, IH. split.
      * intros (y & Hy & Fy). exists y. auto.
      * intros (y & [<-|Hy] & Fy); [congruence|]. exists y. auto.
    + split; [|lia]. intros _. exists x. auto.
Qed.

(* C14 append_spec: sorted-set insert; raises exactly for a value already present *)
Lemma append_spec v st : asc st ->
  (In v st -> append v st = None) /\
  (~ In v st -> exists st', append v st = Some st' /\ asc st' /\ forall x, In x st' <-> x = v \/ In x st).
Proof.
  intros S. unfold append. split; intros H.
  - apply mem_In in H. rewrite H. reflexivity.
  - destruct (mem v st) eqn:E; [apply mem_In in E; contradiction|].
    eexists. split; [reflexivity|]. split.
    + apply py_sorted_NoDup_asc. eapply Permutation_NoDup; [apply Permutation_cons_append|].
      constructor; auto using asc_NoDup.
    + intros x. rewrite py_sorted_In, in_app_iff. simpl. intuition.
Qed.

(* C14 remove_spec: sorted-set delete; raises exactly for an absent value *)
Lemma remove_spec v st : asc st ->
  (~ In v st -> remove v st = None) /\
  (In v st -> exists st', remove v st = Some st' /\ asc st' /\ forall x, In x st' <-> In x st /\ x <> v).
Proof.
  intros S. unfold remove. split; intros H.
  - destruct st as [|a r]; [reflexivity|].
    destruct (Nat.ltb_spec (length (filter (fun x : Z => negb (Z.eqb x v)) (a :: r))) (length (a :: r))) as [L|L]; [|reflexivity].
    exfalso. apply filter_length_lt in L. destruct L as (x & Hx & Fx).
    apply negb_false_iff, Z.eqb_eq in Fx. subst. contradiction.
  - destruct st as [|a r]; [destruct H|].
    destruct (Nat.ltb_spec (length (filter (fun x : Z => negb (Z.eqb x v)) (a :: r))) (length (a :: r))) as [L|L].
    + eexists. split; [reflexivity|]. split; [apply asc_filter; exact S|].
      intros x. rewrite filter_In, negb_true_iff, Z.eqb_neq. tauto.
    + exfalso. assert (length (filter (fun x : Z => negb (Z.eqb x v)) (a :: r)) < length (a :: r))%nat; [|lia].
      apply filter_length_lt. exists v. split; auto. rewrite Z.eqb_refl. reflexivity.
Qed.

(* every call keeps the data ascending and duplicate-free *)
Lemma step_asc st o : asc st -> asc (fst (step st o)).
Proof.
  intros S. destruct (is_reader o) eqn:R; [rewrite reader_state; assumption|].
  destruct o; try discriminate; simpl.
  - destruct (append v st) as [s|] eqn:E; simpl; [|assumption].
    destruct (append_spec v st S) as [A1 A2].
    destruct (in_dec Z.eq_dec v st) as [I|I]; [rewrite A1 in E by assumption; discriminate|].
    destruct (A2 I) as (s' & E' & S' & _). congruence.
  - destruct (remove v st) as [s|] eqn:E; simpl; [|assumption].
    destruct (remove_spec v st S) as [A1 A2].
    destruct (in_dec Z.eq_dec v st) as [I|I]; [|rewrite A1 in E by assumption; discriminate].
    destruct (A2 I) as (s' & E' & S' & _). congruence.
Qed.

Lemma final_state_asc ops : forall st, asc st -> asc (final_state st ops).
Proof. induction ops as [|o r IH]; intros st S; [assumption|]. rewrite final_state_cons. auto using step_asc. Qed.

Lemma ctor_asc text st : ctor text = Ok st -> asc st.
Proof.
  unfold ctor. destruct text as [|c t]; [intros H; inversion H; constructor|].
  destruct (contains [comma; comma] (c :: t)); [discriminate|].
  unfold parse_integers. destruct (parse_parts (split_on comma (c :: t))) as [l|e]; simpl; [|discriminate].
  intros H. inversion H. apply sorted_set_asc.
Qed.

(* C14 ordered_views_ascending: in every state reachable from ANY text by ANY calls, iteration, as_list and
   (sorted) as_set all return the data itself, which is ascending and duplicate-free *)
Lemma ordered_views text st0 ops : ctor text = Ok st0 ->
  let st := final_state st0 ops in
  asc st /\ snd (step st OIter) = VList st /\ snd (step st OList) = VList st /\ snd (step st OSet) = VList st /\
  snd (step st OLen) = VInt (Z.of_nat (length st)).
Proof.
  intros C st. assert (asc st) as S by (apply final_state_asc; eapply ctor_asc; eauto).
  split; [exact S|]. simpl. unfold as_list. simpl. rewrite copy_members_id, sorted_set_id by assumption. auto.
Qed.

Lemma contains_spec v st : snd (step st (OContains v)) = VBool true <-> In v st.
Proof.
  simpl. rewrite <- mem_In. destruct (mem v st); split; intros H; try reflexivity; try discriminate; inversion H.
Qed.

(* ================================================================== E. compression: tokens *)
Definition run_tokens (r : Z * Z) : list tok :=
  if fst r =? snd r then [TI (fst r)]
  else if snd r =? fst r + 1 then [TI (fst r); TI (snd r)]
  else [TI (fst r); TDash; TI (snd r)].

Definition fin (l : list Z) (d : Z) : list tok := match l with [] => [] | _ => [TI (last l d)] end.
Definition T (a b : Z) (l : list Z) : list tok := flat_map run_tokens (runs_aux a b l).

Lemma T_nil a b : T a b [] = run_tokens (a, b).
Proof. unfold T. simpl. apply app_nil_r. Qed.
Lemma T_cons a b x r : T a b (x :: r) = if x =? b + 1 then T a x r else run_tokens (a, b) ++ T x x r.
Proof. unfold T. simpl. destruct (x =? b + 1); reflexivity. Qed.

Lemma walk_single prev cur ld : walk prev [cur] ld = [].
Proof. reflexivity. Qed.
Lemma walk_cons2 prev cur nxt r ld :
  walk prev (cur :: nxt :: r) ld =
  if (cur - prev =? 1) && (nxt - cur =? 1)
  then (if ld then walk cur (nxt :: r) true else TDash :: walk cur (nxt :: r) true)
  else TI cur :: walk cur (nxt :: r) false.
Proof. reflexivity. Qed.
Lemma fin_cons2 cur nxt r d : fin (cur :: nxt :: r) d = fin (nxt :: r) d.
Proof. reflexivity. Qed.

Lemma run_tokens_single a : run_tokens (a, a) = [TI a].
Proof. unfold run_tokens. simpl. rewrite Z.eqb_refl. reflexivity. Qed.
Lemma run_tokens_pair a : run_tokens (a, a + 1) = [TI a; TI (a + 1)].
Proof.
  unfold run_tokens. simpl. destruct (Z.eqb_spec a (a + 1)); [lia|]. rewrite Z.eqb_refl. reflexivity.
Qed.
Lemma run_tokens_long a b : a + 1 < b -> run_tokens (a, b) = [TI a; TDash; TI b].
Proof.
  intros H. unfold run_tokens. simpl. destruct (Z.eqb_spec a b); [lia|]. destruct (Z.eqb_spec b (a + 1)); [lia|]. reflexivity.
Qed.

Definition P_tokens (l : list Z) : Prop :=
  (forall a d, TI a :: walk a l false ++ fin l d = T a a l) /\
  (forall a b d, a < b -> hd_error l = Some (b + 1) -> TI a :: TDash :: (walk b l true ++ fin l d) = T a b l) /\
  (forall prev d, match l with
                  | [] => True
                  | x :: l' => x <> prev + 1 -> walk prev l false ++ fin l d = T x x l'
                  end).

Lemma tokens_all l : P_tokens l.
Proof.
  induction l as [|cur r (IH1 & IH3 & IH2)].
  - repeat split; auto.
    + intros a d. simpl. rewrite T_nil, run_tokens_single. reflexivity.
    + intros a b d _ H. discriminate.
  - repeat split.
    + (* fresh run starting at a *)
      intros a d. rewrite T_cons. destruct r as [|nxt r'].
      * rewrite walk_single. simpl.
        destruct (Z.eqb_spec cur (a + 1)) as [->|N].
        -- rewrite T_nil, run_tokens_pair. reflexivity.
        -- rewrite T_nil, !run_tokens_single. reflexivity.
      * rewrite walk_cons2, fin_cons2.
        destruct (Z.eqb_spec cur (a + 1)) as [->|N].
        -- destruct (Z.eqb_spec (a + 1 - a) 1) as [_|K]; [|lia]. simpl andb.
           destruct (Z.eqb_spec (nxt - (a + 1)) 1) as [E|E].
           ++ apply IH3; [lia|]. simpl. f_equal. lia.
           ++ rewrite T_cons. destruct (Z.eqb_spec nxt (a + 1 + 1)) as [K|_]; [lia|].
              rewrite run_tokens_pair. simpl. do 2 f_equal.
              specialize (IH2 (a + 1) d). simpl in IH2. apply IH2. lia.
        -- destruct (Z.eqb_spec (cur - a) 1) as [K|_]; [lia|]. simpl andb.
           rewrite run_tokens_single. simpl. f_equal. apply IH1.
    + (* inside a run a..b, "-" already written *)
      intros a b d Hab Hhd. simpl in Hhd. inversion Hhd; subst cur. clear Hhd.
      rewrite T_cons, Z.eqb_refl. destruct r as [|nxt r'].
      * rewrite walk_single. simpl. rewrite T_nil, run_tokens_long by lia. reflexivity.
      * rewrite walk_cons2, fin_cons2.
        destruct (Z.eqb_spec (b + 1 - b) 1) as [_|K]; [|lia]. simpl andb.
        destruct (Z.eqb_spec (nxt - (b + 1)) 1) as [E|E].
        -- apply IH3; [lia|]. simpl. f_equal. lia.
        -- rewrite T_cons. destruct (Z.eqb_spec nxt (b + 1 + 1)) as [K|_]; [lia|].
           rewrite run_tokens_long by lia. simpl. do 3 f_equal.
           specialize (IH2 (b + 1) d). simpl in IH2. apply IH2. lia.
    + (* cur does not continue the previous run *)
      intros prev d N. destruct r as [|nxt r'].
      * rewrite walk_single. simpl. rewrite T_nil, run_tokens_single. reflexivity.
      * rewrite walk_cons2, fin_cons2.
        destruct (Z.eqb_spec (cur - prev) 1) as [K|_]; [lia|]. simpl andb. simpl app. apply IH1.
Qed.

Lemma last_indep {A} (l : list A) d d' : l <> [] -> last l d = last l d'.
Proof.
  induction l as [|x r IH]; intros H; [congruence|].
  destruct r as [|y r']; [reflexivity|]. simpl in *. apply IH. discriminate.
Qed.

(* the loop of as_compressed_str writes the maximal runs: a / a,b / a-b *)
Lemma range_tokens_runs l : range_tokens l = flat_map run_tokens (runs l).
Proof.
  destruct l as [|x0 r]; [reflexivity|].
  destruct (tokens_all r) as (H1 & _ & _). specialize (H1 x0 x0).
  unfold range_tokens, runs. fold (T x0 x0 r). rewrite <- H1. unfold fin. reflexivity.
Qed.

(* ================================================================== E'. compression: the string *)
Definition render_run (r : Z * Z) : str :=
  if fst r =? snd r then render_Z (fst r)
  else if snd r =? fst r + 1 then render_Z (fst r) ++ [comma] ++ render_Z (snd r)
  else render_Z (fst r) ++ [hyphen] ++ render_Z (snd r).

Definition csep (rs : list (Z * Z)) : str := concat (map (fun r => comma :: render_run r) rs).

Lemma join_tokens_runs rs : forall z, join_tokens (TI z) (flat_map run_tokens rs) = csep rs.
Proof.
  induction rs as [|[a b] rs IH]; intros z; [reflexivity|].
  unfold csep. cbn [flat_map map concat]. fold (csep rs).
  unfold run_tokens, render_run. cbn [fst snd].
  destruct (a =? b); [|destruct (b =? a + 1)]; cbn [app join_tokens same_type tok_str]; rewrite IH;
    repeat rewrite <- app_assoc; reflexivity.
Qed.

Lemma tokens_str_runs r0 rs : tokens_str (flat_map run_tokens (r0 :: rs)) = render_run r0 ++ csep rs.
Proof.
  destruct r0 as [a b]. cbn [flat_map]. unfold run_tokens, render_run. cbn [fst snd].
  destruct (a =? b); [|destruct (b =? a + 1)]; cbn [app tokens_str join_tokens same_type tok_str];
    rewrite join_tokens_runs; repeat rewrite <- app_assoc; reflexivity.
Qed.

Lemma join_concat (sep : str) x xs : join sep (x :: xs) = x ++ concat (map (fun y => sep ++ y) xs).
Proof.
  revert x. induction xs as [|y ys IH]; intros x.
  - simpl. rewrite app_nil_r. reflexivity.
  - change (join sep (x :: y :: ys)) with (x ++ sep ++ join sep (y :: ys)). rewrite IH. simpl.
    rewrite <- app_assoc. reflexivity.
Qed.

Lemma csep_join r0 rs : render_run r0 ++ csep rs = join [comma] (map render_run (r0 :: rs)).
Proof. simpl map. rewrite join_concat. unfold csep. rewrite map_map. reflexivity. Qed.

Lemma runs_aux_head l : forall a b, exists b' t, runs_aux a b l = (a, b') :: t.
Proof.
  induction l as [|x r IH]; intros a b; simpl; eauto.
  destruct (x =? b + 1); eauto.
Qed.

(* C14 compress_canonical (the string): comma-join of the renderings a / a,b / a-b of the maximal runs *)
Lemma compress_canonical_str st : asc st ->
  snd (as_compressed_str st) = join [comma] (map render_run (runs st)) /\ fst (as_compressed_str st) = st.
Proof.
  intros S. destruct st as [|x r]; [split; reflexivity|].
  unfold as_compressed_str, as_list. cbn [fst snd]. rewrite copy_members_id. rewrite (sorted_set_id (x :: r) S). rewrite (sorted_set_id (x :: r) S).
  split; [|reflexivity]. rewrite range_tokens_runs. unfold runs.
  destruct (runs_aux_head r x x) as (b' & t & E). rewrite E. rewrite tokens_str_runs. apply csep_join.
Qed.

(* properties of the run decomposition *)
Definition zr (r : Z * Z) : list Z := zrange (fst r) (snd r).

Lemma runs_aux_decode l : forall a b, a <= b -> flat_map zr (runs_aux a b l) = zrange a b ++ l.
Proof.
  induction l as [|x r IH]; intros a b H; simpl.
  - reflexivity.
  - destruct (Z.eqb_spec x (b + 1)) as [->|N].
    + rewrite IH by lia. rewrite zrange_snoc by lia. rewrite <- app_assoc. reflexivity.
    + simpl. unfold zr at 1. simpl. rewrite IH by lia. rewrite zrange_single. reflexivity.
Qed.
Lemma runs_decode l : flat_map zr (runs l) = l.
Proof. destruct l as [|x r]; [reflexivity|]. unfold runs. rewrite runs_aux_decode by lia. rewrite zrange_single. reflexivity. Qed.

(* the run-length encoding used to transport lists in the correspondence is injective *)
Lemma runs_injective l1 l2 : runs l1 = runs l2 -> l1 = l2.
Proof. intros H. rewrite <- (runs_decode l1), <- (runs_decode l2), H. reflexivity. Qed.

Lemma runs_aux_wf l : forall a b, a <= b -> Forall (fun r => fst r <= snd r) (runs_aux a b l).
Proof.
  induction l as [|x r IH]; intros a b H; simpl.
  - constructor; [exact H|constructor].
  - destruct (x =? b + 1) eqn:E.
    + apply Z.eqb_eq in E. apply IH. lia.
    + constructor; [exact H|]. apply IH. lia.
Qed.
Lemma runs_wf l : Forall (fun r => fst r <= snd r) (runs l).
Proof. destruct l as [|x r]; [constructor|]. apply runs_aux_wf. lia. Qed.

(* consecutive runs are separated by a gap: runs are maximal and ascending *)
Fixpoint sep (rs : list (Z * Z)) : Prop :=
  match rs with
  | r1 :: t => match t with r2 :: _ => snd r1 + 1 < fst r2 /\ sep t | [] => True end
  | [] => True
  end.

Lemma runs_aux_sep l : forall a b, asc (b :: l) -> sep (runs_aux a b l).
Proof.
  induction l as [|x r IH]; intros a b S; simpl; [exact I|].
  assert (b < x) as Hbx by (eapply asc_head_lt; [exact S|left; reflexivity]).
  apply asc_tail in S.
  destruct (Z.eqb_spec x (b + 1)) as [->|N].
  - apply IH. exact S.
  - destruct (runs_aux_head r x x) as (b' & t & E). pose proof (IH x x S) as K. rewrite E in *.
    simpl. split; [lia|exact K].
Qed.
Lemma runs_sep l : asc l -> sep (runs l).
Proof. destruct l as [|x r]; [intros; exact I|]. apply runs_aux_sep. Qed.

(* ================================================================== E''. re-expansion *)
Lemma render_Z_nonneg z : 0 <= z -> render_Z z = render_dec (Z.to_N z).
Proof. destruct z; simpl; intros H; try reflexivity. lia. Qed.

Definition run_parts (r : Z * Z) : list part :=
  if fst r =? snd r then [PSingle [] (Z.to_N (fst r)) []]
  else if snd r =? fst r + 1 then [PSingle [] (Z.to_N (fst r)) []; PSingle [] (Z.to_N (snd r)) []]
  else [PRange [] (Z.to_N (fst r)) [] [] (Z.to_N (snd r)) []].

Lemma run_parts_ok r : Forall part_ok (run_parts r).
Proof.
  unfold run_parts. destruct (fst r =? snd r); [|destruct (snd r =? fst r + 1)]; repeat constructor.
Qed.
Lemma run_parts_nonempty r : run_parts r <> [].
Proof. unfold run_parts. destruct (fst r =? snd r); [|destruct (snd r =? fst r + 1)]; discriminate. Qed.

Lemma run_parts_render r : 0 <= fst r -> fst r <= snd r ->
  render_run r = join [comma] (map render_part (run_parts r)) /\ flat_map denote_part (run_parts r) = zr r.
Proof.
  destruct r as [a b]. cbn [fst snd]. intros H0 H1. unfold render_run, run_parts, zr. cbn [fst snd].
  rewrite !render_Z_nonneg by lia.
  destruct (Z.eqb_spec a b) as [->|N]; [|destruct (Z.eqb_spec b (a + 1)) as [->|N2]].
  - simpl. unfold denote_part. simpl. rewrite !app_nil_r, Z2N.id by lia. split; reflexivity.
  - simpl. unfold denote_part. simpl. rewrite !app_nil_r, !Z2N.id by lia. split; [reflexivity|].
    rewrite !zrange_single. rewrite (zrange_cons a (a + 1)) by lia. rewrite zrange_single. reflexivity.
  - simpl. unfold denote_part. simpl. rewrite !app_nil_r, !Z2N.id by lia. split; reflexivity.
Qed.

Lemma join_app (sp : str) (a b : list str) : a <> [] -> b <> [] -> join sp (a ++ b) = join sp a ++ sp ++ join sp b.
Proof.
  intros Ha Hb. induction a as [|x a' IH]; [congruence|].
  destruct a' as [|y a''].
  - simpl. destruct b; [congruence|reflexivity].
  - change (join sp ((x :: y :: a'') ++ b)) with (x ++ sp ++ join sp ((y :: a'') ++ b)).
    rewrite IH by discriminate. change (join sp (x :: y :: a'')) with (x ++ sp ++ join sp (y :: a'')).
    repeat rewrite <- app_assoc. reflexivity.
Qed.

Lemma runs_text rs : rs <> [] -> Forall (fun r => 0 <= fst r /\ fst r <= snd r) rs ->
  join [comma] (map render_run rs) = render_text (flat_map run_parts rs) /\
  flat_map denote_part (flat_map run_parts rs) = flat_map zr rs.
Proof.
  intros Hne H. induction H as [|r t [H0 H1] Ht IH]; [congruence|].
  destruct (run_parts_render r H0 H1) as [R1 R2].
  destruct t as [|r2 t'].
  - simpl. rewrite !app_nil_r. split; [exact R1|exact R2].
  - destruct IH as [I1 I2]; [discriminate|].
    cbn [flat_map]. rewrite flat_map_app. split.
    + unfold render_text in *. rewrite map_app. rewrite join_app.
      * change (map render_run (r :: r2 :: t')) with (render_run r :: map render_run (r2 :: t')).
        change (join [comma] (render_run r :: map render_run (r2 :: t')))
          with (render_run r ++ [comma] ++ join [comma] (map render_run (r2 :: t'))).
        rewrite I1, R1. reflexivity.
      * intros E. apply map_eq_nil in E. exact (run_parts_nonempty r E).
      * intros E. apply map_eq_nil in E. cbn [flat_map] in E. apply app_eq_nil in E. destruct E as [E _].
        exact (run_parts_nonempty r2 E).
    + rewrite R2. cbn [flat_map] in I2. rewrite I2. reflexivity.
Qed.

Lemma runs_nonneg l : Forall (fun x => 0 <= x) l -> Forall (fun r => 0 <= fst r /\ fst r <= snd r) (runs l).
Proof.
  intros H. pose proof (runs_wf l) as W. pose proof (runs_decode l) as D.
  apply Forall_forall. intros r Hr. rewrite Forall_forall in W. specialize (W r Hr). split; [|exact W].
  rewrite Forall_forall in H. apply H. rewrite <- D. apply in_flat_map. exists r. split; [exact Hr|].
  unfold zr. apply zrange_In. lia.
Qed.

(* C14 compress_expand: the constructor re-expands the compressed string to the same list *)
Lemma compress_expand st : asc st -> Forall (fun x => 0 <= x) st ->
  ctor (snd (as_compressed_str st)) = Ok st.
Proof.
  intros S H. destruct (compress_canonical_str st S) as [C _]. rewrite C.
  destruct st as [|x r]; [reflexivity|].
  assert (runs (x :: r) <> []) as Hne.
  { unfold runs. destruct (runs_aux_head r x x) as (b' & t & E). rewrite E. discriminate. }
  destruct (runs_text (runs (x :: r)) Hne (runs_nonneg _ H)) as [R1 R2].
  rewrite R1. rewrite ctor_render.
  - rewrite R2, runs_decode, sorted_set_id by assumption. reflexivity.
  - destruct (runs (x :: r)) as [|r0 t]; [congruence|]. cbn [flat_map]. intros E. apply app_eq_nil in E.
    destruct E as [E _]. exact (run_parts_nonempty r0 E).
  - apply Forall_forall. intros p Hp. apply in_flat_map in Hp. destruct Hp as (r0 & _ & Hp).
    pose proof (run_parts_ok r0) as K. rewrite Forall_forall in K. auto.
Qed.

(* non-vacuity examples *)
Example ex_parts : ctor (render_text [PRange [32%N] 9 [] [9%N] 11 []; PSingle [] 5 [32%N; 32%N]; PRange [] 1 [] [] 3 []; PSingle [] 10 []])
                   = Ok [1; 2; 3; 5; 9; 10; 11].
Proof. vm_compute. reflexivity. Qed.
Example ex_text : render_text [PRange [32%N] 9 [] [9%N] 11 []; PSingle [] 5 [32%N; 32%N]]
                  = [32; 57; 45; 9; 49; 49; 44; 53; 32; 32]%N.
Proof. vm_compute. reflexivity. Qed.
Example ex_compress : snd (as_compressed_str [1; 2; 3; 5; 9; 10; 11; 13; 14]) = [49;45;51;44;53;44;57;45;49;49;44;49;51;44;49;52]%N.
Proof. vm_compute. reflexivity. Qed.   (* "1-3,5,9-11,13,14" *)
Example ex_runs : runs [1; 2; 3; 5; 9; 10; 11; 13; 14] = [(1, 3); (5, 5); (9, 11); (13, 14)].
Proof. vm_compute. reflexivity. Qed.
Example ex_append : append 4 [1; 2; 3; 5] = Some [1; 2; 3; 4; 5] /\ append 3 [1; 2; 3; 5] = None.
Proof. vm_compute. auto. Qed.
Example ex_remove : remove 2 [1; 2; 3; 5] = Some [1; 3; 5] /\ remove 4 [1; 2; 3; 5] = None /\ remove 4 [] = None.
Proof. vm_compute. auto. Qed.
Example ex_readers : final_state [1; 2; 3; 5] [OStr; OList; OSet; OIter; OLen; OContains 2] = [1; 2; 3; 5].
Proof. vm_compute. reflexivity. Qed.
