(* C18: the grep loops of Model/Grep.v are order-preserving filters.  All statements quantify over
   arbitrary word lists, subnet lists and oracle answers. *)
From Coq Require Import ZArith NArith List Bool Lia.
Require Import CCP.Lib.PyStr CCP.Lib.Res CCP.Model.IPRef CCP.Model.Grep CCP.Proofs.IPProofs.
Import ListNotations.

(* ------------------------------------------------------------------ specification vocabulary *)
(* the word is printed: some requested subnet contains it and no exclusion applies *)
Definition keep (o : opts) (subs : list subnet) (w : word) : bool :=
  match first_match subs w with Some (f, p) => negb (excluded o f p) | None => false end.
(* what is printed for it *)
Definition rend (o : opts) (subs : list subnet) (w : word) : str :=
  match first_match subs w with Some (_, p) => render o p | None => [] end.
Definition word_out (o : opts) (subs : list subnet) (w : word) : list str :=
  if keep o subs w then [rend o subs w] else [].

(* --unique: later duplicates removed, first occurrences keep their place *)
Definition uniq_step (acc : list str) (x : str) : list str := if mem_str x acc then acc else acc ++ [x].
Definition uniq (l : list str) : list str := fold_left uniq_step l [].

Definition set_unique (b : bool) (o : opts) : opts :=
  mk_opts b (o_line o) (o_cidr o) (o_nets o) (o_exhosts o) (o_exnets o).

Lemma mem_str_In x l : mem_str x l = true <-> In x l.
Proof.
  unfold mem_str. rewrite existsb_exists. split.
  - intros [y [Hy E]]. apply str_eqb_eq in E. subst. assumption.
  - intros H. exists x. split; [assumption|apply str_eqb_refl].
Qed.

(* ------------------------------------------------------------------ first_match *)
Lemma first_match_some subs w f p :
  first_match subs w = Some (f, p) ->
  parse_for f w = Some p /\
  exists s, In s subs /\ s_fam s = f /\ contains_ref (famW f) (s_obj s) (p_obj p) = true.
Proof.
  induction subs as [|s r IH]; simpl; [discriminate|].
  unfold matches. destruct (parse_for (s_fam s) w) as [q|] eqn:Ep.
  - destruct (contains_ref (famW (s_fam s)) (s_obj s) (p_obj q)) eqn:Ec.
    + intros H. inversion H; subst. split; [assumption|]. exists s. auto.
    + intros H. destruct (IH H) as [H1 [s' [Hin [Hf Hc]]]]. split; [assumption|]. exists s'. auto.
  - intros H. destruct (IH H) as [H1 [s' [Hin [Hf Hc]]]]. split; [assumption|]. exists s'. auto.
Qed.

Lemma first_match_none subs w :
  first_match subs w = None <-> forall s, In s subs -> matches s w = None.
Proof.
  induction subs as [|s r IH]; simpl.
  - split; [intros _ s []|reflexivity].
  - destruct (matches s w) as [p|] eqn:Em.
    + split; [discriminate|]. intros H. specialize (H s (or_introl eq_refl)). congruence.
    + rewrite IH. split.
      * intros H s' [<-|Hin]; auto.
      * intros H s' Hin. apply H. auto.
Qed.

Lemma first_match_exists subs w :
  (exists fp, first_match subs w = Some fp) <-> existsb (fun s => match matches s w with Some _ => true | None => false end) subs = true.
Proof.
  rewrite existsb_exists. split.
  - intros [[f p] H]. destruct (first_match_some _ _ _ _ H) as [Hp [s [Hin [Hf Hc]]]].
    exists s. split; [assumption|]. unfold matches. rewrite Hf, Hp, Hc. reflexivity.
  - intros [s [Hin Hm]]. destruct (first_match subs w) as [fp|] eqn:E; [eauto|].
    rewrite first_match_none in E. rewrite (E s Hin) in Hm. discriminate.
Qed.

(* a word that parses in one family only: the parse result does not depend on which subnet matched,
   hence not on the iteration order of the subnet set nor on duplicates in it *)
Definition single_family (w : word) : Prop := w_p4 w = None \/ w_p6 w = None.

Lemma single_family_parse w f g p q :
  single_family w -> parse_for f w = Some p -> parse_for g w = Some q -> f = g /\ p = q.
Proof.
  intros [H|H] Hp Hq; destruct f, g; simpl in *; try congruence; split; congruence.
Qed.

Lemma first_match_order_indep subs subs' w :
  single_family w -> (forall s, In s subs <-> In s subs') ->
  first_match subs w = first_match subs' w.
Proof.
  intros Hs Hsame.
  destruct (first_match subs w) as [[f p]|] eqn:E1; destruct (first_match subs' w) as [[g q]|] eqn:E2; try reflexivity.
  - destruct (first_match_some _ _ _ _ E1) as [Hp _]. destruct (first_match_some _ _ _ _ E2) as [Hq _].
    destruct (single_family_parse _ _ _ _ _ Hs Hp Hq) as [-> ->]. reflexivity.
  - exfalso. destruct (first_match_some _ _ _ _ E1) as [Hp [s [Hin [Hf Hc]]]].
    rewrite first_match_none in E2. specialize (E2 s (proj1 (Hsame s) Hin)).
    unfold matches in E2. rewrite Hf, Hp, Hc in E2. discriminate.
  - exfalso. destruct (first_match_some _ _ _ _ E2) as [Hp [s [Hin [Hf Hc]]]].
    rewrite first_match_none in E1. specialize (E1 s (proj2 (Hsame s) Hin)).
    unfold matches in E1. rewrite Hf, Hp, Hc in E1. discriminate.
Qed.

(* ------------------------------------------------------------------ word mode *)
Lemma fold_app_nonunique o subs ws acc :
  o_unique o = false ->
  fold_left (word_step o subs) ws acc = acc ++ flat_map (word_out o subs) ws.
Proof.
  intros Hu. revert acc. induction ws as [|w r IH]; intros acc; simpl.
  - rewrite app_nil_r. reflexivity.
  - rewrite IH. unfold word_step, word_out, keep, rend. rewrite Hu.
    destruct (first_match subs w) as [[f p]|]; simpl.
    + destruct (excluded o f p); simpl; [reflexivity|]. rewrite <- app_assoc. reflexivity.
    + reflexivity.
Qed.

Lemma ipgrep_words_flat o subs ws :
  o_unique o = false -> ipgrep_words o subs ws = flat_map (word_out o subs) ws.
Proof. intros Hu. unfold ipgrep_words. rewrite fold_app_nonunique by assumption. reflexivity. Qed.

Lemma flat_map_filter o subs ws :
  flat_map (word_out o subs) ws = map (rend o subs) (filter (keep o subs) ws).
Proof.
  induction ws as [|w r IH]; simpl; [reflexivity|].
  unfold word_out at 1. destruct (keep o subs w); simpl; rewrite IH; reflexivity.
Qed.

(* ipgrep_filter: without --unique the output is the order-preserving filter, once per occurrence *)
Lemma ipgrep_filter o subs ws :
  o_unique o = false ->
  ipgrep_words o subs ws = map (rend o subs) (filter (keep o subs) ws).
Proof. intros Hu. rewrite ipgrep_words_flat by assumption. apply flat_map_filter. Qed.

(* what `keep` means: a requested subnet of the word's family contains the parsed value *)
Lemma keep_spec o subs w :
  keep o subs w = true <->
  exists f p, first_match subs w = Some (f, p) /\ excluded o f p = false /\ parse_for f w = Some p /\
              exists s, In s subs /\ s_fam s = f /\ contains_ref (famW f) (s_obj s) (p_obj p) = true.
Proof.
  unfold keep. split.
  - destruct (first_match subs w) as [[f p]|] eqn:E; [|discriminate]. intros H.
    exists f, p. destruct (first_match_some _ _ _ _ E) as [Hp Hs]. repeat split; auto.
    destruct (excluded o f p); [discriminate|reflexivity].
  - intros [f [p [E [Hx _]]]]. rewrite E, Hx. reflexivity.
Qed.

Lemma famW_pos f : (0 < famW f)%Z.
Proof. destruct f; simpl; lia. Qed.

(* ... which, for well-formed values, is exactly prefix containment (C12) *)
Lemma keep_subnet_spec o subs w :
  keep o subs w = true ->
  exists f p s, parse_for f w = Some p /\ In s subs /\ s_fam s = f /\
    (wf (famW f) (s_obj s) -> wf (famW f) (p_obj p) -> subnet_spec (famW f) (s_obj s) (p_obj p)).
Proof.
  intros H. apply keep_spec in H. destruct H as [f [p [_ [_ [Hp [s [Hin [Hf Hc]]]]]]]].
  exists f, p, s. split; [assumption|]. split; [assumption|]. split; [assumption|]. intros W1 W2.
  apply (proj1 (contains_iff (famW f) _ _ W1 W2)). exact Hc.
Qed.

Lemma keep_false_no_subnet o subs w f p :
  parse_for f w = Some p -> (forall g q, parse_for g w = Some q -> excluded o g q = false) ->
  keep o subs w = false ->
  forall s, In s subs -> s_fam s = f -> contains_ref (famW f) (s_obj s) (p_obj p) = false.
Proof.
  intros Hp Hx Hk s Hin Hf. unfold keep in Hk.
  destruct (first_match subs w) as [[g q]|] eqn:E.
  - destruct (first_match_some _ _ _ _ E) as [Hq _]. rewrite (Hx g q Hq) in Hk. discriminate.
  - rewrite first_match_none in E. specialize (E s Hin). unfold matches in E. rewrite Hf, Hp in E.
    destruct (contains_ref (famW f) (s_obj s) (p_obj p)); [discriminate|reflexivity].
Qed.

(* unique mode *)
Lemma fold_unique o subs ws acc :
  o_unique o = true ->
  fold_left (word_step o subs) ws acc = fold_left uniq_step (flat_map (word_out o subs) ws) acc.
Proof.
  intros Hu. revert acc. induction ws as [|w r IH]; intros acc; simpl; [reflexivity|].
  rewrite fold_left_app, <- IH. f_equal.
  unfold word_step, word_out, keep, rend. rewrite Hu.
  destruct (first_match subs w) as [[f p]|]; simpl; [|reflexivity].
  destruct (excluded o f p); simpl.
  - destruct (mem_str (render o p) acc); reflexivity.
  - unfold uniq_step. reflexivity.
Qed.

Lemma word_out_unique_irrelevant o subs w b : word_out (set_unique b o) subs w = word_out o subs w.
Proof. reflexivity. Qed.

(* ipgrep_unique: with --unique the output is the non-unique output with later duplicates removed *)
Lemma ipgrep_unique o subs ws :
  o_unique o = true ->
  ipgrep_words o subs ws = uniq (ipgrep_words (set_unique false o) subs ws).
Proof.
  intros Hu. unfold ipgrep_words at 1. rewrite fold_unique by assumption.
  rewrite ipgrep_words_flat by reflexivity. reflexivity.
Qed.

Lemma NoDup_snoc {A} (l : list A) x : NoDup l -> ~ In x l -> NoDup (l ++ [x]).
Proof.
  induction l as [|a r IH]; simpl; intros Hnd Hn.
  - constructor; [intros []|constructor].
  - inversion Hnd as [|a' r' Ha Hr]; subst. constructor.
    + rewrite in_app_iff. intros [H|[H|[]]]; [contradiction|]. subst. apply Hn. left. reflexivity.
    + apply IH; [assumption|]. intros H. apply Hn. right. assumption.
Qed.

(* uniq: no duplicates, same members, first occurrences in order *)
Lemma uniq_fold_spec l : forall acc, NoDup acc ->
  NoDup (fold_left uniq_step l acc) /\
  (forall x, In x (fold_left uniq_step l acc) <-> In x acc \/ In x l) /\
  exists t, fold_left uniq_step l acc = acc ++ t.
Proof.
  induction l as [|x r IH]; intros acc Hnd; simpl.
  - split; [assumption|]. split; [intros; tauto|]. exists []. rewrite app_nil_r. reflexivity.
  - unfold uniq_step at 2 4 6. destruct (mem_str x acc) eqn:Em.
    + apply mem_str_In in Em. destruct (IH acc Hnd) as [H1 [H2 [t H3]]]. split; [assumption|]. split.
      * intros y. rewrite H2. split; [tauto|]. intros [H|[<-|H]]; auto.
      * exists t. assumption.
    + assert (Hn : ~ In x acc) by (intros H; apply mem_str_In in H; congruence).
      assert (Hnd' : NoDup (acc ++ [x])) by (apply NoDup_snoc; assumption).
      destruct (IH (acc ++ [x]) Hnd') as [H1 [H2 [t H3]]]. split; [assumption|]. split.
      * intros y. rewrite H2, in_app_iff. simpl. tauto.
      * exists (x :: t). rewrite H3, <- app_assoc. reflexivity.
Qed.

Lemma uniq_nodup l : NoDup (uniq l).
Proof. unfold uniq. apply (uniq_fold_spec l [] (NoDup_nil _)). Qed.
Lemma uniq_in l x : In x (uniq l) <-> In x l.
Proof. unfold uniq. destruct (uniq_fold_spec l [] (NoDup_nil _)) as [_ [H _]]. rewrite H. simpl. tauto. Qed.

(* position: uniq (a ++ x :: b) lists x right after uniq a when x is new there *)
Lemma uniq_app a b : uniq (a ++ b) = fold_left uniq_step b (uniq a).
Proof. unfold uniq. apply fold_left_app. Qed.

Lemma uniq_first_occurrence a x : ~ In x a -> forall b, exists t, uniq (a ++ x :: b) = uniq a ++ x :: t.
Proof.
  intros Hn b. rewrite uniq_app. simpl.
  assert (E : uniq_step (uniq a) x = uniq a ++ [x]).
  { unfold uniq_step. destruct (mem_str x (uniq a)) eqn:Em; [|reflexivity].
    apply mem_str_In in Em. apply (proj1 (uniq_in a x)) in Em. contradiction. }
  rewrite E.
  destruct (uniq_fold_spec b (uniq a ++ [x])) as [_ [_ [t Ht]]].
  { apply NoDup_snoc; [apply uniq_nodup|]. intros H. apply (proj1 (uniq_in a x)) in H. contradiction. }
  exists t. rewrite Ht, <- app_assoc. reflexivity.
Qed.

(* ------------------------------------------------------------------ line mode *)
Inductive ev := Skip | Good | Bad.
Definition ev_of (o : opts) (w : word) (s : subnet) : ev :=
  match matches s w with
  | None => Skip
  | Some p => if excluded o (s_fam s) p then Bad else Good
  end.
Definition ev_step (st : bool * bool) (e : ev) : bool * bool :=
  match e with
  | Skip => st
  | Good => if snd st then st else (true, false)
  | Bad => if snd st then st else (false, true)
  end.

Lemma pair_step_ev o w st s : pair_step o w st s = ev_step st (ev_of o w s).
Proof.
  unfold pair_step, ev_of, matches, excluded. destruct st as [a e].
  destruct (parse_for (s_fam s) w) as [p|]; simpl; [|reflexivity].
  destruct (contains_ref (famW (s_fam s)) (s_obj s) (p_obj p)); simpl.
  - destruct e; simpl.
    + destruct (net_excl o (s_fam s) p || host_excl o (s_fam s) p); reflexivity.
    + destruct (net_excl o (s_fam s) p); simpl; [reflexivity|]. destruct (host_excl o (s_fam s) p); reflexivity.
  - destruct e; reflexivity.
Qed.

Definition is_good e := match e with Good => true | _ => false end.
Definition is_bad e := match e with Bad => true | _ => false end.

Lemma ev_fold_excluded evs a : fold_left ev_step evs (a, true) = (a, true).
Proof. induction evs as [|e r IH]; simpl; [reflexivity|]. destruct e; simpl; apply IH. Qed.

Lemma ev_fold evs : forall a,
  fold_left ev_step evs (a, false) =
  if existsb is_bad evs then (false, true) else (a || existsb is_good evs, false).
Proof.
  induction evs as [|e r IH]; intros a; simpl.
  - rewrite orb_false_r. reflexivity.
  - destruct e; simpl.
    + apply IH.
    + rewrite IH. destruct (existsb is_bad r); [reflexivity|]. rewrite orb_true_r. reflexivity.
    + apply ev_fold_excluded.
Qed.

Definition line_events (o : opts) (subs : list subnet) (ws : list word) : list ev :=
  flat_map (fun w => map (ev_of o w) subs) ws.

Lemma inner_fold o w subs : forall st,
  fold_left (pair_step o w) subs st = fold_left ev_step (map (ev_of o w) subs) st.
Proof.
  induction subs as [|s r IH]; intros st; simpl; [reflexivity|]. rewrite pair_step_ev. apply IH.
Qed.

Lemma line_state_events o subs ws : forall st,
  fold_left (fun st w => fold_left (pair_step o w) subs st) ws st = fold_left ev_step (line_events o subs ws) st.
Proof.
  induction ws as [|w r IH]; intros st; simpl; [reflexivity|].
  unfold line_events in *. simpl. rewrite fold_left_app, <- inner_fold. apply IH.
Qed.

(* a line is printed iff some word lies in a requested subnet un-excluded and no word lies in one excluded *)
Definition line_kept (o : opts) (subs : list subnet) (ws : list word) : bool :=
  existsb is_good (line_events o subs ws) && negb (existsb is_bad (line_events o subs ws)).

Lemma line_state_kept o subs ws : fst (line_state o subs ws) = line_kept o subs ws.
Proof.
  unfold line_state, line_kept. rewrite line_state_events, ev_fold.
  destruct (existsb is_bad (line_events o subs ws)); simpl; [rewrite andb_false_r; reflexivity|].
  rewrite andb_true_r. reflexivity.
Qed.

Lemma filter_ext_in' {A} (f g : A -> bool) l : (forall x, f x = g x) -> filter f l = filter g l.
Proof. intros H. induction l as [|x r IH]; simpl; [reflexivity|]. rewrite H, IH. reflexivity. Qed.

Lemma ipgrep_line_mode o subs ls :
  ipgrep_lines o subs ls = map l_text (filter (fun l => line_kept o subs (l_words l)) ls).
Proof.
  unfold ipgrep_lines. f_equal. apply filter_ext_in'. intros l. apply line_state_kept.
Qed.

Lemma line_events_in o subs ws e :
  In e (line_events o subs ws) <-> exists w s, In w ws /\ In s subs /\ ev_of o w s = e.
Proof.
  unfold line_events. rewrite in_flat_map. split.
  - intros [w [Hw H]]. apply in_map_iff in H. destruct H as [s [He Hs]]. eauto.
  - intros [w [s [Hw [Hs He]]]]. exists w. split; [assumption|]. apply in_map_iff. eauto.
Qed.

Lemma line_kept_spec o subs ws :
  line_kept o subs ws = true <->
  (exists w s p, In w ws /\ In s subs /\ matches s w = Some p /\ excluded o (s_fam s) p = false) /\
  (forall w s p, In w ws -> In s subs -> matches s w = Some p -> excluded o (s_fam s) p = false).
Proof.
  unfold line_kept. rewrite andb_true_iff, negb_true_iff. split.
  - intros [Hg Hb]. split.
    + apply existsb_exists in Hg. destruct Hg as [e [Hin He]]. destruct e; try discriminate.
      apply line_events_in in Hin. destruct Hin as [w [s [Hw [Hs Hev]]]].
      unfold ev_of in Hev. destruct (matches s w) as [p|] eqn:Em; [|discriminate].
      destruct (excluded o (s_fam s) p) eqn:Ex; [discriminate|]. exists w, s, p. auto.
    + intros w s p Hw Hs Hm. destruct (excluded o (s_fam s) p) eqn:Ex; [|reflexivity].
      exfalso. assert (Hin : In Bad (line_events o subs ws)).
      { apply line_events_in. exists w, s. repeat split; auto. unfold ev_of. rewrite Hm, Ex. reflexivity. }
      assert (existsb is_bad (line_events o subs ws) = true) by (apply existsb_exists; exists Bad; auto).
      congruence.
  - intros [[w [s [p [Hw [Hs [Hm Hx]]]]]] Hall]. split.
    + apply existsb_exists. exists Good. split; [|reflexivity]. apply line_events_in. exists w, s.
      repeat split; auto. unfold ev_of. rewrite Hm, Hx. reflexivity.
    + destruct (existsb is_bad (line_events o subs ws)) eqn:E; [|reflexivity]. exfalso.
      apply existsb_exists in E. destruct E as [e [Hin He]]. destruct e; try discriminate.
      apply line_events_in in Hin. destruct Hin as [w' [s' [Hw' [Hs' Hev]]]].
      unfold ev_of in Hev. destruct (matches s' w') as [p'|] eqn:Em; [|discriminate].
      rewrite (Hall w' s' p' Hw' Hs' Em) in Hev. discriminate.
Qed.

(* ------------------------------------------------------------------ the command as a whole *)
Lemma ipgrep_words_cli o sarg v4 v6 subs ws :
  effective_subnets sarg v4 v6 = Some subs -> o_line o = false ->
  ipgrep o sarg v4 v6 (In_words ws) = Some (ipgrep_words (norm_opts o) subs ws).
Proof. intros He Hl. unfold ipgrep. rewrite He. simpl. rewrite Hl. reflexivity. Qed.

Lemma ipgrep_lines_cli o sarg v4 v6 subs ls :
  effective_subnets sarg v4 v6 = Some subs -> o_line o = true -> o_unique o = false -> o_cidr o = false -> o_nets o = false ->
  ipgrep o sarg v4 v6 (In_lines ls) = Some (ipgrep_lines (norm_opts o) subs ls).
Proof. intros He Hl Hu Hc Hn. unfold ipgrep. rewrite He. simpl. rewrite Hl, Hu, Hc, Hn. reflexivity. Qed.

(* ------------------------------------------------------------------ macgrep *)
Lemma mac_fold_nonunique ws : forall acc,
  fold_left (mword_step false) ws acc = acc ++ map m_text (filter mac_match ws).
Proof.
  induction ws as [|w r IH]; intros acc; simpl; [rewrite app_nil_r; reflexivity|].
  rewrite IH. unfold mword_step. destruct (mac_match w); simpl; [rewrite <- app_assoc|]; reflexivity.
Qed.

Lemma macgrep_filter ws : macgrep_words false ws = map m_text (filter mac_match ws).
Proof. unfold macgrep_words. rewrite mac_fold_nonunique. reflexivity. Qed.

Lemma mac_fold_unique ws : forall acc,
  fold_left (mword_step true) ws acc = fold_left uniq_step (map m_text (filter mac_match ws)) acc.
Proof.
  induction ws as [|w r IH]; intros acc; simpl; [reflexivity|].
  unfold mword_step at 2. destruct (mac_match w); simpl; rewrite IH; reflexivity.
Qed.

Lemma macgrep_unique ws : macgrep_words true ws = uniq (macgrep_words false ws).
Proof. unfold macgrep_words at 1. rewrite mac_fold_unique, macgrep_filter. reflexivity. Qed.

Lemma mline_hit_exists ws : mline_hit ws = existsb mac_match ws.
Proof.
  unfold mline_hit.
  assert (H : forall b, fst (fold_left (fun (st : bool * unit) w => if fst st then st else (mac_match w, tt)) ws (b, tt)) = b || existsb mac_match ws).
  { induction ws as [|w r IH]; intros b; simpl; [rewrite orb_false_r; reflexivity|].
    destruct b; simpl; [apply (IH true)|]. rewrite IH. reflexivity. }
  apply (H false).
Qed.

Lemma macgrep_line_mode ls :
  macgrep_lines ls = map ml_text (filter (fun l => existsb mac_match (ml_words l)) ls).
Proof. unfold macgrep_lines. f_equal. apply filter_ext_in'. intros l. apply mline_hit_exists. Qed.

Lemma mac_match_spec w :
  mac_match w = true <-> m_valid w = true /\ exists h, In h (m_hits w) /\ hit4 h = true.
Proof. unfold mac_match. rewrite andb_true_iff, existsb_exists. tauto. Qed.

(* ------------------------------------------------------------------ non-vacuity *)
Local Open Scope N_scope.
Definition ex_p1 := mk_parsed (Build_ipo 167837953%Z 32%Z) [49] [49; 47] [49; 47; 110].     (* 10.1.1.1/32 *)
Definition ex_p2 := mk_parsed (Build_ipo 167838029%Z 24%Z) [50] [50; 47] [50; 47; 110].     (* 10.1.1.77/24 *)
Definition ex_p3 := mk_parsed (Build_ipo 184549376%Z 32%Z) [51] [51; 47] [51; 47; 110].     (* 11.0.0.0/32 *)
Definition ex_words := [mk_word (Some ex_p1) None; mk_word None None; mk_word (Some ex_p3) None;
                        mk_word (Some ex_p2) None; mk_word (Some ex_p1) None].
Definition ex_subs := [mk_subnet F4 (Build_ipo 167837952%Z 24%Z); mk_subnet F4 (Build_ipo 167772160%Z 8%Z)].  (* 10.1.1.0/24, 10.0.0.0/8 *)
Definition ex_o u := mk_opts u false false false false false.
Example ex_filter : ipgrep_words (ex_o false) ex_subs ex_words = [[49]; [50]; [49]].
Proof. vm_compute. reflexivity. Qed.
Example ex_unique : ipgrep_words (ex_o true) ex_subs ex_words = [[49]; [50]].
Proof. vm_compute. reflexivity. Qed.
Example ex_lines : ipgrep_lines (mk_opts false true false false true false) ex_subs
                     [mk_line [97] [mk_word (Some ex_p2) None]; mk_line [98] [mk_word (Some ex_p3) None];
                      mk_line [99] [mk_word (Some (mk_parsed (Build_ipo 167837952%Z 24%Z) [] [120] [120])) None];
                      mk_line [100] [mk_word (Some (mk_parsed (Build_ipo 167837952%Z 24%Z) [] [120] [120])) None; mk_word (Some ex_p1) None]] = [[99]].
Proof. vm_compute. reflexivity. Qed.
Example ex_mac : macgrep_words true [mk_mword [97] true [(false, true, false, false)]; mk_mword [98] false [(true, true, true, true)];
                                     mk_mword [97] true [(false, true, false, false)]; mk_mword [99] true [(false, false, false, false)]] = [[97]].
Proof. vm_compute. reflexivity. Qed.
