(* Theorems about the reference address model, for any width W > 0. *)
From Coq Require Import ZArith Lia Bool List.
Require Import CCP.Lib.Res CCP.Lib.Pow2 CCP.Model.IPRef.
Import ListNotations.
Open Scope Z_scope.

Section Fam.
Variable W : Z.
Hypothesis HW : 0 < W.
Notation wf := (wf W). Notation blk := (blk W). Notation netw := (netw W).
Notation lastaddr := (lastaddr W). Notation contains_ref := (contains_ref W).

Lemma blk_pos o : wf o -> 0 < blk o.
Proof. intros [_ H]. unfold IPRef.blk. apply Z.pow_pos_nonneg; lia. Qed.

Lemma blk_split y x : wf y -> wf x -> plen y <= plen x ->
  blk y = blk x * 2 ^ (plen x - plen y) /\ 0 < 2 ^ (plen x - plen y).
Proof.
  intros [_ Hy] [_ Hx] Hle. unfold IPRef.blk. split.
  - rewrite <- Z.pow_add_r by lia. f_equal. lia.
  - apply Z.pow_pos_nonneg; lia.
Qed.

Theorem contains_iff y x : wf y -> wf x ->
  contains_ref y x = true <-> subnet_spec W y x.
Proof.
  intros Wy Wx. unfold IPRef.contains_ref, subnet_spec.
  destruct (plen y =? 0) eqn:E0.
  - apply Z.eqb_eq in E0. split; [intros _|reflexivity].
    split; [destruct Wx as [_ ?]; lia|].
    destruct Wy as [Hay Hpy], Wx as [Hax Hpx].
    unfold IPRef.blk; rewrite E0, Z.sub_0_r. rewrite !Z.div_small by lia. reflexivity.
  - destruct (plen y >? plen x) eqn:Egt.
    + apply Z.gtb_lt in Egt. split; [discriminate|]. intros [H _]; lia.
    + assert (Hle : plen y <= plen x) by (pose proof (Zgt_cases (plen y) (plen x)) as Hc; rewrite Egt in Hc; lia).
      destruct (blk_split y x Wy Wx Hle) as [Hs Hc].
      pose proof (blk_pos x Wx) as Hbx.
      pose proof (contains_core (addr y) (addr x) (blk y) (blk x) _ Hbx Hc Hs) as Core.
      unfold last in Core. fold (netw y) (netw x) in Core.
      unfold IPRef.lastaddr.
      rewrite !andb_true_iff, Z.leb_le, Z.geb_le, Z.leb_le.
      split.
      * intros [[A B] C]. split; [exact C|]. apply Core. split; lia.
      * intros [C D]. apply Core in D. destruct D as [A B]. repeat split; lia.
Qed.

(* the same statement in the words of the property: every address of x's network lies in y's network *)
Theorem contains_iff_range y x : wf y -> wf x ->
  contains_ref y x = true <->
  (forall a, netw x <= a <= lastaddr x -> netw y <= a <= lastaddr y).
Proof.
  intros Wy Wx. rewrite contains_iff by assumption. unfold subnet_spec.
  pose proof (blk_pos y Wy) as Hby. pose proof (blk_pos x Wx) as Hbx.
  pose proof (net_le (addr x) _ Hbx) as Lx. pose proof (net_gt (addr x) _ Hbx) as Gx.
  pose proof (net_le (addr y) _ Hby) as Ly. pose proof (net_gt (addr y) _ Hby) as Gy.
  fold (netw x) in *. fold (netw y) in *. unfold IPRef.lastaddr.
  split.
  - intros [Hle E] a Ha.
    destruct (blk_split y x Wy Wx Hle) as [Hs Hc].
    pose proof (contains_core (addr y) (addr x) (blk y) (blk x) _ Hbx Hc Hs) as Core.
    apply Core in E. unfold last in E. fold (netw y) (netw x) in E. lia.
  - intros Hall.
    assert (Hle : plen y <= plen x).
    { destruct (Z_le_gt_dec (plen y) (plen x)) as [|Hgt]; [assumption|exfalso].
      (* blk x is a proper multiple of blk y, hence >= 2 * blk y, but x's range fits in y's *)
      destruct (blk_split x y Wx Wy ltac:(lia)) as [Hs Hc].
      assert (2 <= 2 ^ (plen y - plen x)).
      { replace (plen y - plen x) with (1 + (plen y - plen x - 1)) by lia.
        rewrite Z.pow_add_r by lia. assert (0 < 2 ^ (plen y - plen x - 1)) by (apply Z.pow_pos_nonneg; lia). lia. }
      pose proof (Hall (netw x) ltac:(lia)). pose proof (Hall (netw x + blk x - 1) ltac:(lia)). nia. }
    split; [exact Hle|].
    destruct (blk_split y x Wy Wx Hle) as [Hs Hc].
    pose proof (contains_core (addr y) (addr x) (blk y) (blk x) _ Hbx Hc Hs) as Core.
    apply Core. unfold last. fold (netw y) (netw x).
    pose proof (Hall (netw x) ltac:(lia)). pose proof (Hall (netw x + blk x - 1) ltac:(lia)). lia.
Qed.

Theorem contains_refl y : wf y -> contains_ref y y = true.
Proof. intros Wy. apply contains_iff; auto. split; [lia|reflexivity]. Qed.

Theorem contains_trans z y x : wf z -> wf y -> wf x ->
  contains_ref z y = true -> contains_ref y x = true -> contains_ref z x = true.
Proof.
  intros Wz Wy Wx H1 H2.
  apply contains_iff in H1; auto. apply contains_iff in H2; auto. apply contains_iff; auto.
  destruct H1 as [L1 E1], H2 as [L2 E2]. split; [lia|].
  destruct (blk_split z y Wz Wy L1) as [Hs Hc]. pose proof (blk_pos y Wy).
  rewrite Hs. rewrite (div_coarsen (addr x) (addr y)) by auto. rewrite <- Hs. exact E1.
Qed.

(* first and last address of y, as host routes, are inside y; the neighbours just outside are not *)
Lemma netw_in_range o : wf o -> 0 <= netw o /\ lastaddr o < 2 ^ W.
Proof.
  intros [Ha Hp]. pose proof (blk_pos o (conj Ha Hp)) as Hb.
  unfold IPRef.lastaddr, IPRef.netw, net.
  assert (E : 2 ^ W = 2 ^ (plen o) * blk o) by (unfold IPRef.blk; rewrite <- Z.pow_add_r by lia; f_equal; lia).
  assert (Hq : addr o / blk o < 2 ^ plen o).
  { apply Z.div_lt_upper_bound; [lia|]. rewrite Z.mul_comm, <- E. lia. }
  assert (0 <= addr o / blk o) by (apply Z.div_pos; lia).
  split; [nia|]. rewrite E. nia.
Qed.

Theorem contains_first_last y : wf y ->
  contains_ref y (mk_host W (netw y)) = true /\ contains_ref y (mk_host W (lastaddr y)) = true.
Proof.
  intros Wy. pose proof (netw_in_range y Wy) as [N0 N1]. pose proof (blk_pos y Wy) as Hb.
  destruct Wy as [Ha Hp].
  assert (Wf1 : wf (mk_host W (netw y))).
  { split; cbn; [|lia]. unfold IPRef.lastaddr in N1. lia. }
  assert (Wf2 : wf (mk_host W (lastaddr y))).
  { split; cbn; [|lia]. unfold IPRef.lastaddr in *. lia. }
  split; apply contains_iff; auto; try (split; assumption); unfold subnet_spec; cbn [plen addr mk_host]; (split; [lia|]).
  - unfold IPRef.netw, net. rewrite Z.div_mul by lia. reflexivity.
  - unfold IPRef.lastaddr, IPRef.netw, net.
    replace (addr y / blk y * blk y + blk y - 1) with ((blk y - 1) + (addr y / blk y) * blk y) by lia.
    rewrite Z.div_add by lia. rewrite Z.div_small by lia. lia.
Qed.

Theorem contains_outside y a : wf y -> 0 <= a < 2 ^ W -> 0 < plen y ->
  (a < netw y \/ lastaddr y < a) -> contains_ref y (mk_host W a) = false.
Proof.
  intros Wy Ha Hp Hout.
  destruct (contains_ref y (mk_host W a)) eqn:E; [exfalso|reflexivity].
  assert (Wa : wf (mk_host W a)) by (destruct Wy as [? ?]; split; cbn; lia).
  pose proof (proj1 (contains_iff_range y _ Wy Wa) E) as E'. clear E. rename E' into E.
  assert (Hn : IPRef.netw W (mk_host W a) = a /\ IPRef.lastaddr W (mk_host W a) = a).
  { unfold IPRef.lastaddr, IPRef.netw, IPRef.blk, net. cbn. rewrite Z.sub_diag. cbn. rewrite Z.div_1_r. lia. }
  destruct Hn as [E1 E2]. specialize (E a). rewrite E1, E2 in E. specialize (E ltac:(lia)). lia.
Qed.

(* ---------------------------------------------------------------- ordering *)
Lemma lt_ref_lex a b : lt_ref W a b = true <-> lexlt W a b.
Proof.
  unfold lt_ref, lexlt.
  destruct (netw a =? netw b) eqn:En; destruct (plen a =? plen b) eqn:Ep; simpl;
  rewrite ?Z.eqb_eq, ?Z.eqb_neq in *; rewrite Z.ltb_lt; lia.
Qed.

Lemma gt_ref_lt a b : gt_ref W a b = lt_ref W b a.
Proof.
  unfold gt_ref, lt_ref. rewrite (Z.eqb_sym (netw a)), (Z.eqb_sym (plen a)).
  rewrite !Z.gtb_ltb. reflexivity.
Qed.

Theorem lt_irrefl a : lt_ref W a a = false.
Proof. destruct (lt_ref W a a) eqn:E; auto. apply lt_ref_lex in E. unfold lexlt in E. lia. Qed.

Theorem lt_asym a b : lt_ref W a b = true -> lt_ref W b a = false.
Proof.
  intros H. destruct (lt_ref W b a) eqn:E; auto.
  apply lt_ref_lex in H. apply lt_ref_lex in E. unfold lexlt in *. lia.
Qed.

Theorem lt_trans a b c : lt_ref W a b = true -> lt_ref W b c = true -> lt_ref W a c = true.
Proof. rewrite !lt_ref_lex. unfold lexlt. lia. Qed.

Theorem trichotomy a b :
  (lt_ref W a b = true /\ lt_ref W b a = false /\ eq_ref a b = false) \/
  (lt_ref W a b = false /\ lt_ref W b a = true /\ eq_ref a b = false) \/
  (lt_ref W a b = false /\ lt_ref W b a = false /\ eq_ref a b = true).
Proof.
  destruct (lt_ref W a b) eqn:E1; destruct (lt_ref W b a) eqn:E2; destruct (eq_ref a b) eqn:E3;
  try (apply lt_ref_lex in E1); try (apply lt_ref_lex in E2);
  try (apply andb_true_iff in E3; destruct E3 as [E3 E4]; apply Z.eqb_eq in E3; apply Z.eqb_eq in E4);
  unfold lexlt in *; auto; exfalso.
  - lia.
  - lia.
  - unfold IPRef.netw, IPRef.blk in *. rewrite E3, E4 in *. lia.
  - unfold IPRef.netw, IPRef.blk in *. rewrite E3, E4 in *. lia.
  - (* neither less: keys equal, so addr and plen equal *)
    assert (Hn : ~ lexlt W a b) by (intro H; apply lt_ref_lex in H; congruence).
    assert (Hm : ~ lexlt W b a) by (intro H; apply lt_ref_lex in H; congruence).
    unfold lexlt in *.
    assert (addr a = addr b /\ plen a = plen b) as [A B] by lia.
    unfold eq_ref in E3. rewrite A, B, !Z.eqb_refl in E3. discriminate.
Qed.

Theorem eq_ref_iff a b : eq_ref a b = true <-> addr a = addr b /\ plen a = plen b.
Proof. unfold eq_ref. rewrite andb_true_iff, !Z.eqb_eq. tauto. Qed.

Theorem eq_ref_iff_eq a b : eq_ref a b = true <-> a = b.
Proof.
  rewrite eq_ref_iff. destruct a, b; cbn. split; [intros [-> ->]; reflexivity | intros H; inversion H; auto].
Qed.

(* equal objects have equal keys (so hashing, which is a function of (str addr, str plen), agrees) *)
Theorem hash_compat (h : Z -> Z -> Z) a b : eq_ref a b = true -> h (addr a) (plen a) = h (addr b) (plen b).
Proof. intros H. apply eq_ref_iff in H. destruct H as [-> ->]. reflexivity. Qed.

(* longest-match idiom: same network, more specific prefix sorts after the less specific one *)
Theorem longest_match_sort a b : netw a = netw b -> plen a < plen b -> lt_ref W a b = true.
Proof. intros Hn Hp. apply lt_ref_lex. unfold lexlt. lia. Qed.

(* ---------------------------------------------------------------- arithmetic *)
Theorem add_sub_roundtrip a n b : wf a -> add_ref W a n = Ok b ->
  sub_ref W b n = Ok a /\ plen b = plen a /\ wf b.
Proof.
  intros [Ha Hp]. unfold add_ref, sub_ref, maxint.
  destruct (addr a + n >? 2 ^ W - 1) eqn:E1; [discriminate|].
  destruct (addr a + n <? 0) eqn:E2; [discriminate|].
  intros H; inversion H; subst b; clear H. cbn [addr plen].
  replace (addr a + n - n) with (addr a) by lia.
  destruct (addr a >? 2 ^ W - 1) eqn:E3; [apply Z.gtb_lt in E3; lia|].
  destruct (addr a <? 0) eqn:E4; [apply Z.ltb_lt in E4; lia|].
  pose proof (Zgt_cases (addr a + n) (2 ^ W - 1)) as C1. rewrite E1 in C1.
  apply Z.ltb_ge in E2.
  repeat split; cbn; try lia. destruct a; reflexivity.
Qed.

Theorem add_raises_iff a n : wf a ->
  (exists e, add_ref W a n = Raise e) <-> (addr a + n < 0 \/ 2 ^ W <= addr a + n).
Proof.
  intros [Ha Hp]. unfold add_ref, maxint.
  destruct (addr a + n >? 2 ^ W - 1) eqn:E1.
  - apply Z.gtb_lt in E1. split; [lia | intros _; eexists; reflexivity].
  - pose proof (Zgt_cases (addr a + n) (2 ^ W - 1)) as C1. rewrite E1 in C1.
    destruct (addr a + n <? 0) eqn:E2.
    + apply Z.ltb_lt in E2. split; [lia | intros _; eexists; reflexivity].
    + apply Z.ltb_ge in E2. split; [intros [e H]; discriminate | lia].
Qed.

Theorem sub_raises_iff a n : wf a ->
  (exists e, sub_ref W a n = Raise e) <-> (addr a - n < 0 \/ 2 ^ W <= addr a - n).
Proof.
  intros [Ha Hp]. unfold sub_ref, maxint.
  destruct (addr a - n >? 2 ^ W - 1) eqn:E1.
  - apply Z.gtb_lt in E1. split; [lia | intros _; eexists; reflexivity].
  - pose proof (Zgt_cases (addr a - n) (2 ^ W - 1)) as C1. rewrite E1 in C1.
    destruct (addr a - n <? 0) eqn:E2.
    + apply Z.ltb_lt in E2. split; [lia | intros _; eexists; reflexivity].
    + apply Z.ltb_ge in E2. split; [intros [e H]; discriminate | lia].
Qed.

Theorem set_plen_keeps_addr o p o' : set_plen_ref W o p = Ok o' -> addr o' = addr o /\ plen o' = p /\ 0 <= p <= W.
Proof.
  unfold set_plen_ref. destruct ((0 <=? p) && (p <=? W)) eqn:E; [|discriminate].
  intros H; inversion H; subst. apply andb_true_iff in E. destruct E as [E1 E2].
  apply Z.leb_le in E1. apply Z.leb_le in E2. cbn. lia.
Qed.

Theorem set_plen_rejects o p : ~ (0 <= p <= W) -> set_plen_ref W o p = Raise E_ValueError.
Proof.
  intros H. unfold set_plen_ref. destruct ((0 <=? p) && (p <=? W)) eqn:E; [|reflexivity].
  apply andb_true_iff in E. destruct E as [E1 E2]. apply Z.leb_le in E1. apply Z.leb_le in E2. lia.
Qed.

Theorem set_offset_spec o k : wf o -> 0 <= k <= hostmask W o ->
  exists o', set_offset_ref W o k = Ok o' /\ addr o' = netw o + k /\ plen o' = plen o /\
             netw o' = netw o /\ wf o'.
Proof.
  intros Wo Hk. pose proof (blk_pos o Wo) as Hb. pose proof (netw_in_range o Wo) as [N0 N1].
  unfold set_offset_ref. unfold hostmask in *.
  replace ((0 <=? k) && (k <=? blk o - 1)) with true
    by (symmetry; apply andb_true_iff; split; apply Z.leb_le; lia).
  eexists; split; [reflexivity|]. cbn [set_addr addr plen].
  assert (En : IPRef.netw W (set_addr o (netw o + k)) = netw o).
  { change (IPRef.netw W (set_addr o (netw o + k))) with (net (netw o + k) (blk o)).
    unfold IPRef.netw. rewrite net_add_lt by lia. reflexivity. }
  split; [reflexivity|]. split; [reflexivity|]. split; [exact En|].
  destruct Wo as [Ha Hp]. unfold IPRef.lastaddr in N1. split; cbn [set_addr addr plen]; lia.
Qed.

Theorem set_offset_rejects o k : wf o -> ~ (0 <= k <= hostmask W o) ->
  set_offset_ref W o k = Raise E_AddressValueError.
Proof.
  intros Wo H. unfold set_offset_ref.
  destruct ((0 <=? k) && (k <=? hostmask W o)) eqn:E; [|reflexivity].
  apply andb_true_iff in E. destruct E as [E1 E2]. apply Z.leb_le in E1. apply Z.leb_le in E2. lia.
Qed.

(* ---------------------------------------------------------------- derived values (C11 numeric layer) *)
Theorem network_is_and o : wf o -> netw o = Z.land (addr o) (netmask W o).
Proof.
  intros [Ha Hp]. unfold IPRef.netw, net, netmask, IPRef.blk.
  set (h := W - plen o). assert (Hh : 0 <= h <= W) by (unfold h; lia).
  (* addr land (2^W - 2^h) = (addr / 2^h) * 2^h for 0 <= addr < 2^W *)
  assert (Em : 2 ^ W - 2 ^ h = Z.shiftl (Z.ones (W - h)) h).
  { rewrite Z.shiftl_mul_pow2 by lia. rewrite Z.ones_equiv. unfold Z.pred.
    rewrite Z.mul_add_distr_r. rewrite <- Z.pow_add_r by lia. replace (W - h + h) with W by lia. lia. }
  rewrite Em.
  rewrite <- Z.shiftl_mul_pow2 by lia. rewrite <- Z.shiftr_div_pow2 by lia.
  apply Z.bits_inj'. intros n Hn. rewrite Z.land_spec.
  destruct (Z_lt_ge_dec n h) as [Hlt|Hge].
  - rewrite !Z.shiftl_spec_low by lia. rewrite andb_false_r. reflexivity.
  - rewrite !Z.shiftl_spec_high by lia. rewrite Z.shiftr_spec by lia.
    replace (n - h + h) with n by lia.
    destruct (Z_lt_ge_dec n W) as [HltW|HgeW].
    + rewrite Z.ones_spec_low by lia. rewrite andb_true_r. reflexivity.
    + rewrite Z.ones_spec_high by lia. rewrite andb_false_r.
      destruct (Z.eq_dec (addr o) 0) as [->|Hne]; [apply Z.bits_0|].
      apply Z.bits_above_log2; [lia|]. apply Z.log2_lt_pow2; [lia|].
      eapply Z.lt_le_trans; [apply Ha|]. apply Z.pow_le_mono_r; lia.
Qed.

Theorem masks_complement o : wf o -> netmask W o + hostmask W o = 2 ^ W - 1.
Proof. intros _. unfold netmask, hostmask. lia. Qed.

Theorem broadcast_last o : wf o -> lastaddr o = netw o + hostmask W o.
Proof. intros _. unfold IPRef.lastaddr, hostmask. lia. Qed.

Theorem addr_in_own_network o : wf o -> netw o <= addr o <= lastaddr o.
Proof.
  intros Wo. pose proof (blk_pos o Wo) as Hb.
  pose proof (net_le (addr o) _ Hb). pose proof (net_gt (addr o) _ Hb).
  unfold IPRef.lastaddr, IPRef.netw. lia.
Qed.

End Fam.
