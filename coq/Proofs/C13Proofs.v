(* C13: ordering, equality, hashing and arithmetic laws, stated about the methods translated from /repo. *)
From Coq Require Import ZArith Lia Bool.
Require Import CCP.Lib.Res CCP.Model.IPRef CCP.gen.GenIP CCP.gen.GenOK13 CCP.Proofs.IPProofs.
Open Scope Z_scope.

Lemma ok_true_iff (b : bool) : Ok b = Ok true <-> b = true.
Proof. split; [intros H; inversion H; reflexivity | intros ->; reflexivity]. Qed.
Lemma ok_inj {A} (a b : A) : Ok a = Ok b -> a = b.
Proof. intros H; inversion H; reflexivity. Qed.

Section V4.
Let W := 32.
Lemma v4_lt_key a b : wf 32 a -> wf 32 b -> gen_v4_lt a b = Ok true <-> lexlt 32 a b.
Proof. intros. rewrite gen_v4_lt_ok, ok_true_iff by assumption. apply lt_ref_lex. Qed.
Lemma v4_gt_key a b : wf 32 a -> wf 32 b -> gen_v4_gt a b = Ok true <-> lexlt 32 b a.
Proof. intros. rewrite gen_v4_gt_ok, ok_true_iff, gt_ref_lt by assumption. apply lt_ref_lex. Qed.
Lemma v4_cmp_total a b : wf 32 a -> wf 32 b ->
  exists l g e, gen_v4_lt a b = Ok l /\ gen_v4_gt a b = Ok g /\ gen_v4_eq a b = Ok e.
Proof. intros. rewrite gen_v4_lt_ok, gen_v4_gt_ok, gen_v4_eq_ok by assumption. do 3 eexists. repeat split; reflexivity. Qed.
Lemma v4_lt_irrefl a : wf 32 a -> gen_v4_lt a a = Ok false.
Proof. intros. rewrite gen_v4_lt_ok by assumption. f_equal. apply lt_irrefl. Qed.
Lemma v4_lt_asym a b : wf 32 a -> wf 32 b -> gen_v4_lt a b = Ok true -> gen_v4_lt b a = Ok false.
Proof. intros ? ?. rewrite !gen_v4_lt_ok, ok_true_iff by assumption. intros. f_equal. apply lt_asym; assumption. Qed.
Lemma v4_lt_trans a b c : wf 32 a -> wf 32 b -> wf 32 c ->
  gen_v4_lt a b = Ok true -> gen_v4_lt b c = Ok true -> gen_v4_lt a c = Ok true.
Proof. intros ? ? ?. rewrite !gen_v4_lt_ok, !ok_true_iff by assumption. apply lt_trans. Qed.
Lemma v4_trichotomy a b : wf 32 a -> wf 32 b ->
  (gen_v4_lt a b = Ok true /\ gen_v4_gt a b = Ok false /\ gen_v4_eq a b = Ok false) \/
  (gen_v4_lt a b = Ok false /\ gen_v4_gt a b = Ok true /\ gen_v4_eq a b = Ok false) \/
  (gen_v4_lt a b = Ok false /\ gen_v4_gt a b = Ok false /\ gen_v4_eq a b = Ok true).
Proof.
  intros. rewrite gen_v4_lt_ok, gen_v4_gt_ok, gen_v4_eq_ok, gt_ref_lt by assumption.
  destruct (trichotomy 32 a b) as [(A & B & C)|[(A & B & C)|(A & B & C)]]; rewrite A, B, C; auto.
Qed.
Lemma v4_eq_iff a b : wf 32 a -> wf 32 b -> gen_v4_eq a b = Ok true <-> addr a = addr b /\ plen a = plen b.
Proof. intros. rewrite gen_v4_eq_ok, ok_true_iff by assumption. apply eq_ref_iff. Qed.
Lemma v4_ne_is_not_eq a b : wf 32 a -> wf 32 b ->
  (gen_v4_ne a b = Ok true <-> gen_v4_eq a b = Ok false) /\ (gen_v4_ne a b = Ok false <-> gen_v4_eq a b = Ok true).
Proof.
  intros. rewrite gen_v4_ne_ok, gen_v4_eq_ok by assumption. destruct (eq_ref a b); cbn; split; split; intros E; (reflexivity || discriminate E).
Qed.
Lemma v4_gt_is_flipped_lt a b : wf 32 a -> wf 32 b -> gen_v4_gt a b = gen_v4_lt b a.
Proof. intros. rewrite gen_v4_gt_ok, gen_v4_lt_ok, gt_ref_lt by assumption. reflexivity. Qed.
Lemma v4_longest_match a b : wf 32 a -> wf 32 b -> netw 32 a = netw 32 b -> plen a < plen b -> gen_v4_lt a b = Ok true.
Proof. intros. rewrite gen_v4_lt_ok by assumption. f_equal. apply longest_match_sort; assumption. Qed.
Lemma v4_add_sub a n b : wf 32 a -> gen_v4_add a n = Ok b -> gen_v4_sub b n = Ok a /\ plen b = plen a /\ wf 32 b.
Proof.
  intros Wa H. rewrite gen_v4_add_ok in H by assumption.
  destruct (add_sub_roundtrip 32 a n b Wa H) as (S & P & Wb). rewrite gen_v4_sub_ok by assumption. auto.
Qed.
Lemma v4_add_raises a n : wf 32 a -> (exists e, gen_v4_add a n = Raise e) <-> (addr a + n < 0 \/ 2 ^ 32 <= addr a + n).
Proof. intros. rewrite gen_v4_add_ok by assumption. apply add_raises_iff; assumption. Qed.
Lemma v4_sub_raises a n : wf 32 a -> (exists e, gen_v4_sub a n = Raise e) <-> (addr a - n < 0 \/ 2 ^ 32 <= addr a - n).
Proof. intros. rewrite gen_v4_sub_ok by assumption. apply sub_raises_iff; assumption. Qed.
Lemma v4_add_value a n b : wf 32 a -> gen_v4_add a n = Ok b -> addr b = addr a + n /\ plen b = plen a.
Proof.
  intros Wa. rewrite gen_v4_add_ok by assumption. unfold add_ref.
  destruct (_ >? _); [discriminate|]. destruct (_ <? _); [discriminate|]. intros H; inversion H; cbn; auto.
Qed.
Lemma v4_set_plen o p o' : gen_v4_set_prefixlen o p = Ok o' -> addr o' = addr o /\ plen o' = p /\ 0 <= p <= 32.
Proof. rewrite gen_v4_set_prefixlen_ok. apply set_plen_keeps_addr. Qed.
Lemma v4_set_plen_rejects o p : ~ (0 <= p <= 32) -> gen_v4_set_prefixlen o p = Raise E_ValueError.
Proof. rewrite gen_v4_set_prefixlen_ok. apply set_plen_rejects. Qed.
Lemma v4_plen_setters_same o p : gen_v4_set_masklen o p = gen_v4_set_prefixlen o p /\
  gen_v4_set_prefixlength o p = gen_v4_set_prefixlen o p /\ gen_v4_set_masklength o p = gen_v4_set_prefixlen o p.
Proof. rewrite gen_v4_set_masklen_ok, gen_v4_set_prefixlength_ok, gen_v4_set_masklength_ok, gen_v4_set_prefixlen_ok. auto. Qed.
Lemma v4_set_offset o k : wf 32 o -> 0 <= k <= hostmask 32 o ->
  exists o', gen_v4_set_network_offset o k = Ok o' /\ addr o' = netw 32 o + k /\ plen o' = plen o /\ netw 32 o' = netw 32 o /\ wf 32 o'.
Proof. intros Wo Hk. rewrite gen_v4_set_network_offset_ok by assumption. apply set_offset_spec; [lia|assumption|assumption]. Qed.
Lemma v4_set_offset_rejects o k : wf 32 o -> ~ (0 <= k <= hostmask 32 o) -> gen_v4_set_network_offset o k = Raise E_AddressValueError.
Proof. intros Wo Hk. rewrite gen_v4_set_network_offset_ok by assumption. apply set_offset_rejects; assumption. Qed.
End V4.

Section V6.
Lemma v6_lt_key a b : wf 128 a -> wf 128 b -> gen_v6_lt a b = Ok true <-> lexlt 128 a b.
Proof. intros. rewrite gen_v6_lt_ok, ok_true_iff by assumption. apply lt_ref_lex. Qed.
Lemma v6_gt_key a b : wf 128 a -> wf 128 b -> gen_v6_gt a b = Ok true <-> lexlt 128 b a.
Proof. intros. rewrite gen_v6_gt_ok, ok_true_iff, gt_ref_lt by assumption. apply lt_ref_lex. Qed.
Lemma v6_cmp_total a b : wf 128 a -> wf 128 b ->
  exists l g e, gen_v6_lt a b = Ok l /\ gen_v6_gt a b = Ok g /\ gen_v6_eq a b = Ok e.
Proof. intros. rewrite gen_v6_lt_ok, gen_v6_gt_ok, gen_v6_eq_ok by assumption. do 3 eexists. repeat split; reflexivity. Qed.
Lemma v6_lt_irrefl a : wf 128 a -> gen_v6_lt a a = Ok false.
Proof. intros. rewrite gen_v6_lt_ok by assumption. f_equal. apply lt_irrefl. Qed.
Lemma v6_lt_asym a b : wf 128 a -> wf 128 b -> gen_v6_lt a b = Ok true -> gen_v6_lt b a = Ok false.
Proof. intros ? ?. rewrite !gen_v6_lt_ok, ok_true_iff by assumption. intros. f_equal. apply lt_asym; assumption. Qed.
Lemma v6_lt_trans a b c : wf 128 a -> wf 128 b -> wf 128 c ->
  gen_v6_lt a b = Ok true -> gen_v6_lt b c = Ok true -> gen_v6_lt a c = Ok true.
Proof. intros ? ? ?. rewrite !gen_v6_lt_ok, !ok_true_iff by assumption. apply lt_trans. Qed.
Lemma v6_trichotomy a b : wf 128 a -> wf 128 b ->
  (gen_v6_lt a b = Ok true /\ gen_v6_gt a b = Ok false /\ gen_v6_eq a b = Ok false) \/
  (gen_v6_lt a b = Ok false /\ gen_v6_gt a b = Ok true /\ gen_v6_eq a b = Ok false) \/
  (gen_v6_lt a b = Ok false /\ gen_v6_gt a b = Ok false /\ gen_v6_eq a b = Ok true).
Proof.
  intros. rewrite gen_v6_lt_ok, gen_v6_gt_ok, gen_v6_eq_ok, gt_ref_lt by assumption.
  destruct (trichotomy 128 a b) as [(A & B & C)|[(A & B & C)|(A & B & C)]]; rewrite A, B, C; auto.
Qed.
Lemma v6_eq_iff a b : wf 128 a -> wf 128 b -> gen_v6_eq a b = Ok true <-> addr a = addr b /\ plen a = plen b.
Proof. intros. rewrite gen_v6_eq_ok, ok_true_iff by assumption. apply eq_ref_iff. Qed.
Lemma v6_ne_is_not_eq a b : wf 128 a -> wf 128 b ->
  (gen_v6_ne a b = Ok true <-> gen_v6_eq a b = Ok false) /\ (gen_v6_ne a b = Ok false <-> gen_v6_eq a b = Ok true).
Proof.
  intros. rewrite gen_v6_ne_ok, gen_v6_eq_ok by assumption. destruct (eq_ref a b); cbn; split; split; intros E; (reflexivity || discriminate E).
Qed.
Lemma v6_gt_is_flipped_lt a b : wf 128 a -> wf 128 b -> gen_v6_gt a b = gen_v6_lt b a.
Proof. intros. rewrite gen_v6_gt_ok, gen_v6_lt_ok, gt_ref_lt by assumption. reflexivity. Qed.
Lemma v6_longest_match a b : wf 128 a -> wf 128 b -> netw 128 a = netw 128 b -> plen a < plen b -> gen_v6_lt a b = Ok true.
Proof. intros. rewrite gen_v6_lt_ok by assumption. f_equal. apply longest_match_sort; assumption. Qed.
Lemma v6_add_sub a n b : wf 128 a -> gen_v6_add a n = Ok b -> gen_v6_sub b n = Ok a /\ plen b = plen a /\ wf 128 b.
Proof.
  intros Wa H. rewrite gen_v6_add_ok in H by assumption.
  destruct (add_sub_roundtrip 128 a n b Wa H) as (S & P & Wb). rewrite gen_v6_sub_ok by assumption. auto.
Qed.
Lemma v6_add_raises a n : wf 128 a -> (exists e, gen_v6_add a n = Raise e) <-> (addr a + n < 0 \/ 2 ^ 128 <= addr a + n).
Proof. intros. rewrite gen_v6_add_ok by assumption. apply add_raises_iff; assumption. Qed.
Lemma v6_sub_raises a n : wf 128 a -> (exists e, gen_v6_sub a n = Raise e) <-> (addr a - n < 0 \/ 2 ^ 128 <= addr a - n).
Proof. intros. rewrite gen_v6_sub_ok by assumption. apply sub_raises_iff; assumption. Qed.
Lemma v6_add_value a n b : wf 128 a -> gen_v6_add a n = Ok b -> addr b = addr a + n /\ plen b = plen a.
Proof.
  intros Wa. rewrite gen_v6_add_ok by assumption. unfold add_ref.
  destruct (_ >? _); [discriminate|]. destruct (_ <? _); [discriminate|]. intros H; inversion H; cbn; auto.
Qed.
Lemma v6_set_plen o p o' : gen_v6_set_prefixlen o p = Ok o' -> addr o' = addr o /\ plen o' = p /\ 0 <= p <= 128.
Proof. rewrite gen_v6_set_prefixlen_ok. apply set_plen_keeps_addr. Qed.
Lemma v6_set_plen_rejects o p : ~ (0 <= p <= 128) -> gen_v6_set_prefixlen o p = Raise E_ValueError.
Proof. rewrite gen_v6_set_prefixlen_ok. apply set_plen_rejects. Qed.
Lemma v6_plen_setters_same o p : gen_v6_set_masklen o p = gen_v6_set_prefixlen o p /\
  gen_v6_set_masklength o p = gen_v6_set_prefixlen o p.
Proof. rewrite gen_v6_set_masklen_ok, gen_v6_set_masklength_ok, gen_v6_set_prefixlen_ok. auto. Qed.
Lemma v6_set_offset o k : wf 128 o -> 0 <= k <= hostmask 128 o ->
  exists o', gen_v6_set_network_offset o k = Ok o' /\ addr o' = netw 128 o + k /\ plen o' = plen o /\ netw 128 o' = netw 128 o /\ wf 128 o'.
Proof. intros Wo Hk. rewrite gen_v6_set_network_offset_ok by assumption. apply set_offset_spec; [lia|assumption|assumption]. Qed.
Lemma v6_set_offset_rejects o k : wf 128 o -> ~ (0 <= k <= hostmask 128 o) -> gen_v6_set_network_offset o k = Raise E_AddressValueError.
Proof. intros Wo Hk. rewrite gen_v6_set_network_offset_ok by assumption. apply set_offset_rejects; assumption. Qed.
End V6.

(* hashing: the code hashes (str(ip), str(prefixlen)); any function of (addr, plen) agrees on equal objects *)
Lemma hash_compat_v4 (h : Z -> Z -> Z) a b : wf 32 a -> wf 32 b -> gen_v4_eq a b = Ok true -> h (addr a) (plen a) = h (addr b) (plen b).
Proof. intros Wa Wb H. apply v4_eq_iff in H; auto. destruct H as [-> ->]. reflexivity. Qed.
Lemma hash_compat_v6 (h : Z -> Z -> Z) a b : wf 128 a -> wf 128 b -> gen_v6_eq a b = Ok true -> h (addr a) (plen a) = h (addr b) (plen b).
Proof. intros Wa Wb H. apply v6_eq_iff in H; auto. destruct H as [-> ->]. reflexivity. Qed.

(* non-vacuity *)
Example ex13_lt : gen_v4_lt {| addr := 167772161; plen := 8 |} {| addr := 167772161; plen := 24 |} = Ok true.
Proof. vm_compute. reflexivity. Qed.
Example ex13_add_max : gen_v4_add {| addr := 4294967294; plen := 24 |} 1 = Ok {| addr := 4294967295; plen := 24 |}
  /\ gen_v4_sub {| addr := 4294967295; plen := 24 |} 0 = Ok {| addr := 4294967295; plen := 24 |}
  /\ gen_v4_add {| addr := 4294967295; plen := 24 |} 1 = Raise E_RequirementFailure.
Proof. vm_compute. auto. Qed.
Example ex13_offset : gen_v4_set_network_offset {| addr := 167838285; plen := 24 |} 7 = Ok {| addr := 167838215; plen := 24 |}
  /\ gen_v4_set_network_offset {| addr := 167838285; plen := 24 |} (-1) = Raise E_AddressValueError
  /\ gen_v4_set_network_offset {| addr := 167838285; plen := 24 |} 256 = Raise E_AddressValueError.
Proof. vm_compute. auto. Qed.
