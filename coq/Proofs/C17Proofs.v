(* C17: proofs about Model/Pw7.v (type-7 round trip, pwd_check, base-64 translation and hash layout). *)
From Coq Require Import NArith ZArith List Bool Lia Arith.
Require Import CCP.Lib.PyStr CCP.Lib.Res CCP.gen.TabC17 CCP.Model.Pw7.
Import ListNotations.
Open Scope N_scope.

(* ------------------------------------------------------------------ finite enumeration helper *)
Definition below (n : nat) : list N := map N.of_nat (seq 0 n).
Lemma in_below n x : x < N.of_nat n -> In x (below n).
Proof.
  intros H. unfold below. replace x with (N.of_nat (N.to_nat x)) by apply N2Nat.id.
  apply in_map. apply in_seq. lia.
Qed.
Lemma forallb_below (P : N -> bool) n : forallb P (below n) = true -> forall x, x < N.of_nat n -> P x = true.
Proof. intros H x Hx. rewrite forallb_forall in H. apply H. apply in_below. exact Hx. Qed.

(* ------------------------------------------------------------------ tables *)
Lemma xlat_is_cisco_key : tab_xlat = cisco_key.
Proof. vm_compute. reflexivity. Qed.
Lemma wrap_is_53 : tab_wrap = 53%Z.
Proof. vm_compute. reflexivity. Qed.
Lemma xlat_len : length tab_xlat = 53%nat.
Proof. vm_compute. reflexivity. Qed.
Lemma xlat_bytes : Forall (fun k => k < 256) tab_xlat.
Proof. rewrite xlat_is_cisco_key. unfold cisco_key. repeat (constructor; [reflexivity|]). constructor. Qed.
Lemma key_lt_256 i : nth i tab_xlat 0 < 256.
Proof.
  destruct (lt_dec i (length tab_xlat)) as [Hi|Hi].
  - pose proof xlat_bytes as HB. rewrite Forall_forall in HB. apply HB. apply nth_In. exact Hi.
  - rewrite nth_overflow by lia. reflexivity.
Qed.

Lemma key_at_N s : key_at (Z.of_N s) = nth (N.to_nat (s mod 53)) tab_xlat 0.
Proof.
  unfold key_at. rewrite wrap_is_53. f_equal.
  change 53%Z with (Z.of_N 53). rewrite <- N2Z.inj_mod by discriminate.
  rewrite <- Z_N_nat. rewrite N2Z.id. reflexivity.
Qed.

(* ------------------------------------------------------------------ finite facts (each a vm_compute over the stated range) *)
Lemma two_digits_int salt : salt < 100 -> py_int (two_digits salt) = Some (Z.of_N salt).
Proof.
  intros H.
  assert (F : forallb (fun s => match py_int (two_digits s) with Some z => Z.eqb z (Z.of_N s) | None => false end) (below 100) = true)
    by (vm_compute; reflexivity).
  pose proof (forallb_below _ 100 F salt H) as G. cbv beta in G.
  destruct (py_int (two_digits salt)) as [z|]; [|discriminate]. apply Z.eqb_eq in G. subst. reflexivity.
Qed.
Lemma two_digits_not_nl salt : salt < 100 -> not_nl (48 + salt / 10) = true /\ not_nl (48 + salt mod 10) = true.
Proof.
  intros H.
  assert (F : forallb (fun s => not_nl (48 + s / 10) && not_nl (48 + s mod 10)) (below 100) = true) by (vm_compute; reflexivity).
  pose proof (forallb_below _ 100 F salt H) as G. cbv beta in G. apply andb_true_iff in G. exact G.
Qed.
Lemma hex2_hexU2 x : x < 256 -> hex2 (hexU1 (x / 16)) (hexU1 (x mod 16)) = Some x.
Proof.
  intros H.
  assert (F : forallb (fun y => match hex2 (hexU1 (y / 16)) (hexU1 (y mod 16)) with Some z => N.eqb z y | None => false end) (below 256) = true)
    by (vm_compute; reflexivity).
  pose proof (forallb_below _ 256 F x H) as G. cbv beta in G.
  destruct (hex2 (hexU1 (x / 16)) (hexU1 (x mod 16))) as [z|]; [|discriminate]. apply N.eqb_eq in G. subst. reflexivity.
Qed.
Lemma hexU2_not_nl x : x < 256 -> not_nl (hexU1 (x / 16)) = true /\ not_nl (hexU1 (x mod 16)) = true.
Proof.
  intros H.
  assert (F : forallb (fun y => not_nl (hexU1 (y / 16)) && not_nl (hexU1 (y mod 16))) (below 256) = true) by (vm_compute; reflexivity).
  pose proof (forallb_below _ 256 F x H) as G. cbv beta in G. apply andb_true_iff in G. exact G.
Qed.
Lemma lxor_byte b k : b < 256 -> k < 256 -> N.lxor b k < 256.
Proof.
  intros Hb Hk.
  assert (F : forallb (fun x => forallb (fun y => N.lxor x y <? 256) (below 256)) (below 256) = true) by (vm_compute; reflexivity).
  pose proof (forallb_below _ 256 F b Hb) as G. cbv beta in G.
  pose proof (forallb_below _ 256 G k Hk) as G2. cbv beta in G2. apply N.ltb_lt in G2. exact G2.
Qed.
Lemma lxor_cancel b k : N.lxor (N.lxor b k) k = b.
Proof. rewrite N.lxor_assoc, N.lxor_nilpotent, N.lxor_0_r. reflexivity. Qed.

(* ------------------------------------------------------------------ the walk over the hex pairs *)
Lemma walk7_cons2 s a b r :
  walk7 s (a :: b :: r) =
  match hex2 a b with
  | None => Raise E_ValueError
  | Some magic => bind (walk7 (s + 1)%Z r) (fun t => Ok (N.lxor magic (key_at s) :: t))
  end.
Proof. reflexivity. Qed.

Lemma enc_body_cons s b r :
  enc_body s (b :: r) =
  let x := N.lxor b (nth (N.to_nat (s mod 53)) tab_xlat 0) in hexU1 (x / 16) :: hexU1 (x mod 16) :: enc_body (s + 1) r.
Proof. reflexivity. Qed.

Lemma walk7_enc_body pw : forall s, Forall (fun b => b < 256) pw -> walk7 (Z.of_N s) (enc_body s pw) = Ok pw.
Proof.
  induction pw as [|b r IH]; intros s HB.
  - reflexivity.
  - apply Forall_cons_iff in HB. destruct HB as [Hb Hr].
    rewrite enc_body_cons. cbv zeta. rewrite walk7_cons2.
    rewrite hex2_hexU2 by (apply lxor_byte; [exact Hb | apply key_lt_256]).
    replace (Z.of_N s + 1)%Z with (Z.of_N (s + 1)) by lia.
    rewrite (IH (s + 1) Hr). cbn [bind]. rewrite key_at_N, lxor_cancel. reflexivity.
Qed.

Lemma enc_body_odd pw : forall s, Nat.odd (length (enc_body s pw)) = false.
Proof.
  induction pw as [|b r IH]; intros s; [reflexivity|].
  rewrite enc_body_cons. cbv zeta. cbn [length]. rewrite Nat.odd_succ_succ. apply IH.
Qed.
Lemma enc_body_length pw : forall s, length (enc_body s pw) = (2 * length pw)%nat.
Proof.
  induction pw as [|b r IH]; intros s; [reflexivity|].
  rewrite enc_body_cons. cbv zeta. cbn [length]. rewrite IH. lia.
Qed.
Lemma enc_body_not_nl pw : forall s, Forall (fun b => b < 256) pw -> forallb not_nl (enc_body s pw) = true.
Proof.
  induction pw as [|b r IH]; intros s HB; [reflexivity|].
  apply Forall_cons_iff in HB. destruct HB as [Hb Hr].
  rewrite enc_body_cons. cbv zeta. cbn [forallb].
  destruct (hexU2_not_nl (N.lxor b (nth (N.to_nat (s mod 53)) tab_xlat 0))) as [H1 H2];
    [apply lxor_byte; [exact Hb | apply key_lt_256]|].
  rewrite H1, H2, (IH (s + 1) Hr). reflexivity.
Qed.
Lemma take_while_all p s : forallb p s = true -> take_while p s = s.
Proof.
  induction s as [|c r IH]; intros H; [reflexivity|].
  cbn [forallb] in H. apply andb_true_iff in H. destruct H as [Hc Hr]. cbn [take_while]. rewrite Hc, (IH Hr). reflexivity.
Qed.

(* ------------------------------------------------------------------ the round trip *)
Lemma decrypt7_encrypt7 salt pw :
  salt < 100 -> pw <> [] -> Forall (fun b => b < 256) pw -> decrypt7 (encrypt7 salt pw) = Ok pw.
Proof.
  intros Hs Hne HB.
  destruct pw as [|b r]; [contradiction|].
  pose proof (enc_body_not_nl (b :: r) salt HB) as Hnl.
  pose proof (walk7_enc_body (b :: r) salt HB) as Hw.
  pose proof (enc_body_odd (b :: r) salt) as Hodd.
  unfold encrypt7, decrypt7.
  replace (Nat.odd (length (two_digits salt ++ enc_body salt (b :: r)))) with false
    by (unfold two_digits; cbn [app length]; rewrite Nat.odd_succ_succ; symmetry; exact Hodd).
  revert Hnl Hw. rewrite enc_body_cons. cbv zeta.
  set (x := N.lxor b (nth (N.to_nat (salt mod 53)) tab_xlat 0)).
  set (rest := enc_body (salt + 1) r).
  intros Hnl Hw.
  unfold two_digits. cbn [app].
  destruct (two_digits_not_nl salt Hs) as [N1 N2]. rewrite N1, N2.
  cbn [forallb] in Hnl. apply andb_true_iff in Hnl. destruct Hnl as [N3 Hnl]. rewrite N3. cbn [andb].
  pose proof (two_digits_int salt Hs) as HI. unfold two_digits in HI. rewrite HI.
  rewrite take_while_all by (cbn [forallb]; rewrite N3; exact Hnl).
  exact Hw.
Qed.

(* the shape of a type-7 string: two decimal digits, then two upper-case hex digits per byte *)
Definition is_upper_hex (c : char) : bool := is_digit c || (N.leb 65 c && N.leb c 70).
Lemma hexU1_upper y : y < 16 -> is_upper_hex (hexU1 y) = true.
Proof.
  intros H. assert (F : forallb (fun z => is_upper_hex (hexU1 z)) (below 16) = true) by (vm_compute; reflexivity).
  exact (forallb_below _ 16 F y H).
Qed.
Lemma encrypt7_shape salt pw : salt < 100 -> Forall (fun b => b < 256) pw ->
  exists d1 d2 body, encrypt7 salt pw = d1 :: d2 :: body /\ is_digit d1 = true /\ is_digit d2 = true /\
    (Z.of_N (10 * (d1 - 48) + (d2 - 48)) = Z.of_N salt) /\ length body = (2 * length pw)%nat /\ forallb is_upper_hex body = true.
Proof.
  intros Hs HB. exists (48 + salt / 10), (48 + salt mod 10), (enc_body salt pw).
  assert (F : forallb (fun s => is_digit (48 + s / 10) && is_digit (48 + s mod 10) && (10 * (48 + s / 10 - 48) + (48 + s mod 10 - 48) =? s)) (below 100) = true)
    by (vm_compute; reflexivity).
  pose proof (forallb_below _ 100 F salt Hs) as G. cbv beta in G.
  apply andb_true_iff in G. destruct G as [G G3]. apply andb_true_iff in G. destruct G as [G1 G2]. apply N.eqb_eq in G3.
  repeat split; try assumption.
  - rewrite G3. reflexivity.
  - apply enc_body_length.
  - clear - HB. revert salt. induction pw as [|b r IH]; intros s; [reflexivity|].
    apply Forall_cons_iff in HB. destruct HB as [Hb Hr]. rewrite enc_body_cons. cbv zeta. cbn [forallb].
    assert (Hx : N.lxor b (nth (N.to_nat (s mod 53)) tab_xlat 0) < 256) by (apply lxor_byte; [exact Hb | apply key_lt_256]).
    rewrite !hexU1_upper, (IH Hr); [reflexivity | |].
    + apply N.mod_lt. discriminate.
    + apply N.div_lt_upper_bound; [discriminate | exact Hx].
Qed.

(* ------------------------------------------------------------------ pwd_check *)
Lemma pwd_check_total pw : pwd_check pw = Ok tt \/ pwd_check pw = Raise E_Other.
Proof. unfold pwd_check. destruct (Nat.ltb tab_max_len (length pw)); [right; reflexivity|]. destruct (existsb is_invalid_char pw); auto. Qed.

Lemma is_invalid_char_iff c : is_invalid_char c = true <-> In c tab_invalid_chars.
Proof.
  unfold is_invalid_char. rewrite existsb_exists. split.
  - intros [x [Hx He]]. apply N.eqb_eq in He. subst. exact Hx.
  - intros H. exists c. split; [exact H | apply N.eqb_refl].
Qed.

Lemma pwd_check_spec pw :
  pwd_check pw = Ok tt <-> (length pw <= tab_max_len)%nat /\ Forall (fun c => ~ In c tab_invalid_chars) pw.
Proof.
  unfold pwd_check. destruct (Nat.ltb tab_max_len (length pw)) eqn:EL.
  - apply Nat.ltb_lt in EL. split; [discriminate | intros [H _]; lia].
  - apply Nat.ltb_ge in EL. destruct (existsb is_invalid_char pw) eqn:EI.
    + split; [discriminate|]. intros [_ HF]. exfalso.
      apply existsb_exists in EI. destruct EI as [c [Hc Hi]]. rewrite Forall_forall in HF.
      apply (HF c Hc). apply is_invalid_char_iff. exact Hi.
    + split; [|reflexivity]. intros _. split; [exact EL|]. apply Forall_forall. intros c Hc Hin.
      apply is_invalid_char_iff in Hin.
      assert (existsb is_invalid_char pw = true) as HT by (apply existsb_exists; exists c; split; assumption).
      rewrite HT in EI. discriminate.
Qed.

Lemma required_rejections : tab_max_len = 127%nat /\ In 63 tab_invalid_chars /\ In 34 tab_invalid_chars.
Proof. split; [reflexivity|]. split; vm_compute; tauto. Qed.

Lemma pwd_check_rejects pw : (127 < length pw)%nat \/ In 63 pw \/ In 34 pw -> pwd_check pw = Raise E_Other.
Proof.
  intros H. destruct (pwd_check_total pw) as [HO|HR]; [|exact HR]. exfalso.
  apply pwd_check_spec in HO. destruct HO as [HL HF]. destruct required_rejections as [RM [R1 R2]].
  rewrite Forall_forall in HF.
  destruct H as [H|[H|H]]; [rewrite RM in HL; lia | exact (HF _ H R1) | exact (HF _ H R2)].
Qed.

Lemma type7_roundtrip_accepted salt pw :
  salt < 100 -> pw <> [] -> Forall (fun b => b < 256) pw -> pwd_check pw = Ok tt ->
  bind (encrypt_type_7 salt pw) decrypt7 = Ok pw.
Proof.
  intros Hs Hne HB HC. unfold encrypt_type_7. rewrite HC. cbn [bind]. apply decrypt7_encrypt7; assumption.
Qed.

(* ------------------------------------------------------------------ base-64 translation *)
Fixpoint nodupb (l : list N) : bool :=
  match l with [] => true | x :: r => negb (existsb (N.eqb x) r) && nodupb r end.
Lemma nodupb_NoDup l : nodupb l = true -> NoDup l.
Proof.
  induction l as [|x r IH]; intros H; [constructor|].
  cbn [nodupb] in H. apply andb_true_iff in H. destruct H as [H1 H2]. constructor; [|apply IH; exact H2].
  intros Hin. apply negb_true_iff in H1.
  assert (existsb (N.eqb x) r = true) as HT by (apply existsb_exists; exists x; split; [exact Hin | apply N.eqb_refl]).
  rewrite HT in H1. discriminate.
Qed.

Lemma alphabets_wf :
  length tab_std_b64 = 64%nat /\ length tab_cisco_b64 = 64%nat /\ NoDup tab_std_b64 /\ NoDup tab_cisco_b64 /\
  ~ In PAD tab_std_b64 /\ ~ In PAD tab_cisco_b64 /\ ~ In DOLLAR tab_cisco_b64.
Proof.
  repeat split; try reflexivity; try (apply nodupb_NoDup; vm_compute; reflexivity);
    (intros H; apply (In_nth _ _ 0) in H; destruct H as [i [Hi He]];
     revert He; apply N.eqb_neq;
     match goal with |- N.eqb (nth i ?l 0) ?c = false =>
       assert (F : forallb (fun j => negb (N.eqb (nth (N.to_nat j) l 0) c)) (below 64) = true) by (vm_compute; reflexivity);
       pose proof (forallb_below _ 64 F (N.of_nat i)) as G; cbv beta in G; rewrite Nat2N.id in G;
       apply negb_true_iff; apply G; change (length l) with 64%nat in Hi; lia
     end).
Qed.

Lemma tr_char_index i : i < 64 -> tr_char (b64c tab_std_b64 i) = b64c tab_cisco_b64 i.
Proof.
  intros H.
  assert (F : forallb (fun j => N.eqb (tr_char (b64c tab_std_b64 j)) (b64c tab_cisco_b64 j)) (below 64) = true) by (vm_compute; reflexivity).
  apply N.eqb_eq. exact (forallb_below _ 64 F i H).
Qed.
Lemma tr_char_pad : tr_char PAD = PAD.
Proof. reflexivity. Qed.

Lemma b64_translation_bijective :
  (forall c, In c tab_std_b64 -> In (tr_char c) tab_cisco_b64) /\
  (forall c d, In c tab_std_b64 -> In d tab_std_b64 -> tr_char c = tr_char d -> c = d) /\
  (forall d, In d tab_cisco_b64 -> exists c, In c tab_std_b64 /\ tr_char c = d).
Proof.
  split; [|split].
  - assert (F : forallb (fun c => existsb (N.eqb (tr_char c)) tab_cisco_b64) tab_std_b64 = true) by (vm_compute; reflexivity).
    intros c Hc. rewrite forallb_forall in F. specialize (F c Hc). apply existsb_exists in F.
    destruct F as [x [Hx He]]. apply N.eqb_eq in He. rewrite He. exact Hx.
  - assert (F : forallb (fun c => forallb (fun d => implb (N.eqb (tr_char c) (tr_char d)) (N.eqb c d)) tab_std_b64) tab_std_b64 = true)
      by (vm_compute; reflexivity).
    intros c d Hc Hd He. rewrite forallb_forall in F. specialize (F c Hc). cbv beta in F.
    rewrite forallb_forall in F. specialize (F d Hd). cbv beta in F.
    rewrite He, N.eqb_refl in F. cbn [implb] in F. apply N.eqb_eq. exact F.
  - assert (F : forallb (fun d => existsb (fun c => N.eqb (tr_char c) d) tab_std_b64) tab_cisco_b64 = true) by (vm_compute; reflexivity).
    intros d Hd. rewrite forallb_forall in F. specialize (F d Hd). apply existsb_exists in F.
    destruct F as [c [Hc He]]. apply N.eqb_eq in He. exists c. split; assumption.
Qed.

(* index bounds of the four sextets *)
Lemma sx1 a : a < 256 -> a / 4 < 64.
Proof. intros. apply N.div_lt_upper_bound; [discriminate | exact H]. Qed.
Lemma sx2 a b : b < 256 -> (a mod 4) * 16 + b / 16 < 64.
Proof.
  intros Hb. assert (a mod 4 < 4) by (apply N.mod_lt; discriminate).
  assert (b / 16 < 16) by (apply N.div_lt_upper_bound; [discriminate | exact Hb]). lia.
Qed.
Lemma sx2' a : (a mod 4) * 16 < 64.
Proof. assert (a mod 4 < 4) by (apply N.mod_lt; discriminate). lia. Qed.
Lemma sx3 b c : c < 256 -> (b mod 16) * 4 + c / 64 < 64.
Proof.
  intros Hc. assert (b mod 16 < 16) by (apply N.mod_lt; discriminate).
  assert (c / 64 < 4) by (apply N.div_lt_upper_bound; [discriminate | exact Hc]). lia.
Qed.
Lemma sx3' b : (b mod 16) * 4 < 64.
Proof. assert (b mod 16 < 16) by (apply N.mod_lt; discriminate). lia. Qed.
Lemma sx4 c : c mod 64 < 64.
Proof. apply N.mod_lt. discriminate. Qed.

Lemma list_ind3 {A} (P : list A -> Prop) :
  P [] -> (forall a, P [a]) -> (forall a b, P [a; b]) -> (forall a b c r, P r -> P (a :: b :: c :: r)) -> forall l, P l.
Proof.
  intros H0 H1 H2 H3 l.
  assert (G : P l /\ (forall a, P (a :: l)) /\ (forall a b, P (a :: b :: l))).
  { induction l as [|c r IH].
    - auto.
    - destruct IH as [I0 [I1 I2]]. split; [apply I1|]. split; [intros a; apply I2|]. intros a b. apply H3. exact I0. }
  exact (proj1 G).
Qed.

Lemma b64enc_cons3 alpha a b c r :
  b64enc alpha (a :: b :: c :: r) =
  b64c alpha (a / 4) :: b64c alpha ((a mod 4) * 16 + b / 16) :: b64c alpha ((b mod 16) * 4 + c / 64)
  :: b64c alpha (c mod 64) :: b64enc alpha r.
Proof. reflexivity. Qed.

(* translating the standard encoding IS encoding with Cisco's alphabet *)
Lemma translate_b64enc bs : Forall (fun b => b < 256) bs ->
  translate (b64enc tab_std_b64 bs) = b64enc tab_cisco_b64 bs.
Proof.
  induction bs as [|a|a b|a b c r IH] using list_ind3; intros HB.
  - reflexivity.
  - apply Forall_cons_iff in HB. destruct HB as [Ha _].
    cbn [b64enc translate map]. rewrite !tr_char_index, tr_char_pad; [reflexivity | apply sx2' | apply sx1; exact Ha].
  - apply Forall_cons_iff in HB. destruct HB as [Ha HB]. apply Forall_cons_iff in HB. destruct HB as [Hb _].
    cbn [b64enc translate map]. rewrite !tr_char_index, tr_char_pad; [reflexivity | apply sx3' | apply sx2; exact Hb | apply sx1; exact Ha].
  - apply Forall_cons_iff in HB. destruct HB as [Ha HB]. apply Forall_cons_iff in HB. destruct HB as [Hb HB].
    apply Forall_cons_iff in HB. destruct HB as [Hc Hr].
    rewrite !b64enc_cons3. unfold translate. cbn [map]. fold (translate (b64enc tab_std_b64 r)). rewrite (IH Hr).
    rewrite !tr_char_index; [reflexivity | apply sx4 | apply sx3; exact Hc | apply sx2; exact Hb | apply sx1; exact Ha].
Qed.

(* whole triples: 4 alphabet characters per 3 bytes, no padding *)
Lemma b64c_in alpha i : length alpha = 64%nat -> i < 64 -> In (b64c alpha i) alpha.
Proof. intros HL Hi. unfold b64c. apply nth_In. rewrite HL. lia. Qed.

Lemma b64enc_triples alpha (HL : length alpha = 64%nat) : forall k l l2,
  length l = (3 * k)%nat -> Forall (fun b => b < 256) l ->
  b64enc alpha (l ++ l2) = b64enc alpha l ++ b64enc alpha l2 /\
  length (b64enc alpha l) = (4 * k)%nat /\ Forall (fun c => In c alpha) (b64enc alpha l).
Proof.
  induction k as [|k IH]; intros l l2 Hlen HB.
  - destruct l; [|discriminate]. repeat split. constructor.
  - destruct l as [|a [|b [|c r]]]; try (cbn [length] in Hlen; lia).
    cbn [length] in Hlen.
    apply Forall_cons_iff in HB. destruct HB as [Ha HB]. apply Forall_cons_iff in HB. destruct HB as [Hb HB].
    apply Forall_cons_iff in HB. destruct HB as [Hc Hr].
    destruct (IH r l2 ltac:(lia) Hr) as [I1 [I2 I3]].
    cbn [app]. rewrite !b64enc_cons3. rewrite I1. cbn [app length]. rewrite I2.
    split; [reflexivity|]. split; [lia|].
    repeat (constructor; [apply b64c_in; [exact HL | first [apply sx1; assumption | apply sx2; assumption | apply sx3; assumption | apply sx4]]|]).
    exact I3.
Qed.

(* the hash field of a type 8 / type 9 string, for every 32-byte digest *)
Lemma cisco_hash_32 d : length d = 32%nat -> Forall (fun b => b < 256) d ->
  b64enc tab_cisco_b64 d = cisco_hash d ++ [PAD] /\ length (cisco_hash d) = 43%nat /\
  Forall (fun c => In c tab_cisco_b64) (cisco_hash d).
Proof.
  intros HL HB. unfold cisco_hash. rewrite (translate_b64enc d HB).
  destruct alphabets_wf as [_ [LC _]].
  rewrite <- (firstn_skipn 30 d) in HB |- *.
  assert (L1 : length (firstn 30 d) = (3 * 10)%nat) by (rewrite firstn_length; lia).
  assert (L2 : length (skipn 30 d) = 2%nat) by (rewrite skipn_length; lia).
  apply Forall_app in HB. destruct HB as [HB1 HB2].
  destruct (skipn 30 d) as [|a [|b [|c t]]]; try discriminate.
  destruct (b64enc_triples tab_cisco_b64 LC 10 (firstn 30 d) [a; b] L1 HB1) as [E1 [E2 E3]].
  rewrite E1. cbn [b64enc].
  apply Forall_cons_iff in HB2. destruct HB2 as [Ha HB2]. apply Forall_cons_iff in HB2. destruct HB2 as [Hb _].
  set (A := b64enc tab_cisco_b64 (firstn 30 d)) in *.
  set (x := b64c tab_cisco_b64 (a / 4)). set (y := b64c tab_cisco_b64 ((a mod 4) * 16 + b / 16)).
  set (z := b64c tab_cisco_b64 ((b mod 16) * 4)).
  replace (A ++ [x; y; z; PAD]) with ((A ++ [x; y; z]) ++ [PAD]) by (rewrite <- app_assoc; reflexivity).
  rewrite removelast_last.
  split; [reflexivity|]. split.
  - rewrite app_length, E2. reflexivity.
  - apply Forall_app. split; [exact E3|].
    repeat (constructor; [apply b64c_in; [exact LC | first [apply sx1; assumption | apply sx2; assumption | apply sx3']]|]).
    constructor.
Qed.

Lemma type89_layout kind salt d : length d = 32%nat -> Forall (fun b => b < 256) d ->
  type89_string kind salt d = [DOLLAR; kind; DOLLAR] ++ salt ++ [DOLLAR] ++ firstn 43 (b64enc tab_cisco_b64 d) /\
  length (type89_string kind salt d) = (3 + length salt + 1 + 43)%nat.
Proof.
  intros HL HB. destruct (cisco_hash_32 d HL HB) as [E [L _]].
  unfold type89_string. rewrite E. rewrite <- L at 1. rewrite firstn_app, firstn_all, Nat.sub_diag. cbn [firstn].
  rewrite app_nil_r. split; [reflexivity|]. rewrite !app_length. cbn [length]. unfold str, char in *. rewrite L. lia.
Qed.
