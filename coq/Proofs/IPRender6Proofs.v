(* C11: the string rendering of an IPv6 address (Model/IPRender6.v, tied to str(IPv6Obj.ip) / as_cidr_addr / as_cidr_net by the
   render6 stream) re-parses to the same value, for every 128-bit value. *)
From Coq Require Import List Arith Bool NArith ZArith Lia.
Require Import CCP.Lib.PyStr CCP.Model.IPText CCP.Model.IPText6 CCP.Model.IPRender6
               CCP.Proofs.IPTextProofs CCP.Proofs.IPText6Proofs CCP.Proofs.IPText6Compressed.
Import ListNotations.

(* ---- the eight groups of a value ---- *)
Lemma groups_rev_length n a : length (groups_rev n a) = n.
Proof. revert a. induction n as [|k IH]; intros a; cbn [groups_rev length]; [reflexivity|]. now rewrite IH. Qed.
Lemma groups_rev_lt16 n : forall a, Forall lt16 (groups_rev n a).
Proof.
  induction n as [|k IH]; intros a; cbn [groups_rev]; constructor; [|apply IH].
  unfold lt16. pose proof (Z.mod_pos_bound a 65536 ltac:(lia)). lia.
Qed.
Lemma value_of_snoc gs g : value_of (gs ++ [g]) = (value_of gs * 65536 + Z.of_N g)%Z.
Proof. unfold value_of. rewrite fold_left_app. reflexivity. Qed.
Lemma value_of_groups_rev n : forall a, (0 <= a)%Z -> value_of (rev (groups_rev n a)) = (a mod 65536 ^ Z.of_nat n)%Z.
Proof.
  induction n as [|k IH]; intros a Ha.
  - cbn. now rewrite Z.mod_1_r.
  - cbn [groups_rev rev]. rewrite value_of_snoc, IH by (apply Z.div_pos; lia).
    rewrite Z2N.id by (apply Z.mod_pos_bound; lia).
    rewrite Nat2Z.inj_succ, Z.pow_succ_r by lia.
    rewrite (Z.rem_mul_r a 65536 (65536 ^ Z.of_nat k)) by (try lia; apply Z.pow_pos_nonneg; lia). lia.
Qed.
Lemma groups_of_value_facts a : (0 <= a < 2 ^ 128)%Z ->
  (length (groups_of_value a) = 8)%nat /\ Forall lt16 (groups_of_value a) /\ value_of (groups_of_value a) = a.
Proof.
  intros H. unfold groups_of_value. split; [rewrite rev_length; apply groups_rev_length|]. split.
  - apply Forall_rev. apply groups_rev_lt16.
  - rewrite value_of_groups_rev by lia. change (65536 ^ Z.of_nat 8)%Z with (2 ^ 128)%Z. apply Z.mod_small. exact H.
Qed.

(* ---- the chosen run really is a run of zeros ---- *)
Lemma zprefix_spec gs : gs = repeat 0%N (zprefix gs) ++ skipn (zprefix gs) gs /\ zprefix gs <= length gs.
Proof.
  induction gs as [|g r IH]; [split; [reflexivity|cbn; lia]|]. cbn [zprefix]. destruct g as [|p]; [|split; [reflexivity|cbn; lia]].
  destruct IH as [A B]. cbn [repeat skipn app length]. split; [f_equal; exact A|lia].
Qed.

Definition run_ok (gs : list N) (bs bl : nat) : Prop :=
  bs + bl <= length gs /\ gs = firstn bs gs ++ repeat 0%N bl ++ skipn (bs + bl) gs.

Lemma firstn_app_exact {A} (a b : list A) : firstn (length a) (a ++ b) = a.
Proof. induction a as [|x a IH]; cbn; [reflexivity|]. now rewrite IH. Qed.
Lemma skipn_app_exact {A} (a b : list A) n : skipn (length a + n) (a ++ b) = skipn n b.
Proof. induction a as [|x a IH]; cbn; [reflexivity|exact IH]. Qed.

Lemma best_run_ok gs0 : forall gs pre bs bl, gs0 = pre ++ gs -> run_ok gs0 bs bl ->
  run_ok gs0 (fst (best_run gs (length pre) bs bl)) (snd (best_run gs (length pre) bs bl)).
Proof.
  induction gs as [|g r IH]; intros pre bs bl E H; [exact H|]. cbn [best_run].
  assert (E' : gs0 = (pre ++ [g]) ++ r) by (rewrite <- app_assoc; exact E).
  assert (L : S (length pre) = length (pre ++ [g])) by (rewrite app_length; cbn; lia).
  destruct (bl <? zprefix (g :: r)).
  - rewrite L. apply IH; [exact E'|].
    destruct (zprefix_spec (g :: r)) as [A B]. unfold run_ok. rewrite E at 1. rewrite app_length. split; [lia|].
    rewrite E. rewrite firstn_app_exact, skipn_app_exact. rewrite <- A. reflexivity.
  - rewrite L. apply IH; [exact E'|exact H].
Qed.

Lemma best_run_spec gs : let '(bs, bl) := best_run gs 0 0 0 in run_ok gs bs bl.
Proof.
  pose proof (best_run_ok gs gs [] 0 0 eq_refl) as H. cbn [length] in H.
  destruct (best_run gs 0 0 0) as [bs bl]. apply H. unfold run_ok. cbn. split; [lia|reflexivity].
Qed.

(* ---- minimal lower-case hex is a spelling ---- *)
Lemma hex_min_all : all_below 65536 (sp_ok hex_min) = true.
Proof. vm_compute. reflexivity. Qed.
Lemma hex_min_spelling : spelling hex_min.
Proof. apply sp_ok_spelling. exact hex_min_all. Qed.

Lemma side_r_side gs : side_r gs = side hex_min gs.
Proof. reflexivity. Qed.

(* ---- the rendering re-parses ---- *)
Theorem render6_parses a : (0 <= a < 2 ^ 128)%Z -> v6_parse (render6 a) = Some (a, 128%Z).
Proof.
  intros Ha. destruct (groups_of_value_facts a Ha) as (L8 & F16 & V).
  unfold render6. pose proof (best_run_spec (groups_of_value a)) as R.
  destruct (best_run (groups_of_value a) 0 0 0) as [bs bl]. destruct R as [R1 R2].
  set (gs := groups_of_value a) in *.
  destruct (bl <? 2) eqn:E2.
  - (* no "::" : eight groups *)
    destruct gs as [|g0 [|g1 [|g2 [|g3 [|g4 [|g5 [|g6 [|g7 [|g8 r]]]]]]]]]; cbn [length] in L8; try lia.
    pose proof (v6_parse_full hex_min g0 g1 g2 g3 g4 g5 g6 g7 128 false [] [] hex_min_spelling F16 ltac:(lia) eq_refl eq_refl) as P.
    cbn [app] in P. rewrite !app_nil_r in P. unfold full_text in P. rewrite P, V. reflexivity.
  - apply Nat.ltb_ge in E2.
    pose proof (v6_parse_compressed hex_min (firstn bs gs) (skipn (bs + bl) gs) 128 false [] [] hex_min_spelling) as P.
    assert (Fh : Forall lt16 (firstn bs gs)) by (apply Forall_firstn_f; exact F16).
    assert (Fl : Forall lt16 (skipn (bs + bl) gs)) by (apply Forall_skipn_f; exact F16).
    assert (Lh : length (firstn bs gs) = bs) by (rewrite firstn_length; lia).
    assert (Ll : length (skipn (bs + bl) gs) = 8 - (bs + bl)) by (rewrite skipn_length; lia).
    specialize (P Fh Fl ltac:(lia) ltac:(lia) eq_refl eq_refl).
    cbn [app] in P. rewrite !app_nil_r in P. unfold ctext, cparts in P. change side_r with (side hex_min). rewrite P.
    rewrite Lh, Ll. replace (8 - (bs + (8 - (bs + bl)))) with bl by lia. rewrite <- R2, V. reflexivity.
Qed.

Lemma render6_noslash a : (0 <= a < 2 ^ 128)%Z ->
  forallb (fun x => negb (N.eqb x c_slash)) (render6 a) = true /\ existsb (N.eqb c_pct) (render6 a) = false /\
  forallb (fun x => negb (is_space x)) (render6 a) = true /\ render6 a <> [] /\ length (render6 a) <= 45 /\
  v6_addr (render6 a) = Some a.
Proof.
  intros Ha. destruct (groups_of_value_facts a Ha) as (L8 & F16 & V).
  unfold render6. pose proof (best_run_spec (groups_of_value a)) as R.
  destruct (best_run (groups_of_value a) 0 0 0) as [bs bl]. destruct R as [R1 R2].
  set (gs := groups_of_value a) in *.
  destruct (bl <? 2) eqn:E2.
  - destruct gs as [|g0 [|g1 [|g2 [|g3 [|g4 [|g5 [|g6 [|g7 [|g8 r]]]]]]]]]; cbn [length] in L8; try lia.
    destruct (full_addr hex_min g0 g1 g2 g3 g4 g5 g6 g7 hex_min_spelling F16) as (A1 & A2 & A3 & A4 & A5 & A6).
    unfold full_text in *. rewrite V in A1. repeat split; try assumption. lia.
  - apply Nat.ltb_ge in E2.
    assert (Fh : Forall lt16 (firstn bs gs)) by (apply Forall_firstn_f; exact F16).
    assert (Fl : Forall lt16 (skipn (bs + bl) gs)) by (apply Forall_skipn_f; exact F16).
    assert (Lh : length (firstn bs gs) = bs) by (rewrite firstn_length; lia).
    assert (Ll : length (skipn (bs + bl) gs) = 8 - (bs + bl)) by (rewrite skipn_length; lia).
    destruct (ctext_shape hex_min (firstn bs gs) (skipn (bs + bl) gs) hex_min_spelling Fh Fl ltac:(lia)) as (S1 & S2 & S3 & S4 & S5).
    pose proof (v6_addr_compressed hex_min (firstn bs gs) (skipn (bs + bl) gs) hex_min_spelling Fh Fl ltac:(lia)) as P.
    unfold ctext, cparts in *. change side_r with (side hex_min). repeat split; try assumption.
    rewrite P, Lh, Ll. replace (8 - (bs + (8 - (bs + bl)))) with bl by lia. rewrite <- R2, V. reflexivity.
Qed.

(* ... and with "/len": as_cidr_addr / as_cidr_net re-parse to (value, len) *)
Theorem render6_cidr_parses a p : (0 <= a < 2 ^ 128)%Z -> (0 <= p <= 128)%Z ->
  v6_parse (render6_cidr a p) = Some (a, p).
Proof.
  intros Ha Hp. destruct (render6_noslash a Ha) as (S1 & S2 & S3 & S4 & S5 & S6).
  pose proof (v6_parse_wrap (render6 a) a p true [] [] S6 S1 S2 S3 S4 S5 Hp eq_refl eq_refl) as P.
  cbn [app] in P. rewrite !app_nil_r in P. exact P.
Qed.

Example render6_ex : render6 1 = [58; 58; 49]%N /\ render6 0 = [58; 58]%N /\
  render6 (2 ^ 112) = [49; 58; 58]%N /\                                          (* "1::" *)
  render6 (2 ^ 112 + 2 ^ 48 + 1) = [49; 58; 58; 49; 58; 48; 58; 48; 58; 49]%N.     (* "1::1:0:0:1": the leftmost longest run *)
Proof. repeat split; vm_compute; reflexivity. Qed.

(* different addresses never print the same *)
Corollary render6_injective a b : (0 <= a < 2 ^ 128)%Z -> (0 <= b < 2 ^ 128)%Z -> render6 a = render6 b -> a = b.
Proof.
  intros Ha Hb E. pose proof (render6_parses a Ha) as Pa. pose proof (render6_parses b Hb) as Pb.
  rewrite E in Pa. rewrite Pa in Pb. inversion Pb. reflexivity.
Qed.
