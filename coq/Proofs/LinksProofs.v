(* C02: the cache-based parent pass computes exactly the indentation rule. *)
From Coq Require Import List Arith Bool Lia.
Require Import CCP.Lib.PyStr CCP.Model.Links.
Import ListNotations.

Definition Inv (st : state) : Prop :=
  forall k p, lookup k (cache st) = Some p ->
    0 < k /\ k <= maxi st /\ nearest (seen st) k = Some p.

Lemma lookup_filter k c f :
  lookup k (filter (fun kv : nat * nat => f (fst kv)) c) =
  if f k then lookup k c else None.
Proof.
  induction c as [|[k' v] c IH]; simpl.
  - destruct (f k); reflexivity.
  - destruct (f k') eqn:Ef; simpl.
    + destruct (k' =? k) eqn:E.
      * apply Nat.eqb_eq in E; subst. rewrite Ef. reflexivity.
      * exact IH.
    + destruct (k' =? k) eqn:E.
      * apply Nat.eqb_eq in E; subst. rewrite IH, Ef. reflexivity.
      * exact IH.
Qed.

Lemma step_parent st l : Inv st ->
  parents (step st l) = parents st ++ [spec_parent (seen st) l].
Proof.
  intros HI. unfold step, spec_parent; cbn [parents]. f_equal. f_equal.
  destruct (ind l =? 0) eqn:E0.
  - apply Nat.eqb_eq in E0.
    replace (0 <? ind l) with false by (symmetry; apply Nat.ltb_ge; lia). reflexivity.
  - apply Nat.eqb_neq in E0.
    replace (0 <? ind l) with true by (symmetry; apply Nat.ltb_lt; lia).
    destruct (cfg l && (ind l <? maxi st)) eqn:Epr.
    + destruct (nearest (seen st) (ind l)); [reflexivity | destruct (cmt l && _); reflexivity].
    + destruct (lookup (ind l) (cache st)) as [p|] eqn:El.
      * destruct (HI _ _ El) as (_ & _ & Hn). rewrite Hn. reflexivity.
      * destruct (nearest (seen st) (ind l)); [reflexivity | destruct (cmt l && _); reflexivity].
Qed.

Lemma step_inv st l : Inv st -> Inv (step st l).
Proof.
  intros HI k p. unfold step; cbn [cache seen maxi].
  set (prune := cfg l && (ind l <? maxi st)).
  assert (Hnear : forall k q, nearest (seen st) k = Some q -> (cfg l && (ind l <? k)) = false ->
                              nearest (l :: seen st) k = Some q).
  { intros k0 q Hq Hf. cbn [nearest]. rewrite Hf. exact Hq. }
  assert (Hc1 : forall k q,
            lookup k (if prune then filter (fun kv => fst kv <? ind l) (cache st) else cache st) = Some q ->
            0 < k /\ k <= maxi st /\ nearest (seen st) k = Some q /\ (cfg l && (ind l <? k)) = false).
  { intros k0 q. destruct prune eqn:Ep.
    - rewrite (lookup_filter k0 (cache st) (fun x => x <? ind l)).
      destruct (k0 <? ind l) eqn:Elt; [|discriminate]. intros H.
      destruct (HI _ _ H) as (A & B & C). repeat split; auto.
      apply Nat.ltb_lt in Elt. destruct (cfg l); simpl; auto. apply Nat.ltb_ge. lia.
    - intros H. destruct (HI _ _ H) as (A & B & C). repeat split; auto.
      unfold prune in Ep. destruct (cfg l); simpl in *; auto.
      apply Nat.ltb_ge in Ep. apply Nat.ltb_ge. lia. }
  assert (Hmax : forall k, 0 < k -> k <= maxi st -> (cfg l && (ind l <? k)) = false ->
                 k <= (if (ind l =? 0) && cfg l then 0 else Nat.max (maxi st) (ind l))).
  { intros k0 Hpos Hle Hf. destruct (ind l =? 0) eqn:E0; simpl.
    - apply Nat.eqb_eq in E0. destruct (cfg l); simpl in *; [|lia].
      rewrite E0 in Hf. apply Nat.ltb_ge in Hf. lia.
    - lia. }
  destruct (0 <? ind l) eqn:Epos.
  2:{ intros H. destruct (Hc1 _ _ H) as (A & B & C & D). repeat split; auto. }
  destruct (if prune then None else lookup (ind l) (cache st)) as [p0|] eqn:Ep0.
  { intros H. destruct (Hc1 _ _ H) as (A & B & C & D). repeat split; auto. }
  destruct (nearest (seen st) (ind l)) as [w|] eqn:Ew.
  2:{ intros H. destruct (Hc1 _ _ H) as (A & B & C & D). repeat split; auto. }
  cbn [lookup]. destruct (ind l =? k) eqn:Ek.
  - apply Nat.eqb_eq in Ek; subst k. intros H; inversion H; subst p.
    apply Nat.ltb_lt in Epos. repeat split; auto.
    + destruct (ind l =? 0) eqn:E0; [apply Nat.eqb_eq in E0; lia|]. simpl. lia.
    + apply Hnear; auto. rewrite Nat.ltb_irrefl. apply andb_false_r.
  - intros H. destruct (Hc1 _ _ H) as (A & B & C & D). repeat split; auto.
Qed.

Lemma step_seen st l : seen (step st l) = l :: seen st.
Proof. reflexivity. Qed.

Lemma run_gen ls : forall st, Inv st ->
  parents (fold_left step ls st) = parents st ++ spec_from (seen st) ls.
Proof.
  induction ls as [|l r IH]; intros st HI; cbn [fold_left spec_from].
  - now rewrite app_nil_r.
  - rewrite IH by (apply step_inv; exact HI).
    rewrite step_parent by exact HI.
    rewrite <- app_assoc. reflexivity.
Qed.

Lemma inv_init : Inv init.
Proof. intros k p H; discriminate H. Qed.

Theorem links_parent ls : bootstrap_parents ls = spec_parents ls.
Proof. unfold bootstrap_parents, run, spec_parents. rewrite run_gen by apply inv_init. reflexivity. Qed.

(* ---- children: the append events are exactly "child i under its assigned parent", in line order *)
Fixpoint edges_of (i : nat) (ps : list (option nat)) : list (nat * nat) :=
  match ps with
  | [] => []
  | Some p :: r => (p, i) :: edges_of (S i) r
  | None :: r => edges_of (S i) r
  end.

Lemma edges_of_app i a b : edges_of i (a ++ b) = edges_of i a ++ edges_of (i + length a) b.
Proof.
  revert i; induction a as [|[p|] a IH]; intros i; cbn [edges_of app length].
  - now rewrite Nat.add_0_r.
  - rewrite IH. replace (S i + length a) with (i + S (length a)) by lia. reflexivity.
  - rewrite IH. replace (S i + length a) with (i + S (length a)) by lia. reflexivity.
Qed.

Definition EInv (st : state) : Prop :=
  length (parents st) = length (seen st) /\ edges st = edges_of 0 (parents st).

Lemma step_einv st l : EInv st -> EInv (step st l).
Proof.
  intros [HL HE]. unfold EInv, step; cbn [parents seen edges].
  split; [rewrite app_length; cbn; lia|].
  rewrite edges_of_app. cbn [plus]. rewrite HL.
  match goal with |- context [match ?a with Some _ => _ | None => _ end] => destruct a as [p|] end;
    cbn [edges_of]; rewrite HE; [reflexivity | now rewrite app_nil_r].
Qed.

Lemma run_einv ls : forall st, EInv st -> EInv (fold_left step ls st).
Proof. induction ls as [|l r IH]; intros st H; cbn [fold_left]; auto. apply IH. apply step_einv; exact H. Qed.

Lemma children_of_edges_of p : forall ps i,
  children_of (edges_of i ps) p = indices_with p i ps.
Proof.
  induction ps as [|[q|] r IH]; intros i; cbn [edges_of indices_with]; try reflexivity.
  - unfold children_of in *. cbn [filter fst]. destruct (q =? p) eqn:E; cbn [map snd]; rewrite IH; reflexivity.
  - apply IH.
Qed.

Theorem links_children ls p : bootstrap_children ls p = spec_children ls p.
Proof.
  unfold bootstrap_children, spec_children.
  assert (HE : EInv (run ls)) by (apply run_einv; split; reflexivity).
  destruct HE as [_ HE]. rewrite HE. rewrite children_of_edges_of.
  fold (bootstrap_parents ls). rewrite links_parent. reflexivity.
Qed.

(* ---- the rule in the words of the property *)
Lemma nearest_spec seen k j : nearest seen k = Some j <->
  (j < length seen /\ exists l, nth_error (rev seen) j = Some l /\ cfg l = true /\ ind l < k /\
     forall j' l', j < j' -> nth_error (rev seen) j' = Some l' -> ~ (cfg l' = true /\ ind l' < k)).
Proof.
  induction seen as [|h t IH]; cbn [nearest].
  - split; [discriminate|]. intros [H _]. cbn in H. lia.
  - cbn [rev length].
    destruct (cfg h && (ind h <? k)) eqn:E.
    + apply andb_true_iff in E. destruct E as [Ec Ei]. apply Nat.ltb_lt in Ei.
      split.
      * intros H; inversion H; subst j. split; [lia|]. exists h. rewrite nth_error_app2 by (rewrite rev_length; lia).
        rewrite rev_length, Nat.sub_diag. cbn. repeat split; auto.
        intros j' l' Hj Hn. exfalso.
        assert (nth_error (rev t ++ [h]) j' = None) by (apply nth_error_None; rewrite app_length, rev_length; cbn; lia).
        congruence.
      * intros (Hlt & l & Hn & Hc & Hi & Hmax).
        destruct (Nat.eq_dec j (length t)) as [->|Hne]; [reflexivity|exfalso].
        apply (Hmax (length t) h); [lia| |auto].
        rewrite nth_error_app2 by (rewrite rev_length; lia). rewrite rev_length, Nat.sub_diag. reflexivity.
    + rewrite IH. split.
      * intros (Hlt & l & Hn & Hc & Hi & Hmax). split; [lia|]. exists l.
        rewrite nth_error_app1 by (rewrite rev_length; lia). repeat split; auto.
        intros j' l' Hj Hn'. destruct (Nat.lt_ge_cases j' (length t)) as [Hl|Hg].
        -- rewrite nth_error_app1 in Hn' by (rewrite rev_length; lia). eapply Hmax; eauto.
        -- rewrite nth_error_app2 in Hn' by (rewrite rev_length; lia). rewrite rev_length in Hn'.
           destruct (j' - length t) as [|d] eqn:Ed; cbn in Hn'; [|destruct d; discriminate].
           inversion Hn'; subst l'. intros [Hc' Hi'].
           rewrite Hc' in E. cbn in E. apply Nat.ltb_ge in E. lia.
      * intros (Hlt & l & Hn & Hc & Hi & Hmax).
        assert (Hjt : j < length t).
        { destruct (Nat.lt_ge_cases j (length t)) as [Hl|Hg]; [exact Hl|exfalso].
          assert (j = length t) by lia. subst j.
          rewrite nth_error_app2 in Hn by (rewrite rev_length; lia). rewrite rev_length, Nat.sub_diag in Hn.
          cbn in Hn. inversion Hn; subst l. rewrite Hc in E. cbn in E. apply Nat.ltb_ge in E. lia. }
        split; [exact Hjt|]. exists l. rewrite nth_error_app1 in Hn by (rewrite rev_length; lia).
        repeat split; auto. intros j' l' Hj Hn'. apply (Hmax j' l'); auto.
        rewrite nth_error_app1; auto. apply nth_error_Some. congruence.
Qed.

(* a line with no leading whitespace is a root; so is a comment directly below a deeper line *)
Lemma spec_root_unindented seen l : ind l = 0 -> spec_parent seen l = None.
Proof. intros E. unfold spec_parent. rewrite E. reflexivity. Qed.
Lemma spec_comment_exception seen l : cmt l = true -> ind l < hd_ind seen -> spec_parent seen l = None.
Proof.
  intros Hc Hi. unfold spec_parent. destruct (ind l =? 0); [reflexivity|].
  rewrite Hc. replace (ind l <? hd_ind seen) with true by (symmetry; apply Nat.ltb_lt; exact Hi). reflexivity.
Qed.
Lemma spec_indented seen l : 0 < ind l -> (cmt l && (ind l <? hd_ind seen)) = false ->
  spec_parent seen l = nearest seen (ind l).
Proof.
  intros Hp He. unfold spec_parent. destruct (ind l =? 0) eqn:E0; [apply Nat.eqb_eq in E0; lia|].
  rewrite He. reflexivity.
Qed.

(* the links are a function of (indent, is_config, is_comment) only: syntax / factory do not enter *)
Lemma links_depend_on_linfo_only (d1 d2 : list char) (t1 t2 : list str) :
  map (linfo_of d1) t1 = map (linfo_of d2) t2 ->
  bootstrap_parents (map (linfo_of d1) t1) = bootstrap_parents (map (linfo_of d2) t2).
Proof. intros ->. reflexivity. Qed.

(* parents precede children *)
Lemma nearest_lt seen k j : nearest seen k = Some j -> j < length seen.
Proof. intros H. apply nearest_spec in H. tauto. Qed.

Lemma spec_from_lt : forall ls seen i p,
  nth_error (spec_from seen ls) i = Some (Some p) -> p < length seen + i.
Proof.
  induction ls as [|l r IH]; intros seen i p H; cbn [spec_from] in H.
  - destruct i; discriminate.
  - destruct i as [|i]; cbn in H.
    + inversion H as [H1]. unfold spec_parent in H1.
      destruct (ind l =? 0); [discriminate|]. destruct (cmt l && _); [discriminate|].
      apply nearest_lt in H1. lia.
    + apply IH in H. cbn in H. lia.
Qed.

Theorem parent_before_child ls i p : nth_error (bootstrap_parents ls) i = Some (Some p) -> p < i.
Proof. rewrite links_parent. unfold spec_parents. intros H. apply spec_from_lt in H. cbn in H. lia. Qed.

(* non-vacuity: indent 0,2,1,2 and a comment after a deeper line *)
Example ex_links : bootstrap_parents [LI 0 true false; LI 2 true false; LI 1 true false; LI 2 true false; LI 1 false true]
                   = [None; Some 0; Some 0; Some 2; None]
  /\ bootstrap_children [LI 0 true false; LI 2 true false; LI 1 true false; LI 2 true false; LI 1 false true] 0 = [1; 2].
Proof. vm_compute. auto. Qed.
