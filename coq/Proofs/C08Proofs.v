(* C08 proofs: the brace scanner (Model/Brace.v). *)
From Coq Require Import NArith List Bool Arith Lia.
Require Import CCP.Lib.PyStr CCP.Lib.Res CCP.gen.TabC08 CCP.Model.Brace.
Import ListNotations.

Lemma tables_as_modelled :
  forallb (fun c => Bool.eqb (is_printable c) (existsb (N.eqb c) pp_printables)) (map N.of_nat (seq 0 300)) = true
  /\ forallb (fun c => N.ltb c 300) pp_printables = true
  /\ forallb (fun c => Bool.eqb (is_pp_white c) (existsb (N.eqb c) pp_white_chars)) (map N.of_nat (seq 0 300)) = true
  /\ forallb (fun c => N.ltb c 300) pp_white_chars = true
  /\ brace_stop_width = 4 /\ convert_stop_width = 4 /\ junos_comment_delims = [[HASH]].
Proof. repeat split; vm_compute; reflexivity. Qed.

(* ================================================================== characters *)
Lemma printable_range c : is_printable c = true -> (33 <= c <= 126)%N.
Proof. unfold is_printable. intros H. apply andb_true_iff in H. destruct H as [A B]. apply N.leb_le in A, B. lia. Qed.

Lemma range_enum c : (33 <= c <= 126)%N -> In c (map N.of_nat (seq 33 94)).
Proof.
  intros H. apply in_map_iff. exists (N.to_nat c). split; [apply N2Nat.id|]. apply in_seq. lia.
Qed.

Lemma printable_not_space c : is_printable c = true -> is_space c = false.
Proof.
  intros H. apply printable_range in H. apply range_enum in H.
  assert (A : forallb (fun c => negb (is_space c)) (map N.of_nat (seq 33 94)) = true) by (vm_compute; reflexivity).
  rewrite forallb_forall in A. specialize (A c H). apply negb_true_iff in A. exact A.
Qed.
Lemma printable_facts c : is_printable c = true ->
  is_pp_white c = false /\ N.eqb c SP = false /\ N.eqb c TAB = false /\ N.eqb c NL = false /\ N.eqb c CRc = false.
Proof.
  intros H. apply printable_range in H. unfold is_pp_white, SP, TAB, NL, CRc.
  assert (A1 : N.eqb c 32 = false) by (apply N.eqb_neq; lia).
  assert (A2 : N.eqb c 9 = false) by (apply N.eqb_neq; lia).
  assert (A3 : N.eqb c 10 = false) by (apply N.eqb_neq; lia).
  assert (A4 : N.eqb c 13 = false) by (apply N.eqb_neq; lia).
  rewrite A1, A2, A3, A4. repeat split; reflexivity.
Qed.

(* a content character other than the space is a printable non-brace *)
Lemma content_nonspace c : is_content c = true -> N.eqb c SP = false -> is_printable c = true /\ is_brace c = false.
Proof.
  unfold is_content. intros H Hs. rewrite Hs, orb_false_r in H. apply andb_true_iff in H. destruct H as [A B].
  apply negb_true_iff in B. auto.
Qed.
Lemma brace_split c : is_brace c = false -> N.eqb c LBRACE = false /\ N.eqb c RBRACE = false.
Proof. unfold is_brace. intros H. apply orb_false_iff in H. exact H. Qed.

Lemma sp_content : is_content SP = true. Proof. reflexivity. Qed.
Lemma semi_content : is_content SEMI = true. Proof. reflexivity. Qed.
Lemma sp_space : is_space SP = true. Proof. reflexivity. Qed.

Lemma all_sp_cons c r : all_sp (c :: r) = true -> c = SP /\ all_sp r = true.
Proof.
  unfold all_sp. cbn [forallb]. intros H. apply andb_true_iff in H. destruct H as [Hc Hr].
  apply N.eqb_eq in Hc. split; [symmetry; exact Hc | exact Hr].
Qed.
Lemma all_sp_content s : all_sp s = true -> forallb is_content s = true.
Proof.
  induction s as [|c r IH]; intros H; [reflexivity|].
  apply all_sp_cons in H. destruct H as [Hc Hr]. subst c. cbn [forallb]. rewrite (IH Hr). reflexivity.
Qed.
Lemma all_sp_space s : all_sp s = true -> forallb is_space s = true.
Proof.
  induction s as [|c r IH]; intros H; [reflexivity|].
  apply all_sp_cons in H. destruct H as [Hc Hr]. subst c. cbn [forallb]. rewrite (IH Hr). reflexivity.
Qed.
Lemma all_sp_app a b : all_sp (a ++ b) = (all_sp a && all_sp b)%bool.
Proof. unfold all_sp. apply forallb_app. Qed.
Lemma all_ws_app a b : all_ws (a ++ b) = (all_ws a && all_ws b)%bool.
Proof. unfold all_ws. apply forallb_app. Qed.

Lemma ws3_white c : is_ws3 c = true -> is_pp_white c = true.
Proof.
  unfold is_ws3, is_pp_white. intros H. apply orb_true_iff in H. destruct H as [H|H].
  - apply orb_true_iff in H. destruct H as [H|H]; rewrite H; [reflexivity | rewrite orb_true_r; reflexivity].
  - rewrite H. rewrite !orb_true_r. reflexivity.
Qed.
Lemma ws3_cases c : is_ws3 c = true -> c = SP \/ (is_lb c = true /\ is_content c = false).
Proof.
  unfold is_ws3, is_lb. intros H. apply orb_true_iff in H. destruct H as [H|H].
  - apply orb_true_iff in H. destruct H as [H|H].
    + left. apply N.eqb_eq in H. exact H.
    + right. apply N.eqb_eq in H. subst c. split; reflexivity.
  - right. apply N.eqb_eq in H. subst c. split; reflexivity.
Qed.
Lemma lb_not_content c : is_lb c = true -> is_content c = false.
Proof.
  unfold is_lb. intros H. apply orb_true_iff in H. destruct H as [H|H]; apply N.eqb_eq in H; subst c; reflexivity.
Qed.
Lemma lb_white c : is_lb c = true -> is_pp_white c = true.
Proof.
  unfold is_lb. intros H. apply orb_true_iff in H. destruct H as [H|H]; apply N.eqb_eq in H; subst c; reflexivity.
Qed.

(* ================================================================== strip / unpack *)
Lemma forallb_app_true {A} (p : A -> bool) a b : forallb p a = true -> forallb p b = true -> forallb p (a ++ b) = true.
Proof. intros Ha Hb. rewrite forallb_app, Ha, Hb. reflexivity. Qed.
Lemma lstrip_by_all p s t : forallb p s = true -> lstrip_by p (s ++ t) = lstrip_by p t.
Proof.
  induction s as [|c r IH]; simpl; intros H; [reflexivity|].
  apply andb_true_iff in H. destruct H as [Hc Hr]. rewrite Hc. apply IH. exact Hr.
Qed.
Lemma forallb_rev' {A} (p : A -> bool) l : forallb p (rev l) = forallb p l.
Proof.
  induction l as [|a l IH]; simpl; [reflexivity|].
  rewrite forallb_app, IH. simpl. rewrite andb_true_r. apply andb_comm.
Qed.

(* x ends with a character that is not stripped; sp is stripped entirely *)
Lemma rstrip_by_tail p x l sp : p l = false -> forallb p sp = true ->
  rstrip_by p ((x ++ [l]) ++ sp) = x ++ [l].
Proof.
  intros Hl Hsp. unfold rstrip_by. rewrite rev_app_distr.
  rewrite lstrip_by_all by (rewrite forallb_rev'; exact Hsp).
  rewrite rev_app_distr. cbn [rev app lstrip_by]. rewrite Hl. cbn [rev]. rewrite rev_involutive. reflexivity.
Qed.

(* a string with first character c0 and last character l, neither of them white *)
Lemma strip_core c0 x l sp : is_space c0 = false -> is_space l = false -> forallb is_space sp = true ->
  strip ((c0 :: x ++ [l]) ++ sp) = c0 :: x ++ [l].
Proof.
  intros H0 Hl Hsp. unfold strip, strip_by. simpl lstrip_by. rewrite H0.
  change (c0 :: (x ++ [l]) ++ sp) with (((c0 :: x) ++ [l]) ++ sp).
  rewrite rstrip_by_tail by assumption. reflexivity.
Qed.
Lemma strip_single c0 sp : is_space c0 = false -> forallb is_space sp = true -> strip (c0 :: sp) = [c0].
Proof.
  intros H0 Hsp. unfold strip, strip_by. simpl lstrip_by. rewrite H0.
  change (c0 :: sp) with (([] ++ [c0]) ++ sp). rewrite rstrip_by_tail by assumption. reflexivity.
Qed.

(* decomposition of a non-empty list into first / middle / last *)
Lemma first_last (s : str) : s <> [] -> (exists c, s = [c]) \/ (exists c x l, s = c :: x ++ [l]).
Proof.
  destruct s as [|c r]; [congruence|]. intros _.
  destruct r as [|c2 r2]; [left; eauto|]. right.
  destruct (exists_last (l := c2 :: r2)) as [x [l E]]; [discriminate|]. exists c, x, l. rewrite E. reflexivity.
Qed.

Lemma rev_last_cons (x : str) l : rev (x ++ [l]) = l :: rev x.
Proof. rewrite rev_app_distr. reflexivity. Qed.

(* strip of  text ++ spaces  for a text whose first and last characters are not white *)
Lemma strip_text t sp :
  match t with c :: _ => is_space c = false | [] => False end ->
  match rev t with l :: _ => is_space l = false | [] => False end ->
  forallb is_space sp = true -> strip (t ++ sp) = t.
Proof.
  intros Hf Hl Hsp. destruct (first_last t) as [[c E]|[c [x [l E]]]].
  - destruct t; [contradiction | discriminate].
  - subst t. simpl in Hf. simpl. apply strip_single; assumption.
  - subst t. simpl in Hf. change (rev (c :: x ++ [l])) with (rev ((c :: x) ++ [l])) in Hl.
    rewrite rev_last_cons in Hl. apply strip_core; assumption.
Qed.

Lemma drop_semi_yes x : drop_semi (x ++ [SEMI]) = x.
Proof. unfold drop_semi. rewrite rev_last_cons. simpl. apply rev_involutive. Qed.
Lemma drop_semi_no t : match rev t with l :: _ => N.eqb l SEMI = false | [] => True end -> drop_semi t = t.
Proof. unfold drop_semi. destruct (rev t) as [|l r]; [reflexivity|]. intros H. rewrite H. reflexivity. Qed.

(* facts packed in wf_text *)
Lemma wf_text_facts t : wf_text t = true ->
  exists c0 t', t = c0 :: t' /\ forallb is_content t = true /\ is_printable c0 = true /\ is_brace c0 = false
    /\ N.eqb c0 DQ = false /\ N.eqb c0 SQ = false
    /\ match rev t with l :: _ => is_space l = false /\ N.eqb l SEMI = false | [] => False end.
Proof.
  unfold wf_text. destruct t as [|c0 t']; [discriminate|]. intros H.
  apply andb_true_iff in H. destruct H as [H H5].
  apply andb_true_iff in H. destruct H as [H Hsq].
  apply andb_true_iff in H. destruct H as [H Hdq].
  apply andb_true_iff in H. destruct H as [H Hsp].
  apply negb_true_iff in Hsp, Hdq, Hsq.
  assert (Hc0 : is_content c0 = true).
  { cbn [forallb] in H. apply andb_true_iff in H. tauto. }
  destruct (content_nonspace c0 Hc0 Hsp) as [Hp Hb].
  exists c0, t'. repeat split; try assumption.
  - destruct (rev (c0 :: t')) as [|l r] eqn:E; [discriminate|].
    apply andb_true_iff in H5. destruct H5 as [L1 L2]. apply negb_true_iff in L1, L2.
    assert (Hl : In l (c0 :: t')) by (apply in_rev; rewrite E; left; reflexivity).
    rewrite forallb_forall in H. specialize (H l Hl).
    destruct (content_nonspace l H L1) as [Hpl _]. apply printable_not_space in Hpl. tauto.
Qed.

(* the token of a statement unpacks to the indented statement text *)
Lemma unpack_raw sw d text trail (semi : bool) trail2 sp :
  wf_text text = true -> all_sp trail = true -> all_sp trail2 = true -> all_sp sp = true ->
  unpack sw (d, text ++ trail ++ (if semi then [SEMI] else []) ++ trail2 ++ sp) = indent_of sw d ++ text.
Proof.
  intros Ht H1 H2 H3. destruct (wf_text_facts text Ht) as [c0 [t' [E [Hc [Hp [Hb [Hdq [Hsq Hl]]]]]]]].
  unfold unpack, indent_of. cbn [fst snd]. f_equal.
  assert (Hf : match text with c :: _ => is_space c = false | [] => False end).
  { rewrite E. apply printable_not_space. exact Hp. }
  assert (Hl1 : match rev text with l :: _ => is_space l = false | [] => False end).
  { destruct (rev text); [exact Hl | tauto]. }
  apply all_sp_space in H1. apply all_sp_space in H2. apply all_sp_space in H3.
  destruct semi.
  - replace (text ++ trail ++ [SEMI] ++ trail2 ++ sp) with (((text ++ trail) ++ [SEMI]) ++ (trail2 ++ sp))
      by (rewrite <- !app_assoc; reflexivity).
    assert (S1 : strip (((text ++ trail) ++ [SEMI]) ++ trail2 ++ sp) = (text ++ trail) ++ [SEMI]).
    { apply strip_text.
      - rewrite E. simpl. apply printable_not_space. exact Hp.
      - rewrite rev_last_cons. reflexivity.
      - apply forallb_app_true; assumption. }
    rewrite S1. rewrite drop_semi_yes. apply strip_text; assumption.
  - simpl app.
    assert (S1 : strip (text ++ trail ++ trail2 ++ sp) = text).
    { apply strip_text; try assumption. repeat apply forallb_app_true; assumption. }
    rewrite S1. rewrite drop_semi_no.
    + rewrite <- (app_nil_r text) at 1. apply strip_text; try assumption. reflexivity.
    + destruct (rev text); [exact I | tauto].
Qed.

(* ================================================================== scanning *)
Definition cons_line (l : str) (r : result (list str)) : result (list str) := bind r (fun x => Ok (l :: x)).
Definition prepend (ls : list str) (r : result (list str)) : result (list str) := bind r (fun x => Ok (ls ++ x)).
Definition scan_lines (sw : nat) (m : mode) (d : nat) (s : str) : result (list str) :=
  bind (scan m d s) (fun toks => Ok (map (unpack sw) toks)).

Lemma lines_emit sw d acc k :
  bind (emit d acc k) (fun toks => Ok (map (unpack sw) toks))
  = cons_line (unpack sw (d, rev acc)) (bind k (fun toks => Ok (map (unpack sw) toks))).
Proof. destruct k; reflexivity. Qed.

Lemma prepend_nil r : prepend [] r = r.
Proof. destruct r; reflexivity. Qed.
Lemma prepend_cons x l r : prepend (x :: l) r = cons_line x (prepend l r).
Proof. destruct r; reflexivity. Qed.
Lemma prepend_app a b r : prepend (a ++ b) r = prepend a (prepend b r).
Proof. destruct r; simpl; [rewrite app_assoc; reflexivity | reflexivity]. Qed.

Lemma all_ws_cons c r : all_ws (c :: r) = true -> is_ws3 c = true /\ all_ws r = true.
Proof. unfold all_ws. cbn [forallb]. intros H. apply andb_true_iff in H. exact H. Qed.

Lemma scan_skip_ws w d s : all_ws w = true -> scan MSkip d (w ++ s) = scan MSkip d s.
Proof.
  induction w as [|c w IH]; intros H; [reflexivity|].
  apply all_ws_cons in H. destruct H as [Hc Hw]. apply ws3_white in Hc.
  cbn [app scan]. rewrite Hc. apply IH. exact Hw.
Qed.
Lemma all_sp_ws s : all_sp s = true -> all_ws s = true.
Proof.
  induction s as [|c r IH]; intros H; [reflexivity|].
  apply all_sp_cons in H. destruct H as [Hc Hr]. subst c. unfold all_ws. cbn [forallb]. fold (all_ws r). rewrite (IH Hr). reflexivity.
Qed.

Lemma scan_run t : forall acc d s, forallb is_content t = true ->
  scan (MRun acc) d (t ++ s) = scan (MRun (rev t ++ acc)) d s.
Proof.
  induction t as [|c t IH]; intros acc d s H; [reflexivity|].
  cbn [forallb] in H. apply andb_true_iff in H. destruct H as [Hc Ht].
  cbn [app scan]. rewrite Hc. unfold char, str in *. rewrite (IH (c :: acc) d s Ht). cbn [rev]. rewrite <- app_assoc. reflexivity.
Qed.

Lemma not_content_not_quote c : is_content c = false -> (N.eqb c DQ || N.eqb c SQ)%bool = false.
Proof.
  intros H. destruct (N.eqb c DQ) eqn:E1.
  - apply N.eqb_eq in E1. subst c. discriminate.
  - destruct (N.eqb c SQ) eqn:E2; [|reflexivity]. apply N.eqb_eq in E2. subst c. discriminate.
Qed.

Lemma scan_run_stop acc d c r : is_content c = false ->
  scan (MRun acc) d (c :: r) = emit d acc (scan MSkip d (c :: r)).
Proof.
  intros H. cbn [scan]. rewrite H. rewrite (not_content_not_quote c H).
  destruct (is_pp_white c); [reflexivity|]. destruct (N.eqb c LBRACE); [reflexivity|].
  destruct (N.eqb c RBRACE); reflexivity.
Qed.

Definition run_stops (s : str) : Prop :=
  exists sp rest, s = sp ++ rest /\ all_sp sp = true /\ match rest with [] => True | c :: _ => is_content c = false end.

Lemma scan_run_end acc d s : run_stops s ->
  exists sp, all_sp sp = true /\ scan (MRun acc) d s = emit d (rev sp ++ acc) (scan MSkip d s).
Proof.
  intros [sp [rest [E [Hsp Hrest]]]]. subst s. exists sp. split; [exact Hsp|].
  rewrite scan_run by (apply all_sp_content; exact Hsp).
  rewrite scan_skip_ws by (apply all_sp_ws; exact Hsp).
  destruct rest as [|c r]; [reflexivity|]. apply scan_run_stop. exact Hrest.
Qed.

Lemma ws_run_stops w c r : all_ws w = true -> is_content c = false -> run_stops (w ++ c :: r).
Proof.
  intros Hw Hc. induction w as [|c' w IH].
  - exists [], (c :: r). repeat split; assumption.
  - apply all_ws_cons in Hw. destruct Hw as [Hc' Hw]. destruct (ws3_cases c' Hc') as [E|[_ Hn]].
    + subst c'. destruct (IH Hw) as [sp [rest [E [Hsp Hrest]]]].
      exists (SP :: sp), rest. split; [cbn [app]; rewrite E; reflexivity|]. split; [|exact Hrest].
      unfold all_sp. cbn [forallb]. fold (all_sp sp). rewrite Hsp. reflexivity.
    + exists [], (c' :: w ++ c :: r). repeat split; assumption.
Qed.
Lemma lb_run_stops c r s : is_lb c = true -> run_stops ((c :: r) ++ s).
Proof. intros H. exists [], ((c :: r) ++ s). repeat split. cbn [app]. apply lb_not_content. exact H. Qed.

(* a token that starts with a printable non-brace non-quote character *)
Lemma scan_token d c0 x rest :
  is_printable c0 = true -> is_brace c0 = false -> N.eqb c0 DQ = false -> N.eqb c0 SQ = false ->
  forallb is_content x = true -> run_stops rest ->
  exists sp, all_sp sp = true /\
    scan MSkip d ((c0 :: x) ++ rest) = emit d (rev ((c0 :: x) ++ sp)) (scan MSkip d rest).
Proof.
  intros Hp Hb Hdq Hsq Hx Hr.
  destruct (printable_facts c0 Hp) as [Hw _]. destruct (brace_split c0 Hb) as [Hl Hrb].
  destruct (scan_run_end (rev x ++ [c0]) d rest Hr) as [sp [Hsp E]]. exists sp. split; [exact Hsp|].
  cbn [app scan]. rewrite Hw, Hl, Hrb, Hdq, Hsq. cbn [orb].
  assert (Hc : is_content c0 = true) by (unfold is_content; rewrite Hp, Hb; reflexivity).
  rewrite Hc. rewrite scan_run by exact Hx. unfold char, str in *. rewrite E.
  f_equal. cbn [rev]. rewrite rev_app_distr, <- app_assoc. reflexivity.
Qed.

Lemma scan_open d r : scan MSkip d (LBRACE :: r) = scan MSkip (S d) r.
Proof. reflexivity. Qed.
Lemma scan_close d r : scan MSkip (S d) (RBRACE :: r) = scan MSkip d r.
Proof. reflexivity. Qed.

Lemma wf_term_ws term : wf_term term = true -> all_ws term = true.
Proof.
  unfold wf_term. destruct term as [|c r]; [discriminate|]. intros H. apply andb_true_iff in H. destruct H as [Hc Hr].
  unfold all_ws. cbn [forallb]. fold (all_ws r). rewrite Hr.
  unfold is_lb in Hc. unfold is_ws3. apply orb_true_iff in Hc. destruct Hc as [Hc|Hc]; rewrite Hc; [rewrite orb_true_r|]; rewrite ?orb_true_r; reflexivity.
Qed.

Lemma scan_leaf sw d pre text trail (semi : bool) trail2 term s :
  all_ws pre = true -> wf_text text = true -> all_sp trail = true -> all_sp trail2 = true -> all_ws term = true ->
  run_stops (term ++ s) ->
  scan_lines sw MSkip d (pre ++ text ++ trail ++ (if semi then [SEMI] else []) ++ trail2 ++ term ++ s)
  = cons_line (indent_of sw d ++ text) (scan_lines sw MSkip d s).
Proof.
  intros Hpre Ht H1 H2 Hterm Hstop. unfold scan_lines. rewrite scan_skip_ws by exact Hpre.
  destruct (wf_text_facts text Ht) as [c0 [t' [E [Hc [Hp [Hb [Hdq [Hsq Hl]]]]]]]].
  assert (Hx : forallb is_content (t' ++ trail ++ (if semi then [SEMI] else []) ++ trail2) = true).
  { rewrite E in Hc. cbn [forallb] in Hc. apply andb_true_iff in Hc. destruct Hc as [_ Hc].
    repeat apply forallb_app_true; try assumption; try (apply all_sp_content; assumption).
    destruct semi; reflexivity. }
  destruct (scan_token d c0 _ (term ++ s) Hp Hb Hdq Hsq Hx Hstop) as [sp [Hsp Es]].
  replace (text ++ trail ++ (if semi then [SEMI] else []) ++ trail2 ++ term ++ s)
    with ((c0 :: t' ++ trail ++ (if semi then [SEMI] else []) ++ trail2) ++ term ++ s)
    by (rewrite E; cbn [app]; rewrite <- !app_assoc; reflexivity).
  unfold char, str in *. rewrite Es. rewrite lines_emit. rewrite rev_involutive. rewrite scan_skip_ws by exact Hterm.
  f_equal.
  etransitivity; [|apply (unpack_raw sw d text trail semi trail2 sp); assumption].
  f_equal. f_equal. rewrite E. cbn [app]. rewrite <- !app_assoc. reflexivity.
Qed.

(* ================================================================== the layout induction *)
Scheme ltree_mind := Induction for ltree Sort Prop
  with lforest_mind := Induction for lforest Sort Prop.
Combined Scheme ltree_lforest_ind from ltree_mind, lforest_mind.

Definition P_tree (sw : nat) (t : ltree) : Prop := forall d s lo,
  wf_ltree lo t = true -> (lo = true -> run_stops s) ->
  scan_lines sw MSkip d (render_tree t ++ s)
  = prepend (lines_tree sw d t) (scan_lines sw MSkip (d + unclosed_tree t) s).
Definition P_forest (sw : nat) (f : lforest) : Prop := forall d s cf,
  wf_lforest cf f = true -> (cf = true -> run_stops s) ->
  scan_lines sw MSkip d (render_forest f ++ s)
  = prepend (lines_forest sw d f) (scan_lines sw MSkip (d + unclosed_forest f) s).

Lemma lbrace_not_content : is_content LBRACE = false. Proof. reflexivity. Qed.
Lemma rbrace_not_content : is_content RBRACE = false. Proof. reflexivity. Qed.

Lemma scan_layout sw : (forall t, P_tree sw t) /\ (forall f, P_forest sw f).
Proof.
  apply ltree_lforest_ind.
  - (* leaf *)
    intros pre text trail semi trail2 term d s lo Hwf Hs.
    cbn [wf_ltree] in Hwf.
    apply andb_true_iff in Hwf. destruct Hwf as [Hwf Hterm].
    apply andb_true_iff in Hwf. destruct Hwf as [Hwf H2].
    apply andb_true_iff in Hwf. destruct Hwf as [Hwf H1].
    apply andb_true_iff in Hwf. destruct Hwf as [Hpre Ht].
    cbn [render_tree lines_tree unclosed_tree]. rewrite Nat.add_0_r.
    rewrite prepend_cons, prepend_nil. rewrite <- !app_assoc.
    apply scan_leaf; try assumption.
    + apply orb_true_iff in Hterm. destruct Hterm as [Hterm|Hterm].
      * apply wf_term_ws. exact Hterm.
      * apply andb_true_iff in Hterm. destruct Hterm as [_ Hterm]. destruct term; [reflexivity | discriminate].
    + apply orb_true_iff in Hterm. destruct Hterm as [Hterm|Hterm].
      * unfold wf_term in Hterm. destruct term as [|c r]; [discriminate|].
        apply andb_true_iff in Hterm. destruct Hterm as [Hc _]. apply lb_run_stops. exact Hc.
      * apply andb_true_iff in Hterm. destruct Hterm as [Hlo Hterm]. destruct term; [|discriminate].
        cbn [app]. apply Hs. exact Hlo.
  - (* block *)
    intros pre text gap kids IHk pre_close closed d s lo Hwf Hs.
    cbn [wf_ltree] in Hwf.
    apply andb_true_iff in Hwf. destruct Hwf as [Hwf Hkids].
    apply andb_true_iff in Hwf. destruct Hwf as [Hwf Hpc].
    apply andb_true_iff in Hwf. destruct Hwf as [Hwf Hgap].
    apply andb_true_iff in Hwf. destruct Hwf as [Hpre Ht].
    cbn [render_tree lines_tree unclosed_tree]. rewrite <- !app_assoc. cbn [app].
    destruct (wf_text_facts text Ht) as [c0 [t' [E [Hc [Hp [Hb [Hdq [Hsq Hl]]]]]]]].
    assert (Hx : forallb is_content t' = true).
    { rewrite E in Hc. cbn [forallb] in Hc. apply andb_true_iff in Hc. tauto. }
    set (R := render_forest kids ++ pre_close ++ (if closed then [RBRACE] else []) ++ s).
    assert (Hstop : run_stops (gap ++ LBRACE :: R)) by (apply ws_run_stops; [exact Hgap | reflexivity]).
    destruct (scan_token d c0 t' (gap ++ LBRACE :: R) Hp Hb Hdq Hsq Hx Hstop) as [sp [Hsp Es]].
    unfold scan_lines at 1. rewrite scan_skip_ws by exact Hpre.
    rewrite E. subst R. unfold char, str in *. cbn [app] in Es. cbn [app]. rewrite Es.
    rewrite lines_emit. rewrite rev_involutive. rewrite scan_skip_ws by exact Hgap. rewrite scan_open.
    match goal with |- context [bind (scan MSkip (S d) ?X) ?F] =>
      change (bind (scan MSkip (S d) X) F) with (scan_lines sw MSkip (S d) X) end.
    rewrite (IHk (S d) _ closed Hkids).
    + rewrite prepend_cons. f_equal.
      * etransitivity; [|apply (unpack_raw sw d (c0 :: t') [] false [] sp); try reflexivity; try assumption].
        -- cbn [app]. reflexivity.
        -- rewrite <- E. exact Ht.
      * f_equal. unfold scan_lines. rewrite scan_skip_ws by exact Hpc.
        destruct closed.
        -- cbn [app Nat.add]. rewrite scan_close. rewrite Nat.add_0_r. reflexivity.
        -- cbn [app]. replace (S d + unclosed_forest kids) with (d + (unclosed_forest kids + 1)) by lia. reflexivity.
    + intros Hcl. subst closed. apply ws_run_stops; [exact Hpc | reflexivity].
  - (* empty forest *)
    intros d s cf _ _. cbn [render_forest lines_forest unclosed_forest app]. rewrite Nat.add_0_r, prepend_nil. reflexivity.
  - (* cons *)
    intros t IHt r IHr d s cf Hwf Hs.
    cbn [wf_lforest] in Hwf. apply andb_true_iff in Hwf. destruct Hwf as [Hwt Hwr].
    cbn [render_forest lines_forest unclosed_forest]. rewrite <- app_assoc.
    rewrite (IHt d (render_forest r ++ s) _ Hwt).
    + rewrite (IHr (d + unclosed_tree t) s cf Hwr Hs). rewrite prepend_app, Nat.add_assoc. reflexivity.
    + intros Hlo. apply andb_true_iff in Hlo. destruct Hlo as [Hcf Hnil]. destruct r; [|discriminate].
      cbn [render_forest app]. apply Hs. exact Hcf.
Qed.

(* ================================================================== lines of a complete layout = flattened tree *)
Lemma lines_flatten sw :
  (forall t d, unclosed_tree t = 0 -> lines_tree sw d t = flatten_tree sw d (erase_tree t))
  /\ (forall f d, unclosed_forest f = 0 -> lines_forest sw d f = flatten_forest sw d (erase_forest f)).
Proof.
  apply ltree_lforest_ind.
  - intros; reflexivity.
  - intros pre text gap kids IHk pre_close closed d H. cbn [unclosed_tree] in H.
    cbn [lines_tree erase_tree flatten_tree]. f_equal. apply IHk. lia.
  - intros; reflexivity.
  - intros t IHt r IHr d H. cbn [unclosed_forest] in H.
    cbn [lines_forest erase_forest flatten_forest].
    assert (Ht : unclosed_tree t = 0) by lia. assert (Hr : unclosed_forest r = 0) by lia.
    rewrite Ht, Nat.add_0_r. rewrite (IHt d Ht), (IHr d Hr). reflexivity.
Qed.

(* ================================================================== no tabs: expandtabs is the identity *)
Definition no_tab (s : str) : bool := forallb (fun c => negb (N.eqb c TAB)) s.
Lemma expandtabs_aux_id s : forall col, no_tab s = true -> expandtabs_aux col s = s.
Proof.
  unfold no_tab. induction s as [|c r IH]; intros col H; [reflexivity|].
  cbn [forallb] in H. apply andb_true_iff in H. destruct H as [Hc Hr]. apply negb_true_iff in Hc.
  cbn [expandtabs_aux]. rewrite Hc. destruct (N.eqb c NL || N.eqb c CRc)%bool; rewrite IH by exact Hr; reflexivity.
Qed.
Lemma no_tab_app a b : no_tab a = true -> no_tab b = true -> no_tab (a ++ b) = true.
Proof. apply forallb_app_true. Qed.
Lemma ws_no_tab w : all_ws w = true -> no_tab w = true.
Proof.
  induction w as [|c r IH]; intros H; [reflexivity|]. apply all_ws_cons in H. destruct H as [Hc Hr].
  unfold no_tab. cbn [forallb]. fold (no_tab r). rewrite (IH Hr), andb_true_r.
  destruct (ws3_cases c Hc) as [E|[Hl _]]; [subst c; reflexivity|].
  unfold is_lb in Hl. apply orb_true_iff in Hl. destruct Hl as [Hl|Hl]; apply N.eqb_eq in Hl; subst c; reflexivity.
Qed.
Lemma content_no_tab t : forallb is_content t = true -> no_tab t = true.
Proof.
  induction t as [|c r IH]; intros H; [reflexivity|]. cbn [forallb] in H. apply andb_true_iff in H. destruct H as [Hc Hr].
  unfold no_tab. cbn [forallb]. fold (no_tab r). rewrite (IH Hr), andb_true_r.
  destruct (N.eqb c TAB) eqn:E; [|reflexivity]. apply N.eqb_eq in E. subst c. discriminate.
Qed.
Lemma leaf_term_ws lo term : (wf_term term || (lo && match term with [] => true | _ => false end))%bool = true -> all_ws term = true.
Proof.
  intros H. apply orb_true_iff in H. destruct H as [H|H]; [apply wf_term_ws; exact H|].
  apply andb_true_iff in H. destruct H as [_ H]. destruct term; [reflexivity | discriminate].
Qed.

Lemma render_no_tab :
  (forall t lo, wf_ltree lo t = true -> no_tab (render_tree t) = true)
  /\ (forall f cf, wf_lforest cf f = true -> no_tab (render_forest f) = true).
Proof.
  apply ltree_lforest_ind.
  - intros pre text trail semi trail2 term lo Hwf. cbn [wf_ltree] in Hwf.
    apply andb_true_iff in Hwf. destruct Hwf as [Hwf Hterm].
    apply andb_true_iff in Hwf. destruct Hwf as [Hwf H2].
    apply andb_true_iff in Hwf. destruct Hwf as [Hwf H1].
    apply andb_true_iff in Hwf. destruct Hwf as [Hpre Ht].
    destruct (wf_text_facts text Ht) as [c0 [t' [E [Hc _]]]].
    cbn [render_tree]. repeat apply no_tab_app.
    + apply ws_no_tab; exact Hpre.
    + apply content_no_tab; exact Hc.
    + apply ws_no_tab, all_sp_ws; exact H1.
    + destruct semi; reflexivity.
    + apply ws_no_tab, all_sp_ws; exact H2.
    + apply ws_no_tab. eapply leaf_term_ws. exact Hterm.
  - intros pre text gap kids IHk pre_close closed lo Hwf. cbn [wf_ltree] in Hwf.
    apply andb_true_iff in Hwf. destruct Hwf as [Hwf Hkids].
    apply andb_true_iff in Hwf. destruct Hwf as [Hwf Hpc].
    apply andb_true_iff in Hwf. destruct Hwf as [Hwf Hgap].
    apply andb_true_iff in Hwf. destruct Hwf as [Hpre Ht].
    destruct (wf_text_facts text Ht) as [c0 [t' [E [Hc _]]]].
    cbn [render_tree]. repeat apply no_tab_app.
    + apply ws_no_tab; exact Hpre.
    + apply content_no_tab; exact Hc.
    + apply ws_no_tab; exact Hgap.
    + reflexivity.
    + eapply IHk. exact Hkids.
    + apply ws_no_tab; exact Hpc.
    + destruct closed; reflexivity.
  - intros; reflexivity.
  - intros t IHt r IHr cf Hwf. cbn [wf_lforest] in Hwf. apply andb_true_iff in Hwf. destruct Hwf as [Hwt Hwr].
    cbn [render_forest]. apply no_tab_app; [eapply IHt; exact Hwt | eapply IHr; exact Hwr].
Qed.

(* the first character of a rendering is never a brace *)
Definition head_brace (s : str) : bool := match s with c :: _ => is_brace c | [] => false end.
Lemma head_brace_ws w rest : all_ws w = true -> head_brace rest = false -> head_brace (w ++ rest) = false.
Proof.
  destruct w as [|c r]; intros Hw Hr; [exact Hr|]. apply all_ws_cons in Hw. destruct Hw as [Hc _].
  cbn [app head_brace]. destruct (ws3_cases c Hc) as [E|[Hl _]]; [subst c; reflexivity|].
  unfold is_lb in Hl. apply orb_true_iff in Hl. destruct Hl as [Hl|Hl]; apply N.eqb_eq in Hl; subst c; reflexivity.
Qed.
Lemma head_brace_tree t lo rest : wf_ltree lo t = true -> head_brace (render_tree t ++ rest) = false.
Proof.
  destruct t as [pre text trail semi trail2 term | pre text gap kids pre_close closed]; intros Hwf; cbn [wf_ltree] in Hwf.
  - apply andb_true_iff in Hwf. destruct Hwf as [Hwf _].
    apply andb_true_iff in Hwf. destruct Hwf as [Hwf _].
    apply andb_true_iff in Hwf. destruct Hwf as [Hwf _].
    apply andb_true_iff in Hwf. destruct Hwf as [Hpre Ht].
    destruct (wf_text_facts text Ht) as [c0 [t' [E [_ [_ [Hb _]]]]]].
    cbn [render_tree]. rewrite <- !app_assoc. apply head_brace_ws; [exact Hpre|]. rewrite E. exact Hb.
  - apply andb_true_iff in Hwf. destruct Hwf as [Hwf _].
    apply andb_true_iff in Hwf. destruct Hwf as [Hwf _].
    apply andb_true_iff in Hwf. destruct Hwf as [Hwf _].
    apply andb_true_iff in Hwf. destruct Hwf as [Hpre Ht].
    destruct (wf_text_facts text Ht) as [c0 [t' [E [_ [_ [Hb _]]]]]].
    cbn [render_tree]. rewrite <- !app_assoc. apply head_brace_ws; [exact Hpre|]. rewrite E. exact Hb.
Qed.
Lemma head_brace_top top fin : wf_lforest true top = true -> all_ws fin = true -> head_brace (render_forest top ++ fin) = false.
Proof.
  intros Hwf Hfin. destruct top as [|t r].
  - cbn [render_forest app]. rewrite <- (app_nil_r fin). apply head_brace_ws; [exact Hfin | reflexivity].
  - cbn [wf_lforest] in Hwf. apply andb_true_iff in Hwf. destruct Hwf as [Hwt _].
    cbn [render_forest]. rewrite <- app_assoc. eapply head_brace_tree. exact Hwt.
Qed.

(* ================================================================== the two main results about brace_lines *)
Lemma brace_lines_layout sw top fin : wf_lforest true top = true -> all_ws fin = true ->
  brace_lines sw (render_forest top ++ fin)
  = prepend (lines_forest sw 0 top)
      (match unclosed_forest top with O => Ok [] | S _ => Raise E_ParseException end).
Proof.
  intros Hwf Hfin. unfold brace_lines, brace_tokens.
  pose proof (head_brace_top top fin Hwf Hfin) as Hh. unfold head_brace in Hh. rewrite Hh.
  assert (Hnt : no_tab ((render_forest top ++ fin) ++ [RBRACE]) = true).
  { repeat apply no_tab_app; [eapply (proj2 render_no_tab); exact Hwf | apply ws_no_tab; exact Hfin | reflexivity]. }
  unfold expandtabs. cbn [expandtabs_aux]. change (N.eqb LBRACE TAB) with false.
  change (N.eqb LBRACE NL || N.eqb LBRACE CRc)%bool with false. cbv iota.
  rewrite expandtabs_aux_id by exact Hnt.
  change (bind (scan MSkip 0 ((render_forest top ++ fin) ++ [RBRACE])) (fun toks => Ok (map (unpack sw) toks)))
    with (scan_lines sw MSkip 0 ((render_forest top ++ fin) ++ [RBRACE])).
  rewrite <- app_assoc.
  rewrite (proj2 (scan_layout sw) top 0 (fin ++ [RBRACE]) true Hwf).
  - f_equal. cbn [Nat.add]. unfold scan_lines. rewrite scan_skip_ws by exact Hfin.
    destruct (unclosed_forest top); reflexivity.
  - intros _. apply ws_run_stops; [exact Hfin | reflexivity].
Qed.

Lemma brace_roundtrip sw top fin : wf_lforest true top = true -> all_ws fin = true -> unclosed_forest top = 0 ->
  brace_lines sw (render_forest top ++ fin) = Ok (flatten_forest sw 0 (erase_forest top)).
Proof.
  intros Hwf Hfin Hu. rewrite brace_lines_layout by assumption. rewrite Hu.
  unfold prepend. cbn [bind]. rewrite app_nil_r. rewrite (proj2 (lines_flatten sw) top 0 Hu). reflexivity.
Qed.

Lemma brace_unclosed_raises sw top fin : wf_lforest true top = true -> all_ws fin = true -> 0 < unclosed_forest top ->
  brace_lines sw (render_forest top ++ fin) = Raise E_ParseException.
Proof.
  intros Hwf Hfin Hu. rewrite brace_lines_layout by assumption.
  destruct (unclosed_forest top); [lia | reflexivity].
Qed.

(* the same through convert_junos_to_ios: the text is given as the list of its lines *)
Lemma convert_roundtrip sw lines top fin : lines <> [] -> join [NL] lines = render_forest top ++ fin ->
  wf_lforest true top = true -> all_ws fin = true -> unclosed_forest top = 0 ->
  convert_junos sw lines = Ok (flatten_forest sw 0 (erase_forest top)).
Proof.
  intros Hne E Hwf Hfin Hu. unfold convert_junos. destruct lines as [|l ls]; [congruence|].
  rewrite E. apply brace_roundtrip; assumption.
Qed.
Lemma convert_unclosed_raises sw lines top fin : lines <> [] -> join [NL] lines = render_forest top ++ fin ->
  wf_lforest true top = true -> all_ws fin = true -> 0 < unclosed_forest top ->
  convert_junos sw lines = Raise E_ParseException.
Proof.
  intros Hne E Hwf Hfin Hu. unfold convert_junos. destruct lines as [|l ls]; [congruence|].
  rewrite E. apply brace_unclosed_raises; assumption.
Qed.

(* ================================================================== parents of the flattened tree *)
Section Parents.
Variable sw : nat.
Hypothesis sw_pos : 0 < sw.

Definition info_of (d : nat) (text : str) : linfo := (d * sw, negb (is_comment_text text), is_comment_text text).
Fixpoint info_tree (d : nat) (t : tree) : list linfo :=
  match t with Node text kids => info_of d text :: info_forest (S d) kids end
with info_forest (d : nat) (f : forest) : list linfo :=
  match f with FNil => [] | FCons t r => info_tree d t ++ info_forest d r end.

Scheme tree_mind := Induction for tree Sort Prop
  with forest_mind := Induction for forest Sort Prop.
Combined Scheme tree_forest_ind from tree_mind, forest_mind.

Fixpoint push (prev : list (nat * linfo)) (i : nat) (ls : list linfo) : list (nat * linfo) :=
  match ls with [] => prev | x :: r => push ((i, x) :: prev) (S i) r end.

Lemma parents_go_app a : forall prev i b,
  parents_go prev i (a ++ b) = parents_go prev i a ++ parents_go (push prev i a) (i + length a) b.
Proof.
  induction a as [|x a IH]; intros prev i b.
  - cbn [app parents_go push length]. rewrite Nat.add_0_r. reflexivity.
  - cbn [app parents_go push length]. rewrite IH. rewrite Nat.add_succ_r. reflexivity.
Qed.

Definition ind_of (x : linfo) : nat := fst (fst x).

Lemma find_parent_push ls : forall prev i x, Forall (fun y => x <= ind_of y) ls ->
  find_parent (push prev i ls) x = find_parent prev x.
Proof.
  induction ls as [|y ls IH]; intros prev i x H; [reflexivity|].
  apply Forall_cons_iff in H. destruct H as [Hy Hls].
  cbn [push]. rewrite IH by exact Hls. destruct y as [[iy cy] my]. cbn [find_parent]. unfold ind_of in Hy. cbn [fst] in Hy.
  assert (E : (iy <? x) = false) by (apply Nat.ltb_ge; exact Hy). rewrite E, andb_false_r. reflexivity.
Qed.

Lemma push_head ls : forall prev i, ls <> [] -> exists j x rest, push prev i ls = (j, x) :: rest /\ In x ls.
Proof.
  induction ls as [|y ls IH]; intros prev i H; [congruence|].
  destruct ls as [|z ls'].
  - exists i, y, prev. split; [reflexivity | left; reflexivity].
  - destruct (IH ((i, y) :: prev) (S i)) as [j [x [rest [E Hin]]]]; [discriminate|].
    exists j, x, rest. split; [exact E | right; exact Hin].
Qed.

Lemma info_ge :
  (forall t d, Forall (fun y => d * sw <= ind_of y) (info_tree d t))
  /\ (forall f d, Forall (fun y => d * sw <= ind_of y) (info_forest d f)).
Proof.
  apply tree_forest_ind.
  - intros text kids IHk d. cbn [info_tree]. constructor; [unfold ind_of, info_of; cbn [fst]; lia|].
    eapply Forall_impl; [|apply (IHk (S d))]. intros y Hy. cbn [Nat.mul] in Hy. lia.
  - intros d. constructor.
  - intros t IHt r IHr d. cbn [info_forest]. apply Forall_app. split; [apply IHt | apply IHr].
Qed.

Lemma info_length :
  (forall t d, length (info_tree d t) = size_tree t) /\ (forall f d, length (info_forest d f) = size_forest f).
Proof.
  apply tree_forest_ind.
  - intros text kids IHk d. cbn [info_tree size_tree length]. rewrite IHk. reflexivity.
  - reflexivity.
  - intros t IHt r IHr d. cbn [info_forest size_forest]. rewrite app_length, IHt, IHr. reflexivity.
Qed.

(* the context in which a forest at depth d is processed *)
Definition ctx_ok (d : nat) (prev : list (nat * linfo)) (p : option nat) : Prop :=
  match d with
  | O => p = None
  | S _ => exists j, p = Some j /\ find_parent prev (d * sw) = Some j
  end.

Definition openers_ok_t (t : tree) : Prop := wf_tree t = true.

Lemma head_deeper_after t d prev i :
  head_deeper (push prev i (info_tree d t)) (d * sw) = match t with Node _ FNil => false | _ => true end.
Proof.
  destruct t as [text kids]. cbn [info_tree push]. destruct kids as [|k ks].
  - cbn [info_forest push head_deeper]. unfold info_of. apply Nat.ltb_irrefl.
  - assert (Hne : info_forest (S d) (FCons k ks) <> []).
    { cbn [info_forest]. destruct k as [tx kk]. cbn [info_tree]. discriminate. }
    destruct (push_head _ ((i, info_of d text) :: prev) (S i) Hne) as [j [x [rest [E Hin]]]].
    rewrite E. destruct x as [[ix cx] mx]. cbn [head_deeper].
    pose proof (proj2 info_ge (FCons k ks) (S d)) as G. rewrite Forall_forall in G. specialize (G _ Hin).
    unfold ind_of in G. cbn [fst] in G. apply Nat.ltb_lt. cbn [Nat.mul] in G. lia.
Qed.

Lemma parents_flat :
  (forall t d prev i p, ctx_ok d prev p -> wf_tree t = true ->
     parents_go prev i (info_tree d t) = tree_parents p (head_deeper prev (d * sw)) i t)
  /\ (forall f d prev i p, ctx_ok d prev p -> wf_forest f = true ->
     parents_go prev i (info_forest d f) = forest_parents p (head_deeper prev (d * sw)) i f).
Proof.
  apply tree_forest_ind.
  - (* node *)
    intros text kids IHk d prev i p Hctx Hwf. cbn [wf_tree] in Hwf.
    apply andb_true_iff in Hwf. destruct Hwf as [Hwf Hkids]. apply andb_true_iff in Hwf. destruct Hwf as [Ht Hop].
    cbn [info_tree parents_go tree_parents]. f_equal.
    + unfold info_of, parent_of. destruct d as [|d'].
      * cbn [ctx_ok] in Hctx. subst p. reflexivity.
      * destruct Hctx as [j [Hp Hf]]. subst p.
        assert (E : (S d' * sw =? 0) = false) by (apply Nat.eqb_neq; cbn [Nat.mul]; lia).
        rewrite E, Hf. reflexivity.
    + destruct kids as [|k ks]; [reflexivity|].
      assert (Hcfg : negb (is_comment_text text) = true) by exact Hop.
      rewrite (IHk (S d) ((i, info_of d text) :: prev) (S i) (Some i)).
      * f_equal. cbn [head_deeper]. unfold info_of. apply Nat.ltb_ge. cbn [Nat.mul]. lia.
      * cbn [ctx_ok]. exists i. split; [reflexivity|]. unfold info_of. cbn [find_parent]. rewrite Hcfg.
        assert (E : (d * sw <? S d * sw) = true) by (apply Nat.ltb_lt; cbn [Nat.mul]; lia). rewrite E. reflexivity.
      * exact Hkids.
  - intros; reflexivity.
  - (* cons *)
    intros t IHt r IHr d prev i p Hctx Hwf. cbn [wf_forest] in Hwf. apply andb_true_iff in Hwf. destruct Hwf as [Hwt Hwr].
    cbn [info_forest forest_parents]. rewrite parents_go_app.
    rewrite (IHt d prev i p Hctx Hwt). f_equal.
    rewrite (proj1 info_length). rewrite (IHr d (push prev i (info_tree d t)) (i + size_tree t) p).
    + rewrite head_deeper_after. reflexivity.
    + destruct d as [|d']; [exact Hctx|]. destruct Hctx as [j [Hp Hf]]. exists j. split; [exact Hp|].
      rewrite find_parent_push; [exact Hf | apply (proj1 info_ge)].
    + exact Hwr.
Qed.

(* line_info of an indented statement text *)
Lemma lstrip_indent n text : match text with c :: _ => is_space c = false | [] => True end ->
  lstrip (repeat SP n ++ text) = text.
Proof.
  intros H. unfold lstrip. rewrite lstrip_by_all.
  - destruct text as [|c r]; [reflexivity|]. cbn [lstrip_by]. rewrite H. reflexivity.
  - induction n as [|n IH]; [reflexivity|]. cbn [repeat forallb]. rewrite IH. reflexivity.
Qed.

Lemma line_info_flat d text : wf_text text = true ->
  line_info [HASH] (indent_of sw d ++ text) = info_of d text.
Proof.
  intros Ht. destruct (wf_text_facts text Ht) as [c0 [t' [E [_ [Hp _]]]]].
  unfold line_info, indent_of. rewrite lstrip_indent by (rewrite E; apply printable_not_space; exact Hp).
  unfold info_of. rewrite app_length, repeat_length. rewrite E. cbn [is_comment_text existsb length].
  rewrite orb_false_r. replace (d * sw + S (length t') - S (length t')) with (d * sw) by lia. reflexivity.
Qed.

Lemma infos_flat :
  (forall t d, wf_tree t = true -> map (line_info [HASH]) (flatten_tree sw d t) = info_tree d t)
  /\ (forall f d, wf_forest f = true -> map (line_info [HASH]) (flatten_forest sw d f) = info_forest d f).
Proof.
  apply tree_forest_ind.
  - intros text kids IHk d Hwf. cbn [wf_tree] in Hwf.
    apply andb_true_iff in Hwf. destruct Hwf as [Hwf Hkids]. apply andb_true_iff in Hwf. destruct Hwf as [Ht _].
    cbn [flatten_tree info_tree map]. rewrite line_info_flat by exact Ht. rewrite IHk by exact Hkids. reflexivity.
  - reflexivity.
  - intros t IHt r IHr d Hwf. cbn [wf_forest] in Hwf. apply andb_true_iff in Hwf. destruct Hwf as [Hwt Hwr].
    cbn [flatten_forest info_forest]. rewrite map_app, IHt, IHr by assumption. reflexivity.
Qed.

Lemma brace_parents f : wf_forest f = true ->
  parents_model (map (line_info [HASH]) (flatten_forest sw 0 f)) = forest_parents None false 0 f.
Proof.
  intros Hwf. rewrite (proj2 infos_flat f 0 Hwf). unfold parents_model.
  apply (proj2 parents_flat f 0 [] 0 None); [reflexivity | exact Hwf].
Qed.

(* indentation of the flattened tree: every line is indented sw * depth, a block's lines are at least
   one level deeper than its opener (this is what composes with C02's links_parent) *)
Lemma flatten_indents f d : wf_forest f = true ->
  Forall (fun y => d * sw <= ind_of y) (map (line_info [HASH]) (flatten_forest sw d f)).
Proof. intros Hwf. rewrite (proj2 infos_flat f d Hwf). apply (proj2 info_ge). Qed.

End Parents.

(* ================================================================== TAB characters in the layout *)
(* pyparsing expands tabs before scanning: the expansion of a layout with tabs is the rendering of a
   tab-free layout of the same tree *)
Fixpoint col_after (col : nat) (s : str) : nat :=
  match s with
  | [] => col
  | c :: r => if N.eqb c TAB then col_after (col + (8 - col mod 8)) r
              else if (N.eqb c NL || N.eqb c CRc)%bool then col_after 0 r
              else col_after (S col) r
  end.
Notation E := expandtabs_aux.

Lemma expandtabs_app a : forall col b, E col (a ++ b) = E col a ++ E (col_after col a) b.
Proof.
  induction a as [|c a IH]; intros col b; [reflexivity|].
  cbn [app expandtabs_aux col_after]. destruct (N.eqb c TAB).
  - rewrite IH, app_assoc. reflexivity.
  - destruct (N.eqb c NL || N.eqb c CRc)%bool; rewrite IH; reflexivity.
Qed.

Lemma all_ws_repeat n : all_ws (repeat SP n) = true.
Proof. induction n as [|n IH]; [reflexivity|]. unfold all_ws. cbn [repeat forallb]. fold (all_ws (repeat SP n)). rewrite IH. reflexivity. Qed.
Lemma all_sp_repeat n : all_sp (repeat SP n) = true.
Proof. induction n as [|n IH]; [reflexivity|]. unfold all_sp. cbn [repeat forallb]. fold (all_sp (repeat SP n)). rewrite IH. reflexivity. Qed.

Lemma ws3_not_tab c : is_ws3 c = true -> N.eqb c TAB = false.
Proof.
  intros H. destruct (ws3_cases c H) as [E1|[Hl _]]; [subst c; reflexivity|].
  unfold is_lb in Hl. apply orb_true_iff in Hl. destruct Hl as [Hl|Hl]; apply N.eqb_eq in Hl; subst c; reflexivity.
Qed.

Lemma E_ws4 w : forall col, all_ws4 w = true -> all_ws (E col w) = true.
Proof.
  unfold all_ws4. induction w as [|c r IH]; intros col H; [reflexivity|].
  cbn [forallb] in H. apply andb_true_iff in H. destruct H as [Hc Hr].
  cbn [expandtabs_aux]. destruct (N.eqb c TAB) eqn:Et.
  - rewrite all_ws_app, all_ws_repeat, IH by exact Hr. reflexivity.
  - unfold is_ws4 in Hc. rewrite Et, orb_false_r in Hc.
    destruct (N.eqb c NL || N.eqb c CRc)%bool; unfold all_ws; cbn [forallb]; rewrite Hc;
      [fold (all_ws (E 0 r)) | fold (all_ws (E (S col) r))]; rewrite IH by exact Hr; reflexivity.
Qed.
Lemma E_spt w : forall col, all_spt w = true -> all_sp (E col w) = true.
Proof.
  unfold all_spt. induction w as [|c r IH]; intros col H; [reflexivity|].
  cbn [forallb] in H. apply andb_true_iff in H. destruct H as [Hc Hr].
  cbn [expandtabs_aux]. destruct (N.eqb c TAB) eqn:Et.
  - rewrite all_sp_app, all_sp_repeat, IH by exact Hr. reflexivity.
  - rewrite orb_false_r in Hc. apply N.eqb_eq in Hc. subst c.
    change (N.eqb SP NL || N.eqb SP CRc)%bool with false. cbv iota.
    unfold all_sp. cbn [forallb]. fold (all_sp (E (S col) r)). rewrite IH by exact Hr. reflexivity.
Qed.
Lemma E_term term col : wf_termT term = true -> wf_term (E col term) = true.
Proof.
  unfold wf_termT. destruct term as [|c r]; [discriminate|]. intros H. apply andb_true_iff in H. destruct H as [Hc Hr].
  cbn [expandtabs_aux].
  assert (Et : N.eqb c TAB = false).
  { unfold is_lb in Hc. apply orb_true_iff in Hc. destruct Hc as [Hc|Hc]; apply N.eqb_eq in Hc; subst c; reflexivity. }
  rewrite Et. unfold is_lb in Hc. rewrite Hc. unfold wf_term. unfold is_lb. rewrite Hc. apply E_ws4. exact Hr.
Qed.
Lemma E_text text col : wf_text text = true -> E col text = text.
Proof.
  intros H. destruct (wf_text_facts text H) as [c0 [t' [_ [Hc _]]]]. apply expandtabs_aux_id. apply content_no_tab. exact Hc.
Qed.
Lemma E_semi (semi : bool) col : E col (if semi then [SEMI] else []) = (if semi then [SEMI] else []).
Proof. destruct semi; reflexivity. Qed.
Lemma E_closer (closed : bool) col : E col (if closed then [RBRACE] else []) = (if closed then [RBRACE] else []).
Proof. destruct closed; reflexivity. Qed.

Fixpoint detab_tree (col : nat) (t : ltree) : ltree :=
  match t with
  | LLeaf pre text trail semi trail2 term =>
      let c1 := col_after col pre in
      let c2 := col_after c1 text in
      let c3 := col_after c2 trail in
      let c4 := col_after c3 (if semi then [SEMI] else []) in
      let c5 := col_after c4 trail2 in
      LLeaf (E col pre) text (E c2 trail) semi (E c4 trail2) (E c5 term)
  | LBlock pre text gap kids pre_close closed =>
      let c1 := col_after col pre in
      let c2 := col_after c1 text in
      let c3 := col_after c2 gap in
      let c4 := col_after c3 [LBRACE] in
      let c5 := col_after c4 (render_forest kids) in
      LBlock (E col pre) text (E c2 gap) (detab_forest c4 kids) (E c5 pre_close) closed
  end
with detab_forest (col : nat) (f : lforest) : lforest :=
  match f with
  | LNil => LNil
  | LCons t r => LCons (detab_tree col t) (detab_forest (col_after col (render_tree t)) r)
  end.

Lemma detab_nil_iff col r : match detab_forest col r with LNil => true | _ => false end = match r with LNil => true | _ => false end.
Proof. destruct r; reflexivity. Qed.

Lemma detab_ok :
  (forall t col lo, wfT_ltree lo t = true ->
     render_tree (detab_tree col t) = E col (render_tree t) /\ wf_ltree lo (detab_tree col t) = true
     /\ erase_tree (detab_tree col t) = erase_tree t /\ unclosed_tree (detab_tree col t) = unclosed_tree t
     /\ forall sw d, lines_tree sw d (detab_tree col t) = lines_tree sw d t)
  /\ (forall f col cf, wfT_lforest cf f = true ->
     render_forest (detab_forest col f) = E col (render_forest f) /\ wf_lforest cf (detab_forest col f) = true
     /\ erase_forest (detab_forest col f) = erase_forest f /\ unclosed_forest (detab_forest col f) = unclosed_forest f
     /\ forall sw d, lines_forest sw d (detab_forest col f) = lines_forest sw d f).
Proof.
  apply ltree_lforest_ind.
  - intros pre text trail semi trail2 term col lo Hwf. cbn [wfT_ltree] in Hwf.
    apply andb_true_iff in Hwf. destruct Hwf as [Hwf Hterm].
    apply andb_true_iff in Hwf. destruct Hwf as [Hwf H2].
    apply andb_true_iff in Hwf. destruct Hwf as [Hwf H1].
    apply andb_true_iff in Hwf. destruct Hwf as [Hpre Ht].
    cbn [detab_tree]. repeat split.
    + cbn [render_tree]. rewrite !expandtabs_app. rewrite (E_text text _ Ht), E_semi. reflexivity.
    + cbn [wf_ltree]. rewrite (E_ws4 pre col Hpre), Ht, (E_spt trail _ H1), (E_spt trail2 _ H2). cbn [andb].
      apply orb_true_iff in Hterm. destruct Hterm as [Hterm|Hterm].
      * rewrite (E_term term _ Hterm). reflexivity.
      * apply andb_true_iff in Hterm. destruct Hterm as [Hlo Hterm]. destruct term; [|discriminate].
        rewrite Hlo. cbn [expandtabs_aux andb]. apply orb_true_r.
  - intros pre text gap kids IHk pre_close closed col lo Hwf. cbn [wfT_ltree] in Hwf.
    apply andb_true_iff in Hwf. destruct Hwf as [Hwf Hkids].
    apply andb_true_iff in Hwf. destruct Hwf as [Hwf Hpc].
    apply andb_true_iff in Hwf. destruct Hwf as [Hwf Hgap].
    apply andb_true_iff in Hwf. destruct Hwf as [Hpre Ht].
    cbn [detab_tree].
    set (c4 := col_after (col_after (col_after (col_after col pre) text) gap) [LBRACE]).
    destruct (IHk c4 closed Hkids) as [K1 [K2 [K3 [K4 K5]]]].
    repeat split.
    + cbn [render_tree]. rewrite !expandtabs_app. rewrite (E_text text _ Ht), E_closer. fold c4. rewrite K1. reflexivity.
    + cbn [wf_ltree]. rewrite (E_ws4 pre col Hpre), Ht, (E_ws4 gap _ Hgap), (E_ws4 pre_close _ Hpc), K2. reflexivity.
    + cbn [erase_tree]. rewrite K3. reflexivity.
    + cbn [unclosed_tree]. rewrite K4. reflexivity.
    + intros sw d. cbn [lines_tree]. rewrite K5. reflexivity.
  - intros col cf _. repeat split.
  - intros t IHt r IHr col cf Hwf. cbn [wfT_lforest] in Hwf. apply andb_true_iff in Hwf. destruct Hwf as [Hwt Hwr].
    destruct (IHt col _ Hwt) as [T1 [T2 [T3 [T4 T5]]]].
    destruct (IHr (col_after col (render_tree t)) cf Hwr) as [R1 [R2 [R3 [R4 R5]]]].
    cbn [detab_forest]. repeat split.
    + cbn [render_forest]. rewrite expandtabs_app, T1, R1. reflexivity.
    + cbn [wf_lforest]. rewrite detab_nil_iff, T2, R2. reflexivity.
    + cbn [erase_forest]. rewrite T3, R3. reflexivity.
    + cbn [unclosed_forest]. rewrite T4, R4. reflexivity.
    + intros sw d. cbn [lines_forest]. rewrite T5, T4, R5. reflexivity.
Qed.

Lemma ws4_not_brace c : is_ws4 c = true -> is_brace c = false.
Proof.
  unfold is_ws4. intros H. apply orb_true_iff in H. destruct H as [H|H].
  - destruct (ws3_cases c H) as [E1|[Hl _]]; [subst c; reflexivity|].
    unfold is_lb in Hl. apply orb_true_iff in Hl. destruct Hl as [Hl|Hl]; apply N.eqb_eq in Hl; subst c; reflexivity.
  - apply N.eqb_eq in H. subst c. reflexivity.
Qed.
Lemma head_brace_ws4 w rest : all_ws4 w = true -> head_brace rest = false -> head_brace (w ++ rest) = false.
Proof.
  destruct w as [|c r]; intros Hw Hr; [exact Hr|]. unfold all_ws4 in Hw. cbn [forallb] in Hw.
  apply andb_true_iff in Hw. destruct Hw as [Hc _]. cbn [app head_brace]. apply ws4_not_brace. exact Hc.
Qed.
Lemma head_brace_topT top fin : wfT_lforest true top = true -> all_ws4 fin = true -> head_brace (render_forest top ++ fin) = false.
Proof.
  intros Hwf Hfin. destruct top as [|t r].
  - cbn [render_forest app]. rewrite <- (app_nil_r fin). apply head_brace_ws4; [exact Hfin | reflexivity].
  - cbn [wfT_lforest] in Hwf. apply andb_true_iff in Hwf. destruct Hwf as [Hwt _].
    cbn [render_forest]. rewrite <- app_assoc.
    destruct t as [pre text trail semi trail2 term | pre text gap kids pre_close closed]; cbn [wfT_ltree] in Hwt.
    + apply andb_true_iff in Hwt. destruct Hwt as [Hwt _]. apply andb_true_iff in Hwt. destruct Hwt as [Hwt _].
      apply andb_true_iff in Hwt. destruct Hwt as [Hwt _]. apply andb_true_iff in Hwt. destruct Hwt as [Hpre Ht].
      destruct (wf_text_facts text Ht) as [c0 [t' [E1 [_ [_ [Hb _]]]]]].
      cbn [render_tree]. rewrite <- !app_assoc. apply head_brace_ws4; [exact Hpre|]. rewrite E1. exact Hb.
    + apply andb_true_iff in Hwt. destruct Hwt as [Hwt _]. apply andb_true_iff in Hwt. destruct Hwt as [Hwt _].
      apply andb_true_iff in Hwt. destruct Hwt as [Hwt _]. apply andb_true_iff in Hwt. destruct Hwt as [Hpre Ht].
      destruct (wf_text_facts text Ht) as [c0 [t' [E1 [_ [_ [Hb _]]]]]].
      cbn [render_tree]. rewrite <- !app_assoc. apply head_brace_ws4; [exact Hpre|]. rewrite E1. exact Hb.
Qed.

(* scanning a complete tab-free text "top fin }" from depth 0 *)
Lemma scan_top sw top fin : wf_lforest true top = true -> all_ws fin = true ->
  scan_lines sw MSkip 0 (render_forest top ++ fin ++ [RBRACE])
  = prepend (lines_forest sw 0 top) (match unclosed_forest top with O => Ok [] | S _ => Raise E_ParseException end).
Proof.
  intros Hwf Hfin. rewrite (proj2 (scan_layout sw) top 0 (fin ++ [RBRACE]) true Hwf).
  - f_equal. cbn [Nat.add]. unfold scan_lines. rewrite scan_skip_ws by exact Hfin.
    destruct (unclosed_forest top); reflexivity.
  - intros _. apply ws_run_stops; [exact Hfin | reflexivity].
Qed.

Lemma brace_lines_layoutT sw top fin : wfT_lforest true top = true -> all_ws4 fin = true ->
  brace_lines sw (render_forest top ++ fin)
  = prepend (lines_forest sw 0 top)
      (match unclosed_forest top with O => Ok [] | S _ => Raise E_ParseException end).
Proof.
  intros Hwf Hfin. unfold brace_lines, brace_tokens.
  pose proof (head_brace_topT top fin Hwf Hfin) as Hh. unfold head_brace in Hh. rewrite Hh.
  unfold expandtabs. cbn [expandtabs_aux]. change (N.eqb LBRACE TAB) with false.
  change (N.eqb LBRACE NL || N.eqb LBRACE CRc)%bool with false. cbv iota.
  rewrite <- app_assoc. rewrite !expandtabs_app.
  destruct (proj2 detab_ok top 1 true Hwf) as [D1 [D2 [_ [D4 D5]]]].
  rewrite <- D1.
  assert (Er : forall col, E col [RBRACE] = [RBRACE]) by (intros; reflexivity). rewrite Er.
  change (bind (scan MSkip 0 (render_forest (detab_forest 1 top) ++ E (col_after 1 (render_forest top)) fin ++ [RBRACE]))
            (fun toks => Ok (map (unpack sw) toks)))
    with (scan_lines sw MSkip 0 (render_forest (detab_forest 1 top) ++ E (col_after 1 (render_forest top)) fin ++ [RBRACE])).
  rewrite scan_top; [|exact D2 | apply E_ws4; exact Hfin]. rewrite D4, D5. reflexivity.
Qed.

Lemma brace_roundtripT sw top fin : wfT_lforest true top = true -> all_ws4 fin = true -> unclosed_forest top = 0 ->
  brace_lines sw (render_forest top ++ fin) = Ok (flatten_forest sw 0 (erase_forest top)).
Proof.
  intros Hwf Hfin Hu. rewrite brace_lines_layoutT by assumption. rewrite Hu.
  unfold prepend. cbn [bind]. rewrite app_nil_r. rewrite (proj2 (lines_flatten sw) top 0 Hu). reflexivity.
Qed.
Lemma brace_unclosed_raisesT sw top fin : wfT_lforest true top = true -> all_ws4 fin = true -> 0 < unclosed_forest top ->
  brace_lines sw (render_forest top ++ fin) = Raise E_ParseException.
Proof.
  intros Hwf Hfin Hu. rewrite brace_lines_layoutT by assumption.
  destruct (unclosed_forest top); [lia | reflexivity].
Qed.
