(* C08 proofs: the brace scanner (Model/Brace.v). *)
From Coq Require Import NArith List Bool Arith Lia.
Require Import CCP.Lib.PyStr CCP.Lib.Res CCP.gen.TabC08 CCP.Model.Brace.
Import ListNotations.

Lemma tables_as_modelled :
  forallb (fun c => Bool.eqb (is_printable c) (existsb (N.eqb c) pp_printables)) (map N.of_nat (seq 0 300)) = true
  /\ forallb (fun c => N.ltb c 300) pp_printables = true
  /\ forallb (fun c => Bool.eqb (is_pp_white c) (existsb (N.eqb c) pp_white_chars)) (map N.of_nat (seq 0 300)) = true
  /\ forallb (fun c => N.ltb c 300) pp_white_chars = true
  /\ brace_stop_width = 4 /\ convert_stop_width = 4
  /\ brace_exclude_chars = [LBRACE; RBRACE] /\ brace_white_arg = [SP] /\ brace_opener = [LBRACE] /\ brace_closer = [RBRACE]
  /\ junos_comment_delims = [[HASH]].
Proof. repeat split; vm_compute; reflexivity. Qed.
