(* C08 proofs: the brace scanner (Model/Brace.v). *)
From Coq Require Import NArith List Bool Arith Lia.
Require Import CCP.Lib.PyStr CCP.Lib.Res CCP.gen.TabC08 CCP.Model.Brace.
Import ListNotations.

Lemma tables_as_modelled :
  forallb (fun c => Bool.eqb (is_printable c) (existsb (N.eqb c) pp_printables)) (map N.of_nat (seq 0 300)) = true
  /\ forallb (fun c => N.ltb c 300) pp_printables = true
  /\ forallb (fun c => Bool.eqb (is_pp_white c) (existsb (N.eqb c) pp_white_chars)) (map N.of_nat (seq 0 300)) = true
  /\ forallb (fun c => N.ltb c 300) pp_white_chars = true
  /\ brace_stop_width = 4 /\ convert_stop_width = 4
  /\ brace_exclude_chars = [LBRACE; RBRACE] /\ brace_white_arg = [SP] /\ brace_opener = [LBRACE] /\ brace_closer = [RBRACE]
  /\ junos_comment_delims = [[HASH]].
Proof. repeat split; vm_compute; reflexivity. Qed.

(* ================================================================== characters *)
Lemma printable_range c : is_printable c = true -> (33 <= c <= 126)%N.
Proof. unfold is_printable. intros H. apply andb_true_iff in H. destruct H as [A B]. apply N.leb_le in A, B. lia. Qed.

Lemma range_enum c : (33 <= c <= 126)%N -> In c (map N.of_nat (seq 33 94)).
Proof.
  intros H. apply in_map_iff. exists (N.to_nat c). split; [apply N2Nat.id|]. apply in_seq. lia.
Qed.

Lemma printable_not_space c : is_printable c = true -> is_space c = false.
Proof.
  intros H. apply printable_range in H. apply range_enum in H.
  assert (A : forallb (fun c => negb (is_space c)) (map N.of_nat (seq 33 94)) = true) by (vm_compute; reflexivity).
  rewrite forallb_forall in A. specialize (A c H). apply negb_true_iff in A. exact A.
Qed.
Lemma printable_facts c : is_printable c = true ->
  is_pp_white c = false /\ N.eqb c SP = false /\ N.eqb c TAB = false /\ N.eqb c NL = false /\ N.eqb c CRc = false.
Proof.
  intros H. apply printable_range in H. unfold is_pp_white, SP, TAB, NL, CRc.
  assert (A1 : N.eqb c 32 = false) by (apply N.eqb_neq; lia).
  assert (A2 : N.eqb c 9 = false) by (apply N.eqb_neq; lia).
  assert (A3 : N.eqb c 10 = false) by (apply N.eqb_neq; lia).
  assert (A4 : N.eqb c 13 = false) by (apply N.eqb_neq; lia).
  rewrite A1, A2, A3, A4. repeat split; reflexivity.
Qed.

(* a content character other than the space is a printable non-brace *)
Lemma content_nonspace c : is_content c = true -> N.eqb c SP = false -> is_printable c = true /\ is_brace c = false.
Proof.
  unfold is_content. intros H Hs. rewrite Hs, orb_false_r in H. apply andb_true_iff in H. destruct H as [A B].
  apply negb_true_iff in B. auto.
Qed.
Lemma brace_split c : is_brace c = false -> N.eqb c LBRACE = false /\ N.eqb c RBRACE = false.
Proof. unfold is_brace. intros H. apply orb_false_iff in H. exact H. Qed.

Lemma sp_content : is_content SP = true. Proof. reflexivity. Qed.
Lemma semi_content : is_content SEMI = true. Proof. reflexivity. Qed.
Lemma sp_space : is_space SP = true. Proof. reflexivity. Qed.

Lemma all_sp_cons c r : all_sp (c :: r) = true -> c = SP /\ all_sp r = true.
Proof.
  unfold all_sp. cbn [forallb]. intros H. apply andb_true_iff in H. destruct H as [Hc Hr].
  apply N.eqb_eq in Hc. split; [symmetry; exact Hc | exact Hr].
Qed.
Lemma all_sp_content s : all_sp s = true -> forallb is_content s = true.
Proof.
  induction s as [|c r IH]; intros H; [reflexivity|].
  apply all_sp_cons in H. destruct H as [Hc Hr]. subst c. cbn [forallb]. rewrite (IH Hr). reflexivity.
Qed.
Lemma all_sp_space s : all_sp s = true -> forallb is_space s = true.
Proof.
  induction s as [|c r IH]; intros H; [reflexivity|].
  apply all_sp_cons in H. destruct H as [Hc Hr]. subst c. cbn [forallb]. rewrite (IH Hr). reflexivity.
Qed.
Lemma all_sp_app a b : all_sp (a ++ b) = (all_sp a && all_sp b)%bool.
Proof. unfold all_sp. apply forallb_app. Qed.
Lemma all_ws_app a b : all_ws (a ++ b) = (all_ws a && all_ws b)%bool.
Proof. unfold all_ws. apply forallb_app. Qed.

Lemma ws3_white c : is_ws3 c = true -> is_pp_white c = true.
Proof.
  unfold is_ws3, is_pp_white. intros H. apply orb_true_iff in H. destruct H as [H|H].
  - apply orb_true_iff in H. destruct H as [H|H]; rewrite H; [reflexivity | rewrite orb_true_r; reflexivity].
  - rewrite H. rewrite !orb_true_r. reflexivity.
Qed.
Lemma ws3_cases c : is_ws3 c = true -> c = SP \/ (is_lb c = true /\ is_content c = false).
Proof.
  unfold is_ws3, is_lb. intros H. apply orb_true_iff in H. destruct H as [H|H].
  - apply orb_true_iff in H. destruct H as [H|H].
    + left. apply N.eqb_eq in H. exact H.
    + right. apply N.eqb_eq in H. subst c. split; reflexivity.
  - right. apply N.eqb_eq in H. subst c. split; reflexivity.
Qed.
Lemma lb_not_content c : is_lb c = true -> is_content c = false.
Proof.
  unfold is_lb. intros H. apply orb_true_iff in H. destruct H as [H|H]; apply N.eqb_eq in H; subst c; reflexivity.
Qed.
Lemma lb_white c : is_lb c = true -> is_pp_white c = true.
Proof.
  unfold is_lb. intros H. apply orb_true_iff in H. destruct H as [H|H]; apply N.eqb_eq in H; subst c; reflexivity.
Qed.

(* ================================================================== strip / unpack *)
Lemma forallb_app_true {A} (p : A -> bool) a b : forallb p a = true -> forallb p b = true -> forallb p (a ++ b) = true.
Proof. intros Ha Hb. rewrite forallb_app, Ha, Hb. reflexivity. Qed.
Lemma lstrip_by_all p s t : forallb p s = true -> lstrip_by p (s ++ t) = lstrip_by p t.
Proof.
  induction s as [|c r IH]; simpl; intros H; [reflexivity|].
  apply andb_true_iff in H. destruct H as [Hc Hr]. rewrite Hc. apply IH. exact Hr.
Qed.
Lemma forallb_rev' {A} (p : A -> bool) l : forallb p (rev l) = forallb p l.
Proof.
  induction l as [|a l IH]; simpl; [reflexivity|].
  rewrite forallb_app, IH. simpl. rewrite andb_true_r. apply andb_comm.
Qed.

(* x ends with a character that is not stripped; sp is stripped entirely *)
Lemma rstrip_by_tail p x l sp : p l = false -> forallb p sp = true ->
  rstrip_by p ((x ++ [l]) ++ sp) = x ++ [l].
Proof.
  intros Hl Hsp. unfold rstrip_by. rewrite rev_app_distr.
  rewrite lstrip_by_all by (rewrite forallb_rev'; exact Hsp).
  rewrite rev_app_distr. cbn [rev app lstrip_by]. rewrite Hl. cbn [rev]. rewrite rev_involutive. reflexivity.
Qed.

(* a string with first character c0 and last character l, neither of them white *)
Lemma strip_core c0 x l sp : is_space c0 = false -> is_space l = false -> forallb is_space sp = true ->
  strip ((c0 :: x ++ [l]) ++ sp) = c0 :: x ++ [l].
Proof.
  intros H0 Hl Hsp. unfold strip, strip_by. simpl lstrip_by. rewrite H0.
  change (c0 :: (x ++ [l]) ++ sp) with (((c0 :: x) ++ [l]) ++ sp).
  rewrite rstrip_by_tail by assumption. reflexivity.
Qed.
Lemma strip_single c0 sp : is_space c0 = false -> forallb is_space sp = true -> strip (c0 :: sp) = [c0].
Proof.
  intros H0 Hsp. unfold strip, strip_by. simpl lstrip_by. rewrite H0.
  change (c0 :: sp) with (([] ++ [c0]) ++ sp). rewrite rstrip_by_tail by assumption. reflexivity.
Qed.

(* decomposition of a non-empty list into first / middle / last *)
Lemma first_last (s : str) : s <> [] -> (exists c, s = [c]) \/ (exists c x l, s = c :: x ++ [l]).
Proof.
  destruct s as [|c r]; [congruence|]. intros _.
  destruct r as [|c2 r2]; [left; eauto|]. right.
  destruct (exists_last (l := c2 :: r2)) as [x [l E]]; [discriminate|]. exists c, x, l. rewrite E. reflexivity.
Qed.

Lemma rev_last_cons (x : str) l : rev (x ++ [l]) = l :: rev x.
Proof. rewrite rev_app_distr. reflexivity. Qed.

(* strip of  text ++ spaces  for a text whose first and last characters are not white *)
Lemma strip_text t sp :
  match t with c :: _ => is_space c = false | [] => False end ->
  match rev t with l :: _ => is_space l = false | [] => False end ->
  forallb is_space sp = true -> strip (t ++ sp) = t.
Proof.
  intros Hf Hl Hsp. destruct (first_last t) as [[c E]|[c [x [l E]]]].
  - destruct t; [contradiction | discriminate].
  - subst t. simpl in Hf. simpl. apply strip_single; assumption.
  - subst t. simpl in Hf. change (rev (c :: x ++ [l])) with (rev ((c :: x) ++ [l])) in Hl.
    rewrite rev_last_cons in Hl. apply strip_core; assumption.
Qed.

Lemma drop_semi_yes x : drop_semi (x ++ [SEMI]) = x.
Proof. unfold drop_semi. rewrite rev_last_cons. simpl. apply rev_involutive. Qed.
Lemma drop_semi_no t : match rev t with l :: _ => N.eqb l SEMI = false | [] => True end -> drop_semi t = t.
Proof. unfold drop_semi. destruct (rev t) as [|l r]; [reflexivity|]. intros H. rewrite H. reflexivity. Qed.

(* facts packed in wf_text *)
Lemma wf_text_facts t : wf_text t = true ->
  exists c0 t', t = c0 :: t' /\ forallb is_content t = true /\ is_printable c0 = true /\ is_brace c0 = false
    /\ N.eqb c0 DQ = false /\ N.eqb c0 SQ = false
    /\ match rev t with l :: _ => is_space l = false /\ N.eqb l SEMI = false | [] => False end.
Proof.
  unfold wf_text. destruct t as [|c0 t']; [discriminate|]. intros H.
  apply andb_true_iff in H. destruct H as [H H5].
  apply andb_true_iff in H. destruct H as [H Hsq].
  apply andb_true_iff in H. destruct H as [H Hdq].
  apply andb_true_iff in H. destruct H as [H Hsp].
  apply negb_true_iff in Hsp, Hdq, Hsq.
  assert (Hc0 : is_content c0 = true).
  { cbn [forallb] in H. apply andb_true_iff in H. tauto. }
  destruct (content_nonspace c0 Hc0 Hsp) as [Hp Hb].
  exists c0, t'. repeat split; try assumption.
  - destruct (rev (c0 :: t')) as [|l r] eqn:E; [discriminate|].
    apply andb_true_iff in H5. destruct H5 as [L1 L2]. apply negb_true_iff in L1, L2.
    assert (Hl : In l (c0 :: t')) by (apply in_rev; rewrite E; left; reflexivity).
    rewrite forallb_forall in H. specialize (H l Hl).
    destruct (content_nonspace l H L1) as [Hpl _]. apply printable_not_space in Hpl. tauto.
Qed.

(* the token of a statement unpacks to the indented statement text *)
Lemma unpack_raw sw d text trail (semi : bool) trail2 sp :
  wf_text text = true -> all_sp trail = true -> all_sp trail2 = true -> all_sp sp = true ->
  unpack sw (d, text ++ trail ++ (if semi then [SEMI] else []) ++ trail2 ++ sp) = indent_of sw d ++ text.
Proof.
  intros Ht H1 H2 H3. destruct (wf_text_facts text Ht) as [c0 [t' [E [Hc [Hp [Hb [Hdq [Hsq Hl]]]]]]]].
  unfold unpack, indent_of. cbn [fst snd]. f_equal.
  assert (Hf : match text with c :: _ => is_space c = false | [] => False end).
  { rewrite E. apply printable_not_space. exact Hp. }
  assert (Hl1 : match rev text with l :: _ => is_space l = false | [] => False end).
  { destruct (rev text); [exact Hl | tauto]. }
  apply all_sp_space in H1. apply all_sp_space in H2. apply all_sp_space in H3.
  destruct semi.
  - replace (text ++ trail ++ [SEMI] ++ trail2 ++ sp) with (((text ++ trail) ++ [SEMI]) ++ (trail2 ++ sp))
      by (rewrite <- !app_assoc; reflexivity).
    assert (S1 : strip (((text ++ trail) ++ [SEMI]) ++ trail2 ++ sp) = (text ++ trail) ++ [SEMI]).
    { apply strip_text.
      - rewrite E. simpl. apply printable_not_space. exact Hp.
      - rewrite rev_last_cons. reflexivity.
      - apply forallb_app_true; assumption. }
    rewrite S1. rewrite drop_semi_yes. apply strip_text; assumption.
  - simpl app.
    assert (S1 : strip (text ++ trail ++ trail2 ++ sp) = text).
    { apply strip_text; try assumption. repeat apply forallb_app_true; assumption. }
    rewrite S1. rewrite drop_semi_no.
    + rewrite <- (app_nil_r text) at 1. apply strip_text; try assumption. reflexivity.
    + destruct (rev text); [exact I | tauto].
Qed.
