(* C05 — specification-level definitions and proofs about Model/Extract.v.
   Everything holds for an ARBITRARY forest, regex/group oracle `mg` and conversion oracle. *)
From Coq Require Import List Arith Bool Lia Sorting.Sorted.
Require Import CCP.Lib.Res CCP.Model.Search CCP.Model.Extract CCP.Proofs.C04Proofs.
Import ListNotations.

(* ------------------------------------------------------------------ generic facts about find *)
Lemma find_none_iff {A} (f : A -> bool) l : find f l = None <-> forall x, In x l -> f x = false.
Proof.
  induction l as [|a l IH]; simpl.
  - split; auto. intros _ x [].
  - destruct (f a) eqn:E.
    + split; [discriminate|]. intros H. rewrite (H a (or_introl eq_refl)) in E. discriminate.
    + rewrite IH. split.
      * intros H x [<-|Hx]; auto.
      * intros H x Hx. apply H. right; auto.
Qed.

Lemma find_some_first {A} (f : A -> bool) l x :
  find f l = Some x <-> exists pre post, l = pre ++ x :: post /\ f x = true /\ forall y, In y pre -> f y = false.
Proof.
  induction l as [|a l IH]; simpl.
  - split; [discriminate|]. intros (pre & post & E & _). destruct pre; discriminate.
  - destruct (f a) eqn:E.
    + split.
      * intros H. inversion H; subst. exists [], l. repeat split; auto. intros y [].
      * intros (pre & post & El & Hx & Hpre). destruct pre as [|b pre].
        -- simpl in El. inversion El; subst. reflexivity.
        -- simpl in El. inversion El; subst. rewrite (Hpre b (or_introl eq_refl)) in E. discriminate.
    + rewrite IH. split.
      * intros (pre & post & El & Hx & Hpre). exists (a :: pre), post. subst l. repeat split; auto.
        intros y [<-|Hy]; auto.
      * intros (pre & post & El & Hx & Hpre). destruct pre as [|b pre].
        -- simpl in El. inversion El; subst. rewrite Hx in E. discriminate.
        -- simpl in El. inversion El; subst. exists pre, post. repeat split; auto.
           intros y Hy. apply Hpre. right; auto.
Qed.

(* sequencing of conversions: the first failure wins *)
Fixpoint mapM (f : nat -> result nat) (ls : list nat) : result (list nat) :=
  match ls with
  | [] => Ok []
  | x :: t => bind (f x) (fun v => bind (mapM f t) (fun vs => Ok (v :: vs)))
  end.

Lemma mapM_ok_iff f ls vs : mapM f ls = Ok vs <-> Forall2 (fun x v => f x = Ok v) ls vs.
Proof.
  revert vs. induction ls as [|x t IH]; intros vs; simpl.
  - split.
    + intros H. inversion H; subst. constructor.
    + intros H. inversion H; subst. reflexivity.
  - destruct (f x) as [v|e] eqn:Ef; simpl.
    + destruct (mapM f t) as [ws|e] eqn:Em; simpl.
      * split.
        -- intros H. inversion H; subst. constructor; auto. apply IH. reflexivity.
        -- intros H. inversion H as [|? ? ? ? Hv Ht]; subst. rewrite Ef in Hv. inversion Hv; subst.
           apply IH in Ht. inversion Ht; subst. reflexivity.
      * split; [discriminate|]. intros H. inversion H as [|? ? ? ? Hv Ht]; subst.
        apply IH in Ht. discriminate.
    + split; [discriminate|]. intros H. inversion H as [|? ? ? ? Hv Ht]; subst. rewrite Ef in Hv. discriminate.
Qed.

Section Proofs.
Variable kids : list (list nat).
Variable par : nat -> nat.
Variable mg : nat -> mres.
Variable conv : nat -> result nat.
Variable conv_none : result nat.
Variable dconv : result nat.
Variable draw : nat.

Ltac clr := try clear par; try clear conv_none; try clear dconv; try clear draw; try clear conv; try clear mg; try clear kids.

Notation is_match := (is_match mg).
Notation convert := (convert mg conv conv_none).
Notation default_result := (default_result dconv draw).

(* the lines a call looks at, in the order it looks at them *)
Definition family (recurse : bool) (l : nat) : list nat := l :: Extract.offspring kids recurse l.
Definition roots : list nat := filter (fun l => par l =? l) (seq 0 (length kids)).

(* "the requested capture group of the first matching line, converted; else the default" *)
Definition first_match_result (ls : list nat) (untyped : bool) : result nat :=
  match find is_match ls with
  | Some x => convert x
  | None => default_result untyped
  end.

Lemma scan_spec ls untyped : scan mg conv conv_none dconv draw ls untyped = first_match_result ls untyped.
Proof using Type. clr.
  unfold first_match_result. induction ls as [|a t IH]; simpl; auto.
  destruct (is_match a); auto.
Qed.

(* BaseCfgLine.re_match_iter_typed *)
Lemma iter_first_match l recurse untyped :
  re_match_iter_typed kids mg conv conv_none dconv draw l recurse untyped =
  first_match_result (family recurse l) untyped.
Proof using Type. clr.
  unfold re_match_iter_typed, family, first_match_result. simpl. destruct (is_match l) eqn:E; auto.
  rewrite scan_spec. reflexivity.
Qed.

(* what first_match_result means: the converted group of the FIRST matching line ... *)
Lemma first_match_some ls untyped pre x post :
  ls = pre ++ x :: post -> is_match x = true -> (forall y, In y pre -> is_match y = false) ->
  first_match_result ls untyped = convert x.
Proof using Type. clr.
  intros E Hx Hpre. unfold first_match_result.
  assert (find is_match ls = Some x) as -> by (apply (proj2 (find_some_first _ _ _)); eauto). reflexivity.
Qed.

(* ... and the default (converted unless untyped_default) iff no line matches *)
Lemma first_match_none ls untyped :
  (forall y, In y ls -> is_match y = false) ->
  first_match_result ls untyped = (if untyped then Ok draw else dconv).
Proof using Type. clr.
  intros H. unfold first_match_result. rewrite (proj2 (find_none_iff _ _) H). reflexivity.
Qed.

Lemma first_match_cases ls untyped :
  (exists pre x post, ls = pre ++ x :: post /\ is_match x = true /\ (forall y, In y pre -> is_match y = false)
                      /\ first_match_result ls untyped = convert x)
  \/ ((forall y, In y ls -> is_match y = false) /\ first_match_result ls untyped = (if untyped then Ok draw else dconv)).
Proof using Type. clr.
  destruct (find is_match ls) as [x|] eqn:E.
  - left. destruct (proj1 (find_some_first _ _ _) E) as (pre & post & El & Hx & Hpre).
    exists pre, x, post. repeat split; auto. eapply first_match_some; eauto.
  - right. pose proof (proj1 (find_none_iff _ _) E) as Hn. split; auto. apply first_match_none; auto.
Qed.

(* when the requested group participates in the match, the conversion is that of the group text *)
Lemma convert_group x s : mg x = MGrp s -> convert x = conv s.
Proof using Type. clr. intros H. unfold Extract.convert. rewrite H. reflexivity. Qed.

(* the family in config order: self, then direct children (recurse=False) ... *)
Lemma family_direct l : family false l = l :: children kids l.
Proof using Type. clr. reflexivity. Qed.

(* ... or self, then all descendants in ascending line order (recurse=True, WF forest) *)
Lemma family_recurse l (Hwf : WF kids) :
  exists ds, family true l = l :: ds /\ StronglySorted le ds /\ (forall x, In x ds <-> Desc kids l x) /\
             (forall x, In x ds -> l < x < length kids).
Proof using Type. clr.
  exists (all_children kids l). repeat split.
  - apply all_children_sorted.
  - apply In_all_children; auto.
  - apply In_all_children; auto.
  - apply In_all_children in H; auto. apply (Desc_gt kids Hwf) in H. lia.
  - apply In_all_children in H; auto. apply (Desc_gt kids Hwf) in H. unfold nlines in H. lia.
Qed.

(* BaseCfgLine.re_list_iter_typed: every matching line of the family, in that order *)
Lemma collect_spec ls : collect mg conv conv_none ls = mapM convert (filter is_match ls).
Proof using Type. clr.
  induction ls as [|a t IH]; simpl; auto.
  destruct (is_match a); simpl; rewrite IH; reflexivity.
Qed.

Lemma list_all_matches l recurse :
  re_list_iter_typed kids mg conv conv_none l recurse = mapM convert (filter is_match (family recurse l)).
Proof using Type. clr. unfold re_list_iter_typed. apply collect_spec. Qed.

Lemma list_all_matches_ok l recurse vs :
  re_list_iter_typed kids mg conv conv_none l recurse = Ok vs <->
  Forall2 (fun x v => convert x = Ok v) (filter is_match (family recurse l)) vs.
Proof using Type. clr. rewrite list_all_matches. apply mapM_ok_iff. Qed.

(* CiscoConfParse.re_match_iter_typed: root lines only, in config order *)
Lemma scan_roots_spec ls untyped :
  scan_roots par mg conv conv_none dconv draw ls untyped =
  first_match_result (filter (fun l => par l =? l) ls) untyped.
Proof using Type. clr.
  unfold first_match_result. induction ls as [|a t IH]; simpl; auto.
  destruct (par a =? a); simpl; auto. destruct (is_match a); auto.
Qed.

Lemma root_first_match untyped :
  ccp_re_match_iter_typed kids par mg conv conv_none dconv draw untyped = first_match_result roots untyped.
Proof using Type. clr. unfold ccp_re_match_iter_typed, roots, all_lines, nlines. apply scan_roots_spec. Qed.

Lemma roots_sorted : StronglySorted lt roots.
Proof using Type. clr. unfold roots. apply filter_sorted, seq_sorted. Qed.

Lemma In_roots l : In l roots <-> l < length kids /\ par l = l.
Proof using Type. clr. unfold roots. rewrite filter_In, in_seq, Nat.eqb_eq. intuition lia. Qed.

(* BaseCfgLine.re_match_typed: one line *)
Lemma typed_group l untyped s : mg l = MGrp s -> re_match_typed mg conv dconv draw l untyped = conv s.
Proof using Type. clr. intros H. unfold re_match_typed. rewrite H. reflexivity. Qed.

Lemma typed_default l untyped : mg l = NoM \/ mg l = MNone ->
  re_match_typed mg conv dconv draw l untyped = (if untyped then Ok draw else dconv).
Proof using Type. clr. intros [H|H]; unfold re_match_typed; rewrite H; reflexivity. Qed.

(* on a line without offspring the iterating variant agrees with re_match_typed whenever the group participates *)
Lemma typed_eq_iter_leaf l recurse untyped :
  Extract.offspring kids recurse l = [] -> mg l <> MNone ->
  re_match_iter_typed kids mg conv conv_none dconv draw l recurse untyped = re_match_typed mg conv dconv draw l untyped.
Proof using Type. clr.
  intros Ho Hn. unfold re_match_iter_typed, re_match_typed, Extract.is_match, Extract.convert. rewrite Ho.
  destruct (mg l); simpl; auto. contradiction.
Qed.

(* BaseCfgLine.re_match: the group text untouched, else the default untouched *)
Lemma re_match_spec l :
  re_match mg conv conv_none draw l = (if is_match l then convert l else Ok draw).
Proof using Type. clr. reflexivity. Qed.

End Proofs.

(* F24 (information): when the requested group does NOT participate, the iterating variant converts
   None while re_match_typed falls back to the default *)
Lemma F24_iter_differs_from_typed :
  exists mg conv cnone dconv draw,
    re_match_iter_typed [[]] mg conv cnone dconv draw 0 true false <> re_match_typed mg conv dconv draw 0 false.
Proof.
  exists (fun _ => MNone), (fun _ => Ok 0), (Ok 7), (Ok 1), 2. vm_compute. discriminate.
Qed.

(* ---------------- non-vacuity ---------------- *)
(* ['interface Eth1', ' description a', ' service-policy x', '  class y', '   mtu 1400', ' mtu 1300'] with r'mtu (\d+)':
   string 0 = '1400' -> value 0, string 1 = '1300' -> value 1, default '-1' -> value 2 *)
Definition ex5_kids : list (list nat) := [[1; 2; 5]; []; [3]; [4]; []; []].
Definition ex5_mg (l : nat) : mres := match l with 4 => MGrp 0 | 5 => MGrp 1 | _ => NoM end.
Definition ex5_conv (s : nat) : result nat := Ok s.

Example ex5_WF : WF ex5_kids.
Proof.
  intros p c H. unfold children, ex5_kids in H.
  do 6 (destruct p as [|p]; [simpl in H; repeat (destruct H as [<-|H]; [unfold nlines; simpl; lia|]); contradiction|]).
  destruct p; simpl in H; contradiction.
Qed.

Example ex5_iter :
  re_match_iter_typed ex5_kids ex5_mg ex5_conv (Ok 9) (Ok 2) 2 0 true false = Ok 0      (* grandchild line 4 comes before line 5 *)
  /\ re_match_iter_typed ex5_kids ex5_mg ex5_conv (Ok 9) (Ok 2) 2 0 false false = Ok 1  (* direct children only: line 5 *)
  /\ re_match_iter_typed ex5_kids ex5_mg ex5_conv (Ok 9) (Ok 2) 2 1 true false = Ok 2   (* nothing below line 1: default *)
  /\ re_list_iter_typed ex5_kids ex5_mg ex5_conv (Ok 9) 0 true = Ok [0; 1].
Proof. vm_compute. repeat split. Qed.
