(* C05 proofs *)
From Coq Require Import List Arith Bool Lia.
Require Import CCP.Lib.Res CCP.Model.Search CCP.Model.Extract.
Import ListNotations.

Lemma re_match_typed_nomatch mg conv dconv draw l u :
  mg l = NoM -> re_match_typed mg conv dconv draw l u = default_result dconv draw u.
Proof. intros H. unfold re_match_typed. rewrite H. reflexivity. Qed.
