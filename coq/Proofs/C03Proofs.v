(* C03: the constructor's parent map is well-founded, so every theorem of FamilyProofs applies to it. *)
From Coq Require Import List Arith Bool Lia Sorted.
Require Import CCP.Lib.PyStr CCP.Model.Links CCP.Model.Parse CCP.Model.Family CCP.Proofs.ParseProofs CCP.Proofs.FamilyProofs.
Import ListNotations.

Theorem construct_wf o ls : WFmap (construct_parents o ls).
Proof. intros i p H. apply (construct_parent_before_child o ls i p H). Qed.

(* every line has exactly one parent entry; it is a root iff it is in no child list; otherwise it is in
   exactly its parent's list, once, and lists are ascending and lie after the parent *)
Theorem construct_forest o ls : let ps := construct_parents o ls in
  (forall i p, parent_of ps i = Some p -> p < i /\ In i (kids ps p) /\ forall q, In i (kids ps q) -> q = p) /\
  (forall i, i < length ps -> (parent_of ps i = None <-> forall p, ~ In i (kids ps p))) /\
  (forall p, StronglySorted lt (kids ps p) /\ NoDup (kids ps p) /\ forall c, In c (kids ps p) -> p < c).
Proof.
  cbn zeta. pose proof (construct_wf o ls) as W. split; [|split].
  - intros i p H. split; [|split].
    + apply (kids_after_parent _ _ _ W). apply nonroot_in_parents_list. exact H.
    + apply nonroot_in_parents_list. exact H.
    + intros q Hq. apply nonroot_in_parents_list in H. symmetry. eapply kids_unique_parent; eauto.
  - intros i Hi. apply root_iff_in_no_list. exact Hi.
  - intros p. split; [apply kids_ascending|split; [apply kids_nodup|]]. intros c Hc. apply (kids_after_parent _ _ _ W Hc).
Qed.

Theorem construct_closure o ls p x : let ps := construct_parents o ls in
  (In x (all_children ps p) <-> ancestor ps p x) /\ (In p (all_parents ps x) <-> ancestor ps p x).
Proof. cbn zeta. pose proof (construct_wf o ls) as W. split; [apply all_children_spec|apply all_parents_spec]; exact W. Qed.

(* the forest is preserved by commit after any edit: commit is construct of the current text (C07), so the
   same statements hold for every reachable committed state *)
Theorem commit_forest o texts : WFmap (construct_parents o texts).
Proof. apply construct_wf. Qed.

Example ex_family :
  let ps := [None; Some 0; Some 1; Some 0; None] in
  all_children ps 0 = [1; 2; 3] /\ all_parents ps 2 = [0; 1] /\ lineage ps 1 = [0; 1; 2] /\ family_endpoint ps 0 = 3 /\ WFmap ps.
Proof.
  cbn zeta. repeat split; try (vm_compute; reflexivity).
  intros i p H. do 5 (destruct i as [|i]; [cbn in H; inversion H; lia|]). destruct i; discriminate.
Qed.
