(* C11, IPv4 textual layer, "never silently truncated": whatever v4_parse accepts decomposes COMPLETELY into an address text
   that ipaddress accepts as a whole, followed by nothing, by "/" and a whole mask or length, or by blanks and a whole mask --
   there is no unread remainder.  About Model/IPText.v (tied to IPv4Obj by the v4text stream). *)
From Coq Require Import List Arith Bool NArith ZArith Lia.
Require Import CCP.Lib.PyStr CCP.Model.IPText.
Import ListNotations.

Lemma take_drop (p : char -> bool) s : s = take_while p s ++ drop_while p s.
Proof. induction s as [|c r IH]; [reflexivity|]. cbn [take_while drop_while]. destruct (p c); [cbn [app]; f_equal; exact IH|reflexivity]. Qed.

Lemma lstrip_split s : exists pad, s = pad ++ lstrip s /\ forallb is_space pad = true.
Proof.
  unfold lstrip. induction s as [|c r IH]; [exists []; split; reflexivity|]. cbn [lstrip_by]. destruct (is_space c) eqn:E.
  - destruct IH as [pad [A B]]. exists (c :: pad). split; [cbn [app]; f_equal; exact A|cbn [forallb]; rewrite E; exact B].
  - exists []. split; reflexivity.
Qed.

Inductive tail4 (p : Z) : str -> Prop :=
| T_none : p = 32%Z -> tail4 p []
| T_slash_mask m : plen_of_dotted m = Some p -> tail4 p (c_slash :: m)
| T_slash_len m : plen_of_digits m = Some p -> tail4 p (c_slash :: m)
| T_blank_mask pad m : pad <> [] -> forallb is_space pad = true -> plen_of_dotted m = Some p -> tail4 p (pad ++ m).

Theorem v4_parse_shape s a p : v4_parse s = Some (a, p) ->
  exists d1 rest, strip s = d1 ++ rest /\ dotted d1 = Some a /\ tail4 p rest.
Proof.
  unfold v4_parse. intros H. exists (take_while is_dd (strip s)), (drop_while is_dd (strip s)).
  split; [apply take_drop|].
  destruct (negb (dotted_syntax (take_while is_dd (strip s)))); [discriminate|].
  destruct (dotted (take_while is_dd (strip s))) as [a'|] eqn:Ed; [|discriminate].
  destruct (drop_while is_dd (strip s)) as [|c r] eqn:Er.
  - inversion H; subst. split; [reflexivity|constructor; reflexivity].
  - destruct (N.eqb c c_slash) eqn:Ec.
    + apply N.eqb_eq in Ec. subst c. destruct (dotted_syntax r).
      * destruct (plen_of_dotted r) as [q|] eqn:Ep; [|discriminate]. inversion H; subst. split; [reflexivity|apply T_slash_mask; exact Ep].
      * destruct (plen_of_digits r) as [q|] eqn:Ep; [|discriminate]. inversion H; subst. split; [reflexivity|apply T_slash_len; exact Ep].
    + destruct (is_space c) eqn:Es; [|discriminate].
      destruct (dotted_syntax (lstrip (c :: r))); [|discriminate].
      destruct (plen_of_dotted (lstrip (c :: r))) as [q|] eqn:Ep; [|discriminate]. inversion H; subst. split; [reflexivity|].
      destruct (lstrip_split (c :: r)) as [pad [A B]]. rewrite A at 1. apply T_blank_mask; [|exact B|exact Ep].
      intros E. subst pad. cbn [app] in A. unfold lstrip in A. cbn [lstrip_by] in A. rewrite Es in A.
      (* c :: r = lstrip_by is_space r is impossible: the right side is a suffix of r *)
      assert (L : forall t, length (lstrip_by is_space t) <= length t).
      { induction t as [|x t IH]; [cbn; lia|]. cbn [lstrip_by]. destruct (is_space x); cbn [length]; lia. }
      pose proof (L r) as L1. rewrite <- A in L1. cbn [length] in L1. lia.
Qed.

(* the pieces are validated as wholes: a dotted text accepted by `dotted` is exactly four octets joined by dots, and a length
   accepted by plen_of_digits is all digits *)
Lemma dotted_whole s a : dotted s = Some a ->
  exists o1 o2 o3 o4 n1 n2 n3 n4, split_on c_dot s = [o1; o2; o3; o4] /\
    octet o1 = Some n1 /\ octet o2 = Some n2 /\ octet o3 = Some n3 /\ octet o4 = Some n4 /\ a = quad n1 n2 n3 n4.
Proof.
  unfold dotted. destruct (split_on c_dot s) as [|o1 [|o2 [|o3 [|o4 [|o5 r]]]]]; try discriminate.
  destruct (octet o1) as [n1|] eqn:E1; [|discriminate]. destruct (octet o2) as [n2|] eqn:E2; [|discriminate].
  destruct (octet o3) as [n3|] eqn:E3; [|discriminate]. destruct (octet o4) as [n4|] eqn:E4; [|discriminate].
  intros H. inversion H. exists o1, o2, o3, o4, n1, n2, n3, n4. auto 10.
Qed.
Lemma plen_digits_whole m p : plen_of_digits m = Some p -> forallb is_digit m = true /\ m <> [].
Proof.
  unfold plen_of_digits. destruct (digits_only m) eqn:E; [|discriminate]. intros _.
  unfold digits_only in E. destruct m; [discriminate|]. split; [exact E|discriminate].
Qed.

Example shape_ex : (* "10.1.1.1 255.255.255.0x" and "10.1.1.1/24 " + "x" are refused *)
  v4_parse [49;48;46;49;46;49;46;49;32;50;53;53;46;50;53;53;46;50;53;53;46;48;120]%N = None /\
  v4_parse [49;48;46;49;46;49;46;49;47;50;52;32;120]%N = None.
Proof. split; vm_compute; reflexivity. Qed.

(* different IPv4 addresses never print the same (the dotted rendering re-parses to its value) *)
Require Import CCP.Proofs.IPTextProofs.
Corollary render_quad_injective a b : (0 <= a < 2 ^ 32)%Z -> (0 <= b < 2 ^ 32)%Z -> render_quad a = render_quad b -> a = b.
Proof.
  intros Ha Hb E. destruct (render_quad_facts a Ha) as (_ & Da & _). destruct (render_quad_facts b Hb) as (_ & Db & _).
  rewrite E in Da. rewrite Da in Db. inversion Db. reflexivity.
Qed.
