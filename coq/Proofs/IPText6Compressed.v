(* C11, IPv6 textual layer, compressed spellings: hi-groups "::" lo-groups (either side may be empty) in any
   hextet spelling, with or without "/len" and surrounding blanks, denotes hi ++ zeros ++ lo.  About the hand model
   Model/IPText6.v (tied to IPv6Obj by the v6text correspondence stream). *)
From Coq Require Import List Arith Bool NArith ZArith Lia.
Require Import CCP.Lib.PyStr CCP.Model.IPText CCP.Model.IPText6 CCP.Proofs.IPTextProofs CCP.Proofs.IPText6Proofs.
Import ListNotations.

(* ---- generic facts about join / split ---- *)
Lemma split_join c ss : ss <> [] -> Forall (fun s => forallb (fun x => negb (N.eqb x c)) s = true) ss ->
  split_on c (join [c] ss) = ss.
Proof.
  induction ss as [|s r IH]; intros Hne HF; [contradiction|].
  inversion HF as [|? ? Hs Hr]; subst.
  destruct r as [|s2 r2].
  - cbn [join]. unfold split_on. rewrite split_aux_plain by exact Hs. reflexivity.
  - change (join [c] (s :: s2 :: r2)) with (s ++ [c] ++ join [c] (s2 :: r2)). cbn [app]. unfold split_on.
    rewrite split_aux_join by exact Hs. cbn [rev app]. f_equal. apply IH; [discriminate|exact Hr].
Qed.

Lemma forallb_join (Q : N -> bool) c ss : Q c = true -> Forall (fun s => forallb Q s = true) ss ->
  forallb Q (join [c] ss) = true.
Proof.
  intros Hc. induction ss as [|s r IH]; intros HF; [reflexivity|].
  inversion HF as [|? ? Hs Hr]; subst. destruct r as [|s2 r2]; [exact Hs|].
  change (join [c] (s :: s2 :: r2)) with (s ++ [c] ++ join [c] (s2 :: r2)).
  rewrite !forallb_app. rewrite Hs, (IH Hr). cbn [forallb]. rewrite Hc. reflexivity.
Qed.

Lemma length_join c k ss : Forall (fun s => length s <= k) ss -> length (join [c] ss) <= length ss * (k + 1).
Proof.
  induction ss as [|s r IH]; intros HF; [cbn; lia|].
  inversion HF as [|? ? Hs Hr]; subst. destruct r as [|s2 r2]; [cbn [join length]; lia|].
  change (join [c] (s :: s2 :: r2)) with (s ++ [c] ++ join [c] (s2 :: r2)).
  rewrite !app_length. specialize (IH Hr). cbn [length] in *. lia.
Qed.

(* ---- the compressed text ---- *)
Definition side (sp : N -> str) (gs : list N) : list str := match gs with [] => [[]] | _ => map sp gs end.
Definition cparts (sp : N -> str) (hi lo : list N) : list str := side sp hi ++ [[]] ++ side sp lo.
Definition ctext (sp : N -> str) (hi lo : list N) : str := join [c_colon] (cparts sp hi lo).
Definition sidef (gs : list N) : list field := match gs with [] => [FEmpty] | _ => map FHex gs end.
Definition cfields (hi lo : list N) : list field := sidef hi ++ [FEmpty] ++ sidef lo.
Definition lt16 (g : N) : Prop := (g < 65536)%N.

Example ctext_ex :
  ctext (sp_min false) [] [] = [58; 58]%N /\                                    (* "::" *)
  ctext (sp_min false) [] [1%N] = [58; 58; 49]%N /\                             (* "::1" *)
  ctext (sp_min false) [65152%N] [] = [102; 101; 56; 48; 58; 58]%N /\           (* "fe80::" *)
  ctext (sp_min false) [8193; 3512]%N [1%N] = [50; 48; 48; 49; 58; 100; 98; 56; 58; 58; 49]%N. (* "2001:db8::1" *)
Proof. repeat split; vm_compute; reflexivity. Qed.

Lemma classify_sp sp g : spelling sp -> lt16 g -> classify (sp g) = FHex g /\ forallb plain (sp g) = true /\ length (sp g) <= 4.
Proof.
  intros Hsp Hg. destruct (Hsp g Hg) as [A B]. destruct (hextet_len _ _ A) as [Hn Hl]. split; [|auto].
  unfold classify. destruct (sp g); [contradiction|]. rewrite A. reflexivity.
Qed.

Lemma classify_side sp gs : spelling sp -> Forall lt16 gs -> map classify (side sp gs) = sidef gs.
Proof.
  intros Hsp HF. destruct gs as [|g r]; [reflexivity|]. unfold side, sidef. rewrite map_map. apply map_ext_in.
  intros x Hx. rewrite Forall_forall in HF. apply (classify_sp sp x Hsp (HF x Hx)).
Qed.

Lemma side_all (Q : str -> Prop) sp gs : Q [] -> (forall g, lt16 g -> Q (sp g)) -> Forall lt16 gs -> Forall Q (side sp gs).
Proof.
  intros Q0 Qs HF. destruct gs as [|g r]; [constructor; [exact Q0|constructor]|]. unfold side.
  apply Forall_forall. intros s Hs. apply in_map_iff in Hs. destruct Hs as [x [<- Hx]]. apply Qs. rewrite Forall_forall in HF. auto.
Qed.
Lemma cparts_all (Q : str -> Prop) sp hi lo : Q [] -> (forall g, lt16 g -> Q (sp g)) -> Forall lt16 hi -> Forall lt16 lo ->
  Forall Q (cparts sp hi lo).
Proof.
  intros Q0 Qs Hh Hl. unfold cparts. apply Forall_app. split; [apply side_all; assumption|].
  apply Forall_app. split; [constructor; [exact Q0|constructor]|apply side_all; assumption].
Qed.

Lemma fields_of_nodot parts : parts <> [] -> Forall (fun s => has_dot s = false) parts ->
  fields_of parts = Some (map classify parts).
Proof.
  intros Hne HF. unfold fields_of. destruct (rev parts) as [|lastp restr] eqn:E.
  - exfalso. apply Hne. apply (f_equal (@rev str)) in E. rewrite rev_involutive in E. exact E.
  - rewrite Forall_forall in HF. rewrite (HF lastp); [reflexivity|]. apply in_rev. rewrite E. left. reflexivity.
Qed.

Lemma side_length sp gs : length (side sp gs) = Nat.max 1 (length gs).
Proof. destruct gs as [|g r]; [reflexivity|]. unfold side. rewrite map_length. cbn [length]. lia. Qed.

(* the group logic on the classified fields: pure data, both sides at most seven groups *)
Lemma v6_groups_compressed hi lo : (length hi + length lo <= 7)%nat ->
  v6_groups (cfields hi lo) = Some (hi ++ repeat 0%N (8 - (length hi + length lo))%nat ++ lo).
Proof.
  intros H.
  do 8 (destruct hi as [|? hi];
        [do 8 (destruct lo as [|? lo]; [first [reflexivity | cbn [length] in H; lia]|]); cbn [length] in H; lia|]).
  cbn [length] in H. lia.
Qed.

Theorem v6_addr_compressed sp hi lo : spelling sp -> Forall lt16 hi -> Forall lt16 lo -> (length hi + length lo <= 7)%nat ->
  v6_addr (ctext sp hi lo) = Some (value_of (hi ++ repeat 0%N (8 - (length hi + length lo))%nat ++ lo)).
Proof.
  intros Hsp Hh Hl Hlen. unfold v6_addr, ctext.
  assert (Pne : cparts sp hi lo <> []) by (unfold cparts, side; destruct hi; discriminate).
  rewrite split_join; [|exact Pne|].
  2:{ apply cparts_all; [reflexivity| |exact Hh|exact Hl]. intros g Hg. destruct (classify_sp sp g Hsp Hg) as (_ & P & _).
      apply plain_no; [|exact P]. intros x Hx. apply plain_facts in Hx. tauto. }
  assert (L3 : (length (cparts sp hi lo) <? 3) = false).
  { apply Nat.ltb_ge. unfold cparts. rewrite !app_length, !side_length. cbn [length]. lia. }
  rewrite L3. rewrite fields_of_nodot; [|exact Pne|].
  2:{ apply cparts_all; [reflexivity| |exact Hh|exact Hl]. intros g Hg. destruct (classify_sp sp g Hsp Hg) as (_ & P & _).
      unfold has_dot. apply not_true_is_false. intros Hx. apply existsb_exists in Hx. destruct Hx as [x [Hi He]].
      rewrite forallb_forall in P. specialize (P x Hi). apply plain_facts in P. apply N.eqb_eq in He. subst x.
      destruct P as (_ & Pd & _). rewrite N.eqb_refl in Pd. discriminate. }
  unfold cparts. rewrite !map_app, !(classify_side sp) by assumption. cbn [map classify].
  change (sidef hi ++ [FEmpty] ++ sidef lo) with (cfields hi lo).
  rewrite (v6_groups_compressed hi lo Hlen). reflexivity.
Qed.

(* what the text looks like to the outer layers: no '/', '%', blank; non-empty; at most 45 characters *)
Lemma ctext_shape sp hi lo : spelling sp -> Forall lt16 hi -> Forall lt16 lo -> (length hi + length lo <= 7)%nat ->
  forallb (fun x => negb (N.eqb x c_slash)) (ctext sp hi lo) = true /\
  existsb (N.eqb c_pct) (ctext sp hi lo) = false /\
  forallb (fun x => negb (is_space x)) (ctext sp hi lo) = true /\
  ctext sp hi lo <> [] /\ length (ctext sp hi lo) <= 45.
Proof.
  intros Hsp Hh Hl Hlen. unfold ctext.
  assert (A : forall Q : N -> bool, Q c_colon = true -> (forall x, plain x = true -> Q x = true) ->
              forallb Q (join [c_colon] (cparts sp hi lo)) = true).
  { intros Q Qc Qp. apply forallb_join; [exact Qc|]. apply cparts_all; [reflexivity| |exact Hh|exact Hl].
    intros g Hg. destruct (classify_sp sp g Hsp Hg) as (_ & P & _). rewrite forallb_forall in *. intros x Hx. apply Qp. apply P. exact Hx. }
  split; [|split; [|split; [|split]]].
  - apply A; [reflexivity|]. intros x Hx. apply plain_facts in Hx. apply negb_true_iff. tauto.
  - assert (G : forallb (fun x => negb (N.eqb x c_pct)) (join [c_colon] (cparts sp hi lo)) = true).
    { apply A; [reflexivity|]. intros x Hx. apply plain_facts in Hx. apply negb_true_iff. tauto. }
    apply not_true_is_false. intros Hx. apply existsb_exists in Hx. destruct Hx as [x [Hi He]].
    rewrite forallb_forall in G. specialize (G x Hi). apply N.eqb_eq in He. subst x. rewrite N.eqb_refl in G. discriminate.
  - apply A; [reflexivity|]. intros x Hx. apply plain_facts in Hx. apply negb_true_iff. tauto.
  - assert (L3 : 3 <= length (cparts sp hi lo)) by (unfold cparts; rewrite !app_length, !side_length; cbn [length]; lia).
    destruct (cparts sp hi lo) as [|s1 [|s2 r]]; [cbn in L3; lia|cbn in L3; lia|].
    change (join [c_colon] (s1 :: s2 :: r)) with (s1 ++ [c_colon] ++ join [c_colon] (s2 :: r)). destruct s1; discriminate.
  - pose proof (length_join c_colon 4 (cparts sp hi lo)) as L.
    assert (F4 : Forall (fun s => length s <= 4) (cparts sp hi lo)).
    { apply cparts_all; [cbn; lia| |exact Hh|exact Hl]. intros g Hg. apply (classify_sp sp g Hsp Hg). }
    specialize (L F4). unfold cparts in L at 2. rewrite !app_length, !side_length in L. cbn [length] in L. lia.
Qed.

(* the outer layers of v6_parse around any address text of that shape *)
Lemma v6_parse_wrap T v p (with_len : bool) pre post :
  v6_addr T = Some v ->
  forallb (fun x => negb (N.eqb x c_slash)) T = true -> existsb (N.eqb c_pct) T = false ->
  forallb (fun x => negb (is_space x)) T = true -> T <> [] -> length T <= 45 ->
  (0 <= p <= 128)%Z -> forallb is_space pre = true -> forallb is_space post = true ->
  v6_parse (pre ++ (T ++ (if with_len then [c_slash] ++ render_dec (Z.to_N p) else [])) ++ post)
  = Some (v, if with_len then p else 128%Z).
Proof.
  intros Ha Hns Hnp Hnw Hne Hlen Hp Hpre Hpost.
  destruct (plen6_facts p Hp) as (Pd & Ppl & Pne & Plen).
  set (core := T ++ (if with_len then [c_slash] ++ render_dec (Z.to_N p) else [])).
  assert (Pw : forallb (fun x => negb (is_space x)) (render_dec (Z.to_N p)) = true).
  { rewrite forallb_forall in *. intros x Hx. apply negb_true_iff. specialize (Ppl x Hx). apply plain_facts in Ppl. tauto. }
  assert (Hcw : forallb (fun x => negb (is_space x)) core = true).
  { unfold core. destruct with_len; [|rewrite app_nil_r; exact Hnw]. rewrite forallb_app. apply andb_true_iff. split; [exact Hnw|].
    cbn [app forallb]. apply andb_true_iff. split; [reflexivity|exact Pw]. }
  assert (Hcne : core <> []) by (unfold core; destruct T; [contradiction|discriminate]).
  unfold v6_parse.
  match goal with |- context [strip ?x] =>
    replace (strip x) with core by (symmetry; apply (strip_core pre core post Hpre Hpost (plain_first core Hcw Hcne) (plain_last core Hcw Hcne))) end.
  rewrite (split_ws_nospace core Hcne Hcw).
  assert (Hl : (v6_maxlen <? length core) = false).
  { apply Nat.ltb_ge. unfold core, v6_maxlen. destruct with_len; rewrite !app_length; cbn [length]; lia. }
  rewrite Hl. unfold core. destruct with_len.
  - destruct (split_first_plain c_slash T (render_dec (Z.to_N p)) Hns) as [S1 _]. cbn [app]. rewrite S1.
    rewrite Hnp, Ha, Pd. reflexivity.
  - rewrite app_nil_r. destruct (split_first_plain c_slash T [] Hns) as [_ S2]. rewrite S2, Hnp, Ha. reflexivity.
Qed.

(* every compressed spelling hi::lo (either side possibly empty, at most seven groups in all), in any hextet
   spelling, with or without "/len", with any surrounding blanks, denotes (hi ++ zeros ++ lo, len) *)
Theorem v6_parse_compressed sp hi lo p (with_len : bool) pre post : spelling sp ->
  Forall lt16 hi -> Forall lt16 lo -> (length hi + length lo <= 7)%nat -> (0 <= p <= 128)%Z ->
  forallb is_space pre = true -> forallb is_space post = true ->
  v6_parse (pre ++ (ctext sp hi lo ++ (if with_len then [c_slash] ++ render_dec (Z.to_N p) else [])) ++ post)
  = Some (value_of (hi ++ repeat 0%N (8 - (length hi + length lo))%nat ++ lo), if with_len then p else 128%Z).
Proof.
  intros Hsp Hh Hl Hlen Hp Hpre Hpost.
  destruct (ctext_shape sp hi lo Hsp Hh Hl Hlen) as (S1 & S2 & S3 & S4 & S5).
  apply v6_parse_wrap; try assumption. apply v6_addr_compressed; assumption.
Qed.

Example v6_compressed_ex :
  v6_parse ([32%N] ++ (ctext (sp_min true) [8193; 3512]%N [1%N] ++ [c_slash] ++ render_dec 64%N) ++ [32%N])
  = Some (42540766411282592856903984951653826561%Z, 64%Z).
Proof. vm_compute. reflexivity. Qed.
