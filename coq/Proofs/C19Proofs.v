(* C19 proofs (see Props/C19.v for the statements). *)
From Coq Require Import NArith ZArith List Bool Arith Lia.
Require Import CCP.Lib.PyStr CCP.Model.IntfCfg.
Import ListNotations.

Lemma first_some_none {A} (f : str -> option A) ls :
  (forall l, In l ls -> f l = None) -> first_some f ls = None.
Proof.
  induction ls as [|l r IH]; intros H; simpl; [reflexivity|].
  rewrite (H l (or_introl eq_refl)). apply IH. intros l' Hl'. apply H. right. exact Hl'.
Qed.
