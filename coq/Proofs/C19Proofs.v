(* C19 proofs (see Props/C19.v for the statements). *)
From Coq Require Import NArith ZArith List Bool Arith Lia.
Require Import CCP.Lib.PyStr CCP.Model.IntfCfg.
Import ListNotations.

(* ------------------------------------------------------------------ first match in family order *)
Lemma first_some_none {A} (f : str -> option A) ls :
  (forall l, In l ls -> f l = None) -> first_some f ls = None.
Proof.
  induction ls as [|l r IH]; intros H; simpl; [reflexivity|].
  rewrite (H l (or_introl eq_refl)). apply IH. intros l' Hl'. apply H. right. exact Hl'.
Qed.
Lemma first_some_unique {A} (f : str -> option A) ls v :
  (exists l, In l ls /\ f l <> None) ->
  (forall l v', In l ls -> f l = Some v' -> v' = v) ->
  first_some f ls = Some v.
Proof.
  induction ls as [|l r IH]; intros [l0 [Hin Hne]] Hall; [destruct Hin|].
  simpl. destruct (f l) as [a|] eqn:E.
  - f_equal. apply (Hall l a); [left; reflexivity|exact E].
  - apply IH.
    + destruct Hin as [E0|Hin]; [subst; congruence|]. exists l0. split; assumption.
    + intros l' v' Hl'. apply Hall. right. exact Hl'.
Qed.
Lemma existsb_false {A} (f : A -> bool) ls : (forall l, In l ls -> f l = false) -> existsb f ls = false.
Proof.
  induction ls as [|l r IH]; intros H; simpl; [reflexivity|].
  rewrite (H l (or_introl eq_refl)). apply IH. intros l' Hl'. apply H. right. exact Hl'.
Qed.

(* ------------------------------------------------------------------ decimal numbers *)
Lemma dec_aux_app x : forall y a,
  dec_aux a (x ++ y) = match dec_aux a x with Some a' => dec_aux a' y | None => None end.
Proof.
  induction x as [|c x IH]; intros y a; [reflexivity|]. simpl. destruct (is_digit c); [apply IH|reflexivity].
Qed.

Lemma digit_ok (n : N) : (n < 10)%N -> is_digit (48 + n)%N = true /\ digit_val (48 + n)%N = n.
Proof.
  intros H. unfold is_digit, digit_val. split.
  - apply andb_true_iff. split; apply N.leb_le; lia.
  - lia.
Qed.

Lemma single_digit (n : N) : (n < 10)%N ->
  forallb is_digit [(48 + n)%N] = true /\ forall a, dec_aux a [(48 + n)%N] = Some (a * 10 ^ N.of_nat 1 + n)%N.
Proof.
  intros H. destruct (digit_ok n H) as [D1 D2]. split.
  - cbn [forallb]. rewrite D1. reflexivity.
  - intros a. cbn [dec_aux]. rewrite D1, D2. change (N.of_nat 1) with 1%N. rewrite N.pow_1_r. reflexivity.
Qed.

Lemma render_dec_fuel_S f n acc :
  render_dec_fuel (S f) n acc =
  if (n <? 10)%N then (48 + n mod 10)%N :: acc else render_dec_fuel f (n / 10)%N ((48 + n mod 10)%N :: acc).
Proof. reflexivity. Qed.

Lemma render_fuel_spec f : forall n acc, (n < 2 ^ N.of_nat (S f))%N ->
  exists ds, render_dec_fuel (S f) n acc = ds ++ acc /\ ds <> [] /\ forallb is_digit ds = true /\
             forall a, dec_aux a ds = Some (a * 10 ^ N.of_nat (length ds) + n)%N.
Proof.
  induction f as [|f IH]; intros n acc Hn.
  - assert (H : (n < 10)%N) by (simpl in Hn; lia).
    exists [(48 + n)%N]. rewrite render_dec_fuel_S. rewrite N.mod_small by exact H.
    apply N.ltb_lt in H. rewrite H. apply N.ltb_lt in H. destruct (single_digit n H) as [S1 S2].
    repeat split; [discriminate|exact S1|exact S2].
  - rewrite render_dec_fuel_S. destruct (n <? 10)%N eqn:E.
    + apply N.ltb_lt in E. rewrite N.mod_small by exact E. destruct (single_digit n E) as [S1 S2].
      exists [(48 + n)%N]. repeat split; [discriminate|exact S1|exact S2].
    + apply N.ltb_ge in E.
      assert (Hq : (n / 10 < 2 ^ N.of_nat (S f))%N).
      { apply N.div_lt_upper_bound; [lia|]. rewrite Nat2N.inj_succ, N.pow_succ_r' in Hn. lia. }
      destruct (IH (n / 10)%N ((48 + n mod 10)%N :: acc) Hq) as [ds [E1 [E2 [E3 E4]]]].
      assert (Hm : (n mod 10 < 10)%N) by (apply N.mod_lt; lia).
      destruct (digit_ok (n mod 10) Hm) as [D1 D2].
      exists (ds ++ [(48 + n mod 10)%N]). repeat split.
      * rewrite E1, <- app_assoc. reflexivity.
      * destruct ds; discriminate.
      * rewrite forallb_app. apply andb_true_iff. split; [exact E3|]. cbn [forallb]. rewrite D1. reflexivity.
      * intros a. rewrite dec_aux_app, E4. cbn [dec_aux]. rewrite D1, D2. f_equal.
        rewrite app_length. cbn [length]. rewrite Nat.add_1_r, Nat2N.inj_succ, N.pow_succ_r'.
        pose proof (N.div_mod n 10 ltac:(lia)) as DM. lia.
Qed.

Lemma render_dec_spec n : exists ds, render_dec n = ds /\ ds <> [] /\ forallb is_digit ds = true /\ parse_dec ds = Some n.
Proof.
  unfold render_dec.
  assert (Hn : (n < 2 ^ N.of_nat (S (N.to_nat (N.log2 n))))%N).
  { rewrite Nat2N.inj_succ, N2Nat.id. destruct n as [|p]; [reflexivity|].
    destruct (N.log2_spec (N.pos p)) as [_ H]; [reflexivity|exact H]. }
  destruct (render_fuel_spec (N.to_nat (N.log2 n)) n [] Hn) as [ds [E1 [E2 [E3 E4]]]].
  rewrite app_nil_r in E1. exists ds. repeat split; try assumption.
  unfold parse_dec. destruct ds; [congruence|]. rewrite E4. f_equal; lia.
Qed.
Lemma render_dec_digits n : forallb is_digit (render_dec n) = true.
Proof. destruct (render_dec_spec n) as [ds [E [_ [H _]]]]. rewrite E. exact H. Qed.
Lemma render_dec_nonempty n : render_dec n <> [].
Proof. destruct (render_dec_spec n) as [ds [E [H _]]]. rewrite E. exact H. Qed.
Lemma parse_render_dec n : parse_dec (render_dec n) = Some n.
Proof. destruct (render_dec_spec n) as [ds [E [_ [_ H]]]]. rewrite E. exact H. Qed.
Lemma dec_Z_render n : dec_Z (render_dec n) = Some (Z.of_N n).
Proof. unfold dec_Z. rewrite parse_render_dec. reflexivity. Qed.

(* ------------------------------------------------------------------ spans and the matcher, step by step *)
(* [char] and [str] are aliases of N and list N; terms obtained by unfolding model definitions mix
   both spellings in implicit arguments, which defeats syntactic rewriting: normalise first *)
Ltac nrw H := let HH := fresh "HH" in pose proof H as HH; unfold char, str in HH |- *; rewrite HH; clear HH.
Definition spc : char := 32%N.
Definition stops (p : char -> bool) (rest : str) : Prop := match rest with [] => True | c :: _ => p c = false end.

Lemma span_all p (l rest : str) : forallb p l = true -> stops p rest -> span p (l ++ rest) = (l, rest).
Proof.
  induction l as [|c l IH]; intros H S.
  - simpl. destruct rest as [|c r]; [reflexivity|]. simpl in S. simpl. rewrite S. reflexivity.
  - simpl in H. apply andb_true_iff in H. destruct H as [Hc Hl]. simpl. rewrite Hc, (IH Hl S). reflexivity.
Qed.
Lemma span1_all p (l rest : str) : l <> [] -> forallb p l = true -> stops p rest -> span1 p (l ++ rest) = Some (l, rest).
Proof. intros Hn H S. unfold span1. rewrite (span_all p l rest H S). destruct l; [congruence|reflexivity]. Qed.

Lemma lstrip_stop (t : str) : stops is_space t -> lstrip t = t.
Proof. destruct t as [|c r]; [reflexivity|]. simpl. intros H. unfold lstrip. simpl. rewrite H. reflexivity. Qed.
Lemma lstrip_repeat n (t : str) : lstrip (repeat spc n ++ t) = lstrip t.
Proof. induction n as [|n IH]; [reflexivity|exact IH]. Qed.

Definition prepend (c : list (option str)) (r : mres) : mres :=
  match r with Some (c2, s2) => Some (c ++ c2, s2) | None => None end.
Lemma pm_cons it r s : pm (it :: r) s = match pm_it it s with Some (c1, s1) => prepend c1 (pm r s1) | None => None end.
Proof. reflexivity. Qed.
Lemma prepend_nil r : prepend [] r = r.
Proof. destruct r as [[c s]|]; reflexivity. Qed.

Lemma pm_nil s : pm [] s = Some ([], s).
Proof. reflexivity. Qed.
Lemma pm_end_nil r : pm (End :: r) [] = pm r [].
Proof. rewrite pm_cons. simpl. apply prepend_nil. Qed.
Lemma pm_end_fail r c s : pm (End :: r) (c :: s) = None.
Proof. reflexivity. Qed.
Lemma pm_ws0 r n t : stops is_space t -> pm (Ws0 :: r) (repeat spc n ++ t) = pm r t.
Proof. intros H. rewrite pm_cons. cbn [pm_it]. rewrite lstrip_repeat, (lstrip_stop t H). apply prepend_nil. Qed.
Lemma pm_ws1 r n t : stops is_space t -> pm (Ws1 :: r) (repeat spc (S n) ++ t) = pm r t.
Proof.
  intros H. rewrite pm_cons. cbn [pm_it repeat app]. change (is_space spc) with true. cbn iota.
  rewrite lstrip_repeat, (lstrip_stop t H). apply prepend_nil.
Qed.
Lemma pm_ws1_one r t : stops is_space t -> pm (Ws1 :: r) (spc :: t) = pm r t.
Proof. apply (pm_ws1 r 0 t). Qed.
Lemma pm_ws1_fail r s : stops is_space s -> pm (Ws1 :: r) s = None.
Proof. intros H. rewrite pm_cons. destruct s as [|c s']; [reflexivity|]. simpl in H. cbn [pm_it]. rewrite H. reflexivity. Qed.
Lemma pm_ws_one r t : pm (Ws :: r) (spc :: t) = pm r t.
Proof. rewrite pm_cons. cbn [pm_it]. change (is_space spc) with true. cbn iota. apply prepend_nil. Qed.

Lemma starts_with_app (w t : str) : starts_with w (w ++ t) = true.
Proof. induction w as [|c w IH]; [reflexivity|]. simpl. rewrite N.eqb_refl. exact IH. Qed.
Lemma skipn_app_len (w t : str) : skipn (length w) (w ++ t) = t.
Proof. induction w as [|c w IH]; [reflexivity|exact IH]. Qed.
Lemma pm_lit r w t : pm (Lit w :: r) (w ++ t) = pm r t.
Proof. rewrite pm_cons. cbn [pm_it]. rewrite starts_with_app, skipn_app_len. apply prepend_nil. Qed.
Lemma pm_lit_fail r w s : starts_with w s = false -> pm (Lit w :: r) s = None.
Proof. intros H. rewrite pm_cons. cbn [pm_it]. rewrite H. reflexivity. Qed.

Definition digits (d : str) : Prop := d <> [] /\ forallb is_digit d = true.
Definition word (w : str) : Prop := w <> [] /\ forallb non_space w = true.

Lemma pm_cap_dig r d t : digits d -> stops is_digit t -> pm (Cap KDig :: r) (d ++ t) = prepend [Some d] (pm r t).
Proof. intros [H1 H2] S. rewrite pm_cons. cbn [pm_it take]. rewrite (span1_all is_digit d t H1 H2 S). reflexivity. Qed.
Lemma pm_cap_word r w t : word w -> stops non_space t -> pm (Cap KNS1 :: r) (w ++ t) = prepend [Some w] (pm r t).
Proof. intros [H1 H2] S. rewrite pm_cons. cbn [pm_it take]. rewrite (span1_all non_space w t H1 H2 S). reflexivity. Qed.
Lemma pm_cap_rest r t : t <> [] -> stops is_space t -> pm (Cap KRest :: r) t = prepend [Some t] (pm r []).
Proof.
  intros H1 S. rewrite pm_cons. cbn [pm_it take]. destruct t as [|c t']; [congruence|]. simpl in S. rewrite S. reflexivity.
Qed.

Lemma stops_nil p : stops p [].
Proof. exact I. Qed.
Lemma stops_spc_nonspace t : stops non_space (spc :: t).
Proof. reflexivity. Qed.
Lemma stops_spc_digit t : stops is_digit (spc :: t).
Proof. reflexivity. Qed.
Lemma digits_render n : digits (render_dec n).
Proof. split; [apply render_dec_nonempty|apply render_dec_digits]. Qed.
Lemma digits_stop_space d t : digits d -> stops is_space (d ++ t).
Proof.
  intros [H1 H2]. destruct d as [|c d']; [congruence|]. simpl in H2. apply andb_true_iff in H2. destruct H2 as [Hc _].
  simpl. unfold is_digit in Hc. apply andb_true_iff in Hc. destruct Hc as [A B]. apply N.leb_le in A, B.
  destruct c as [|p]; [lia|]. unfold is_space.
  do 6 (destruct p as [p|p|]; try reflexivity; try lia).
Qed.

Lemma word_stop_space w t : word w -> stops is_space (w ++ t).
Proof.
  intros [H1 H2]. destruct w as [|c w']; [congruence|]. simpl in H2. apply andb_true_iff in H2. destruct H2 as [Hc _].
  simpl. unfold non_space in Hc. apply negb_true_iff in Hc. exact Hc.
Qed.
Lemma digits_head_ne d t w c0 : digits d -> is_digit c0 = false -> starts_with (c0 :: w) (d ++ t) = false.
Proof.
  intros [H1 H2] Hc. destruct d as [|c d']; [congruence|]. simpl in H2. apply andb_true_iff in H2. destruct H2 as [Hd _].
  simpl. destruct (N.eqb c0 c) eqn:E; [|reflexivity]. apply N.eqb_eq in E. subst. congruence.
Qed.

(* dotted quads *)
Definition quad := (str * str * str * str)%type.
Definition wfq (q : quad) : Prop := let '(a, b, c, d) := q in digits a /\ digits b /\ digits c /\ digits d.
Definition render_quad (q : quad) : str := let '(a, b, c, d) := q in a ++ [dot] ++ b ++ [dot] ++ c ++ [dot] ++ d.
Lemma stops_dot t : stops is_digit (dot :: t).
Proof. reflexivity. Qed.
Lemma take_quad_render q t : wfq q -> stops is_digit t -> take_quad (render_quad q ++ t) = Some (render_quad q, t).
Proof.
  destruct q as [[[a b] c] d]. intros [[A1 A2] [[B1 B2] [[C1 C2] [D1 D2]]]] S. unfold render_quad, take_quad.
  rewrite <- !app_assoc. simpl app.
  nrw (span1_all is_digit a (dot :: b ++ dot :: c ++ dot :: d ++ t) A1 A2 (stops_dot _)). change (N.eqb dot dot) with true. cbn iota.
  nrw (span1_all is_digit b (dot :: c ++ dot :: d ++ t) B1 B2 (stops_dot _)). change (N.eqb dot dot) with true. cbn iota.
  nrw (span1_all is_digit c (dot :: d ++ t) C1 C2 (stops_dot _)). change (N.eqb dot dot) with true. cbn iota.
  nrw (span1_all is_digit d t D1 D2 S). reflexivity.
Qed.
Lemma pm_cap_quad r q t : wfq q -> stops is_digit t -> pm (Cap KQuad :: r) (render_quad q ++ t) = prepend [Some (render_quad q)] (pm r t).
Proof. intros W S. rewrite pm_cons. cbn [pm_it take]. rewrite (take_quad_render q t W S). reflexivity. Qed.
Lemma pm_skp_quad r q t : wfq q -> stops is_digit t -> pm (Skp KQuad :: r) (render_quad q ++ t) = pm r t.
Proof. intros W S. rewrite pm_cons. cbn [pm_it take]. rewrite (take_quad_render q t W S). apply prepend_nil. Qed.
Lemma quad_digits_head q t : wfq q -> exists d t', digits d /\ render_quad q ++ t = d ++ t'.
Proof.
  destruct q as [[[a b] c] d]. intros [A _]. exists a, ([dot] ++ b ++ [dot] ++ c ++ [dot] ++ d ++ t). split; [exact A|].
  unfold render_quad. rewrite <- !app_assoc. reflexivity.
Qed.
Lemma quad_stop_space q t : wfq q -> stops is_space (render_quad q ++ t).
Proof. intros W. destruct (quad_digits_head q t W) as [d [t' [D E]]]. rewrite E. apply digits_stop_space. exact D. Qed.

(* ------------------------------------------------------------------ attribute lines of an interface stanza *)
Definition s_shutdown : str := s_shut ++ [100; 111; 119; 110]%N.
Inductive attr :=
| A_description (n : nat) (txt : str)
| A_mtu (n : nat) (v : N)
| A_vrf (n : nat) (with_ip : bool) (name : str)
| A_shutdown (n : nat)
| A_channel (n : nat) (grp : N) (mode : str)
| A_address (n : nat) (a m : quad)
| A_secondary (n : nat) (a m : quad)
| A_other (l : str).

Definition ind (n : nat) : str := repeat spc (S n).
Definition render (a : attr) : str :=
  match a with
  | A_description n txt => ind n ++ s_description ++ [spc] ++ txt
  | A_mtu n v => ind n ++ s_mtu ++ [spc] ++ render_dec v
  | A_vrf n ip name => ind n ++ (if ip then s_ip ++ [spc] else []) ++ s_vrf ++ [spc] ++ s_forwarding ++ [spc] ++ name
  | A_shutdown n => ind n ++ s_shutdown
  | A_channel n g mode => ind n ++ s_channel_group ++ [spc] ++ render_dec g ++ [spc] ++ s_mode ++ [spc] ++ mode
  | A_address n a m => ind n ++ s_ip ++ [spc] ++ s_address ++ [spc] ++ render_quad a ++ [spc] ++ render_quad m
  | A_secondary n a m => ind n ++ s_ip ++ [spc] ++ s_address ++ [spc] ++ render_quad a ++ [spc] ++ render_quad m ++ [spc] ++ s_secondary
  | A_other l => l
  end.

(* the line parsers behind the accessors *)
Definition f_description := cap_n 0 P_description.
Definition f_mtu := cap_n 0 P_mtu.
Definition f_vrf := cap_n 0 P_vrf.
Definition f_channel := cap_n 0 P_channel.
Definition f_v4addr := cap_n 0 P_v4addr.
Definition f_v4mask := cap_n 0 P_v4mask.

(* an unrelated line: none of the modelled patterns matches it *)
Definition unrelated (l : str) : Prop :=
  f_description l = None /\ f_mtu l = None /\ f_vrf l = None /\ matches P_shutdown l = false /\ f_channel l = None /\
  f_v4addr l = None /\ f_v4mask l = None /\ matches P_v4dhcp l = false /\ matches P_v4negotiated l = false.

Definition valid (a : attr) : Prop :=
  match a with
  | A_description _ txt => txt <> [] /\ stops is_space txt
  | A_vrf _ _ name => word name
  | A_channel _ _ mode => word mode
  | A_address _ a m => wfq a /\ wfq m
  | A_secondary _ a m => wfq a /\ wfq m
  | A_other l => unrelated l
  | _ => True
  end.

Lemma pm_ind r n t : stops is_space t -> pm (Ws0 :: r) (ind n ++ t) = pm r t.
Proof. apply pm_ws0. Qed.
Lemma pm_ind1 r n t : stops is_space t -> pm (Ws1 :: r) (ind n ++ t) = pm r t.
Proof. apply pm_ws1. Qed.

Ltac stop_tac := first [exact I | reflexivity | apply stops_nil
                       | solve [apply quad_stop_space; assumption]
                       | solve [apply word_stop_space; assumption]
                       | solve [apply digits_stop_space; auto using digits_render]].
(* keyword mismatch right after the indentation *)
Ltac kw_fail := rewrite pm_lit_fail by reflexivity; reflexivity.

(* normalised copies of the step lemmas (no [char]/[str] aliases in implicit arguments) *)
Ltac norm_of H := let T := type of H in let T' := eval unfold char, str in T in exact (H : T').
Definition n_pm_ind := ltac:(norm_of pm_ind).
Definition n_pm_ind1 := ltac:(norm_of pm_ind1).
Definition n_pm_lit := ltac:(norm_of pm_lit).
Definition n_pm_lit_fail := ltac:(norm_of pm_lit_fail).
Definition n_pm_ws1_one := ltac:(norm_of pm_ws1_one).
Definition n_pm_ws1_fail := ltac:(norm_of pm_ws1_fail).
Definition n_pm_ws_one := ltac:(norm_of pm_ws_one).
Definition n_pm_cap_dig := ltac:(norm_of pm_cap_dig).
Definition n_pm_cap_word := ltac:(norm_of pm_cap_word).
Definition n_pm_cap_rest := ltac:(norm_of pm_cap_rest).
Definition n_pm_cap_quad := ltac:(norm_of pm_cap_quad).
Definition n_pm_skp_quad := ltac:(norm_of pm_skp_quad).
Definition n_pm_end_nil := ltac:(norm_of pm_end_nil).
Definition n_pm_end_fail := ltac:(norm_of pm_end_fail).
Definition n_pm_nil := ltac:(norm_of pm_nil).

Ltac norm := unfold char, str in *.
Ltac t_ind := rewrite n_pm_ind by stop_tac.
Ltac t_ind1 := rewrite n_pm_ind1 by stop_tac.
Ltac t_lit := rewrite n_pm_lit.
Ltac t_sp := rewrite n_pm_ws1_one by stop_tac.
Ltac t_fail := rewrite n_pm_lit_fail by reflexivity.

Lemma f_mtu_render a : valid a ->
  f_mtu (render a) = match a with A_mtu _ v => Some (render_dec v) | _ => None end.
Proof.
  destruct a; intros V; unfold f_mtu, cap_n, caps, P_mtu, render; cbn [valid] in V; norm; cbn [app].
  - t_ind. t_fail. reflexivity.
  - t_ind. t_lit. rewrite <- (app_nil_r (render_dec v)). t_sp.
    rewrite n_pm_cap_dig by (auto using digits_render, stops_nil). rewrite n_pm_end_nil, n_pm_nil. rewrite app_nil_r. reflexivity.
  - destruct with_ip; t_ind; t_fail; reflexivity.
  - t_ind. t_fail. reflexivity.
  - t_ind. t_fail. reflexivity.
  - t_ind. t_fail. reflexivity.
  - t_ind. t_fail. reflexivity.
  - apply V.
Qed.

Lemma pm_ws0_one r t : stops is_space t -> pm (Ws0 :: r) (spc :: t) = pm r t.
Proof. apply (pm_ws0 r 1 t). Qed.
Lemma pm_ws0_nil r : pm (Ws0 :: r) [] = pm r [].
Proof. rewrite pm_cons. cbn [pm_it]. apply prepend_nil. Qed.
Fixpoint star_loop (g : list pit) (n : nat) (s0 : str) : str :=
  match n with
  | O => s0
  | S n' => match pm g s0 with
            | Some (_, s') => if Nat.ltb (length s') (length s0) then star_loop g n' s' else s0
            | None => s0
            end
  end.
Lemma pm_it_star g s : pm_it (Star g) s = Some ([], star_loop g (length s) s).
Proof.
  cbn [pm_it]. f_equal. f_equal. generalize (length s) as n. intros n. revert s.
  induction n as [|n IH]; intros s0; [reflexivity|].
  cbn [star_loop]. unfold pm. destruct (pm_seq pm_it g s0) as [[c s']|]; [|reflexivity].
  destruct (Nat.ltb (length s') (length s0)); [apply IH|reflexivity].
Qed.
Lemma pm_star_zero g r s : pm g s = None -> pm (Star g :: r) s = pm r s.
Proof.
  intros H. rewrite pm_cons, pm_it_star. destruct (length s) as [|n]; cbn [star_loop]; [apply prepend_nil|].
  rewrite H. apply prepend_nil.
Qed.
Lemma pm_star_one g r s c s' : pm g s = Some (c, s') -> length s' < length s -> pm g s' = None ->
  pm (Star g :: r) s = pm r s'.
Proof.
  intros H L H'. rewrite pm_cons, pm_it_star. destruct (length s) as [|n] eqn:E; [lia|]. cbn [star_loop].
  rewrite H, E. apply Nat.ltb_lt in L. rewrite L. destruct n as [|n']; cbn [star_loop]; [apply prepend_nil|].
  rewrite H'. apply prepend_nil.
Qed.
Lemma quad_lit_fail c0 w q t : wfq q -> is_digit c0 = false -> starts_with (c0 :: w) (render_quad q ++ t) = false.
Proof.
  intros W H. destruct (quad_digits_head q t W) as [d [t' [D E]]]. rewrite E. apply digits_head_ne; assumption.
Qed.
Definition n_pm_ws0_one := ltac:(norm_of pm_ws0_one).
Definition n_pm_ws0_nil := ltac:(norm_of pm_ws0_nil).
Definition n_pm_star_zero := ltac:(norm_of pm_star_zero).
Definition n_pm_star_one := ltac:(norm_of pm_star_one).
Definition n_quad_lit_fail := ltac:(norm_of quad_lit_fail).

Ltac fin := rewrite ?n_pm_end_nil, ?n_pm_nil, ?app_nil_r; try reflexivity.

Lemma f_description_render a : valid a ->
  f_description (render a) = match a with A_description _ txt => Some txt | _ => None end.
Proof.
  destruct a; intros V; unfold f_description, cap_n, caps, P_description, render; cbn [valid] in V; norm; cbn [app].
  - destruct V as [V1 V2]. t_ind. t_lit. rewrite n_pm_ws1_one by exact V2. rewrite n_pm_cap_rest by assumption. fin.
  - t_ind. t_fail. reflexivity.
  - destruct with_ip; t_ind; t_fail; reflexivity.
  - t_ind. t_fail. reflexivity.
  - t_ind. t_fail. reflexivity.
  - t_ind. t_fail. reflexivity.
  - t_ind. t_fail. reflexivity.
  - apply V.
Qed.

Lemma f_channel_render a : valid a ->
  f_channel (render a) = match a with A_channel _ g _ => Some (render_dec g) | _ => None end.
Proof.
  destruct a; intros V; unfold f_channel, cap_n, caps, P_channel, render; cbn [valid] in V; norm; cbn [app].
  - t_ind. t_fail. reflexivity.
  - t_ind. t_fail. reflexivity.
  - destruct with_ip; t_ind; t_fail; reflexivity.
  - t_ind. t_fail. reflexivity.
  - t_ind. t_lit. t_sp. rewrite n_pm_cap_dig by (auto using digits_render; reflexivity). fin.
  - t_ind. t_fail. reflexivity.
  - t_ind. t_fail. reflexivity.
  - apply V.
Qed.

Lemma shutdown_render a : valid a ->
  matches P_shutdown (render a) = match a with A_shutdown _ => true | _ => false end.
Proof.
  destruct a; intros V; unfold matches, P_shutdown, render; cbn [valid] in V; norm; cbn [app].
  - t_ind. t_fail. reflexivity.
  - t_ind. t_fail. reflexivity.
  - destruct with_ip; t_ind; t_fail; reflexivity.
  - t_ind. unfold s_shutdown. t_lit. reflexivity.
  - t_ind. t_fail. reflexivity.
  - t_ind. t_fail. reflexivity.
  - t_ind. t_fail. reflexivity.
  - apply V.
Qed.

Lemma len_ip (t : list N) : length t < length (s_ip ++ spc :: t).
Proof. rewrite app_length. simpl. lia. Qed.

Lemma f_vrf_render a : valid a ->
  f_vrf (render a) = match a with A_vrf _ _ name => Some name | _ => None end.
Proof.
  assert (Z0 : forall t : list N, starts_with s_ip t = false -> pm [Lit s_ip; Ws1] t = None).
  { intros t H. norm. rewrite n_pm_lit_fail by exact H. reflexivity. }
  destruct a; intros V; unfold f_vrf, cap_n, caps, P_vrf, render; cbn [valid] in V; norm; cbn [app].
  - t_ind. rewrite n_pm_star_zero by (apply Z0; reflexivity). t_fail. reflexivity.
  - t_ind. rewrite n_pm_star_zero by (apply Z0; reflexivity). t_fail. reflexivity.
  - assert (T : forall r : list pit, pm (Lit s_vrf :: Ws :: Lit s_forwarding :: Ws :: Cap KNS1 :: End :: r)
                        (s_vrf ++ spc :: s_forwarding ++ spc :: name) = prepend [Some name] (pm r [])).
    { intros r. norm. t_lit. rewrite n_pm_ws_one. t_lit. rewrite n_pm_ws_one. rewrite <- (app_nil_r name).
      rewrite n_pm_cap_word by (auto using stops_nil). rewrite n_pm_end_nil. rewrite app_nil_r. reflexivity. }
    norm. destruct with_ip; rewrite <- ?app_assoc; cbn [app]; t_ind.
    + rewrite (n_pm_star_one [Lit s_ip; Ws1] _ _ [] (s_vrf ++ spc :: s_forwarding ++ spc :: name)).
      * rewrite T. fin.
      * t_lit. t_sp. reflexivity.
      * apply len_ip.
      * apply Z0. reflexivity.
    + rewrite n_pm_star_zero by (apply Z0; reflexivity). rewrite T. fin.
  - t_ind. rewrite n_pm_star_zero by (apply Z0; reflexivity). t_fail. reflexivity.
  - t_ind. rewrite n_pm_star_zero by (apply Z0; reflexivity). t_fail. reflexivity.
  - t_ind. rewrite (n_pm_star_one [Lit s_ip; Ws1] _ _ [] (s_address ++ spc :: render_quad a ++ spc :: render_quad m)).
    + t_fail. reflexivity.
    + t_lit. t_sp. reflexivity.
    + apply len_ip.
    + apply Z0. reflexivity.
  - t_ind. rewrite (n_pm_star_one [Lit s_ip; Ws1] _ _ [] (s_address ++ spc :: render_quad a ++ spc :: render_quad m ++ spc :: s_secondary)).
    + t_fail. reflexivity.
    + t_lit. t_sp. reflexivity.
    + apply len_ip.
    + apply Z0. reflexivity.
  - apply V.
Qed.

Lemma stops_spc_dig (t : list N) : stops is_digit (spc :: t).
Proof. reflexivity. Qed.

Lemma f_v4addr_render a : valid a ->
  f_v4addr (render a) = match a with A_address _ q _ => Some (render_quad q) | _ => None end.
Proof.
  destruct a; intros V; unfold f_v4addr, cap_n, caps, P_v4addr, render; cbn [valid] in V; norm; cbn [app].
  - t_ind1. t_fail. reflexivity.
  - t_ind1. t_fail. reflexivity.
  - destruct with_ip; rewrite <- ?app_assoc; cbn [app]; t_ind1; [t_lit; t_sp|]; t_fail; reflexivity.
  - t_ind1. t_fail. reflexivity.
  - t_ind1. t_fail. reflexivity.
  - destruct V as [Va Vm]. t_ind1. t_lit. t_sp. t_lit. t_sp.
    rewrite n_pm_cap_quad by (auto using stops_spc_dig). rewrite <- (app_nil_r (render_quad m)). t_sp.
    rewrite n_pm_skp_quad by (auto using stops_nil). rewrite n_pm_ws0_nil. fin.
  - destruct V as [Va Vm]. t_ind1. t_lit. t_sp. t_lit. t_sp.
    rewrite n_pm_cap_quad by (auto using stops_spc_dig). t_sp.
    rewrite n_pm_skp_quad by (auto using stops_spc_dig). rewrite n_pm_ws0_one by reflexivity. reflexivity.
  - apply V.
Qed.

Lemma f_v4mask_render a : valid a ->
  f_v4mask (render a) = match a with A_address _ _ m => Some (render_quad m) | _ => None end.
Proof.
  destruct a; intros V; unfold f_v4mask, cap_n, caps, P_v4mask, render; cbn [valid] in V; norm; cbn [app].
  - t_ind1. t_fail. reflexivity.
  - t_ind1. t_fail. reflexivity.
  - destruct with_ip; rewrite <- ?app_assoc; cbn [app]; t_ind1; [t_lit; t_sp|]; t_fail; reflexivity.
  - t_ind1. t_fail. reflexivity.
  - t_ind1. t_fail. reflexivity.
  - destruct V as [Va Vm]. t_ind1. t_lit. t_sp. t_lit. t_sp.
    rewrite n_pm_skp_quad by (auto using stops_spc_dig). rewrite <- (app_nil_r (render_quad m)). t_sp.
    rewrite n_pm_cap_quad by (auto using stops_nil). rewrite n_pm_ws0_nil. fin.
  - destruct V as [Va Vm]. t_ind1. t_lit. t_sp. t_lit. t_sp.
    rewrite n_pm_skp_quad by (auto using stops_spc_dig). t_sp.
    rewrite n_pm_cap_quad by (auto using stops_spc_dig). rewrite n_pm_ws0_one by reflexivity. reflexivity.
  - apply V.
Qed.

Lemma kw_after_address_render (kw : list N) c0 w a : kw = c0 :: w -> is_digit c0 = false ->
  starts_with kw s_vrf = false -> valid a ->
  (match a with A_other _ => False | _ => True end) ->
  matches [Ws1; Lit s_ip; Ws1; Lit s_address; Ws1; Lit kw; Ws0; End] (render a) = false.
Proof.
  intros E Hc Hv. destruct a; intros V NO; try contradiction; unfold matches, render; cbn [valid] in V; norm; cbn [app].
  - t_ind1. t_fail. reflexivity.
  - t_ind1. t_fail. reflexivity.
  - destruct with_ip; rewrite <- ?app_assoc; cbn [app]; t_ind1; [t_lit; t_sp|]; t_fail; reflexivity.
  - t_ind1. t_fail. reflexivity.
  - t_ind1. t_fail. reflexivity.
  - destruct V as [Va Vm]. t_ind1. t_lit. t_sp. t_lit. t_sp. subst kw.
    rewrite n_pm_lit_fail by (apply n_quad_lit_fail; assumption). reflexivity.
  - destruct V as [Va Vm]. t_ind1. t_lit. t_sp. t_lit. t_sp. subst kw.
    rewrite n_pm_lit_fail by (apply n_quad_lit_fail; assumption). reflexivity.
Qed.
Lemma dhcp_render a : valid a -> matches P_v4dhcp (render a) = false.
Proof.
  intros V. destruct a; try (apply (kw_after_address_render s_dhcp 100%N (tl s_dhcp)); [reflexivity|reflexivity|reflexivity|exact V|exact I]).
  apply V.
Qed.
Lemma negotiated_render a : valid a -> matches P_v4negotiated (render a) = false.
Proof.
  intros V. destruct a; try (apply (kw_after_address_render s_negotiated 110%N (tl s_negotiated)); [reflexivity|reflexivity|reflexivity|exact V|exact I]).
  apply V.
Qed.

(* ------------------------------------------------------------------ whole stanzas *)
(* an interface stanza: header + attribute lines in ANY order, unrelated lines anywhere among them *)
Definition mk_stanza (h : str) (attrs : list attr) : stanza :=
  {| hdr := h; desc := map (fun a => (true, render a)) attrs |}.
Lemma fam_mk h attrs : fam (mk_stanza h attrs) = h :: map render attrs.
Proof. unfold fam, mk_stanza. cbn [hdr desc]. rewrite map_map. reflexivity. Qed.

Lemma header_unrelated name : unrelated (s_interface ++ spc :: name).
Proof. repeat split; reflexivity. Qed.

Lemma fam_first {A} (f : str -> option A) (xval : attr -> option A) h attrs v :
  f h = None -> (forall a, In a attrs -> f (render a) = xval a) ->
  (exists a, In a attrs /\ xval a <> None) ->
  (forall a v', In a attrs -> xval a = Some v' -> v' = v) ->
  first_some f (h :: map render attrs) = Some v.
Proof.
  intros Hh Hf [a0 [Hin Hne]] Hu. apply first_some_unique.
  - exists (render a0). split; [right; apply in_map; exact Hin|]. rewrite (Hf a0 Hin). exact Hne.
  - intros l v' [E|Hl] Hv; [subst; congruence|]. apply in_map_iff in Hl. destruct Hl as [a [E Ha]]. subst l.
    rewrite (Hf a Ha) in Hv. eapply Hu; eauto.
Qed.
Lemma fam_none {A} (f : str -> option A) (xval : attr -> option A) h attrs :
  f h = None -> (forall a, In a attrs -> f (render a) = xval a) -> (forall a, In a attrs -> xval a = None) ->
  first_some f (h :: map render attrs) = None.
Proof.
  intros Hh Hf Hn. apply first_some_none. intros l [E|Hl]; [subst; exact Hh|].
  apply in_map_iff in Hl. destruct Hl as [a [E Ha]]. subst l. rewrite (Hf a Ha). apply Hn. exact Ha.
Qed.

Definition x_mtu (a : attr) := match a with A_mtu _ v => Some (render_dec v) | _ => None end.
Definition x_description (a : attr) := match a with A_description _ t => Some t | _ => None end.
Definition x_vrf (a : attr) := match a with A_vrf _ _ nm => Some nm | _ => None end.
Definition x_channel (a : attr) := match a with A_channel _ g _ => Some (render_dec g) | _ => None end.
Definition x_v4addr (a : attr) := match a with A_address _ q _ => Some (render_quad q) | _ => None end.
Definition x_v4mask (a : attr) := match a with A_address _ _ m => Some (render_quad m) | _ => None end.

Section Stanza.
  Variables (h : str) (attrs : list attr).
  Hypothesis Hh : unrelated h.
  Hypothesis Hv : Forall valid attrs.
  Let V a (Ha : In a attrs) : valid a := proj1 (Forall_forall valid attrs) Hv a Ha.

  (* --- manual_mtu *)
  Lemma mtu_present v : (exists n, In (A_mtu n v) attrs) -> (forall n' v', In (A_mtu n' v') attrs -> v' = v) ->
    acc_mtu (mk_stanza h attrs) = Some (Z.of_N v).
  Proof.
    intros [n Hin] Hu. unfold acc_mtu, int_acc. rewrite fam_mk.
    rewrite (fam_first (cap_n 0 P_mtu) x_mtu h attrs (render_dec v)).
    - apply dec_Z_render.
    - apply Hh.
    - intros a Ha. apply f_mtu_render. exact (V a Ha).
    - exists (A_mtu n v). split; [exact Hin|discriminate].
    - intros a v' Ha E. destruct a; try discriminate. simpl in E. inversion E. f_equal. eapply Hu; eauto.
  Qed.
  Lemma mtu_absent : (forall n v, ~ In (A_mtu n v) attrs) -> acc_mtu (mk_stanza h attrs) = Some (-1)%Z.
  Proof.
    intros Hn. unfold acc_mtu, int_acc. rewrite fam_mk.
    rewrite (fam_none (cap_n 0 P_mtu) x_mtu h attrs); [reflexivity|apply Hh| |].
    - intros a Ha. apply f_mtu_render. exact (V a Ha).
    - intros a Ha. destruct a; try reflexivity. exfalso. eapply Hn; eauto.
  Qed.

  (* --- portchannel_number *)
  Lemma channel_present g : (exists n m, In (A_channel n g m) attrs) -> (forall n' g' m', In (A_channel n' g' m') attrs -> g' = g) ->
    acc_portchannel (mk_stanza h attrs) = Some (Z.of_N g).
  Proof.
    intros [n [m Hin]] Hu. unfold acc_portchannel, int_acc. rewrite fam_mk.
    rewrite (fam_first (cap_n 0 P_channel) x_channel h attrs (render_dec g)).
    - apply dec_Z_render.
    - apply Hh.
    - intros a Ha. apply f_channel_render. exact (V a Ha).
    - exists (A_channel n g m). split; [exact Hin|discriminate].
    - intros a v' Ha E. destruct a; try discriminate. simpl in E. inversion E. f_equal. eapply Hu; eauto.
  Qed.
  Lemma channel_absent : (forall n g m, ~ In (A_channel n g m) attrs) -> acc_portchannel (mk_stanza h attrs) = Some (-1)%Z.
  Proof.
    intros Hn. unfold acc_portchannel, int_acc. rewrite fam_mk.
    rewrite (fam_none (cap_n 0 P_channel) x_channel h attrs); [reflexivity|apply Hh| |].
    - intros a Ha. apply f_channel_render. exact (V a Ha).
    - intros a Ha. destruct a; try reflexivity. exfalso. eapply Hn; eauto.
  Qed.

  (* --- description *)
  Lemma description_present t : (exists n, In (A_description n t) attrs) -> (forall n' t', In (A_description n' t') attrs -> t' = t) ->
    acc_description (mk_stanza h attrs) = t.
  Proof.
    intros [n Hin] Hu. unfold acc_description. rewrite fam_mk.
    rewrite (fam_first (cap_n 0 P_description) x_description h attrs t); [reflexivity|apply Hh| | |].
    - intros a Ha. apply f_description_render. exact (V a Ha).
    - exists (A_description n t). split; [exact Hin|discriminate].
    - intros a v' Ha E. destruct a; try discriminate. simpl in E. inversion E. subst. eapply Hu; eauto.
  Qed.
  Lemma description_absent : (forall n t, ~ In (A_description n t) attrs) -> acc_description (mk_stanza h attrs) = [].
  Proof.
    intros Hn. unfold acc_description. rewrite fam_mk.
    rewrite (fam_none (cap_n 0 P_description) x_description h attrs); [reflexivity|apply Hh| |].
    - intros a Ha. apply f_description_render. exact (V a Ha).
    - intros a Ha. destruct a; try reflexivity. exfalso. eapply Hn; eauto.
  Qed.

  (* --- vrf *)
  Lemma vrf_present nm : (exists n b, In (A_vrf n b nm) attrs) -> (forall n' b' nm', In (A_vrf n' b' nm') attrs -> nm' = nm) ->
    acc_vrf (mk_stanza h attrs) = nm.
  Proof.
    intros [n [b Hin]] Hu. unfold acc_vrf. rewrite fam_mk.
    rewrite (fam_first (cap_n 0 P_vrf) x_vrf h attrs nm); [reflexivity|apply Hh| | |].
    - intros a Ha. apply f_vrf_render. exact (V a Ha).
    - exists (A_vrf n b nm). split; [exact Hin|discriminate].
    - intros a v' Ha E. destruct a; try discriminate. simpl in E. inversion E. subst. eapply Hu; eauto.
  Qed.
  Lemma vrf_absent : (forall n b nm, ~ In (A_vrf n b nm) attrs) -> acc_vrf (mk_stanza h attrs) = [].
  Proof.
    intros Hn. unfold acc_vrf. rewrite fam_mk.
    rewrite (fam_none (cap_n 0 P_vrf) x_vrf h attrs); [reflexivity|apply Hh| |].
    - intros a Ha. apply f_vrf_render. exact (V a Ha).
    - intros a Ha. destruct a; try reflexivity. exfalso. eapply Hn; eauto.
  Qed.

  (* --- is_shutdown *)
  Lemma shutdown_iff : acc_shutdown (mk_stanza h attrs) = true <-> exists n, In (A_shutdown n) attrs.
  Proof.
    unfold acc_shutdown. rewrite fam_mk. cbn [existsb].
    assert (E0 : matches P_shutdown h = false) by apply Hh. rewrite E0. cbn [orb].
    rewrite existsb_exists. split.
    - intros [l [Hl M]]. apply in_map_iff in Hl. destruct Hl as [a [E Ha]]. subst l.
      rewrite (shutdown_render a (V a Ha)) in M. destruct a; try discriminate. eauto.
    - intros [n Hin]. exists (render (A_shutdown n)). split; [apply in_map; exact Hin|].
      apply (shutdown_render (A_shutdown n) I).
  Qed.

  (* --- ipv4_addr / ipv4_netmask *)
  Lemma no_dhcp : existsb (matches P_v4dhcp) (h :: map render attrs) = false /\
                  existsb (matches P_v4negotiated) (h :: map render attrs) = false.
  Proof.
    split; apply existsb_false; intros l [E|Hl]; try (subst; apply Hh);
      apply in_map_iff in Hl; destruct Hl as [a [E Ha]]; subst l;
      [apply dhcp_render|apply negotiated_render]; exact (V a Ha).
  Qed.
  Lemma address_present q m : (exists n, In (A_address n q m) attrs) ->
    (forall n' q' m', In (A_address n' q' m') attrs -> q' = q /\ m' = m) ->
    acc_ipv4_addr (mk_stanza h attrs) = render_quad q /\ acc_ipv4_netmask (mk_stanza h attrs) = render_quad m.
  Proof.
    intros [n Hin] Hu. unfold acc_ipv4_addr, acc_ipv4_netmask. rewrite fam_mk.
    destruct no_dhcp as [D1 D2]. rewrite D1, D2. split.
    - rewrite (fam_first (cap_n 0 P_v4addr) x_v4addr h attrs (render_quad q)); [reflexivity|apply Hh| | |].
      + intros a Ha. apply f_v4addr_render. exact (V a Ha).
      + exists (A_address n q m). split; [exact Hin|discriminate].
      + intros a v' Ha E. destruct a; try discriminate. simpl in E. inversion E. f_equal. eapply Hu; eauto.
    - rewrite (fam_first (cap_n 0 P_v4mask) x_v4mask h attrs (render_quad m)); [reflexivity|apply Hh| | |].
      + intros a Ha. apply f_v4mask_render. exact (V a Ha).
      + exists (A_address n q m). split; [exact Hin|discriminate].
      + intros a v' Ha E. destruct a; try discriminate. simpl in E. inversion E. f_equal. eapply Hu; eauto.
  Qed.
  Lemma address_absent : (forall n q m, ~ In (A_address n q m) attrs) ->
    acc_ipv4_addr (mk_stanza h attrs) = [] /\ acc_ipv4_netmask (mk_stanza h attrs) = [].
  Proof.
    intros Hn. unfold acc_ipv4_addr, acc_ipv4_netmask. rewrite fam_mk.
    destruct no_dhcp as [D1 D2]. rewrite D1, D2. split.
    - rewrite (fam_none (cap_n 0 P_v4addr) x_v4addr h attrs); [reflexivity|apply Hh| |].
      + intros a Ha. apply f_v4addr_render. exact (V a Ha).
      + intros a Ha. destruct a; try reflexivity. exfalso. eapply Hn; eauto.
    - rewrite (fam_none (cap_n 0 P_v4mask) x_v4mask h attrs); [reflexivity|apply Hh| |].
      + intros a Ha. apply f_v4mask_render. exact (V a Ha).
      + intros a Ha. destruct a; try reflexivity. exfalso. eapply Hn; eauto.
  Qed.
End Stanza.

(* ------------------------------------------------------------------ mask lengths (all 33 netmasks, enumerated) *)
Definition mask_value (n : N) : N := (2 ^ 32 - 2 ^ (32 - n))%N.
Definition quad_text (v : N) : str :=
  render_dec (v / 16777216) ++ [dot] ++ render_dec ((v / 65536) mod 256) ++ [dot] ++
  render_dec ((v / 256) mod 256) ++ [dot] ++ render_dec (v mod 256).
Definition mask_text (n : N) : str := quad_text (mask_value n).
Definition all_lens : list N := map N.of_nat (seq 0 33).
Lemma masklen_table : forallb (fun n => opt_eqb Z.eqb (masklen_str (mask_text n)) (Some (Z.of_N n))) all_lens = true.
Proof. vm_compute. reflexivity. Qed.
Lemma masklen_all n : (n <= 32)%N -> masklen_str (mask_text n) = Some (Z.of_N n).
Proof.
  intros H. pose proof masklen_table as T. rewrite forallb_forall in T.
  assert (Hin : In n all_lens).
  { unfold all_lens. apply in_map_iff. exists (N.to_nat n). split; [apply N2Nat.id|]. apply in_seq. lia. }
  specialize (T n Hin). destruct (masklen_str (mask_text n)) as [z|]; [|discriminate]. simpl in T.
  apply Z.eqb_eq in T. subst. reflexivity.
Qed.

(* ------------------------------------------------------------------ VLAN sets as bit sets *)
Lemma range_bits_spec a b n : N.testbit (range_bits a b) n = ((a <=? n) && (n <=? b))%N.
Proof.
  unfold range_bits. rewrite N.ldiff_spec.
  destruct (N.leb_spec a n) as [H1|H1], (N.leb_spec n b) as [H2|H2]; simpl.
  - rewrite N.ones_spec_low by lia. rewrite N.ones_spec_high by lia. reflexivity.
  - rewrite N.ones_spec_high by lia. reflexivity.
  - rewrite N.ones_spec_low by lia. rewrite N.ones_spec_low by lia. reflexivity.
  - rewrite N.ones_spec_high by lia. reflexivity.
Qed.
Lemma vlan_add_spec s t n : N.testbit (N.lor s t) n = N.testbit s n || N.testbit t n.
Proof. apply N.lor_spec. Qed.
Lemma vlan_remove_spec s t n : N.testbit (N.ldiff s t) n = N.testbit s n && negb (N.testbit t n).
Proof. apply N.ldiff_spec. Qed.

(* ------------------------------------------------------------------ word tests over the direct children *)
Lemma ws_acc (w : list N) : forallb non_space w = true -> forall cur t,
  split_ws_aux is_space cur (w ++ t) = split_ws_aux is_space (rev w ++ cur) t.
Proof.
  induction w as [|c w IH]; intros H cur t; [reflexivity|].
  simpl in H. apply andb_true_iff in H. destruct H as [Hc Hw]. unfold non_space in Hc. apply negb_true_iff in Hc.
  simpl app. cbn [split_ws_aux]. rewrite Hc, (IH Hw). simpl rev. rewrite <- app_assoc. reflexivity.
Qed.
Lemma ws_spaces n (t : list N) : split_ws_aux is_space [] (repeat spc n ++ t) = split_ws_aux is_space [] t.
Proof. induction n as [|n IH]; [reflexivity|exact IH]. Qed.
Lemma rev_nonempty (w : list N) : w <> [] -> exists c r, rev w = c :: r.
Proof. intros H. destruct (rev w) as [|c r] eqn:E; [|eauto]. exfalso. apply H. rewrite <- (rev_involutive w), E. reflexivity. Qed.

Lemma split_ws_join ws : Forall word ws -> split_ws_aux is_space [] (join [spc] ws) = ws.
Proof.
  intros H. induction H as [|x r [Hx1 Hx2] Hr IH]; [reflexivity|].
  destruct (rev_nonempty x Hx1) as [c [rx E]].
  destruct r as [|y r'].
  - cbn [join]. rewrite <- (app_nil_r x) at 1. rewrite (ws_acc x Hx2), app_nil_r, E. cbn [split_ws_aux].
    rewrite <- E, rev_involutive. reflexivity.
  - change (join [spc] (x :: y :: r')) with (x ++ spc :: join [spc] (y :: r')).
    rewrite (ws_acc x Hx2), app_nil_r, E. cbn [split_ws_aux]. change (is_space spc) with true. cbn iota.
    rewrite <- E, rev_involutive. f_equal. exact IH.
Qed.
Definition render_words (n : nat) (ws : list str) : str := ind n ++ join [spc] ws.
Lemma words_render n ws : Forall word ws -> words (render_words n ws) = ws.
Proof. intros H. unfold words, split_ws, render_words, ind. rewrite ws_spaces. apply split_ws_join. exact H. Qed.

Lemma word_digits d : digits d -> word d.
Proof.
  intros [H1 H2]. split; [exact H1|]. rewrite forallb_forall in *. intros c Hc. specialize (H2 c Hc).
  unfold non_space. apply negb_true_iff.
  assert (S : stops is_space (c :: [])) by (apply (digits_stop_space [c] []); split; [discriminate|simpl; rewrite H2; reflexivity]).
  exact S.
Qed.

Lemma lstrip_by_all (d : list N) : forallb non_space d = true -> lstrip_by is_space d = d.
Proof.
  destruct d as [|c d']; [reflexivity|]. simpl. intros H. apply andb_true_iff in H. destruct H as [Hc _].
  unfold non_space in Hc. apply negb_true_iff in Hc. rewrite Hc. reflexivity.
Qed.
Lemma strip_word (d : list N) : forallb non_space d = true -> strip d = d.
Proof.
  intros H. unfold strip, strip_by, rstrip_by. rewrite (lstrip_by_all d H).
  rewrite lstrip_by_all; [apply rev_involutive|]. rewrite forallb_forall in *. intros c Hc. apply H. apply in_rev. exact Hc.
Qed.
Lemma py_int_digits d : digits d -> py_int d = option_map Z.of_N (parse_dec d).
Proof.
  intros D. destruct (word_digits d D) as [_ W]. unfold py_int. rewrite (strip_word d W).
  destruct D as [D1 D2]. destruct d as [|c d']; [congruence|]. simpl in D2. apply andb_true_iff in D2. destruct D2 as [Hc _].
  unfold is_digit in Hc. apply andb_true_iff in Hc. destruct Hc as [A B]. apply N.leb_le in A, B.
  destruct (N.eq_dec c 45) as [E|E]; [lia|]. destruct (N.eq_dec c 43) as [E'|E']; [lia|].
  destruct c as [|p]; [lia|].
  do 6 (destruct p as [p|p|]; try reflexivity; try lia).
Qed.
Lemma py_int_render v : py_int (render_dec v) = Some (Z.of_N v).
Proof. rewrite (py_int_digits _ (digits_render v)), parse_render_dec. reflexivity. Qed.

Definition kw_word (w : str) : Prop := word w.
Lemma word_switchport : word s_switchport. Proof. split; [discriminate|reflexivity]. Qed.
Lemma word_access : word s_access. Proof. split; [discriminate|reflexivity]. Qed.
Lemma word_vlan : word s_vlan. Proof. split; [discriminate|reflexivity]. Qed.
Lemma word_trunk : word s_trunk. Proof. split; [discriminate|reflexivity]. Qed.
Lemma word_native : word s_native. Proof. split; [discriminate|reflexivity]. Qed.

Definition access_line (n : nat) (v : N) : str := render_words n [s_switchport; s_access; s_vlan; render_dec v].
Definition native_line (n : nat) (v : N) : str := render_words n [s_switchport; s_trunk; s_native; s_vlan; render_dec v].
Definition is_access_line (l : str) : bool := w_eqb (firstn 3 (words l)) [s_switchport; s_access; s_vlan].
Definition is_native_line (l : str) : bool :=
  (length (words l) =? 5) && w_eqb (firstn 4 (words l)) [s_switchport; s_trunk; s_native; s_vlan].

Lemma words_access n v : words (access_line n v) = [s_switchport; s_access; s_vlan; render_dec v].
Proof.
  apply words_render.
  apply Forall_cons; [apply word_switchport|]. apply Forall_cons; [apply word_access|]. apply Forall_cons; [apply word_vlan|].
  apply Forall_cons; [apply word_digits, digits_render|constructor].
Qed.
Lemma words_native n v : words (native_line n v) = [s_switchport; s_trunk; s_native; s_vlan; render_dec v].
Proof.
  apply words_render.
  apply Forall_cons; [apply word_switchport|]. apply Forall_cons; [apply word_trunk|]. apply Forall_cons; [apply word_native|].
  apply Forall_cons; [apply word_vlan|]. apply Forall_cons; [apply word_digits, digits_render|constructor].
Qed.

Lemma switchport_child st l rest : In l (kids st) -> words l = s_switchport :: rest -> acc_is_switchport st = true.
Proof.
  intros Hin Hw. unfold acc_is_switchport. apply existsb_exists. exists l. split; [exact Hin|]. rewrite Hw. reflexivity.
Qed.

Lemma access_vlan_present st n v : In (access_line n v) (kids st) ->
  (forall l, In l (kids st) -> is_access_line l = true -> l = access_line n v) ->
  acc_access_vlan st = Some (Z.of_N v).
Proof.
  intros Hin Hu. unfold acc_access_vlan.
  rewrite (first_some_unique _ (kids st) (Some (Z.of_N v))); [reflexivity| |].
  - exists (access_line n v). split; [exact Hin|]. rewrite words_access. discriminate.
  - intros l v' Hl E. fold (is_access_line l) in E. destruct (is_access_line l) eqn:A; [|discriminate].
    rewrite (Hu l Hl A), words_access in E. cbn [nth_error] in E. rewrite py_int_render in E. congruence.
Qed.
Lemma access_vlan_absent st : (forall l, In l (kids st) -> is_access_line l = false) ->
  acc_access_vlan st = Some (if acc_is_switchport st then 1 else -1)%Z.
Proof.
  intros H. unfold acc_access_vlan. rewrite first_some_none; [reflexivity|].
  intros l Hl. fold (is_access_line l). rewrite (H l Hl). reflexivity.
Qed.
Lemma native_vlan_present st n v : In (native_line n v) (kids st) ->
  (forall l, In l (kids st) -> is_native_line l = true -> l = native_line n v) ->
  acc_native_vlan st = Some (Z.of_N v).
Proof.
  intros Hin Hu. unfold acc_native_vlan.
  rewrite (first_some_unique _ (kids st) (Some (Z.of_N v))); [reflexivity| |].
  - exists (native_line n v). split; [exact Hin|]. rewrite words_native. discriminate.
  - intros l v' Hl E. fold (is_native_line l) in E. destruct (is_native_line l) eqn:A; [|discriminate].
    rewrite (Hu l Hl A), words_native in E. cbn [nth_error] in E. rewrite py_int_render in E. congruence.
Qed.
Lemma native_vlan_absent st : (forall l, In l (kids st) -> is_native_line l = false) ->
  acc_native_vlan st = Some (if acc_is_switchport st then 1 else -1)%Z.
Proof.
  intros H. unfold acc_native_vlan. rewrite first_some_none; [reflexivity|].
  intros l Hl. fold (is_native_line l). rewrite (H l Hl). reflexivity.
Qed.

(* ------------------------------------------------------------------ static routes *)
Lemma pm_opt_some g r s cs s' : pm g s = Some (cs, s') -> pm (Opt g :: r) s = prepend cs (pm r s').
Proof. intros H. rewrite pm_cons. cbn [pm_it]. unfold pm in H. rewrite H. reflexivity. Qed.
Lemma pm_opt_none g r s : pm g s = None -> pm (Opt g :: r) s = prepend (repeat None (ncaps g)) (pm r s).
Proof. intros H. rewrite pm_cons. cbn [pm_it]. unfold pm in H. rewrite H. reflexivity. Qed.
Lemma pm_cap_nondig r w t : word w -> (exists c w', w = c :: w' /\ w' <> [] /\ is_digit c = false) -> stops non_space t ->
  pm (Cap KNonDig :: r) (w ++ t) = prepend [Some w] (pm r t).
Proof.
  intros [W1 W2] [c [w' [E [Hw' Hc]]]] S. subst w. rewrite pm_cons. cbn [pm_it take app]. rewrite Hc.
  simpl in W2. apply andb_true_iff in W2. destruct W2 as [_ W2].
  rewrite (span1_all non_space w' t Hw' W2 S). reflexivity.
Qed.
Lemma pm_cap_nondig_fail r d t : digits d -> pm (Cap KNonDig :: r) (d ++ t) = None.
Proof.
  intros [D1 D2]. rewrite pm_cons. destruct d as [|c d']; [congruence|]. simpl in D2. apply andb_true_iff in D2.
  destruct D2 as [Hc _]. cbn [pm_it take app]. rewrite Hc. reflexivity.
Qed.
Lemma take_quad_fail_digits d t : digits d -> stops is_digit t -> (match t with c :: _ => N.eqb c dot = false | [] => True end) ->
  take_quad (d ++ t) = None.
Proof.
  intros [D1 D2] S Hd. unfold take_quad. rewrite (span1_all is_digit d t D1 D2 S).
  destruct t as [|c t']; [reflexivity|]. rewrite Hd. reflexivity.
Qed.
Lemma take_quad_fail_alpha c t : is_digit c = false -> take_quad (c :: t) = None.
Proof. intros H. unfold take_quad, span1. simpl. rewrite H. reflexivity. Qed.

Definition n_pm_opt_some := ltac:(norm_of pm_opt_some).
Definition n_pm_opt_none := ltac:(norm_of pm_opt_none).
Definition n_pm_cap_nondig := ltac:(norm_of pm_cap_nondig).
Definition n_pm_cap_nondig_fail := ltac:(norm_of pm_cap_nondig_fail).

(* the optional groups of _RE_IP_ROUTE *)
Definition G_vrf := [Ws1; Lit s_vrf; Ws1; Cap KNS1].
Definition G_intf := [Ws1; Cap KNonDig].
Definition G_nh := [Ws1; Cap KQuad].
Definition G_dhcp := [Ws1; Lit s_dhcp].
Definition G_global := [Ws1; Lit s_global].
Definition G_ad := [Ws1; Cap KDig].
Definition G_mcast := [Ws1; Lit s_multicast].
Definition G_name := [Ws1; Lit s_name; Ws1; Cap KNS1].
Definition G_perm := [Ws1; Lit s_permanent].
Definition G_track := [Ws1; Lit s_track; Ws1; Cap KDig].
Definition G_tag := [Ws1; Lit s_tag; Ws1; Cap KDig].
Definition R_tag := [Opt G_tag].
Definition R_track := Opt G_track :: R_tag.
Definition R_perm := Opt G_perm :: R_track.
Definition R_name := Opt G_name :: R_perm.
Definition R_mcast := Opt G_mcast :: R_name.
Definition R_ad := Opt G_ad :: R_mcast.
Definition R_global := Opt G_global :: R_ad.
Definition R_dhcp := Opt G_dhcp :: R_global.
Definition R_nh := Opt G_nh :: R_dhcp.
Definition R_intf := Opt G_intf :: R_nh.
Lemma P_ip_route_eq : P_ip_route = [Lit s_ip; Ws1; Lit s_route; Opt G_vrf; Ws1; Cap KQuad; Ws1; Cap KQuad] ++ R_intf.
Proof. reflexivity. Qed.

(* rendering of the optional trailing fields *)
Definition seg_num (kw : str) (o : option N) : str :=
  match o with Some v => spc :: kw ++ spc :: render_dec v | None => [] end.
Definition T_tag (tag : option N) : str := seg_num s_tag tag.
Definition T_track (track tag : option N) : str := seg_num s_track track ++ T_tag tag.
Definition T_name (name : option str) (track tag : option N) : str :=
  (match name with Some nm => spc :: s_name ++ spc :: nm | None => [] end) ++ T_track track tag.
Definition T_ad (ad : option N) name track tag : str :=
  (match ad with Some a => spc :: render_dec a | None => [] end) ++ T_name name track tag.
Definition T_nh (nh : option quad) ad name track tag : str :=
  (match nh with Some q => spc :: render_quad q | None => [] end) ++ T_ad ad name track tag.
Definition T_intf (intf : option str) nh ad name track tag : str :=
  (match intf with Some i => spc :: i | None => [] end) ++ T_nh nh ad name track tag.

Definition od (o : option N) : option str := option_map render_dec o.

(* a tail is empty or starts with a blank followed by a non-blank *)
Ltac grp_none :=
  first [ reflexivity
        | rewrite n_pm_ws1_one by stop_tac; first [ rewrite n_pm_lit_fail by reflexivity; reflexivity
                                                   | rewrite n_pm_lit_fail by (apply digits_head_ne; [apply digits_render|reflexivity]); reflexivity ] ].

Lemma L_tag tag : pm R_tag (T_tag tag) = Some ([od tag], []).
Proof.
  unfold R_tag, T_tag, seg_num. norm. destruct tag as [g|].
  - rewrite (n_pm_opt_some G_tag [] _ [Some (render_dec g)] []); [reflexivity|].
    unfold G_tag. norm. t_sp. t_lit. rewrite <- (app_nil_r (render_dec g)). t_sp.
    rewrite n_pm_cap_dig by (auto using digits_render, stops_nil). fin.
  - reflexivity.
Qed.
Lemma L_track track tag : pm R_track (T_track track tag) = Some ([od track; od tag], []).
Proof.
  unfold R_track, T_track, seg_num. norm. destruct track as [t|].
  - rewrite (n_pm_opt_some G_track R_tag _ [Some (render_dec t)] (T_tag tag)); [rewrite L_tag; reflexivity|].
    unfold G_track. norm. cbn [app]. rewrite <- ?app_assoc. cbn [app]. t_sp. t_lit. t_sp.
    rewrite n_pm_cap_dig; [fin|apply digits_render|].
    unfold T_tag, seg_num. destruct tag; reflexivity.
  - cbn [app]. rewrite n_pm_opt_none; [rewrite L_tag; reflexivity|].
    unfold G_track, T_tag, seg_num. norm. destruct tag; grp_none.
Qed.

Ltac untail := unfold T_intf, T_nh, T_ad, T_name, T_track, T_tag, seg_num.
Ltac split_opts := repeat match goal with |- context [match ?o with Some _ => _ | None => _ end] => destruct o end.
Ltac grp_none2 :=
  first [ reflexivity
        | rewrite n_pm_ws1_one by stop_tac;
          first [ reflexivity
                | rewrite n_pm_lit_fail by reflexivity; reflexivity
                | rewrite n_pm_lit_fail by (apply digits_head_ne; [apply digits_render|reflexivity]); reflexivity ] ].
Ltac tails := untail; norm; split_opts; cbn [app]; rewrite <- ?app_assoc; cbn [app]; grp_none2.

Lemma tail_stops (p : N -> bool) : p spc = false ->
  forall intf nh ad name track tag,
  stops p (T_track track tag) /\ stops p (T_name name track tag) /\ stops p (T_ad ad name track tag) /\
  stops p (T_nh nh ad name track tag) /\ stops p (T_intf intf nh ad name track tag) /\ stops p (T_tag tag).
Proof.
  intros Hp intf nh ad name track tag. untail.
  destruct intf, nh, ad, name, track, tag; cbn [app]; repeat split; first [exact Hp | exact I].
Qed.

Lemma L_perm track tag : pm R_perm (T_track track tag) = Some ([od track; od tag], []).
Proof. unfold R_perm. norm. rewrite n_pm_opt_none; [rewrite L_track; reflexivity|]. unfold G_perm. tails. Qed.

Lemma L_name name track tag : (forall nm, name = Some nm -> word nm) ->
  pm R_name (T_name name track tag) = Some ([name; od track; od tag], []).
Proof.
  intros Hw. unfold R_name, T_name. norm. destruct name as [nm|].
  - rewrite (n_pm_opt_some G_name R_perm _ [Some nm] (T_track track tag)); [rewrite L_perm; reflexivity|].
    unfold G_name. norm. cbn [app]. rewrite <- ?app_assoc. cbn [app]. t_sp. t_lit.
    rewrite n_pm_ws1_one by (apply word_stop_space; apply Hw; reflexivity).
    rewrite n_pm_cap_word; [fin|apply Hw; reflexivity|].
    apply (tail_stops non_space eq_refl None None None None track tag).
  - cbn [app]. rewrite n_pm_opt_none; [rewrite L_perm; reflexivity|]. unfold G_name. tails.
Qed.

Lemma L_mcast name track tag : (forall nm, name = Some nm -> word nm) ->
  pm R_mcast (T_name name track tag) = Some ([name; od track; od tag], []).
Proof. intros Hw. unfold R_mcast. norm. rewrite n_pm_opt_none; [rewrite L_name by exact Hw; reflexivity|]. unfold G_mcast. tails. Qed.

Lemma L_ad ad name track tag : (forall nm, name = Some nm -> word nm) ->
  pm R_ad (T_ad ad name track tag) = Some ([od ad; name; od track; od tag], []).
Proof.
  intros Hw. unfold R_ad, T_ad. norm. destruct ad as [a|].
  - rewrite (n_pm_opt_some G_ad R_mcast _ [Some (render_dec a)] (T_name name track tag)); [rewrite L_mcast by exact Hw; reflexivity|].
    unfold G_ad. norm. cbn [app]. t_sp. rewrite n_pm_cap_dig; [fin|apply digits_render|].
    apply (tail_stops is_digit eq_refl None None None name track tag).
  - cbn [app]. rewrite n_pm_opt_none; [rewrite L_mcast by exact Hw; reflexivity|]. unfold G_ad. tails.
Qed.

Lemma L_global ad name track tag : (forall nm, name = Some nm -> word nm) ->
  pm R_global (T_ad ad name track tag) = Some ([od ad; name; od track; od tag], []).
Proof. intros Hw. unfold R_global. norm. rewrite n_pm_opt_none; [rewrite L_ad by exact Hw; reflexivity|]. unfold G_global. tails. Qed.
Lemma L_dhcp ad name track tag : (forall nm, name = Some nm -> word nm) ->
  pm R_dhcp (T_ad ad name track tag) = Some ([od ad; name; od track; od tag], []).
Proof. intros Hw. unfold R_dhcp. norm. rewrite n_pm_opt_none; [rewrite L_global by exact Hw; reflexivity|]. unfold G_dhcp. tails. Qed.

Lemma pm_cap_quad_fail_digits r d t : digits d -> stops is_digit t ->
  (match t with c :: _ => N.eqb c dot = false | [] => True end) -> pm (Cap KQuad :: r) (d ++ t) = None.
Proof. intros D S H. rewrite pm_cons. cbn [pm_it take]. rewrite (take_quad_fail_digits d t D S H). reflexivity. Qed.
Definition n_pm_cap_quad_fail_digits := ltac:(norm_of pm_cap_quad_fail_digits).

Definition oq (o : option quad) : option str := option_map render_quad o.

Lemma L_nh nh ad name track tag : (forall nm, name = Some nm -> word nm) -> (forall q, nh = Some q -> wfq q) ->
  pm R_nh (T_nh nh ad name track tag) = Some ([oq nh; od ad; name; od track; od tag], []).
Proof.
  intros Hw Hq. unfold R_nh, T_nh. norm. destruct nh as [q|].
  - rewrite (n_pm_opt_some G_nh R_dhcp _ [Some (render_quad q)] (T_ad ad name track tag)); [rewrite L_dhcp by exact Hw; reflexivity|].
    unfold G_nh. norm. cbn [app]. rewrite n_pm_ws1_one by (apply quad_stop_space; apply Hq; reflexivity).
    rewrite n_pm_cap_quad; [fin|apply Hq; reflexivity|].
    apply (tail_stops is_digit eq_refl None None ad name track tag).
  - cbn [app]. rewrite n_pm_opt_none; [rewrite L_dhcp by exact Hw; reflexivity|]. unfold G_nh.
    unfold T_ad. norm. destruct ad as [a|].
    + cbn [app]. t_sp. rewrite n_pm_cap_quad_fail_digits; [reflexivity|apply digits_render| |].
      * apply (tail_stops is_digit eq_refl None None None name track tag).
      * untail. destruct name, track, tag; cbn [app]; first [reflexivity|exact I].
    + tails.
Qed.

Definition intf_ok (i : str) : Prop := word i /\ exists c w', i = c :: w' /\ w' <> [] /\ is_digit c = false.

Lemma L_intf intf nh ad name track tag :
  (forall nm, name = Some nm -> word nm) -> (forall q, nh = Some q -> wfq q) -> (forall i, intf = Some i -> intf_ok i) ->
  (intf <> None \/ nh <> None) ->
  pm R_intf (T_intf intf nh ad name track tag) = Some ([intf; oq nh; od ad; name; od track; od tag], []).
Proof.
  intros Hw Hq Hi Hor. unfold R_intf, T_intf. norm. destruct intf as [i|].
  - destruct (Hi i eq_refl) as [Wi Ni].
    rewrite (n_pm_opt_some G_intf R_nh _ [Some i] (T_nh nh ad name track tag)); [rewrite L_nh by assumption; reflexivity|].
    unfold G_intf. norm. cbn [app]. rewrite n_pm_ws1_one by (apply word_stop_space; exact Wi).
    rewrite n_pm_cap_nondig; [fin|exact Wi|exact Ni|].
    apply (tail_stops non_space eq_refl None nh ad name track tag).
  - destruct nh as [q|]; [|destruct Hor; congruence].
    cbn [app]. rewrite n_pm_opt_none; [rewrite L_nh by assumption; reflexivity|]. unfold G_intf, T_nh. norm. cbn [app].
    pose proof (Hq q eq_refl) as Wq. rewrite n_pm_ws1_one by (apply quad_stop_space; exact Wq).
    destruct (quad_digits_head q (T_ad ad name track tag) Wq) as [d [t' [D E]]]. norm. rewrite E.
    apply n_pm_cap_nondig_fail. exact D.
Qed.

(* a static route description and its rendering:
   ip route [vrf V] PREFIX MASK [INTERFACE] [NEXTHOP] [DISTANCE] [name N] [track T] [tag G] *)
Record rdesc := { d_vrf : option str; d_prefix : quad; d_mask : quad; d_intf : option str; d_nh : option quad;
                  d_ad : option N; d_name : option str; d_track : option N; d_tag : option N }.
Definition rdesc_ok (d : rdesc) : Prop :=
  (forall v, d_vrf d = Some v -> word v) /\ wfq (d_prefix d) /\ wfq (d_mask d) /\
  (forall i, d_intf d = Some i -> intf_ok i) /\ (forall q, d_nh d = Some q -> wfq q) /\
  (forall nm, d_name d = Some nm -> word nm) /\ (d_intf d <> None \/ d_nh d <> None).
Definition render_route (d : rdesc) : str :=
  s_ip ++ spc :: s_route ++ (match d_vrf d with Some v => spc :: s_vrf ++ spc :: v | None => [] end) ++
  spc :: render_quad (d_prefix d) ++ spc :: render_quad (d_mask d) ++
  T_intf (d_intf d) (d_nh d) (d_ad d) (d_name d) (d_track d) (d_tag d).

Lemma route_caps d : rdesc_ok d ->
  caps P_ip_route (render_route d) =
  Some [d_vrf d; Some (render_quad (d_prefix d)); Some (render_quad (d_mask d)); d_intf d; oq (d_nh d); od (d_ad d);
        d_name d; od (d_track d); od (d_tag d)].
Proof.
  intros [Hv [Hp [Hm [Hi [Hq [Hn Hor]]]]]]. unfold caps. rewrite P_ip_route_eq. unfold render_route. norm. cbn [app].
  t_lit. t_sp. t_lit.
  assert (TS : stops is_digit (T_intf (d_intf d) (d_nh d) (d_ad d) (d_name d) (d_track d) (d_tag d))).
  { apply (tail_stops is_digit eq_refl (d_intf d) (d_nh d) (d_ad d) (d_name d) (d_track d) (d_tag d)). }
  assert (REST : forall c0 : list (option (list N)),
            prepend c0 (pm (Ws1 :: Cap KQuad :: Ws1 :: Cap KQuad :: R_intf)
              (spc :: render_quad (d_prefix d) ++ spc :: render_quad (d_mask d) ++
               T_intf (d_intf d) (d_nh d) (d_ad d) (d_name d) (d_track d) (d_tag d))) =
            Some (c0 ++ [Some (render_quad (d_prefix d)); Some (render_quad (d_mask d)); d_intf d; oq (d_nh d); od (d_ad d);
                          d_name d; od (d_track d); od (d_tag d)], [])).
  { intros c0. norm. rewrite n_pm_ws1_one by (apply quad_stop_space; exact Hp).
    rewrite n_pm_cap_quad by (auto using stops_spc_dig). rewrite n_pm_ws1_one by (apply quad_stop_space; exact Hm).
    rewrite n_pm_cap_quad by assumption. rewrite L_intf by assumption. reflexivity. }
  destruct (d_vrf d) as [v|] eqn:Ev.
  - rewrite (n_pm_opt_some G_vrf _ _ [Some v]
               (spc :: render_quad (d_prefix d) ++ spc :: render_quad (d_mask d) ++
                T_intf (d_intf d) (d_nh d) (d_ad d) (d_name d) (d_track d) (d_tag d))).
    + rewrite REST. reflexivity.
    + unfold G_vrf. norm. cbn [app]. rewrite <- ?app_assoc. cbn [app]. t_sp. t_lit.
      rewrite n_pm_ws1_one by (apply word_stop_space; apply Hv; reflexivity).
      rewrite n_pm_cap_word; [fin|apply Hv; reflexivity|reflexivity].
  - cbn [app]. rewrite n_pm_opt_none.
    + cbn [ncaps list_sum map ncaps_it G_vrf repeat plus]. rewrite REST. reflexivity.
    + unfold G_vrf. norm. rewrite n_pm_ws1_one by (apply quad_stop_space; exact Hp).
      rewrite n_pm_lit_fail by (apply n_quad_lit_fail; [exact Hp|reflexivity]). reflexivity.
Qed.

Definition ostr_ (o : option str) : str := match o with Some s => s | None => [] end.
Lemma route_roundtrip d : rdesc_ok d ->
  exists r, parse_route (render_route d) = Some r /\
    r_vrf r = ostr_ (d_vrf d) /\ r_prefix r = render_quad (d_prefix d) /\ r_mask r = render_quad (d_mask d) /\
    r_nh_intf r = ostr_ (d_intf d) /\ r_nh_addr r = ostr_ (oq (d_nh d)) /\
    r_ad r = Some (match d_ad d with Some a => Z.of_N a | None => 1%Z end) /\
    r_name r = ostr_ (d_name d) /\ r_track r = ostr_ (od (d_track d)) /\ r_tag r = ostr_ (od (d_tag d)).
Proof.
  intros Hok. unfold parse_route. rewrite (route_caps d Hok). eexists. split; [reflexivity|].
  cbn [r_vrf r_prefix r_mask r_nh_intf r_nh_addr r_ad r_name r_track r_tag]. repeat split.
  destruct (d_ad d) as [a|]; [|reflexivity]. cbn [od option_map].
  destruct (render_dec a) as [|c0 rest] eqn:E; [exfalso; exact (render_dec_nonempty a E)|].
  cbn [str_eqb]. rewrite <- E. apply dec_Z_render.
Qed.

(* non-vacuity: a concrete stanza and a concrete route *)
Example ex_attrs : Forall valid [A_mtu 0 1500; A_description 0 [117; 112]%N; A_shutdown 0; A_vrf 0 true [82]%N].
Proof. repeat constructor; try discriminate. Qed.
Example ex_mtu : acc_mtu (mk_stanza (s_interface ++ spc :: [71; 105; 49]%N)
                           [A_description 0 [117; 112]%N; A_shutdown 0; A_mtu 0 1500; A_vrf 0 true [82]%N]) = Some 1500%Z.
Proof. vm_compute. reflexivity. Qed.
Definition ex_rd : rdesc := {| d_vrf := Some [82]%N; d_prefix := ([49; 48], [48], [48], [48])%N;
   d_mask := ([50; 53; 53], [48], [48], [48])%N; d_intf := Some [78; 117; 108; 108; 48]%N; d_nh := None;
   d_ad := Some 200%N; d_name := Some [120]%N; d_track := None; d_tag := Some 7%N |}.
Example ex_rd_ok : rdesc_ok ex_rd.
Proof.
  unfold rdesc_ok, ex_rd. cbn [d_vrf d_prefix d_mask d_intf d_nh d_name].
  split; [intros x E; inversion E; split; [discriminate|reflexivity]|].
  split; [repeat split; try discriminate; reflexivity|].
  split; [repeat split; try discriminate; reflexivity|].
  split; [intros x E; inversion E; split; [split; [discriminate|reflexivity]|]; eexists; eexists; split; [reflexivity|split; [discriminate|reflexivity]]|].
  split; [intros x E; discriminate|].
  split; [intros x E; inversion E; split; [discriminate|reflexivity]|].
  left. discriminate.
Qed.
