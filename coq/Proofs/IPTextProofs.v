(* C11 textual layer, IPv4: every accepted spelling of (a, p) parses to (a, p); whatever parses is in range. *)
From Coq Require Import List Arith Bool NArith ZArith Lia.
Require Import CCP.Lib.PyStr CCP.Model.IPText.
Import ListNotations.

(* ---- finite facts, by exhaustive evaluation (bounds stated in the lemmas) *)
Definition nrange (n : nat) : list N := map N.of_nat (seq 0 n).
Lemma nrange_In k n : (k < N.of_nat n)%N -> In k (nrange n).
Proof.
  intros H. unfold nrange. apply in_map_iff. exists (N.to_nat k). split; [apply N2Nat.id|].
  apply in_seq. lia.
Qed.

Definition octet_ok (n : N) : bool :=
  let s := render_dec n in
  match octet s with Some m => N.eqb m n | None => false end && forallb is_digit s && negb (match s with [] => true | _ => false end).
Lemma octets_all_ok : forallb octet_ok (nrange 256) = true.
Proof. vm_compute. reflexivity. Qed.
Lemma octet_render n : (n < 256)%N ->
  octet (render_dec n) = Some n /\ forallb is_digit (render_dec n) = true /\ render_dec n <> [].
Proof.
  intros H. pose proof octets_all_ok as A. rewrite forallb_forall in A. specialize (A n (nrange_In n 256 H)).
  unfold octet_ok in A. apply andb_true_iff in A. destruct A as [A C]. apply andb_true_iff in A. destruct A as [A B].
  destruct (octet (render_dec n)) as [m|]; [|discriminate]. apply N.eqb_eq in A. subst m.
  repeat split; auto. intros E. rewrite E in C. discriminate.
Qed.

Definition plen_ok (p : N) : bool :=
  match plen_of_digits (render_dec p) with Some q => Z.eqb q (Z.of_N p) | None => false end &&
  match plen_of_mask (netmask_of (Z.of_N p)) with Some q => Z.eqb q (Z.of_N p) | None => false end &&
  forallb is_digit (render_dec p) && negb (match render_dec p with [] => true | _ => false end).
Lemma plens_all_ok : forallb plen_ok (nrange 33) = true.
Proof. vm_compute. reflexivity. Qed.
Definition hostmask_ok (p : N) : bool :=
  if ((0 <? p) && (p <? 32))%N then
    match plen_of_mask (hostmask_of (Z.of_N p)) with Some q => Z.eqb q (Z.of_N p) | None => false end else true.
Lemma hostmasks_all_ok : forallb hostmask_ok (nrange 33) = true.
Proof. vm_compute. reflexivity. Qed.

Lemma plen_facts p : (0 <= p <= 32)%Z ->
  plen_of_digits (render_dec (Z.to_N p)) = Some p /\ plen_of_mask (netmask_of p) = Some p /\
  forallb is_digit (render_dec (Z.to_N p)) = true /\ render_dec (Z.to_N p) <> [] /\
  ((0 < p < 32)%Z -> plen_of_mask (hostmask_of p) = Some p).
Proof.
  intros H. pose proof plens_all_ok as A. rewrite forallb_forall in A.
  assert (Hn : (Z.to_N p < N.of_nat 33)%N) by lia.
  specialize (A _ (nrange_In _ 33 Hn)). unfold plen_ok in A. rewrite Z2N.id in A by lia.
  apply andb_true_iff in A. destruct A as [A D]. apply andb_true_iff in A. destruct A as [A C].
  apply andb_true_iff in A. destruct A as [A B].
  destruct (plen_of_digits _) as [q|]; [|discriminate]. apply Z.eqb_eq in A. subst q.
  destruct (plen_of_mask (netmask_of p)) as [q|]; [|discriminate]. apply Z.eqb_eq in B. subst q.
  repeat split; auto.
  - intros E. rewrite E in D. discriminate.
  - intros Hp. pose proof hostmasks_all_ok as G. rewrite forallb_forall in G.
    specialize (G _ (nrange_In _ 33 Hn)). unfold hostmask_ok in G. rewrite Z2N.id in G by lia.
    replace ((0 <? Z.to_N p) && (Z.to_N p <? 32))%N with true in G
      by (symmetry; apply andb_true_iff; split; apply N.ltb_lt; lia).
    destruct (plen_of_mask (hostmask_of p)) as [q|]; [|discriminate]. apply Z.eqb_eq in G. subst q. reflexivity.
Qed.

(* ---- strings of digits and dots *)
Lemma digit_not_dot c : is_digit c = true -> N.eqb c c_dot = false.
Proof.
  unfold is_digit, c_dot. intros H. apply andb_true_iff in H. destruct H as [H1 H2].
  apply N.leb_le in H1. apply N.eqb_neq. lia.
Qed.

Lemma split_aux_nodot cur s : forallb is_digit s = true -> split_on_aux c_dot cur s = [rev cur ++ s].
Proof.
  revert cur. induction s as [|c r IH]; intros cur H; cbn [split_on_aux].
  - now rewrite app_nil_r.
  - cbn in H. apply andb_true_iff in H. destruct H as [Hc Hr]. rewrite (digit_not_dot c Hc).
    rewrite IH by exact Hr. cbn [rev]. rewrite <- app_assoc. reflexivity.
Qed.

Lemma split_aux_app cur s rest : forallb is_digit s = true ->
  split_on_aux c_dot cur (s ++ c_dot :: rest) = (rev cur ++ s) :: split_on_aux c_dot [] rest.
Proof.
  revert cur. induction s as [|c r IH]; intros cur H; cbn [split_on_aux app].
  - rewrite N.eqb_refl. now rewrite app_nil_r.
  - cbn in H. apply andb_true_iff in H. destruct H as [Hc Hr]. rewrite (digit_not_dot c Hc).
    rewrite IH by exact Hr. cbn [rev]. rewrite <- app_assoc. reflexivity.
Qed.

Lemma split_quad a b c d : forallb is_digit a = true -> forallb is_digit b = true ->
  forallb is_digit c = true -> forallb is_digit d = true ->
  split_on c_dot (join [c_dot] [a; b; c; d]) = [a; b; c; d].
Proof.
  intros Ha Hb Hc Hd. unfold split_on. cbn [join app].
  rewrite (split_aux_app [] a) by exact Ha. cbn [rev app].
  rewrite (split_aux_app [] b) by exact Hb. cbn [rev app].
  rewrite (split_aux_app [] c) by exact Hc. cbn [rev app].
  rewrite (split_aux_nodot [] d) by exact Hd. reflexivity.
Qed.

Lemma octets_lt a : (0 <= a < 2 ^ 32)%Z -> Forall (fun n => (n < 256)%N) (octets_of a).
Proof. intros _. unfold octets_of. repeat constructor; apply N.mod_lt; lia. Qed.

Lemma quad_octets a : (0 <= a < 2 ^ 32)%Z ->
  match octets_of a with [x; y; z; w] => quad x y z w = a | _ => False end.
Proof.
  intros H. unfold octets_of, quad. set (n := Z.to_N a).
  assert (Hn : (n < 4294967296)%N) by (unfold n; change 4294967296%N with (Z.to_N (2 ^ 32)); apply Z2N.inj_lt; lia).
  assert (E : (((n / 16777216 mod 256 * 256 + n / 65536 mod 256) * 256 + n / 256 mod 256) * 256 + n mod 256 = n)%N).
  { assert (H1 : (n / 16777216 < 256)%N) by (apply N.div_lt_upper_bound; lia).
    rewrite (N.mod_small (n / 16777216)) by exact H1.
    pose proof (N.div_mod n 256 ltac:(lia)) as D1.
    pose proof (N.div_mod (n / 256) 256 ltac:(lia)) as D2.
    pose proof (N.div_mod (n / 256 / 256) 256 ltac:(lia)) as D3.
    rewrite !N.div_div in D2, D3 by lia. rewrite N.div_div in D3 by lia.
    change (256 * 256)%N with 65536%N in *. change (65536 * 256)%N with 16777216%N in *.
    assert (H4 : (n / 16777216 / 256 = 0)%N) by (apply N.div_small; exact H1).
    rewrite N.div_div in H4 by lia. change (16777216 * 256)%N with 4294967296%N in H4.
    lia. }
  rewrite E. unfold n. apply Z2N.id. lia.
Qed.

Lemma all_dd_digits s : forallb is_digit s = true -> forallb is_dd s = true.
Proof. rewrite !forallb_forall. intros H c Hc. unfold is_dd. rewrite (H c Hc). reflexivity. Qed.

Lemma render_quad_facts a : (0 <= a < 2 ^ 32)%Z ->
  dotted_syntax (render_quad a) = true /\ dotted (render_quad a) = Some a /\
  forallb is_dd (render_quad a) = true /\ render_quad a <> [].
Proof.
  intros H. pose proof (octets_lt a H) as L. pose proof (quad_octets a H) as Q.
  unfold render_quad. destruct (octets_of a) as [|x [|y [|z [|w [|? ?]]]]]; try contradiction.
  pose proof (Forall_inv L) as Lx. pose proof (Forall_inv_tail L) as L1.
  pose proof (Forall_inv L1) as Ly. pose proof (Forall_inv_tail L1) as L2.
  pose proof (Forall_inv L2) as Lz. pose proof (Forall_inv_tail L2) as L3.
  pose proof (Forall_inv L3) as Lw. cbv beta in Lx, Ly, Lz, Lw.
  destruct (octet_render x Lx) as (Ox & Dx & Nx). destruct (octet_render y Ly) as (Oy & Dy & Ny).
  destruct (octet_render z Lz) as (Oz & Dz & Nz). destruct (octet_render w Lw) as (Ow & Dw & Nw).
  cbn [map]. unfold dotted_syntax, dotted. rewrite split_quad by assumption.
  assert (G : forall s, forallb is_digit s = true -> s <> [] -> digits_only s = true).
  { intros s Hs Hne. unfold digits_only. destruct s; [contradiction|exact Hs]. }
  rewrite !G by assumption. rewrite Ox, Oy, Oz, Ow, Q. repeat split; try reflexivity.
  - cbn [join]. rewrite !forallb_app. cbn [forallb]. rewrite !all_dd_digits by assumption.
    change (is_dd c_dot) with true. reflexivity.
  - cbn [join]. destruct (render_dec x); [contradiction|discriminate].
Qed.

(* ---- taking the address part off the front, stripping *)
Lemma take_drop_dd s rest : forallb is_dd s = true ->
  match rest with [] => True | c :: _ => is_dd c = false end ->
  take_while is_dd (s ++ rest) = s /\ drop_while is_dd (s ++ rest) = rest.
Proof.
  intros Hs Hr. induction s as [|c r IH]; cbn [app take_while drop_while].
  - destruct rest as [|c r]; [auto|]. cbn [take_while drop_while]. rewrite Hr. auto.
  - cbn in Hs. apply andb_true_iff in Hs. destruct Hs as [Hc Hs]. rewrite Hc.
    destruct (IH Hs) as [A B]. rewrite A, B. auto.
Qed.

Lemma lstrip_nonspace s : match s with [] => True | c :: _ => is_space c = false end -> lstrip s = s.
Proof. destruct s as [|c r]; [reflexivity|]. intros H. unfold lstrip. cbn. rewrite H. reflexivity. Qed.
Lemma lstrip_spaces pad s : forallb is_space pad = true -> lstrip (pad ++ s) = lstrip s.
Proof.
  intros H. unfold lstrip. induction pad as [|c r IH]; [reflexivity|]. cbn in H. apply andb_true_iff in H.
  destruct H as [Hc Hr]. cbn. rewrite Hc. apply IH. exact Hr.
Qed.
Lemma dd_not_space c : is_dd c = true -> is_space c = false.
Proof.
  unfold is_dd, is_digit, c_dot. intros H. apply orb_true_iff in H. destruct H as [H|H].
  - apply andb_true_iff in H. destruct H as [H1 H2]. apply N.leb_le in H1. apply N.leb_le in H2.
    destruct c as [|p]; [lia|]. unfold is_space.
    repeat (destruct p as [p|p|]; try reflexivity; try (exfalso; lia)).
  - apply N.eqb_eq in H. subst. reflexivity.
Qed.

Lemma lstrip_by_all p s : forallb p s = true -> lstrip_by p s = [].
Proof. induction s as [|c r IH]; cbn; [reflexivity|]. intros H. apply andb_true_iff in H. destruct H as [Hc Hr]. rewrite Hc. auto. Qed.

Lemma strip_core pre core post :
  forallb is_space pre = true -> forallb is_space post = true ->
  match core with c :: _ => is_space c = false | [] => False end ->
  match rev core with c :: _ => is_space c = false | [] => False end ->
  strip (pre ++ core ++ post) = core.
Proof.
  intros Hpre Hpost Hh Hl. unfold strip, strip_by, rstrip_by.
  fold lstrip. rewrite (lstrip_spaces pre) by exact Hpre.
  assert (E1 : lstrip (core ++ post) = core ++ post).
  { apply lstrip_nonspace. destruct core as [|c r]; [contradiction|exact Hh]. }
  rewrite E1. rewrite rev_app_distr.
  assert (Hrp : forallb is_space (rev post) = true).
  { rewrite forallb_forall in *. intros x Hx. apply Hpost. apply in_rev. exact Hx. }
  change (lstrip_by is_space (rev post ++ rev core)) with (lstrip (rev post ++ rev core)).
  rewrite (lstrip_spaces (rev post)) by exact Hrp.
  rewrite lstrip_nonspace by (destruct (rev core); [contradiction|exact Hl]).
  apply rev_involutive.
Qed.

Lemma dd_first s : forallb is_dd s = true -> s <> [] -> match s with c :: _ => is_space c = false | [] => False end.
Proof. destruct s as [|c r]; [contradiction|]. cbn. intros H _. apply andb_true_iff in H. apply dd_not_space. tauto. Qed.
Lemma dd_last x s : forallb is_dd s = true -> s <> [] -> match rev (x ++ s) with c :: _ => is_space c = false | [] => False end.
Proof.
  intros H Hne. rewrite rev_app_distr.
  assert (Hr : forallb is_dd (rev s) = true) by (rewrite forallb_forall in *; intros y Hy; apply H; apply in_rev; exact Hy).
  destruct (rev s) as [|c r] eqn:E.
  - exfalso. apply Hne. apply (f_equal (@rev N)) in E. rewrite rev_involutive in E. exact E.
  - cbn. cbn in Hr. apply andb_true_iff in Hr. apply dd_not_space. tauto.
Qed.
Lemma app_first (a b : str) : a <> [] -> match a with c :: _ => is_space c = false | [] => False end ->
  match a ++ b with c :: _ => is_space c = false | [] => False end.
Proof. destruct a; [contradiction|]. cbn. auto. Qed.

Lemma dd_first' s : forallb is_dd s = true -> match s with [] => True | c :: _ => is_space c = false end.
Proof. destruct s as [|c r]; [auto|]. cbn. intros H. apply andb_true_iff in H. apply dd_not_space. tauto. Qed.

Lemma slash_not_dd : is_dd c_slash = false. Proof. reflexivity. Qed.
Lemma space_not_dd c : is_space c = true -> is_dd c = false.
Proof. intros H. destruct (is_dd c) eqn:E; [|reflexivity]. apply dd_not_space in E. congruence. Qed.
Lemma space_not_slash c : is_space c = true -> N.eqb c c_slash = false.
Proof. intros H. destruct (N.eqb c c_slash) eqn:E; [|reflexivity]. apply N.eqb_eq in E. subst. discriminate. Qed.

Lemma digits_not_dotted s : forallb is_digit s = true -> dotted_syntax s = false.
Proof. intros H. unfold dotted_syntax, split_on. rewrite split_aux_nodot by exact H. reflexivity. Qed.
Lemma digits_dd s : forallb is_digit s = true -> forallb is_dd s = true.
Proof. apply all_dd_digits. Qed.

Definition form_ok (f : form4) (p : Z) : Prop :=
  match f with
  | F_bare => p = 32%Z
  | F_cidr | F_slash_mask => True
  | F_space_mask pad => pad <> [] /\ forallb is_space pad = true
  | F_space_hostmask pad => pad <> [] /\ forallb is_space pad = true /\ (0 < p < 32)%Z
  end.

Lemma mask_range p : (0 <= p <= 32)%Z -> (0 <= netmask_of p < 2 ^ 32)%Z /\ (0 <= hostmask_of p < 2 ^ 32)%Z.
Proof.
  intros H. unfold netmask_of, hostmask_of.
  assert (0 < 2 ^ (32 - p) <= 2 ^ 32)%Z.
  { split; [apply Z.pow_pos_nonneg; lia|apply Z.pow_le_mono_r; lia]. }
  lia.
Qed.

Ltac use_td T D :=
  repeat match goal with
  | |- context [take_while is_dd ?x] =>
      match type of T with _ = ?r => replace (take_while is_dd x) with r by (symmetry; exact T) end
  | |- context [drop_while is_dd ?x] =>
      match type of D with _ = ?r => replace (drop_while is_dd x) with r by (symmetry; exact D) end
  end.

(* every accepted spelling of (a, p), with any surrounding blanks, denotes (a, p) *)
Theorem v4_parse_render f a p pre post :
  (0 <= a < 2 ^ 32)%Z -> (0 <= p <= 32)%Z -> form_ok f p ->
  forallb is_space pre = true -> forallb is_space post = true ->
  v4_parse (pre ++ render4 f a p ++ post) = Some (a, p).
Proof.
  intros Ha Hp Hf Hpre Hpost.
  destruct (render_quad_facts a Ha) as (Qs & Qd & Qdd & Qne).
  destruct (plen_facts p Hp) as (Pd & Pm & Pdig & Pne & Ph).
  destruct (mask_range p Hp) as [Mn Mh].
  assert (Hstrip : forall tail, (tail = [] \/ match rev (render_quad a ++ tail) with c :: _ => is_space c = false | [] => False end) ->
            strip (pre ++ (render_quad a ++ tail) ++ post) = render_quad a ++ tail).
  { intros tail Ht. apply strip_core; auto.
    - apply app_first; [exact Qne|]. apply dd_first; assumption.
    - destruct Ht as [->|Ht]; [|exact Ht]. rewrite app_nil_r. apply (dd_last [] (render_quad a)); assumption. }
  unfold v4_parse. destruct f as [| |pad| |pad]; cbn [render4 form_ok] in *.
  - (* bare *)
    subst p.
    assert (E : strip (pre ++ render_quad a ++ post) = render_quad a).
    { apply strip_core; auto; [apply dd_first; assumption|apply (dd_last [] (render_quad a)); assumption]. }
    rewrite E. destruct (take_drop_dd (render_quad a) [] Qdd I) as [T D]. rewrite app_nil_r in T, D.
    rewrite T, D, Qs, Qd. reflexivity.
  - (* a/len *)
    set (ds := render_dec (Z.to_N p)) in *.
    rewrite Hstrip by (right; rewrite app_assoc; apply dd_last; [apply digits_dd; exact Pdig|exact Pne]).
    destruct (take_drop_dd (render_quad a) ([c_slash] ++ ds) Qdd slash_not_dd) as [T D]. use_td T D. rewrite Qs, Qd.
    cbn [app]. rewrite N.eqb_refl. rewrite digits_not_dotted by exact Pdig. rewrite Pd. reflexivity.
  - (* a <blanks> netmask *)
    destruct Hf as [Hne Hsp]. destruct (render_quad_facts _ Mn) as (Ms & Md & Mdd & Mne).
    rewrite Hstrip by (right; rewrite app_assoc; apply dd_last; assumption).
    destruct pad as [|c0 pad0]; [contradiction|]. cbn in Hsp. apply andb_true_iff in Hsp. destruct Hsp as [Hc0 Hsp0].
    destruct (take_drop_dd (render_quad a) ((c0 :: pad0) ++ render_quad (netmask_of p)) Qdd (space_not_dd c0 Hc0)) as [T D].
    use_td T D. rewrite Qs, Qd. cbn [app]. rewrite (space_not_slash c0 Hc0), Hc0.
    change (c0 :: pad0 ++ render_quad (netmask_of p)) with ((c0 :: pad0) ++ render_quad (netmask_of p)).
    rewrite lstrip_spaces by (cbn; rewrite Hc0; exact Hsp0).
    rewrite lstrip_nonspace by (apply dd_first'; assumption).
    rewrite Ms. unfold plen_of_dotted. rewrite Md, Pm. reflexivity.
  - (* a/netmask *)
    destruct (render_quad_facts _ Mn) as (Ms & Md & Mdd & Mne).
    rewrite Hstrip by (right; rewrite app_assoc; apply dd_last; assumption).
    destruct (take_drop_dd (render_quad a) ([c_slash] ++ render_quad (netmask_of p)) Qdd slash_not_dd) as [T D].
    use_td T D. rewrite Qs, Qd. cbn [app]. rewrite N.eqb_refl, Ms. unfold plen_of_dotted. rewrite Md, Pm. reflexivity.
  - (* a <blanks> hostmask *)
    destruct Hf as (Hne & Hsp & Hp'). destruct (render_quad_facts _ Mh) as (Ms & Md & Mdd & Mne).
    rewrite Hstrip by (right; rewrite app_assoc; apply dd_last; assumption).
    destruct pad as [|c0 pad0]; [contradiction|]. cbn in Hsp. apply andb_true_iff in Hsp. destruct Hsp as [Hc0 Hsp0].
    destruct (take_drop_dd (render_quad a) ((c0 :: pad0) ++ render_quad (hostmask_of p)) Qdd (space_not_dd c0 Hc0)) as [T D].
    use_td T D. rewrite Qs, Qd. cbn [app]. rewrite (space_not_slash c0 Hc0), Hc0.
    change (c0 :: pad0 ++ render_quad (hostmask_of p)) with ((c0 :: pad0) ++ render_quad (hostmask_of p)).
    rewrite lstrip_spaces by (cbn; rewrite Hc0; exact Hsp0).
    rewrite lstrip_nonspace by (apply dd_first'; assumption).
    rewrite Ms. unfold plen_of_dotted. rewrite Md, (Ph Hp'). reflexivity.
Qed.

(* ---- soundness: whatever the constructor accepts is an address in range with a prefix length in range;
        in particular nothing is silently truncated into some other address: the accepted text is
        (blanks) canonical-dotted-quad [ / digits<=32 | / mask | blanks mask ] (blanks), by definition of v4_parse *)
Lemma octet_range s n : octet s = Some n -> (n <= 255)%N.
Proof.
  unfold octet. destruct (negb (digits_only s)); [discriminate|]. destruct (3 <? length s); [discriminate|].
  destruct (_ && _); [discriminate|]. destruct (parse_dec s) as [m|]; [|discriminate].
  destruct (m <=? 255)%N eqn:E; [|discriminate]. intros H; inversion H; subst. apply N.leb_le. exact E.
Qed.

Lemma dotted_range s a : dotted s = Some a -> (0 <= a < 2 ^ 32)%Z.
Proof.
  unfold dotted. destruct (split_on c_dot s) as [|x [|y [|z [|w [|? ?]]]]]; try discriminate.
  destruct (octet x) as [a1|] eqn:E1; [|discriminate]. destruct (octet y) as [a2|] eqn:E2; [|discriminate].
  destruct (octet z) as [a3|] eqn:E3; [|discriminate]. destruct (octet w) as [a4|] eqn:E4; [|discriminate].
  intros H; inversion H; subst. apply octet_range in E1, E2, E3, E4. unfold quad.
  change (2 ^ 32)%Z with 4294967296%Z. lia.
Qed.

Lemma plens_lt p : In p plens -> p < 33.
Proof. unfold plens. intros H. apply in_seq in H. lia. Qed.

Lemma plen_of_mask_range m p : plen_of_mask m = Some p -> (0 <= p <= 32)%Z.
Proof.
  unfold plen_of_mask. destruct (find (is_netmask_for m) plens) as [q|] eqn:E.
  - intros H; inversion H; subst. apply find_some in E. destruct E as [E _]. apply plens_lt in E. lia.
  - destruct (find (is_hostmask_for m) plens) as [q|] eqn:E2; [|discriminate].
    intros H; inversion H; subst. apply find_some in E2. destruct E2 as [E2 _]. apply plens_lt in E2. lia.
Qed.

Lemma plen_of_digits_range s p : plen_of_digits s = Some p -> (0 <= p <= 32)%Z.
Proof.
  unfold plen_of_digits. destruct (digits_only s); [|discriminate]. destruct (parse_dec s) as [n|]; [|discriminate].
  destruct (n <=? 32)%N eqn:E; [|discriminate]. intros H; inversion H; subst. apply N.leb_le in E. lia.
Qed.

Theorem v4_parse_sound s a p : v4_parse s = Some (a, p) -> (0 <= a < 2 ^ 32)%Z /\ (0 <= p <= 32)%Z.
Proof.
  unfold v4_parse. destruct (negb (dotted_syntax _)); [discriminate|].
  destruct (dotted (take_while is_dd (strip s))) as [a0|] eqn:Ed; [|discriminate].
  pose proof (dotted_range _ _ Ed) as Ra.
  destruct (drop_while is_dd (strip s)) as [|c r].
  - intros H; inversion H; subst. split; [exact Ra|lia].
  - destruct (N.eqb c c_slash).
    + destruct (dotted_syntax r).
      * unfold plen_of_dotted. destruct (dotted r) as [m|]; [|cbn; discriminate]. destruct (plen_of_mask m) as [q|] eqn:Eq; [|cbn; discriminate].
        cbn. intros H; inversion H; subst. split; [exact Ra|eapply plen_of_mask_range; eauto].
      * destruct (plen_of_digits r) as [q|] eqn:Eq; [|cbn; discriminate]. cbn. intros H; inversion H; subst.
        split; [exact Ra|eapply plen_of_digits_range; eauto].
    + destruct (is_space c); [|discriminate]. destruct (dotted_syntax (lstrip (c :: r))); [|discriminate].
      unfold plen_of_dotted. destruct (dotted (lstrip (c :: r))) as [m|]; [|cbn; discriminate]. destruct (plen_of_mask m) as [q|] eqn:Eq; [|cbn; discriminate].
      cbn. intros H; inversion H; subst. split; [exact Ra|eapply plen_of_mask_range; eauto].
Qed.

(* strings that are not an address are rejected: a fifth octet, an octet above 255, a leading zero, a prefix
   length above 32, trailing garbage *)
Example v4_rejects :
  v4_parse [49;46;50;46;51;46;52;46;53]%N = None /\ v4_parse [49;46;50;46;51;46;50;53;54]%N = None /\
  v4_parse [49;46;50;46;51;46;48;52]%N = None /\ v4_parse [49;46;50;46;51;46;52;47;51;51]%N = None /\
  v4_parse [49;46;50;46;51;46;52;120]%N = None /\ v4_parse [49;46;50;46;51;46;52;47;50;52;120]%N = None.
Proof. vm_compute. repeat split. Qed.
Example v4_accepts : v4_parse [32;49;48;46;49;46;50;46;51;47;50;52;9]%N = Some (167838211, 24)%Z.
Proof. vm_compute. reflexivity. Qed.
