(* C11 textual layer, IPv6: whatever the constructor accepts is in range; every uncompressed spelling
   (8 groups in any hextet spelling, optional "/len", surrounding blanks) parses to its value. *)
From Coq Require Import List Arith Bool NArith ZArith Lia.
Require Import CCP.Lib.PyStr CCP.Model.IPText CCP.Model.IPText6 CCP.Proofs.IPTextProofs.
Import ListNotations.

(* ---- bounds *)
Lemma hex_val_bound c d : hex_val c = Some d -> (d < 16)%N.
Proof.
  unfold hex_val, is_digit. intros H.
  destruct ((48 <=? c)%N && (c <=? 57)%N) eqn:E1.
  - inversion H; subst. apply andb_true_iff in E1. destruct E1 as [A B]. apply N.leb_le in A. apply N.leb_le in B. lia.
  - destruct ((97 <=? c)%N && (c <=? 102)%N) eqn:E2.
    + inversion H; subst. apply andb_true_iff in E2. destruct E2 as [A B]. apply N.leb_le in A. apply N.leb_le in B. lia.
    + destruct ((65 <=? c)%N && (c <=? 70)%N) eqn:E3; [|discriminate].
      inversion H; subst. apply andb_true_iff in E3. destruct E3 as [A B]. apply N.leb_le in A. apply N.leb_le in B. lia.
Qed.

Lemma hex_aux_bound : forall s acc n, hex_aux acc s = Some n -> (n < (acc + 1) * 16 ^ N.of_nat (length s))%N.
Proof.
  induction s as [|c r IH]; intros acc n H; cbn [hex_aux length] in *.
  - inversion H; subst. cbn. lia.
  - destruct (hex_val c) as [d|] eqn:Ed; [|discriminate]. apply IH in H. pose proof (hex_val_bound c d Ed).
    rewrite Nat2N.inj_succ, N.pow_succ_r'. nia.
Qed.

Lemma hextet_bound s n : hextet s = Some n -> (n < 65536)%N.
Proof.
  unfold hextet. destruct s as [|c r]; [discriminate|]. destruct (4 <? length (c :: r)) eqn:E; [discriminate|].
  intros H. apply hex_aux_bound in H. apply Nat.ltb_ge in E.
  assert (16 ^ N.of_nat (length (c :: r)) <= 16 ^ 4)%N by (apply N.pow_le_mono_r; lia).
  change (16 ^ 4)%N with 65536%N in *. lia.
Qed.

Definition field_ok (f : field) : Prop := match f with FHex n => (n < 65536)%N | _ => True end.
Lemma classify_ok s : field_ok (classify s).
Proof. unfold classify. destruct s; [exact I|]. destruct (hextet (n :: s)) eqn:E; [apply (hextet_bound _ _ E)|exact I]. Qed.

Lemma fields_of_ok parts fs : fields_of parts = Some fs -> Forall field_ok fs.
Proof.
  unfold fields_of. destruct (rev parts) as [|lastp restr]; [discriminate|].
  destruct (has_dot lastp).
  - destruct (dotted lastp) as [v|] eqn:Ed; [|discriminate]. intros H; inversion H; subst.
    apply Forall_app. split; [apply Forall_forall; intros f Hf; apply in_map_iff in Hf; destruct Hf as [x [<- _]]; apply classify_ok|].
    pose proof (dotted_range _ _ Ed) as Hr. change (2 ^ 32)%Z with 4294967296%Z in Hr.
    repeat constructor; cbn.
    + assert (0 <= v / 65536 < 65536)%Z by (split; [apply Z.div_pos; lia|apply Z.div_lt_upper_bound; lia]). lia.
    + pose proof (Z.mod_pos_bound v 65536 ltac:(lia)). lia.
  - intros H; inversion H; subst. apply Forall_forall. intros f Hf. apply in_map_iff in Hf. destruct Hf as [x [<- _]]. apply classify_ok.
Qed.

Lemma groups_of_ok : forall fs gs, Forall field_ok fs -> groups_of fs = Some gs ->
  length gs = length fs /\ Forall (fun g => (g < 65536)%N) gs.
Proof.
  induction fs as [|f r IH]; intros gs Hf H; cbn [groups_of] in H.
  - inversion H; subst. split; [reflexivity|constructor].
  - destruct f as [|n|]; try discriminate. inversion Hf as [|? ? Hn Hr]; subst.
    destruct (groups_of r) as [t|] eqn:Et; [|discriminate]. cbn in H. inversion H; subst.
    destruct (IH t Hr eq_refl) as [L F]. split; [cbn; lia|constructor; assumption].
Qed.

Lemma Forall_firstn_f {A} (P : A -> Prop) : forall k l, Forall P l -> Forall P (firstn k l).
Proof. induction k as [|k IH]; intros l H; [constructor|]. destruct l; [constructor|]. inversion H; subst. cbn. constructor; auto. Qed.
Lemma Forall_skipn_f {A} (P : A -> Prop) : forall k l, Forall P l -> Forall P (skipn k l).
Proof. induction k as [|k IH]; intros l H; [exact H|]. destruct l; [constructor|]. inversion H; subst. cbn. auto. Qed.

Lemma pad_len a b : a + b < 8 -> a + (8 - (a + b) + b) = 8.
Proof. lia. Qed.

Lemma v6_groups_ok fs gs : Forall field_ok fs -> v6_groups fs = Some gs ->
  length gs = 8 /\ Forall (fun g => (g < 65536)%N) gs.
Proof.
  intros Hf. unfold v6_groups. destruct fs as [|f0 tl]; [discriminate|].
  destruct (9 <? length (f0 :: tl)); [discriminate|].
  destruct (inner_empties 1 tl) as [|k [|k2 r]]; [| |discriminate].
  - destruct (length (f0 :: tl) =? 8) eqn:E; [|discriminate]. apply Nat.eqb_eq in E. intros H.
    destruct (groups_of_ok _ _ Hf H) as [L F]. split; [lia|exact F].
  - set (hi_g := if is_empty_f f0 then (if k =? 1 then Some [] else None) else groups_of (firstn k (f0 :: tl))).
    set (lo_g := match rev (skipn (S k) (f0 :: tl)) with
                 | FEmpty :: r => match r with [] => Some [] | _ => None end
                 | _ => groups_of (skipn (S k) (f0 :: tl)) end).
    assert (Hhi : forall g, hi_g = Some g -> Forall (fun x => (x < 65536)%N) g).
    { unfold hi_g. intros g. destruct (is_empty_f f0).
      - destruct (k =? 1); [intros H; inversion H; constructor|discriminate].
      - intros H. apply (groups_of_ok (firstn k (f0 :: tl))); [apply Forall_firstn_f; exact Hf|exact H]. }
    assert (Hlo : forall g, lo_g = Some g -> Forall (fun x => (x < 65536)%N) g).
    { unfold lo_g. intros g. destruct (rev (skipn (S k) (f0 :: tl))) as [|f r] eqn:Er.
      - intros H. apply (groups_of_ok (skipn (S k) (f0 :: tl))); [apply Forall_skipn_f; exact Hf|exact H].
      - destruct f; try (intros H; apply (groups_of_ok (skipn (S k) (f0 :: tl))); [apply Forall_skipn_f; exact Hf|exact H]).
        destruct r; [intros H; inversion H; constructor|discriminate]. }
    destruct hi_g as [gh|]; [|discriminate]. destruct lo_g as [gl|]; [|discriminate].
    destruct (8 <=? length gh + length gl) eqn:E; [discriminate|].
    intros H. injection H as <-. split.
    + rewrite !app_length, repeat_length. apply Nat.leb_gt in E. apply pad_len. exact E.
    + apply Forall_app. split; [apply Hhi; reflexivity|]. apply Forall_app. split; [|apply Hlo; reflexivity].
      apply Forall_forall. intros x Hx. apply repeat_spec in Hx. subst. lia.
Qed.

Lemma value_of_bound : forall gs acc, Forall (fun g => (g < 65536)%N) gs -> (0 <= acc)%Z ->
  (0 <= fold_left (fun a g => a * 65536 + Z.of_N g) gs acc < (acc + 1) * 65536 ^ Z.of_nat (length gs))%Z.
Proof.
  induction gs as [|g r IH]; intros acc Hf Ha; cbn [fold_left length].
  - cbn. lia.
  - inversion Hf as [|? ? Hg Hr]; subst. specialize (IH (acc * 65536 + Z.of_N g)%Z Hr ltac:(lia)).
    rewrite Nat2Z.inj_succ, Z.pow_succ_r by lia.
    assert (0 < 65536 ^ Z.of_nat (length r))%Z by (apply Z.pow_pos_nonneg; lia). nia.
Qed.

Theorem v6_addr_range s v : v6_addr s = Some v -> (0 <= v < 2 ^ 128)%Z.
Proof.
  unfold v6_addr. destruct (length (split_on c_colon s) <? 3); [discriminate|].
  destruct (fields_of (split_on c_colon s)) as [fs|] eqn:Ef; [|discriminate].
  destruct (v6_groups fs) as [gs|] eqn:Eg; [|discriminate]. cbn. intros H; inversion H; subst.
  destruct (v6_groups_ok fs gs (fields_of_ok _ _ Ef) Eg) as [L F].
  pose proof (value_of_bound gs 0%Z F ltac:(lia)) as B. rewrite L in B. unfold value_of.
  change ((0 + 1) * 65536 ^ Z.of_nat 8)%Z with (2 ^ 128)%Z in B. exact B.
Qed.

Lemma plen6_range s p : plen6_of_digits s = Some p -> (0 <= p <= 128)%Z.
Proof.
  unfold plen6_of_digits. destruct (digits_only s); [|discriminate]. destruct (parse_dec s) as [n|]; [|discriminate].
  destruct (n <=? 128)%N eqn:E; [|discriminate]. intros H; inversion H; subst. apply N.leb_le in E. lia.
Qed.

(* whatever the IPv6 constructor accepts is an address below 2^128 with a prefix length 0..128 *)
Theorem v6_parse_sound s a p : v6_parse s = Some (a, p) -> (0 <= a < 2 ^ 128)%Z /\ (0 <= p <= 128)%Z.
Proof.
  unfold v6_parse.
  destruct (match split_ws (strip s) with [x] => Some x | [a0; b] => Some (a0 ++ [c_slash] ++ b) | _ => None end) as [t|]; [|discriminate].
  destruct (v6_maxlen <? length t); [discriminate|].
  destruct (split_first c_slash t) as [ad m]. destruct (existsb (N.eqb c_pct) ad); [discriminate|].
  destruct (v6_addr ad) as [v|] eqn:Ev; [|discriminate]. pose proof (v6_addr_range _ _ Ev) as Rv.
  destruct m as [ds|].
  - destruct (plen6_of_digits ds) as [q|] eqn:Eq; [|discriminate]. cbn. intros H; inversion H; subst.
    split; [exact Rv|eapply plen6_range; eauto].
  - intros H; inversion H; subst. split; [exact Rv|lia].
Qed.

Example v6_rejects :
  (* nine groups; two '::'; a five-digit group; a scope id; prefix length 129; trailing garbage *)
  v6_parse (map N.of_nat [49;58;50;58;51;58;52;58;53;58;54;58;55;58;56;58;57]) = None /\
  v6_parse (map N.of_nat [49;58;58;50;58;58;51]) = None /\
  v6_parse (map N.of_nat [49;58;58;49;50;51;52;53]) = None /\
  v6_parse (map N.of_nat [102;101;56;48;58;58;49;37;101]) = None /\
  v6_parse (map N.of_nat [58;58;49;47;49;50;57]) = None /\
  v6_parse (map N.of_nat [58;58;49;120]) = None.
Proof. vm_compute. repeat split. Qed.

(* ---- the uncompressed form: eight groups, each in ANY accepted hextet spelling *)
Definition plain (c : char) : bool :=
  negb (N.eqb c c_colon || N.eqb c c_dot || N.eqb c c_slash || N.eqb c c_pct || is_space c).
Definition spelling (sp : N -> str) : Prop :=
  forall g, (g < 65536)%N -> hextet (sp g) = Some g /\ forallb plain (sp g) = true.

Lemma plain_facts c : plain c = true ->
  N.eqb c c_colon = false /\ N.eqb c c_dot = false /\ N.eqb c c_slash = false /\ N.eqb c c_pct = false /\ is_space c = false.
Proof. unfold plain. intros H. apply negb_true_iff in H. repeat (apply orb_false_iff in H; destruct H as [H ?]). auto. Qed.

Lemma split_aux_plain c cur s : forallb (fun x => negb (N.eqb x c)) s = true -> split_on_aux c cur s = [rev cur ++ s].
Proof.
  revert cur. induction s as [|x r IH]; intros cur H; cbn [split_on_aux]; [now rewrite app_nil_r|].
  cbn in H. apply andb_true_iff in H. destruct H as [Hx Hr]. apply negb_true_iff in Hx. rewrite Hx.
  rewrite IH by exact Hr. cbn [rev]. now rewrite <- app_assoc.
Qed.
Lemma split_aux_join c cur s rest : forallb (fun x => negb (N.eqb x c)) s = true ->
  split_on_aux c cur (s ++ c :: rest) = (rev cur ++ s) :: split_on_aux c [] rest.
Proof.
  revert cur. induction s as [|x r IH]; intros cur H; cbn [split_on_aux app].
  - rewrite N.eqb_refl. now rewrite app_nil_r.
  - cbn in H. apply andb_true_iff in H. destruct H as [Hx Hr]. apply negb_true_iff in Hx. rewrite Hx.
    rewrite IH by exact Hr. cbn [rev]. now rewrite <- app_assoc.
Qed.

Lemma plain_no c s : (forall x, plain x = true -> N.eqb x c = false) -> forallb plain s = true ->
  forallb (fun x => negb (N.eqb x c)) s = true.
Proof. intros Hc H. rewrite forallb_forall in *. intros x Hx. apply negb_true_iff. apply Hc. apply H. exact Hx. Qed.

Lemma split_first_plain c s rest : forallb (fun x => negb (N.eqb x c)) s = true ->
  split_first c (s ++ c :: rest) = (s, Some rest) /\ split_first c s = (s, None).
Proof.
  induction s as [|x r IH]; intros H; cbn [split_first app].
  - rewrite N.eqb_refl. auto.
  - cbn in H. apply andb_true_iff in H. destruct H as [Hx Hr]. apply negb_true_iff in Hx. rewrite Hx.
    destruct (IH Hr) as [A B]. rewrite A, B. auto.
Qed.

Lemma split_ws_nospace s : s <> [] -> forallb (fun x => negb (is_space x)) s = true -> split_ws s = [s].
Proof.
  intros Hne H. unfold split_ws.
  assert (G : forall cur t, forallb (fun x => negb (is_space x)) t = true -> rev cur ++ t <> [] ->
              split_ws_aux is_space cur t = [rev cur ++ t]).
  { intros cur t; revert cur; induction t as [|x r IH]; intros cur Ht Hn; cbn [split_ws_aux].
    - rewrite app_nil_r in *. destruct cur; [contradiction|reflexivity].
    - cbn in Ht. apply andb_true_iff in Ht. destruct Ht as [Hx Hr]. apply negb_true_iff in Hx. rewrite Hx.
      rewrite IH; [cbn [rev]; now rewrite <- app_assoc|exact Hr|]. cbn [rev]. rewrite <- app_assoc. cbn. destruct (rev cur); discriminate. }
  apply (G [] s H). exact Hne.
Qed.

Definition plen6_ok (p : N) : bool :=
  match plen6_of_digits (render_dec p) with Some q => Z.eqb q (Z.of_N p) | None => false end &&
  forallb plain (render_dec p) && negb (match render_dec p with [] => true | _ => false end) && (length (render_dec p) <=? 3).
Lemma plens6_all_ok : forallb plen6_ok (nrange 129) = true.
Proof. vm_compute. reflexivity. Qed.
Lemma plen6_facts p : (0 <= p <= 128)%Z ->
  plen6_of_digits (render_dec (Z.to_N p)) = Some p /\ forallb plain (render_dec (Z.to_N p)) = true /\
  render_dec (Z.to_N p) <> [] /\ length (render_dec (Z.to_N p)) <= 3.
Proof.
  intros H. pose proof plens6_all_ok as A. rewrite forallb_forall in A.
  assert (Hn : (Z.to_N p < N.of_nat 129)%N) by lia. specialize (A _ (nrange_In _ 129 Hn)).
  unfold plen6_ok in A. rewrite Z2N.id in A by lia.
  apply andb_true_iff in A. destruct A as [A D]. apply andb_true_iff in A. destruct A as [A C].
  apply andb_true_iff in A. destruct A as [A B].
  destruct (plen6_of_digits _) as [q|]; [|discriminate]. apply Z.eqb_eq in A. subst q.
  repeat split; auto.
  - intros E. rewrite E in C. discriminate.
  - apply Nat.leb_le. exact D.
Qed.

Lemma hextet_len s g : hextet s = Some g -> s <> [] /\ length s <= 4.
Proof.
  unfold hextet. destruct s as [|c r]; [discriminate|]. destruct (4 <? length (c :: r)) eqn:E; [discriminate|].
  intros _. apply Nat.ltb_ge in E. split; [discriminate|exact E].
Qed.

Definition full_text (sp : N -> str) (gs : list N) : str := join [c_colon] (map sp gs).

Lemma full_addr sp g0 g1 g2 g3 g4 g5 g6 g7 : spelling sp ->
  Forall (fun g => (g < 65536)%N) [g0; g1; g2; g3; g4; g5; g6; g7] ->
  v6_addr (full_text sp [g0; g1; g2; g3; g4; g5; g6; g7]) = Some (value_of [g0; g1; g2; g3; g4; g5; g6; g7]) /\
  forallb (fun x => negb (N.eqb x c_slash)) (full_text sp [g0; g1; g2; g3; g4; g5; g6; g7]) = true /\
  existsb (N.eqb c_pct) (full_text sp [g0; g1; g2; g3; g4; g5; g6; g7]) = false /\
  forallb (fun x => negb (is_space x)) (full_text sp [g0; g1; g2; g3; g4; g5; g6; g7]) = true /\
  full_text sp [g0; g1; g2; g3; g4; g5; g6; g7] <> [] /\ length (full_text sp [g0; g1; g2; g3; g4; g5; g6; g7]) <= 39.
Proof.
  intros Hsp HF.
  assert (H : forall g, In g [g0; g1; g2; g3; g4; g5; g6; g7] ->
            hextet (sp g) = Some g /\ forallb plain (sp g) = true /\ sp g <> [] /\ length (sp g) <= 4).
  { intros g Hg. rewrite Forall_forall in HF. destruct (Hsp g (HF g Hg)) as [A B]. destruct (hextet_len _ _ A). auto. }
  pose proof (H g0 ltac:(cbn; tauto)) as (A0 & P0 & N0 & L0). pose proof (H g1 ltac:(cbn; tauto)) as (A1 & P1 & N1 & L1).
  pose proof (H g2 ltac:(cbn; tauto)) as (A2 & P2 & N2 & L2). pose proof (H g3 ltac:(cbn; tauto)) as (A3 & P3 & N3 & L3).
  pose proof (H g4 ltac:(cbn; tauto)) as (A4 & P4 & N4 & L4). pose proof (H g5 ltac:(cbn; tauto)) as (A5 & P5 & N5 & L5).
  pose proof (H g6 ltac:(cbn; tauto)) as (A6 & P6 & N6 & L6). pose proof (H g7 ltac:(cbn; tauto)) as (A7 & P7 & N7 & L7).
  assert (NC : forall s, forallb plain s = true -> forallb (fun x => negb (N.eqb x c_colon)) s = true)
    by (intros s; apply plain_no; intros x Hx; apply plain_facts in Hx; tauto).
  assert (ND : forall s, forallb plain s = true -> existsb (N.eqb c_dot) s = false).
  { intros s Hs. apply not_true_is_false. intros Hx. apply existsb_exists in Hx. destruct Hx as [x [Hi He]].
    rewrite forallb_forall in Hs. specialize (Hs x Hi). apply plain_facts in Hs. apply N.eqb_eq in He. subst x.
    destruct Hs as (_ & Hd & _). rewrite N.eqb_refl in Hd. discriminate. }
  unfold full_text. cbn [map join]. cbn [app].
  split; [|split; [|split; [|split; [|split]]]].
  - unfold v6_addr, split_on.
    rewrite (split_aux_join c_colon [] (sp g0)) by (apply NC; exact P0). cbn [rev app].
    rewrite (split_aux_join c_colon [] (sp g1)) by (apply NC; exact P1). cbn [rev app].
    rewrite (split_aux_join c_colon [] (sp g2)) by (apply NC; exact P2). cbn [rev app].
    rewrite (split_aux_join c_colon [] (sp g3)) by (apply NC; exact P3). cbn [rev app].
    rewrite (split_aux_join c_colon [] (sp g4)) by (apply NC; exact P4). cbn [rev app].
    rewrite (split_aux_join c_colon [] (sp g5)) by (apply NC; exact P5). cbn [rev app].
    rewrite (split_aux_join c_colon [] (sp g6)) by (apply NC; exact P6). cbn [rev app].
    rewrite (split_aux_plain c_colon [] (sp g7)) by (apply NC; exact P7). cbn [rev app length Nat.ltb Nat.leb].
    unfold fields_of. cbn [rev app]. unfold has_dot. rewrite (ND (sp g7) P7). cbn [map].
    assert (C : forall g, hextet (sp g) = Some g -> sp g <> [] -> classify (sp g) = FHex g).
    { intros g Hh Hn. unfold classify. destruct (sp g); [contradiction|]. rewrite Hh. reflexivity. }
    rewrite !C by assumption. reflexivity.
  - assert (NS : forall s, forallb plain s = true -> forallb (fun x => negb (N.eqb x c_slash)) s = true)
      by (intros s; apply plain_no; intros x Hx; apply plain_facts in Hx; tauto).
    repeat (rewrite forallb_app; cbn [forallb]). rewrite !NS by assumption. reflexivity.
  - assert (NP : forall s, forallb plain s = true -> forallb (fun x => negb (N.eqb x c_pct)) s = true)
      by (intros s; apply plain_no; intros x Hx; apply plain_facts in Hx; tauto).
    match goal with |- existsb ?f ?l = false =>
      assert (G : forallb (fun x => negb (N.eqb x c_pct)) l = true)
        by (repeat (rewrite forallb_app; cbn [forallb]); rewrite !NP by assumption; reflexivity) end.
    apply not_true_is_false. intros Hx. apply existsb_exists in Hx. destruct Hx as [x [Hi He]].
    rewrite forallb_forall in G. specialize (G x Hi). apply N.eqb_eq in He. subst x. rewrite N.eqb_refl in G. discriminate.
  - assert (NS : forall s, forallb plain s = true -> forallb (fun x => negb (is_space x)) s = true).
    { intros s Hs. rewrite forallb_forall in *. intros x Hx. apply negb_true_iff. specialize (Hs x Hx). apply plain_facts in Hs. tauto. }
    repeat (rewrite forallb_app; cbn [forallb]). rewrite !NS by assumption. reflexivity.
  - destruct (sp g0); [contradiction|discriminate].
  - repeat (rewrite app_length; cbn [length]). lia.
Qed.

Lemma plain_first s : forallb (fun x => negb (is_space x)) s = true -> s <> [] ->
  match s with c :: _ => is_space c = false | [] => False end.
Proof. destruct s as [|c r]; [contradiction|]. cbn. intros H _. apply andb_true_iff in H. apply negb_true_iff. tauto. Qed.
Lemma plain_last s : forallb (fun x => negb (is_space x)) s = true -> s <> [] ->
  match rev s with c :: _ => is_space c = false | [] => False end.
Proof.
  intros H Hne. assert (Hr : forallb (fun x => negb (is_space x)) (rev s) = true)
    by (rewrite forallb_forall in *; intros x Hx; apply H; apply in_rev; exact Hx).
  destruct (rev s) as [|c r] eqn:E.
  - apply Hne. apply (f_equal (@rev N)) in E. rewrite rev_involutive in E. exact E.
  - cbn in Hr. apply andb_true_iff in Hr. apply negb_true_iff. tauto.
Qed.

(* every uncompressed spelling of (a, p), in any hextet spelling of the eight groups, with or without "/len",
   with any surrounding blanks, denotes (a, p) *)
Theorem v6_parse_full sp g0 g1 g2 g3 g4 g5 g6 g7 p (with_len : bool) pre post : spelling sp ->
  Forall (fun g => (g < 65536)%N) [g0; g1; g2; g3; g4; g5; g6; g7] -> (0 <= p <= 128)%Z ->
  forallb is_space pre = true -> forallb is_space post = true ->
  v6_parse (pre ++ (full_text sp [g0; g1; g2; g3; g4; g5; g6; g7] ++
                    (if with_len then [c_slash] ++ render_dec (Z.to_N p) else [])) ++ post)
  = Some (value_of [g0; g1; g2; g3; g4; g5; g6; g7], if with_len then p else 128%Z).
Proof.
  intros Hsp HF Hp Hpre Hpost.
  destruct (full_addr sp g0 g1 g2 g3 g4 g5 g6 g7 Hsp HF) as (Ha & Hns & Hnp & Hnw & Hne & Hlen).
  destruct (plen6_facts p Hp) as (Pd & Ppl & Pne & Plen).
  set (T := full_text sp [g0; g1; g2; g3; g4; g5; g6; g7]) in *.
  set (core := T ++ (if with_len then [c_slash] ++ render_dec (Z.to_N p) else [])).
  assert (Pw : forallb (fun x => negb (is_space x)) (render_dec (Z.to_N p)) = true).
  { rewrite forallb_forall in *. intros x Hx. apply negb_true_iff. specialize (Ppl x Hx). apply plain_facts in Ppl. tauto. }
  assert (Hcw : forallb (fun x => negb (is_space x)) core = true).
  { unfold core. destruct with_len; [|rewrite app_nil_r; exact Hnw]. rewrite forallb_app. apply andb_true_iff. split; [exact Hnw|].
    cbn [app forallb]. apply andb_true_iff. split; [reflexivity|exact Pw]. }
  assert (Hcne : core <> []) by (unfold core; destruct T; [contradiction|discriminate]).
  unfold v6_parse.
  match goal with |- context [strip ?x] =>
    replace (strip x) with core by (symmetry; apply (strip_core pre core post Hpre Hpost (plain_first core Hcw Hcne) (plain_last core Hcw Hcne))) end.
  rewrite (split_ws_nospace core Hcne Hcw).
  assert (Hl : (v6_maxlen <? length core) = false).
  { apply Nat.ltb_ge. unfold core, v6_maxlen. destruct with_len; rewrite !app_length; cbn [length]; lia. }
  rewrite Hl. unfold core. destruct with_len.
  - destruct (split_first_plain c_slash T (render_dec (Z.to_N p)) Hns) as [S1 _]. cbn [app]. rewrite S1.
    rewrite Hnp, Ha, Pd. reflexivity.
  - rewrite app_nil_r. destruct (split_first_plain c_slash T [] Hns) as [_ S2]. rewrite S2, Hnp, Ha. reflexivity.
Qed.

(* the three usual hextet spellings are spellings: minimal lower case (%x), upper case, zero padded (exploded) *)
Definition nib (d : N) (upper : bool) : char := if (d <? 10)%N then (48 + d)%N else if upper then (55 + d)%N else (87 + d)%N.
Definition nibs (g : N) : list N := [(g / 4096) mod 16; (g / 256) mod 16; (g / 16) mod 16; g mod 16]%N.
Fixpoint drop_zeros (l : list N) : list N :=
  match l with
  | [d] => [d]
  | 0%N :: r => drop_zeros r
  | _ => l
  end.
Definition sp_min (upper : bool) (g : N) : str := map (fun d => nib d upper) (drop_zeros (nibs g)).
Definition sp_pad (g : N) : str := map (fun d => nib d false) (nibs g).

(* all g below n satisfy f, by a binary-number loop (no unary numbers: n is 65536) *)
Definition all_below (n : N) (f : N -> bool) : bool :=
  fst (N.iter n (fun bk : bool * N => (fst bk && f (snd bk), N.succ (snd bk))) (true, 0%N)).
Lemma all_below_spec n f : all_below n f = true -> forall k, (k < n)%N -> f k = true.
Proof.
  unfold all_below.
  assert (G : forall m, snd (N.iter m (fun bk : bool * N => (fst bk && f (snd bk), N.succ (snd bk))) (true, 0%N)) = m /\
              (fst (N.iter m (fun bk : bool * N => (fst bk && f (snd bk), N.succ (snd bk))) (true, 0%N)) = true ->
               forall k, (k < m)%N -> f k = true)).
  { induction m as [|m IH] using N.peano_ind.
    - cbn. split; [reflexivity|]. intros _ k Hk. lia.
    - rewrite N.iter_succ. destruct IH as [IH1 IH2]. cbn [fst snd]. rewrite IH1. split; [reflexivity|].
      intros H k Hk. apply andb_true_iff in H. destruct H as [H1 H2].
      destruct (N.eq_dec k m) as [->|Hne]; [exact H2|]. apply IH2; [exact H1|lia]. }
  intros H. apply (G n). exact H.
Qed.

Definition sp_ok (sp : N -> str) (g : N) : bool :=
  match hextet (sp g) with Some h => N.eqb h g | None => false end && forallb plain (sp g).
Lemma sp_min_lower_all : all_below 65536 (sp_ok (sp_min false)) = true.
Proof. vm_compute. reflexivity. Qed.
Lemma sp_min_upper_all : all_below 65536 (sp_ok (sp_min true)) = true.
Proof. vm_compute. reflexivity. Qed.
Lemma sp_pad_all : all_below 65536 (sp_ok sp_pad) = true.
Proof. vm_compute. reflexivity. Qed.

Lemma sp_ok_spelling sp : all_below 65536 (sp_ok sp) = true -> spelling sp.
Proof.
  intros H g Hg. pose proof (all_below_spec _ _ H g Hg) as A. unfold sp_ok in A.
  apply andb_true_iff in A. destruct A as [A B]. destruct (hextet (sp g)) as [h|]; [|discriminate].
  apply N.eqb_eq in A. subst h. auto.
Qed.
Theorem spellings : spelling (sp_min false) /\ spelling (sp_min true) /\ spelling sp_pad.
Proof.
  split; [apply sp_ok_spelling; apply sp_min_lower_all|].
  split; [apply sp_ok_spelling; apply sp_min_upper_all|apply sp_ok_spelling; apply sp_pad_all].
Qed.

Example v6_full_ex :
  v6_parse (map N.of_nat [32] ++ (full_text (sp_min false) [8193; 3512; 0; 0; 0; 0; 0; 1]%N ++ [c_slash] ++ render_dec 64) ++ [9%N])
  = Some (42540766411282592856903984951653826561, 64)%Z.
Proof. vm_compute. reflexivity. Qed.
