(* C16: proofs about Model/Mac.v.  Generic part (any format string / any width), then the two instances. *)
From Coq Require Import NArith ZArith List Bool Lia Arith.
Require Import CCP.Lib.PyStr CCP.Lib.Res CCP.gen.TabC16 CCP.Model.Mac.
Import ListNotations.
Open Scope N_scope.

(* ================================================================== finite enumeration helper *)
Definition below (n : nat) : list N := map N.of_nat (seq 0 n).
Lemma in_below n x : x < N.of_nat n -> In x (below n).
Proof.
  intros H. unfold below. replace x with (N.of_nat (N.to_nat x)) by apply N2Nat.id.
  apply in_map. apply in_seq. lia.
Qed.
Lemma forallb_below (P : N -> bool) n : forallb P (below n) = true -> forall x, x < N.of_nat n -> P x = true.
Proof. intros H x Hx. rewrite forallb_forall in H. apply H. apply in_below. exact Hx. Qed.

(* ================================================================== hex digit characters *)
Definition digit_ok (d : N) : bool :=
  is_hexc (hexU d) && is_hexc (hex_digit d) && (hexv (hexU d) =? d) && (hexv (hex_digit d) =? d)
  && (lower_c (hexU d) =? hex_digit d) && (lower_c (hex_digit d) =? hex_digit d)
  && negb (hex_digit d =? 45) && negb (hex_digit d =? X) && negb (hexU d =? X).
Lemma digits_ok : forallb digit_ok (below 16) = true.
Proof. vm_compute. reflexivity. Qed.

Lemma digit_facts d : d < 16 ->
  is_hexc (hexU d) = true /\ is_hexc (hex_digit d) = true /\ hexv (hexU d) = d /\ hexv (hex_digit d) = d /\
  lower_c (hexU d) = hex_digit d /\ lower_c (hex_digit d) = hex_digit d /\ N.eqb (hex_digit d) 45 = false.
Proof.
  intros Hd. pose proof (forallb_below _ 16 digits_ok d Hd) as H. unfold digit_ok in H.
  apply andb_true_iff in H. destruct H as [H _]. apply andb_true_iff in H. destruct H as [H _].
  apply andb_true_iff in H. destruct H as [H H7]. apply andb_true_iff in H. destruct H as [H H6].
  apply andb_true_iff in H. destruct H as [H H5]. apply andb_true_iff in H. destruct H as [H H4].
  apply andb_true_iff in H. destruct H as [H H3]. apply andb_true_iff in H. destruct H as [H1 H2].
  apply N.eqb_eq in H3, H4, H5, H6. apply negb_true_iff in H7. repeat split; assumption.
Qed.
Lemma hexU_hex d : d < 16 -> is_hexc (hexU d) = true.
Proof. intros H. apply (digit_facts d H). Qed.
Lemma hexL_hex d : d < 16 -> is_hexc (hex_digit d) = true.
Proof. intros H. apply (digit_facts d H). Qed.
Lemma hexv_hexU d : d < 16 -> hexv (hexU d) = d.
Proof. intros H. apply (digit_facts d H). Qed.
Lemma hexv_hexL d : d < 16 -> hexv (hex_digit d) = d.
Proof. intros H. apply (digit_facts d H). Qed.
Lemma lower_hexU d : d < 16 -> lower_c (hexU d) = hex_digit d.
Proof. intros H. apply (digit_facts d H). Qed.
Lemma lower_hexL d : d < 16 -> lower_c (hex_digit d) = hex_digit d.
Proof. intros H. apply (digit_facts d H). Qed.
Lemma hexL_not_dash d : d < 16 -> N.eqb (hex_digit d) 45 = false.
Proof. intros H. apply (digit_facts d H). Qed.

Lemma hexchar_hex up d : d < 16 -> is_hexc (hexchar up d) = true.
Proof. intros. destruct up; [apply hexU_hex | apply hexL_hex]; assumption. Qed.
Lemma hexv_hexchar up d : d < 16 -> hexv (hexchar up d) = d.
Proof. intros. destruct up; [apply hexv_hexU | apply hexv_hexL]; assumption. Qed.

(* every character of _HEX_DIGITS is a digit below 16 in one of the two cases, and is not the place-holder 'x' *)
Definition hexc_ok (c : char) : bool :=
  existsb (fun d => (c =? hexU d) || (c =? hex_digit d)) (below 16) && negb (c =? X) && (hexv c <? 16).
Lemma hexcs_ok : forallb hexc_ok tab_hex_digits = true.
Proof. vm_compute. reflexivity. Qed.
Lemma is_hexc_inv c : is_hexc c = true ->
  (exists up d, d < 16 /\ c = hexchar up d) /\ N.eqb c X = false /\ hexv c < 16.
Proof.
  intros H. unfold is_hexc in H. apply existsb_exists in H. destruct H as [x [Hx He]]. apply N.eqb_eq in He. subst x.
  pose proof hexcs_ok as F. rewrite forallb_forall in F. specialize (F c Hx). unfold hexc_ok in F.
  apply andb_true_iff in F. destruct F as [F F3]. apply andb_true_iff in F. destruct F as [F1 F2].
  split; [|split].
  - apply existsb_exists in F1. destruct F1 as [d [Hd He]].
    assert (d < 16) as Hd16.
    { unfold below in Hd. apply in_map_iff in Hd. destruct Hd as [n [Hn Hs]]. apply in_seq in Hs. lia. }
    apply orb_true_iff in He. destruct He as [He|He]; apply N.eqb_eq in He.
    + exists true, d. split; [exact Hd16 | exact He].
    + exists false, d. split; [exact Hd16 | exact He].
  - apply negb_true_iff. exact F2.
  - apply N.ltb_lt. exact F3.
Qed.

(* ================================================================== nibbles *)
Fixpoint of_lsb (ds : list N) : N := match ds with [] => 0 | d :: r => d + 16 * of_lsb r end.

Lemma land15 v : N.land v 15 = v mod 16.
Proof. change 15 with (N.ones 4). rewrite N.land_ones. reflexivity. Qed.
Lemma shiftr4 v : N.shiftr v 4 = v / 16.
Proof. rewrite N.shiftr_div_pow2. reflexivity. Qed.
Lemma shiftl4 v : N.shiftl v 4 = v * 16.
Proof. rewrite N.shiftl_mul_pow2. reflexivity. Qed.

Lemma nibs_lsb_length k : forall v, length (nibs_lsb k v) = k.
Proof. induction k as [|k IH]; intros v; [reflexivity|]. cbn [nibs_lsb length]. rewrite IH. reflexivity. Qed.
Lemma nibs_lsb_lt16 k : forall v, Forall (fun d => d < 16) (nibs_lsb k v).
Proof.
  induction k as [|k IH]; intros v; [constructor|]. cbn [nibs_lsb]. constructor; [|apply IH].
  rewrite land15. apply N.mod_lt. discriminate.
Qed.
Lemma pow16_succ k : 16 ^ N.of_nat (S k) = 16 * 16 ^ N.of_nat k.
Proof. rewrite Nat2N.inj_succ. apply N.pow_succ_r'. Qed.
Lemma pow16_nz k : 16 ^ N.of_nat k <> 0.
Proof. apply N.pow_nonzero. discriminate. Qed.
Lemma of_lsb_nibs k : forall v, of_lsb (nibs_lsb k v) = v mod 16 ^ N.of_nat k.
Proof.
  induction k as [|k IH]; intros v.
  - cbn. rewrite N.mod_1_r. reflexivity.
  - cbn [nibs_lsb of_lsb]. rewrite IH, land15, shiftr4, pow16_succ.
    rewrite N.mod_mul_r; [reflexivity | discriminate | apply pow16_nz].
Qed.
Lemma of_lsb_lt ds : Forall (fun d => d < 16) ds -> of_lsb ds < 16 ^ N.of_nat (length ds).
Proof.
  induction ds as [|d r IH]; intros HF.
  - cbn. lia.
  - apply Forall_cons_iff in HF. destruct HF as [Hd Hr]. specialize (IH Hr).
    cbn [of_lsb length]. rewrite pow16_succ. lia.
Qed.
Lemma nibs_of_lsb ds : Forall (fun d => d < 16) ds -> nibs_lsb (length ds) (of_lsb ds) = ds.
Proof.
  induction ds as [|d r IH]; intros HF; [reflexivity|].
  apply Forall_cons_iff in HF. destruct HF as [Hd Hr].
  cbn [length of_lsb nibs_lsb]. rewrite land15, shiftr4.
  replace (d + 16 * of_lsb r) with (d + of_lsb r * 16) by lia.
  rewrite N.mod_add by discriminate. rewrite N.div_add by discriminate.
  rewrite N.mod_small by exact Hd. rewrite N.div_small by exact Hd. rewrite N.add_0_l, (IH Hr). reflexivity.
Qed.

Definition msb_val (ds : list N) : N := fold_left (fun a d => a * 16 + d) ds 0.
Lemma msb_val_rev l : msb_val (rev l) = of_lsb l.
Proof.
  unfold msb_val. induction l as [|d r IH]; [reflexivity|].
  cbn [rev of_lsb]. rewrite fold_left_app. cbn [fold_left]. rewrite IH. lia.
Qed.

Lemma nibbles_length k v : length (nibbles k v) = k.
Proof. unfold nibbles. rewrite rev_length. apply nibs_lsb_length. Qed.
Lemma nibbles_lt16 k v : Forall (fun d => d < 16) (nibbles k v).
Proof. unfold nibbles. apply Forall_rev. apply nibs_lsb_lt16. Qed.
Lemma nibbles_value k v : v < 16 ^ N.of_nat k -> msb_val (nibbles k v) = v.
Proof. intros H. unfold nibbles. rewrite msb_val_rev, of_lsb_nibs. apply N.mod_small. exact H. Qed.
Lemma nibbles_of_digits ds : Forall (fun d => d < 16) ds -> nibbles (length ds) (msb_val ds) = ds.
Proof.
  intros HF. unfold nibbles. rewrite <- (rev_involutive ds) at 2. rewrite msb_val_rev.
  rewrite <- (rev_length ds). rewrite nibs_of_lsb by (apply Forall_rev; exact HF). apply rev_involutive.
Qed.
Lemma msb_val_lt ds : Forall (fun d => d < 16) ds -> msb_val ds < 16 ^ N.of_nat (length ds).
Proof.
  intros HF. rewrite <- (rev_involutive ds) at 1. rewrite msb_val_rev. rewrite <- (rev_length ds).
  apply of_lsb_lt. apply Forall_rev. exact HF.
Qed.
Lemma nibbles_inj k a b : a < 16 ^ N.of_nat k -> b < 16 ^ N.of_nat k -> nibbles k a = nibbles k b -> a = b.
Proof. intros Ha Hb E. rewrite <- (nibbles_value k a Ha), <- (nibbles_value k b Hb), E. reflexivity. Qed.

(* ================================================================== fill *)
Lemma count_x_app a b : count_x (a ++ b) = (count_x a + count_x b)%nat.
Proof. induction a as [|c r IH]; [reflexivity|]. cbn [app count_x]. destruct (N.eqb c X); rewrite IH; reflexivity. Qed.
Lemma count_x_rev t : count_x (rev t) = count_x t.
Proof.
  induction t as [|c r IH]; [reflexivity|]. cbn [rev]. rewrite count_x_app, IH. cbn [count_x].
  destruct (N.eqb c X); lia.
Qed.

Lemma fill_app a : forall b cs, (count_x a <= length cs)%nat ->
  fill (a ++ b) cs = fill a cs ++ fill b (skipn (count_x a) cs).
Proof.
  induction a as [|c r IH]; intros b cs Hl; [reflexivity|].
  cbn [app fill count_x] in *. destruct (N.eqb c X).
  - destruct cs as [|d cs']; [cbn [length] in Hl; lia|]. cbn [length] in Hl. cbn [skipn app].
    rewrite IH by lia. reflexivity.
  - cbn [app]. rewrite IH by exact Hl. reflexivity.
Qed.
Lemma fill_extra t : forall cs e, (count_x t <= length cs)%nat -> fill t (cs ++ e) = fill t cs.
Proof.
  induction t as [|c r IH]; intros cs e Hl; [reflexivity|].
  cbn [fill count_x] in *. destruct (N.eqb c X).
  - destruct cs as [|d cs']; [cbn [length] in Hl; lia|]. cbn [length] in Hl. cbn [app]. rewrite IH by lia. reflexivity.
  - rewrite IH by exact Hl. reflexivity.
Qed.
Lemma fill_rev t : forall cs, length cs = count_x t -> fill (rev t) (rev cs) = rev (fill t cs).
Proof.
  induction t as [|c r IH]; intros cs Hl; [reflexivity|].
  cbn [rev fill count_x] in *. destruct (N.eqb c X) eqn:EX.
  - destruct cs as [|d cs']; [discriminate Hl|]. cbn [length] in Hl. injection Hl as Hl.
    cbn [rev]. rewrite fill_app by (rewrite count_x_rev, app_length, rev_length; lia).
    rewrite fill_extra by (rewrite count_x_rev, rev_length; lia).
    rewrite (IH cs' Hl). f_equal.
    rewrite count_x_rev, <- Hl, <- (rev_length cs'), skipn_app, skipn_all, Nat.sub_diag. cbn [app skipn fill]. rewrite EX. reflexivity.
  - rewrite fill_app by (rewrite count_x_rev, rev_length; lia).
    rewrite (IH cs Hl). f_equal. cbn [fill]. rewrite EX. reflexivity.
Qed.
Lemma fill_length t : forall cs, length cs = count_x t -> length (fill t cs) = length t.
Proof.
  induction t as [|c r IH]; intros cs Hl; [reflexivity|].
  cbn [fill count_x length] in *. destruct (N.eqb c X).
  - destruct cs as [|d cs']; [discriminate Hl|]. cbn [length] in *. injection Hl as Hl. rewrite (IH cs' Hl). reflexivity.
  - cbn [length]. rewrite (IH cs Hl). reflexivity.
Qed.
Lemma fill_inj t : forall cs cs', length cs = count_x t -> length cs' = count_x t -> fill t cs = fill t cs' -> cs = cs'.
Proof.
  induction t as [|c r IH]; intros cs cs' H1 H2 E.
  - destruct cs; [|discriminate H1]. destruct cs'; [reflexivity|discriminate H2].
  - cbn [fill count_x] in *. destruct (N.eqb c X).
    + destruct cs as [|d cs0]; [discriminate H1|]. destruct cs' as [|d' cs0']; [discriminate H2|].
      cbn [length] in *. injection H1 as H1. injection H2 as H2. injection E as E1 E2. subst d'. f_equal. exact (IH _ _ H1 H2 E2).
    + injection E as E. exact (IH _ _ H1 H2 E).
Qed.
Lemma map_fill (f : char -> char) t : map f t = t -> forall cs, map f (fill t cs) = fill t (map f cs).
Proof.
  induction t as [|c r IH]; intros Ht cs; [reflexivity|].
  cbn [map] in Ht. injection Ht as Hc Hr. cbn [fill]. destruct (N.eqb c X).
  - destruct cs as [|d cs']; [reflexivity|]. cbn [map]. rewrite (IH Hr). reflexivity.
  - cbn [map]. rewrite Hc, (IH Hr). reflexivity.
Qed.

(* ================================================================== __str__ *)
Lemma render_rev_fill tr : forall v, render_rev tr v = fill tr (map hexU (nibs_lsb (count_x tr) v)).
Proof.
  induction tr as [|c r IH]; intros v; [reflexivity|].
  cbn [render_rev fill count_x]. destruct (N.eqb c X).
  - cbn [nibs_lsb map]. rewrite IH. reflexivity.
  - rewrite IH. reflexivity.
Qed.

Lemma hw_str_spec fmts size v : nib_offset size = 0 ->
  hw_str fmts size v = fill (hd [] fmts) (map hexU (nibbles (count_x (hd [] fmts)) v)).
Proof.
  intros Hoff. unfold hw_str. rewrite Hoff, N.shiftl_0_r. set (t := hd [] fmts).
  rewrite render_rev_fill, count_x_rev. unfold nibbles. rewrite map_rev.
  set (L := map hexU (nibs_lsb (count_x t) v)).
  rewrite <- (rev_involutive L) at 1. rewrite fill_rev; [apply rev_involutive|].
  unfold L. rewrite rev_length, map_length. apply nibs_lsb_length.
Qed.

Lemma lower_hw_str fmts size v : nib_offset size = 0 -> lower (hd [] fmts) = hd [] fmts ->
  lower (hw_str fmts size v) = spell_lower (hd [] fmts) v.
Proof.
  intros Hoff Hl. rewrite hw_str_spec by exact Hoff. unfold lower, spell_lower. rewrite map_fill by exact Hl.
  f_equal. rewrite map_map. apply map_ext_in. intros d Hd.
  pose proof (nibbles_lt16 (count_x (hd [] fmts)) v) as HF. rewrite Forall_forall in HF.
  apply lower_hexU. apply HF. exact Hd.
Qed.

Lemma lower_spell_lower t v : lower t = t -> lower (spell_lower t v) = spell_lower t v.
Proof.
  intros Hl. unfold lower, spell_lower. rewrite map_fill by exact Hl. f_equal. rewrite map_map. apply map_ext_in.
  intros d Hd. pose proof (nibbles_lt16 (count_x t) v) as HF. rewrite Forall_forall in HF. apply lower_hexL. apply HF. exact Hd.
Qed.

Lemma lower_digits_no_dash k v : Forall (fun c => N.eqb c 45 = false) (map hex_digit (nibbles k v)).
Proof.
  apply Forall_forall. intros c Hc. apply in_map_iff in Hc. destruct Hc as [d [He Hd]]. subst c.
  pose proof (nibbles_lt16 k v) as HF. rewrite Forall_forall in HF. apply hexL_not_dash. apply HF. exact Hd.
Qed.

(* ================================================================== split on '-' of explicit groups *)
Lemma split_sep sep cur r : split_on_aux sep cur (sep :: r) = rev cur :: split_on_aux sep [] r.
Proof. cbn [split_on_aux]. rewrite N.eqb_refl. reflexivity. Qed.
Lemma split_nosep sep cur c r : N.eqb c sep = false -> split_on_aux sep cur (c :: r) = split_on_aux sep (c :: cur) r.
Proof. intros H. cbn [split_on_aux]. rewrite H. reflexivity. Qed.

Ltac destr_len ds H :=
  repeat (destruct ds as [|? ds]; [discriminate H|]; cbn [length] in H; apply eq_add_S in H);
  destruct ds as [|? ds]; [clear H|discriminate H].
Ltac split_forall H :=
  repeat (apply Forall_cons_iff in H; let H1 := fresh "Hc" in destruct H as [H1 H]); clear H.
Ltac run_split :=
  unfold split_on;
  repeat first [rewrite split_sep | rewrite split_nosep by assumption];
  cbn [split_on_aux rev app].

Lemma mac_renderings cs : length cs = 12%nat -> Forall (fun c => N.eqb c 45 = false) cs ->
  let mb := split_on 45 (fill fmt_dash48 cs) in
  need 6 mb (Ok (mb_ mb 0 ++ mb_ mb 1 ++ DOT ++ mb_ mb 2 ++ mb_ mb 3 ++ DOT ++ mb_ mb 4 ++ mb_ mb 5)) = Ok (fill fmt_cisco48 cs)
  /\ need 6 mb (Ok (sep6 DASH mb)) = Ok (fill fmt_dash48 cs)
  /\ need 6 mb (Ok (sep6 COLON mb)) = Ok (fill fmt_colon48 cs).
Proof.
  intros HL HF. destr_len cs HL. split_forall HF.
  cbv zeta. unfold fmt_dash48. cbn [fill N.eqb Pos.eqb X]. run_split.
  repeat split; reflexivity.
Qed.

Lemma eui_renderings cs : length cs = 16%nat -> Forall (fun c => N.eqb c 45 = false) cs ->
  let mb := split_on 45 (fill fmt_dash64 cs) in
  need 8 mb (Ok (mb_ mb 0 ++ mb_ mb 1 ++ DOT ++ mb_ mb 2 ++ mb_ mb 3 ++ DOT ++ mb_ mb 4 ++ mb_ mb 5 ++ DOT ++ mb_ mb 6 ++ mb_ mb 7))
    = Ok (fill fmt_cisco64 cs)
  /\ need 8 mb (Ok (sep8 DASH mb)) = Ok (fill fmt_dash64 cs)
  /\ need 8 mb (Ok (sep8 COLON mb)) = Ok (fill fmt_colon64 cs).
Proof.
  intros HL HF. destr_len cs HL. split_forall HF.
  cbv zeta. unfold fmt_dash64. cbn [fill N.eqb Pos.eqb X]. run_split.
  repeat split; reflexivity.
Qed.

(* ================================================================== _parse *)
Definition clean (t : str) : bool := forallb (fun c => N.eqb c X || negb (is_hexc c)) t.

Lemma match_fill t : clean t = true -> forall cs, Forall (fun c => is_hexc c = true) cs -> length cs = count_x t ->
  match_tpl t (fill t cs) = true.
Proof.
  induction t as [|c r IH]; intros Hc cs HF HL; [reflexivity|].
  unfold clean in Hc. cbn [forallb] in Hc. apply andb_true_iff in Hc. destruct Hc as [Hc Hr]. fold (clean r) in Hr.
  cbn [fill count_x] in *. destruct (N.eqb c X) eqn:EX.
  - destruct cs as [|d cs']; [discriminate HL|]. cbn [length] in HL. injection HL as HL.
    apply Forall_cons_iff in HF. destruct HF as [Hd HF].
    cbn [match_tpl]. rewrite Hd, EX. cbn [andb]. exact (IH Hr cs' HF HL).
  - cbn [orb] in Hc. apply negb_true_iff in Hc. cbn [match_tpl]. rewrite Hc, EX, N.eqb_refl. cbn [andb]. exact (IH Hr cs HF HL).
Qed.

Lemma hexacc_fill t : clean t = true -> forall cs acc, Forall (fun c => is_hexc c = true) cs -> length cs = count_x t ->
  hexacc acc (fill t cs) = fold_left (fun a c => a * 16 + hexv c) cs acc.
Proof.
  induction t as [|c r IH]; intros Hc cs acc HF HL.
  - destruct cs; [reflexivity | discriminate HL].
  - unfold clean in Hc. cbn [forallb] in Hc. apply andb_true_iff in Hc. destruct Hc as [Hc Hr]. fold (clean r) in Hr.
    cbn [fill count_x] in *. destruct (N.eqb c X) eqn:EX.
    + destruct cs as [|d cs']; [discriminate HL|]. cbn [length] in HL. injection HL as HL.
      apply Forall_cons_iff in HF. destruct HF as [Hd HF].
      cbn [hexacc fold_left]. rewrite Hd, shiftl4. exact (IH Hr cs' _ HF HL).
    + cbn [orb] in Hc. apply negb_true_iff in Hc. cbn [hexacc]. rewrite Hc. exact (IH Hr cs acc HF HL).
Qed.

Lemma fold_hexv cs : forall acc, fold_left (fun a c => a * 16 + hexv c) cs acc = fold_left (fun a d => a * 16 + d) (map hexv cs) acc.
Proof. induction cs as [|c r IH]; intros acc; [reflexivity|]. cbn [map fold_left]. apply IH. Qed.

Lemma match_nonempty t s : match_tpl t s = true -> t <> [] -> s <> [].
Proof. intros H Ht Hs. subst s. destruct t; [contradiction | discriminate H]. Qed.

Lemma hw_parse_match fmts size t s : In t fmts -> t <> [] -> match_tpl t s = true ->
  hw_parse fmts size s = Ok (N.shiftr (hexacc 0 s) (nib_offset size)).
Proof.
  intros Hin Hne Hm. pose proof (match_nonempty t s Hm Hne) as Hs. unfold hw_parse.
  destruct s as [|c r]; [contradiction|].
  assert (existsb (fun t0 => match_tpl t0 (c :: r)) fmts = true) as HE by (apply existsb_exists; exists t; split; assumption).
  rewrite HE. reflexivity.
Qed.

Lemma map2_length {A B C} (f : A -> B -> C) l : forall m, length l = length m -> length (map2 f l m) = length m.
Proof. induction l as [|a l' IH]; intros [|b m'] H; try discriminate H; [reflexivity|]. cbn [map2 length] in *. rewrite IH by lia. reflexivity. Qed.
Lemma map2_hexchar_hex mask : forall ds, length mask = length ds -> Forall (fun d => d < 16) ds ->
  Forall (fun c => is_hexc c = true) (map2 hexchar mask ds) /\ map hexv (map2 hexchar mask ds) = ds.
Proof.
  induction mask as [|u mask' IH]; intros [|d ds'] HL HF; try discriminate HL.
  - split; [constructor | reflexivity].
  - cbn [length] in HL. apply Forall_cons_iff in HF. destruct HF as [Hd HF]. destruct (IH ds' ltac:(lia) HF) as [I1 I2].
    cbn [map2 map]. split; [constructor; [apply hexchar_hex; exact Hd | exact I1]|]. rewrite hexv_hexchar by exact Hd. rewrite I2. reflexivity.
Qed.

(* a spelling parses to its value *)
Lemma parse_spell fmts size k t mask v :
  nib_offset size = 0 -> In t fmts -> t <> [] -> clean t = true -> count_x t = k -> length mask = k ->
  v < 16 ^ N.of_nat k -> hw_parse fmts size (spell t mask v) = Ok v.
Proof.
  intros Hoff Hin Hne Hcl Hk Hm Hv. unfold spell. rewrite Hk.
  destruct (map2_hexchar_hex mask (nibbles k v)) as [H1 H2]; [rewrite nibbles_length; exact Hm | apply nibbles_lt16 |].
  assert (HL : length (map2 hexchar mask (nibbles k v)) = count_x t)
    by (rewrite map2_length; rewrite nibbles_length; [exact (eq_sym Hk) | exact Hm]).
  rewrite (hw_parse_match fmts size t) by (try assumption; apply match_fill; assumption).
  rewrite Hoff, N.shiftr_0_r. rewrite hexacc_fill by assumption. rewrite fold_hexv, H2.
  f_equal. exact (nibbles_value k v Hv).
Qed.
Lemma parse_spell_lower fmts size k t v :
  nib_offset size = 0 -> In t fmts -> t <> [] -> clean t = true -> count_x t = k ->
  v < 16 ^ N.of_nat k -> hw_parse fmts size (spell_lower t v) = Ok v.
Proof.
  intros Hoff Hin Hne Hcl Hk Hv.
  replace (spell_lower t v) with (spell t (repeat false k) v); [apply (parse_spell fmts size k); try assumption; apply repeat_length|].
  unfold spell, spell_lower. f_equal. rewrite Hk. generalize (nibbles_length k v). generalize (nibbles k v). clear.
  induction k as [|k IH]; intros [|d l] HL; try discriminate HL; [reflexivity|].
  cbn [repeat map2 map]. f_equal. apply IH. cbn [length] in HL. lia.
Qed.

(* an accepted string is a spelling of the returned value *)
Lemma match_inv t : forall s, match_tpl t s = true ->
  exists cs, s = fill t cs /\ Forall (fun c => is_hexc c = true) cs /\ length cs = count_x t.
Proof.
  induction t as [|c r IH]; intros s Hm.
  - destruct s; [|discriminate Hm]. exists []. repeat split. constructor.
  - destruct s as [|a s']; [discriminate Hm|]. cbn [match_tpl] in Hm. apply andb_true_iff in Hm. destruct Hm as [Hh Hm].
    destruct (IH s' Hm) as [cs [E [HF HL]]]. cbn [fill count_x].
    destruct (is_hexc a) eqn:EH.
    + rewrite Hh. exists (a :: cs). subst s'. repeat split; [constructor; assumption | cbn [length]; rewrite HL; reflexivity].
    + destruct (N.eqb a X) eqn:EX; [discriminate Hh|]. apply N.eqb_eq in Hh. subst c. rewrite EX.
      exists cs. subst s'. repeat split; assumption.
Qed.

Lemma hex_chars_mask cs : Forall (fun c => is_hexc c = true) cs ->
  Forall (fun d => d < 16) (map hexv cs) /\ exists mask, length mask = length cs /\ cs = map2 hexchar mask (map hexv cs).
Proof.
  induction cs as [|c r IH]; intros HF.
  - split; [constructor|]. exists []. split; reflexivity.
  - apply Forall_cons_iff in HF. destruct HF as [Hc HF]. destruct (IH HF) as [I1 [mask [I2 I3]]].
    destruct (is_hexc_inv c Hc) as [[up [d [Hd He]]] [_ Hv]].
    split; [cbn [map]; constructor; assumption|].
    exists (up :: mask). split; [cbn [length]; rewrite I2; reflexivity|].
    cbn [map map2]. rewrite <- I3. f_equal. rewrite He at 2. rewrite hexv_hexchar by exact Hd. exact He.
Qed.

Lemma parse_sound fmts size k s v :
  nib_offset size = 0 -> forallb (fun t => clean t && Nat.eqb (count_x t) k) fmts = true ->
  hw_parse fmts size s = Ok v ->
  v < 16 ^ N.of_nat k /\ exists t mask, In t fmts /\ length mask = k /\ s = spell t mask v.
Proof.
  intros Hoff Hf Hp. unfold hw_parse in Hp. remember (hexacc 0 s) as h eqn:Eh. destruct s as [|c0 r0]; [discriminate Hp|].
  destruct (existsb (fun t => match_tpl t (c0 :: r0)) fmts) eqn:EE; [|discriminate Hp].
  injection Hp as Hp. rewrite Hoff, N.shiftr_0_r in Hp.
  apply existsb_exists in EE. destruct EE as [t [Hin Hm]].
  rewrite forallb_forall in Hf. specialize (Hf t Hin). apply andb_true_iff in Hf. destruct Hf as [Hcl Hk]. apply Nat.eqb_eq in Hk.
  destruct (match_inv t _ Hm) as [cs [E [HF HL]]].
  destruct (hex_chars_mask cs HF) as [HD [mask [HM1 HM2]]].
  rewrite E, (hexacc_fill t Hcl cs 0 HF HL), fold_hexv in Eh. fold (msb_val (map hexv cs)) in Eh. subst h.
  assert (Hlen : length (map hexv cs) = k) by (rewrite map_length, HL; exact Hk).
  split.
  - rewrite <- Hp, <- Hlen. apply msb_val_lt. exact HD.
  - exists t, mask. split; [exact Hin|]. split; [rewrite HM1, HL; exact Hk|].
    rewrite E. unfold spell. rewrite Hk, <- Hlen, <- Hp, nibbles_of_digits by exact HD. rewrite <- HM2. reflexivity.
Qed.

Lemma spell_length t mask v : length mask = count_x t -> length (spell t mask v) = length t.
Proof. intros H. unfold spell. apply fill_length. rewrite map2_length; rewrite nibbles_length; [reflexivity | exact H]. Qed.

(* ================================================================== equality through the dash rendering *)
Lemma spell_lower_inj t k a b : count_x t = k -> a < 16 ^ N.of_nat k -> b < 16 ^ N.of_nat k ->
  spell_lower t a = spell_lower t b -> a = b.
Proof.
  intros Hk Ha Hb E. unfold spell_lower in E. rewrite Hk in E.
  apply fill_inj in E; try (rewrite map_length, nibbles_length; exact (eq_sym Hk)).
  apply (nibbles_inj k a b Ha Hb).
  assert (G : map hexv (map hex_digit (nibbles k a)) = map hexv (map hex_digit (nibbles k b))) by (rewrite E; reflexivity).
  rewrite !map_map in G.
  rewrite (map_ext_in _ (fun d => d) (nibbles k a)) in G.
  - rewrite (map_ext_in _ (fun d => d) (nibbles k b)) in G; [rewrite !map_id in G; exact G|].
    intros d Hd. pose proof (nibbles_lt16 k b) as HF. rewrite Forall_forall in HF. apply hexv_hexL. apply HF. exact Hd.
  - intros d Hd. pose proof (nibbles_lt16 k a) as HF. rewrite Forall_forall in HF. apply hexv_hexL. apply HF. exact Hd.
Qed.

(* ================================================================== instance: MACObj *)
Lemma tables48 :
  tab_eui48_formats = [fmt_dash48; fmt_colon48; fmt_cisco48; fmt_bare48] /\ tab_eui48_size = 48 /\ nib_offset tab_eui48_size = 0 /\
  forallb (fun t => clean t && Nat.eqb (count_x t) 12) tab_eui48_formats = true /\ 16 ^ N.of_nat 12 = 2 ^ 48.
Proof. repeat split; vm_compute; reflexivity. Qed.

Lemma fmt48_facts t : In t [fmt_dash48; fmt_colon48; fmt_cisco48; fmt_bare48] ->
  In t tab_eui48_formats /\ t <> [] /\ clean t = true /\ count_x t = 12%nat /\ lower t = t.
Proof.
  destruct tables48 as [E _]. rewrite E. intros H. split; [exact H|].
  cbn [In] in H. destruct H as [H|[H|[H|[H|[]]]]]; subst t; (split; [discriminate|]); repeat split; vm_compute; reflexivity.
Qed.

Lemma mac_lower_str v : lower (hw_str tab_eui48_formats tab_eui48_size v) = spell_lower fmt_dash48 v.
Proof.
  destruct tables48 as [E [_ [Hoff _]]].
  rewrite lower_hw_str; [rewrite E; reflexivity | exact Hoff | rewrite E; vm_compute; reflexivity].
Qed.

Lemma mac_render v :
  mac_cisco v = Ok (spell_lower fmt_cisco48 v) /\ mac_dash v = Ok (spell_lower fmt_dash48 v) /\
  mac_colon v = Ok (spell_lower fmt_colon48 v) /\ mac_unix v = Ok (spell_lower fmt_dash48 v).
Proof.
  unfold mac_cisco, mac_dash, mac_colon, mac_unix, mac_mb. rewrite mac_lower_str.
  unfold spell_lower.
  change (count_x fmt_dash48) with 12%nat. change (count_x fmt_cisco48) with 12%nat. change (count_x fmt_colon48) with 12%nat.
  destruct (mac_renderings (map hex_digit (nibbles 12 v))) as [R1 [R2 R3]];
    [rewrite map_length; apply nibbles_length | apply lower_digits_no_dash |].
  cbv zeta in R1, R2, R3. rewrite R1, R2, R3. repeat split.
Qed.

Lemma mac_reparse v : v < 2 ^ 48 -> forall r, In r [mac_cisco; mac_dash; mac_colon; mac_unix] ->
  exists s, r v = Ok s /\ mac_new s = Ok v.
Proof.
  intros Hv r Hr. destruct (mac_render v) as [R1 [R2 [R3 R4]]]. destruct tables48 as [_ [_ [Hoff [_ P]]]].
  assert (G : forall t, In t [fmt_dash48; fmt_colon48; fmt_cisco48; fmt_bare48] -> mac_new (spell_lower t v) = Ok v).
  { intros t Ht. destruct (fmt48_facts t Ht) as [F1 [F2 [F3 [F4 _]]]]. unfold mac_new.
    apply (parse_spell_lower _ _ 12); first [assumption | rewrite P; exact Hv]. }
  cbn [In] in Hr. destruct Hr as [Hr|[Hr|[Hr|[Hr|[]]]]]; subst r.
  - exists (spell_lower fmt_cisco48 v). split; [exact R1 | apply G; cbn [In]; tauto].
  - exists (spell_lower fmt_dash48 v). split; [exact R2 | apply G; cbn [In]; tauto].
  - exists (spell_lower fmt_colon48 v). split; [exact R3 | apply G; cbn [In]; tauto].
  - exists (spell_lower fmt_dash48 v). split; [exact R4 | apply G; cbn [In]; tauto].
Qed.

Lemma mac_parse_any_spelling v t mask : v < 2 ^ 48 -> In t [fmt_dash48; fmt_colon48; fmt_cisco48; fmt_bare48] ->
  length mask = 12%nat -> mac_new (spell t mask v) = Ok v.
Proof.
  intros Hv Ht Hm. destruct (fmt48_facts t Ht) as [F1 [F2 [F3 [F4 _]]]]. destruct tables48 as [_ [_ [Hoff [_ P]]]].
  unfold mac_new. apply (parse_spell _ _ 12); first [assumption | rewrite P; exact Hv].
Qed.

Lemma mac_parse_sound s v : mac_new s = Ok v ->
  v < 2 ^ 48 /\ exists t mask, In t [fmt_dash48; fmt_colon48; fmt_cisco48; fmt_bare48] /\ length mask = 12%nat /\ s = spell t mask v.
Proof.
  intros H. destruct tables48 as [E [_ [Hoff [Hf P]]]]. unfold mac_new in H.
  destruct (parse_sound _ _ 12 s v Hoff Hf H) as [Hv [t [mask [Hin [Hm Hs]]]]]. rewrite P in Hv. rewrite E in Hin.
  split; [exact Hv|]. exists t, mask. repeat split; assumption.
Qed.

Lemma hw_parse_total fmts size s : (exists v, hw_parse fmts size s = Ok v) \/ hw_parse fmts size s = Raise E_ValueError.
Proof.
  unfold hw_parse. destruct s; [right; reflexivity|]. destruct (existsb _ fmts); [left; eexists; reflexivity | right; reflexivity].
Qed.

Lemma mac_reject_length s : ~ In (length s) [17; 14; 12]%nat -> mac_new s = Raise E_ValueError.
Proof.
  intros Hl. destruct (hw_parse_total tab_eui48_formats tab_eui48_size s) as [[v Hv]|Hr]; [|exact Hr]. exfalso. apply Hl.
  destruct (mac_parse_sound s v Hv) as [_ [t [mask [Hin [Hm Hs]]]]].
  destruct (fmt48_facts t Hin) as [_ [_ [_ [F4 _]]]].
  rewrite Hs, spell_length by (rewrite F4; exact Hm).
  cbn [In] in Hin. destruct Hin as [H|[H|[H|[H|[]]]]]; subst t; cbn; tauto.
Qed.

Lemma mac_eq_spec a b : a < 2 ^ 48 -> b < 2 ^ 48 -> mac_eq a b = Ok (N.eqb a b).
Proof.
  intros Ha Hb. unfold mac_eq. destruct (mac_render a) as [_ [Da _]]. destruct (mac_render b) as [_ [Db _]].
  rewrite Da, Db. cbn [bind]. f_equal.
  rewrite !lower_spell_lower by (vm_compute; reflexivity).
  destruct tables48 as [_ [_ [_ [_ P]]]].
  destruct (N.eqb a b) eqn:E.
  - apply N.eqb_eq in E. subst b. apply str_eqb_refl.
  - destruct (str_eqb (spell_lower fmt_dash48 a) (spell_lower fmt_dash48 b)) eqn:ES; [|reflexivity].
    apply str_eqb_eq in ES. apply (spell_lower_inj fmt_dash48 12) in ES; [|reflexivity|rewrite P; exact Ha|rewrite P; exact Hb].
    subst b. rewrite N.eqb_refl in E. discriminate E.
Qed.

(* ================================================================== instance: EUI64Obj *)
Lemma tables64 :
  tab_eui64_formats = [fmt_dash64; fmt_colon64; fmt_cisco64; fmt_bare64] /\ tab_eui64_size = 64 /\ nib_offset tab_eui64_size = 0 /\
  forallb (fun t => clean t && Nat.eqb (count_x t) 16) tab_eui64_formats = true /\ 16 ^ N.of_nat 16 = 2 ^ 64.
Proof. repeat split; vm_compute; reflexivity. Qed.

Lemma fmt64_facts t : In t [fmt_dash64; fmt_colon64; fmt_cisco64; fmt_bare64] ->
  In t tab_eui64_formats /\ t <> [] /\ clean t = true /\ count_x t = 16%nat /\ lower t = t.
Proof.
  destruct tables64 as [E _]. rewrite E. intros H. split; [exact H|].
  cbn [In] in H. destruct H as [H|[H|[H|[H|[]]]]]; subst t; (split; [discriminate|]); repeat split; vm_compute; reflexivity.
Qed.

Lemma eui_lower_str v : lower (hw_str tab_eui64_formats tab_eui64_size v) = spell_lower fmt_dash64 v.
Proof.
  destruct tables64 as [E [_ [Hoff _]]].
  rewrite lower_hw_str; [rewrite E; reflexivity | exact Hoff | rewrite E; vm_compute; reflexivity].
Qed.

Lemma eui_render v :
  eui_cisco v = Ok (spell_lower fmt_cisco64 v) /\ eui_dash v = Ok (spell_lower fmt_dash64 v) /\
  eui_colon v = Ok (spell_lower fmt_colon64 v).
Proof.
  unfold eui_cisco, eui_dash, eui_colon, eui_mb. rewrite eui_lower_str.
  unfold spell_lower.
  change (count_x fmt_dash64) with 16%nat. change (count_x fmt_cisco64) with 16%nat. change (count_x fmt_colon64) with 16%nat.
  destruct (eui_renderings (map hex_digit (nibbles 16 v))) as [R1 [R2 R3]];
    [rewrite map_length; apply nibbles_length | apply lower_digits_no_dash |].
  cbv zeta in R1, R2, R3. rewrite R1, R2, R3. repeat split.
Qed.

Lemma eui_reparse v : v < 2 ^ 64 -> forall r, In r [eui_cisco; eui_dash; eui_colon] ->
  exists s, r v = Ok s /\ eui_new s = Ok v.
Proof.
  intros Hv r Hr. destruct (eui_render v) as [R1 [R2 R3]]. destruct tables64 as [_ [_ [Hoff [_ P]]]].
  assert (G : forall t, In t [fmt_dash64; fmt_colon64; fmt_cisco64; fmt_bare64] -> eui_new (spell_lower t v) = Ok v).
  { intros t Ht. destruct (fmt64_facts t Ht) as [F1 [F2 [F3 [F4 _]]]]. unfold eui_new.
    apply (parse_spell_lower _ _ 16); first [assumption | rewrite P; exact Hv]. }
  cbn [In] in Hr. destruct Hr as [Hr|[Hr|[Hr|[]]]]; subst r.
  - exists (spell_lower fmt_cisco64 v). split; [exact R1 | apply G; cbn [In]; tauto].
  - exists (spell_lower fmt_dash64 v). split; [exact R2 | apply G; cbn [In]; tauto].
  - exists (spell_lower fmt_colon64 v). split; [exact R3 | apply G; cbn [In]; tauto].
Qed.

Lemma eui_parse_any_spelling v t mask : v < 2 ^ 64 -> In t [fmt_dash64; fmt_colon64; fmt_cisco64; fmt_bare64] ->
  length mask = 16%nat -> eui_new (spell t mask v) = Ok v.
Proof.
  intros Hv Ht Hm. destruct (fmt64_facts t Ht) as [F1 [F2 [F3 [F4 _]]]]. destruct tables64 as [_ [_ [Hoff [_ P]]]].
  unfold eui_new. apply (parse_spell _ _ 16); first [assumption | rewrite P; exact Hv].
Qed.

Lemma eui_parse_sound s v : eui_new s = Ok v ->
  v < 2 ^ 64 /\ exists t mask, In t [fmt_dash64; fmt_colon64; fmt_cisco64; fmt_bare64] /\ length mask = 16%nat /\ s = spell t mask v.
Proof.
  intros H. destruct tables64 as [E [_ [Hoff [Hf P]]]]. unfold eui_new in H.
  destruct (parse_sound _ _ 16 s v Hoff Hf H) as [Hv [t [mask [Hin [Hm Hs]]]]]. rewrite P in Hv. rewrite E in Hin.
  split; [exact Hv|]. exists t, mask. repeat split; assumption.
Qed.

Lemma eui_reject_length s : ~ In (length s) [23; 19; 16]%nat -> eui_new s = Raise E_ValueError.
Proof.
  intros Hl. destruct (hw_parse_total tab_eui64_formats tab_eui64_size s) as [[v Hv]|Hr]; [|exact Hr]. exfalso. apply Hl.
  destruct (eui_parse_sound s v Hv) as [_ [t [mask [Hin [Hm Hs]]]]].
  destruct (fmt64_facts t Hin) as [_ [_ [_ [F4 _]]]].
  rewrite Hs, spell_length by (rewrite F4; exact Hm).
  cbn [In] in Hin. destruct Hin as [H|[H|[H|[H|[]]]]]; subst t; cbn; tauto.
Qed.

Lemma eui_eq_spec a b : a < 2 ^ 64 -> b < 2 ^ 64 -> eui_eq a b = Ok (N.eqb a b).
Proof.
  intros Ha Hb. unfold eui_eq. destruct (eui_render a) as [_ [Da _]]. destruct (eui_render b) as [_ [Db _]].
  rewrite Da, Db. cbn [bind]. f_equal.
  rewrite !lower_spell_lower by (vm_compute; reflexivity).
  destruct tables64 as [_ [_ [_ [_ P]]]].
  destruct (N.eqb a b) eqn:E.
  - apply N.eqb_eq in E. subst b. apply str_eqb_refl.
  - destruct (str_eqb (spell_lower fmt_dash64 a) (spell_lower fmt_dash64 b)) eqn:ES; [|reflexivity].
    apply str_eqb_eq in ES. apply (spell_lower_inj fmt_dash64 16) in ES; [|reflexivity|rewrite P; exact Ha|rewrite P; exact Hb].
    subst b. rewrite N.eqb_refl in E. discriminate E.
Qed.

(* MACEUISearch: which object is built for a word *)
Lemma classify_spec w :
  match classify w with
  | F_mac v => mac_new w = Ok v
  | F_eui64 v => eui_new w = Ok v /\ mac_new w = Raise E_ValueError
  | F_none => mac_new w = Raise E_ValueError /\ eui_new w = Raise E_ValueError
  end.
Proof.
  unfold classify.
  destruct (hw_parse_total tab_eui48_formats tab_eui48_size w) as [[v Hv]|Hr]; fold (mac_new w) in *.
  - rewrite Hv. reflexivity.
  - rewrite Hr. destruct (hw_parse_total tab_eui64_formats tab_eui64_size w) as [[v Hv]|Hr2]; fold (eui_new w) in *.
    + rewrite Hv. split; reflexivity.
    + rewrite Hr2. split; reflexivity.
Qed.
