(* C20 — proofs about Model/Asa.v (ASA lookup tables, object-group network expansion, IPv4Obj cache). *)
From Coq Require Import NArith ZArith List Bool Lia.
Require Import CCP.Lib.PyStr CCP.Lib.Res CCP.Model.Asa.
Import ListNotations.
Open Scope Z_scope.

(* ================================================================== Python dict as association list *)
Lemma str_eqb_false_neq a b : str_eqb a b = false -> a <> b.
Proof. intros H E. subst. rewrite str_eqb_refl in H. discriminate. Qed.

Lemma dict_get_set {V} (d : list (str * V)) k v k' :
  dict_get (dict_set d k v) k' = if str_eqb k k' then Some v else dict_get d k'.
Proof.
  induction d as [|[k0 v0] r IH]; simpl.
  - reflexivity.
  - destruct (str_eqb k0 k) eqn:E0.
    + apply str_eqb_eq in E0. subst k0. simpl. destruct (str_eqb k k'); reflexivity.
    + simpl. destruct (str_eqb k0 k') eqn:E1.
      * apply str_eqb_eq in E1. subst k0. destruct (str_eqb k k') eqn:E2; [|reflexivity].
        apply str_eqb_eq in E2. subst. rewrite str_eqb_refl in E0. discriminate.
      * exact IH.
Qed.

(* a dict built by successive assignments d[key e] = val e returns the value of the LAST entry with that key *)
Lemma build_get {E V} (key : E -> str) (val : E -> V) es k :
  dict_get (fold_left (fun d e => dict_set d (key e) (val e)) es []) k
  = option_map val (find (fun e => str_eqb (key e) k) (rev es)).
Proof.
  induction es as [|e es IH] using rev_ind; [reflexivity|].
  rewrite fold_left_app, rev_app_distr. simpl. rewrite dict_get_set. destruct (str_eqb (key e) k); [reflexivity|exact IH].
Qed.

(* C20 tables_exact *)
Lemma names_table_spec c alias :
  dict_get (names_table c) alias = option_map fst (find (fun e => str_eqb (snd e) alias) (rev (c_names c))).
Proof. unfold names_table. apply (build_get (@snd str str) (@fst str str)). Qed.

Lemma group_table_spec c name :
  dict_get (group_table c) name = find (fun g => str_eqb (g_name g) name) (rev (c_groups c)).
Proof.
  unfold group_table. rewrite (build_get g_name (fun g => g)).
  destruct (find (fun g => str_eqb (g_name g) name) (rev (c_groups c))); reflexivity.
Qed.

Lemma group_table_name c name g : dict_get (group_table c) name = Some g -> g_name g = name /\ In g (c_groups c).
Proof.
  rewrite group_table_spec. intros H. apply find_some in H. destruct H as [H1 H2].
  apply str_eqb_eq in H2. split; [exact H2|]. apply in_rev. exact H1.
Qed.

Lemma acl_table_spec c name :
  dict_get (acl_table c) name =
  match map snd (filter (fun e => str_eqb (fst e) name) (c_acls c)) with [] => None | l => Some l end.
Proof.
  unfold acl_table. induction (c_acls c) as [|e es IH] using rev_ind; [reflexivity|].
  rewrite fold_left_app. simpl. rewrite dict_get_set. rewrite filter_app, map_app. simpl.
  set (d := fold_left (fun d0 e0 => dict_set d0 (fst e0) (dict_get_default d0 (fst e0) [] ++ [snd e0])) es []) in *.
  destruct (str_eqb (fst e) name) eqn:E.
  - apply str_eqb_eq in E. subst name. unfold dict_get_default. rewrite IH. simpl.
    destruct (map snd (filter (fun e0 => str_eqb (fst e0) (fst e)) es)) as [|x l]; reflexivity.
  - simpl. rewrite app_nil_r. exact IH.
Qed.

(* ================================================================== expansion *)
Section Expand.
  Variable names : list (str * str).
  Variable gt : list (str * group).

  (* the flattening of a group's members in config order, aliases resolved *)
  Inductive FlatM : group -> list member -> list str -> Prop :=
  | FM_nil g : FlatM g [] []
  | FM_host g h r l : FlatM g r l -> FlatM g (MHost h :: r) (resolve names h :: l)
  | FM_net32 g a r l : FlatM g r l -> FlatM g (MNet a host_mask :: r) (resolve names a :: l)
  | FM_net g a m r l : m <> host_mask -> FlatM g r l -> FlatM g (MNet a m :: r) ((resolve names a ++ slash :: m) :: l)
  | FM_group g x g' lx r l : x <> g_name g -> dict_get gt x = Some g' -> FlatM g' (g_members g') lx -> FlatM g r l ->
                             FlatM g (MGroup x :: r) (lx ++ l)
  | FM_descr g r l : FlatM g r l -> FlatM g (MDescr :: r) l.
  Definition Flat (g : group) (l : list str) : Prop := FlatM g (g_members g) l.

  (* one iteration of the loop of network_strings *)
  Definition body (f : nat) (g : group) (retval : list str) (m : member) : result (list str) :=
    match m with
    | MHost h => Ok (retval ++ [resolve names h])
    | MNet a mask => if str_eqb mask host_mask then Ok (retval ++ [resolve names a])
                     else Ok (retval ++ [resolve names a ++ slash :: mask])
    | MGroup x =>
        if str_eqb x (g_name g) then Raise E_ValueError
        else match dict_get gt x with
             | None => Raise E_ValueError
             | Some g' => bind (net_strings f names gt g') (fun l => Ok (retval ++ l))
             end
    | MDescr => Ok retval
    | MOther => Raise E_NotImplementedError
    end.
  Definition loop (f : nat) (g : group) (ms : list member) (acc : result (list str)) : result (list str) :=
    fold_left (fun acc m => bind acc (fun retval => body f g retval m)) ms acc.

  Lemma net_strings_S f g : net_strings (S f) names gt g = loop f g (g_members g) (Ok []).
  Proof. reflexivity. Qed.

  Lemma loop_raise f g ms e : loop f g ms (Raise e) = Raise e.
  Proof. induction ms as [|m r IH]; [reflexivity|]. simpl. exact IH. Qed.

  Lemma loop_cons f g m r acc : loop f g (m :: r) (Ok acc) = loop f g r (body f g acc m).
  Proof. reflexivity. Qed.

  (* soundness: whatever the model returns is the flattening *)
  Lemma loop_sound f g (IHf : forall g' l, net_strings f names gt g' = Ok l -> Flat g' l) :
    forall ms acc out, loop f g ms (Ok acc) = Ok out -> exists l, out = acc ++ l /\ FlatM g ms l.
  Proof.
    induction ms as [|m r IH]; intros acc out H.
    - simpl in H. inversion H; subst. exists []. rewrite app_nil_r. split; [reflexivity|constructor].
    - rewrite loop_cons in H. destruct m as [h|a mask|x| |]; simpl body in H.
      + apply IH in H. destruct H as (l & -> & F). exists (resolve names h :: l). rewrite <- app_assoc. split; [reflexivity|constructor; exact F].
      + destruct (str_eqb mask host_mask) eqn:E.
        * apply str_eqb_eq in E. subst mask. apply IH in H. destruct H as (l & -> & F).
          exists (resolve names a :: l). rewrite <- app_assoc. split; [reflexivity|constructor; exact F].
        * apply str_eqb_false_neq in E. apply IH in H. destruct H as (l & -> & F).
          exists ((resolve names a ++ slash :: mask) :: l). rewrite <- app_assoc. split; [reflexivity|constructor; assumption].
      + destruct (str_eqb x (g_name g)) eqn:E; [rewrite loop_raise in H; discriminate|].
        apply str_eqb_false_neq in E.
        destruct (dict_get gt x) as [g'|] eqn:D; [|rewrite loop_raise in H; discriminate].
        destruct (net_strings f names gt g') as [lx|e] eqn:N; simpl in H; [|rewrite loop_raise in H; discriminate].
        apply IH in H. destruct H as (l & -> & F). exists (lx ++ l). rewrite <- app_assoc. split; [reflexivity|].
        eapply FM_group; eauto. apply IHf. exact N.
      + apply IH in H. destruct H as (l & -> & F). exists l. split; [reflexivity|constructor; exact F].
      + rewrite loop_raise in H. discriminate.
  Qed.

  Lemma net_strings_sound f : forall g l, net_strings f names gt g = Ok l -> Flat g l.
  Proof.
    induction f as [|f IHf]; intros g l H; [discriminate|].
    rewrite net_strings_S in H. apply (loop_sound f g IHf) in H. destruct H as (l' & -> & F). exact F.
  Qed.

  (* the flattening is unique *)
  Lemma FlatM_det g ms l1 : FlatM g ms l1 -> forall l2, FlatM g ms l2 -> l1 = l2.
  Proof.
    intros F. induction F as [g|g h r l F IH|g a r l F IH|g a m r l Hm F IH|g x g' lx r l Hx D Fx IHx F IH|g r l F IH];
      intros l2 F2; inversion F2; subst; try congruence.
    - f_equal. apply IH. assumption.
    - f_equal. apply IH. assumption.
    - f_equal. apply IH. assumption.
    - match goal with H1 : dict_get gt x = Some ?g1, H2 : dict_get gt x = Some ?g2 |- _ =>
        assert (g1 = g2) by congruence; subst end.
      f_equal; [apply IHx|apply IH]; assumption.
    - apply IH. assumption.
  Qed.

  (* the result does not depend on the fuel *)
  Lemma net_strings_fuel_indep f1 f2 g l1 l2 :
    net_strings f1 names gt g = Ok l1 -> net_strings f2 names gt g = Ok l2 -> l1 = l2.
  Proof. intros H1 H2. apply net_strings_sound in H1. apply net_strings_sound in H2. eapply FlatM_det; eauto. Qed.

  (* members that make the expansion raise *)
  Lemma FlatM_no_other g ms l : FlatM g ms l -> ~ In MOther ms.
  Proof.
    intros F. induction F; intros K; try (destruct K as [K|K]; [discriminate|contradiction]); destruct K.
  Qed.
  Lemma FlatM_no_self g ms l : FlatM g ms l -> ~ In (MGroup (g_name g)) ms.
  Proof.
    intros F. induction F; intros K;
      try (destruct K as [K|K]; [try discriminate; inversion K; congruence|contradiction]); destruct K.
  Qed.
  Lemma FlatM_defined g ms l : FlatM g ms l -> forall y, In (MGroup y) ms -> dict_get gt y <> None.
  Proof.
    intros F. induction F; intros y K;
      try (destruct K as [K|K]; [try discriminate; inversion K; subst; congruence|eauto]); destruct K.
  Qed.
  Lemma FlatM_members g ms l : FlatM g ms l ->
    ~ In MOther ms /\ ~ In (MGroup (g_name g)) ms /\ forall x, In (MGroup x) ms -> dict_get gt x <> None.
  Proof. intros F. split; [eapply FlatM_no_other; eauto|]. split; [eapply FlatM_no_self; eauto|eapply FlatM_defined; eauto]. Qed.

  Lemma bad_member_raises fuel g :
    (In MOther (g_members g) \/ In (MGroup (g_name g)) (g_members g) \/
     exists x, In (MGroup x) (g_members g) /\ dict_get gt x = None) ->
    exists e, net_strings fuel names gt g = Raise e.
  Proof.
    intros H. destruct (net_strings fuel names gt g) as [l|e] eqn:N; [|eauto].
    exfalso. apply net_strings_sound in N. apply FlatM_members in N. destruct N as (N1 & N2 & N3).
    destruct H as [H|[H|(x & H & D)]]; [auto|auto|]. exact (N3 x H D).
  Qed.

  (* completeness: with a rank function for the group-object references, enough fuel gives the flattening *)
  Definition members_ok (g : group) : Prop :=
    ~ In MOther (g_members g) /\ forall x, In (MGroup x) (g_members g) -> dict_get gt x <> None.

  Section Rank.
    Variable rk : str -> nat.
    Hypothesis gt_names : forall x g', dict_get gt x = Some g' -> g_name g' = x.
    Hypothesis gt_rank : forall x g', dict_get gt x = Some g' -> forall y, In (MGroup y) (g_members g') -> (rk y < rk x)%nat.
    Hypothesis gt_ok : forall x g', dict_get gt x = Some g' -> members_ok g'.

    Lemma loop_complete f g (IHf : forall g', members_ok g' ->
                                   (forall y, In (MGroup y) (g_members g') -> (rk y < rk (g_name g'))%nat) ->
                                   (rk (g_name g') < f)%nat -> exists l, net_strings f names gt g' = Ok l) :
      (rk (g_name g) < S f)%nat ->
      forall ms acc, ~ In MOther ms -> (forall x, In (MGroup x) ms -> dict_get gt x <> None) ->
                     (forall y, In (MGroup y) ms -> (rk y < rk (g_name g))%nat) ->
                     exists out, loop f g ms (Ok acc) = Ok out.
    Proof.
      intros Hrk. induction ms as [|m r IH]; intros acc H1 H2 H3; [simpl; eauto|].
      rewrite loop_cons.
      assert (~ In MOther r) as H1' by (intros K; apply H1; right; exact K).
      assert (forall x, In (MGroup x) r -> dict_get gt x <> None) as H2' by (intros x K; apply H2; right; exact K).
      assert (forall y, In (MGroup y) r -> (rk y < rk (g_name g))%nat) as H3' by (intros y K; apply H3; right; exact K).
      destruct m as [h|a mask|x| |]; simpl body.
      - apply IH; assumption.
      - destruct (str_eqb mask host_mask); apply IH; assumption.
      - assert (rk x < rk (g_name g))%nat as Rx by (apply H3; left; reflexivity).
        destruct (str_eqb x (g_name g)) eqn:E; [apply str_eqb_eq in E; subst x; lia|].
        destruct (dict_get gt x) as [g'|] eqn:D; [|exfalso; apply (H2 x); [left; reflexivity|exact D]].
        pose proof (gt_names x g' D) as Nm.
        destruct (IHf g') as (lx & Lx).
        + eapply gt_ok; eauto.
        + intros y Hy. rewrite Nm. eapply gt_rank; eauto.
        + rewrite Nm. lia.
        + rewrite Lx. simpl. apply IH; assumption.
      - apply IH; assumption.
      - exfalso. apply H1. left. reflexivity.
    Qed.

    Lemma net_strings_complete : forall fuel g, members_ok g ->
      (forall y, In (MGroup y) (g_members g) -> (rk y < rk (g_name g))%nat) ->
      (rk (g_name g) < fuel)%nat -> exists l, net_strings fuel names gt g = Ok l.
    Proof.
      induction fuel as [|f IHf]; intros g [M1 M2] Hr Hf; [lia|].
      rewrite net_strings_S. apply (loop_complete f g (IHf)); assumption.
    Qed.

    (* C20 expand_flatten *)
    Lemma expand_flatten fuel g : members_ok g ->
      (forall y, In (MGroup y) (g_members g) -> (rk y < rk (g_name g))%nat) ->
      (rk (g_name g) < fuel)%nat ->
      exists l, net_strings fuel names gt g = Ok l /\ Flat g l /\ forall l', Flat g l' -> l' = l.
    Proof.
      intros M Hr Hf. destruct (net_strings_complete fuel g M Hr Hf) as (l & L).
      exists l. split; [exact L|]. pose proof (net_strings_sound _ _ _ L) as F. split; [exact F|].
      intros l' F'. eapply FlatM_det; eauto.
    Qed.
  End Rank.
End Expand.

(* the table built from a configuration satisfies the naming hypothesis *)
Lemma group_table_names c x g' : dict_get (group_table c) x = Some g' -> g_name g' = x.
Proof. intros H. apply group_table_name in H. tauto. Qed.

(* ================================================================== networks: the IPv4Obj cache is transparent *)
Section Cache.
  Variable obj : Type.
  Variable ipv4obj : str -> result obj.

  Fixpoint map_ipv4 (strs : list str) : result (list obj) :=
    match strs with
    | [] => Ok []
    | s :: r => bind (ipv4obj s) (fun o => bind (map_ipv4 r) (fun l => Ok (o :: l)))
    end.

  Definition cache_ok (cache : list (str * obj)) : Prop := forall s o, dict_get cache s = Some o -> ipv4obj s = Ok o.

  Lemma networks_loop_spec strs : forall cache, cache_ok cache ->
    fst (networks_loop obj ipv4obj cache strs) = map_ipv4 strs /\ cache_ok (snd (networks_loop obj ipv4obj cache strs)).
  Proof.
    induction strs as [|s r IH]; intros cache C; [split; [reflexivity|exact C]|].
    simpl. destruct (dict_get cache s) as [o|] eqn:D.
    - rewrite (C s o D). destruct (IH cache C) as [I1 I2].
      destruct (networks_loop obj ipv4obj cache r) as [res cache']. simpl in *. rewrite I1. split; [reflexivity|exact I2].
    - destruct (ipv4obj s) as [o|e] eqn:O; [|split; [reflexivity|exact C]].
      assert (cache_ok (dict_set cache s o)) as C'.
      { intros s' o' H. rewrite dict_get_set in H. destruct (str_eqb s s') eqn:E.
        - apply str_eqb_eq in E. subst s'. inversion H; subst. exact O.
        - apply C. exact H. }
      destruct (IH _ C') as [I1 I2].
      destruct (networks_loop obj ipv4obj (dict_set cache s o) r) as [res cache']. simpl in *. rewrite I1.
      split; [reflexivity|exact I2].
  Qed.

  Lemma cache_ok_empty : cache_ok [].
  Proof. intros s o H. discriminate. Qed.
End Cache.

(* non-vacuity: the second unit test of the repository (group-object recursion, aliases, /32 mask) *)
Definition ex_s (l : list N) : str := l.
Definition ex_cfg : config :=
  Build_config
    [([49;46;49;46;50;46;50;48]%N, [108;49]%N); ([49;46;50;46;50;46;50;48]%N, [108;50]%N)]       (* name 1.1.2.20 l1 ; name 1.2.2.20 l2 *)
    [([82]%N, 4, [MHost [108;50]%N]);                                                              (* object-group network R: host l2 *)
     ([65]%N, 6, [MHost [108;49]%N; MNet [49;46;49;46;50;46;50]%N host_mask; MNet [49;46;49;46;50;46;48]%N [50;53;53;46;48;46;48;46;48]%N; MGroup [82]%N; MDescr])]
    [].
Example ex_expand :
  network_strings ex_cfg ([65]%N, 6, [MHost [108;49]%N; MNet [49;46;49;46;50;46;50]%N host_mask; MNet [49;46;49;46;50;46;48]%N [50;53;53;46;48;46;48;46;48]%N; MGroup [82]%N; MDescr])
  = Ok [[49;46;49;46;50;46;50;48]%N; [49;46;49;46;50;46;50]%N; [49;46;49;46;50;46;48;47;50;53;53;46;48;46;48;46;48]%N; [49;46;50;46;50;46;50;48]%N].
Proof. vm_compute. reflexivity. Qed.
Example ex_cycle : exists e, network_strings (Build_config [] [([65]%N, 0, [MGroup [66]%N]); ([66]%N, 2, [MGroup [65]%N])] []) ([65]%N, 0, [MGroup [66]%N]) = Raise e.
Proof. eexists. vm_compute. reflexivity. Qed.
