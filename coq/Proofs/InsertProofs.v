(* When does inserting a line leave every existing parent link alone?  (C06: append_to_family / insert;
   explains the findings F35 and F36.)  Indentation links only (Model/Links.v); pre ++ suf becomes pre ++ s :: suf. *)
From Coq Require Import List Arith Bool Lia.
Require Import CCP.Lib.PyStr CCP.Model.Links CCP.Proofs.LinksProofs.
Import ListNotations.

Definition shift (k : nat) (p : option nat) : option nat :=
  match p with Some q => Some (if q <? k then q else S q) | None => None end.

Lemma spec_from_app : forall a b seen, spec_from seen (a ++ b) = spec_from seen a ++ spec_from (rev a ++ seen) b.
Proof.
  induction a as [|l a IH]; intros b seen; cbn [app spec_from rev]; [reflexivity|].
  rewrite IH. rewrite <- app_assoc. reflexivity.
Qed.

Lemma nearest_app_some a x k j : nearest a k = Some j -> nearest (a ++ x) k = Some (j + length x).
Proof.
  induction a as [|l a IH]; cbn [nearest app]; [discriminate|].
  destruct (cfg l && (ind l <? k)); [intros H; inversion H; subst; rewrite app_length; reflexivity|exact IH].
Qed.
Lemma nearest_app_none a x k : nearest a k = None -> nearest (a ++ x) k = nearest x k.
Proof.
  induction a as [|l a IH]; cbn [nearest app]; [reflexivity|].
  destruct (cfg l && (ind l <? k)); [discriminate|exact IH].
Qed.
Lemma nearest_bound a k j : nearest a k = Some j -> j < length a.
Proof. apply nearest_lt. Qed.

(* (A) every later line that the new line could capture is already shielded by a configuration line
       between the insertion point and itself *)
Fixpoint shielded (s : linfo) (done_rev : list linfo) (r : list linfo) : bool :=
  match r with
  | [] => true
  | l :: r' =>
      (if (0 <? ind l) && cfg s && (ind s <? ind l)
       then match nearest done_rev (ind l) with Some _ => true | None => false end
       else true) && shielded s (l :: done_rev) r'
  end.

(* (B) the comment exception of the line directly below the insertion point does not flip *)
Definition first_ok (s : linfo) (pre_rev : list linfo) (suf : list linfo) : bool :=
  match suf with
  | [] => true
  | l :: _ => if cmt l && (0 <? ind l) then Bool.eqb (ind l <? ind s) (ind l <? hd_ind pre_rev) else true
  end.

Lemma suffix_parents s pre_rev : forall r done_rev,
  shielded s done_rev r = true ->
  (done_rev = [] -> first_ok s pre_rev r = true) ->
  spec_from (done_rev ++ s :: pre_rev) r = map (shift (length pre_rev)) (spec_from (done_rev ++ pre_rev) r).
Proof.
  induction r as [|l r IH]; intros done_rev Hs Hf; cbn [spec_from map]; [reflexivity|].
  cbn [shielded] in Hs. apply andb_true_iff in Hs. destruct Hs as [Hl Hr].
  f_equal.
  - (* the parent of l *)
    unfold spec_parent. destruct (ind l =? 0) eqn:E0; [reflexivity|]. apply Nat.eqb_neq in E0.
    assert (Hhd : (cmt l && (ind l <? hd_ind (done_rev ++ s :: pre_rev))) = (cmt l && (ind l <? hd_ind (done_rev ++ pre_rev)))).
    { destruct done_rev as [|d dr]; [|reflexivity]. cbn [app hd_ind].
      specialize (Hf eq_refl). cbn [first_ok] in Hf. destruct (cmt l); [|reflexivity]. cbn [andb] in *.
      replace (0 <? ind l) with true in Hf by (symmetry; apply Nat.ltb_lt; lia).
      apply eqb_prop in Hf. exact Hf. }
    rewrite Hhd. destruct (cmt l && (ind l <? hd_ind (done_rev ++ pre_rev))); [reflexivity|].
    destruct (nearest done_rev (ind l)) as [j|] eqn:En.
    + rewrite (nearest_app_some done_rev (s :: pre_rev) (ind l) j En), (nearest_app_some done_rev pre_rev (ind l) j En).
      cbn [shift length]. replace (j + length pre_rev <? length pre_rev) with false by (symmetry; apply Nat.ltb_ge; lia).
      f_equal. lia.
    + rewrite (nearest_app_none done_rev (s :: pre_rev) (ind l) En), (nearest_app_none done_rev pre_rev (ind l) En).
      cbn [nearest].
      replace (0 <? ind l) with true in Hl by (symmetry; apply Nat.ltb_lt; lia). cbn [andb] in Hl.
      destruct (cfg s && (ind s <? ind l)) eqn:Ec; [discriminate|].
      destruct (nearest pre_rev (ind l)) as [p|] eqn:Ep; [|reflexivity].
      cbn [shift]. pose proof (nearest_bound _ _ _ Ep) as Hb. replace (p <? length pre_rev) with true by (symmetry; apply Nat.ltb_lt; lia).
      reflexivity.
  - change (l :: done_rev ++ s :: pre_rev) with ((l :: done_rev) ++ s :: pre_rev).
    change (l :: done_rev ++ pre_rev) with ((l :: done_rev) ++ pre_rev).
    apply IH; [exact Hr|discriminate].
Qed.

(* inserting s between pre and suf: the lines before keep their parents, the lines after keep theirs
   (indices shifted past the new line), provided (A) and (B) *)
Theorem insertion_preserves_parents pre s suf :
  shielded s [] suf = true -> first_ok s (rev pre) suf = true ->
  spec_parents (pre ++ s :: suf) =
  spec_parents pre ++ [spec_parent (rev pre) s] ++ map (shift (length pre)) (spec_from (rev pre) suf).
Proof.
  intros HA HB. unfold spec_parents. rewrite spec_from_app. rewrite app_nil_r. cbn [spec_from app]. do 2 f_equal.
  pose proof (suffix_parents s (rev pre) suf [] HA (fun _ => HB)) as H. cbn [app] in H. rewrite rev_length in H. exact H.
Qed.

(* and before the insertion the same lines had spec_parents pre ++ spec_from (rev pre) suf *)
Theorem parents_before_insertion pre suf : spec_parents (pre ++ suf) = spec_parents pre ++ spec_from (rev pre) suf.
Proof. unfold spec_parents. rewrite spec_from_app, app_nil_r. reflexivity. Qed.

Lemma firstn_exact {A} (a b : list A) : firstn (length a) (a ++ b) = a.
Proof. induction a as [|x a IH]; cbn; [reflexivity|]. now rewrite IH. Qed.
Lemma skipn_exact {A} (a b : list A) : skipn (length a) (a ++ b) = b.
Proof. induction a as [|x a IH]; cbn; [reflexivity|exact IH]. Qed.

Lemma spec_from_length : forall ls seen, length (spec_from seen ls) = length ls.
Proof. induction ls as [|l r IH]; intros seen; cbn; [reflexivity|]. now rewrite IH. Qed.

(* the same for the implementation's pass, by C02 *)
Corollary bootstrap_insertion pre s suf :
  shielded s [] suf = true -> first_ok s (rev pre) suf = true ->
  bootstrap_parents (pre ++ s :: suf) =
  firstn (length pre) (bootstrap_parents (pre ++ suf)) ++ [spec_parent (rev pre) s] ++
  map (shift (length pre)) (skipn (length pre) (bootstrap_parents (pre ++ suf))).
Proof.
  intros HA HB. rewrite !links_parent, (insertion_preserves_parents pre s suf HA HB), parents_before_insertion.
  pose proof (spec_from_length pre []) as Hl. fold (spec_parents pre) in Hl.
  rewrite <- Hl. rewrite firstn_exact, skipn_exact. reflexivity.
Qed.

(* F36: ['a','','  c'] + ' new' after the blank line: line '  c' is captured (not shielded);
   F35: ['a','  b',' !x','c'] + ' s' before the comment: the comment exception flips;
   and a harmless case: ['a',' b','c'] + ' new' after ' b' *)
Example ex_f36 : shielded (LI 1 true false) [] [LI 2 true false] = false.
Proof. reflexivity. Qed.
Example ex_f35 : first_ok (LI 1 true false) (rev [LI 0 true false; LI 2 true false]) [LI 1 false true; LI 0 true false] = false.
Proof. reflexivity. Qed.
Example ex_ok : shielded (LI 1 true false) [] [LI 0 true false] = true /\ first_ok (LI 1 true false) (rev [LI 0 true false; LI 1 true false]) [LI 0 true false] = true
  /\ bootstrap_parents ([LI 0 true false; LI 1 true false] ++ LI 1 true false :: [LI 0 true false]) = [None; Some 0; Some 0; None].
Proof. repeat split; vm_compute; reflexivity. Qed.

(* A sufficient condition that covers append_to_family's normal case (insert directly after the family): the line
   directly below the insertion point is an ordinary configuration line that is shallower than the new line -- or
   there is no line below.  Then (A) and (B) hold, so no existing parent link changes. *)
Lemma nearest_in done l k : In l done -> cfg l = true -> ind l < k -> nearest done k <> None.
Proof.
  induction done as [|d r IH]; intros Hin Hc Hk; [contradiction|]. cbn [nearest].
  destruct (cfg d && (ind d <? k)) eqn:E; [discriminate|].
  destruct Hin as [->|Hin]; [|apply IH; assumption].
  rewrite Hc in E. cbn [andb] in E. apply Nat.ltb_ge in E. lia.
Qed.

Lemma shielded_by s l0 : cfg l0 = true -> ind l0 < ind s ->
  forall r done_rev, In l0 done_rev -> shielded s done_rev r = true.
Proof.
  intros Hc Hi. induction r as [|m r IH]; intros done_rev Hin; cbn [shielded]; [reflexivity|].
  apply andb_true_iff. split; [|apply IH; right; exact Hin].
  destruct ((0 <? ind m) && cfg s && (ind s <? ind m)) eqn:E; [|reflexivity].
  apply andb_true_iff in E. destruct E as [_ E]. apply Nat.ltb_lt in E.
  destruct (nearest done_rev (ind m)) eqn:En; [reflexivity|].
  exfalso. apply (nearest_in done_rev l0 (ind m) Hin Hc); [lia|exact En].
Qed.

Theorem insert_before_shallower_command pre s suf :
  match suf with [] => True | l :: _ => cfg l = true /\ cmt l = false /\ ind l < ind s end ->
  shielded s [] suf = true /\ first_ok s (rev pre) suf = true.
Proof.
  destruct suf as [|l r]; [intros _; split; reflexivity|]. intros (Hc & Hm & Hi). split.
  - cbn [shielded]. apply andb_true_iff. split.
    + replace (ind s <? ind l) with false by (symmetry; apply Nat.ltb_ge; lia). rewrite andb_false_r. reflexivity.
    + apply (shielded_by s l Hc Hi). left. reflexivity.
  - cbn [first_ok]. rewrite Hm. reflexivity.
Qed.

Corollary insertion_after_family_preserves_parents pre s suf :
  match suf with [] => True | l :: _ => cfg l = true /\ cmt l = false /\ ind l < ind s end ->
  spec_parents (pre ++ s :: suf) =
  spec_parents pre ++ [spec_parent (rev pre) s] ++ map (shift (length pre)) (spec_from (rev pre) suf).
Proof. intros H. destruct (insert_before_shallower_command pre s suf H) as [A B]. apply insertion_preserves_parents; assumption. Qed.
