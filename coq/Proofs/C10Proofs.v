(* C10 proofs (see Props/C10.v for the statements). *)
From Coq Require Import NArith ZArith List Bool Arith Lia.
Require Import CCP.Lib.PyStr CCP.Model.Diff.
Import ListNotations.

Lemma rollback_is_mirror old new : get_rollback old new = get_diff new old.
Proof. reflexivity. Qed.
