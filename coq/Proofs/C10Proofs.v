(* C10 proofs (see Props/C10.v for the statements). *)
From Coq Require Import NArith ZArith List Bool Arith Lia.
Require Import CCP.Lib.PyStr CCP.Model.Diff.
Import ListNotations.

(* ------------------------------------------------------------------ basic facts *)
Lemma str_eqb_neq a b : str_eqb a b = false <-> a <> b.
Proof.
  split.
  - intros H E. apply str_eqb_eq in E. congruence.
  - intros H. destruct (str_eqb a b) eqn:E; [|reflexivity]. apply str_eqb_eq in E. contradiction.
Qed.
Lemma str_eqb_sym a b : str_eqb a b = str_eqb b a.
Proof.
  destruct (str_eqb a b) eqn:E1, (str_eqb b a) eqn:E2; try reflexivity.
  - apply str_eqb_eq in E1. subst. rewrite str_eqb_refl in E2. discriminate.
  - apply str_eqb_eq in E2. subst. rewrite str_eqb_refl in E1. discriminate.
Qed.

Lemma path_eqb_eq a b : path_eqb a b = true <-> a = b.
Proof.
  revert b; induction a as [|x r IH]; intros [|y s]; simpl; split; intros H; try discriminate; auto.
  - apply andb_true_iff in H. destruct H as [H1 H2]. apply str_eqb_eq in H1. apply IH in H2. subst. reflexivity.
  - inversion H; subst. rewrite str_eqb_refl. simpl. apply IH. reflexivity.
Qed.
Lemma path_eqb_refl a : path_eqb a a = true.
Proof. apply path_eqb_eq. reflexivity. Qed.

Lemma mem_path_In p s : mem_path p s = true <-> In p s.
Proof.
  unfold mem_path. rewrite existsb_exists. split.
  - intros [q [Hq E]]. apply path_eqb_eq in E. subst. exact Hq.
  - intros H. exists p. split; [exact H|apply path_eqb_refl].
Qed.

Lemma has_text_In t f : has_text t f = true <-> exists n, In n f /\ ttext n = t.
Proof.
  unfold has_text. rewrite existsb_exists. split.
  - intros [n [Hn E]]. apply str_eqb_eq in E. eauto.
  - intros [n [Hn E]]. exists n. split; [exact Hn|]. apply str_eqb_eq. exact E.
Qed.
Lemma has_text_cons t n f : has_text t (n :: f) = str_eqb (ttext n) t || has_text t f.
Proof. reflexivity. Qed.
Lemma has_text_app t f g : has_text t (f ++ g) = has_text t f || has_text t g.
Proof. unfold has_text. apply existsb_app. Qed.

Lemma find_child_some t f n : find_child t f = Some n -> In n f /\ ttext n = t.
Proof.
  induction f as [|m r IH]; simpl; [discriminate|].
  destruct (str_eqb (ttext m) t) eqn:E.
  - intros H. inversion H; subst. split; [left; reflexivity|]. apply str_eqb_eq. exact E.
  - intros H. destruct (IH H) as [H1 H2]. split; [right; exact H1|exact H2].
Qed.
Lemma find_child_none t f : find_child t f = None <-> has_text t f = false.
Proof.
  induction f as [|m r IH]; [simpl; tauto|].
  rewrite has_text_cons. cbn [find_child]. destruct (str_eqb (ttext m) t); simpl; [split; discriminate|exact IH].
Qed.
Lemma find_child_has t f : has_text t f = true -> exists n, find_child t f = Some n.
Proof.
  intros H. destruct (find_child t f) eqn:E; [eauto|]. apply find_child_none in E. congruence.
Qed.

(* ------------------------------------------------------------------ well-formedness predicates *)
(* sibling texts are pairwise different, at every level (what the loader guarantees) *)
Inductive uniq : forest -> Prop :=
| U_nil : uniq []
| U_cons t k f : has_text t f = false -> uniq k -> uniq f -> uniq (Node t k :: f).
(* every text of the forest satisfies P *)
Inductive allt (P : str -> Prop) : forest -> Prop :=
| A_nil : allt P []
| A_cons t k f : P t -> allt P k -> allt P f -> allt P (Node t k :: f).

Definition nonneg (t : str) : Prop := is_neg t = false.
Definition nolead (t : str) : Prop := match t with c :: _ => is_sp c = false | [] => True end.

Lemma uniq_find t f n : uniq f -> find_child t f = Some n -> uniq (tkids n).
Proof.
  intros U. induction U as [|t0 k f Hn Uk _ Uf IH]; simpl; [discriminate|].
  destruct (str_eqb t0 t); intros H; [inversion H; subst; exact Uk|apply IH; exact H].
Qed.
Lemma allt_find P t f n : allt P f -> find_child t f = Some n -> allt P (tkids n) /\ P (ttext n).
Proof.
  intros U. induction U as [|t0 k f Hp Ak _ Af IH]; simpl; [discriminate|].
  destruct (str_eqb t0 t); intros H; [inversion H; subst; simpl; split; assumption|apply IH; exact H].
Qed.
Lemma allt_In P f n : allt P f -> In n f -> P (ttext n) /\ allt P (tkids n).
Proof.
  intros A. induction A as [|t k f Hp Ak _ Af IH]; simpl; [tauto|].
  intros [E|H]; [subst; simpl; split; assumption|apply IH; exact H].
Qed.
Lemma allt_app P f g : allt P f -> allt P g -> allt P (f ++ g).
Proof. intros A B. induction A; simpl; [exact B|constructor; assumption]. Qed.
Lemma allt_app_inv P f g : allt P (f ++ g) -> allt P f /\ allt P g.
Proof.
  induction f as [|n f IH]; simpl; intros H; [split; [constructor|exact H]|].
  inversion H; subst. destruct (IH H4) as [A B]. split; [constructor; assumption|exact B].
Qed.
Lemma uniq_find_unique f n t : uniq f -> In n f -> ttext n = t -> find_child t f = Some n.
Proof.
  intros U. induction U as [|t0 k f Hn Uk _ Uf IH]; simpl; [tauto|].
  intros [E|H] Et.
  - subst n. simpl in Et. subst t0. rewrite str_eqb_refl. reflexivity.
  - destruct (str_eqb t0 t) eqn:E.
    + apply str_eqb_eq in E. subst t0. exfalso.
      assert (has_text t f = true) by (apply has_text_In; eauto). congruence.
    + apply IH; assumption.
Qed.

(* ------------------------------------------------------------------ a tree induction principle *)
Fixpoint tree_ind2 (P : tree -> Prop)
  (H : forall t k, Forall P k -> P (Node t k)) (n : tree) {struct n} : P n :=
  match n with
  | Node t k => H t k ((fix go (l : forest) : Forall P l :=
                          match l with
                          | [] => Forall_nil P
                          | x :: r => Forall_cons x (tree_ind2 P H x) (go r)
                          end) k)
  end.
Lemma forest_ind2 (Q : forest -> Prop) :
  Q [] -> (forall t k f, Q k -> Q f -> Q (Node t k :: f)) -> forall f, Q f.
Proof.
  intros H0 Hs.
  assert (HT : forall n f, Q f -> Q (n :: f)).
  { intros n. induction n as [t k Hk] using tree_ind2. intros f Qf. apply Hs; [|exact Qf].
    induction Hk as [|x r Hx _ IH]; [exact H0|]. apply Hx. exact IH. }
  induction f as [|n f IH]; [exact H0|]. apply HT. exact IH.
Qed.

(* ------------------------------------------------------------------ paths and membership *)
Lemma paths_node_eq t k : paths_node (Node t k) = [t] :: map (cons t) (paths k).
Proof. reflexivity. Qed.
Lemma paths_cons n f : paths (n :: f) = paths_node n ++ paths f.
Proof. reflexivity. Qed.
Lemma paths_app f g : paths (f ++ g) = paths f ++ paths g.
Proof. unfold paths. apply flat_map_app. Qed.

Lemma in_paths p f :
  In p (paths f) <-> exists n, In n f /\ (p = [ttext n] \/ exists q, p = ttext n :: q /\ In q (paths (tkids n))).
Proof.
  unfold paths at 1. rewrite in_flat_map. split.
  - intros [n [Hn Hp]]. exists n. split; [exact Hn|]. destruct n as [t k]. rewrite paths_node_eq in Hp.
    destruct Hp as [E|Hp]; [left; subst; reflexivity|]. right. apply in_map_iff in Hp.
    destruct Hp as [q [E Hq]]. exists q. subst. split; [reflexivity|exact Hq].
  - intros [n [Hn Hp]]. exists n. split; [exact Hn|]. destruct n as [t k]. rewrite paths_node_eq. simpl in Hp.
    destruct Hp as [E|[q [E Hq]]]; [left; subst; reflexivity|]. right. subst. apply in_map. exact Hq.
Qed.
Lemma paths_nonempty p f : In p (paths f) -> p <> [].
Proof. intros H. apply in_paths in H. destruct H as [n [_ [E|[q [E _]]]]]; subst; discriminate. Qed.

(* membership of a path, by recursion on the path *)
Fixpoint memt (f : forest) (p : path) : bool :=
  match p with
  | [] => false
  | x :: r => match r with
              | [] => has_text x f
              | _ => match find_child x f with Some n => memt (tkids n) r | None => false end
              end
  end.

Lemma paths_memt p : forall f, uniq f -> (In p (paths f) <-> memt f p = true).
Proof.
  induction p as [|x r IH]; intros f U.
  - simpl. split; [intros H; apply paths_nonempty in H; congruence|discriminate].
  - rewrite in_paths. destruct r as [|y r'].
    + cbn [memt]. rewrite has_text_In. split.
      * intros [n [Hn [E|[q [E Hq]]]]]; inversion E; subst; [eauto|]. apply paths_nonempty in Hq. congruence.
      * intros [n [Hn E]]. exists n. split; [exact Hn|]. left. subst. reflexivity.
    + cbn [memt]. split.
      * intros [n [Hn [E|[q [E Hq]]]]]; inversion E; subst.
        rewrite (uniq_find_unique f n (ttext n) U Hn eq_refl).
        apply IH; [|exact Hq]. eapply uniq_find; [exact U|]. apply uniq_find_unique; auto.
      * destruct (find_child x f) as [n|] eqn:E; [|discriminate]. intros H.
        destruct (find_child_some _ _ _ E) as [Hn Et]. exists n. split; [exact Hn|]. right.
        exists (y :: r'). subst x. split; [reflexivity|]. apply IH; [|exact H]. eapply uniq_find; eauto.
Qed.

(* ------------------------------------------------------------------ effect of a command list on one path *)
Definition eff (c p : path) (b : bool) : bool :=
  match removal_target c with
  | Some tgt => b && negb (is_prefix tgt p)
  | None => b || path_eqb c p
  end.
Definition sv (cmds : list path) (p : path) (v : bool) : bool := fold_left (fun b c => eff c p b) cmds v.

Lemma sv_app a b p v : sv (a ++ b) p v = sv b p (sv a p v).
Proof. unfold sv. apply fold_left_app. Qed.
Lemma sv_nil p v : sv [] p v = v.
Proof. reflexivity. Qed.
Lemma sv_cons c a p v : sv (c :: a) p v = sv a p (eff c p v).
Proof. reflexivity. Qed.

Lemma apply_sv cmds : forall s p, In p (apply_cmds cmds s) <-> sv cmds p (mem_path p s) = true.
Proof.
  induction cmds as [|c r IH]; intros s p.
  - change (In p s <-> mem_path p s = true). symmetry. apply mem_path_In.
  - unfold apply_cmds. simpl fold_left. fold (apply_cmds r (apply1 s c)). rewrite IH, sv_cons.
    assert (E : mem_path p (apply1 s c) = eff c p (mem_path p s)); [|rewrite E; tauto].
    unfold apply1, eff. destruct (removal_target c) as [tgt|].
    + apply eq_true_iff_eq. rewrite mem_path_In, filter_In, andb_true_iff, mem_path_In. tauto.
    + apply eq_true_iff_eq. rewrite mem_path_In, in_app_iff, orb_true_iff, mem_path_In, path_eqb_eq.
      simpl. intuition congruence.
Qed.

(* commands that are all additions *)
Lemma sv_adds cmds p : (forall c, In c cmds -> removal_target c = None) ->
  forall v, sv cmds p v = v || mem_path p cmds.
Proof.
  induction cmds as [|c r IH]; intros H v.
  - rewrite sv_nil. simpl. rewrite orb_false_r. reflexivity.
  - rewrite sv_cons, IH by (intros c' Hc'; apply H; right; exact Hc').
    unfold eff. rewrite (H c (or_introl eq_refl)). simpl. rewrite orb_assoc. f_equal. f_equal.
    destruct (path_eqb c p) eqn:E1, (path_eqb p c) eqn:E2; try reflexivity.
    + apply path_eqb_eq in E1. subst. rewrite path_eqb_refl in E2. discriminate.
    + apply path_eqb_eq in E2. subst. rewrite path_eqb_refl in E1. discriminate.
Qed.

(* ------------------------------------------------------------------ removal_target *)
Lemma is_neg_prefix t : is_neg (neg_prefix ++ t) = true.
Proof. reflexivity. Qed.
Lemma swap_neg_nonneg t : nonneg t -> swap_neg t = neg_prefix ++ t.
Proof. unfold nonneg, swap_neg. intros ->. reflexivity. Qed.

Lemma rt_single l : removal_target [l] = if is_neg l then Some [skipn 3 l] else None.
Proof. reflexivity. Qed.
Lemma rt_cons x c : c <> [] -> removal_target (x :: c) = option_map (cons x) (removal_target c).
Proof.
  intros Hc. unfold removal_target. simpl rev.
  destruct (rev c) as [|l pre] eqn:E.
  - exfalso. apply Hc. rewrite <- (rev_involutive c), E. reflexivity.
  - simpl. destruct (is_neg l); [|reflexivity]. simpl. rewrite rev_app_distr. reflexivity.
Qed.
Lemma rt_nonempty c tgt : removal_target c = Some tgt -> tgt <> [].
Proof.
  unfold removal_target. destruct (rev c) as [|l pre]; [discriminate|].
  destruct (is_neg l); [|discriminate]. intros H. inversion H. destruct (rev pre); discriminate.
Qed.
Lemma rt_nonneg c : Forall nonneg c -> removal_target c = None.
Proof.
  intros H. unfold removal_target. destruct (rev c) as [|l pre] eqn:E; [reflexivity|].
  assert (Hl : In l c) by (apply in_rev; rewrite E; left; reflexivity).
  rewrite Forall_forall in H. rewrite (H l Hl). reflexivity.
Qed.

Lemma eff_strip x c rest b : c <> [] -> eff (x :: c) (x :: rest) b = eff c rest b.
Proof.
  intros Hc. unfold eff. rewrite (rt_cons x c Hc). destruct (removal_target c) as [tgt|]; simpl.
  - rewrite str_eqb_refl. reflexivity.
  - rewrite str_eqb_refl. reflexivity.
Qed.
Lemma eff_single x c b : c <> [] -> eff (x :: c) [x] b = b.
Proof.
  intros Hc. unfold eff. rewrite (rt_cons x c Hc). destruct (removal_target c) as [tgt|] eqn:E; simpl.
  - rewrite str_eqb_refl. apply rt_nonempty in E. destruct tgt; [congruence|]. simpl. apply andb_true_r.
  - rewrite str_eqb_refl. destruct c; [congruence|]. simpl. apply orb_false_r.
Qed.
Lemma eff_other t c' x rest b : str_eqb t x = false -> (c' = [] -> nonneg t) -> eff (t :: c') (x :: rest) b = b.
Proof.
  intros Ht Hn. unfold eff. destruct c' as [|y c''].
  - rewrite rt_single. rewrite (Hn eq_refl). simpl. rewrite Ht. simpl. apply orb_false_r.
  - rewrite rt_cons by discriminate. destruct (removal_target (y :: c'')) as [tgt|]; simpl; rewrite Ht; simpl.
    + apply andb_true_r.
    + apply orb_false_r.
Qed.

Lemma sv_map_strip x C rest : (forall c, In c C -> c <> []) ->
  forall v, sv (map (cons x) C) (x :: rest) v = sv C rest v.
Proof.
  induction C as [|c r IH]; intros H v; [reflexivity|].
  simpl map. rewrite !sv_cons, eff_strip by (apply H; left; reflexivity).
  apply IH. intros c' Hc'. apply H. right. exact Hc'.
Qed.
Lemma sv_map_single x C : (forall c, In c C -> c <> []) -> forall v, sv (map (cons x) C) [x] v = v.
Proof.
  induction C as [|c r IH]; intros H v; [reflexivity|].
  simpl map. rewrite sv_cons, eff_single by (apply H; left; reflexivity).
  apply IH. intros c' Hc'. apply H. right. exact Hc'.
Qed.
Definition other_head (x : str) (c : path) : Prop :=
  exists t c', c = t :: c' /\ str_eqb t x = false /\ (c' = [] -> nonneg t).
Lemma sv_other x rest C : (forall c, In c C -> other_head x c) -> forall v, sv C (x :: rest) v = v.
Proof.
  induction C as [|c r IH]; intros H v; [reflexivity|].
  rewrite sv_cons. destruct (H c (or_introl eq_refl)) as [t [c' [E [Ht Hn]]]]. subst c.
  rewrite eff_other by assumption. apply IH. intros c0 Hc0. apply H. right. exact Hc0.
Qed.

(* every path of a forest whose texts are all un-negated is an addition *)
Lemma allt_paths P f : allt P f -> forall p, In p (paths f) -> Forall P p.
Proof.
  intros A. induction A as [|t k f Hp Ak IHk Af IHf]; intros p Hp'; [contradiction|].
  rewrite paths_cons, in_app_iff, paths_node_eq in Hp'. destruct Hp' as [[E|Hm]|Hf].
  - subst. constructor; [exact Hp|constructor].
  - apply in_map_iff in Hm. destruct Hm as [q [E Hq]]. subst. constructor; [exact Hp|]. apply IHk. exact Hq.
  - apply IHf. exact Hf.
Qed.
Lemma nonneg_paths_adds f : allt nonneg f -> forall c, In c (paths f) -> removal_target c = None.
Proof. intros A c Hc. apply rt_nonneg. eapply allt_paths; eauto. Qed.
