(* C10 proofs (see Props/C10.v for the statements). *)
From Coq Require Import NArith ZArith List Bool Arith Lia.
Require Import CCP.Lib.PyStr CCP.Model.Diff.
Import ListNotations.

(* ------------------------------------------------------------------ basic facts *)
Lemma str_eqb_neq a b : str_eqb a b = false <-> a <> b.
Proof.
  split.
  - intros H E. apply str_eqb_eq in E. congruence.
  - intros H. destruct (str_eqb a b) eqn:E; [|reflexivity]. apply str_eqb_eq in E. contradiction.
Qed.
Lemma str_eqb_sym a b : str_eqb a b = str_eqb b a.
Proof.
  destruct (str_eqb a b) eqn:E1, (str_eqb b a) eqn:E2; try reflexivity.
  - apply str_eqb_eq in E1. subst. rewrite str_eqb_refl in E2. discriminate.
  - apply str_eqb_eq in E2. subst. rewrite str_eqb_refl in E1. discriminate.
Qed.

Lemma path_eqb_eq a b : path_eqb a b = true <-> a = b.
Proof.
  revert b; induction a as [|x r IH]; intros [|y s]; simpl; split; intros H; try discriminate; auto.
  - apply andb_true_iff in H. destruct H as [H1 H2]. apply str_eqb_eq in H1. apply IH in H2. subst. reflexivity.
  - inversion H; subst. rewrite str_eqb_refl. simpl. apply IH. reflexivity.
Qed.
Lemma path_eqb_refl a : path_eqb a a = true.
Proof. apply path_eqb_eq. reflexivity. Qed.

Lemma mem_path_In p s : mem_path p s = true <-> In p s.
Proof.
  unfold mem_path. rewrite existsb_exists. split.
  - intros [q [Hq E]]. apply path_eqb_eq in E. subst. exact Hq.
  - intros H. exists p. split; [exact H|apply path_eqb_refl].
Qed.

Lemma has_text_In t f : has_text t f = true <-> exists n, In n f /\ ttext n = t.
Proof.
  unfold has_text. rewrite existsb_exists. split.
  - intros [n [Hn E]]. apply str_eqb_eq in E. eauto.
  - intros [n [Hn E]]. exists n. split; [exact Hn|]. apply str_eqb_eq. exact E.
Qed.
Lemma has_text_cons t n f : has_text t (n :: f) = str_eqb (ttext n) t || has_text t f.
Proof. reflexivity. Qed.
Lemma has_text_app t f g : has_text t (f ++ g) = has_text t f || has_text t g.
Proof. unfold has_text. apply existsb_app. Qed.

Lemma find_child_some t f n : find_child t f = Some n -> In n f /\ ttext n = t.
Proof.
  induction f as [|m r IH]; simpl; [discriminate|].
  destruct (str_eqb (ttext m) t) eqn:E.
  - intros H. inversion H; subst. split; [left; reflexivity|]. apply str_eqb_eq. exact E.
  - intros H. destruct (IH H) as [H1 H2]. split; [right; exact H1|exact H2].
Qed.
Lemma find_child_none t f : find_child t f = None <-> has_text t f = false.
Proof.
  induction f as [|m r IH]; [simpl; tauto|].
  rewrite has_text_cons. cbn [find_child]. destruct (str_eqb (ttext m) t); simpl; [split; discriminate|exact IH].
Qed.
Lemma find_child_has t f : has_text t f = true -> exists n, find_child t f = Some n.
Proof.
  intros H. destruct (find_child t f) eqn:E; [eauto|]. apply find_child_none in E. congruence.
Qed.

(* ------------------------------------------------------------------ well-formedness predicates *)
(* sibling texts are pairwise different, at every level (what the loader guarantees) *)
Inductive uniq : forest -> Prop :=
| U_nil : uniq []
| U_cons t k f : has_text t f = false -> uniq k -> uniq f -> uniq (Node t k :: f).
(* every text of the forest satisfies P *)
Inductive allt (P : str -> Prop) : forest -> Prop :=
| A_nil : allt P []
| A_cons t k f : P t -> allt P k -> allt P f -> allt P (Node t k :: f).

Definition nonneg (t : str) : Prop := is_neg t = false.
Definition nolead (t : str) : Prop := match t with c :: _ => is_sp c = false | [] => True end.

Lemma uniq_find t f n : uniq f -> find_child t f = Some n -> uniq (tkids n).
Proof.
  intros U. induction U as [|t0 k f Hn Uk _ Uf IH]; simpl; [discriminate|].
  destruct (str_eqb t0 t); intros H; [inversion H; subst; exact Uk|apply IH; exact H].
Qed.
Lemma allt_find P t f n : allt P f -> find_child t f = Some n -> allt P (tkids n) /\ P (ttext n).
Proof.
  intros U. induction U as [|t0 k f Hp Ak _ Af IH]; simpl; [discriminate|].
  destruct (str_eqb t0 t); intros H; [inversion H; subst; simpl; split; assumption|apply IH; exact H].
Qed.
Lemma allt_In P f n : allt P f -> In n f -> P (ttext n) /\ allt P (tkids n).
Proof.
  intros A. induction A as [|t k f Hp Ak _ Af IH]; simpl; [tauto|].
  intros [E|H]; [subst; simpl; split; assumption|apply IH; exact H].
Qed.
Lemma allt_app P f g : allt P f -> allt P g -> allt P (f ++ g).
Proof. intros A B. induction A; simpl; [exact B|constructor; assumption]. Qed.
Lemma allt_app_inv P f g : allt P (f ++ g) -> allt P f /\ allt P g.
Proof.
  induction f as [|n f IH]; simpl; intros H; [split; [constructor|exact H]|].
  inversion H; subst. destruct (IH H4) as [A B]. split; [constructor; assumption|exact B].
Qed.
Lemma uniq_find_unique f n t : uniq f -> In n f -> ttext n = t -> find_child t f = Some n.
Proof.
  intros U. induction U as [|t0 k f Hn Uk _ Uf IH]; simpl; [tauto|].
  intros [E|H] Et.
  - subst n. simpl in Et. subst t0. rewrite str_eqb_refl. reflexivity.
  - destruct (str_eqb t0 t) eqn:E.
    + apply str_eqb_eq in E. subst t0. exfalso.
      assert (has_text t f = true) by (apply has_text_In; eauto). congruence.
    + apply IH; assumption.
Qed.

(* ------------------------------------------------------------------ a tree induction principle *)
Fixpoint tree_ind2 (P : tree -> Prop)
  (H : forall t k, Forall P k -> P (Node t k)) (n : tree) {struct n} : P n :=
  match n with
  | Node t k => H t k ((fix go (l : forest) : Forall P l :=
                          match l with
                          | [] => Forall_nil P
                          | x :: r => Forall_cons x (tree_ind2 P H x) (go r)
                          end) k)
  end.
Lemma forest_ind2 (Q : forest -> Prop) :
  Q [] -> (forall t k f, Q k -> Q f -> Q (Node t k :: f)) -> forall f, Q f.
Proof.
  intros H0 Hs.
  assert (HT : forall n f, Q f -> Q (n :: f)).
  { intros n. induction n as [t k Hk] using tree_ind2. intros f Qf. apply Hs; [|exact Qf].
    induction Hk as [|x r Hx _ IH]; [exact H0|]. apply Hx. exact IH. }
  induction f as [|n f IH]; [exact H0|]. apply HT. exact IH.
Qed.

(* ------------------------------------------------------------------ paths and membership *)
Lemma paths_node_eq t k : paths_node (Node t k) = [t] :: map (cons t) (paths k).
Proof. reflexivity. Qed.
Lemma paths_cons n f : paths (n :: f) = paths_node n ++ paths f.
Proof. reflexivity. Qed.
Lemma paths_app f g : paths (f ++ g) = paths f ++ paths g.
Proof. unfold paths. apply flat_map_app. Qed.

Lemma in_paths p f :
  In p (paths f) <-> exists n, In n f /\ (p = [ttext n] \/ exists q, p = ttext n :: q /\ In q (paths (tkids n))).
Proof.
  unfold paths at 1. rewrite in_flat_map. split.
  - intros [n [Hn Hp]]. exists n. split; [exact Hn|]. destruct n as [t k]. rewrite paths_node_eq in Hp.
    destruct Hp as [E|Hp]; [left; subst; reflexivity|]. right. apply in_map_iff in Hp.
    destruct Hp as [q [E Hq]]. exists q. subst. split; [reflexivity|exact Hq].
  - intros [n [Hn Hp]]. exists n. split; [exact Hn|]. destruct n as [t k]. rewrite paths_node_eq. simpl in Hp.
    destruct Hp as [E|[q [E Hq]]]; [left; subst; reflexivity|]. right. subst. apply in_map. exact Hq.
Qed.
Lemma paths_nonempty p f : In p (paths f) -> p <> [].
Proof. intros H. apply in_paths in H. destruct H as [n [_ [E|[q [E _]]]]]; subst; discriminate. Qed.

(* membership of a path, by recursion on the path *)
Fixpoint memt (f : forest) (p : path) : bool :=
  match p with
  | [] => false
  | x :: r => match r with
              | [] => has_text x f
              | _ => match find_child x f with Some n => memt (tkids n) r | None => false end
              end
  end.

Lemma paths_memt p : forall f, uniq f -> (In p (paths f) <-> memt f p = true).
Proof.
  induction p as [|x r IH]; intros f U.
  - simpl. split; [intros H; apply paths_nonempty in H; congruence|discriminate].
  - rewrite in_paths. destruct r as [|y r'].
    + cbn [memt]. rewrite has_text_In. split.
      * intros [n [Hn [E|[q [E Hq]]]]]; inversion E; subst; [eauto|]. apply paths_nonempty in Hq. congruence.
      * intros [n [Hn E]]. exists n. split; [exact Hn|]. left. subst. reflexivity.
    + cbn [memt]. split.
      * intros [n [Hn [E|[q [E Hq]]]]]; inversion E; subst.
        rewrite (uniq_find_unique f n (ttext n) U Hn eq_refl).
        apply IH; [|exact Hq]. eapply uniq_find; [exact U|]. apply uniq_find_unique; auto.
      * destruct (find_child x f) as [n|] eqn:E; [|discriminate]. intros H.
        destruct (find_child_some _ _ _ E) as [Hn Et]. exists n. split; [exact Hn|]. right.
        exists (y :: r'). subst x. split; [reflexivity|]. apply IH; [|exact H]. eapply uniq_find; eauto.
Qed.

(* ------------------------------------------------------------------ effect of a command list on one path *)
Definition eff (c p : path) (b : bool) : bool :=
  match removal_target c with
  | Some tgt => b && negb (is_prefix tgt p)
  | None => b || path_eqb c p
  end.
Definition sv (cmds : list path) (p : path) (v : bool) : bool := fold_left (fun b c => eff c p b) cmds v.
Arguments sv : simpl never.
Arguments eff : simpl never.

Lemma sv_app a b p v : sv (a ++ b) p v = sv b p (sv a p v).
Proof. unfold sv. apply fold_left_app. Qed.
Lemma sv_nil p v : sv [] p v = v.
Proof. reflexivity. Qed.
Lemma sv_cons c a p v : sv (c :: a) p v = sv a p (eff c p v).
Proof. reflexivity. Qed.

Lemma apply_sv cmds : forall s p, In p (apply_cmds cmds s) <-> sv cmds p (mem_path p s) = true.
Proof.
  induction cmds as [|c r IH]; intros s p.
  - change (In p s <-> mem_path p s = true). symmetry. apply mem_path_In.
  - unfold apply_cmds. simpl fold_left. fold (apply_cmds r (apply1 s c)). rewrite IH, sv_cons.
    assert (E : mem_path p (apply1 s c) = eff c p (mem_path p s)); [|rewrite E; tauto].
    unfold apply1, eff. destruct (removal_target c) as [tgt|].
    + apply eq_true_iff_eq. rewrite mem_path_In, filter_In, andb_true_iff, mem_path_In. tauto.
    + apply eq_true_iff_eq. rewrite mem_path_In, in_app_iff, orb_true_iff, mem_path_In, path_eqb_eq.
      simpl. intuition congruence.
Qed.

(* commands that are all additions *)
Lemma sv_adds cmds p : (forall c, In c cmds -> removal_target c = None) ->
  forall v, sv cmds p v = v || mem_path p cmds.
Proof.
  induction cmds as [|c r IH]; intros H v.
  - rewrite sv_nil. simpl. rewrite orb_false_r. reflexivity.
  - rewrite sv_cons, IH by (intros c' Hc'; apply H; right; exact Hc').
    unfold eff. rewrite (H c (or_introl eq_refl)). simpl. rewrite orb_assoc. f_equal. f_equal.
    destruct (path_eqb c p) eqn:E1, (path_eqb p c) eqn:E2; try reflexivity.
    + apply path_eqb_eq in E1. subst. rewrite path_eqb_refl in E2. discriminate.
    + apply path_eqb_eq in E2. subst. rewrite path_eqb_refl in E1. discriminate.
Qed.

(* ------------------------------------------------------------------ removal_target *)
Lemma is_neg_prefix t : is_neg (neg_prefix ++ t) = true.
Proof. reflexivity. Qed.
Lemma swap_neg_nonneg t : nonneg t -> swap_neg t = neg_prefix ++ t.
Proof. unfold nonneg, swap_neg. intros ->. reflexivity. Qed.

Lemma rt_single l : removal_target [l] = if is_neg l then Some [skipn 3 l] else None.
Proof. reflexivity. Qed.
Lemma rt_cons x c : c <> [] -> removal_target (x :: c) = option_map (cons x) (removal_target c).
Proof.
  intros Hc. unfold removal_target. simpl rev.
  destruct (rev c) as [|l pre] eqn:E.
  - exfalso. apply Hc. rewrite <- (rev_involutive c), E. reflexivity.
  - simpl. destruct (is_neg l); [|reflexivity]. simpl. rewrite rev_app_distr. reflexivity.
Qed.
Lemma rt_nonempty c tgt : removal_target c = Some tgt -> tgt <> [].
Proof.
  unfold removal_target. destruct (rev c) as [|l pre]; [discriminate|].
  destruct (is_neg l); [|discriminate]. intros H. inversion H. destruct (rev pre); discriminate.
Qed.
Lemma rt_nonneg c : Forall nonneg c -> removal_target c = None.
Proof.
  intros H. unfold removal_target. destruct (rev c) as [|l pre] eqn:E; [reflexivity|].
  assert (Hl : In l c) by (apply in_rev; rewrite E; left; reflexivity).
  rewrite Forall_forall in H. rewrite (H l Hl). reflexivity.
Qed.

Lemma eff_strip x c rest b : c <> [] -> eff (x :: c) (x :: rest) b = eff c rest b.
Proof.
  intros Hc. unfold eff. rewrite (rt_cons x c Hc). destruct (removal_target c) as [tgt|]; simpl.
  - rewrite str_eqb_refl. reflexivity.
  - rewrite str_eqb_refl. reflexivity.
Qed.
Lemma eff_single x c b : c <> [] -> eff (x :: c) [x] b = b.
Proof.
  intros Hc. unfold eff. rewrite (rt_cons x c Hc). destruct (removal_target c) as [tgt|] eqn:E; simpl.
  - rewrite str_eqb_refl. apply rt_nonempty in E. destruct tgt; [congruence|]. simpl. apply andb_true_r.
  - rewrite str_eqb_refl. destruct c; [congruence|]. simpl. apply orb_false_r.
Qed.
Lemma eff_other t c' x rest b : str_eqb t x = false -> (c' = [] -> nonneg t) -> eff (t :: c') (x :: rest) b = b.
Proof.
  intros Ht Hn. unfold eff. destruct c' as [|y c''].
  - rewrite rt_single. rewrite (Hn eq_refl). simpl. rewrite Ht. simpl. apply orb_false_r.
  - rewrite rt_cons by discriminate. destruct (removal_target (y :: c'')) as [tgt|]; simpl; rewrite Ht; simpl.
    + apply andb_true_r.
    + apply orb_false_r.
Qed.

Lemma sv_map_strip x C rest : (forall c, In c C -> c <> []) ->
  forall v, sv (map (cons x) C) (x :: rest) v = sv C rest v.
Proof.
  induction C as [|c r IH]; intros H v; [reflexivity|].
  simpl map. rewrite !sv_cons, eff_strip by (apply H; left; reflexivity).
  apply IH. intros c' Hc'. apply H. right. exact Hc'.
Qed.
Lemma sv_map_single x C : (forall c, In c C -> c <> []) -> forall v, sv (map (cons x) C) [x] v = v.
Proof.
  induction C as [|c r IH]; intros H v; [reflexivity|].
  simpl map. rewrite sv_cons, eff_single by (apply H; left; reflexivity).
  apply IH. intros c' Hc'. apply H. right. exact Hc'.
Qed.
Definition other_head (x : str) (c : path) : Prop :=
  exists t c', c = t :: c' /\ str_eqb t x = false /\ (c' = [] -> nonneg t).
Lemma sv_other x rest C : (forall c, In c C -> other_head x c) -> forall v, sv C (x :: rest) v = v.
Proof.
  induction C as [|c r IH]; intros H v; [reflexivity|].
  rewrite sv_cons. destruct (H c (or_introl eq_refl)) as [t [c' [E [Ht Hn]]]]. subst c.
  rewrite eff_other by assumption. apply IH. intros c0 Hc0. apply H. right. exact Hc0.
Qed.

(* every path of a forest whose texts are all un-negated is an addition *)
Lemma allt_paths P f : allt P f -> forall p, In p (paths f) -> Forall P p.
Proof.
  intros A. induction A as [|t k f Hp Ak IHk Af IHf]; intros p Hp'; [contradiction|].
  rewrite paths_cons, in_app_iff, paths_node_eq in Hp'. destruct Hp' as [[E|Hm]|Hf].
  - subst. constructor; [exact Hp|constructor].
  - apply in_map_iff in Hm. destruct Hm as [q [E Hq]]. subst. constructor; [exact Hp|]. apply IHk. exact Hq.
  - apply IHf. exact Hf.
Qed.
Lemma nonneg_paths_adds f : allt nonneg f -> forall c, In c (paths f) -> removal_target c = None.
Proof. intros A c Hc. apply rt_nonneg. eapply allt_paths; eauto. Qed.

(* ------------------------------------------------------------------ the commands of config_to_get_to *)
Lemma paths_flat_map {A} (g : A -> forest) (L : list A) : paths (flat_map g L) = flat_map (fun a => paths (g a)) L.
Proof. induction L as [|a r IH]; [reflexivity|]. simpl. rewrite paths_app, IH. reflexivity. Qed.

Lemma lefts_cons n S T :
  lefts (n :: S) T = if has_text (ttext n) T then lefts S T else Node (swap_neg (ttext n)) [] :: lefts S T.
Proof. unfold lefts. simpl. destruct (has_text (ttext n) T); reflexivity. Qed.

Lemma sv_lefts x rest T : forall S, allt nonneg S -> forall v,
  sv (paths (lefts S T)) (x :: rest) v = v && negb (has_text x S && negb (has_text x T)).
Proof.
  induction S as [|n S IH]; intros A v.
  - simpl. rewrite sv_nil. symmetry. apply andb_true_r.
  - inversion A as [|t k f Hp Ak Af]; subst. rewrite lefts_cons, has_text_cons. cbn [ttext].
    destruct (has_text t T) eqn:HT.
    + rewrite IH by assumption. destruct (str_eqb t x) eqn:E; simpl; [|reflexivity].
      apply str_eqb_eq in E. subst. rewrite HT. simpl. rewrite andb_false_r. reflexivity.
    + rewrite paths_cons, paths_node_eq. simpl map. simpl app. rewrite sv_cons, IH by assumption.
      unfold eff. rewrite rt_single, (swap_neg_nonneg t Hp), is_neg_prefix. simpl skipn. simpl is_prefix.
      destruct (str_eqb t x) eqn:E; simpl.
      * apply str_eqb_eq in E. subst. rewrite HT. simpl. rewrite andb_false_r. reflexivity.
      * rewrite andb_true_r. reflexivity.
Qed.

Lemma right_node_eq S t tk :
  right_node S (Node t tk) =
  match find_child t S with
  | None => [Node t tk]
  | Some sc => match ctgt (tkids sc) tk with [] => [] | sub => [Node t sub] end
  end.
Proof. reflexivity. Qed.

Lemma right_node_heads S tc c : In c (paths (right_node S tc)) -> exists c', c = ttext tc :: c'.
Proof.
  destruct tc as [t tk]. rewrite right_node_eq. cbn [ttext].
  assert (G : forall k, In c (paths [Node t k]) -> exists c', c = t :: c').
  { intros k H. rewrite paths_cons, paths_node_eq, app_nil_r in H. destruct H as [E|H]; [subst; eauto|].
    apply in_map_iff in H. destruct H as [q [E _]]. subst. eauto. }
  destruct (find_child t S) as [sc|]; [|apply G].
  destruct (ctgt (tkids sc) tk) as [|s0 sr]; [intros []|apply G].
Qed.

Lemma sv_right_sib S x rest : forall T, uniq T -> allt nonneg T -> forall v,
  sv (flat_map (fun tc => paths (right_node S tc)) T) (x :: rest) v =
  match find_child x T with
  | None => v
  | Some tc => sv (paths (right_node S tc)) (x :: rest) v
  end.
Proof.
  intros T U. induction U as [|t k f Hn Uk _ Uf IH]; intros A v; [reflexivity|].
  inversion A as [|t' k' f' Hp Ak Af]; subst. cbn [flat_map]. rewrite sv_app. cbn [find_child ttext].
  destruct (str_eqb t x) eqn:E.
  - apply str_eqb_eq in E. subst t. rewrite IH by assumption.
    assert (F : find_child x f = None) by (apply find_child_none; exact Hn). rewrite F. reflexivity.
  - rewrite (sv_other x rest (paths (right_node S (Node t k)))).
    + apply IH. exact Af.
    + intros c Hc. destruct (right_node_heads _ _ _ Hc) as [c' Ec]. cbn [ttext] in Ec.
      exists t, c'. repeat split; [exact Ec|exact E|intros _; exact Hp].
Qed.

Lemma sv_false_nil C : (forall c, In c C -> c <> []) -> sv C [] false = false.
Proof.
  induction C as [|c r IH]; intros H; [reflexivity|]. rewrite sv_cons.
  assert (E : eff c [] false = false).
  { unfold eff. destruct (removal_target c); [reflexivity|]. simpl.
    destruct c; [exfalso; apply (H [] (or_introl eq_refl)); reflexivity|reflexivity]. }
  rewrite E. apply IH. intros c' Hc'. apply H. right. exact Hc'.
Qed.

Lemma mem_path_node x rest k :
  mem_path (x :: rest) (paths_node (Node x k)) = match rest with [] => true | _ => mem_path rest (paths k) end.
Proof.
  rewrite paths_node_eq. apply eq_true_iff_eq. rewrite mem_path_In. simpl In. destruct rest as [|y r].
  - split; [reflexivity|]. intros _. left. reflexivity.
  - rewrite mem_path_In. split.
    + intros [E|H]; [discriminate|]. apply in_map_iff in H. destruct H as [q [E Hq]]. inversion E; subst. exact Hq.
    + intros H. right. apply in_map_iff. exists (y :: r). split; [reflexivity|exact H].
Qed.

Lemma memt_bool f p : uniq f -> mem_path p (paths f) = memt f p.
Proof. intros U. apply eq_true_iff_eq. rewrite mem_path_In. apply paths_memt. exact U. Qed.

Lemma ctgt_eq S T : ctgt S T = lefts S T ++ flat_map (right_node S) T.
Proof. reflexivity. Qed.

(* the heart of the matter: running the printed commands over the old path set decides, for every
   path, exactly membership in the new config *)
Lemma core p : forall S T, uniq S -> uniq T -> allt nonneg S -> allt nonneg T ->
  sv (paths (ctgt S T)) p (memt S p) = memt T p.
Proof.
  induction p as [|x rest IH]; intros S T US UT AS AT.
  - cbn [memt]. apply sv_false_nil. intros c Hc. eapply paths_nonempty; eauto.
  - rewrite ctgt_eq, paths_app, sv_app, paths_flat_map, sv_lefts, sv_right_sib by assumption.
    destruct (find_child x T) as [tc|] eqn:FT.
    + (* x is a child of the target *)
      destruct (find_child_some _ _ _ FT) as [HinT Etc]. destruct tc as [x' tk]. cbn [ttext] in Etc. subst x'.
      assert (HT : has_text x T = true) by (apply has_text_In; exists (Node x tk); split; [exact HinT|reflexivity]).
      rewrite HT. cbn [negb]. rewrite andb_false_r. cbn [negb]. rewrite andb_true_r.
      assert (Utk : uniq tk) by (apply (uniq_find x T (Node x tk) UT FT)).
      assert (Atk : allt nonneg tk) by (apply (allt_find nonneg x T (Node x tk) AT FT)).
      assert (Nx : nonneg x) by (apply (allt_find nonneg x T (Node x tk) AT FT)).
      assert (MT : memt T (x :: rest) = match rest with [] => true | _ => memt tk rest end).
      { destruct rest; cbn [memt]; [exact HT|rewrite FT; reflexivity]. }
      rewrite MT, right_node_eq.
      destruct (find_child x S) as [sc|] eqn:FS.
      * (* common child: recurse *)
        assert (Usk : uniq (tkids sc)) by (apply (uniq_find x S sc US FS)).
        assert (Ask : allt nonneg (tkids sc)) by (apply (allt_find nonneg x S sc AS FS)).
        assert (HS : has_text x S = true).
        { destruct (find_child_some _ _ _ FS) as [Hin E]. apply has_text_In. eauto. }
        assert (MS : memt S (x :: rest) = match rest with [] => true | _ => memt (tkids sc) rest end).
        { destruct rest; cbn [memt]; [exact HS|rewrite FS; reflexivity]. }
        rewrite MS. specialize (IH (tkids sc) tk Usk Utk Ask Atk).
        destruct (ctgt (tkids sc) tk) as [|s0 sr] eqn:Esub.
        -- simpl paths. rewrite sv_nil. destruct rest; [reflexivity|]. rewrite <- IH. reflexivity.
        -- rewrite <- Esub in *. rewrite paths_cons, app_nil_r, paths_node_eq, sv_cons.
           assert (NE : forall c, In c (paths (ctgt (tkids sc) tk)) -> c <> []) by (intros c Hc; eapply paths_nonempty; eauto).
           destruct rest as [|y r].
           ++ rewrite sv_map_single by exact NE. unfold eff. rewrite rt_single, Nx. reflexivity.
           ++ rewrite sv_map_strip by exact NE. unfold eff. rewrite rt_single, Nx. simpl path_eqb.
              rewrite andb_false_r, orb_false_r. exact IH.
      * (* new child: the whole subtree is added *)
        assert (MS : memt S (x :: rest) = false).
        { apply find_child_none in FS. destruct rest; cbn [memt]; [exact FS|]. apply find_child_none in FS. rewrite FS. reflexivity. }
        rewrite MS, paths_cons, app_nil_r, sv_adds.
        -- rewrite orb_false_l, mem_path_node. destruct rest; [reflexivity|]. apply memt_bool. exact Utk.
        -- intros c Hc. apply (nonneg_paths_adds [Node x tk]); [constructor; [exact Nx|exact Atk|constructor]|].
           rewrite paths_cons, app_nil_r. exact Hc.
    + (* x is not a child of the target *)
      assert (HT : has_text x T = false) by (apply find_child_none; exact FT).
      rewrite HT. cbn [negb]. rewrite andb_true_r.
      assert (MT : memt T (x :: rest) = false).
      { destruct rest; cbn [memt]; [exact HT|rewrite FT; reflexivity]. }
      rewrite MT. destruct (has_text x S) eqn:HS; [apply andb_false_r|].
      assert (MS : memt S (x :: rest) = false).
      { destruct rest; cbn [memt]; [exact HS|]. apply find_child_none in HS. rewrite HS. reflexivity. }
      rewrite MS. reflexivity.
Qed.

Theorem apply_forest S T : uniq S -> uniq T -> allt nonneg S -> allt nonneg T ->
  forall p, In p (apply_cmds (paths (ctgt S T)) (paths S)) <-> In p (paths T).
Proof.
  intros US UT AS AT p. rewrite apply_sv, (memt_bool S p US), core by assumption.
  symmetry. apply paths_memt. exact UT.
Qed.

(* ------------------------------------------------------------------ additions and removals *)
Lemma in_paths_lefts c S T :
  In c (paths (lefts S T)) <-> exists n, In n S /\ has_text (ttext n) T = false /\ c = [swap_neg (ttext n)].
Proof.
  induction S as [|m S IH].
  - simpl. split; [intros []|intros [n [[] _]]].
  - rewrite lefts_cons. destruct (has_text (ttext m) T) eqn:HT.
    + rewrite IH. split.
      * intros [n [Hn H]]. exists n. split; [right; exact Hn|exact H].
      * intros [n [[E|Hn] [H1 H2]]]; [subst; congruence|]. exists n. auto.
    + rewrite paths_cons, in_app_iff, IH, paths_node_eq. simpl. split.
      * intros [[E|[]]|[n [Hn H]]]; [exists m; auto|]. exists n. split; [right; exact Hn|exact H].
      * intros [n [[E|Hn] [H1 H2]]]; [subst; left; left; reflexivity|]. right. exists n. auto.
Qed.

Lemma in_ctgt_right S T tc c : In tc T -> In c (paths (right_node S tc)) -> In c (paths (ctgt S T)).
Proof.
  intros Ht Hc. rewrite ctgt_eq, paths_app, in_app_iff, paths_flat_map. right.
  apply in_flat_map. exists tc. auto.
Qed.
Lemma in_ctgt_inv S T c : In c (paths (ctgt S T)) ->
  In c (paths (lefts S T)) \/ exists tc, In tc T /\ In c (paths (right_node S tc)).
Proof.
  rewrite ctgt_eq, paths_app, in_app_iff, paths_flat_map, in_flat_map. tauto.
Qed.

Lemma in_paths_child f x n q : uniq f -> find_child x f = Some n -> q <> [] ->
  (In (x :: q) (paths f) <-> In q (paths (tkids n))).
Proof.
  intros U F Hq. rewrite (paths_memt (x :: q) f U), (paths_memt q (tkids n) (uniq_find x f n U F)).
  destruct q; [congruence|]. cbn [memt]. rewrite F. tauto.
Qed.
Lemma in_paths_absent f x q : has_text x f = false -> ~ In (x :: q) (paths f).
Proof.
  intros H Hin. apply in_paths in Hin. destruct Hin as [n [Hn [E|[q' [E _]]]]]; inversion E; subst;
    assert (has_text (ttext n) f = true) by (apply has_text_In; eauto); congruence.
Qed.
Lemma in_paths_single f x : In [x] (paths f) <-> has_text x f = true.
Proof.
  rewrite in_paths, has_text_In. split.
  - intros [n [Hn [E|[q [E Hq]]]]]; inversion E; subst; [eauto|]. apply paths_nonempty in Hq. congruence.
  - intros [n [Hn E]]. exists n. split; [exact Hn|]. left. subst. reflexivity.
Qed.

Lemma strict_prefix_cons x a b : strict_prefix (x :: a) (x :: b) = strict_prefix a b.
Proof. unfold strict_prefix. simpl. rewrite str_eqb_refl. reflexivity. Qed.

Lemma adds_spec c : forall S T, uniq S -> uniq T -> allt nonneg S -> allt nonneg T ->
  In c (paths (ctgt S T)) -> removal_target c = None ->
  In c (paths T) /\ (In c (paths S) -> exists c', In c' (paths (ctgt S T)) /\ strict_prefix c c' = true).
Proof.
  induction c as [|x q IH]; intros S T US UT AS AT Hc Hr.
  - apply paths_nonempty in Hc. congruence.
  - apply in_ctgt_inv in Hc. destruct Hc as [Hl|[tc [HtcT Hc]]].
    + (* a negation is never an addition *)
      apply in_paths_lefts in Hl. destruct Hl as [n [Hn [_ E]]].
      destruct (allt_In nonneg S n AS Hn) as [Nn _]. rewrite (swap_neg_nonneg _ Nn) in E.
      rewrite E, rt_single, is_neg_prefix in Hr. discriminate.
    + destruct (right_node_heads _ _ _ Hc) as [q' Eq]. inversion Eq; subst q'. destruct tc as [t tk]. cbn [ttext] in *. subst t.
      assert (FT : find_child x T = Some (Node x tk)) by (apply uniq_find_unique; auto).
      destruct (allt_In nonneg T _ AT HtcT) as [Nx Atk]. cbn [ttext tkids] in Nx, Atk.
      assert (Utk : uniq tk) by (apply (uniq_find x T _ UT FT)).
      pose proof Hc as Hc0. rewrite right_node_eq in Hc.
      destruct (find_child x S) as [sc|] eqn:FS.
      * assert (Usk : uniq (tkids sc)) by (apply (uniq_find x S sc US FS)).
        assert (Ask : allt nonneg (tkids sc)) by (apply (allt_find nonneg x S sc AS FS)).
        destruct (ctgt (tkids sc) tk) as [|s0 sr] eqn:Esub; [destruct Hc|]. rewrite <- Esub in Hc.
        rewrite paths_cons, app_nil_r, paths_node_eq in Hc. destruct Hc as [E|Hm].
        -- (* the printed context line *)
           inversion E; subst q. split.
           ++ apply in_paths_single. apply has_text_In. exists (Node x tk). auto.
           ++ intros _. exists (x :: [ttext s0]). split.
              ** apply (in_ctgt_right S T (Node x tk)); [exact HtcT|]. rewrite right_node_eq, FS, Esub.
                 rewrite paths_cons, app_nil_r, paths_node_eq. right. apply in_map.
                 apply in_paths. exists s0. split; [left; reflexivity|left; reflexivity].
              ** unfold strict_prefix. simpl. rewrite str_eqb_refl. reflexivity.
        -- apply in_map_iff in Hm. destruct Hm as [q0 [E Hq0]]. inversion E; subst q0.
           assert (Hq : q <> []) by (eapply paths_nonempty; eauto).
           rewrite (rt_cons x q Hq) in Hr. destruct (removal_target q) eqn:Rq; [discriminate|].
           destruct (IH (tkids sc) tk Usk Utk Ask Atk Hq0 eq_refl) as [I1 I2]. split.
           ++ apply (in_paths_child T x (Node x tk) q UT FT Hq). exact I1.
           ++ intros HS. apply (in_paths_child S x sc q US FS Hq) in HS. destruct (I2 HS) as [c' [Hc' Sp]].
              exists (x :: c'). split.
              ** apply (in_ctgt_right S T (Node x tk)); [exact HtcT|]. rewrite right_node_eq, FS, Esub, <- Esub.
                 rewrite paths_cons, app_nil_r, paths_node_eq. right. apply in_map. exact Hc'.
              ** rewrite strict_prefix_cons. exact Sp.
      * rewrite paths_cons, app_nil_r in Hc. split.
        -- apply in_paths. exists (Node x tk). split; [exact HtcT|]. rewrite paths_node_eq in Hc. cbn [ttext tkids].
           destruct Hc as [E|Hm]; [left; exact (eq_sym E)|]. right. apply in_map_iff in Hm.
           destruct Hm as [q0 [E Hq0]]. inversion E; subst. eauto.
        -- intros HS. exfalso. apply find_child_none in FS. exact (in_paths_absent S x q FS HS).
Qed.

Lemma removes_spec c : forall S T tgt, uniq S -> uniq T -> allt nonneg S -> allt nonneg T ->
  In c (paths (ctgt S T)) -> removal_target c = Some tgt ->
  In tgt (paths S) /\ ~ In tgt (paths T).
Proof.
  induction c as [|x q IH]; intros S T tgt US UT AS AT Hc Hr.
  - apply paths_nonempty in Hc. congruence.
  - apply in_ctgt_inv in Hc. destruct Hc as [Hl|[tc [HtcT Hc]]].
    + apply in_paths_lefts in Hl. destruct Hl as [n [Hn [HT E]]].
      destruct (allt_In nonneg S n AS Hn) as [Nn _]. rewrite (swap_neg_nonneg _ Nn) in E.
      rewrite E, rt_single, is_neg_prefix in Hr. inversion Hr; subst tgt. simpl skipn. split.
      * apply in_paths_single. apply has_text_In. eauto.
      * rewrite in_paths_single. congruence.
    + destruct (right_node_heads _ _ _ Hc) as [q' Eq]. inversion Eq; subst q'. destruct tc as [t tk]. cbn [ttext] in *. subst t.
      assert (FT : find_child x T = Some (Node x tk)) by (apply uniq_find_unique; auto).
      destruct (allt_In nonneg T _ AT HtcT) as [Nx Atk]. cbn [ttext tkids] in Nx, Atk.
      assert (Utk : uniq tk) by (apply (uniq_find x T _ UT FT)).
      rewrite right_node_eq in Hc.
      destruct (find_child x S) as [sc|] eqn:FS.
      * assert (Usk : uniq (tkids sc)) by (apply (uniq_find x S sc US FS)).
        assert (Ask : allt nonneg (tkids sc)) by (apply (allt_find nonneg x S sc AS FS)).
        destruct (ctgt (tkids sc) tk) as [|s0 sr] eqn:Esub; [destruct Hc|]. rewrite <- Esub in Hc.
        rewrite paths_cons, app_nil_r, paths_node_eq in Hc. destruct Hc as [E|Hm].
        -- inversion E; subst q. rewrite rt_single, Nx in Hr. discriminate.
        -- apply in_map_iff in Hm. destruct Hm as [q0 [E Hq0]]. inversion E; subst q0.
           assert (Hq : q <> []) by (eapply paths_nonempty; eauto).
           rewrite (rt_cons x q Hq) in Hr. destruct (removal_target q) as [tg'|] eqn:Rq; [|discriminate].
           simpl in Hr. inversion Hr; subst tgt.
           destruct (IH (tkids sc) tk tg' Usk Utk Ask Atk Hq0 eq_refl) as [I1 I2].
           assert (Hg : tg' <> []) by (eapply rt_nonempty; eauto). split.
           ++ apply (in_paths_child S x sc tg' US FS Hg). exact I1.
           ++ intros HT. apply (in_paths_child T x (Node x tk) tg' UT FT Hg) in HT. exact (I2 HT).
      * exfalso. rewrite paths_cons, app_nil_r in Hc.
        assert (R : removal_target (x :: q) = None).
        { apply (nonneg_paths_adds [Node x tk]); [constructor; [exact Nx|exact Atk|constructor]|].
          rewrite paths_cons, app_nil_r. exact Hc. }
        congruence.
Qed.

(* ------------------------------------------------------------------ the diff of a config with itself *)
Lemma lefts_self f g : (forall n, In n f -> has_text (ttext n) g = true) -> lefts f g = [].
Proof.
  induction f as [|n f IH]; intros H; [reflexivity|]. rewrite lefts_cons, (H n (or_introl eq_refl)).
  apply IH. intros m Hm. apply H. right. exact Hm.
Qed.
Lemma flat_map_nil {A B} (g : A -> list B) L : (forall a, In a L -> g a = []) -> flat_map g L = [].
Proof.
  induction L as [|a r IH]; intros H; [reflexivity|]. simpl. rewrite (H a (or_introl eq_refl)). simpl.
  apply IH. intros b Hb. apply H. right. exact Hb.
Qed.
Lemma ctgt_self_step f : uniq f -> (forall m, In m f -> ctgt (tkids m) (tkids m) = []) -> ctgt f f = [].
Proof.
  intros U H. rewrite ctgt_eq, lefts_self.
  2:{ intros n Hn. apply has_text_In. eauto. }
  simpl app. apply flat_map_nil. intros [t k] Hm. rewrite right_node_eq.
  rewrite (uniq_find_unique f (Node t k) t U Hm eq_refl). cbn [tkids].
  pose proof (H (Node t k) Hm) as Hk. cbn [tkids] in Hk. rewrite Hk. reflexivity.
Qed.
Lemma ctgt_self_members : forall f, uniq f -> forall m, In m f -> ctgt (tkids m) (tkids m) = [].
Proof.
  induction f as [|t k f IHk IHf] using forest_ind2; intros U m Hm; [destruct Hm|].
  inversion U as [|t' k' f' Hn Uk Uf]; subst. destruct Hm as [E|Hm].
  - subst m. cbn [tkids]. apply ctgt_self_step; [exact Uk|]. apply IHk. exact Uk.
  - apply IHf; assumption.
Qed.
Lemma ctgt_self f : uniq f -> ctgt f f = [].
Proof. intros U. apply ctgt_self_step; [exact U|]. apply ctgt_self_members. exact U. Qed.

(* ------------------------------------------------------------------ the loader keeps siblings unique *)
Lemma uniq_snoc f t : uniq f -> has_text t f = false -> uniq (f ++ [Node t []]).
Proof.
  intros U. induction U as [|t0 k f Hn Uk _ Uf IH]; intros H.
  - simpl. constructor; [reflexivity|constructor|constructor].
  - rewrite has_text_cons in H. apply orb_false_iff in H. destruct H as [H1 H2]. cbn [ttext] in H1.
    simpl app. constructor; [|exact Uk|apply IH; exact H2].
    rewrite has_text_app, Hn. simpl. rewrite str_eqb_sym, H1. reflexivity.
Qed.
Lemma allt_snoc (P : str -> Prop) f t : allt P f -> P t -> allt P (f ++ [Node t []]).
Proof. intros A Ht. apply allt_app; [exact A|]. constructor; [exact Ht|constructor|constructor]. Qed.

Lemma has_text_upd x p g f : has_text x (upd_first p g f) = has_text x f.
Proof.
  induction f as [|[t k] r IH]; [reflexivity|]. cbn [upd_first]. destruct (str_eqb t p).
  - rewrite !has_text_cons. reflexivity.
  - rewrite !has_text_cons, IH. reflexivity.
Qed.
Lemma uniq_upd p g f : (forall k, uniq k -> uniq (g k)) -> uniq f -> uniq (upd_first p g f).
Proof.
  intros Hg U. induction U as [|t k f Hn Uk _ Uf IH]; [constructor|]. cbn [upd_first]. destruct (str_eqb t p).
  - constructor; [exact Hn|apply Hg; exact Uk|exact Uf].
  - constructor; [rewrite has_text_upd; exact Hn|exact Uk|exact IH].
Qed.
Lemma allt_upd (P : str -> Prop) p g f : (forall k, allt P k -> allt P (g k)) -> allt P f -> allt P (upd_first p g f).
Proof.
  intros Hg A. induction A as [|t k f Hp Ak _ Af IH]; [constructor|]. cbn [upd_first]. destruct (str_eqb t p).
  - constructor; [exact Hp|apply Hg; exact Ak|exact Af].
  - constructor; [exact Hp|exact Ak|exact IH].
Qed.
Lemma uniq_add_at t pth : forall f, uniq f -> uniq (add_at pth t f).
Proof.
  induction pth as [|p ps IH]; intros f U; cbn [add_at].
  - unfold add_child. destruct (has_text t f) eqn:E; [exact U|apply uniq_snoc; assumption].
  - apply uniq_upd; [exact IH|exact U].
Qed.
Lemma allt_add_at (P : str -> Prop) t pth : P t -> forall f, allt P f -> allt P (add_at pth t f).
Proof.
  intros Ht. induction pth as [|p ps IH]; intros f A; cbn [add_at].
  - unfold add_child. destruct (has_text t f); [exact A|apply allt_snoc; assumption].
  - apply allt_upd; [exact IH|exact A].
Qed.

Lemma split_ws_aux_words p s : forall cur, forallb (fun c => negb (p c)) cur = true ->
  Forall (fun w => w <> [] /\ forallb (fun c => negb (p c)) w = true) (split_ws_aux p cur s).
Proof.
  assert (R : forall cur, cur <> [] -> forallb (fun c => negb (p c)) cur = true ->
              rev cur <> [] /\ forallb (fun c => negb (p c)) (rev cur) = true).
  { intros cur Hc Hf. split.
    - intros E. apply Hc. rewrite <- (rev_involutive cur), E. reflexivity.
    - rewrite forallb_forall in *. intros c Hin. apply Hf. apply in_rev. exact Hin. }
  induction s as [|c r IH]; intros cur Hcur; cbn [split_ws_aux].
  - destruct cur as [|c0 cur']; [constructor|]. constructor; [|constructor]. apply R; [discriminate|exact Hcur].
  - destruct (p c) eqn:Pc.
    + destruct cur as [|c0 cur']; [apply IH; reflexivity|].
      constructor; [apply R; [discriminate|exact Hcur]|apply IH; reflexivity].
    + apply IH. simpl. rewrite Pc. exact Hcur.
Qed.

Lemma norm_line_nolead l ind t : norm_line l = Some (ind, t) -> nolead t.
Proof.
  assert (W : Forall (fun w => w <> [] /\ forallb (fun c => negb (is_space c)) w = true) (split_ws l))
    by (apply split_ws_aux_words; reflexivity).
  unfold norm_line. revert W. destruct (split_ws l) as [|w ws]; intros W; [discriminate|]. intros H. inversion H; subst. clear H.
  destruct (Forall_inv W) as [Hw Hf].
  destruct w as [|c w']; [exfalso; apply Hw; reflexivity|].
  assert (Hc : is_sp c = false).
  { simpl in Hf. apply andb_true_iff in Hf. destruct Hf as [Hf _]. unfold is_sp, sp.
    destruct (N.eqb c 32) eqn:E; [|reflexivity]. apply N.eqb_eq in E. subst. discriminate. }
  destruct ws; simpl; exact Hc.
Qed.

Definition st_ok (st : lstate) : Prop := uniq (fst (fst st)) /\ allt nolead (fst (fst st)).
Lemma load_step_ok st l : st_ok st -> st_ok (load_step st l).
Proof.
  intros [U A]. unfold load_step. destruct (norm_line l) as [[ind t]|] eqn:E; [|split; assumption].
  destruct st as [[f cs] mr]. simpl in U, A. split; simpl.
  - apply uniq_add_at. exact U.
  - apply allt_add_at; [eapply norm_line_nolead; eauto|exact A].
Qed.
Lemma load_fold_ok ls : forall st, st_ok st -> st_ok (fold_left load_step ls st).
Proof. induction ls as [|l r IH]; intros st H; [exact H|]. simpl. apply IH. apply load_step_ok. exact H. Qed.
Lemma load_lines_uniq ls : uniq (load_lines ls).
Proof. apply (load_fold_ok ls ([], [], [])). split; constructor. Qed.
Lemma load_lines_nolead ls : allt nolead (load_lines ls).
Proof. apply (load_fold_ok ls ([], [], [])). split; constructor. Qed.

(* ------------------------------------------------------------------ reading the printed diff back *)
Lemma count_leading_repeat n t : nolead t -> count_leading is_sp (repeat sp n ++ t) = n.
Proof.
  intros H. induction n as [|n IH]; cbn [repeat app count_leading].
  - destruct t as [|c t']; [reflexivity|]. simpl in H. cbn [count_leading]. rewrite H. reflexivity.
  - assert (E : is_sp sp = true) by reflexivity. rewrite E. f_equal. exact IH.
Qed.
Lemma skipn_repeat n (t : str) : skipn n (repeat sp n ++ t) = t.
Proof. induction n as [|n IH]; [reflexivity|exact IH]. Qed.

Lemma parse_step_line d t stk acc : nolead t ->
  parse_step (stk, acc) (repeat sp (2 * d) ++ t) = (firstn d stk ++ [t], acc ++ [firstn d stk ++ [t]]).
Proof.
  intros H. unfold parse_step. cbn [fst snd]. rewrite (count_leading_repeat (2 * d) t H), skipn_repeat.
  replace (2 * d / 2) with d by (rewrite Nat.mul_comm, Nat.div_mul; [reflexivity|discriminate]). reflexivity.
Qed.

Lemma render_node_eq d t k : render_node d (Node t k) = (repeat sp (2 * d) ++ t) :: flat_map (render_node (S d)) k.
Proof. reflexivity. Qed.

Definition parse_node_P (n : tree) : Prop :=
  forall d pre junk acc, nolead (ttext n) -> allt nolead (tkids n) -> length pre = d ->
  exists junk', fold_left parse_step (render_node d n) (pre ++ junk, acc) = (pre ++ junk', acc ++ map (app pre) (paths_node n)).

Lemma parse_forest_of f : Forall parse_node_P f ->
  forall d pre junk acc, allt nolead f -> length pre = d ->
  exists junk', fold_left parse_step (flat_map (render_node d) f) (pre ++ junk, acc) = (pre ++ junk', acc ++ map (app pre) (paths f)).
Proof.
  intros HF. induction HF as [|m r Hm _ IH]; intros d pre junk acc A L.
  - exists junk. simpl. rewrite app_nil_r. reflexivity.
  - inversion A as [|t k f' Hp Ak Af]; subst. cbn [flat_map]. rewrite fold_left_app.
    destruct (Hm (length pre) pre junk acc Hp Ak eq_refl) as [j1 E1]. rewrite E1.
    destruct (IH (length pre) pre j1 (acc ++ map (app pre) (paths_node (Node t k))) Af eq_refl) as [j2 E2]. rewrite E2.
    exists j2. rewrite paths_cons, map_app, app_assoc. reflexivity.
Qed.

Lemma parse_node_all : forall n, parse_node_P n.
Proof.
  induction n as [t k Hk] using tree_ind2. intros d pre junk acc Hp Ak L. cbn [ttext tkids] in Hp, Ak.
  assert (F : firstn d (pre ++ junk) = pre) by (subst d; rewrite firstn_app, Nat.sub_diag, firstn_all; simpl; apply app_nil_r).
  destruct (parse_forest_of k Hk (S d) (pre ++ [t]) [] (acc ++ [pre ++ [t]]) Ak) as [j E].
  { rewrite app_length. simpl. lia. }
  exists ([t] ++ j).
  pose proof (parse_step_line d t (pre ++ junk) acc Hp) as PS.
  rewrite render_node_eq. cbn [fold_left]. unfold path in *. rewrite PS, F.
  rewrite app_nil_r in E. rewrite E. rewrite <- app_assoc. f_equal.
  rewrite paths_node_eq. simpl map. rewrite <- app_assoc. simpl app. f_equal. f_equal.
  rewrite map_map. apply map_ext. intros q. rewrite <- app_assoc. reflexivity.
Qed.

Lemma parse_render f : allt nolead f -> parse_out (render f) = paths f.
Proof.
  intros A. unfold parse_out, render.
  assert (HF : Forall parse_node_P f) by (apply Forall_forall; intros n _; apply parse_node_all).
  destruct (parse_forest_of f HF 0 [] [] [] A eq_refl) as [j E]. simpl app in E. rewrite E. simpl.
  rewrite (map_ext (app []) (fun q : path => q)) by reflexivity. apply map_id.
Qed.

(* ------------------------------------------------------------------ the delta keeps texts printable *)
Lemma nolead_neg t : nolead (neg_prefix ++ t).
Proof. reflexivity. Qed.
Lemma allt_lefts S T : allt nonneg S -> allt nolead (lefts S T).
Proof.
  intros A. induction A as [|t k f Hp Ak _ Af IH]; [constructor|]. rewrite lefts_cons. cbn [ttext].
  destruct (has_text t T); [exact IH|]. constructor; [|constructor|exact IH].
  rewrite (swap_neg_nonneg t Hp). apply nolead_neg.
Qed.
Lemma allt_rights : forall T S, allt nonneg S -> allt nolead T -> allt nolead (flat_map (right_node S) T).
Proof.
  induction T as [|t k f IHk IHf] using forest_ind2; intros S AS AT; [constructor|].
  inversion AT as [|t' k' f' Hp Ak Af]; subst. cbn [flat_map]. apply allt_app; [|apply IHf; assumption].
  rewrite right_node_eq. destruct (find_child t S) as [sc|] eqn:FS.
  - pose proof (allt_find nonneg t S sc AS FS) as [Ask _].
    assert (A2 : allt nolead (ctgt (tkids sc) k)).
    { rewrite ctgt_eq. apply allt_app; [apply allt_lefts; exact Ask|apply IHk; assumption]. }
    destruct (ctgt (tkids sc) k) as [|s0 sr]; [constructor|]. constructor; [exact Hp|exact A2|constructor].
  - constructor; [exact Hp|exact Ak|constructor].
Qed.
Lemma allt_ctgt S T : allt nonneg S -> allt nolead T -> allt nolead (ctgt S T).
Proof. intros AS AT. rewrite ctgt_eq. apply allt_app; [apply allt_lefts; exact AS|apply allt_rights; assumption]. Qed.

(* ------------------------------------------------------------------ input forms *)
Definition nobreak (l : str) : Prop := forallb (fun c => negb (is_linebreak c)) l = true.

Lemma splitlines_aux_line l : nobreak l -> forall cur rest, splitlines_aux cur (l ++ rest) = splitlines_aux (rev l ++ cur) rest.
Proof.
  unfold nobreak. induction l as [|c l IH]; intros H cur rest; [reflexivity|].
  simpl in H. apply andb_true_iff in H. destruct H as [Hc Hl]. apply negb_true_iff in Hc.
  simpl app. cbn [splitlines_aux].
  assert (E : N.eqb c 13 = false).
  { destruct (N.eqb c 13) eqn:E; [|reflexivity]. apply N.eqb_eq in E. subst. discriminate. }
  rewrite E, Hc, IH by exact Hl. simpl rev. rewrite <- app_assoc. reflexivity.
Qed.
Lemma splitlines_aux_nl cur rest : splitlines_aux cur (10%N :: rest) = rev cur :: splitlines_aux [] rest.
Proof. reflexivity. Qed.
Lemma load_step_blank st : load_step st [] = st.
Proof. reflexivity. Qed.

Lemma splitlines_join ls : Forall nobreak ls ->
  forall st, fold_left load_step (splitlines (join linesep ls)) st = fold_left load_step ls st.
Proof.
  intros H. induction H as [|l r Hl Hr IH]; intros st; [reflexivity|].
  destruct r as [|l2 r'].
  - cbn [join]. unfold splitlines. rewrite <- (app_nil_r l) at 1. rewrite (splitlines_aux_line l Hl), app_nil_r.
    cbn [splitlines_aux]. destruct (rev l) as [|c0 rl] eqn:E.
    + assert (l = []) by (rewrite <- (rev_involutive l), E; reflexivity). subst. reflexivity.
    + rewrite <- E, rev_involutive. reflexivity.
  - change (join linesep (l :: l2 :: r')) with (l ++ 10%N :: join linesep (l2 :: r')).
    unfold splitlines. rewrite (splitlines_aux_line l Hl), app_nil_r, splitlines_aux_nl, rev_involutive.
    cbn [fold_left]. apply IH.
Qed.

Lemma load_list ls : Forall nobreak ls -> load (FList ls) = load_lines ls.
Proof. intros H. unfold load, load_lines. cbn [norm_form]. rewrite splitlines_join by exact H. reflexivity. Qed.

(* ------------------------------------------------------------------ statements about forms *)
Definition no_negated (f : form) : Prop := allt nonneg (load f).

Lemma load_uniq f : uniq (load f).
Proof. apply load_lines_uniq. Qed.
Lemma load_nolead f : allt nolead (load f).
Proof. apply load_lines_nolead. Qed.

Lemma parse_get_diff old new : no_negated old ->
  parse_out (get_diff old new) = paths (ctgt (load old) (load new)).
Proof. intros N. unfold get_diff. apply parse_render. apply allt_ctgt; [exact N|apply load_nolead]. Qed.

Lemma diff_apply old new : no_negated old -> no_negated new ->
  forall p, In p (apply_cmds (parse_out (get_diff old new)) (paths (load old))) <-> In p (paths (load new)).
Proof.
  intros No Nn p. rewrite (parse_get_diff old new No).
  apply apply_forest; auto using load_uniq.
Qed.

Lemma diff_adds_absent old new : no_negated old -> no_negated new ->
  forall c, In c (parse_out (get_diff old new)) -> removal_target c = None ->
  In c (paths (load new)) /\
  (In c (paths (load old)) -> exists c', In c' (parse_out (get_diff old new)) /\ strict_prefix c c' = true).
Proof.
  intros No Nn c. rewrite (parse_get_diff old new No). intros Hc Hr.
  apply adds_spec; auto using load_uniq.
Qed.

Lemma diff_removes_present_and_gone old new : no_negated old -> no_negated new ->
  forall c tgt, In c (parse_out (get_diff old new)) -> removal_target c = Some tgt ->
  In tgt (paths (load old)) /\ ~ In tgt (paths (load new)).
Proof.
  intros No Nn c tgt. rewrite (parse_get_diff old new No). intros Hc Hr.
  eapply removes_spec; eauto using load_uniq.
Qed.

Lemma diff_self_empty f : get_diff f f = [].
Proof. unfold get_diff. rewrite ctgt_self by apply load_uniq. reflexivity. Qed.

Lemma forms_same_config ls : Forall nobreak ls ->
  load (FList ls) = load_lines ls /\ load (FTuple ls) = load_lines ls /\
  load (FStr (join linesep ls)) = load_lines ls /\ load (FFile (join linesep ls)) = load_lines ls.
Proof. intros H. pose proof (load_list ls H) as E. repeat split; exact E. Qed.
Lemma form_none : load FNone = load_lines [] /\ load (FList []) = load_lines [] /\ load (FStr []) = load_lines [].
Proof. repeat split; reflexivity. Qed.

(* consequently the diff does not depend on the form in which either side is given *)
Definition same_config (a b : form) : Prop := load a = load b.
Lemma forms_same_diff a a' b b' : same_config a a' -> same_config b b' ->
  get_diff a b = get_diff a' b' /\ get_rollback a b = get_rollback a' b'.
Proof. unfold same_config, get_diff, get_rollback. intros -> ->. split; reflexivity. Qed.

(* ------------------------------------------------------------------ the model passes the check applied to the real output *)
Lemma subset_b_incl a b : subset_b a b = true <-> (forall p, In p a -> In p b).
Proof.
  unfold subset_b. rewrite forallb_forall. split; intros H p Hp.
  - apply mem_path_In. apply H. exact Hp.
  - apply mem_path_In. apply H. exact Hp.
Qed.
Lemma seteq_b_iff a b : seteq_b a b = true <-> (forall p, In p a <-> In p b).
Proof.
  unfold seteq_b. rewrite andb_true_iff, !subset_b_incl. split.
  - intros [H1 H2] p. split; auto.
  - intros H. split; intros p; apply H.
Qed.

Lemma model_passes_check old new : no_negated old -> no_negated new ->
  spec_ok (paths (load old)) (paths (load new)) (parse_out (get_diff old new)) = true.
Proof.
  intros No Nn. unfold spec_ok. rewrite !andb_true_iff. repeat split.
  - apply seteq_b_iff. apply diff_apply; assumption.
  - unfold clause_adds. apply forallb_forall. intros c Hc.
    destruct (removal_target c) as [tgt|] eqn:R; [reflexivity|].
    destruct (diff_adds_absent old new No Nn c Hc R) as [H1 H2].
    apply andb_true_iff. split; [apply mem_path_In; exact H1|].
    destruct (mem_path c (paths (load old))) eqn:M; [|reflexivity]. simpl.
    apply mem_path_In in M. destruct (H2 M) as [c' [Hc' Sp]]. apply existsb_exists. eauto.
  - unfold clause_removes. apply forallb_forall. intros c Hc.
    destruct (removal_target c) as [tgt|] eqn:R; [|reflexivity].
    destruct (diff_removes_present_and_gone old new No Nn c tgt Hc R) as [H1 H2].
    apply andb_true_iff. split; [apply mem_path_In; exact H1|].
    apply negb_true_iff. destruct (mem_path tgt (paths (load new))) eqn:M; [|reflexivity].
    apply mem_path_In in M. contradiction.
Qed.

(* ------------------------------------------------------------------ non-vacuity *)
Definition ex_old : form := FList [[97]; [32; 98]; [32; 99]; [100]]%N.                     (* a / b / c under a, d *)
Definition ex_new : form := FStr [97; 10; 32; 98; 10; 32; 101; 10; 102; 10]%N.            (* "a\n b\n e\nf\n" *)
Example ex_hyp : no_negated ex_old /\ no_negated ex_new.
Proof. split; unfold no_negated; vm_compute; repeat constructor. Qed.
Example ex_diff : get_diff ex_old ex_new = [[110; 111; 32; 100]; [97]; [32; 32; 110; 111; 32; 99]; [32; 32; 101]; [102]]%N.
Proof. vm_compute. reflexivity. Qed.                     (* no d / a /   no c /   e / f *)
Example ex_forms : Forall nobreak [[97]; [32; 98]]%N.
Proof. repeat constructor. Qed.

Lemma rollback_is_mirror old new : get_rollback old new = get_diff new old.
Proof. reflexivity. Qed.
