(* C20 — proofs about Model/L4.v (L4Object port-spec parsing). *)
From Coq Require Import NArith ZArith List Bool Lia Sorting.Sorted.
Require Import CCP.Lib.PyStr CCP.Lib.Res CCP.Lib.C14StrAux CCP.Lib.C20StrAux CCP.Model.Range CCP.Proofs.RangeProofs
               CCP.Model.L4 CCP.gen.TabC20.
Import ListNotations.
Open Scope Z_scope.

Opaque zrange.

(* ================================================================== filters of an integer interval *)
Lemma filter_none {A} (f : A -> bool) l : (forall x, In x l -> f x = false) -> filter f l = [].
Proof.
  induction l as [|a r IH]; intros H; [reflexivity|]. simpl. rewrite (H a) by (left; reflexivity).
  apply IH. intros x Hx. apply H. right. exact Hx.
Qed.
Lemma filter_all {A} (f : A -> bool) l : (forall x, In x l -> f x = true) -> filter f l = l.
Proof.
  induction l as [|a r IH]; intros H; [reflexivity|]. simpl. rewrite (H a) by (left; reflexivity).
  f_equal. apply IH. intros x Hx. apply H. right. exact Hx.
Qed.

Lemma filter_zrange_interval a b lo hi : a <= lo -> hi <= b -> lo <= hi + 1 ->
  filter (fun x => (lo <=? x) && (x <=? hi)) (zrange a b) = zrange lo hi.
Proof.
  intros H1 H2 H3.
  rewrite (zrange_split a (lo - 1) b) by lia. replace (lo - 1 + 1) with lo by lia.
  rewrite (zrange_split lo hi b) by lia. rewrite !filter_app.
  rewrite filter_none, filter_all, filter_none.
  - rewrite app_nil_r. reflexivity.
  - intros x Hx. apply zrange_In in Hx. apply andb_false_iff. right. apply Z.leb_gt. lia.
  - intros x Hx. apply zrange_In in Hx. apply andb_true_iff. split; apply Z.leb_le; lia.
  - intros x Hx. apply zrange_In in Hx. apply andb_false_iff. left. apply Z.leb_gt. lia.
Qed.

Lemma filter_ext_zrange (f g : Z -> bool) a b :
  (forall x, a <= x <= b -> f x = g x) -> filter f (zrange a b) = filter g (zrange a b).
Proof. intros H. apply filter_ext_in. intros x Hx. apply H. apply zrange_In. exact Hx. Qed.

Lemma filter_eq_zrange a b v : a <= v <= b -> filter (fun x => x =? v) (zrange a b) = [v].
Proof.
  intros H. rewrite (filter_ext_zrange _ (fun x => (v <=? x) && (x <=? v))).
  - rewrite filter_zrange_interval by lia. apply zrange_single.
  - intros x _. destruct (Z.eqb_spec x v), (Z.leb_spec v x), (Z.leb_spec x v); simpl; try reflexivity; lia.
Qed.
Lemma filter_lt_zrange a b v : a <= v <= b + 1 -> filter (fun x => x <? v) (zrange a b) = zrange a (v - 1).
Proof.
  intros H. rewrite (filter_ext_zrange _ (fun x => (a <=? x) && (x <=? v - 1))).
  - apply filter_zrange_interval; lia.
  - intros x Hx. destruct (Z.ltb_spec x v), (Z.leb_spec a x), (Z.leb_spec x (v - 1)); simpl; try reflexivity; lia.
Qed.
Lemma filter_gt_zrange a b v : a - 1 <= v <= b -> filter (fun x => v <? x) (zrange a b) = zrange (v + 1) b.
Proof.
  intros H. rewrite (filter_ext_zrange _ (fun x => (v + 1 <=? x) && (x <=? b))).
  - apply filter_zrange_interval; lia.
  - intros x Hx. destruct (Z.ltb_spec v x), (Z.leb_spec (v + 1) x), (Z.leb_spec x b); simpl; try reflexivity; lia.
Qed.

(* ================================================================== every accepted spec yields an ascending list within 1..65535 *)
Lemma req_ok b v l : req b v = Ok l -> b = true /\ l = v.
Proof. unfold req. destruct b; intros H; inversion H; auto. Qed.

Lemma bind_ok {A B} (x : result A) (f : A -> result B) y : bind x f = Ok y -> exists a, x = Ok a /\ f a = Ok y.
Proof. destruct x; simpl; intros H; [eauto|discriminate]. Qed.

Definition port_list_ok (l : list Z) : Prop := asc l /\ Forall (fun x => 1 <= x <= 65535) l.

Lemma zrange_ports_ok lo hi : 1 <= lo -> hi <= 65535 -> port_list_ok (zrange lo hi).
Proof.
  intros H1 H2. split; [apply zrange_asc|]. apply Forall_forall. intros x Hx. apply zrange_In in Hx. lia.
Qed.

Lemma l4_ports_ok tbl spec l : l4_ports tbl spec = Ok l -> port_list_ok l.
Proof.
  unfold l4_ports.
  destruct (contains kw_neq (strip spec)).
  { intros H. apply bind_ok in H. destruct H as (p & _ & H). apply req_ok in H. destruct H as [Hb ->].
    split; [apply asc_filter, zrange_asc|]. apply Forall_forall. intros x Hx. apply filter_In in Hx.
    destruct Hx as [Hx _]. unfold all_ports in Hx. apply zrange_In in Hx. exact Hx. }
  destruct (contains kw_eq (strip spec)).
  { intros H. apply bind_ok in H. destruct H as (p & _ & H). apply req_ok in H. destruct H as [Hb ->].
    apply andb_true_iff in Hb. destruct Hb as [B1 B2]. apply Z.leb_le in B1. apply Z.leb_le in B2.
    rewrite <- zrange_single. apply zrange_ports_ok; lia. }
  destruct (single_token (strip spec)).
  { intros H. apply bind_ok in H. destruct H as (p & _ & H). apply req_ok in H. destruct H as [Hb ->].
    apply andb_true_iff in Hb. destruct Hb as [B1 B2]. apply Z.leb_le in B1. apply Z.leb_le in B2.
    rewrite <- zrange_single. apply zrange_ports_ok; lia. }
  destruct (contains kw_range (strip spec)).
  { destruct (tl (re_split_ws (strip spec))) as [|a [|b r]]; try discriminate.
    intros H. apply bind_ok in H. destruct H as (lo & _ & H). apply bind_ok in H. destruct H as (hi & _ & H).
    destruct (hi <? lo); [discriminate|]. apply req_ok in H. destruct H as [Hb ->].
    apply andb_true_iff in Hb. destruct Hb as [B1 B2]. apply Z.leb_le in B1. apply Z.leb_le in B2.
    apply zrange_ports_ok; lia. }
  destruct (contains kw_lt (strip spec)).
  { intros H. apply bind_ok in H. destruct H as (p & _ & H). apply req_ok in H. destruct H as [Hb ->].
    apply andb_true_iff in Hb. destruct Hb as [B1 B2]. apply Z.leb_le in B1. apply Z.leb_le in B2.
    apply zrange_ports_ok; lia. }
  destruct (contains kw_gt (strip spec)).
  { intros H. apply bind_ok in H. destruct H as (p & _ & H). apply req_ok in H. destruct H as [Hb ->].
    apply andb_true_iff in Hb. destruct Hb as [B1 B2]. apply Z.ltb_lt in B1. apply Z.ltb_lt in B2.
    apply zrange_ports_ok; lia. }
  discriminate.
Qed.

Lemma l4_object_ok proto spec syntax l : l4_object proto spec syntax = Ok l -> port_list_ok l.
Proof.
  unfold l4_object. destruct (str_eqb syntax s_asa); [|discriminate].
  destruct (str_eqb proto s_tcp); [apply l4_ports_ok|].
  destruct (str_eqb proto s_udp); [apply l4_ports_ok|discriminate].
Qed.

(* ================================================================== rendered specs *)
Definition w_neq : str := [110; 101; 113]%N.
Definition w_eq : str := [101; 113]%N.
Definition w_range : str := [114; 97; 110; 103; 101]%N.
Definition w_lt : str := [108; 116]%N.
Definition w_gt : str := [103; 116]%N.

(* hygiene of a service name: non-empty, no white space, not a number, no operator keyword as a suffix
   ("neq" ends with "eq") — so that the substring tests of the dispatch chain see only the operator *)
Definition name_clean (s : str) : bool :=
  negb (str_eqb s []) && forallb (fun c => negb (is_space c)) s && negb (forallb is_digit s) &&
  negb (ends_with w_eq s) && negb (ends_with w_lt s) && negb (ends_with w_gt s) && negb (ends_with w_range s).
Definition tbl_clean (tbl : list (str * Z)) : bool := forallb (fun e => name_clean (fst e)) tbl.

Section Tbl.
  Variable tbl : list (str * Z).
  Hypothesis Hclean : tbl_clean tbl = true.

  Inductive arg := ANum (n : N) | AName (s : str).
  Definition arg_tok (a : arg) : str := match a with ANum n => render_dec n | AName s => s end.
  Definition arg_val (a : arg) : option Z :=
    match a with ANum n => Some (Z.of_N n) | AName s => tbl_get tbl s end.

  Lemma tbl_get_clean s v : tbl_get tbl s = Some v -> name_clean s = true.
  Proof.
    unfold tbl_get. destruct (find (fun e => str_eqb (fst e) s) tbl) as [e|] eqn:F; [|discriminate].
    intros _. apply find_some in F. destruct F as [Hin E]. apply str_eqb_eq in E. subst.
    unfold tbl_clean in Hclean. rewrite forallb_forall in Hclean. apply Hclean. exact Hin.
  Qed.

  Lemma tbl_get_num n : tbl_get tbl (render_dec n) = None.
  Proof.
    destruct (tbl_get tbl (render_dec n)) as [v|] eqn:E; [|reflexivity].
    apply tbl_get_clean in E. unfold name_clean in E. rewrite render_dec_digits in E.
    rewrite !andb_true_iff in E. destruct E as [[[[[_ E] _] _] _] _]. discriminate.
  Qed.

  Definition tok_good (t : str) : Prop :=
    nonspace t /\ ends_with w_neq t = false /\ ends_with w_eq t = false /\ ends_with w_range t = false /\
    ends_with w_lt t = false /\ ends_with w_gt t = false.

  Lemma ends_with_longer w u t : ends_with u t = false -> ends_with (w ++ u) t = false.
  Proof.
    unfold ends_with. rewrite rev_app_distr. generalize (rev u) (rev w) (rev t). clear.
    intros a. induction a as [|x a IH]; intros b c H; [discriminate|].
    destruct c as [|y c]; [reflexivity|]. simpl in *. destruct (x =? y)%N; [|reflexivity]. simpl in *. auto.
  Qed.

  Lemma arg_good a v : arg_val a = Some v -> tok_good (arg_tok a) /\ port_value tbl (arg_tok a) = Ok v.
  Proof.
    destruct a as [n|s]; simpl; intros H.
    - inversion H; subst. split.
      + split; [apply render_dec_nonspace|].
        repeat split; match goal with |- ends_with ?w _ = false =>
          apply (ends_with_digits (removelast w) (last w 0%N)); [reflexivity|apply render_dec_digits] end.
      + unfold port_value. rewrite tbl_get_num. rewrite py_int_digits by auto using render_dec_nonempty, render_dec_digits.
        rewrite parse_dec_render. reflexivity.
    - pose proof (tbl_get_clean s v H) as C. unfold name_clean in C. rewrite !andb_true_iff in C.
      destruct C as [[[[[[C1 C2] C3] C4] C5] C6] C7]. rewrite !negb_true_iff in *.
      split.
      + split; [split; [intros ->; discriminate|exact C2]|].
        repeat split; auto. change w_neq with ([110%N] ++ w_eq). apply ends_with_longer. exact C4.
      + unfold port_value. rewrite H. reflexivity.
  Qed.

  Lemma tok_good_no_sp t : tok_good t -> ~ In sp t.
  Proof. intros [H _]. apply nonspace_no_sp. exact H. Qed.

  Lemma kw_nonspace : nonspace w_neq /\ nonspace w_eq /\ nonspace w_range /\ nonspace w_lt /\ nonspace w_gt.
  Proof. repeat split; try discriminate; reflexivity. Qed.

  (* what the dispatch chain sees on  tok1 SP tok2 ... *)
  Lemma dispatch_contains w toks : w <> [] -> ~ In sp w -> Forall nonspace toks ->
    contains (w ++ [sp]) (join [sp] toks) = existsb (ends_with w) (removelast toks).
  Proof.
    intros H1 H2 H3. apply contains_kw_join; auto. eapply Forall_impl; [|exact H3]. intros t. apply nonspace_no_sp.
  Qed.

  Lemma single_token_join toks : toks <> [] -> Forall nonspace toks ->
    single_token (join [sp] toks) = match toks with [_] => true | _ => false end.
  Proof.
    intros Hne H. unfold single_token.
    pose proof (join_sp_nonempty toks Hne H) as J. destruct (join [sp] toks) eqn:E; [congruence|]. rewrite <- E. clear E J.
    destruct toks as [|t [|t2 r]]; [congruence| |].
    - simpl. inversion H as [|? ? [_ Ht] _]; subst. exact Ht.
    - change (join [sp] (t :: t2 :: r)) with (t ++ sp :: join [sp] (t2 :: r)).
      rewrite forallb_app. simpl. apply andb_false_r.
  Qed.

  Ltac kwfacts := repeat split; try discriminate; try reflexivity; intros K; repeat (destruct K as [K|K]; [discriminate|]); destruct K.

  Definition rendered (lead : str) (toks : list str) (trail : str) : str := lead ++ join [sp] toks ++ trail.

  (* the state of the dispatch chain after the common prefix of l4_ports *)
  Lemma l4_ports_rendered lead toks trail : toks <> [] -> Forall nonspace toks ->
    blanks lead -> blanks trail ->
    l4_ports tbl (rendered lead toks trail) =
    let s := join [sp] toks in
    if existsb (ends_with w_neq) (removelast toks) then
      bind (port_value tbl (last toks [])) (fun p =>
        req ((1 <=? p) && (p <=? 65535)) (filter (fun x => negb (x =? p)) all_ports))
    else if existsb (ends_with w_eq) (removelast toks) then
      bind (port_value tbl (strip (last toks []))) (fun p => req ((1 <=? p) && (p <=? 65535)) [p])
    else if match toks with [_] => true | _ => false end then
      bind (port_value tbl s) (fun p => req ((1 <=? p) && (p <=? 65535)) [p])
    else if existsb (ends_with w_range) (removelast toks) then
      match tl toks with
      | a :: b :: _ =>
          bind (port_value tbl a) (fun lo => bind (port_value tbl b) (fun hi =>
            if hi <? lo then Raise E_RequirementFailure
            else req ((1 <=? lo) && (hi <=? 65535)) (zrange lo hi)))
      | _ => Raise E_IndexError
      end
    else if existsb (ends_with w_lt) (removelast toks) then
      bind (port_value tbl (last toks [])) (fun hi => req ((2 <=? hi) && (hi <=? 65535)) (zrange 1 (hi - 1)))
    else if existsb (ends_with w_gt) (removelast toks) then
      bind (port_value tbl (last toks [])) (fun lo => req ((0 <? lo) && (lo <? 65535)) (zrange (lo + 1) 65535))
    else Raise E_NotImplementedError.
  Proof.
    intros Hne Hns B1 B2. unfold l4_ports, rendered. rewrite strip_join_sp by assumption.
    assert (re_split_ws (join [sp] toks) = toks) as Hsplit.
    { unfold re_split_ws. pose proof (join_sp_nonempty toks Hne Hns) as J.
      destruct (join [sp] toks) eqn:E; [congruence|]. rewrite <- E. apply split_ws_join; assumption. }
    rewrite Hsplit.
    change kw_neq with (w_neq ++ [sp]). change kw_eq with (w_eq ++ [sp]). change kw_range with (w_range ++ [sp]).
    change kw_lt with (w_lt ++ [sp]). change kw_gt with (w_gt ++ [sp]).
    rewrite !dispatch_contains by (try assumption; kwfacts).
    rewrite single_token_join by assumption. reflexivity.
  Qed.

  Lemma strip_nonspace t : nonspace t -> strip t = t.
  Proof. intros [H1 H2]. unfold strip. apply strip_by_tight. apply tight_all; assumption. Qed.

  (* closed facts about the keywords themselves *)
  Lemma kw_table :
    ends_with w_neq w_eq = false /\ ends_with w_neq w_range = false /\ ends_with w_neq w_lt = false /\ ends_with w_neq w_gt = false /\
    ends_with w_eq w_range = false /\ ends_with w_eq w_lt = false /\ ends_with w_eq w_gt = false /\
    ends_with w_range w_lt = false /\ ends_with w_range w_gt = false /\ ends_with w_lt w_gt = false /\
    ends_with w_neq w_neq = true /\ ends_with w_eq w_eq = true /\ ends_with w_range w_range = true /\
    ends_with w_lt w_lt = true /\ ends_with w_gt w_gt = true /\ ends_with w_eq w_neq = true.
  Proof. repeat split; reflexivity. Qed.

  Inductive uop := UEq | UBare | UNeq | ULt | UGt.
  Definition utoks (o : uop) (t : str) : list str :=
    match o with UEq => [w_eq; t] | UBare => [t] | UNeq => [w_neq; t] | ULt => [w_lt; t] | UGt => [w_gt; t] end.
  Definition uvalid (o : uop) (v : Z) : Prop :=
    match o with ULt => 2 <= v <= 65535 | UGt => 1 <= v <= 65534 | _ => 1 <= v <= 65535 end.
  Definition udenote (o : uop) (v x : Z) : bool :=
    match o with UEq | UBare => x =? v | UNeq => negb (x =? v) | ULt => x <? v | UGt => v <? x end.

  Lemma utoks_ok o t : tok_good t -> utoks o t <> [] /\ Forall nonspace (utoks o t).
  Proof.
    intros [Ht _]. destruct kw_nonspace as (K1 & K2 & K3 & K4 & K5).
    destruct o; simpl; (split; [discriminate|]); repeat (apply Forall_cons; [assumption|]); apply Forall_nil.
  Qed.

  Lemma req_true b v : b = true -> req b v = Ok v.
  Proof. intros ->. reflexivity. Qed.
  Lemma req_false b v : b = false -> req b v = Raise E_RequirementFailure.
  Proof. intros ->. reflexivity. Qed.

  (* C20 ports_denote / ports_reject for eq N, bare N, neq N, lt N, gt N (N a number or a service name) *)
  Lemma ports_unary o a v lead trail : blanks lead -> blanks trail -> arg_val a = Some v ->
    (uvalid o v -> l4_ports tbl (rendered lead (utoks o (arg_tok a)) trail) = Ok (filter (udenote o v) (zrange 1 65535))) /\
    (~ uvalid o v -> l4_ports tbl (rendered lead (utoks o (arg_tok a)) trail) = Raise E_RequirementFailure).
  Proof.
    intros B1 B2 Hv. destruct (arg_good a v Hv) as [G PV]. pose proof G as (Hns & G1 & G2 & G3 & G4 & G5).
    destruct (utoks_ok o _ G) as [U1 U2]. rewrite l4_ports_rendered by assumption.
    destruct kw_table as (T1 & T2 & T3 & T4 & T5 & T6 & T7 & T8 & T9 & T10 & T11 & T12 & T13 & T14 & T15 & T16).
    destruct o; cbn [utoks removelast existsb last tl join]; cbv zeta.
    - (* eq *) rewrite T1, T12. cbn [orb]. rewrite strip_nonspace by assumption. rewrite PV. cbn [bind]. split; intros V.
      + rewrite req_true by (simpl in V; apply andb_true_iff; split; apply Z.leb_le; lia).
        unfold udenote. rewrite filter_eq_zrange by (simpl in V; lia). reflexivity.
      + apply req_false. simpl in V. apply andb_false_iff.
        destruct (Z.leb_spec 1 v); [right; apply Z.leb_gt; lia|left; reflexivity].
    - (* bare *) rewrite PV. cbn [bind]. split; intros V.
      + rewrite req_true by (simpl in V; apply andb_true_iff; split; apply Z.leb_le; lia).
        unfold udenote. rewrite filter_eq_zrange by (simpl in V; lia). reflexivity.
      + apply req_false. simpl in V. apply andb_false_iff.
        destruct (Z.leb_spec 1 v); [right; apply Z.leb_gt; lia|left; reflexivity].
    - (* neq *) rewrite T11. cbn [orb]. rewrite PV. cbn [bind]. split; intros V.
      + rewrite req_true by (simpl in V; apply andb_true_iff; split; apply Z.leb_le; lia). reflexivity.
      + apply req_false. simpl in V. apply andb_false_iff.
        destruct (Z.leb_spec 1 v); [right; apply Z.leb_gt; lia|left; reflexivity].
    - (* lt *) rewrite T3, T6, T8, T14. cbn [orb]. rewrite PV. cbn [bind]. split; intros V.
      + rewrite req_true by (simpl in V; apply andb_true_iff; split; apply Z.leb_le; lia).
        unfold udenote. rewrite filter_lt_zrange by (simpl in V; lia). reflexivity.
      + apply req_false. simpl in V. apply andb_false_iff.
        destruct (Z.leb_spec 2 v); [right; apply Z.leb_gt; lia|left; reflexivity].
    - (* gt *) rewrite T4, T7, T9, T10, T15. cbn [orb]. rewrite PV. cbn [bind]. split; intros V.
      + rewrite req_true by (simpl in V; apply andb_true_iff; split; apply Z.ltb_lt; lia).
        unfold udenote. rewrite filter_gt_zrange by (simpl in V; lia). reflexivity.
      + apply req_false. simpl in V. apply andb_false_iff.
        destruct (Z.ltb_spec 0 v); [right; apply Z.ltb_ge; lia|left; reflexivity].
  Qed.

  (* C20 ports_denote / ports_reject for range A B *)
  Lemma ports_range a b lo hi lead trail : blanks lead -> blanks trail ->
    arg_val a = Some lo -> arg_val b = Some hi ->
    (1 <= lo <= hi /\ hi <= 65535 ->
       l4_ports tbl (rendered lead [w_range; arg_tok a; arg_tok b] trail)
       = Ok (filter (fun x => (lo <=? x) && (x <=? hi)) (zrange 1 65535))) /\
    (~ (1 <= lo <= hi /\ hi <= 65535) ->
       l4_ports tbl (rendered lead [w_range; arg_tok a; arg_tok b] trail) = Raise E_RequirementFailure).
  Proof.
    intros B1 B2 Ha Hb.
    destruct (arg_good a lo Ha) as [(Hns & G1 & G2 & G3 & G4 & G5) PVa].
    destruct (arg_good b hi Hb) as [(Hnsb & _) PVb].
    destruct kw_nonspace as (_ & _ & K3 & _ & _).
    rewrite l4_ports_rendered; [|discriminate|repeat (apply Forall_cons; [assumption|]); apply Forall_nil|assumption|assumption].
    destruct kw_table as (T1 & T2 & T3 & T4 & T5 & T6 & T7 & T8 & T9 & T10 & T11 & T12 & T13 & T14 & T15 & T16).
    cbn [removelast existsb last tl]. cbv zeta. rewrite T2, G1, T5, G2, T13. cbn [orb].
    rewrite PVa, PVb. cbn [bind]. split; intros V.
    - destruct (Z.ltb_spec hi lo); [lia|].
      rewrite req_true by (apply andb_true_iff; split; apply Z.leb_le; lia).
      rewrite filter_zrange_interval by lia. reflexivity.
    - destruct (Z.ltb_spec hi lo); [reflexivity|]. apply req_false. apply andb_false_iff.
      destruct (Z.leb_spec 1 lo); [right; apply Z.leb_gt; lia|left; reflexivity].
  Qed.

  (* a token that is neither a table name nor an integer is rejected *)
  Lemma port_value_unknown t : tbl_get tbl t = None -> py_int t = None -> port_value tbl t = Raise E_ValueError.
  Proof. intros H1 H2. unfold port_value. rewrite H1, H2. reflexivity. Qed.
End Tbl.

(* ================================================================== the regenerated tables *)
(* names_no_operator_collision: checked by computation over the regenerated tables (bound = table size) *)
Lemma tcp_table_clean : tbl_clean asa_tcp_ports = true.
Proof. vm_compute. reflexivity. Qed.
Lemma udp_table_clean : tbl_clean asa_udp_ports = true.
Proof. vm_compute. reflexivity. Qed.

Definition proto_tbl (tcp : bool) : list (str * Z) := if tcp then asa_tcp_ports else asa_udp_ports.
Definition proto_name (tcp : bool) : str := if tcp then s_tcp else s_udp.
Lemma proto_tbl_clean tcp : tbl_clean (proto_tbl tcp) = true.
Proof. destruct tcp; [exact tcp_table_clean|exact udp_table_clean]. Qed.

Lemma l4_object_proto tcp spec : l4_object (proto_name tcp) spec s_asa = l4_ports (proto_tbl tcp) spec.
Proof. destruct tcp; reflexivity. Qed.

Lemma l4_object_unary tcp o a v lead trail : blanks lead -> blanks trail -> arg_val (proto_tbl tcp) a = Some v ->
  (uvalid o v -> l4_object (proto_name tcp) (rendered lead (utoks o (arg_tok a)) trail) s_asa
                 = Ok (filter (udenote o v) (zrange 1 65535))) /\
  (~ uvalid o v -> exists e, l4_object (proto_name tcp) (rendered lead (utoks o (arg_tok a)) trail) s_asa = Raise e).
Proof.
  intros B1 B2 H. rewrite l4_object_proto.
  destruct (ports_unary (proto_tbl tcp) (proto_tbl_clean tcp) o a v lead trail B1 B2 H) as [P1 P2].
  split; [exact P1|]. intros V. eexists. apply P2. exact V.
Qed.

Lemma l4_object_range tcp a b lo hi lead trail : blanks lead -> blanks trail ->
  arg_val (proto_tbl tcp) a = Some lo -> arg_val (proto_tbl tcp) b = Some hi ->
  (1 <= lo <= hi /\ hi <= 65535 ->
     l4_object (proto_name tcp) (rendered lead [w_range; arg_tok a; arg_tok b] trail) s_asa
     = Ok (filter (fun x => (lo <=? x) && (x <=? hi)) (zrange 1 65535))) /\
  (~ (1 <= lo <= hi /\ hi <= 65535) ->
     exists e, l4_object (proto_name tcp) (rendered lead [w_range; arg_tok a; arg_tok b] trail) s_asa = Raise e).
Proof.
  intros B1 B2 Ha Hb. rewrite l4_object_proto.
  destruct (ports_range (proto_tbl tcp) (proto_tbl_clean tcp) a b lo hi lead trail B1 B2 Ha Hb) as [P1 P2].
  split; [exact P1|]. intros V. eexists. apply P2. exact V.
Qed.

Lemma l4_object_other_protocol proto spec syntax :
  str_eqb syntax s_asa = false \/ (str_eqb proto s_tcp = false /\ str_eqb proto s_udp = false) ->
  l4_object proto spec syntax = Raise E_NotImplementedError.
Proof.
  unfold l4_object. intros [H|[H1 H2]]; [rewrite H; reflexivity|]. rewrite H1, H2. destruct (str_eqb syntax s_asa); reflexivity.
Qed.

(* non-vacuity *)
Example ex_eq_www : l4_object s_tcp [32; 101; 113; 32; 119; 119; 119; 32]%N s_asa = Ok [80].     (* " eq www " *)
Proof. vm_compute. reflexivity. Qed.
Example ex_arg : arg_val asa_tcp_ports (AName [115; 115; 104]%N) = Some 22 /\ arg_val asa_udp_ports (ANum 65535) = Some 65535.
Proof. vm_compute. auto. Qed.
Example ex_range_names : exists l, l4_object s_tcp [114;97;110;103;101;32;115;115;104;32;115;109;116;112]%N s_asa = Ok l /\ l = [22; 23; 24; 25].
Proof. eexists. split; vm_compute; reflexivity. Qed.     (* "range ssh smtp" *)
Example ex_neq_rejected : l4_object s_udp [110; 101; 113; 32; 48]%N s_asa = Raise E_RequirementFailure.      (* "neq 0" *)
Proof. vm_compute. reflexivity. Qed.
