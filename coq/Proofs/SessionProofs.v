(* C06 / C07: list-operation frame theorems and the session invariant. *)
From Coq Require Import List Arith Bool NArith ZArith Lia.
Require Import CCP.Lib.Res CCP.Lib.PyStr CCP.Model.Links CCP.Model.Parse CCP.Model.Family CCP.Model.Session
               CCP.Proofs.ParseProofs CCP.Proofs.FamilyProofs CCP.Proofs.C03Proofs.
Import ListNotations.

(* ================================================================ C06: the list operations *)
Lemma existsb_S i idxs : existsb (Nat.eqb (S i)) (map S idxs) = existsb (Nat.eqb i) idxs.
Proof. induction idxs as [|a t IH]; [reflexivity|]. cbn [map existsb]. rewrite IH. reflexivity. Qed.

Section ListOps.
Context {A : Type}.

Lemma insert_at_length k (x : A) l : length (insert_at k x l) = S (length l).
Proof. unfold insert_at. rewrite app_length. cbn. rewrite <- plus_n_Sm, <- app_length, firstn_skipn. reflexivity. Qed.

(* exactly one line is added, at index k; every other line keeps its text and relative order *)
Lemma remove_idx_shift (idxs : list nat) : forall (l : list A) i,
  remove_idx (map S idxs) (S i) l = remove_idx idxs i l.
Proof.
  induction l as [|y r IH]; intros i; cbn [remove_idx]; [reflexivity|].
  rewrite existsb_S, IH. reflexivity.
Qed.

Lemma remove_idx_none : forall (l : list A) i idxs, (forall j, In j idxs -> j < i) -> remove_idx idxs i l = l.
Proof.
  induction l as [|y r IH]; intros i idxs H; cbn [remove_idx]; [reflexivity|].
  assert (E : existsb (Nat.eqb i) idxs = false).
  { apply not_true_is_false. intros Hx. apply existsb_exists in Hx. destruct Hx as [j [Hj Hij]].
    apply Nat.eqb_eq in Hij. subst j. specialize (H i Hj). lia. }
  rewrite E. f_equal. apply IH. intros j Hj. specialize (H j Hj). lia.
Qed.

Theorem insert_then_remove k (x : A) l : k <= length l -> remove_idx [k] 0 (insert_at k x l) = l.
Proof.
  revert l. induction k as [|k IH]; intros l Hk.
  - unfold insert_at. cbn. apply remove_idx_none. intros j [<-|[]]. lia.
  - destruct l as [|y r]; [cbn in Hk; lia|]. unfold insert_at. cbn [firstn skipn app remove_idx existsb Nat.eqb orb].
    f_equal. change [S k] with (map S [k]). rewrite remove_idx_shift. apply IH. cbn in Hk. lia.
Qed.

Theorem insert_at_nth k (x : A) l d : k <= length l ->
  nth k (insert_at k x l) d = x /\
  (forall j, j < k -> nth j (insert_at k x l) d = nth j l d) /\
  (forall j, k <= j -> nth (S j) (insert_at k x l) d = nth j l d).
Proof.
  intros Hk. unfold insert_at. assert (Hf : length (firstn k l) = k) by (apply firstn_length_le; exact Hk).
  split; [|split].
  - rewrite app_nth2 by lia. rewrite Hf, Nat.sub_diag. reflexivity.
  - intros j Hj. rewrite app_nth1 by lia. rewrite <- (firstn_skipn k l) at 2. rewrite app_nth1 by lia. reflexivity.
  - intros j Hj. rewrite app_nth2 by lia. rewrite Hf. replace (S j - k) with (S (j - k)) by lia. cbn.
    rewrite <- (firstn_skipn k l) at 2. rewrite app_nth2 by lia. rewrite Hf. reflexivity.
Qed.

(* remove_idx keeps exactly the lines whose index is not selected, in order *)
Fixpoint keep_idx (idxs : list nat) (i : nat) (l : list A) : list (nat * A) :=
  match l with
  | [] => []
  | x :: r => if existsb (Nat.eqb i) idxs then keep_idx idxs (S i) r else (i, x) :: keep_idx idxs (S i) r
  end.
Theorem remove_idx_spec idxs : forall (l : list A) i, remove_idx idxs i l = map snd (keep_idx idxs i l).
Proof.
  induction l as [|x r IH]; intros i; cbn; [reflexivity|].
  destruct (existsb (Nat.eqb i) idxs); cbn; rewrite IH; reflexivity.
Qed.
Theorem keep_idx_spec idxs : forall (l : list A) i j x,
  In (j, x) (keep_idx idxs i l) <-> i <= j /\ nth_error l (j - i) = Some x /\ ~ In j idxs.
Proof.
  induction l as [|y r IH]; intros i j x; cbn [keep_idx].
  - split; [intros []|]. intros (_ & H & _). destruct (j - i); discriminate.
  - destruct (existsb (Nat.eqb i) idxs) eqn:E.
    + rewrite IH. apply existsb_exists in E. destruct E as [i' [Hi' Heq]]. apply Nat.eqb_eq in Heq. subst i'.
      split.
      * intros (H1 & H2 & H3). split; [lia|]. split; [|exact H3]. replace (j - i) with (S (j - S i)) by lia. exact H2.
      * intros (H1 & H2 & H3). destruct (Nat.eq_dec i j) as [->|Hne]; [contradiction|].
        split; [lia|]. split; [|exact H3]. replace (j - i) with (S (j - S i)) in H2 by lia. exact H2.
    + cbn [In]. rewrite IH. split.
      * intros [H|(H1 & H2 & H3)].
        -- inversion H; subst. split; [lia|]. rewrite Nat.sub_diag. split; [reflexivity|].
           intros Hin. assert (existsb (Nat.eqb j) idxs = true) by (apply existsb_exists; exists j; split; [exact Hin|apply Nat.eqb_refl]). congruence.
        -- split; [lia|]. split; [|exact H3]. replace (j - i) with (S (j - S i)) by lia. exact H2.
      * intros (H1 & H2 & H3). destruct (Nat.eq_dec i j) as [->|Hne].
        -- left. rewrite Nat.sub_diag in H2. cbn in H2. inversion H2. reflexivity.
        -- right. split; [lia|]. split; [|exact H3]. replace (j - i) with (S (j - S i)) in H2 by lia. exact H2.
Qed.

Theorem set_nth_spec i (x : A) : forall l d, i < length l ->
  length (set_nth i x l) = length l /\ nth i (set_nth i x l) d = x /\ (forall j, j <> i -> nth j (set_nth i x l) d = nth j l d).
Proof.
  induction i as [|i IH]; intros l d Hi; destruct l as [|y r]; cbn in Hi; try lia.
  - cbn. repeat split. intros j Hj. destruct j; [lia|reflexivity].
  - cbn [set_nth]. destruct (IH r d ltac:(lia)) as (H1 & H2 & H3). cbn [length nth]. repeat split; [lia|exact H2|].
    intros j Hj. destruct j as [|j]; [reflexivity|]. cbn. apply H3. lia.
Qed.

(* regex insertion: one copy of x per flagged line, directly before (after) it; dropping the copies gives l back *)
Fixpoint drop_inserted (after : bool) (l : list A) (m : list bool) : list A :=
  match m with
  | [] => l
  | f :: g => match l with
              | [] => []
              | y :: r => if f then (if after then y :: drop_inserted after (tl r) g
                                     else match r with [] => [] | z :: r' => z :: drop_inserted after r' g end)
                          else y :: drop_inserted after r g
              end
  end.
Theorem insert_flagged_length after (x : A) : forall l m, length m = length l ->
  length (insert_flagged after x l m) = length l + length (filter (fun b => b) m).
Proof.
  induction l as [|y r IH]; intros [|f g] Hl; cbn in *; try lia.
  destruct f; [destruct after|]; cbn; rewrite IH by lia; lia.
Qed.
Theorem insert_flagged_frame after (x : A) : forall l m, length m = length l ->
  drop_inserted after (insert_flagged after x l m) m = l.
Proof.
  induction l as [|y r IH]; intros [|f g] Hl; cbn in *; try lia; try reflexivity.
  destruct f; [destruct after|]; cbn; rewrite IH by lia; reflexivity.
Qed.
End ListOps.

Lemma py_insert_index_le k n : py_insert_index k n <= n.
Proof. unfold py_insert_index. destruct (_ <? 0)%Z; [lia|apply Nat.le_min_r]. Qed.
Lemma py_pop_index_lt k n j : py_pop_index k n = Some j -> j < n.
Proof.
  unfold py_pop_index. set (k' := if (k <? 0)%Z then (k + Z.of_nat n)%Z else k).
  destruct ((k' <? 0) || (Z.of_nat n <=? k'))%Z eqn:E; [discriminate|]. intros H; inversion H; subst.
  apply orb_false_iff in E. destruct E as [E1 E2]. apply Z.ltb_ge in E1. apply Z.leb_gt in E2. lia.
Qed.

(* what each editing operation does to the text (committed state) *)
Theorem effect_insert o ls k x : exists j, j <= length ls /\ text_effect o ls (OInsert k x) = Ok (insert_at j x ls).
Proof. exists (py_insert_index k (length ls)). split; [apply py_insert_index_le|reflexivity]. Qed.
Theorem effect_append o ls x : text_effect o ls (OAppend x) = Ok (insert_at (length ls) x ls).
Proof. unfold text_effect, insert_at. rewrite firstn_all, skipn_all. reflexivity. Qed.
Theorem effect_pop o ls k : (exists j, j < length ls /\ text_effect o ls (OPop k) = Ok (remove_idx [j] 0 ls)) \/ text_effect o ls (OPop k) = Raise E_IndexError.
Proof. unfold text_effect. destruct (py_pop_index k (length ls)) as [j|] eqn:E; [left; exists j; split; [eapply py_pop_index_lt; eauto|reflexivity]|right; reflexivity]. Qed.
Theorem effect_obj_insert o ls after i x : i < length ls ->
  text_effect o ls (OObjIns after i x) = Ok (insert_at (if after then S i else i) x ls).
Proof. intros H. unfold text_effect. apply Nat.ltb_lt in H. rewrite H. reflexivity. Qed.
Theorem effect_delete o ls i : i < length ls ->
  text_effect o ls (ODelete i) = Ok (remove_idx (i :: all_children (tree_parents o ls) i) 0 ls).
Proof. intros H. unfold text_effect. apply Nat.ltb_lt in H. rewrite H. reflexivity. Qed.
Theorem effect_set_text o ls i x : i < length ls ->
  text_effect o ls (OSetText i x) = Ok (set_nth i (PL (escape_braces (ptext x)) (pban x)) ls).
Proof. intros H. unfold text_effect. apply Nat.ltb_lt in H. rewrite H. reflexivity. Qed.
Theorem effect_list_insert o ls after m x : text_effect o ls (OListIns after m x) = Ok (insert_flagged after x ls m).
Proof. reflexivity. Qed.
Theorem effect_atf o ls i k x ls' : text_effect o ls (OAtf i k x) = Ok ls' ->
  ls' = insert_at k x ls /\ atf_ok o ls i k x = true.
Proof. unfold text_effect. destruct (atf_ok o ls i k x); [intros H; inversion H; auto|discriminate]. Qed.

(* append_to_family's index arithmetic (child case, auto_indent_width 1): the index is directly after the target's
   last descendant -- after the target, after EVERY descendant, and no further (so the new line lands inside the family
   and splits no descendant run) *)
Theorem atf_child_index_iff ps i a b k :
  atf_child_index ps i a b = Some k <-> b = S a /\ k = S (family_endpoint ps i).
Proof.
  unfold atf_child_index. destruct (Nat.eqb_spec b (S a)) as [E|E].
  - split; [intros H; inversion H; auto|intros [_ ->]; reflexivity].
  - split; [discriminate|intros [H _]; contradiction].
Qed.
Theorem atf_child_index_in_family ps i a b k : WFmap ps -> atf_child_index ps i a b = Some k ->
  i < k /\ k = S (family_endpoint ps i) /\ (forall x, In x (all_children ps i) -> x < k).
Proof.
  intros W H. apply atf_child_index_iff in H. destruct H as [_ ->].
  destruct (family_endpoint_spec ps i W) as [A [_ C]].
  split; [apply le_n_S in C; exact C|]. split; [reflexivity|]. intros x Hx. apply A in Hx. apply le_n_S in Hx. exact Hx.
Qed.

(* F43: the sibling placement with children splits the target's own family: on a / b / c / e (b, c children of a)
   the code's index for a payload x at a's indent is 0 + 2 = 2, and c changes parent from a to x *)
Theorem atf_sibling_index_refuted :
  exists o ls i x, let ps := tree_parents o ls in let k := atf_sibling_index_children ps i in
    ind (linfo_of (o_delims o) (ptext x)) = ind (linfo_of (o_delims o) (ptext (nth i ls (PL [] None)))) /\
    has_children ps i = true /\
    parent_of ps 2 = Some 0 /\ parent_of (tree_parents o (insert_at k x ls)) 3 = Some 2 /\
    atf_ok o ls i k x = false.
Proof.
  exists (PO true false [33%N]), [PL [97%N] None; PL [32; 98]%N None; PL [32; 99]%N None; PL [101%N] None], 0, (PL [120%N] None).
  vm_compute. repeat split; reflexivity.
Qed.

(* delete removes exactly the line and its descendants (descendants = transitive closure of the links, C03) *)
Theorem delete_removes_family o ls i j x : i < length ls ->
  forall ls', text_effect o ls (ODelete i) = Ok ls' ->
  (In (j, x) (keep_idx (i :: all_children (tree_parents o ls) i) 0 ls) <->
   nth_error ls j = Some x /\ j <> i /\ ~ ancestor (tree_parents o ls) i j).
Proof.
  intros Hi ls' _. rewrite keep_idx_spec. rewrite Nat.sub_0_r. cbn [In].
  assert (W : WFmap (tree_parents o ls)) by (intros a b H; apply (pass_parent_before_child o ls a b H)).
  rewrite (all_children_spec _ i j W). split.
  - intros (_ & H & Hn). repeat split; auto.
  - intros (H & H1 & H2). split; [lia|]. split; [exact H|]. intros [E|E]; [congruence|contradiction].
Qed.

(* ================================================================ C07: the session *)
Definition ok_op (p : op) : Prop :=
  match p with
  | OInsert _ x | OAppend x | OListIns _ _ x | OObjIns _ _ x | OAtf _ _ x => oracle_ok x
  | OSetText _ x => oracle_ok (PL (escape_braces (ptext x)) (pban x))
  | _ => True
  end.

Lemma Forall_firstn' {A} (P : A -> Prop) : forall k l, Forall P l -> Forall P (firstn k l).
Proof. induction k as [|k IH]; intros l H; [constructor|]. destruct l; [constructor|]. inversion H; subst. cbn. constructor; auto. Qed.
Lemma Forall_skipn' {A} (P : A -> Prop) : forall k l, Forall P l -> Forall P (skipn k l).
Proof. induction k as [|k IH]; intros l H; [exact H|]. destruct l; [constructor|]. inversion H; subst. cbn. auto. Qed.
Lemma Forall_insert_at {A} (P : A -> Prop) k x l : P x -> Forall P l -> Forall P (insert_at k x l).
Proof. intros Hx Hl. unfold insert_at. apply Forall_app. split; [apply Forall_firstn'; exact Hl|constructor; [exact Hx|apply Forall_skipn'; exact Hl]]. Qed.

Lemma Forall_remove_idx {A} (P : A -> Prop) idxs : forall (l : list A) i, Forall P l -> Forall P (remove_idx idxs i l).
Proof. induction l as [|y r IH]; intros i H; cbn; [constructor|]. inversion H; subst. destruct (existsb _ idxs); [apply IH; assumption|constructor; auto]. Qed.
Lemma Forall_set_nth {A} (P : A -> Prop) x : forall i (l : list A), P x -> Forall P l -> Forall P (set_nth i x l).
Proof. induction i as [|i IH]; intros l Hx H; destruct l as [|y r]; cbn; try constructor; inversion H; subst; auto. Qed.
Lemma Forall_insert_flagged {A} (P : A -> Prop) after x : forall (l : list A) m, P x -> Forall P l -> Forall P (insert_flagged after x l m).
Proof.
  induction l as [|y r IH]; intros m Hx H; [destruct m; constructor|]. inversion H; subst.
  destruct m as [|f g]; [cbn; exact H|]. cbn. destruct f; [destruct after|]; repeat constructor; auto.
Qed.

Lemma text_effect_ok o ls p ls' : Forall oracle_ok ls -> ok_op p -> text_effect o ls p = Ok ls' -> Forall oracle_ok ls'.
Proof.
  intros Hl Hp. destruct p; unfold text_effect; cbn [ok_op] in Hp.
  - intros H; inversion H; subst. apply Forall_insert_at; assumption.
  - intros H; inversion H; subst. apply Forall_app. split; [assumption|constructor; [assumption|constructor]].
  - destruct (py_pop_index k (length ls)); [|discriminate]. intros H; inversion H; subst. apply Forall_remove_idx; assumption.
  - intros H; inversion H; subst. apply Forall_insert_flagged; assumption.
  - destruct (i <? length ls); [|discriminate]. intros H; inversion H; subst. apply Forall_insert_at; assumption.
  - destruct (i <? length ls); [|discriminate]. intros H; inversion H; subst. apply Forall_remove_idx; assumption.
  - destruct (i <? length ls); [|discriminate]. intros H; inversion H; subst. apply Forall_set_nth; assumption.
  - destruct (atf_ok o ls i k x); [|discriminate]. intros H; inversion H; subst. apply Forall_insert_at; assumption.
  - intros H; inversion H; subst. assumption.
Qed.

(* a state is COMMITTED when its lines are what the constructor makes of its own text and it is not dirty *)
Definition committed (o : popts) (st : sess) : Prop :=
  s_dirty st = false /\ ibl_filter o (s_lines st) = s_lines st /\ Forall oracle_ok (s_lines st).

Theorem start_committed o ls : Forall oracle_ok ls -> committed o (start o ls).
Proof.
  intros H. unfold committed, start, construct_texts. cbn [s_dirty s_lines]. split; [reflexivity|split].
  - rewrite (ibl_filter_idempotent o ls H). apply ibl_filter_idempotent. exact H.
  - apply ibl_filter_ok. apply ibl_filter_ok. exact H.
Qed.

(* with auto-commit every successful operation ends in a committed state: the tree is that of a fresh
   parse of the current text, whatever the history *)
Theorem step_autocommit_committed o st p st' : Forall oracle_ok (s_lines st) -> ok_op p ->
  step o true st p = Ok st' -> committed o st'.
Proof.
  intros Hl Hp. unfold step. destruct (text_effect o (s_lines st) p) as [ls'|e] eqn:E; [|discriminate].
  pose proof (text_effect_ok o _ p ls' Hl Hp E) as Hok.
  assert (G : committed o (SE (ibl_filter o ls') false)).
  { split; [reflexivity|split]; cbn [s_lines]; [apply ibl_filter_idempotent; exact Hok|apply ibl_filter_ok; exact Hok]. }
  destruct p; intros H; inversion H; subst; exact G.
Qed.

(* an explicit commit always ends in a committed state, auto-commit or not *)
Theorem commit_committed o ac st st' : Forall oracle_ok (s_lines st) -> step o ac st OCommit = Ok st' -> committed o st'.
Proof.
  intros Hl. unfold step, text_effect. intros H; inversion H; subst.
  split; [reflexivity|split]; cbn [s_lines]; [apply ibl_filter_idempotent; exact Hl|apply ibl_filter_ok; exact Hl].
Qed.

(* committing again changes nothing *)
Theorem commit_twice o ac st st1 st2 : Forall oracle_ok (s_lines st) ->
  step o ac st OCommit = Ok st1 -> step o ac st1 OCommit = Ok st2 -> st2 = st1.
Proof.
  intros Hl. unfold step, text_effect. intros H1 H2. inversion H1; subst. inversion H2; subst. cbn [s_lines].
  rewrite ibl_filter_idempotent by exact Hl. reflexivity.
Qed.

(* every state reached by a history under auto-commit is committed *)
Theorem inv_hist_autocommit o : forall ps st, committed o st -> Forall ok_op ps ->
  Forall (fun r => match r with Some st' => committed o st' | None => True end) (run_hist o true st ps).
Proof.
  induction ps as [|p r IH]; intros st Hc Hp; cbn [run_hist]; [constructor|].
  inversion Hp as [|? ? Hp1 Hp2]; subst. destruct (step o true st p) as [st'|e] eqn:E.
  - assert (Hc' : committed o st') by (apply (step_autocommit_committed o st p st'); [apply Hc|exact Hp1|exact E]).
    constructor; [exact Hc'|]. apply IH; assumption.
  - constructor; [exact I|]. apply IH; assumption.
Qed.

(* the committed tree is a well-formed forest (C03) *)
Theorem committed_forest o st : committed o st -> WFmap (tree_parents o (s_lines st)).
Proof. intros _ i p H. apply (pass_parent_before_child o _ i p H). Qed.

(* searches: refused exactly in dirty states; dirty states arise only without auto-commit, from the
   operations that refresh the checkpoint, and end at the next commit *)
Theorem search_refused_when_dirty o st p st' : s_dirty st = false ->
  step o false st p = Ok st' -> (search_allowed st' = false <-> (refreshes_checkpoint p = true /\ p <> OCommit)).
Proof.
  intros Hd. unfold step. destruct (text_effect o (s_lines st) p) as [ls'|e]; [|discriminate].
  unfold search_allowed. destruct p; intros H; inversion H; subst; cbn [s_dirty refreshes_checkpoint]; rewrite ?Hd; cbn;
    split; try (intros [? ?]); try discriminate; try congruence; try (intros; split; [reflexivity|discriminate]).
Qed.

Theorem search_ok_after_commit o ac st st' : step o ac st OCommit = Ok st' -> search_allowed st' = true.
Proof. unfold step, text_effect. intros H; inversion H; subst. reflexivity. Qed.

Theorem search_ok_with_autocommit o st p st' : step o true st p = Ok st' -> search_allowed st' = true.
Proof.
  unfold step. destruct (text_effect o (s_lines st) p) as [ls'|e]; [|discriminate].
  destruct p; intros H; inversion H; subst; reflexivity.
Qed.

(* non-vacuity: auto_commit off, insert a blank line: dirty until commit; the C06 finding F35 as an atf_ok failure *)
Example ex_session :
  let o := PO true false [33%N] in
  let st := start o [PL [97%N] None; PL [32; 98]%N None] in
  match step o false st (OInsert 1%Z (PL [] None)) with
  | Ok st1 => search_allowed st1 = false /\ match step o false st1 OCommit with Ok st2 => search_allowed st2 = true /\ length (s_lines st2) = 3 | _ => False end
  | _ => False
  end.
Proof. vm_compute. auto. Qed.
Example ex_atf_f35 :
  let o := PO true false [33%N] in
  atf_ok o [PL [97%N] None; PL [32; 32; 98]%N None; PL [32; 33; 120]%N None; PL [99%N] None] 0 2 (PL [32; 115]%N None) = false /\ atf_ok o [PL [97%N] None; PL [32; 32; 98]%N None; PL [99%N] None] 0 2 (PL [32; 115]%N None) = true.
Proof. vm_compute. auto. Qed.
