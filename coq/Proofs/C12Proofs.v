(* C12: membership, stated about the methods translated from /repo (gen_v4_contains, gen_v6_contains). *)
From Coq Require Import ZArith Lia Bool.
Require Import CCP.Lib.Res CCP.Model.IPRef CCP.gen.GenIP CCP.gen.GenOK12 CCP.Proofs.IPProofs.
Open Scope Z_scope.

Lemma W4 : 0 < 32. Proof. lia. Qed.
Lemma W6 : 0 < 128. Proof. lia. Qed.

Lemma ok_true_iff (b : bool) : Ok b = Ok true <-> b = true.
Proof. split; [intros H; inversion H; reflexivity | intros ->; reflexivity]. Qed.

Lemma v4_contains_iff y x : wf 32 y -> wf 32 x ->
  gen_v4_contains y x = Ok true <-> subnet_spec 32 y x.
Proof. intros. rewrite gen_v4_contains_ok, ok_true_iff by assumption. apply contains_iff; auto using W4. Qed.
Lemma v6_contains_iff y x : wf 128 y -> wf 128 x ->
  gen_v6_contains y x = Ok true <-> subnet_spec 128 y x.
Proof. intros. rewrite gen_v6_contains_ok, ok_true_iff by assumption. apply contains_iff; auto using W6. Qed.

Lemma v4_contains_total y x : wf 32 y -> wf 32 x -> exists b, gen_v4_contains y x = Ok b.
Proof. intros. rewrite gen_v4_contains_ok by assumption. eauto. Qed.
Lemma v6_contains_total y x : wf 128 y -> wf 128 x -> exists b, gen_v6_contains y x = Ok b.
Proof. intros. rewrite gen_v6_contains_ok by assumption. eauto. Qed.

Lemma v4_contains_iff_range y x : wf 32 y -> wf 32 x ->
  gen_v4_contains y x = Ok true <->
  (forall a, netw 32 x <= a <= lastaddr 32 x -> netw 32 y <= a <= lastaddr 32 y).
Proof. intros. rewrite gen_v4_contains_ok, ok_true_iff by assumption. apply contains_iff_range; auto using W4. Qed.
Lemma v6_contains_iff_range y x : wf 128 y -> wf 128 x ->
  gen_v6_contains y x = Ok true <->
  (forall a, netw 128 x <= a <= lastaddr 128 x -> netw 128 y <= a <= lastaddr 128 y).
Proof. intros. rewrite gen_v6_contains_ok, ok_true_iff by assumption. apply contains_iff_range; auto using W6. Qed.

Lemma v4_contains_refl y : wf 32 y -> gen_v4_contains y y = Ok true.
Proof. intros. rewrite gen_v4_contains_ok by assumption. f_equal. apply contains_refl; auto using W4. Qed.
Lemma v6_contains_refl y : wf 128 y -> gen_v6_contains y y = Ok true.
Proof. intros. rewrite gen_v6_contains_ok by assumption. f_equal. apply contains_refl; auto using W6. Qed.

Lemma v4_contains_trans z y x : wf 32 z -> wf 32 y -> wf 32 x ->
  gen_v4_contains z y = Ok true -> gen_v4_contains y x = Ok true -> gen_v4_contains z x = Ok true.
Proof.
  intros ? ? ?. rewrite !gen_v4_contains_ok, !ok_true_iff by assumption. apply contains_trans; auto using W4.
Qed.
Lemma v6_contains_trans z y x : wf 128 z -> wf 128 y -> wf 128 x ->
  gen_v6_contains z y = Ok true -> gen_v6_contains y x = Ok true -> gen_v6_contains z x = Ok true.
Proof.
  intros ? ? ?. rewrite !gen_v6_contains_ok, !ok_true_iff by assumption. apply contains_trans; auto using W6.
Qed.

Lemma mk_host_wf W a : 0 < W -> 0 <= a < 2 ^ W -> wf W (mk_host W a).
Proof. intros. split; cbn; lia. Qed.

Lemma v4_first_last y : wf 32 y ->
  gen_v4_contains y (mk_host 32 (netw 32 y)) = Ok true /\ gen_v4_contains y (mk_host 32 (lastaddr 32 y)) = Ok true.
Proof.
  intros Wy. pose proof (netw_in_range 32 W4 y Wy) as [N0 N1].
  pose proof (addr_in_own_network 32 y Wy). destruct Wy as [Ha Hp].
  rewrite !gen_v4_contains_ok; try (split; assumption); try (apply mk_host_wf; lia).
  destruct (contains_first_last 32 W4 y (conj Ha Hp)) as [-> ->]. auto.
Qed.
Lemma v6_first_last y : wf 128 y ->
  gen_v6_contains y (mk_host 128 (netw 128 y)) = Ok true /\ gen_v6_contains y (mk_host 128 (lastaddr 128 y)) = Ok true.
Proof.
  intros Wy. pose proof (netw_in_range 128 W6 y Wy) as [N0 N1].
  pose proof (addr_in_own_network 128 y Wy). destruct Wy as [Ha Hp].
  rewrite !gen_v6_contains_ok; try (split; assumption); try (apply mk_host_wf; lia).
  destruct (contains_first_last 128 W6 y (conj Ha Hp)) as [-> ->]. auto.
Qed.

Lemma v4_outside y a : wf 32 y -> 0 <= a < 2 ^ 32 -> 0 < plen y ->
  (a < netw 32 y \/ lastaddr 32 y < a) -> gen_v4_contains y (mk_host 32 a) = Ok false.
Proof.
  intros. rewrite gen_v4_contains_ok; auto; [|apply mk_host_wf; lia]. f_equal. apply contains_outside; auto using W4.
Qed.
Lemma v6_outside y a : wf 128 y -> 0 <= a < 2 ^ 128 -> 0 < plen y ->
  (a < netw 128 y \/ lastaddr 128 y < a) -> gen_v6_contains y (mk_host 128 a) = Ok false.
Proof.
  intros. rewrite gen_v6_contains_ok; auto; [|apply mk_host_wf; lia]. f_equal. apply contains_outside; auto using W6.
Qed.

(* the all-zero prefix contains everything *)
Lemma v4_default_route y x : wf 32 y -> wf 32 x -> plen y = 0 -> gen_v4_contains y x = Ok true.
Proof. intros Wy Wx E. rewrite gen_v4_contains_ok by assumption. unfold contains_ref. rewrite E. reflexivity. Qed.
Lemma v6_default_route y x : wf 128 y -> wf 128 x -> plen y = 0 -> gen_v6_contains y x = Ok true.
Proof. intros Wy Wx E. rewrite gen_v6_contains_ok by assumption. unfold contains_ref. rewrite E. reflexivity. Qed.

(* non-vacuity: a /31 link and its two addresses; 10.1.1.77/24 is inside 10.0.0.0/8, 11.0.0.0/8 is not *)
Example ex_wf : wf 32 {| addr := 167837005; plen := 24 |} /\ wf 32 {| addr := 167772160; plen := 8 |}.
Proof. unfold wf; cbn; lia. Qed.
Example ex_in : gen_v4_contains {| addr := 167772160; plen := 8 |} {| addr := 167837005; plen := 24 |} = Ok true.
Proof. vm_compute. reflexivity. Qed.
Example ex_out : gen_v4_contains {| addr := 184549376; plen := 8 |} {| addr := 167837005; plen := 24 |} = Ok false.
Proof. vm_compute. reflexivity. Qed.
Example ex_v6_last : gen_v6_contains {| addr := 42540766411282592856903984951653826560; plen := 64 |}
                                     {| addr := 42540766411282592875350729025363378175; plen := 128 |} = Ok true.
Proof. vm_compute. reflexivity. Qed.
