(* C09 proofs: input forms and save/load cycles (Model/IO.v). *)
From Coq Require Import NArith List Bool Arith Lia.
Require Import CCP.Lib.PyStr CCP.Lib.Res CCP.gen.TabC09 CCP.Model.IO.
Import ListNotations.

(* what the proofs need from the regenerated str.splitlines table: LF and CR are boundaries *)
Lemma tables_as_modelled : is_linebreak LF = true /\ is_linebreak CR = true.
Proof. split; reflexivity. Qed.

(* ------------------------------------------------------------------ small facts *)
Lemma is_cr_CR : is_cr CR = true. Proof. reflexivity. Qed.
Lemma is_lf_LF : is_lf LF = true. Proof. reflexivity. Qed.
Lemma is_cr_LF : is_cr LF = false. Proof. reflexivity. Qed.
Lemma is_lf_CR : is_lf CR = false. Proof. reflexivity. Qed.
Lemma lb_LF : is_linebreak LF = true. Proof. reflexivity. Qed.
Lemma lb_CR : is_linebreak CR = true. Proof. reflexivity. Qed.

Lemma is_cr_true c : is_cr c = true -> c = CR.
Proof. unfold is_cr. intros H. apply N.eqb_eq in H. exact H. Qed.
Lemma is_lf_true c : is_lf c = true -> c = LF.
Proof. unfold is_lf. intros H. apply N.eqb_eq in H. exact H. Qed.

Lemma strong_list_ind (P : str -> Prop) :
  (forall s, (forall t, length t < length s -> P t) -> P s) -> forall s, P s.
Proof.
  intros H s. remember (length s) as n eqn:En. revert s En.
  induction n as [n IH] using lt_wf_ind. intros s En. apply H. intros t Ht. apply (IH (length t)); [lia | reflexivity].
Qed.

(* ------------------------------------------------------------------ drop_last_empty *)
Lemma dle_cons a X : X <> [] -> drop_last_empty (a :: X) = a :: drop_last_empty X.
Proof. destruct X as [|b X']; [congruence | reflexivity]. Qed.

Lemma dle_app_empty l : drop_last_empty (l ++ [[]]) = l.
Proof.
  induction l as [|a l IH]; [reflexivity|].
  change ((a :: l) ++ [[]]) with (a :: (l ++ [[]])). rewrite dle_cons.
  - rewrite IH. reflexivity.
  - destruct l; discriminate.
Qed.

(* ------------------------------------------------------------------ split_nl *)
Lemma split_nl_nonempty s : split_nl s <> [].
Proof.
  destruct s as [|c r]; simpl; [discriminate|].
  destruct (is_lf c); [discriminate|]. destruct (split_nl r); discriminate.
Qed.

Lemma split_nl_cons_other c r : is_lf c = false ->
  exists f fs, split_nl r = f :: fs /\ split_nl (c :: r) = (c :: f) :: fs.
Proof.
  intros H. destruct (split_nl r) as [|f fs] eqn:E; [exfalso; eapply split_nl_nonempty; eauto|].
  exists f, fs. split; [reflexivity|]. simpl. rewrite H, E. reflexivity.
Qed.

(* a line without LF followed by LF *)
Lemma split_nl_line l rest : forallb (fun c => negb (is_lf c)) l = true ->
  split_nl (l ++ LF :: rest) = l :: split_nl rest.
Proof.
  induction l as [|c l IH]; intros H; simpl.
  - reflexivity.
  - simpl in H. apply andb_true_iff in H. destruct H as [Hc Hl]. apply negb_true_iff in Hc.
    rewrite Hc. rewrite (IH Hl). reflexivity.
Qed.
Lemma split_nl_last l : forallb (fun c => negb (is_lf c)) l = true -> split_nl l = [l].
Proof.
  induction l as [|c l IH]; intros H; simpl; [reflexivity|].
  simpl in H. apply andb_true_iff in H. destruct H as [Hc Hl]. apply negb_true_iff in Hc.
  rewrite Hc, (IH Hl). reflexivity.
Qed.

Definition no_lf (l : str) : bool := forallb (fun c => negb (is_lf c)) l.
Definition no_cr (l : str) : bool := forallb (fun c => negb (is_cr c)) l.

Lemma no_crlf_split l : no_crlf l = true -> no_cr l = true /\ no_lf l = true.
Proof.
  unfold no_crlf, no_cr, no_lf. induction l as [|c l IH]; simpl; intros H; [auto|].
  apply andb_true_iff in H. destruct H as [Hc Hl]. destruct (IH Hl) as [A B].
  rewrite negb_orb in Hc. apply andb_true_iff in Hc. destruct Hc as [C1 C2]. rewrite C1, C2, A, B. auto.
Qed.
Lemma no_crlf_join l : no_cr l = true -> no_lf l = true -> no_crlf l = true.
Proof.
  unfold no_crlf, no_cr, no_lf. induction l as [|c l IH]; simpl; intros A B; [reflexivity|].
  apply andb_true_iff in A. destruct A as [A1 A2]. apply andb_true_iff in B. destruct B as [B1 B2].
  rewrite negb_orb, A1, B1. simpl. auto.
Qed.

Lemma split_nl_terminate ls tail : Forall (fun l => no_lf l = true) ls ->
  split_nl (terminate ls ++ tail) = ls ++ split_nl tail.
Proof.
  unfold terminate. induction ls as [|l ls IH]; intros H; simpl; [reflexivity|].
  apply Forall_cons_iff in H; destruct H as [Hl Hls]. rewrite <- !app_assoc. simpl.
  rewrite split_nl_line by exact Hl. f_equal. apply IH. exact Hls.
Qed.

(* every field of split_nl inherits a per-character property of the text, and has no LF *)
Lemma split_nl_forall (P : char -> bool) s : forallb P s = true ->
  Forall (fun f => forallb P f = true) (split_nl s).
Proof.
  induction s as [|c r IH]; intros H; simpl.
  - constructor; [reflexivity | constructor].
  - simpl in H. apply andb_true_iff in H. destruct H as [Hc Hr]. specialize (IH Hr).
    destruct (is_lf c).
    + constructor; [reflexivity | exact IH].
    + destruct (split_nl r) as [|f fs]; [constructor; [simpl; rewrite Hc; reflexivity | constructor]|].
      apply Forall_cons_iff in IH; destruct IH as [Hf Hfs]. constructor; [simpl; rewrite Hc, Hf; reflexivity | exact Hfs].
Qed.
Lemma split_nl_no_lf s : Forall (fun f => no_lf f = true) (split_nl s).
Proof.
  unfold no_lf. induction s as [|c r IH]; simpl.
  - constructor; [reflexivity | constructor].
  - destruct (is_lf c) eqn:Ec.
    + constructor; [reflexivity | exact IH].
    + destruct (split_nl r) as [|f fs]; [constructor; [simpl; rewrite Ec; reflexivity | constructor]|].
      apply Forall_cons_iff in IH; destruct IH as [Hf Hfs]. constructor; [simpl; rewrite Ec, Hf; reflexivity | exact Hfs].
Qed.

(* ------------------------------------------------------------------ strip_cr_butlast *)
Lemma lstrip_by_id (p : char -> bool) s : forallb (fun c => negb (p c)) s = true -> lstrip_by p s = s.
Proof.
  destruct s as [|c r]; simpl; intros H; [reflexivity|].
  apply andb_true_iff in H. destruct H as [Hc _]. apply negb_true_iff in Hc. rewrite Hc. reflexivity.
Qed.
Lemma forallb_rev {A} (p : A -> bool) l : forallb p (rev l) = forallb p l.
Proof.
  induction l as [|a l IH]; simpl; [reflexivity|].
  rewrite forallb_app, IH. simpl. rewrite andb_true_r. apply andb_comm.
Qed.
Lemma rstrip_by_id (p : char -> bool) s : forallb (fun c => negb (p c)) s = true -> rstrip_by p s = s.
Proof.
  intros H. unfold rstrip_by. rewrite lstrip_by_id; [apply rev_involutive|]. rewrite forallb_rev. exact H.
Qed.
Lemma strip_cr_id l : Forall (fun f => no_cr f = true) l -> strip_cr_butlast l = l.
Proof.
  induction l as [|x r IH]; intros H; [reflexivity|].
  apply Forall_cons_iff in H; destruct H as [Hx Hr]. destruct r as [|y r']; [reflexivity|].
  change (strip_cr_butlast (x :: y :: r')) with (rstrip_by is_cr x :: strip_cr_butlast (y :: r')).
  rewrite (IH Hr). rewrite rstrip_by_id by exact Hx. reflexivity.
Qed.

(* ------------------------------------------------------------------ univ_nl *)
Lemma univ_nl_no_cr s : no_cr (univ_nl s) = true.
Proof.
  unfold no_cr. induction s as [s IH] using strong_list_ind.
  destruct s as [|c r]; [reflexivity|]. simpl.
  destruct (is_cr c) eqn:Ec.
  - simpl. destruct r as [|c2 r2]; [reflexivity|].
    destruct (is_lf c2); apply IH; simpl; lia.
  - simpl. rewrite Ec. simpl. apply IH. simpl; lia.
Qed.
Lemma univ_nl_id s : no_cr s = true -> univ_nl s = s.
Proof.
  unfold no_cr. induction s as [|c r IH]; simpl; intros H; [reflexivity|].
  apply andb_true_iff in H. destruct H as [Hc Hr]. apply negb_true_iff in Hc. rewrite Hc, (IH Hr). reflexivity.
Qed.

(* LF / CRLF terminated lines *)
Lemma univ_nl_line l e rest : no_cr l = true -> is_lf_or_crlf e = true ->
  univ_nl (l ++ e ++ rest) = l ++ LF :: univ_nl rest.
Proof.
  unfold no_cr. intros Hl He. induction l as [|c l IH]; simpl.
  - unfold is_lf_or_crlf in He. apply orb_true_iff in He. destruct He as [He|He]; apply str_eqb_eq in He; subst e; reflexivity.
  - simpl in Hl. apply andb_true_iff in Hl. destruct Hl as [Hc Hl]. apply negb_true_iff in Hc.
    rewrite Hc. rewrite (IH Hl). reflexivity.
Qed.

Definition wf_pair (p : str * str) : Prop := no_crlf (fst p) = true /\ is_lf_or_crlf (snd p) = true.

Lemma univ_nl_pairs pairs tail : Forall wf_pair pairs ->
  univ_nl (text_of pairs ++ tail) = terminate (lines_of pairs) ++ univ_nl tail.
Proof.
  unfold text_of, lines_of, terminate. induction pairs as [|[l e] ps IH]; intros H; simpl; [reflexivity|].
  apply Forall_cons_iff in H; destruct H as [[Hl He] Hps]. simpl in Hl, He.
  rewrite <- !app_assoc. rewrite univ_nl_line; [|apply no_crlf_split in Hl; tauto | exact He].
  simpl. rewrite (IH Hps). reflexivity.
Qed.

(* ------------------------------------------------------------------ load / save *)
Lemma load_is_spec s : load s = spec_lines s.
Proof.
  unfold load, spec_lines, split_crlf. apply strip_cr_id.
  apply (split_nl_forall (fun c => negb (is_cr c))). apply univ_nl_no_cr.
Qed.

Lemma load_lines_clean s : Forall (fun l => no_crlf l = true) (load s).
Proof.
  rewrite load_is_spec. unfold spec_lines.
  pose proof (split_nl_forall (fun c => negb (is_cr c)) (univ_nl s) (univ_nl_no_cr s)) as A.
  pose proof (split_nl_no_lf (univ_nl s)) as B.
  revert A B. generalize (split_nl (univ_nl s)). intros l A B.
  induction l as [|x r IH]; [constructor|].
  inversion A; subst. inversion B; subst. constructor; [apply no_crlf_join; assumption | apply IH; assumption].
Qed.

Lemma file_lines pairs : Forall wf_pair pairs -> load (text_of pairs) = lines_of pairs ++ [[]].
Proof.
  intros H. rewrite load_is_spec. unfold spec_lines.
  rewrite <- (app_nil_r (text_of pairs)). rewrite univ_nl_pairs by exact H.
  rewrite split_nl_terminate; [reflexivity|].
  unfold lines_of. induction H as [|[l e] ps [Hl _] _ IH]; simpl; [constructor|].
  constructor; [apply no_crlf_split in Hl; tauto | exact IH].
Qed.
Lemma file_lines_nofinal pairs l : Forall wf_pair pairs -> no_crlf l = true ->
  load (text_of pairs ++ l) = lines_of pairs ++ [l].
Proof.
  intros H Hl. rewrite load_is_spec. unfold spec_lines. apply no_crlf_split in Hl. destruct Hl as [Hc Hf].
  rewrite univ_nl_pairs by exact H. rewrite (univ_nl_id l Hc).
  rewrite split_nl_terminate.
  - rewrite split_nl_last by exact Hf. reflexivity.
  - unfold lines_of. induction H as [|[l' e] ps [Hl' _] _ IH]; simpl; [constructor|].
    constructor; [apply no_crlf_split in Hl'; tauto | exact IH].
Qed.

Lemma dle_clean ls : Forall (fun l => no_crlf l = true) ls -> Forall (fun l => no_crlf l = true) (drop_last_empty ls).
Proof.
  induction ls as [|a r IH]; intros H; [constructor|].
  apply Forall_cons_iff in H; destruct H as [Ha Hr]. destruct r as [|b r'].
  - simpl. destruct a; [constructor | constructor; [exact Ha | constructor]].
  - rewrite dle_cons by discriminate. constructor; [exact Ha | apply IH; exact Hr].
Qed.

Lemma terminate_no_cr ls : Forall (fun l => no_crlf l = true) ls -> no_cr (terminate ls) = true.
Proof.
  unfold terminate, no_cr. induction ls as [|l r IH]; intros H; simpl; [reflexivity|].
  apply Forall_cons_iff in H; destruct H as [Hl Hr]. rewrite !forallb_app. apply no_crlf_split in Hl. destruct Hl as [Hc _].
  unfold no_cr in Hc. rewrite Hc. simpl. apply IH. exact Hr.
Qed.

(* re-loading what save wrote: the lines written, plus the empty text after the final newline *)
Lemma load_save ls : Forall (fun l => no_crlf l = true) ls -> load (save ls) = drop_last_empty ls ++ [[]].
Proof.
  intros H. pose proof (dle_clean ls H) as H'. rewrite load_is_spec. unfold spec_lines, save.
  rewrite univ_nl_id by (apply terminate_no_cr; exact H').
  rewrite <- (app_nil_r (terminate (drop_last_empty ls))). rewrite split_nl_terminate; [reflexivity|].
  revert H'. generalize (drop_last_empty ls). intros l Hl. induction Hl as [|x r Hx _ IH]; constructor; [apply no_crlf_split in Hx; tauto | exact IH].
Qed.

Lemma save_load_save ls : Forall (fun l => no_crlf l = true) ls -> save (load (save ls)) = save ls.
Proof. intros H. rewrite load_save by exact H. unfold save at 1. rewrite dle_app_empty. reflexivity. Qed.

Lemma cycles_fixed n b : cycle b = b -> cycles n b = b.
Proof. intros H. induction n as [|n IH]; simpl; [reflexivity|]. rewrite H. exact IH. Qed.

(* ---- cycle_stable: from the first save on nothing changes, for EVERY file content *)
Lemma cycle_stable content :
  let b1 := save (load content) in
  (forall n, cycles n b1 = b1) /\ (forall n, load (cycles n b1) = load b1) /\ load (save (load b1)) = load b1.
Proof.
  intros b1. assert (F : cycle b1 = b1).
  { unfold cycle, b1. apply save_load_save. apply load_lines_clean. }
  split; [|split].
  - intros n. apply cycles_fixed. exact F.
  - intros n. rewrite cycles_fixed by exact F. reflexivity.
  - fold (cycle b1). rewrite F. reflexivity.
Qed.

(* the same starting from a list / tuple / string input whose lines hold no CR / LF *)
Lemma cycle_stable_list ls : Forall (fun l => no_crlf l = true) ls ->
  let b1 := save ls in
  (forall n, cycles n b1 = b1) /\ (forall n, load (cycles n b1) = drop_last_empty ls ++ [[]]).
Proof.
  intros H b1. assert (F : cycle b1 = b1) by (unfold cycle, b1; apply save_load_save; exact H).
  split.
  - intros n. apply cycles_fixed. exact F.
  - intros n. rewrite cycles_fixed by exact F. unfold b1. apply load_save. exact H.
Qed.

(* a file never grows or shrinks: the byte (code point) count is constant from the first save on *)
Lemma cycle_length content n : length (cycles n (save (load content))) = length (save (load content)).
Proof. destruct (cycle_stable content) as [A _]. rewrite A. reflexivity. Qed.

(* ------------------------------------------------------------------ str.splitlines *)
Lemma splitlines_line l e rest : no_break l = true -> is_lf_or_crlf e = true ->
  splitlines_py (l ++ e ++ rest) = l :: splitlines_py rest.
Proof.
  unfold no_break. intros Hl He. induction l as [|c l IH].
  - unfold is_lf_or_crlf in He. apply orb_true_iff in He. destruct He as [He|He]; apply str_eqb_eq in He; subst e.
    + simpl app. cbn [splitlines_py]. rewrite lb_LF. rewrite is_cr_LF. simpl andb.
      destruct rest; reflexivity.
    + simpl app. cbn [splitlines_py]. rewrite lb_CR. rewrite is_cr_CR, is_lf_LF. reflexivity.
  - simpl in Hl. apply andb_true_iff in Hl. destruct Hl as [Hc Hl]. apply negb_true_iff in Hc.
    simpl app. cbn [splitlines_py]. rewrite Hc. rewrite (IH Hl). reflexivity.
Qed.
Lemma splitlines_last l : no_break l = true -> l <> [] -> splitlines_py l = [l].
Proof.
  unfold no_break. induction l as [|c l IH]; intros H Hne; [congruence|].
  simpl in H. apply andb_true_iff in H. destruct H as [Hc Hl]. apply negb_true_iff in Hc.
  cbn [splitlines_py]. rewrite Hc. destruct l as [|c2 l2]; [reflexivity|].
  rewrite IH; [reflexivity | exact Hl | discriminate].
Qed.

Definition wf_bpair (p : str * str) : Prop := no_break (fst p) = true /\ is_lf_or_crlf (snd p) = true.

Lemma splitlines_pairs pairs tail : Forall wf_bpair pairs ->
  splitlines_py (text_of pairs ++ tail) = lines_of pairs ++ splitlines_py tail.
Proof.
  unfold text_of, lines_of. induction pairs as [|[l e] ps IH]; intros H; simpl; [reflexivity|].
  apply Forall_cons_iff in H; destruct H as [[Hl He] Hps]. simpl in Hl, He.
  rewrite <- !app_assoc. rewrite splitlines_line by assumption. rewrite (IH Hps). reflexivity.
Qed.

(* a break-free line has in particular no CR / LF *)
Lemma no_break_no_crlf l : no_break l = true -> no_crlf l = true.
Proof.
  unfold no_break, no_crlf. induction l as [|c l IH]; simpl; intros H; [reflexivity|].
  apply andb_true_iff in H. destruct H as [Hc Hl]. rewrite (IH Hl), andb_true_r.
  apply negb_true_iff in Hc. apply negb_true_iff. apply orb_false_iff. split.
  - destruct (is_cr c) eqn:E; [|reflexivity]. apply is_cr_true in E. subst c. rewrite lb_CR in Hc. discriminate.
  - destruct (is_lf c) eqn:E; [|reflexivity]. apply is_lf_true in E. subst c. rewrite lb_LF in Hc. discriminate.
Qed.

(* ---- forms_agree *)
Lemma forms_agree fs pairs : Forall wf_bpair pairs -> 2 <= length pairs ->
  read_input fs (InList (lines_of pairs)) = Ok (lines_of pairs)
  /\ read_input fs (InTuple (lines_of pairs)) = Ok (lines_of pairs)
  /\ read_input fs (InStr (text_of pairs)) = Ok (lines_of pairs).
Proof.
  intros H Hn. split; [reflexivity | split; [reflexivity|]].
  unfold read_input. rewrite <- (app_nil_r (text_of pairs)). rewrite splitlines_pairs by exact H.
  simpl splitlines_py. rewrite app_nil_r.
  unfold lines_of. destruct pairs as [|p1 [|p2 ps]]; simpl in Hn; try lia. reflexivity.
Qed.
(* the final line end may be absent (when the last line is not empty) *)
Lemma forms_agree_nofinal fs pairs l : Forall wf_bpair pairs -> no_break l = true -> l <> [] -> 1 <= length pairs ->
  read_input fs (InList (lines_of pairs ++ [l])) = Ok (lines_of pairs ++ [l])
  /\ read_input fs (InTuple (lines_of pairs ++ [l])) = Ok (lines_of pairs ++ [l])
  /\ read_input fs (InStr (text_of pairs ++ l)) = Ok (lines_of pairs ++ [l]).
Proof.
  intros H Hl Hne Hn. split; [reflexivity | split; [reflexivity|]].
  unfold read_input. rewrite splitlines_pairs by exact H. rewrite splitlines_last by assumption.
  unfold lines_of. destruct pairs as [|p1 ps]; simpl in Hn; try lia.
  simpl. destruct (map fst ps ++ [l]) eqn:E; [destruct (map fst ps); discriminate | reflexivity].
Qed.

(* ---- file_is_split *)
Lemma file_is_split fs p content : (exists x, splitlines_py p = [x]) -> fs p = Some content ->
  read_input fs (InStr p) = Ok (spec_lines content).
Proof.
  intros [x Hx] Hfs. unfold read_input. rewrite Hx, Hfs. rewrite load_is_spec. reflexivity.
Qed.
Lemma wf_bpair_pair p : wf_bpair p -> wf_pair p.
Proof. intros [A B]. split; [apply no_break_no_crlf; exact A | exact B]. Qed.
Lemma file_form fs p pairs : (exists x, splitlines_py p = [x]) -> fs p = Some (text_of pairs) -> Forall wf_pair pairs ->
  read_input fs (InStr p) = Ok (lines_of pairs ++ [[]]).
Proof.
  intros [x Hx] Hfs H. unfold read_input. rewrite Hx, Hfs. rewrite file_lines by exact H. reflexivity.
Qed.
Lemma file_form_nofinal fs p pairs l : (exists x, splitlines_py p = [x]) -> fs p = Some (text_of pairs ++ l) ->
  Forall wf_pair pairs -> no_crlf l = true ->
  read_input fs (InStr p) = Ok (lines_of pairs ++ [l]).
Proof.
  intros [x Hx] Hfs H Hl. unfold read_input. rewrite Hx, Hfs. rewrite file_lines_nofinal by assumption. reflexivity.
Qed.

(* ---- string form = file form without the element after the final line end, unless F11 *)
Lemma splitlines_is_file_split s : no_exotic s = true -> splitlines_py s = drop_last_empty (spec_lines s).
Proof.
  unfold spec_lines, no_exotic. induction s as [s IH] using strong_list_ind. intros H.
  destruct s as [|c r]; [reflexivity|].
  cbn [forallb] in H. apply andb_true_iff in H. destruct H as [Hc Hr].
  destruct (is_cr c) eqn:Ecr.
  - (* CR *) apply is_cr_true in Ecr. subst c.
    cbn [splitlines_py univ_nl]. rewrite lb_CR, is_cr_CR.
    destruct r as [|c2 r2].
    + reflexivity.
    + simpl andb. destruct (is_lf c2) eqn:El.
      * cbn [forallb] in Hr. apply andb_true_iff in Hr. destruct Hr as [_ Hr2].
        cbn [split_nl]. rewrite is_lf_LF. rewrite dle_cons by apply split_nl_nonempty.
        rewrite (IH r2); [reflexivity | simpl; lia | exact Hr2].
      * cbn [split_nl]. rewrite is_lf_LF. rewrite dle_cons by apply split_nl_nonempty.
        rewrite (IH (c2 :: r2)); [reflexivity | simpl; lia | exact Hr].
  - destruct (is_lf c) eqn:Elf.
    + (* LF *) apply is_lf_true in Elf. subst c.
      cbn [splitlines_py univ_nl]. rewrite lb_LF, is_cr_LF. simpl andb.
      cbn [split_nl]. rewrite is_lf_LF. rewrite dle_cons by apply split_nl_nonempty.
      rewrite <- (IH r); [destruct r; reflexivity | simpl; lia | exact Hr].
    + (* ordinary character *)
      rewrite !orb_false_r in Hc. apply negb_true_iff in Hc.
      cbn [splitlines_py univ_nl]. rewrite Hc, Ecr.
      rewrite (IH r); [|simpl; lia | exact Hr].
      destruct (split_nl_cons_other c (univ_nl r) Elf) as [f [fs [E1 E2]]]. unfold char, str in *. rewrite E2, E1.
      destruct fs as [|g fs'].
      * simpl. destruct f; reflexivity.
      * rewrite !dle_cons by discriminate. reflexivity.
Qed.

Lemma str_form_is_file_form fs s : no_exotic s = true -> 2 <= length (splitlines_py s) ->
  read_input fs (InStr s) = Ok (drop_last_empty (spec_lines s)).
Proof.
  intros H Hn. unfold read_input. rewrite <- (splitlines_is_file_split s H).
  destruct (splitlines_py s) as [|a [|b r]]; simpl in Hn; try lia. reflexivity.
Qed.

(* F11: with one of the extra separators the string form and the file form differ *)
Lemma splitlines_extra_refuted :
  exists s, 2 <= length (splitlines_py s) /\ splitlines_py s <> drop_last_empty (spec_lines s).
Proof. exists [97; 11; 98; 10; 99]%N. split; [vm_compute; lia | vm_compute; discriminate]. Qed.
