(* C09 proofs: input forms and save/load cycles (Model/IO.v). *)
From Coq Require Import NArith List Bool Lia.
Require Import CCP.Lib.PyStr CCP.Lib.Res CCP.gen.TabC09 CCP.Model.IO.
Import ListNotations.

Lemma tables_as_modelled :
  linesplit_rgx_src = [92; 114; 42; 92; 110]%N /\ save_newline_src = [LF] /\ openargs_newline_none = true
  /\ is_linebreak LF = true /\ is_linebreak CR = true.
Proof. repeat split; reflexivity. Qed.
