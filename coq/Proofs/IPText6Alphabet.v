(* C11, IPv6 textual layer, rejection side: an address text that is accepted consists of hexadecimal digits, ':' and '.'
   only -- any other character anywhere in it makes the parse fail (nothing is skipped or cut off).  About Model/IPText6.v. *)
From Coq Require Import List Arith Bool NArith ZArith Lia.
Require Import CCP.Lib.PyStr CCP.Model.IPText CCP.Model.IPText6 CCP.Proofs.IPTextProofs CCP.Proofs.IPText6Proofs CCP.Proofs.IPText6Compressed.
Import ListNotations.

Definition is_hex (c : char) : bool := match hex_val c with Some _ => true | None => false end.
Definition addr_char (c : char) : bool := is_hex c || N.eqb c c_colon || N.eqb c c_dot.

(* ---- join is a left inverse of split ---- *)
Lemma split_on_aux_ne c : forall s cur, split_on_aux c cur s <> [].
Proof. induction s as [|x r IH]; intros cur; cbn [split_on_aux]; [discriminate|]. destruct (N.eqb x c); [discriminate|apply IH]. Qed.

Lemma join_cons_ne (c : char) (a : str) l : l <> [] -> join [c] (a :: l) = a ++ [c] ++ join [c] l.
Proof. destruct l; [contradiction|reflexivity]. Qed.

Lemma join_split_aux c : forall s cur, join [c] (split_on_aux c cur s) = rev cur ++ s.
Proof.
  induction s as [|x r IH]; intros cur; cbn [split_on_aux]; [cbn [join]; now rewrite app_nil_r|].
  destruct (N.eqb x c) eqn:E.
  - apply N.eqb_eq in E. subst x. rewrite join_cons_ne by apply split_on_aux_ne. rewrite IH. reflexivity.
  - rewrite IH. cbn [rev]. rewrite <- app_assoc. reflexivity.
Qed.
Lemma join_split c s : join [c] (split_on c s) = s.
Proof. unfold split_on. rewrite join_split_aux. reflexivity. Qed.

(* ---- characters of the pieces ---- *)
Lemma hex_aux_chars : forall s acc n, hex_aux acc s = Some n -> forallb is_hex s = true.
Proof.
  induction s as [|c r IH]; intros acc n H; [reflexivity|]. cbn [hex_aux] in H. cbn [forallb]. unfold is_hex at 1.
  destruct (hex_val c) as [d|]; [|discriminate]. cbn [andb]. apply (IH _ _ H).
Qed.
Lemma classify_chars s : classify s <> FBad -> forallb is_hex s = true.
Proof.
  unfold classify. destruct s as [|c r]; [reflexivity|]. destruct (hextet (c :: r)) as [n|] eqn:E; [|intros H; contradiction H; reflexivity].
  intros _. unfold hextet in E. destruct (4 <? length (c :: r)); [discriminate|]. apply (hex_aux_chars _ _ _ E).
Qed.
Lemma digit_hex c : is_digit c = true -> is_hex c = true.
Proof. intros H. unfold is_hex, hex_val. rewrite H. reflexivity. Qed.
Lemma octet_chars s n : octet s = Some n -> forallb is_digit s = true.
Proof.
  unfold octet. destruct (digits_only s) eqn:E; cbn [negb]; [|discriminate]. intros _.
  unfold digits_only in E. destruct s; [discriminate|exact E].
Qed.
Lemma hex_addr s : forallb is_hex s = true -> forallb addr_char s = true.
Proof. rewrite !forallb_forall. intros H x Hx. unfold addr_char. rewrite (H x Hx). reflexivity. Qed.
Lemma digits_addr s : forallb is_digit s = true -> forallb addr_char s = true.
Proof. rewrite !forallb_forall. intros H x Hx. unfold addr_char. rewrite (digit_hex x (H x Hx)). reflexivity. Qed.

Lemma dotted_chars s a : dotted s = Some a -> forallb addr_char s = true.
Proof.
  unfold dotted. intros H. rewrite <- (join_split c_dot s).
  destruct (split_on c_dot s) as [|p1 [|p2 [|p3 [|p4 [|p5 r]]]]]; try discriminate.
  destruct (octet p1) eqn:E1; [|discriminate]. destruct (octet p2) eqn:E2; [|discriminate].
  destruct (octet p3) eqn:E3; [|discriminate]. destruct (octet p4) eqn:E4; [|discriminate].
  apply forallb_join; [unfold addr_char; rewrite N.eqb_refl; apply orb_true_r|].
  repeat constructor; apply digits_addr; eapply octet_chars; eassumption.
Qed.

(* ---- no malformed field survives the group logic ---- *)
Definition nobad (f : field) : Prop := f <> FBad.

Lemma groups_of_nobad : forall l g, groups_of l = Some g -> Forall nobad l.
Proof.
  induction l as [|f r IH]; intros g H; [constructor|]. cbn [groups_of] in H. destruct f; try discriminate.
  destruct (groups_of r) as [g'|] eqn:E; [|discriminate]. constructor; [discriminate|apply (IH _ eq_refl)].
Qed.

Lemma inner_empties_spec : forall l i k, In k (inner_empties i l) -> i <= k /\ nth_error l (k - i) = Some FEmpty.
Proof.
  induction l as [|f r IH]; intros i k H; [contradiction|]. destruct r as [|f2 r2]; [contradiction|].
  change (inner_empties i (f :: f2 :: r2)) with ((if is_empty_f f then [i] else []) ++ inner_empties (S i) (f2 :: r2)) in H.
  apply in_app_or in H. destruct H as [H|H].
  - destruct f; cbn in H; try contradiction. destruct H as [<-|[]]. split; [lia|]. rewrite Nat.sub_diag. reflexivity.
  - destruct (IH (S i) k H) as [A B]. split; [lia|]. replace (k - i) with (S (k - S i)) by lia. exact B.
Qed.

Lemma split_at {A} : forall (l : list A) k x, nth_error l k = Some x -> l = firstn k l ++ x :: skipn (S k) l.
Proof.
  induction l as [|a r IH]; intros k x H; [destruct k; discriminate|]. destruct k as [|k]; cbn in H.
  - inversion H; subst. reflexivity.
  - cbn [firstn skipn app]. f_equal. apply IH. exact H.
Qed.

Lemma rev_single {A} (l : list A) x : rev l = [x] -> l = [x].
Proof. intros H. apply (f_equal (@rev A)) in H. rewrite rev_involutive in H. exact H. Qed.

Lemma v6_groups_nobad fs gs : v6_groups fs = Some gs -> Forall nobad fs.
Proof.
  unfold v6_groups. destruct fs as [|f0 tl]; [discriminate|]. destruct (9 <? length (f0 :: tl)); [discriminate|].
  destruct (inner_empties 1 tl) as [|k [|k2 r]] eqn:E; [| |discriminate].
  - destruct (length (f0 :: tl) =? 8); [|discriminate]. apply groups_of_nobad.
  - remember (f0 :: tl) as fs eqn:Efs. intros H.
    destruct (inner_empties_spec tl 1 k ltac:(rewrite E; left; reflexivity)) as [K1 K2].
    assert (Kn : nth_error fs k = Some FEmpty).
    { rewrite Efs. destruct k as [|k']; [lia|]. cbn [nth_error]. replace (S k' - 1) with k' in K2 by lia. exact K2. }
    refine (eq_ind_r (Forall nobad) _ (split_at fs k FEmpty Kn)). apply Forall_app. split; [|constructor; [discriminate|]].
    + (* the part before "::" *)
      destruct (is_empty_f f0) eqn:E0.
      * destruct (k =? 1) eqn:Ek; [|discriminate]. apply Nat.eqb_eq in Ek. subst k. rewrite Efs. cbn [firstn].
        destruct f0; try discriminate. repeat constructor; discriminate.
      * destruct (groups_of (firstn k fs)) as [gh|] eqn:Eh; [|discriminate]. apply (groups_of_nobad _ _ Eh).
    + (* the part after "::" *)
      destruct (if is_empty_f f0 then if k =? 1 then Some [] else None else groups_of (firstn k fs)) as [gh|]; [|discriminate].
      destruct (rev (skipn (S k) fs)) as [|l0 lr] eqn:Er.
      * apply (f_equal (@rev field)) in Er. rewrite rev_involutive in Er. cbn [rev] in Er. rewrite Er. constructor.
      * destruct l0.
        -- destruct lr; [|discriminate]. rewrite (rev_single _ _ Er). repeat constructor; discriminate.
        -- destruct (groups_of (skipn (S k) fs)) as [gl|] eqn:El; [|discriminate]. apply (groups_of_nobad _ _ El).
        -- destruct (groups_of (skipn (S k) fs)) as [gl|] eqn:El; [|discriminate]. apply (groups_of_nobad _ _ El).
Qed.

Lemma classify_parts ps : Forall nobad (map classify ps) -> Forall (fun s => forallb addr_char s = true) ps.
Proof.
  intros H. apply Forall_forall. intros s Hs. rewrite Forall_forall in H. apply hex_addr. apply classify_chars.
  apply H. apply in_map. exact Hs.
Qed.

(* every accepted IPv6 address text is made of hexadecimal digits, ':' and '.' only *)
Theorem v6_addr_alphabet a v : v6_addr a = Some v -> forallb addr_char a = true.
Proof.
  unfold v6_addr. intros H. rewrite <- (join_split c_colon a).
  set (parts := split_on c_colon a) in *. destruct (length parts <? 3); [discriminate|].
  destruct (fields_of parts) as [fs|] eqn:Ef; [|discriminate].
  destruct (v6_groups fs) as [gs|] eqn:Eg; [|discriminate]. pose proof (v6_groups_nobad _ _ Eg) as NB.
  apply forallb_join; [unfold addr_char; rewrite N.eqb_refl; rewrite orb_true_r; reflexivity|].
  unfold fields_of in Ef. destruct (rev parts) as [|lastp restr] eqn:Er; [discriminate|].
  assert (Ep : parts = rev restr ++ [lastp]).
  { apply (f_equal (@rev str)) in Er. rewrite rev_involutive in Er. exact Er. }
  destruct (has_dot lastp).
  - destruct (dotted lastp) as [q|] eqn:Ed; [|discriminate]. inversion Ef; subst fs. clear Ef.
    apply Forall_app in NB. destruct NB as [NB _]. rewrite Ep. apply Forall_app. split; [apply classify_parts; exact NB|].
    constructor; [apply (dotted_chars _ _ Ed)|constructor].
  - inversion Ef; subst fs. apply classify_parts. exact NB.
Qed.

(* contrapositive, as the property words it: one foreign character anywhere and the text is rejected *)
Corollary v6_addr_rejects_foreign a c : In c a -> addr_char c = false -> v6_addr a = None.
Proof.
  intros Hin Hc. destruct (v6_addr a) as [v|] eqn:E; [|reflexivity].
  pose proof (v6_addr_alphabet a v E) as A. rewrite forallb_forall in A. rewrite (A c Hin) in Hc. discriminate.
Qed.

Example foreign_ex : v6_addr [50; 48; 48; 49; 58; 58; 49; 120]%N = None /\ addr_char 120%N = false.   (* "2001::1x" *)
Proof. split; vm_compute; reflexivity. Qed.
