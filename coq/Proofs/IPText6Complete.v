(* C11, IPv6 textual layer: the group logic accepts EXACTLY the two shapes -- eight groups, or hi "::" lo with at most seven
   groups in all (either side possibly empty) -- and nothing else.  Together with v6_groups_full / v6_groups_compressed this
   characterises v6_groups completely.  About Model/IPText6.v. *)
From Coq Require Import List Arith Bool NArith ZArith Lia.
Require Import CCP.Lib.PyStr CCP.Model.IPText CCP.Model.IPText6 CCP.Proofs.IPTextProofs CCP.Proofs.IPText6Proofs
               CCP.Proofs.IPText6Compressed CCP.Proofs.IPText6Embedded CCP.Proofs.IPText6Alphabet.
Import ListNotations.

Lemma groups_of_some : forall l g, groups_of l = Some g -> l = map FHex g.
Proof.
  induction l as [|f r IH]; intros g H; cbn [groups_of] in H; [inversion H; reflexivity|].
  destruct f; try discriminate. destruct (groups_of r) as [g'|] eqn:E; [|discriminate]. inversion H; subst.
  cbn [map]. f_equal. apply IH. reflexivity.
Qed.

Lemma inner_empties_lt : forall l i k, In k (inner_empties i l) -> k + 1 < i + length l.
Proof.
  induction l as [|f r IH]; intros i k H; [contradiction|]. destruct r as [|f2 r2]; [contradiction|].
  change (inner_empties i (f :: f2 :: r2)) with ((if is_empty_f f then [i] else []) ++ inner_empties (S i) (f2 :: r2)) in H.
  apply in_app_or in H. destruct H as [H|H].
  - destruct (is_empty_f f); cbn in H; [|contradiction]. destruct H as [<-|[]]. cbn [length]. lia.
  - specialize (IH (S i) k H). cbn [length] in *. lia.
Qed.

Theorem v6_groups_shapes fs gs : v6_groups fs = Some gs ->
  (fs = map FHex gs /\ (length gs = 8)%nat) \/
  (exists hi lo, fs = cfields hi lo /\ (length hi + length lo <= 7)%nat /\ gs = hi ++ repeat 0%N (8 - (length hi + length lo))%nat ++ lo).
Proof.
  unfold v6_groups. destruct fs as [|f0 tl]; [discriminate|]. destruct (9 <? length (f0 :: tl)); [discriminate|].
  destruct (inner_empties 1 tl) as [|k [|k2 r]] eqn:E; [| |discriminate].
  - destruct (length (f0 :: tl) =? 8) eqn:L8; [|discriminate]. apply Nat.eqb_eq in L8. intros H. left.
    pose proof (groups_of_some _ _ H) as F. split; [exact F|]. rewrite F, map_length in L8. exact L8.
  - remember (f0 :: tl) as fs eqn:Efs. intros H. right.
    destruct (inner_empties_spec tl 1 k ltac:(rewrite E; left; reflexivity)) as [K1 K2].
    pose proof (inner_empties_lt tl 1 k ltac:(rewrite E; left; reflexivity)) as K3.
    assert (Lfs : length fs = S (length tl)) by (rewrite Efs; reflexivity).
    assert (Kn : nth_error fs k = Some FEmpty).
    { rewrite Efs. destruct k as [|k']; [lia|]. cbn [nth_error]. replace (S k' - 1) with k' in K2 by lia. exact K2. }
    pose proof (split_at fs k FEmpty Kn) as Sp.
    (* the two sides *)
    assert (Hh : exists hi, firstn k fs = sidef hi /\
                 (if is_empty_f f0 then if k =? 1 then Some [] else None else groups_of (firstn k fs)) = Some hi).
    { destruct (is_empty_f f0) eqn:E0.
      - destruct (k =? 1) eqn:Ek; [|discriminate]. apply Nat.eqb_eq in Ek. subst k. exists []. split; [|reflexivity].
        rewrite Efs. cbn [firstn]. destruct f0; try discriminate. reflexivity.
      - destruct (groups_of (firstn k fs)) as [gh|] eqn:Eh; [|discriminate]. exists gh. split; [|reflexivity].
        pose proof (groups_of_some _ _ Eh) as F. rewrite F. destruct gh as [|g r]; [|reflexivity].
        exfalso. cbn [map] in F. apply (f_equal (@length field)) in F. rewrite firstn_length in F. cbn [length] in F. lia. }
    destruct Hh as [hi [Fh Gh]]. rewrite Gh in H.
    assert (Hl : exists lo, skipn (S k) fs = sidef lo /\
                 match rev (skipn (S k) fs) with
                 | FEmpty :: r => match r with [] => Some [] | _ => None end
                 | _ => groups_of (skipn (S k) fs)
                 end = Some lo).
    { assert (Lne : skipn (S k) fs <> []).
      { intros E0. apply (f_equal (@length field)) in E0. rewrite skipn_length in E0. cbn [length] in E0. lia. }
      destruct (rev (skipn (S k) fs)) as [|l0 lr] eqn:Er.
      - exfalso. apply Lne. apply (f_equal (@rev field)) in Er. rewrite rev_involutive in Er. exact Er.
      - destruct l0.
        + destruct lr; [|discriminate]. exists []. split; [exact (rev_single _ _ Er)|reflexivity].
        + destruct (groups_of (skipn (S k) fs)) as [gl|] eqn:El; [|discriminate]. exists gl. split; [|reflexivity].
          pose proof (groups_of_some _ _ El) as F. rewrite F. destruct gl as [|g r]; [|reflexivity].
          exfalso. apply Lne. exact F.
        + destruct (groups_of (skipn (S k) fs)) as [gl|] eqn:El; [|discriminate]. exists gl. split; [|reflexivity].
          pose proof (groups_of_some _ _ El) as F. rewrite F. destruct gl as [|g r]; [|reflexivity].
          exfalso. apply Lne. exact F. }
    destruct Hl as [lo [Fl Gl]]. rewrite Gl in H.
    destruct (8 <=? length hi + length lo) eqn:E8; [discriminate|]. apply Nat.leb_gt in E8. inversion H; subst gs.
    exists hi, lo. split; [|split; [lia|reflexivity]].
    unfold cfields. rewrite <- Fh, <- Fl. exact Sp.
Qed.

(* the converse directions are v6_groups_full and v6_groups_compressed, hence: *)
Corollary v6_groups_iff fs gs : v6_groups fs = Some gs <->
  (fs = map FHex gs /\ (length gs = 8)%nat) \/
  (exists hi lo, fs = cfields hi lo /\ (length hi + length lo <= 7)%nat /\ gs = hi ++ repeat 0%N (8 - (length hi + length lo))%nat ++ lo).
Proof.
  split; [apply v6_groups_shapes|]. intros [[-> L]|(hi & lo & -> & L & ->)].
  - apply v6_groups_full. exact L.
  - apply v6_groups_compressed. exact L.
Qed.

(* text level: an accepted address text is the ':'-join of its parts; the parts (a dotted quad last, if any, counting as two
   groups) classify to fields that v6_groups accepts -- i.e., by v6_groups_iff, to one of the two shapes *)
Lemma skipn_app_len {A} (a b : list A) n : skipn (length a + n) (a ++ b) = skipn n b.
Proof. induction a as [|x a IH]; cbn; [reflexivity|exact IH]. Qed.

Theorem v6_addr_complete a v : v6_addr a = Some v ->
  exists parts gs, a = join [c_colon] parts /\ (3 <= length parts)%nat /\ v = value_of gs /\
    ((Forall (fun p => has_dot p = false) (skipn (length parts - 1)%nat parts) /\ v6_groups (map classify parts) = Some gs) \/
     (exists front qt q, parts = front ++ [qt] /\ dotted qt = Some q /\
        v6_groups (map classify front ++ [FHex (hi16 q); FHex (lo16 q)]) = Some gs)).
Proof.
  unfold v6_addr. intros H. exists (split_on c_colon a).
  set (parts := split_on c_colon a) in *. destruct (length parts <? 3) eqn:L3; [discriminate|]. apply Nat.ltb_ge in L3.
  destruct (fields_of parts) as [fs|] eqn:Ef; [|discriminate].
  destruct (v6_groups fs) as [gs|] eqn:Eg; [|discriminate]. inversion H; subst v. exists gs.
  split; [unfold parts; symmetry; apply join_split|]. split; [exact L3|]. split; [reflexivity|].
  unfold fields_of in Ef. destruct (rev parts) as [|lastp restr] eqn:Er; [discriminate|].
  assert (Ep : parts = rev restr ++ [lastp]).
  { apply (f_equal (@rev str)) in Er. rewrite rev_involutive in Er. exact Er. }
  destruct (has_dot lastp) eqn:Ed.
  - right. destruct (dotted lastp) as [q|] eqn:Eq; [|discriminate]. inversion Ef; subst fs.
    exists (rev restr), lastp, q. split; [exact Ep|]. split; [exact Eq|exact Eg].
  - left. inversion Ef; subst fs. split; [|exact Eg].
    rewrite Ep. rewrite app_length. cbn [length]. replace (length (rev restr) + 1 - 1) with (length (rev restr) + 0) by lia.
    rewrite skipn_app_len. cbn [skipn]. constructor; [exact Ed|constructor].
Qed.
