(* C11, IPv6 textual layer: the blank-separated form "addr<blanks>len" means the same as "addr/len"
   (IPv6Obj joins the two whitespace-separated fields with "/").  About Model/IPText6.v. *)
From Coq Require Import List Arith Bool NArith ZArith Lia.
Require Import CCP.Lib.PyStr CCP.Model.IPText CCP.Model.IPText6 CCP.Proofs.IPTextProofs CCP.Proofs.IPText6Proofs.
Import ListNotations.

Definition nospace (s : str) : Prop := forallb (fun x => negb (is_space x)) s = true.

Lemma split_ws_run cur t rest : nospace t -> split_ws_aux is_space cur (t ++ rest) = split_ws_aux is_space (rev t ++ cur) rest.
Proof.
  unfold nospace. revert cur. induction t as [|x r IH]; intros cur H; [reflexivity|].
  cbn in H. apply andb_true_iff in H. destruct H as [Hx Hr]. apply negb_true_iff in Hx.
  cbn [app split_ws_aux]. rewrite Hx. rewrite IH by exact Hr. cbn [rev]. rewrite <- app_assoc. reflexivity.
Qed.
Lemma split_ws_skip pad rest : forallb is_space pad = true -> split_ws_aux is_space [] (pad ++ rest) = split_ws_aux is_space [] rest.
Proof.
  induction pad as [|x r IH]; intros H; [reflexivity|]. cbn in H. apply andb_true_iff in H. destruct H as [Hx Hr].
  cbn [app split_ws_aux]. rewrite Hx. apply IH. exact Hr.
Qed.

Lemma split_ws_two t pad d : nospace t -> t <> [] -> nospace d -> d <> [] -> forallb is_space pad = true -> pad <> [] ->
  split_ws (t ++ pad ++ d) = [t; d].
Proof.
  intros Ht Hte Hd Hde Hp Hpe. unfold split_ws. rewrite split_ws_run by exact Ht. rewrite app_nil_r.
  destruct pad as [|x r]; [contradiction|]. cbn in Hp. apply andb_true_iff in Hp. destruct Hp as [Hx Hr].
  cbn [app split_ws_aux]. rewrite Hx.
  destruct (rev t) as [|y ys] eqn:E.
  { exfalso. apply Hte. apply (f_equal (@rev N)) in E. rewrite rev_involutive in E. exact E. }
  rewrite <- E, rev_involutive. f_equal. rewrite split_ws_skip by exact Hr.
  replace d with (d ++ []) at 1 by apply app_nil_r. rewrite split_ws_run by exact Hd. cbn [split_ws_aux]. rewrite app_nil_r.
  destruct (rev d) as [|z zs] eqn:E2.
  { exfalso. apply Hde. apply (f_equal (@rev N)) in E2. rewrite rev_involutive in E2. exact E2. }
  rewrite <- E2, rev_involutive. reflexivity.
Qed.

Lemma nospace_app a b : nospace a -> nospace b -> nospace (a ++ b).
Proof. unfold nospace. intros A B. rewrite forallb_app. apply andb_true_iff. split; assumption. Qed.

(* "addr<blanks>len" with surrounding blanks reads exactly as "addr/len" *)
Theorem v6_parse_blank_form t pad d pre post :
  nospace t -> t <> [] -> nospace d -> d <> [] -> forallb is_space pad = true -> pad <> [] ->
  forallb is_space pre = true -> forallb is_space post = true ->
  v6_parse (pre ++ (t ++ pad ++ d) ++ post) = v6_parse (t ++ [c_slash] ++ d).
Proof.
  intros Ht Hte Hd Hde Hp Hpe Hpre Hpost.
  assert (Hs : nospace [c_slash]) by reflexivity.
  assert (first_ns : forall a b, nospace a -> a <> [] -> match a ++ b with c :: _ => is_space c = false | [] => False end).
  { intros a b Ha Hae. destruct a as [|c r]; [contradiction|]. cbn. unfold nospace in Ha. cbn in Ha.
    apply andb_true_iff in Ha. apply negb_true_iff. tauto. }
  assert (last_ns : forall a b, nospace b -> b <> [] -> match rev (a ++ b) with c :: _ => is_space c = false | [] => False end).
  { intros a b Hb Hbe. rewrite rev_app_distr. pose proof (plain_last b Hb Hbe) as L. unfold char in *. destruct (rev b); [contradiction|exact L]. }
  unfold v6_parse.
  replace (strip (pre ++ (t ++ pad ++ d) ++ post)) with (t ++ pad ++ d).
  2:{ symmetry. apply strip_core; [exact Hpre|exact Hpost|apply first_ns; assumption|].
      replace (t ++ pad ++ d) with ((t ++ pad) ++ d) by (rewrite <- app_assoc; reflexivity). apply last_ns; assumption. }
  rewrite (split_ws_two t pad d) by assumption.
  replace (strip (t ++ [c_slash] ++ d)) with (t ++ [c_slash] ++ d).
  2:{ symmetry. pose proof (strip_core [] (t ++ [c_slash] ++ d) []) as S. cbn [app] in S. rewrite app_nil_r in S.
      apply S; [reflexivity|reflexivity|apply (first_ns t (c_slash :: d)); assumption|].
      replace (t ++ c_slash :: d) with ((t ++ [c_slash]) ++ d) by (rewrite <- app_assoc; reflexivity). apply last_ns; assumption. }
  rewrite split_ws_nospace.
  - reflexivity.
  - destruct t; [contradiction|discriminate].
  - apply nospace_app; [exact Ht|apply nospace_app; [exact Hs|exact Hd]].
Qed.

Example v6_blank_ex : (* "  2001:db8::1   64 " *)
  v6_parse ([32; 32] ++ ([50; 48; 48; 49; 58; 100; 98; 56; 58; 58; 49] ++ [32; 9; 32] ++ [54; 52]) ++ [32])%N
  = Some (42540766411282592856903984951653826561%Z, 64%Z).
Proof. vm_compute. reflexivity. Qed.
