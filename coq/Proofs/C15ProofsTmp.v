(* C15: proofs about Model/Intf.v — name round trip, canonical form, numeric ordering, equality/hash
   compatibility, range expansion, purity of the read accessors. *)
From Coq Require Import NArith List Bool Lia Sorting.Sorted Permutation.
Require Import CCP.Lib.PyStr CCP.Lib.Res CCP.Model.Intf.
Import ListNotations.
Open Scope N_scope.

(* ================================================================== scanners *)
Definition stops (p : char -> bool) (s : str) : Prop :=
  match s with [] => True | c :: _ => p c = false end.

Lemma take_drop p s : take_while p s ++ drop_while p s = s.
Proof. induction s as [|c r IH]; simpl; [reflexivity|]. destruct (p c); simpl; [rewrite IH|]; reflexivity. Qed.

Lemma take_while_all p s : forallb p (take_while p s) = true.
Proof. induction s as [|c r IH]; simpl; [reflexivity|]. destruct (p c) eqn:E; simpl; [rewrite E, IH|]; reflexivity. Qed.

Lemma drop_while_stops p s : stops p (drop_while p s).
Proof. induction s as [|c r IH]; simpl; [exact I|]. destruct (p c) eqn:E; simpl; assumption. Qed.

Lemma take_while_app p a b : forallb p a = true -> stops p b -> take_while p (a ++ b) = a.
Proof.
  induction a as [|c r IH]; simpl; intros Ha Hb.
  - destruct b as [|d b']; simpl in *; [reflexivity|]. rewrite Hb. reflexivity.
  - apply andb_true_iff in Ha. destruct Ha as [Hc Hr]. rewrite Hc, IH; auto.
Qed.

Lemma drop_while_app p a b : forallb p a = true -> stops p b -> drop_while p (a ++ b) = b.
Proof.
  induction a as [|c r IH]; simpl; intros Ha Hb.
  - destruct b as [|d b']; simpl in *; [reflexivity|]. rewrite Hb. reflexivity.
  - apply andb_true_iff in Ha. destruct Ha as [Hc Hr]. rewrite Hc, IH; auto.
Qed.

Lemma take_while_stops p s : stops p s -> take_while p s = [].
Proof. destruct s as [|c r]; simpl; intros H; [reflexivity|]. rewrite H. reflexivity. Qed.
Lemma drop_while_stops_id p s : stops p s -> drop_while p s = s.
Proof. destruct s as [|c r]; simpl; intros H; [reflexivity|]. rewrite H. reflexivity. Qed.

Lemma forallb_app' {A} (p : A -> bool) a b : forallb p (a ++ b) = forallb p a && forallb p b.
Proof. induction a as [|c r IH]; simpl; [reflexivity|]. rewrite IH, andb_assoc. reflexivity. Qed.

Lemma forallb_impl {A} (p q : A -> bool) l : (forall x, p x = true -> q x = true) -> forallb p l = true -> forallb q l = true.
Proof.
  intros H. induction l as [|c r IH]; simpl; [reflexivity|]. intros Hl. apply andb_true_iff in Hl.
  destruct Hl as [H1 H2]. rewrite (H c H1), (IH H2). reflexivity.
Qed.

Lemma forallb_rev {A} (p : A -> bool) l : forallb p (rev l) = forallb p l.
Proof.
  induction l as [|c r IH]; simpl; [reflexivity|]. rewrite forallb_app', IH. simpl. rewrite andb_true_r, andb_comm. reflexivity.
Qed.

(* ================================================================== decimal rendering *)
Lemma dec_val_app a b : dec_val (a ++ b) = fold_left (fun x c => x * 10 + digit_val c) b (dec_val a).
Proof. unfold dec_val. apply fold_left_app. Qed.

Lemma dec_val_snoc a d : dec_val (a ++ [d]) = dec_val a * 10 + digit_val d.
Proof. rewrite dec_val_app. reflexivity. Qed.

Lemma is_digit_of_small d : d < 10 -> is_digit (48 + d) = true.
Proof. intros H. unfold is_digit. apply andb_true_iff. split; apply N.leb_le; lia. Qed.

Lemma render_fuel_S f n acc :
  render_dec_fuel (S f) n acc =
  if n <? 10 then (48 + n mod 10) :: acc else render_dec_fuel f (n / 10) ((48 + n mod 10) :: acc).
Proof. reflexivity. Qed.

Lemma render_fuel_spec f : forall n acc, n < 2 ^ N.of_nat (S f) ->
  exists ds, render_dec_fuel (S f) n acc = ds ++ acc /\ forallb is_digit ds = true /\ ds <> [] /\ dec_val ds = n.
Proof.
  induction f as [|f IH]; intros n acc Hn; rewrite render_fuel_S; destruct (n <? 10) eqn:E.
  - apply N.ltb_lt in E. exists [48 + n mod 10]. rewrite N.mod_small by assumption.
    split; [reflexivity|]. split; [cbn [forallb]; rewrite is_digit_of_small by assumption; reflexivity|].
    split; [discriminate|]. unfold dec_val, digit_val. cbn [fold_left]. lia.
  - apply N.ltb_ge in E. simpl in Hn. lia.
  - apply N.ltb_lt in E. exists [48 + n mod 10]. rewrite N.mod_small by assumption.
    split; [reflexivity|]. split; [cbn [forallb]; rewrite is_digit_of_small by assumption; reflexivity|].
    split; [discriminate|]. unfold dec_val, digit_val. cbn [fold_left]. lia.
  - apply N.ltb_ge in E.
    assert (Hd : n / 10 < 2 ^ N.of_nat (S f)).
    { apply N.div_lt_upper_bound; [lia|]. rewrite (Nat2N.inj_succ (S f)), N.pow_succ_r' in Hn. lia. }
    destruct (IH (n / 10) ((48 + n mod 10) :: acc) Hd) as [ds [H1 [H2 [H3 H4]]]].
    exists (ds ++ [48 + n mod 10]). rewrite H1, <- app_assoc. split; [reflexivity|].
    assert (Hm : n mod 10 < 10) by (apply N.mod_lt; lia).
    split; [rewrite forallb_app', H2; cbn [forallb]; rewrite is_digit_of_small by assumption; reflexivity|].
    split; [destruct ds; discriminate|].
    rewrite dec_val_snoc, H4. unfold digit_val.
    assert (Hc : forall d, 48 + d - 48 = d) by (intros; lia). rewrite Hc.
    rewrite N.mul_comm. symmetry. apply N.div_mod. lia.
Qed.

Lemma render_dec_spec n : forallb is_digit (render_dec n) = true /\ render_dec n <> [] /\ dec_val (render_dec n) = n.
Proof.
  unfold render_dec.
  assert (Hn : n < 2 ^ N.of_nat (S (N.to_nat (N.log2 n)))).
  { rewrite Nat2N.inj_succ, N2Nat.id. destruct n as [|p]; [simpl; lia|]. apply N.log2_spec. lia. }
  destruct (render_fuel_spec _ n [] Hn) as [ds [H1 [H2 [H3 H4]]]]. rewrite app_nil_r in H1. rewrite H1. auto.
Qed.

Lemma render_dec_digits n : forallb is_digit (render_dec n) = true.
Proof. apply render_dec_spec. Qed.
Lemma render_dec_nonempty n : render_dec n <> [].
Proof. apply render_dec_spec. Qed.
Lemma render_dec_val n : dec_val (render_dec n) = n.
Proof. apply render_dec_spec. Qed.

Lemma render_dec_cons n : exists d r, render_dec n = d :: r /\ is_digit d = true.
Proof.
  pose proof (render_dec_digits n) as H. pose proof (render_dec_nonempty n) as H0.
  destruct (render_dec n) as [|d r]; [congruence|]. simpl in H. apply andb_true_iff in H. exists d, r. tauto.
Qed.

Lemma forallb_last (p : char -> bool) l : l <> [] -> forallb p l = true -> p (last l 0) = true.
Proof.
  intros Hn H. destruct (exists_last Hn) as [l' [a E]]. subst. rewrite last_last.
  rewrite forallb_app' in H. apply andb_true_iff in H. destruct H as [_ H]. simpl in H. rewrite andb_true_r in H. exact H.
Qed.

Lemma render_dec_last n : is_digit (last (render_dec n) 0) = true.
Proof. apply forallb_last; [apply render_dec_nonempty|apply render_dec_digits]. Qed.

(* ================================================================== character classes *)
Lemma ascii_check (P : char -> bool) :
  forallb P (map N.of_nat (seq 0 128)) = true -> forall c, c < 128 -> P c = true.
Proof.
  intros H c Hc. rewrite forallb_forall in H. apply H. apply in_map_iff. exists (N.to_nat c).
  split; [apply N2Nat.id|]. apply in_seq. lia.
Qed.

Lemma is_digit_bound c : is_digit c = true -> c < 128.
Proof. unfold is_digit. intros H. apply andb_true_iff in H. destruct H as [_ H]. apply N.leb_le in H. lia. Qed.
Lemma is_alpha_bound c : is_alpha_ascii c = true -> c < 128.
Proof.
  unfold is_alpha_ascii. intros H. apply orb_true_iff in H.
  destruct H as [H|H]; apply andb_true_iff in H; destruct H as [_ H]; apply N.leb_le in H; lia.
Qed.
Lemma in_classw_bound c : in_classw c = true -> c < 128.
Proof.
  unfold in_classw. intros H. apply orb_true_iff in H. destruct H as [H|H]; [apply is_alpha_bound; assumption|].
  apply N.eqb_eq in H. subst. reflexivity.
Qed.

Definition digit_facts (c : char) : bool :=
  implb (is_digit c)
    (negb (in_prefix c) && negb (in_classw c) && negb (is_space c) && in_short c && negb (is_sep c)
     && negb (N.eqb c c_dot) && negb (N.eqb c c_colon) && negb (N.eqb c c_comma) && negb (N.eqb c c_slash) && negb (N.eqb c c_dash)).
Lemma digit_facts_ok c : digit_facts c = true.
Proof.
  destruct (is_digit c) eqn:E; [|unfold digit_facts; rewrite E; reflexivity].
  apply (ascii_check digit_facts); [vm_compute; reflexivity|apply is_digit_bound; assumption].
Qed.

Definition classw_facts (c : char) : bool :=
  implb (in_classw c)
    (in_prefix c && negb (is_digit c) && negb (is_space c) && in_short c && negb (is_sep c)
     && negb (N.eqb c c_dot) && negb (N.eqb c c_colon) && negb (N.eqb c c_comma) && negb (N.eqb c c_slash)).
Lemma classw_facts_ok c : classw_facts c = true.
Proof.
  destruct (in_classw c) eqn:E; [|unfold classw_facts; rewrite E; reflexivity].
  apply (ascii_check classw_facts); [vm_compute; reflexivity|apply in_classw_bound; assumption].
Qed.

Ltac split_andb H :=
  repeat match type of H with
         | _ && _ = true => let H1 := fresh H in apply andb_true_iff in H; destruct H as [H H1]
         end.

Section DigitFacts.
Variable c : char.
Hypothesis Hd : is_digit c = true.
Let F := digit_facts_ok c.
Lemma digit_not_prefix : in_prefix c = false.
Proof. pose proof F as H. unfold digit_facts in H. rewrite Hd in H. simpl in H. split_andb H. apply negb_true_iff. assumption. Qed.
Lemma digit_not_classw : in_classw c = false.
Proof. pose proof F as H. unfold digit_facts in H. rewrite Hd in H. simpl in H. split_andb H. apply negb_true_iff. assumption. Qed.
Lemma digit_not_space : is_space c = false.
Proof. pose proof F as H. unfold digit_facts in H. rewrite Hd in H. simpl in H. split_andb H. apply negb_true_iff. assumption. Qed.
Lemma digit_in_short : in_short c = true.
Proof. pose proof F as H. unfold digit_facts in H. rewrite Hd in H. simpl in H. split_andb H. assumption. Qed.
Lemma digit_not_sep : is_sep c = false.
Proof. pose proof F as H. unfold digit_facts in H. rewrite Hd in H. simpl in H. split_andb H. apply negb_true_iff. assumption. Qed.
Lemma digit_not_dot : N.eqb c c_dot = false.
Proof. pose proof F as H. unfold digit_facts in H. rewrite Hd in H. simpl in H. split_andb H. apply negb_true_iff. assumption. Qed.
Lemma digit_not_colon : N.eqb c c_colon = false.
Proof. pose proof F as H. unfold digit_facts in H. rewrite Hd in H. simpl in H. split_andb H. apply negb_true_iff. assumption. Qed.
Lemma digit_not_comma : N.eqb c c_comma = false.
Proof. pose proof F as H. unfold digit_facts in H. rewrite Hd in H. simpl in H. split_andb H. apply negb_true_iff. assumption. Qed.
Lemma digit_not_slash : N.eqb c c_slash = false.
Proof. pose proof F as H. unfold digit_facts in H. rewrite Hd in H. simpl in H. split_andb H. apply negb_true_iff. assumption. Qed.
Lemma digit_not_dash : N.eqb c c_dash = false.
Proof. pose proof F as H. unfold digit_facts in H. rewrite Hd in H. simpl in H. split_andb H. apply negb_true_iff. assumption. Qed.
End DigitFacts.

Section ClasswFacts.
Variable c : char.
Hypothesis Hc : in_classw c = true.
Let F := classw_facts_ok c.
Lemma classw_in_prefix : in_prefix c = true.
Proof. pose proof F as H. unfold classw_facts in H. rewrite Hc in H. simpl in H. split_andb H. assumption. Qed.
Lemma classw_not_digit : is_digit c = false.
Proof. pose proof F as H. unfold classw_facts in H. rewrite Hc in H. simpl in H. split_andb H. apply negb_true_iff. assumption. Qed.
Lemma classw_not_space : is_space c = false.
Proof. pose proof F as H. unfold classw_facts in H. rewrite Hc in H. simpl in H. split_andb H. apply negb_true_iff. assumption. Qed.
Lemma classw_in_short : in_short c = true.
Proof. pose proof F as H. unfold classw_facts in H. rewrite Hc in H. simpl in H. split_andb H. assumption. Qed.
Lemma classw_not_dot : N.eqb c c_dot = false.
Proof. pose proof F as H. unfold classw_facts in H. rewrite Hc in H. simpl in H. split_andb H. apply negb_true_iff. assumption. Qed.
Lemma classw_not_colon : N.eqb c c_colon = false.
Proof. pose proof F as H. unfold classw_facts in H. rewrite Hc in H. simpl in H. split_andb H. apply negb_true_iff. assumption. Qed.
Lemma classw_not_comma : N.eqb c c_comma = false.
Proof. pose proof F as H. unfold classw_facts in H. rewrite Hc in H. simpl in H. split_andb H. apply negb_true_iff. assumption. Qed.
Lemma classw_not_slash : N.eqb c c_slash = false.
Proof. pose proof F as H. unfold classw_facts in H. rewrite Hc in H. simpl in H. split_andb H. apply negb_true_iff. assumption. Qed.
End ClasswFacts.

Lemma space_in_prefix c : is_space c = true -> in_prefix c = true.
Proof. intros H. unfold in_prefix. rewrite H. apply orb_true_r. Qed.
Lemma prefix_in_short c : in_prefix c = true -> in_short c = true.
Proof.
  unfold in_prefix, in_short. intros H.
  destruct (is_alpha_ascii c), (N.eqb c c_dash), (is_space c); simpl in *; try discriminate; rewrite ?orb_true_r; reflexivity.
Qed.
Lemma short_in_long c : in_short c = true -> in_long c = true.
Proof. unfold in_long. intros ->. reflexivity. Qed.
Lemma prefix_not_digit c : in_prefix c = true -> is_digit c = false.
Proof. intros H. destruct (is_digit c) eqn:E; [|reflexivity]. rewrite (digit_not_prefix c E) in H. discriminate. Qed.
Lemma prefix_not_comma c : in_prefix c = true -> N.eqb c c_comma = false.
Proof. intros H. destruct (N.eqb c c_comma) eqn:E; [|reflexivity]. apply N.eqb_eq in E. subst. discriminate. Qed.
Lemma prefix_not_slash c : in_prefix c = true -> N.eqb c c_slash = false.
Proof. intros H. destruct (N.eqb c c_slash) eqn:E; [|reflexivity]. apply N.eqb_eq in E. subst. discriminate. Qed.
Lemma long_not_comma c : in_long c = true -> N.eqb c c_comma = false.
Proof. intros H. destruct (N.eqb c c_comma) eqn:E; [|reflexivity]. apply N.eqb_eq in E. subst. discriminate. Qed.
Lemma short_not_slash c : in_short c = true -> N.eqb c c_slash = false.
Proof. intros H. destruct (N.eqb c c_slash) eqn:E; [|reflexivity]. apply N.eqb_eq in E. subst. discriminate. Qed.

(* a separator that may occur in a name matched by the long regex is the slash *)
Lemma sep_in_long_is_slash c : in_long c = true -> is_sep c = true -> c = c_slash.
Proof.
  unfold in_long, in_short, is_sep. intros H1 H2.
  destruct (N.eqb c c_slash) eqn:E; [apply N.eqb_eq; assumption|].
  destruct (is_digit c), (N.eqb c c_colon), (N.eqb c c_dot), (N.eqb c c_caret), (N.eqb c c_dash), (is_alpha_ascii c), (is_space c);
    simpl in *; discriminate.
Qed.

(* ================================================================== strip *)
Lemma lstrip_is_drop p s : lstrip_by p s = drop_while p s.
Proof. induction s as [|c r IH]; simpl; [reflexivity|]. destruct (p c); [apply IH|reflexivity]. Qed.

Definition no_edge (p : char -> bool) (s : str) : Prop := stops p s /\ stops p (rev s).

Lemma strip_by_id p s : no_edge p s -> strip_by p s = s.
Proof.
  intros [H1 H2]. unfold strip_by, rstrip_by. rewrite (lstrip_is_drop p s), (drop_while_stops_id p s H1).
  rewrite (lstrip_is_drop p (rev s)), (drop_while_stops_id p (rev s) H2). apply rev_involutive.
Qed.

Lemma rstrip_decomp p t : exists k, t = rstrip_by p t ++ k /\ forallb p k = true /\ stops p (rev (rstrip_by p t)).
Proof.
  unfold rstrip_by. rewrite lstrip_is_drop. exists (rev (take_while p (rev t))). split; [|split].
  - rewrite <- rev_app_distr, take_drop. symmetry. apply rev_involutive.
  - rewrite forallb_rev. apply take_while_all.
  - rewrite rev_involutive. apply drop_while_stops.
Qed.

Lemma strip_by_no_edge p s : no_edge p (strip_by p s).
Proof.
  unfold strip_by. set (t := lstrip_by p s).
  assert (Ht : stops p t) by (unfold t; rewrite lstrip_is_drop; apply drop_while_stops).
  destruct (rstrip_decomp p t) as [k [E [_ Hs]]]. split; [|assumption].
  destruct (rstrip_by p t) as [|c u]; [exact I|]. rewrite E in Ht. exact Ht.
Qed.

Lemma strip_by_forallb p (q : char -> bool) s : forallb q s = true -> forallb q (strip_by p s) = true.
Proof.
  intros H. unfold strip_by. set (t := lstrip_by p s).
  assert (Ht : forallb q t = true).
  { unfold t. rewrite lstrip_is_drop. rewrite <- (take_drop p s), forallb_app' in H. apply andb_true_iff in H. tauto. }
  destruct (rstrip_decomp p t) as [k [E _]]. rewrite E, forallb_app' in Ht. apply andb_true_iff in Ht. tauto.
Qed.

Lemma strip_by_idem p s : strip_by p (strip_by p s) = strip_by p s.
Proof. apply strip_by_id, strip_by_no_edge. Qed.

Lemma strip_lead p ws b : forallb p ws = true -> no_edge p b -> strip_by p (ws ++ b) = b.
Proof.
  intros Hw [H1 H2]. unfold strip_by. rewrite lstrip_is_drop, drop_while_app by assumption.
  unfold rstrip_by. rewrite lstrip_is_drop, (drop_while_stops_id p (rev b) H2). apply rev_involutive.
Qed.

Lemma strip_trail p a ws : forallb p ws = true -> no_edge p a -> strip_by p (a ++ ws) = a.
Proof.
  intros Hw [H1 H2]. unfold strip_by. destruct a as [|c r].
  - simpl. rewrite lstrip_is_drop. rewrite <- (app_nil_r ws), drop_while_app by (auto; exact I). reflexivity.
  - assert (E : lstrip_by p ((c :: r) ++ ws) = (c :: r) ++ ws).
    { rewrite lstrip_is_drop. apply drop_while_stops_id. exact H1. }
    rewrite E. unfold rstrip_by. rewrite lstrip_is_drop, rev_app_distr, drop_while_app; [apply rev_involutive|rewrite forallb_rev; assumption|assumption].
Qed.

Lemma stops_all_not p s : forallb (fun c => negb (p c)) s = true -> stops p s.
Proof.
  destruct s as [|c r]; [intros; exact I|]. simpl. intros H. apply andb_true_iff in H. destruct H as [H _].
  apply negb_true_iff. assumption.
Qed.

Lemma no_edge_all_not p s : forallb (fun c => negb (p c)) s = true -> no_edge p s.
Proof.
  intros H. split; apply stops_all_not; [assumption|]. rewrite forallb_rev. assumption.
Qed.

(* ================================================================== find_after / find_class *)
Definition not_char (m c : char) : bool := negb (N.eqb c m).

Lemma find_after_skip m a b : forallb (not_char m) a = true -> find_after m (a ++ b) = find_after m b.
Proof.
  induction a as [|c r IH]; simpl; intros H; [reflexivity|]. apply andb_true_iff in H. destruct H as [H1 H2].
  unfold not_char in H1. apply negb_true_iff in H1. rewrite H1. simpl. apply IH. assumption.
Qed.

Lemma find_after_none m a : forallb (not_char m) a = true -> find_after m a = None.
Proof. intros H. rewrite <- (app_nil_r a), find_after_skip by assumption. reflexivity. Qed.

Lemma find_after_hit m ds rest :
  ds <> [] -> forallb is_digit ds = true -> stops is_digit rest ->
  find_after m (m :: ds ++ rest) = Some (dec_val ds).
Proof.
  intros Hn Hd Hr. simpl. rewrite N.eqb_refl. destruct ds as [|d r]; [congruence|].
  simpl in Hd. apply andb_true_iff in Hd. destruct Hd as [Hd1 Hd2]. simpl. rewrite Hd1. simpl.
  rewrite take_while_app by assumption. reflexivity.
Qed.

Lemma find_class_hit (x w : list N) :
  w <> [] -> forallb in_classw w = true -> stops is_space (rev x) ->
  find_class (x ++ c_space :: w) = Some (c_space :: w).
Proof.
  intros Hn Hw Hx. unfold find_class. rewrite rev_app_distr. simpl rev. rewrite <- app_assoc. simpl app.
  assert (Hs : stops in_classw (c_space :: rev x)) by reflexivity.
  rewrite take_while_app, drop_while_app by (rewrite ?forallb_rev; assumption).
  simpl take_while. change (is_space c_space) with true. cbv iota.
  rewrite (take_while_stops is_space (rev x) Hx).
  destruct (rev w) as [|c r] eqn:E.
  - exfalso. apply Hn. rewrite <- (rev_involutive w), E. reflexivity.
  - rewrite <- E, rev_involutive. reflexivity.
Qed.

Lemma find_class_miss x : stops in_classw (rev x) -> find_class x = None.
Proof. intros H. unfold find_class. rewrite (take_while_stops _ _ H). reflexivity. Qed.

Lemma find_class_shape s r : find_class s = Some r ->
  exists ws w, r = ws ++ w /\ forallb is_space ws = true /\ w <> [] /\ forallb in_classw w = true.
Proof.
  unfold find_class. set (w := take_while in_classw (rev s)). set (r1 := drop_while in_classw (rev s)).
  set (ws := take_while is_space r1). intros H.
  destruct w as [|c w'] eqn:Ew; [discriminate|]. destruct ws as [|d ws'] eqn:Ews; [discriminate|].
  inversion H; subst r. exists (rev (d :: ws')), (rev (c :: w')). split; [reflexivity|].
  split; [rewrite forallb_rev, <- Ews; apply take_while_all|].
  split; [simpl; intros E; apply app_eq_nil in E; destruct E; discriminate|].
  rewrite forallb_rev, <- Ew. apply take_while_all.
Qed.

Lemma strip_class ws w : forallb is_space ws = true -> forallb in_classw w = true -> strip (ws ++ w) = w.
Proof.
  intros H1 H2. apply strip_lead; [assumption|]. apply no_edge_all_not.
  apply (forallb_impl in_classw); [|assumption]. intros c Hc. rewrite (classw_not_space c Hc). reflexivity.
Qed.

(* ================================================================== canonical component tuples *)
Definition class_ok (o : option str) : Prop :=
  match o with Some w => w <> [] /\ forallb in_classw w = true | None => True end.
Definition shape_ok (c : intf) : Prop :=
  (i_slot c = None /\ i_card c = None /\ i_sep c = None) \/
  ((exists sl, i_slot c = Some sl) /\ i_sep c = Some [c_slash]).
Definition canon (c : intf) : Prop :=
  forallb in_prefix (i_prefix c) = true /\ no_edge is_space (i_prefix c) /\ class_ok (i_class c) /\ shape_ok c.

(* the text after the number *)
Definition ext_of (sub chan : option N) (cls : option str) : str :=
  match sub with Some n => c_dot :: render_dec n | None => [] end
  ++ match chan with Some n => c_colon :: render_dec n | None => [] end
  ++ match cls with Some w => c_space :: w | None => [] end.

Lemma tail_str_ext c : tail_str c = number_str c ++ ext_of (i_sub c) (i_chan c) (i_class c).
Proof. reflexivity. Qed.

Definition ends_digit (s : str) : Prop := exists y d, s = y ++ [d] /\ is_digit d = true.

Lemma render_dec_ends n : ends_digit (render_dec n).
Proof.
  destruct (exists_last (render_dec_nonempty n)) as [y [d E]]. exists y, d. split; [assumption|].
  pose proof (render_dec_last n) as H. rewrite E, last_last in H. assumption.
Qed.

Lemma ends_digit_app a b : ends_digit b -> ends_digit (a ++ b).
Proof. intros [y [d [E H]]]. exists (a ++ y), d. subst. rewrite app_assoc. auto. Qed.

Lemma ends_digit_rev_stops (p : char -> bool) s :
  (forall d, is_digit d = true -> p d = false) -> ends_digit s -> stops p (rev s).
Proof. intros Hp [y [d [E H]]]. subst. rewrite rev_app_distr. simpl. apply Hp. assumption. Qed.

Lemma digits_all (P : char -> bool) n : (forall d, is_digit d = true -> P d = true) -> forallb P (render_dec n) = true.
Proof. intros H. apply (forallb_impl is_digit); [assumption|apply render_dec_digits]. Qed.

Lemma stops_render_dec_app (p : char -> bool) n rest :
  (forall d, is_digit d = true -> p d = false) -> stops p (render_dec n ++ rest).
Proof. intros H. destruct (render_dec_cons n) as [d [r [E Hd]]]. rewrite E. simpl. apply H. assumption. Qed.

Section Ext.
Variables (sub chan : option N) (cls : option str).
Hypothesis Hcls : class_ok cls.
Let e := ext_of sub chan cls.

Lemma ext_stops_digit : stops is_digit e.
Proof.
  unfold e, ext_of. destruct sub; [reflexivity|]. destruct chan; [reflexivity|]. destruct cls; [reflexivity|exact I].
Qed.
Lemma ext_stops_sep : stops is_sep e.
Proof.
  unfold e, ext_of. destruct sub; [reflexivity|]. destruct chan; [reflexivity|]. destruct cls; [reflexivity|exact I].
Qed.
Lemma ext_stops_prefix : e <> [] -> stops is_digit e.
Proof. intros _. apply ext_stops_digit. Qed.

Let cpart := match cls with Some w => c_space :: w | None => [] end.
Let chpart := match chan with Some n => c_colon :: render_dec n | None => [] end.

Lemma cpart_no (m : char) : m <> c_space -> (forall c, in_classw c = true -> N.eqb c m = false) -> forallb (not_char m) cpart = true.
Proof.
  intros H1 H2. unfold cpart. destruct cls as [w|]; [|reflexivity]. simpl. destruct Hcls as [_ Hw].
  unfold not_char at 1. destruct (N.eqb c_space m) eqn:E; [apply N.eqb_eq in E; congruence|]. simpl.
  apply (forallb_impl in_classw); [|assumption]. intros c Hc. unfold not_char. rewrite (H2 c Hc). reflexivity.
Qed.

Lemma ext_find_dot : find_after c_dot e = sub.
Proof.
  unfold e, ext_of. fold chpart cpart. destruct sub as [n|].
  - cbn [app]. rewrite find_after_hit; [rewrite render_dec_val; reflexivity|apply render_dec_nonempty|apply render_dec_digits|].
    unfold chpart. destruct chan; [reflexivity|]. unfold cpart. destruct cls; [reflexivity|exact I].
  - simpl. apply find_after_none. rewrite forallb_app'. apply andb_true_iff. split.
    + unfold chpart. destruct chan as [n|]; [|reflexivity]. simpl. apply digits_all. intros d Hd. unfold not_char. rewrite (digit_not_dot d Hd). reflexivity.
    + apply cpart_no; [discriminate|apply classw_not_dot].
Qed.

Lemma ext_find_colon : find_after c_colon e = chan.
Proof.
  unfold e, ext_of. fold chpart cpart. rewrite find_after_skip.
  - unfold chpart. destruct chan as [n|].
    + cbn [app]. rewrite find_after_hit; [rewrite render_dec_val; reflexivity|apply render_dec_nonempty|apply render_dec_digits|].
      unfold cpart. destruct cls; [reflexivity|exact I].
    + simpl. apply find_after_none. apply cpart_no; [discriminate|apply classw_not_colon].
  - destruct sub as [n|]; [|reflexivity]. simpl. apply digits_all. intros d Hd. unfold not_char. rewrite (digit_not_colon d Hd). reflexivity.
Qed.

Lemma ext_find_class x : ends_digit x -> find_class (x ++ e) = option_map (cons c_space) cls.
Proof.
  intros Hx. unfold e, ext_of.
  set (s1 := match sub with Some n => c_dot :: render_dec n | None => [] end).
  set (s2 := match chan with Some n => c_colon :: render_dec n | None => [] end).
  assert (H1 : ends_digit (x ++ s1)).
  { unfold s1. destruct sub as [n|]; [|rewrite app_nil_r; assumption]. apply ends_digit_app.
    change (c_dot :: render_dec n) with ([c_dot] ++ render_dec n). apply ends_digit_app, render_dec_ends. }
  assert (H2 : ends_digit ((x ++ s1) ++ s2)).
  { unfold s2. destruct chan as [n|]; [|rewrite app_nil_r; assumption]. apply ends_digit_app.
    change (c_colon :: render_dec n) with ([c_colon] ++ render_dec n). apply ends_digit_app, render_dec_ends. }
  rewrite !app_assoc. destruct cls as [w|]; simpl.
  - destruct Hcls as [Hn Hw]. apply find_class_hit; [assumption|assumption|].
    apply ends_digit_rev_stops; [apply digit_not_space|assumption].
  - rewrite app_nil_r. apply find_class_miss. apply ends_digit_rev_stops; [apply digit_not_classw|assumption].
Qed.

Lemma ext_all (P : char -> bool) :
  (forall d, is_digit d = true -> P d = true) -> (forall c, in_classw c = true -> P c = true) ->
  P c_dot = true -> P c_colon = true -> P c_space = true -> forallb P e = true.
Proof.
  intros Hd Hc H1 H2 H3. unfold e, ext_of. rewrite !forallb_app'. repeat (apply andb_true_iff; split).
  - destruct sub; [|reflexivity]. simpl. rewrite H1. apply digits_all; assumption.
  - destruct chan; [|reflexivity]. simpl. rewrite H2. apply digits_all; assumption.
  - destruct cls as [w|]; [|reflexivity]. simpl. rewrite H3. destruct Hcls as [_ Hw].
    apply (forallb_impl in_classw); assumption.
Qed.
End Ext.

(* ================================================================== the two inner parsers on rendered text *)
Lemma opt_sep_stops s : stops is_sep s -> opt_sep s = (None, s).
Proof. destruct s as [|c r]; simpl; intros H; [reflexivity|]. rewrite H. reflexivity. Qed.

Lemma strip_space_class w : forallb in_classw w = true -> strip (c_space :: w) = w.
Proof. intros H. change (c_space :: w) with ([c_space] ++ w). apply strip_class; [reflexivity|assumption]. Qed.

Lemma class_restore cls : class_ok cls -> option_map strip (option_map (cons c_space) cls) = cls.
Proof. destruct cls as [w|]; simpl; [|reflexivity]. intros [_ H]. rewrite strip_space_class by assumption. reflexivity. Qed.

Lemma match_nonempty {A B} (s : list A) (a b : B) : s <> [] -> match s with [] => a | _ :: _ => b end = b.
Proof. destruct s; [congruence|reflexivity]. Qed.

Lemma render_app_nonempty n rest : render_dec n ++ rest <> [].
Proof. destruct (render_dec_cons n) as [d [r [E _]]]. rewrite E. discriminate. Qed.

Lemma parse_short_ok pre port sub chan cls :
  class_ok cls ->
  parse_short pre (render_dec port ++ ext_of sub chan cls) =
  Ok (mk_intf (strip (strip pre)) None None None port sub chan cls).
Proof.
  intros Hc. unfold parse_short.
  assert (Hs : stops not_digit (render_dec port ++ ext_of sub chan cls)).
  { apply stops_render_dec_app. intros d Hd. unfold not_digit. rewrite Hd. reflexivity. }
  rewrite (drop_while_stops_id _ _ Hs). cbv zeta.
  rewrite match_nonempty by apply render_app_nonempty.
Show.
