(* C11 (numeric layer): derived integer values of address objects, stated about the reference model
   and the terms translated from /repo. *)
From Coq Require Import ZArith Lia Bool.
Require Import CCP.Lib.Res CCP.Lib.Pow2 CCP.Model.IPRef CCP.gen.GenIP CCP.gen.GenOK11 CCP.Proofs.IPProofs.
Open Scope Z_scope.

Lemma P4 : 0 < 32. Proof. lia. Qed.
Lemma P6 : 0 < 128. Proof. lia. Qed.

Lemma v4_network_is_and o : wf 32 o -> netw 32 o = Z.land (addr o) (netmask 32 o).
Proof. apply network_is_and. Qed.
Lemma v6_network_is_and o : wf 128 o -> netw 128 o = Z.land (addr o) (netmask 128 o).
Proof. apply network_is_and. Qed.

Lemma v4_masks o : wf 32 o -> netmask 32 o + hostmask 32 o = 4294967295 /\ hostmask 32 o = 2 ^ (32 - plen o) - 1.
Proof. intros. split; [rewrite masks_complement by assumption; reflexivity | reflexivity]. Qed.
Lemma v6_masks o : wf 128 o -> netmask 128 o + hostmask 128 o = 340282366920938463463374607431768211455 /\ hostmask 128 o = 2 ^ (128 - plen o) - 1.
Proof. intros. split; [rewrite masks_complement by assumption; reflexivity | reflexivity]. Qed.

Lemma v4_broadcast o : wf 32 o -> gen_v4_as_decimal_broadcast o = Ok (netw 32 o + hostmask 32 o).
Proof. intros. rewrite gen_v4_as_decimal_broadcast_ok by assumption. f_equal. apply broadcast_last; assumption. Qed.
Lemma v6_last o : wf 128 o -> gen_v6_as_decimal_network_maxint o = Ok (netw 128 o + hostmask 128 o).
Proof. intros. rewrite gen_v6_as_decimal_network_maxint_ok by assumption. f_equal. apply broadcast_last; assumption. Qed.

Lemma v4_range o : wf 32 o -> 0 <= netw 32 o <= addr o /\ addr o <= lastaddr 32 o < 2 ^ 32.
Proof.
  intros Wo. pose proof (netw_in_range 32 P4 o Wo). pose proof (addr_in_own_network 32 o Wo). lia.
Qed.
Lemma v6_range o : wf 128 o -> 0 <= netw 128 o <= addr o /\ addr o <= lastaddr 128 o < 2 ^ 128.
Proof.
  intros Wo. pose proof (netw_in_range 128 P6 o Wo). pose proof (addr_in_own_network 128 o Wo). lia.
Qed.

Lemma v4_numhosts o : wf 32 o -> gen_v4_numhosts o = Ok (numhosts_ref 32 o).
Proof. apply gen_v4_numhosts_ok. Qed.
Lemma v6_numhosts o : wf 128 o -> gen_v6_numhosts o = Ok (numhosts_ref 128 o).
Proof. apply gen_v6_numhosts_ok. Qed.

(* the network of the network is itself; the network number has no host bits *)
Lemma netw_idem W o : 0 < W -> wf W o -> netw W (set_addr o (netw W o)) = netw W o /\ (netw W o) mod (blk W o) = 0.
Proof.
  intros HW Wo. pose proof (blk_pos W o Wo) as Hb. split.
  - change (netw W (set_addr o (netw W o))) with (net (netw W o) (blk W o)). unfold netw. apply net_idem; lia.
  - unfold netw, net. apply Z.mod_mul. lia.
Qed.
Lemma v4_netw_idem o : wf 32 o -> netw 32 (set_addr o (netw 32 o)) = netw 32 o /\ (netw 32 o) mod (2 ^ (32 - plen o)) = 0.
Proof. intros. apply (netw_idem 32 o P4); assumption. Qed.
Lemma v6_netw_idem o : wf 128 o -> netw 128 (set_addr o (netw 128 o)) = netw 128 o /\ (netw 128 o) mod (2 ^ (128 - plen o)) = 0.
Proof. intros. apply (netw_idem 128 o P6); assumption. Qed.

(* host bits are kept: an object is determined by (addr, plen); changing the prefix length (GenOK13) or
   building from an integer never changes addr *)
Lemma host_bits_kept W a p : addr (set_plen (mk_host W a) p) = a /\ plen (set_plen (mk_host W a) p) = p.
Proof. split; reflexivity. Qed.

Lemma consts_ok : c_IPV4_MAXINT = 2 ^ 32 - 1 /\ c_IPV6_MAXINT = 2 ^ 128 - 1 /\ c_IPV4_MAX_PREFIXLEN = 32 /\ c_IPV6_MAX_PREFIXLEN = 128.
Proof. repeat split; reflexivity. Qed.

Example ex11 : netw 32 {| addr := 167838285; plen := 24 |} = 167838208 /\ lastaddr 32 {| addr := 167838285; plen := 24 |} = 167838463
  /\ netmask 32 {| addr := 167838285; plen := 24 |} = 4294967040 /\ hostmask 32 {| addr := 167838285; plen := 24 |} = 255.
Proof. vm_compute. auto. Qed.
