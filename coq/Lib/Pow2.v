From Coq Require Import ZArith Lia Bool.
Open Scope Z_scope.

(* prefix arithmetic with the block size M = 2^(W-p) kept abstract *)
Definition net (a M : Z) := (a / M) * M.
Definition last (a M : Z) := net a M + M - 1.

Lemma net_le a M : 0 < M -> net a M <= a.
Proof. intros; unfold net. pose proof (Z.mul_div_le a M H). lia. Qed.

Lemma net_gt a M : 0 < M -> a < net a M + M.
Proof. intros; unfold net. pose proof (Z.mod_pos_bound a M H). pose proof (Z.div_mod a M). lia. Qed.

Lemma net_idem a M : 0 < M -> net (net a M) M = net a M.
Proof. intros; unfold net. rewrite Z.div_mul by lia. reflexivity. Qed.

Lemma net_add_lt a k M : 0 < M -> 0 <= k < M -> net (net a M + k) M = net a M.
Proof.
  intros HM Hk. unfold net. f_equal.
  rewrite Z.add_comm, Z.div_add by lia. rewrite Z.div_small by lia. lia.
Qed.

(* y's block M is a multiple of x's block m *)
Lemma contains_core a b M m c :
  0 < m -> 0 < c -> M = m * c ->
  (net a M <= net b m /\ last b m <= last a M) <-> b / M = a / M.
Proof.
  intros Hm Hc HM. assert (HMpos : 0 < M) by nia.
  unfold last. split.
  - intros [H1 H2].
    pose proof (net_le b m Hm). pose proof (net_gt b m Hm).
    unfold net in *.
    symmetry. apply Z.div_unique with (r := b - (a / M) * M); lia.
  - intros E.
    pose proof (net_le b M HMpos). pose proof (net_gt b M HMpos).
    unfold net in *. rewrite <- E.
    set (q := b / M) in *. set (k := b / m).
    assert (Hk1 : k * m <= b) by (subst k; pose proof (Z.mul_div_le b m Hm); lia).
    assert (Hk2 : b < k * m + m) by (subst k; pose proof (Z.mod_pos_bound b m Hm); pose proof (Z.div_mod b m); lia).
    subst M.
    assert (q * c <= k) by nia.
    assert (k < (q + 1) * c) by nia.
    split; nia.
Qed.

Lemma div_coarsen a b m c : 0 < m -> 0 < c -> a / m = b / m -> a / (m * c) = b / (m * c).
Proof. intros Hm Hc E. rewrite <- !Z.div_div by lia. rewrite E. reflexivity. Qed.
