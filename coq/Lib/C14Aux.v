(* Helper for C14: the standard library's merge sort instantiated at Z.
   Python's `sorted` on a list of ints is modelled by ZSort.sort (for ints any correct sort gives
   the same list).  The functor needs the totality proof, hence this file is not under Model/. *)
From Coq Require Import ZArith List Sorting.Mergesort Orders Lia.
Open Scope Z_scope.

Module ZOrder <: TotalLeBool.
  Definition t := Z.
  Definition leb := Z.leb.
  Theorem leb_total : forall a1 a2, leb a1 a2 = true \/ leb a2 a1 = true.
  Proof. intros a1 a2. unfold leb. destruct (Z.leb_spec a1 a2); [left; reflexivity | right; apply Z.leb_le; lia]. Qed.
End ZOrder.

Module ZSort := Sort ZOrder.
