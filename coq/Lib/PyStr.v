(* Python-string helpers over code points.  char := N (a Unicode code point), str := list N.
   Definitions only (plus a few basic facts); no property-specific content. *)
From Coq Require Import NArith ZArith List Bool Arith Lia.
Import ListNotations.

Definition char := N.
Definition str := list N.

Definition ceqb (a b : char) : bool := N.eqb a b.
Fixpoint str_eqb (a b : str) : bool :=
  match a, b with
  | [], [] => true
  | x :: r, y :: s => N.eqb x y && str_eqb r s
  | _, _ => false
  end.

Lemma str_eqb_eq a b : str_eqb a b = true <-> a = b.
Proof.
  revert b; induction a as [|x r IH]; intros [|y s]; simpl; split; intros H; try discriminate; auto.
  - apply andb_true_iff in H. destruct H as [H1 H2]. apply N.eqb_eq in H1. apply IH in H2. subst. reflexivity.
  - inversion H; subst. rewrite N.eqb_refl. simpl. apply IH. reflexivity.
Qed.
Lemma str_eqb_refl a : str_eqb a a = true.
Proof. apply str_eqb_eq. reflexivity. Qed.

Fixpoint list_eqb {A} (eqb : A -> A -> bool) (a b : list A) : bool :=
  match a, b with
  | [], [] => true
  | x :: r, y :: s => eqb x y && list_eqb eqb r s
  | _, _ => false
  end.
Definition opt_eqb {A} (eqb : A -> A -> bool) (a b : option A) : bool :=
  match a, b with Some x, Some y => eqb x y | None, None => true | _, _ => false end.

(* Python's str.isspace() for a single code point (the 29 code points of CPython 3.12; the
   harness re-checks this table against the running interpreter, see gen/GenTables.v) *)
Definition is_space (c : char) : bool :=
  match c with
  | 9 | 10 | 11 | 12 | 13 | 28 | 29 | 30 | 31 | 32 | 133 | 160 | 5760
  | 8192 | 8193 | 8194 | 8195 | 8196 | 8197 | 8198 | 8199 | 8200 | 8201 | 8202
  | 8232 | 8233 | 8239 | 8287 | 12288 => true
  | _ => false
  end%N.

(* ASCII-only whitespace of the regex class [ \t\n\r\f\v] *)
Definition is_ascii_space (c : char) : bool :=
  match c with 9 | 10 | 11 | 12 | 13 | 32 => true | _ => false end%N.

Fixpoint lstrip_by (p : char -> bool) (s : str) : str :=
  match s with
  | [] => []
  | c :: r => if p c then lstrip_by p r else s
  end.
Definition rstrip_by (p : char -> bool) (s : str) : str := rev (lstrip_by p (rev s)).
Definition strip_by (p : char -> bool) (s : str) : str := rstrip_by p (lstrip_by p s).
Definition lstrip := lstrip_by is_space.
Definition rstrip := rstrip_by is_space.
Definition strip := strip_by is_space.

(* number of leading characters satisfying p:  len(s) - len(s.lstrip()) *)
Fixpoint count_leading (p : char -> bool) (s : str) : nat :=
  match s with
  | [] => 0
  | c :: r => if p c then S (count_leading p r) else 0
  end.

Fixpoint starts_with (pre s : str) : bool :=
  match pre, s with
  | [], _ => true
  | p :: pr, c :: r => N.eqb p c && starts_with pr r
  | _ :: _, [] => false
  end.
Definition ends_with (suf s : str) : bool := starts_with (rev suf) (rev s).

(* Python `sub in s` *)
Fixpoint contains (sub s : str) : bool :=
  starts_with sub s || match s with [] => false | _ :: r => contains sub r end.

(* s.split(sep) for a single-character separator: always at least one field *)
Fixpoint split_on_aux (sep : char) (cur : str) (s : str) : list str :=
  match s with
  | [] => [rev cur]
  | c :: r => if N.eqb c sep then rev cur :: split_on_aux sep [] r else split_on_aux sep (c :: cur) r
  end.
Definition split_on (sep : char) (s : str) : list str := split_on_aux sep [] s.

(* s.split()  : runs of whitespace separate fields, no empty fields *)
Fixpoint split_ws_aux (p : char -> bool) (cur : str) (s : str) : list str :=
  match s with
  | [] => match cur with [] => [] | _ => [rev cur] end
  | c :: r => if p c then match cur with [] => split_ws_aux p [] r | _ => rev cur :: split_ws_aux p [] r end
              else split_ws_aux p (c :: cur) r
  end.
Definition split_ws (s : str) : list str := split_ws_aux is_space [] s.

Fixpoint join (sep : str) (l : list str) : str :=
  match l with
  | [] => []
  | [x] => x
  | x :: r => x ++ sep ++ join sep r
  end.

(* ASCII case mapping (str.lower / str.upper restricted to ASCII letters) *)
Definition lower_c (c : char) : char := if (N.leb 65 c && N.leb c 90)%bool then (c + 32)%N else c.
Definition upper_c (c : char) : char := if (N.leb 97 c && N.leb c 122)%bool then (c - 32)%N else c.
Definition lower (s : str) : str := map lower_c s.
Definition upper (s : str) : str := map upper_c s.

Definition is_digit (c : char) : bool := (N.leb 48 c && N.leb c 57)%bool.
Definition is_alpha_ascii (c : char) : bool :=
  ((N.leb 65 c && N.leb c 90) || (N.leb 97 c && N.leb c 122))%bool.
Definition digit_val (c : char) : N := (c - 48)%N.
Definition hex_val (c : char) : option N :=
  if is_digit c then Some (c - 48)%N
  else if (N.leb 97 c && N.leb c 102)%bool then Some (c - 87)%N
  else if (N.leb 65 c && N.leb c 70)%bool then Some (c - 55)%N
  else None.

(* decimal: non-empty ASCII digit string -> N *)
Fixpoint dec_aux (acc : N) (s : str) : option N :=
  match s with
  | [] => Some acc
  | c :: r => if is_digit c then dec_aux (acc * 10 + digit_val c)%N r else None
  end.
Definition parse_dec (s : str) : option N := match s with [] => None | _ => dec_aux 0%N s end.

(* Python int(s) restricted to: optional surrounding whitespace, optional sign, ASCII digits
   (underscores and non-ASCII digits are rejected by the model and never generated) *)
Definition py_int (s : str) : option Z :=
  match strip s with
  | 45%N :: r => option_map (fun n => Z.opp (Z.of_N n)) (parse_dec r)
  | 43%N :: r => option_map Z.of_N (parse_dec r)
  | r => option_map Z.of_N (parse_dec r)
  end.

(* decimal rendering of N: str(n) *)
Fixpoint render_dec_fuel (fuel : nat) (n : N) (acc : str) : str :=
  match fuel with
  | O => acc
  | S f => let d := (48 + n mod 10)%N in
           if (n <? 10)%N then d :: acc else render_dec_fuel f (n / 10)%N (d :: acc)
  end.
Definition render_dec (n : N) : str := render_dec_fuel (S (N.to_nat (N.log2 n))) n [].
Definition render_Z (z : Z) : str :=
  match z with Zneg p => 45%N :: render_dec (Npos p) | _ => render_dec (Z.to_N z) end.

Definition hex_digit (d : N) : char := if (d <? 10)%N then (48 + d)%N else (87 + d)%N.   (* lower case *)

Definition nth_str (l : list str) (i : nat) : str := nth i l [].

(* s[a:b] for 0 <= a <= b *)
Definition slice (a b : nat) (s : str) : str := firstn (b - a) (skipn a s).

Definition all_b {A} (p : A -> bool) (l : list A) : bool := forallb p l.
