(* String facts for the C20 proofs: texts of the form  tok1 SP tok2 SP ... tokn  (one separator between
   tokens): substring test against  word ++ [SP], split at white space, the single-token test, strip. *)
From Coq Require Import NArith ZArith List Bool Lia.
Require Import CCP.Lib.PyStr CCP.Lib.C14StrAux.
Import ListNotations.

Lemma str_eqb_neq a b : a <> b -> str_eqb a b = false.
Proof. intros H. destruct (str_eqb a b) eqn:E; auto. apply str_eqb_eq in E. contradiction. Qed.

Lemma str_eqb_rev a b : str_eqb (rev a) (rev b) = str_eqb a b.
Proof.
  destruct (str_eqb a b) eqn:E.
  - apply str_eqb_eq in E. subst. apply str_eqb_refl.
  - apply str_eqb_neq. intros H. apply (f_equal (@rev _)) in H. rewrite !rev_involutive in H.
    subst. rewrite str_eqb_refl in E. discriminate.
Qed.

Lemma starts_with_nil_r r : starts_with r [] = str_eqb r [].
Proof. destruct r; reflexivity. Qed.

(* r is a prefix of q ++ [x]  iff  r is a prefix of q or r = q ++ [x] *)
Lemma starts_with_snoc r : forall q x, starts_with r (q ++ [x]) = starts_with r q || str_eqb r (q ++ [x]).
Proof.
  induction r as [|a r IH]; intros q x; [reflexivity|].
  destruct q as [|b q].
  - simpl. rewrite starts_with_nil_r. reflexivity.
  - simpl. rewrite IH. destruct (a =? b)%N; simpl; reflexivity.
Qed.

Lemma ends_with_cons w x t : ends_with w (x :: t) = str_eqb w (x :: t) || ends_with w t.
Proof.
  unfold ends_with. simpl rev. rewrite starts_with_snoc.
  change (rev t ++ [x]) with (rev (x :: t)). rewrite str_eqb_rev. apply orb_comm.
Qed.

Lemma ends_with_nil w : w <> [] -> ends_with w [] = false.
Proof.
  intros H. unfold ends_with. simpl. destruct (rev w) eqn:E; [|reflexivity].
  apply (f_equal (@rev _)) in E. rewrite rev_involutive in E. simpl in E. congruence.
Qed.

(* a word whose last character differs from the last character of the text is not a suffix *)
Lemma ends_with_last_differs w c s d : c <> d -> ends_with (w ++ [c]) (s ++ [d]) = false.
Proof.
  intros H. unfold ends_with. rewrite !rev_app_distr. simpl.
  destruct (N.eqb_spec c d); [contradiction|reflexivity].
Qed.

Lemma starts_with_In p : forall u, starts_with p u = true -> forall x, In x p -> In x u.
Proof.
  induction p as [|a p IH]; intros u H x Hx; [destruct Hx|].
  destruct u as [|b u]; [discriminate|]. simpl in H. apply andb_true_iff in H. destruct H as [E H].
  apply N.eqb_eq in E. subst. destruct Hx as [<-|Hx]; [left; reflexivity|right; eauto].
Qed.

(* the pattern contains a character that the text lacks *)
Lemma contains_missing_char p (c : N) t : In c p -> ~ In c t -> contains p t = false.
Proof.
  intros Hp. induction t as [|x t IH]; intros Ht.
  - simpl. destruct p; [destruct Hp|reflexivity].
  - rewrite contains_cons. rewrite IH by (intros H; apply Ht; right; exact H). rewrite orb_false_r.
    destruct (starts_with p (x :: t)) eqn:E; [|first [reflexivity|exact E]].
    exfalso. apply Ht. eapply starts_with_In; eauto.
Qed.

Section Sep.
  Variable c : N.            (* the separator *)

  Lemma starts_with_kw w : forall u s, ~ In c u -> ~ In c w ->
    starts_with (w ++ [c]) (u ++ c :: s) = str_eqb w u.
  Proof.
    induction w as [|a w IH]; intros u s Hu Hw.
    - destruct u as [|y u]; simpl.
      + rewrite N.eqb_refl. reflexivity.
      + destruct (N.eqb_spec c y) as [E|E]; [|reflexivity]. exfalso. apply Hu. left. auto.
    - destruct u as [|y u]; simpl.
      + destruct (N.eqb_spec a c) as [E|E]; [|reflexivity]. exfalso. apply Hw. left. auto.
      + rewrite IH; [reflexivity| |]; intros H; [apply Hu|apply Hw]; right; exact H.
  Qed.

  (* `w ++ [c] in t ++ [c] ++ s`  for a token t without separator *)
  Lemma contains_kw_token w t s : w <> [] -> ~ In c w -> ~ In c t ->
    contains (w ++ [c]) (t ++ c :: s) = ends_with w t || contains (w ++ [c]) s.
  Proof.
    intros Hne Hw. induction t as [|x t IH]; intros Ht.
    - simpl app. rewrite contains_cons. rewrite ends_with_nil by assumption.
      replace (starts_with (w ++ [c]) (c :: s)) with false; [reflexivity|].
      destruct w as [|a w]; [congruence|]. simpl. destruct (N.eqb_spec a c) as [E|E]; [|reflexivity].
      exfalso. apply Hw. left. auto.
    - change ((x :: t) ++ c :: s) with (x :: (t ++ c :: s)). rewrite contains_cons.
      rewrite IH by (intros H; apply Ht; right; exact H).
      change (x :: t ++ c :: s) with ((x :: t) ++ c :: s). rewrite starts_with_kw by assumption.
      rewrite ends_with_cons. rewrite orb_assoc. reflexivity.
  Qed.

  Lemma removelast_cons2 {A} (a b : A) l : removelast (a :: b :: l) = a :: removelast (b :: l).
  Proof. reflexivity. Qed.

  (* `w ++ [c] in c.join(toks)`  iff  some token other than the last ends with w *)
  Lemma contains_kw_join w toks : w <> [] -> ~ In c w -> Forall (fun t => ~ In c t) toks ->
    contains (w ++ [c]) (join [c] toks) = existsb (ends_with w) (removelast toks).
  Proof.
    intros Hne Hw H. induction H as [|t r Ht Hr IH]; [simpl; destruct w; [congruence|reflexivity]|].
    destruct r as [|t2 r'].
    - simpl. apply contains_missing_char with (c := c); [apply in_or_app; right; left; reflexivity|exact Ht].
    - change (join [c] (t :: t2 :: r')) with (t ++ c :: join [c] (t2 :: r')).
      rewrite contains_kw_token by assumption. rewrite IH. rewrite removelast_cons2. reflexivity.
  Qed.
End Sep.

(* ------------------------------------------------------------------ split at white space *)
Definition sp : char := 32%N.
Definition nonspace (t : str) : Prop := t <> [] /\ forallb (fun c => negb (is_space c)) t = true.

Lemma nonspace_no_sp t : nonspace t -> ~ In sp t.
Proof.
  intros [_ H] Hin. rewrite forallb_forall in H. specialize (H sp Hin). discriminate.
Qed.

Lemma split_ws_aux_token t : forall cur s, forallb (fun c => negb (is_space c)) t = true ->
  split_ws_aux is_space cur (t ++ s) = split_ws_aux is_space (rev t ++ cur) s.
Proof.
  induction t as [|x t IH]; intros cur s H; [reflexivity|].
  simpl in H. apply andb_true_iff in H. destruct H as [Hx Ht].
  simpl. destruct (is_space x); [discriminate|]. rewrite IH by assumption. rewrite <- app_assoc. reflexivity.
Qed.

Lemma split_ws_join toks : toks <> [] -> Forall nonspace toks -> split_ws (join [sp] toks) = toks.
Proof.
  unfold split_ws. intros Hne H. induction H as [|t r [Tne Tns] Hr IH]; [congruence|].
  assert (exists d u, rev t = d :: u) as (d & u & Er).
  { destruct (rev t) eqn:E; eauto. apply (f_equal (@rev _)) in E. rewrite rev_involutive in E. simpl in E. congruence. }
  destruct r as [|t2 r'].
  - simpl join. rewrite <- (app_nil_r t) at 1. rewrite split_ws_aux_token by assumption. unfold char in *.
    rewrite app_nil_r, Er. cbn [split_ws_aux]. rewrite <- Er, rev_involutive. reflexivity.
  - change (join [sp] (t :: t2 :: r')) with (t ++ sp :: join [sp] (t2 :: r')).
    rewrite split_ws_aux_token by assumption. unfold char in *. rewrite app_nil_r, Er. cbn [split_ws_aux].
    change (is_space sp) with true. cbv iota. rewrite <- Er, rev_involutive.
    f_equal. apply IH. discriminate.
Qed.

Lemma join_sp_tight toks : toks <> [] -> Forall nonspace toks -> tight is_space (join [sp] toks).
Proof.
  intros Hne H. induction H as [|t r [Tne Tns] Hr IH]; [congruence|].
  pose proof (tight_all is_space t Tne Tns) as (c1 & t1 & d1 & u1 & E1 & P1 & R1 & Q1).
  destruct r as [|t2 r'].
  - simpl. exists c1, t1, d1, u1. auto.
  - destruct IH as (c2 & t2' & d2 & u2 & E2 & P2 & R2 & Q2); [discriminate|].
    change (join [sp] (t :: t2 :: r')) with (t ++ [sp] ++ join [sp] (t2 :: r')).
    exists c1, (t1 ++ [sp] ++ join [sp] (t2 :: r')), d2, (u2 ++ rev [sp] ++ rev t).
    repeat split; auto.
    + rewrite E1. reflexivity.
    + unfold char in *. rewrite !rev_app_distr. rewrite R2. rewrite <- app_assoc. reflexivity.
Qed.

Lemma strip_join_sp lead toks trail : toks <> [] -> Forall nonspace toks ->
  forallb is_space lead = true -> forallb is_space trail = true ->
  strip (lead ++ join [sp] toks ++ trail) = join [sp] toks.
Proof. intros. unfold strip. apply strip_by_padded; auto. apply join_sp_tight; auto. Qed.

Lemma join_sp_nonempty toks : toks <> [] -> Forall nonspace toks -> join [sp] toks <> [].
Proof.
  intros Hne H. destruct (join_sp_tight toks Hne H) as (c & t & _ & _ & E & _). rewrite E. discriminate.
Qed.

Lemma render_dec_nonspace n : nonspace (render_dec n).
Proof.
  split; [apply render_dec_nonempty|]. apply forallb_forall. intros x Hx.
  pose proof (render_dec_digits n) as D. rewrite forallb_forall in D. rewrite is_digit_not_space; auto.
Qed.

(* a digit string does not end with a word whose last character is not a digit *)
Lemma ends_with_digits w c s : is_digit c = false -> forallb is_digit s = true -> ends_with (w ++ [c]) s = false.
Proof.
  intros Hc Hs. destruct (rev s) as [|d u] eqn:E.
  - apply (f_equal (@rev _)) in E. rewrite rev_involutive in E. simpl in E. subst.
    apply ends_with_nil. destruct w; discriminate.
  - apply (f_equal (@rev _)) in E. rewrite rev_involutive in E. simpl in E. subst.
    apply ends_with_last_differs. intros ->. rewrite forallb_app in Hs. apply andb_true_iff in Hs.
    destruct Hs as [_ Hs]. simpl in Hs. rewrite Hc in Hs. discriminate.
Qed.
