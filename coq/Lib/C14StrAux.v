(* String facts used by the C14 and C20 proofs (about the definitions of Lib/PyStr.v):
   strip of blank-padded text, split_on / join inversion, decimal rendering round trip,
   py_int of a blank-padded decimal, substring tests against a keyword followed by a separator. *)
From Coq Require Import NArith ZArith List Bool Lia.
Require Import CCP.Lib.PyStr.
Import ListNotations.

(* ------------------------------------------------------------------ small list facts *)
Lemma forallb_rev {A} (p : A -> bool) l : forallb p (rev l) = forallb p l.
Proof.
  destruct (forallb p l) eqn:E.
  - apply forallb_forall. intros x Hx. apply in_rev in Hx. rewrite forallb_forall in E. auto.
  - destruct (forallb p (rev l)) eqn:E2; auto. rewrite forallb_forall in E2.
    assert (forallb p l = true) as F. { apply forallb_forall. intros x Hx. apply E2. apply in_rev. rewrite rev_involutive. exact Hx. }
    congruence.
Qed.

(* ------------------------------------------------------------------ strip *)
Lemma lstrip_by_app_all p ws s : forallb p ws = true -> lstrip_by p (ws ++ s) = lstrip_by p s.
Proof.
  induction ws as [|w ws IH]; simpl; intros H; auto.
  apply andb_true_iff in H. destruct H as [H1 H2]. rewrite H1. auto.
Qed.

Lemma lstrip_by_all p ws : forallb p ws = true -> lstrip_by p ws = [].
Proof. intros H. rewrite <- (app_nil_r ws). rewrite lstrip_by_app_all; auto. Qed.

(* a text whose first and last characters do not satisfy p *)
Definition tight (p : char -> bool) (core : str) : Prop :=
  exists c t d t', core = c :: t /\ p c = false /\ rev core = d :: t' /\ p d = false.

Lemma tight_all p core : core <> [] -> forallb (fun c => negb (p c)) core = true -> tight p core.
Proof.
  intros Hne Hall. destruct core as [|c t]; [congruence|].
  destruct (rev (c :: t)) as [|d t'] eqn:R.
  - apply (f_equal (@length _)) in R. rewrite rev_length in R. simpl in R. discriminate.
  - exists c, t, d, t'. repeat split; auto.
    + simpl in Hall. apply andb_true_iff in Hall. destruct Hall as [H _]. destruct (p c); simpl in H; congruence.
    + assert (In d (c :: t)) as Hin. { apply in_rev. rewrite R. left. reflexivity. }
      rewrite forallb_forall in Hall. specialize (Hall d Hin). destruct (p d); simpl in Hall; congruence.
Qed.

Lemma strip_by_padded p ws1 core ws2 :
  forallb p ws1 = true -> forallb p ws2 = true -> tight p core -> strip_by p (ws1 ++ core ++ ws2) = core.
Proof.
  intros H1 H2 (c & t & d & t' & Ec & Pc & Er & Pd).
  unfold strip_by, rstrip_by. rewrite lstrip_by_app_all by assumption.
  assert (lstrip_by p (core ++ ws2) = core ++ ws2) as L1. { rewrite Ec. simpl. rewrite Pc. reflexivity. }
  rewrite L1. rewrite rev_app_distr.
  assert (forallb p (rev ws2) = true) as H2' by (rewrite forallb_rev; exact H2).
  rewrite lstrip_by_app_all by exact H2'.
  assert (lstrip_by p (rev core) = rev core) as L2. { rewrite Er. simpl. rewrite Pd. reflexivity. }
  rewrite L2. apply rev_involutive.
Qed.

Lemma strip_by_tight p core : tight p core -> strip_by p core = core.
Proof. intros T. pose proof (strip_by_padded p [] core [] eq_refl eq_refl T) as H. simpl in H. rewrite app_nil_r in H. exact H. Qed.

Lemma strip_by_all p ws : forallb p ws = true -> strip_by p ws = [].
Proof. intros H. unfold strip_by, rstrip_by. rewrite (lstrip_by_all p ws H). reflexivity. Qed.

(* ------------------------------------------------------------------ split_on / join *)
Lemma split_on_aux_app c cur f rest :
  ~ In c f -> split_on_aux c cur (f ++ rest) = split_on_aux c (rev f ++ cur) rest.
Proof.
  revert cur. induction f as [|x f IH]; intros cur Hn; simpl; auto.
  destruct (N.eqb_spec x c) as [E|E].
  - exfalso. apply Hn. left. exact E.
  - rewrite IH by (intros H; apply Hn; right; exact H). rewrite <- app_assoc. reflexivity.
Qed.

Lemma split_on_join c fields :
  fields <> [] -> Forall (fun f => ~ In c f) fields -> split_on c (join [c] fields) = fields.
Proof.
  unfold split_on. intros Hne Hall. induction Hall as [|f r Hf Hr IH]; [congruence|].
  destruct r as [|g r'].
  - simpl. rewrite <- (app_nil_r f) at 1. rewrite split_on_aux_app by assumption. simpl.
    rewrite app_nil_r, rev_involutive. reflexivity.
  - change (join [c] (f :: g :: r')) with (f ++ [c] ++ join [c] (g :: r')).
    rewrite split_on_aux_app by assumption. simpl. rewrite N.eqb_refl. rewrite app_nil_r, rev_involutive.
    f_equal. apply IH. discriminate.
Qed.

(* `c in s` *)
Lemma existsb_eqb_In (c : char) s : existsb (N.eqb c) s = true <-> In c s.
Proof.
  rewrite existsb_exists. split.
  - intros (x & Hx & E). apply N.eqb_eq in E. subst. exact Hx.
  - intros H. exists c. split; auto. apply N.eqb_refl.
Qed.
Lemma existsb_eqb_notIn (c : char) s : existsb (N.eqb c) s = false <-> ~ In c s.
Proof.
  split.
  - intros H Hin. apply existsb_eqb_In in Hin. congruence.
  - intros H. destruct (existsb (N.eqb c) s) eqn:E; auto. apply existsb_eqb_In in E. contradiction.
Qed.

(* ------------------------------------------------------------------ decimal rendering *)
Lemma digit_of_lt10 n : (n < 10)%N -> is_digit (48 + n)%N = true /\ digit_val (48 + n)%N = n.
Proof.
  intros H. unfold is_digit, digit_val. split.
  - apply andb_true_iff. split; apply N.leb_le; lia.
  - lia.
Qed.

Lemma render_dec_fuel_spec fuel n acc :
  fuel <> O -> (n < 2 ^ N.of_nat fuel)%N ->
  exists s, render_dec_fuel fuel n acc = s ++ acc /\ s <> [] /\ forallb is_digit s = true /\
            forall k t, dec_aux k (s ++ t) = dec_aux (k * 10 ^ N.of_nat (length s) + n)%N t.
Proof.
  revert n acc. induction fuel as [|f IH]; intros n acc Hf Hn; [congruence|].
  cbn [render_dec_fuel].
  assert (n mod 10 < 10)%N as Hm by (apply N.mod_lt; lia).
  destruct (digit_of_lt10 (n mod 10)%N Hm) as [Hd Hv].
  destruct (N.ltb_spec n 10) as [L|L].
  - exists [(48 + n mod 10)%N]. repeat split.
    + discriminate.
    + cbn [forallb]. rewrite Hd. reflexivity.
    + intros k t. cbn [dec_aux app length]. rewrite Hd, Hv. rewrite N.mod_small by assumption. f_equal; try (simpl N.of_nat; lia).
  - assert (f <> O) as Hf'.
    { intros ->. simpl in Hn. lia. }
    assert (n / 10 < 2 ^ N.of_nat f)%N as Hn'.
    { rewrite Nat2N.inj_succ, N.pow_succ_r' in Hn.
      assert (n / 10 <= n / 2)%N. { apply N.div_le_compat_l. lia. }
      assert (n / 2 < 2 ^ N.of_nat f)%N. { apply N.div_lt_upper_bound; lia. }
      lia. }
    destruct (IH (n / 10)%N ((48 + n mod 10)%N :: acc) Hf' Hn') as (s & Es & Sne & Sd & Sv).
    exists (s ++ [(48 + n mod 10)%N]). repeat split.
    + rewrite Es. rewrite <- app_assoc. reflexivity.
    + destruct s; discriminate.
    + apply forallb_forall. intros x Hx. apply in_app_or in Hx. destruct Hx as [Hx|[<-|[]]].
      * rewrite forallb_forall in Sd. auto.
      * exact Hd.
    + intros k t. rewrite <- app_assoc. rewrite Sv. cbn [dec_aux app]. rewrite Hd, Hv. f_equal.
      rewrite app_length. cbn [length]. rewrite Nat.add_1_r, Nat2N.inj_succ, N.pow_succ_r'.
      pose proof (N.div_mod n 10). lia.
Qed.

Lemma render_dec_spec n :
  exists s, render_dec n = s /\ s <> [] /\ forallb is_digit s = true /\ dec_aux 0 s = Some n.
Proof.
  unfold render_dec.
  destruct (render_dec_fuel_spec (S (N.to_nat (N.log2 n))) n []) as (s & Es & Sne & Sd & Sv).
  - discriminate.
  - rewrite Nat2N.inj_succ, N2Nat.id. destruct n as [|p]; [simpl; lia|].
    apply N.log2_spec. lia.
  - exists s. rewrite app_nil_r in Es. repeat split; auto.
    specialize (Sv 0%N []). rewrite app_nil_r in Sv. rewrite Sv. simpl. reflexivity.
Qed.

Lemma render_dec_digits n : forallb is_digit (render_dec n) = true.
Proof. destruct (render_dec_spec n) as (s & -> & _ & H & _). exact H. Qed.
Lemma render_dec_nonempty n : render_dec n <> [].
Proof. destruct (render_dec_spec n) as (s & -> & H & _). exact H. Qed.
Lemma parse_dec_render n : parse_dec (render_dec n) = Some n.
Proof.
  destruct (render_dec_spec n) as (s & -> & Hne & _ & H). unfold parse_dec. destruct s; [congruence|exact H].
Qed.

Lemma is_digit_not_space c : is_digit c = true -> is_space c = false.
Proof.
  unfold is_digit. intros H. apply andb_true_iff in H. destruct H as [H1 H2].
  apply N.leb_le in H1. apply N.leb_le in H2.
  assert (c = 48 \/ c = 49 \/ c = 50 \/ c = 51 \/ c = 52 \/ c = 53 \/ c = 54 \/ c = 55 \/ c = 56 \/ c = 57)%N as D by lia.
  repeat (destruct D as [->|D]; [reflexivity|]). subst. reflexivity.
Qed.

Lemma digits_tight s : s <> [] -> forallb is_digit s = true -> tight is_space s.
Proof.
  intros Hne Hd. apply tight_all; auto. apply forallb_forall. intros x Hx.
  rewrite forallb_forall in Hd. rewrite is_digit_not_space; auto.
Qed.

Lemma filter_digits_id s : forallb is_digit s = true -> filter is_digit s = s.
Proof.
  induction s as [|c s IH]; simpl; intros H; auto.
  apply andb_true_iff in H. destruct H as [H1 H2]. rewrite H1. f_equal. auto.
Qed.

(* int() of a digit string (no sign) *)
Lemma py_int_digits s : s <> [] -> forallb is_digit s = true ->
  py_int s = option_map Z.of_N (parse_dec s).
Proof.
  intros Hne Hd. unfold py_int. unfold strip. rewrite strip_by_tight by (apply digits_tight; assumption).
  destruct s as [|c r]; [congruence|].
  simpl in Hd. apply andb_true_iff in Hd. destruct Hd as [Hc _].
  unfold is_digit in Hc. apply andb_true_iff in Hc. destruct Hc as [H1 H2].
  apply N.leb_le in H1. apply N.leb_le in H2.
  assert (c = 48 \/ c = 49 \/ c = 50 \/ c = 51 \/ c = 52 \/ c = 53 \/ c = 54 \/ c = 55 \/ c = 56 \/ c = 57)%N as D by lia.
  repeat (destruct D as [->|D]; [reflexivity|]). subst. reflexivity.
Qed.

Lemma strip_padded_digits ws1 s ws2 :
  forallb is_space ws1 = true -> forallb is_space ws2 = true -> s <> [] -> forallb is_digit s = true ->
  strip (ws1 ++ s ++ ws2) = s.
Proof. intros. unfold strip. apply strip_by_padded; auto. apply digits_tight; auto. Qed.

Lemma strip_idem_digits s : s <> [] -> forallb is_digit s = true -> strip s = s.
Proof. intros. unfold strip. apply strip_by_tight. apply digits_tight; auto. Qed.

(* int(" 12 ") *)
Lemma py_int_padded_dec ws1 n ws2 :
  forallb is_space ws1 = true -> forallb is_space ws2 = true ->
  py_int (ws1 ++ render_dec n ++ ws2) = Some (Z.of_N n).
Proof.
  intros H1 H2.
  assert (py_int (ws1 ++ render_dec n ++ ws2) = py_int (render_dec n)) as E.
  { unfold py_int. rewrite strip_padded_digits; auto using render_dec_nonempty, render_dec_digits.
    rewrite strip_idem_digits; auto using render_dec_nonempty, render_dec_digits. }
  rewrite E. rewrite py_int_digits by auto using render_dec_nonempty, render_dec_digits.
  rewrite parse_dec_render. reflexivity.
Qed.

Lemma digits_no_char (c : char) s : is_digit c = false -> forallb is_digit s = true -> ~ In c s.
Proof. intros Hc Hd Hin. rewrite forallb_forall in Hd. specialize (Hd c Hin). congruence. Qed.

Lemma space_no_char (c : char) ws : is_space c = false -> forallb is_space ws = true -> ~ In c ws.
Proof. intros Hc Hd Hin. rewrite forallb_forall in Hd. specialize (Hd c Hin). congruence. Qed.

(* ------------------------------------------------------------------ substring tests *)
Lemma starts_with_app p s : starts_with p (p ++ s) = true.
Proof. induction p as [|c p IH]; simpl; auto. rewrite N.eqb_refl. exact IH. Qed.

Lemma contains_prefix p s : contains p (p ++ s) = true.
Proof. destruct (p ++ s) eqn:E; simpl; rewrite <- E, starts_with_app; reflexivity. Qed.

Lemma contains_cons p c s : contains p (c :: s) = starts_with p (c :: s) || contains p s.
Proof. reflexivity. Qed.

Lemma contains_nil_r p : contains p [] = starts_with p [].
Proof. simpl. apply orb_false_r. Qed.
