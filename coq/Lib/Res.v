(* Results of operations that may raise: a small enum of exception classes. *)
Inductive exn :=
| E_IndexError | E_ValueError | E_TypeError | E_AddressValueError | E_RequirementFailure
| E_NotImplementedError | E_InvalidParameters | E_KeyError | E_AttributeError
| E_ParseException | E_DuplicateMember | E_MismatchedType | E_AssertionError | E_Other.

Inductive result (A : Type) := Ok (a : A) | Raise (e : exn).
Arguments Ok {A} a.
Arguments Raise {A} e.

Definition exn_eqb (a b : exn) : bool :=
  match a, b with
  | E_IndexError, E_IndexError | E_ValueError, E_ValueError | E_TypeError, E_TypeError
  | E_AddressValueError, E_AddressValueError | E_RequirementFailure, E_RequirementFailure
  | E_NotImplementedError, E_NotImplementedError | E_InvalidParameters, E_InvalidParameters
  | E_KeyError, E_KeyError | E_AttributeError, E_AttributeError | E_ParseException, E_ParseException
  | E_DuplicateMember, E_DuplicateMember | E_MismatchedType, E_MismatchedType
  | E_AssertionError, E_AssertionError | E_Other, E_Other => true
  | _, _ => false
  end.

Definition res_eqb {A} (eqb : A -> A -> bool) (x y : result A) : bool :=
  match x, y with
  | Ok a, Ok b => eqb a b
  | Raise e, Raise f => exn_eqb e f
  | _, _ => false
  end.

(* "raised something" comparison: the exception class is not part of most properties *)
Definition res_eqb_anyexn {A} (eqb : A -> A -> bool) (x y : result A) : bool :=
  match x, y with
  | Ok a, Ok b => eqb a b
  | Raise _, Raise _ => true
  | _, _ => false
  end.

Definition bind {A B} (x : result A) (f : A -> result B) : result B :=
  match x with Ok a => f a | Raise e => Raise e end.
Definition is_ok {A} (x : result A) : bool := match x with Ok _ => true | Raise _ => false end.
