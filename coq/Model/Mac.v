(* C16 — executable model of MACObj / EUI64Obj (ciscoconfparse2/ccp_util.py) and of the part of the
   third-party `macaddress` package they delegate to (HWAddress.__init__ on a str = _parse, and
   HWAddress.__str__).  Definitions only.  The object state is its `_address` integer (an N).

   macaddress tables (formats, sizes, _HEX_DIGITS) come from gen/TabC16.v, regenerated from the
   installed package on every run. *)
From Coq Require Import NArith ZArith List Bool.
Require Import CCP.Lib.PyStr CCP.Lib.Res CCP.gen.TabC16.
Import ListNotations.
Open Scope N_scope.

Definition X : char := 120.          (* 'x' : the digit place-holder of a format string *)

(* ---------------------------------------------------------------- macaddress._parse, one class *)
(* `character in _HEX_DIGITS` *)
Definition is_hexc (c : char) : bool := existsb (N.eqb c) tab_hex_digits.
(* int(character, 16) for a character of _HEX_DIGITS *)
Definition hexv (c : char) : N := match hex_val c with Some n => n | None => 0 end.

(* the candidate narrowing of _parse keeps exactly the formats f with len(f) = len(string) and, at every
   index, f[index] = 'x' when the character is a hex digit, f[index] = character otherwise, where a
   literal 'x' in the input is replaced by '' and so equals no format character *)
Fixpoint match_tpl (t s : str) : bool :=
  match t, s with
  | [], [] => true
  | tc :: t', c :: s' =>
      (if is_hexc c then N.eqb tc X else if N.eqb c X then false else N.eqb tc c) && match_tpl t' s'
  | _, _ => false
  end.

(* address <<= 4; address += int(character, 16)   for the hex digits of the string, left to right *)
Fixpoint hexacc (acc : N) (s : str) : N :=
  match s with
  | [] => acc
  | c :: r => hexacc (if is_hexc c then N.shiftl acc 4 + hexv c else acc) r
  end.

(* (4 - size) & 3  on Python integers *)
Definition nib_offset (size : N) : N := Z.to_N (Z.land (4 - Z.of_N size) 3).

Definition hw_parse (fmts : list str) (size : N) (s : str) : result N :=
  match s with
  | [] => Raise E_ValueError
  | _ => if existsb (fun t => match_tpl t s) fmts
         then Ok (N.shiftr (hexacc 0 s) (nib_offset size))
         else Raise E_ValueError
  end.

(* ---------------------------------------------------------------- HWAddress.__str__ *)
(* walk formats[0] from the right; every 'x' consumes the low nibble: _HEX_DIGITS[nibble] *)
Definition hexU (d : N) : char := nth (N.to_nat d) tab_hex_digits 0.
Fixpoint render_rev (tr : str) (v : N) : str :=
  match tr with
  | [] => []
  | c :: r => if N.eqb c X then hexU (N.land v 15) :: render_rev r (N.shiftr v 4) else c :: render_rev r v
  end.
Definition hw_str (fmts : list str) (size : N) (v : N) : str :=
  rev (render_rev (rev (hd [] fmts)) (N.shiftl v (nib_offset size))).

(* ---------------------------------------------------------------- MACObj *)
Definition mac_new (s : str) : result N := hw_parse tab_eui48_formats tab_eui48_size s.
(* mb = str(self.mac).lower().split("-") *)
Definition mac_mb (v : N) : list str := split_on 45 (lower (hw_str tab_eui48_formats tab_eui48_size v)).
Definition need {A} (n : nat) (mb : list str) (k : result A) : result A :=
  if Nat.ltb (length mb) n then Raise E_IndexError else k.
Definition DOT : str := [46].
Definition DASH : str := [45].
Definition COLON : str := [58].
Definition mb_ (mb : list str) (i : nat) : str := nth_str mb i.

Definition mac_cisco (v : N) : result str :=
  let mb := mac_mb v in
  need 6 mb (Ok (mb_ mb 0 ++ mb_ mb 1 ++ DOT ++ mb_ mb 2 ++ mb_ mb 3 ++ DOT ++ mb_ mb 4 ++ mb_ mb 5)).
Definition sep6 (sep : str) (mb : list str) : str :=
  mb_ mb 0 ++ sep ++ mb_ mb 1 ++ sep ++ mb_ mb 2 ++ sep ++ mb_ mb 3 ++ sep ++ mb_ mb 4 ++ sep ++ mb_ mb 5.
Definition mac_dash (v : N) : result str := let mb := mac_mb v in need 6 mb (Ok (sep6 DASH mb)).
Definition mac_unix (v : N) : result str := let mb := mac_mb v in need 6 mb (Ok (sep6 DASH mb)).
Definition mac_colon (v : N) : result str := let mb := mac_mb v in need 6 mb (Ok (sep6 COLON mb)).
(* MACObj.__eq__(MACObj): str(self.dash).lower() == str(other.dash).lower() *)
Definition mac_eq (a b : N) : result bool :=
  bind (mac_dash a) (fun da => bind (mac_dash b) (fun db => Ok (str_eqb (lower da) (lower db)))).

(* ---------------------------------------------------------------- EUI64Obj *)
Definition eui_new (s : str) : result N := hw_parse tab_eui64_formats tab_eui64_size s.
Definition eui_mb (v : N) : list str := split_on 45 (lower (hw_str tab_eui64_formats tab_eui64_size v)).
Definition sep8 (sep : str) (mb : list str) : str :=
  mb_ mb 0 ++ sep ++ mb_ mb 1 ++ sep ++ mb_ mb 2 ++ sep ++ mb_ mb 3 ++ sep ++ mb_ mb 4 ++ sep ++ mb_ mb 5
  ++ sep ++ mb_ mb 6 ++ sep ++ mb_ mb 7.
Definition eui_dash (v : N) : result str := let mb := eui_mb v in need 8 mb (Ok (sep8 DASH mb)).
Definition eui_colon (v : N) : result str := let mb := eui_mb v in need 8 mb (Ok (sep8 COLON mb)).
Definition eui_cisco (v : N) : result str :=
  let mb := eui_mb v in
  need 8 mb (Ok (mb_ mb 0 ++ mb_ mb 1 ++ DOT ++ mb_ mb 2 ++ mb_ mb 3 ++ DOT ++ mb_ mb 4 ++ mb_ mb 5 ++ DOT ++ mb_ mb 6 ++ mb_ mb 7)).
Definition eui_eq (a b : N) : result bool :=
  bind (eui_dash a) (fun da => bind (eui_dash b) (fun db => Ok (str_eqb (lower da) (lower db)))).

(* ---------------------------------------------------------------- MACEUISearch.__init__ (cli_script.py)
   macaddress.parse(word, MAC, EUI64): the candidate formats of both classes are pooled by length; a
   format string that occurs in both belongs to the first class.  Result: which object is built. *)
Inductive found := F_none | F_mac (v : N) | F_eui64 (v : N).
Definition classify (w : str) : found :=
  match mac_new w with
  | Ok v => F_mac v
  | Raise _ => match eui_new w with Ok v => F_eui64 v | Raise _ => F_none end
  end.

(* ---------------------------------------------------------------- specification vocabulary
   (used by the theorems of Props/C16.v; executable, so that the Examples can compute) *)
(* k hex digits of v, most significant first *)
Fixpoint nibs_lsb (k : nat) (v : N) : list N :=
  match k with O => [] | S k' => N.land v 15 :: nibs_lsb k' (N.shiftr v 4) end.
Definition nibbles (k : nat) (v : N) : list N := rev (nibs_lsb k v).
(* put the characters cs, left to right, at the 'x' places of the format t *)
Fixpoint fill (t : str) (cs : list char) : str :=
  match t with
  | [] => []
  | c :: r => if N.eqb c X
              then match cs with d :: cs' => d :: fill r cs' | [] => [] end
              else c :: fill r cs
  end.
Fixpoint count_x (t : str) : nat :=
  match t with [] => O | c :: r => if N.eqb c X then S (count_x r) else count_x r end.
(* a hex digit in upper (true) or lower case *)
Definition hexchar (up : bool) (d : N) : char := if up then hexU d else hex_digit d.
Fixpoint map2 {A B C} (f : A -> B -> C) (l : list A) (m : list B) : list C :=
  match l, m with a :: l', b :: m' => f a b :: map2 f l' m' | _, _ => [] end.
(* the spelling of value v in format t with the per-digit letter case `mask` *)
Definition spell (t : str) (mask : list bool) (v : N) : str :=
  fill t (map2 hexchar mask (nibbles (count_x t) v)).
(* value v in format t, all digits lower case *)
Definition spell_lower (t : str) (v : N) : str := fill t (map hex_digit (nibbles (count_x t) v)).

(* the four shapes the property names, as format strings *)
Definition fmt_dash48 : str := [120;120;45;120;120;45;120;120;45;120;120;45;120;120;45;120;120].
Definition fmt_colon48 : str := [120;120;58;120;120;58;120;120;58;120;120;58;120;120;58;120;120].
Definition fmt_cisco48 : str := [120;120;120;120;46;120;120;120;120;46;120;120;120;120].
Definition fmt_bare48 : str := [120;120;120;120;120;120;120;120;120;120;120;120].
Definition fmt_dash64 : str := [120;120;45;120;120;45;120;120;45;120;120;45;120;120;45;120;120;45;120;120;45;120;120].
Definition fmt_colon64 : str := [120;120;58;120;120;58;120;120;58;120;120;58;120;120;58;120;120;58;120;120;58;120;120].
Definition fmt_cisco64 : str := [120;120;120;120;46;120;120;120;120;46;120;120;120;120;46;120;120;120;120].
Definition fmt_bare64 : str := [120;120;120;120;120;120;120;120;120;120;120;120;120;120;120;120].
