(* C05 — executable model of typed value extraction.
   Definitions only.  Inputs: the forest (children lists, parent indices), the regex oracle
   `mg` (per line: no match / matched but the requested group did not participate / group index
   out of range / the group's text, as an index into the case's string table) and the conversion
   oracle (result_type(text) as a value id or an exception).

   Modelled code (ciscoconfparse2/ccp_abc.py, ciscoconfparse2/ciscoconfparse2.py):
     BaseCfgLine.re_match, re_match_typed, re_match_iter_typed (groupdict=None),
     re_list_iter_typed (groupdict=None), CiscoConfParse.re_match_iter_typed.            *)
From Coq Require Import List Arith Bool.
Require Import CCP.Lib.Res CCP.Model.Search.
Import ListNotations.

Inductive mres :=
| NoM                 (* re.search(...) is None *)
| MNone               (* matched; mm.group(group) is None (optional group that did not participate) *)
| MBad                (* matched; mm.group(group) raises IndexError (no such group) *)
| MGrp (s : nat).     (* matched; mm.group(group) is string number s *)

Section Extract.
Variable kids : list (list nat).
Variable par : nat -> nat.
Variable mg : nat -> mres.
Variable conv : nat -> result nat.     (* result_type(string s) *)
Variable conv_none : result nat.       (* result_type(None) *)
Variable dconv : result nat.           (* result_type(default) *)
Variable draw : nat.                   (* default, untouched *)

Definition is_match (l : nat) : bool := match mg l with NoM => false | _ => true end.

(* result_type(mm.group(group)) on a line that matched *)
Definition convert (l : nat) : result nat :=
  match mg l with
  | MGrp s => conv s
  | MNone => conv_none
  | MBad => Raise E_IndexError
  | NoM => Raise E_Other
  end.

Definition default_result (untyped : bool) : result nat := if untyped then Ok draw else dconv.

(* BaseCfgLine.re_match(regex, group, default): untyped group text, else default
   (conv is the identity on strings and conv_none is None for this query) *)
Definition re_match (l : nat) : result nat :=
  if is_match l then convert l else Ok draw.

(* BaseCfgLine.re_match_typed *)
Definition re_match_typed (l : nat) (untyped : bool) : result nat :=
  match mg l with
  | MGrp s => conv s
  | MBad => Raise E_IndexError
  | MNone => default_result untyped
  | NoM => default_result untyped
  end.

(* the `for cobj in ...: mm = re.search(...); if mm: return result_type(mm.group(group))` loops *)
Fixpoint scan (ls : list nat) (untyped : bool) : result nat :=
  match ls with
  | [] => default_result untyped
  | l :: t => if is_match l then convert l else scan t untyped
  end.

Definition offspring (recurse : bool) (l : nat) : list nat :=
  if recurse then all_children kids l else children kids l.

(* BaseCfgLine.re_match_iter_typed (groupdict=None) *)
Definition re_match_iter_typed (l : nat) (recurse untyped : bool) : result nat :=
  if is_match l then convert l else scan (offspring recurse l) untyped.

(* BaseCfgLine.re_list_iter_typed (groupdict=None): conversions happen in order; the first failing one raises *)
Fixpoint collect (ls : list nat) : result (list nat) :=
  match ls with
  | [] => Ok []
  | l :: t =>
      if is_match l then
        bind (convert l) (fun v => bind (collect t) (fun vs => Ok (v :: vs)))
      else collect t
  end.

Definition re_list_iter_typed (l : nat) (recurse : bool) : result (list nat) :=
  collect (l :: offspring recurse l).

(* CiscoConfParse.re_match_iter_typed: all lines in config order, non-root lines skipped *)
Fixpoint scan_roots (ls : list nat) (untyped : bool) : result nat :=
  match ls with
  | [] => default_result untyped
  | l :: t =>
      if negb (par l =? l) then scan_roots t untyped
      else if is_match l then convert l else scan_roots t untyped
  end.

Definition ccp_re_match_iter_typed (untyped : bool) : result nat :=
  scan_roots (all_lines kids) untyped.

End Extract.
