(* Model of an editing session (C06 / C07): the text effect of every editing operation as the list
   operation of the property, commit = constructor applied to the current text, and the search_safe
   seat-belt.  Lines carry their banner oracle (Model/Parse.v).  No proofs here. *)
From Coq Require Import List Arith Bool NArith ZArith.
Require Import CCP.Lib.Res CCP.Lib.PyStr CCP.Model.Links CCP.Model.Parse CCP.Model.Family.
Import ListNotations.

(* ---- plain list operations (the specification side of C06) *)
Definition insert_at {A} (k : nat) (x : A) (l : list A) : list A := firstn k l ++ x :: skipn k l.
Fixpoint remove_idx {A} (idxs : list nat) (i : nat) (l : list A) : list A :=
  match l with
  | [] => []
  | x :: r => if existsb (Nat.eqb i) idxs then remove_idx idxs (S i) r else x :: remove_idx idxs (S i) r
  end.
Fixpoint set_nth {A} (i : nat) (x : A) (l : list A) : list A :=
  match l, i with
  | [], _ => []
  | _ :: r, O => x :: r
  | y :: r, S j => y :: set_nth j x r
  end.

(* Python list.insert index normalisation *)
Definition py_insert_index (k : Z) (n : nat) : nat :=
  let k' := if (k <? 0)%Z then (k + Z.of_nat n)%Z else k in
  if (k' <? 0)%Z then 0 else Nat.min (Z.to_nat k') n.
(* Python list.pop index: None = IndexError *)
Definition py_pop_index (k : Z) (n : nat) : option nat :=
  let k' := if (k <? 0)%Z then (k + Z.of_nat n)%Z else k in
  if ((k' <? 0) || (Z.of_nat n <=? k'))%Z then None else Some (Z.to_nat k').

(* insert x before (after) every line flagged by the regex oracle m, highest index first *)
Fixpoint insert_flagged {A} (after : bool) (x : A) (l : list A) (m : list bool) : list A :=
  match l, m with
  | y :: r, f :: g => if f then (if after then y :: x :: insert_flagged after x r g else x :: y :: insert_flagged after x r g)
                      else y :: insert_flagged after x r g
  | l', _ => l'
  end.

(* BaseCfgLine.text setter: safe_escape_curly_braces *)
Definition lbrace : N := 123%N.  Definition rbrace : N := 125%N.
Definition escape_braces (s : str) : str :=
  if negb (has_char lbrace s) && negb (has_char rbrace s) then s
  else if contains [lbrace; lbrace] s || contains [rbrace; rbrace] s then s
  else flat_map (fun c => if N.eqb c lbrace then [lbrace; lbrace] else if N.eqb c rbrace then [rbrace; rbrace] else [c]) s.

Inductive op :=
| OInsert (k : Z) (x : pline)                     (* parse.objs.insert(k, text) *)
| OAppend (x : pline)                             (* parse.objs.append(text) *)
| OPop (k : Z)                                    (* parse.objs.pop(k) *)
| OListIns (after : bool) (m : list bool) (x : pline)   (* parse.objs.insert_before/after(regex, text); m = re.search answers *)
| OObjIns (after : bool) (i : nat) (x : pline)    (* parse.objs[i].insert_before/after(text) *)
| ODelete (i : nat)                               (* parse.objs[i].delete() *)
| OSetText (i : nat) (x : pline)                  (* replace_text / re_sub: x = new text as computed by str.replace / re.sub *)
| OAtf (i : nat) (k : nat) (x : pline)            (* append_to_family: observed insertion index k and inserted text x *)
| OCommit.

Record sess := SE { s_lines : list pline; s_dirty : bool }.

Definition tree_parents (o : popts) (ls : list pline) : list (option nat) := pass_parents o ls.

Definition refreshes_checkpoint (p : op) : bool :=
  match p with OInsert _ _ | OObjIns _ _ _ | OAtf _ _ _ => true | _ => false end.

(* append_to_family's contract checked on the observed index: inside the family, no parent changed *)
Definition shift_idx (k : nat) (j : nat) : nat := if j <? k then j else S j.
Definition atf_ok_at (o : popts) (ls : list pline) (i k : nat) (x : pline) : bool :=
  let ps := tree_parents o ls in
  let ls' := insert_at k x ls in
  let ps' := tree_parents o ls' in
  let li := linfo_of (o_delims o) (ptext (nth i ls (PL [] None))) in
  let lx := linfo_of (o_delims o) (ptext x) in
  (* "without changing the parent of any existing line" holds for EVERY payload (also a sibling-level one);
     "inside that family" is about configuration-line targets and payloads indented deeper than the target *)
  let kept := forallb (fun j => opt_eqb Nat.eqb (parent_of ps' (shift_idx k j)) (option_map (shift_idx k) (parent_of ps j)))
                      (seq 0 (length ls)) in
  (* a blank or comment line heads no family: for such a target only "exactly one line is added" (done by the caller) *)
  if negb (cfg li) then true else
  if negb (ind li <? ind lx) then kept else
  (i <? k) && (k <=? S (family_endpoint ps i)) && kept.

(* The observation is the TEXT after the call.  When the new line equals its neighbours several insertion indices give the
   same text; the contract holds if it holds for one of the indices that explain the observed text. *)
Definition pline_text_eqb (a b : pline) : bool := str_eqb (ptext a) (ptext b).
Definition atf_ok (o : popts) (ls : list pline) (i k : nat) (x : pline) : bool :=
  existsb (fun k' => list_eqb pline_text_eqb (insert_at k' x ls) (insert_at k x ls) && atf_ok_at o ls i k' x)
          (seq 0 (S (length ls))).

(* append_to_family's INDEX ARITHMETIC, child case, on a committed state with auto_indent_width 1 (syntax ios/asa):
   classify_family_indent(new) = ind new - ind self; when it is 1 the code inserts at linenum + 1 (no children) or at
   family_endpoint + 1 (children) -- both are S (family_endpoint ps i), since family_endpoint of a childless line is the
   line itself.  None: not the child case (sibling placement / NotImplementedError), not modelled. *)
Definition atf_child_index (ps : list (option nat)) (i self_ind new_ind : nat) : option nat :=
  if new_ind =? S self_ind then Some (S (family_endpoint ps i)) else None.

(* the index the code picks for a SIBLING-level payload (same indent as the target) when the target has children:
   linenum + len(children) -- it lies inside the target's own family (finding F43, see atf_sibling_index_refuted) *)
Definition atf_sibling_index_children (ps : list (option nat)) (i : nat) : nat := i + length (kids ps i).

(* text effect of one operation on a COMMITTED state (line numbers = indices, links = fresh parse) *)
Definition text_effect (o : popts) (ls : list pline) (p : op) : result (list pline) :=
  let n := length ls in
  match p with
  | OInsert k x => Ok (insert_at (py_insert_index k n) x ls)
  | OAppend x => Ok (ls ++ [x])
  | OPop k => match py_pop_index k n with Some j => Ok (remove_idx [j] 0 ls) | None => Raise E_IndexError end
  | OListIns after m x => Ok (insert_flagged after x ls m)
  | OObjIns after i x => if i <? n then Ok (insert_at (if after then S i else i) x ls) else Raise E_IndexError
  | ODelete i => if i <? n then Ok (remove_idx (i :: all_children (tree_parents o ls) i) 0 ls) else Raise E_IndexError
  | OSetText i x => if i <? n then Ok (set_nth i (PL (escape_braces (ptext x)) (pban x)) ls) else Raise E_IndexError
  | OAtf i k x => if atf_ok o ls i k x then Ok (insert_at k x ls) else Raise E_Other
  | OCommit => Ok ls
  end.

Definition step (o : popts) (auto_commit : bool) (st : sess) (p : op) : result sess :=
  match text_effect o (s_lines st) p with
  | Raise e => Raise e
  | Ok ls' =>
      match p with
      | OCommit => Ok (SE (ibl_filter o ls') false)
      | _ => if auto_commit then Ok (SE (ibl_filter o ls') false)
             else Ok (SE ls' (s_dirty st || refreshes_checkpoint p))
      end
  end.

(* run a history; the state after every step (None after a raising step, which leaves the state unchanged) *)
Fixpoint run_hist (o : popts) (ac : bool) (st : sess) (ps : list op) : list (option sess) :=
  match ps with
  | [] => []
  | p :: r => match step o ac st p with
              | Ok st' => Some st' :: run_hist o ac st' r
              | Raise _ => None :: run_hist o ac st r
              end
  end.

Definition start (o : popts) (ls : list pline) : sess := SE (construct_texts o ls) false.
(* every search API: refuses iff dirty *)
Definition search_allowed (st : sess) : bool := negb (s_dirty st).
