(* Textual layer of IPv4Obj (C11): which strings the constructor accepts and what they denote.
   Mirrors IPv4Obj.__init__ (the three alternatives of _RGX_IPV4ADDR_WITH_MASK on the stripped input)
   followed by ipaddress.IPv4Address / IPv4Network(strict=False) validation:
   octets are 1-3 ASCII digits without a leading zero, value <= 255; a mask is a prefix length 0..32
   in ASCII digits, or a dotted netmask, or a dotted host mask.  No proofs here. *)
From Coq Require Import List Arith Bool NArith ZArith.
Require Import CCP.Lib.PyStr.
Import ListNotations.

Definition c_dot : N := 46%N.
Definition c_slash : N := 47%N.
Definition c_zero : N := 48%N.

Definition digits_only (s : str) : bool := match s with [] => false | _ => forallb is_digit s end.

(* ipaddress._BaseV4._parse_octet *)
Definition octet (s : str) : option N :=
  if negb (digits_only s) then None
  else if 3 <? length s then None
  else if (1 <? length s) && match s with c :: _ => N.eqb c c_zero | [] => false end then None
  else match parse_dec s with
       | Some n => if (n <=? 255)%N then Some n else None
       | None => None
       end.

(* the regex \d+\.\d+\.\d+\.\d+ against the whole string *)
Definition dotted_syntax (s : str) : bool :=
  match split_on c_dot s with
  | [a; b; c; d] => digits_only a && digits_only b && digits_only c && digits_only d
  | _ => false
  end.

Definition quad (a b c d : N) : Z := Z.of_N (((a * 256 + b) * 256 + c) * 256 + d)%N.

(* IPv4Address(text) *)
Definition dotted (s : str) : option Z :=
  match split_on c_dot s with
  | [a; b; c; d] =>
      match octet a, octet b, octet c, octet d with
      | Some x, Some y, Some z, Some w => Some (quad x y z w)
      | _, _, _, _ => None
      end
  | _ => None
  end.

(* IPv4Network._make_netmask on a digit string *)
Definition plen_of_digits (s : str) : option Z :=
  if digits_only s then
    match parse_dec s with
    | Some n => if (n <=? 32)%N then Some (Z.of_N n) else None
    | None => None
    end
  else None.

(* ... on a dotted mask: a netmask (ones then zeros), else a host mask (zeros then ones) *)
Definition plens : list nat := seq 0 33.
Definition is_netmask_for (m : Z) (p : nat) : bool := Z.eqb m (2 ^ 32 - 2 ^ (32 - Z.of_nat p)).
Definition is_hostmask_for (m : Z) (p : nat) : bool := Z.eqb m (2 ^ (32 - Z.of_nat p) - 1).
Definition plen_of_mask (m : Z) : option Z :=
  match find (is_netmask_for m) plens with
  | Some p => Some (Z.of_nat p)
  | None => match find (is_hostmask_for m) plens with
            | Some p => Some (Z.of_nat p)
            | None => None
            end
  end.
Definition plen_of_dotted (s : str) : option Z :=
  match dotted s with Some m => plen_of_mask m | None => None end.

Definition is_dd (c : char) : bool := is_digit c || N.eqb c c_dot.
Fixpoint take_while (p : char -> bool) (s : str) : str :=
  match s with [] => [] | c :: r => if p c then c :: take_while p r else [] end.
Fixpoint drop_while (p : char -> bool) (s : str) : str :=
  match s with [] => [] | c :: r => if p c then drop_while p r else s end.

Definition v4_parse (s : str) : option (Z * Z) :=
  let s' := strip s in
  let d1 := take_while is_dd s' in
  let rest := drop_while is_dd s' in
  if negb (dotted_syntax d1) then None else
  match dotted d1 with
  | None => None
  | Some a =>
      match rest with
      | [] => Some (a, 32%Z)
      | c :: r =>
          if N.eqb c c_slash then
            (if dotted_syntax r then option_map (fun p => (a, p)) (plen_of_dotted r)
             else option_map (fun p => (a, p)) (plen_of_digits r))
          else if is_space c then
            (let r' := lstrip rest in
             if dotted_syntax r' then option_map (fun p => (a, p)) (plen_of_dotted r') else None)
          else None
      end
  end.

(* ---- rendering (the specification side): the accepted spellings of (a, p) *)
Definition octets_of (a : Z) : list N :=
  let n := Z.to_N a in [(n / 16777216) mod 256; (n / 65536) mod 256; (n / 256) mod 256; n mod 256]%N.
Definition render_quad (a : Z) : str := join [c_dot] (map render_dec (octets_of a)).
Definition netmask_of (p : Z) : Z := (2 ^ 32 - 2 ^ (32 - p))%Z.
Definition hostmask_of (p : Z) : Z := (2 ^ (32 - p) - 1)%Z.

Inductive form4 :=
| F_bare                          (* "a"            (prefix length 32) *)
| F_cidr                          (* "a/len" *)
| F_space_mask (pad : list char)  (* "a<whitespace+>netmask" *)
| F_slash_mask                    (* "a/netmask" *)
| F_space_hostmask (pad : list char).   (* "a<whitespace+>hostmask" *)

Definition render4 (f : form4) (a p : Z) : str :=
  match f with
  | F_bare => render_quad a
  | F_cidr => render_quad a ++ [c_slash] ++ render_dec (Z.to_N p)
  | F_space_mask pad => render_quad a ++ pad ++ render_quad (netmask_of p)
  | F_slash_mask => render_quad a ++ [c_slash] ++ render_quad (netmask_of p)
  | F_space_hostmask pad => render_quad a ++ pad ++ render_quad (hostmask_of p)
  end.
