(* Reference (hand-written) numeric model of IPv4Obj / IPv6Obj.
   An address object is (addr, plen); W = 32 or 128.  No proofs here. *)
From Coq Require Import ZArith Bool List.
Require Import CCP.Lib.Res CCP.Lib.Pow2.
Import ListNotations.
Open Scope Z_scope.

Record ipo := { addr : Z; plen : Z }.

Definition mk_host (W a : Z) : ipo := {| addr := a; plen := W |}.
Definition set_plen (o : ipo) (p : Z) : ipo := {| addr := addr o; plen := p |}.
Definition set_addr (o : ipo) (a : Z) : ipo := {| addr := a; plen := plen o |}.

Definition ipo_eqb (a b : ipo) : bool := (addr a =? addr b) && (plen a =? plen b).

Section Fam.
Variable W : Z.

Definition wf (o : ipo) : Prop := 0 <= addr o < 2 ^ W /\ 0 <= plen o <= W.
Definition wfb (o : ipo) : bool :=
  (0 <=? addr o) && (addr o <? 2 ^ W) && (0 <=? plen o) && (plen o <=? W).

Definition maxint : Z := 2 ^ W - 1.
Definition blk (o : ipo) : Z := 2 ^ (W - plen o).
Definition netw (o : ipo) : Z := net (addr o) (blk o).
Definition lastaddr (o : ipo) : Z := netw o + blk o - 1.
Definition netmask (o : ipo) : Z := 2 ^ W - blk o.
Definition hostmask (o : ipo) : Z := blk o - 1.

(* numhosts as the code defines it: 2^(W-p) - 2, with the /W-1 and /W special cases *)
Definition numhosts_ref (o : ipo) : Z :=
  if plen o <=? W - 2 then blk o - 2 else if plen o =? W - 1 then 2 else 1.

(* x in y  (Python: y.__contains__(x)) *)
Definition contains_ref (y x : ipo) : bool :=
  if plen y =? 0 then true
  else if plen y >? plen x then false
  else (netw y <=? netw x) && (lastaddr y >=? lastaddr x) && (plen y <=? plen x).

(* the specification of membership, as the property words it *)
Definition subnet_spec (y x : ipo) : Prop :=
  plen y <= plen x /\ addr x / blk y = addr y / blk y.

Definition eq_ref (a b : ipo) : bool := (addr a =? addr b) && (plen a =? plen b).

Definition lt_ref (a b : ipo) : bool :=
  if (netw a =? netw b) && (plen a =? plen b) then addr a <? addr b
  else if netw a =? netw b then plen a <? plen b else netw a <? netw b.

Definition gt_ref (a b : ipo) : bool :=
  if (netw a =? netw b) && (plen a =? plen b) then addr a >? addr b
  else if netw a =? netw b then plen a >? plen b else netw a >? netw b.

(* lexicographic order on the key (network number, prefix length, host address) *)
Definition lexlt (a b : ipo) : Prop :=
  netw a < netw b \/ (netw a = netw b /\ (plen a < plen b \/ (plen a = plen b /\ addr a < addr b))).

Definition add_ref (a : ipo) (n : Z) : result ipo :=
  let t := addr a + n in
  if t >? maxint then Raise E_RequirementFailure
  else if t <? 0 then Raise E_RequirementFailure
  else Ok {| addr := t; plen := plen a |}.

Definition sub_ref (a : ipo) (n : Z) : result ipo :=
  let t := addr a - n in
  if t >? maxint then Raise E_RequirementFailure
  else if t <? 0 then Raise E_RequirementFailure
  else Ok {| addr := t; plen := plen a |}.

(* prefix-length setter: keeps the host address; ipaddress rejects lengths outside 0..W *)
Definition set_plen_ref (o : ipo) (p : Z) : result ipo :=
  if (0 <=? p) && (p <=? W) then Ok (set_plen o p) else Raise E_ValueError.

(* network_offset setter: host address := network + k, for 0 <= k <= hostmask *)
Definition set_offset_ref (o : ipo) (k : Z) : result ipo :=
  if (0 <=? k) && (k <=? hostmask o) then Ok (set_addr o (netw o + k)) else Raise E_AddressValueError.

(* sorted() uses only __lt__ and is stable: stable insertion sort by lt_ref *)
Fixpoint insert_sorted (x : ipo) (l : list ipo) : list ipo :=
  match l with
  | [] => [x]
  | y :: r => if lt_ref y x then y :: insert_sorted x r else x :: l
  end.
Definition sort_ref (l : list ipo) : list ipo := fold_right insert_sorted [] l.

End Fam.
