(* Textual layer of IPv6Obj (C11).  Mirrors IPv6Obj.__init__ for a string: strip; whitespace runs split
   the input into at most two fields (address [mask]) which are joined with "/"; the length limit; the
   address / masklen split of _RGX_IPV6ADDR; then ipaddress.IPv6Address (its _ip_int_from_string: split at
   ':', optional dotted-quad tail, at most one '::', hextets of 1-4 hex digits) and a decimal prefix length
   0..128.  Every string the regex alternatives reject is also rejected by ipaddress (the alternatives
   enumerate exactly the '::' placements) except scope ids ('%'), so acceptance is: no '%' and ipaddress
   accepts.  No proofs here. *)
From Coq Require Import List Arith Bool NArith ZArith.
Require Import CCP.Lib.PyStr CCP.Model.IPText.
Import ListNotations.

Definition c_colon : N := 58%N.
Definition c_pct : N := 37%N.
Definition v6_maxlen : nat := 49.

(* ipaddress._parse_hextet: 1-4 hex digits *)
Fixpoint hex_aux (acc : N) (s : str) : option N :=
  match s with
  | [] => Some acc
  | c :: r => match hex_val c with Some d => hex_aux (acc * 16 + d)%N r | None => None end
  end.
Definition hextet (s : str) : option N :=
  match s with
  | [] => None
  | _ => if 4 <? length s then None else hex_aux 0%N s
  end.

Inductive field := FEmpty | FHex (n : N) | FBad.
Definition classify (s : str) : field :=
  match s with [] => FEmpty | _ => match hextet s with Some n => FHex n | None => FBad end end.

Definition has_dot (s : str) : bool := existsb (N.eqb c_dot) s.

(* fields of the address text; a dotted-quad last field becomes two groups; None = malformed IPv4 tail *)
Definition fields_of (parts : list str) : option (list field) :=
  match rev parts with
  | [] => None
  | lastp :: restr =>
      if has_dot lastp then
        match dotted lastp with
        | Some v => Some (map classify (rev restr) ++ [FHex (Z.to_N (v / 65536)); FHex (Z.to_N (v mod 65536))])
        | None => None
        end
      else Some (map classify parts)
  end.

Definition is_empty_f (f : field) : bool := match f with FEmpty => true | _ => false end.
Fixpoint groups_of (fs : list field) : option (list N) :=
  match fs with
  | [] => Some []
  | FHex n :: r => option_map (cons n) (groups_of r)
  | _ :: _ => None
  end.

(* positions 1 .. n-2 holding an empty field *)
Fixpoint inner_empties (i : nat) (fs : list field) : list nat :=
  match fs with
  | [] => []
  | [_] => []
  | f :: r => (if is_empty_f f then [i] else []) ++ inner_empties (S i) r
  end.

Definition value_of (gs : list N) : Z := fold_left (fun acc g => (acc * 65536 + Z.of_N g)%Z) gs 0%Z.

Definition v6_groups (fs : list field) : option (list N) :=
  match fs with
  | [] => None
  | f0 :: tl =>
      if 9 <? length fs then None else
      match inner_empties 1 tl with
      | _ :: _ :: _ => None                                       (* at most one '::' *)
      | [k] =>
          let hi := firstn k fs in
          let lo := skipn (S k) fs in
          (* a leading (trailing) ':' is only permitted as part of '::' *)
          let hi_g := if is_empty_f f0 then (if k =? 1 then Some [] else None) else groups_of hi in
          let lo_g := match rev lo with
                      | FEmpty :: r => (match r with [] => Some [] | _ => None end)
                      | _ => groups_of lo
                      end in
          match hi_g, lo_g with
          | Some gh, Some gl =>
              if 8 <=? length gh + length gl then None
              else Some (gh ++ repeat 0%N (8 - (length gh + length gl)) ++ gl)
          | _, _ => None
          end
      | [] => if length fs =? 8 then groups_of fs else None
      end
  end.

(* ipaddress.IPv6Address(text) as an integer *)
Definition v6_addr (s : str) : option Z :=
  let parts := split_on c_colon s in
  if length parts <? 3 then None else
  match fields_of parts with
  | Some fs => option_map value_of (v6_groups fs)
  | None => None
  end.

Definition plen6_of_digits (s : str) : option Z :=
  if digits_only s then
    match parse_dec s with
    | Some n => if (n <=? 128)%N then Some (Z.of_N n) else None
    | None => None
    end
  else None.

Fixpoint split_first (c : N) (s : str) : str * option str :=
  match s with
  | [] => ([], None)
  | x :: r => if N.eqb x c then ([], Some r)
              else let '(a, b) := split_first c r in (x :: a, b)
  end.

Definition v6_parse (s : str) : option (Z * Z) :=
  let text := match split_ws (strip s) with
              | [x] => Some x
              | [a; b] => Some (a ++ [c_slash] ++ b)
              | _ => None
              end in
  match text with
  | None => None
  | Some t =>
      if v6_maxlen <? length t then None else
      let '(a, m) := split_first c_slash t in
      if existsb (N.eqb c_pct) a then None else
      match v6_addr a with
      | None => None
      | Some v =>
          match m with
          | None => Some (v, 128%Z)
          | Some ds => option_map (fun p => (v, p)) (plen6_of_digits ds)
          end
      end
  end.
