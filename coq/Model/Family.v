(* Derived family views of BaseCfgLine (C03), as coded, over a parent map
   ps : list (option nat)  (None = root: obj.parent is obj) and the per-line indentation. No proofs here. *)
From Coq Require Import List Arith Bool.
Require Import CCP.Model.Links.
Import ListNotations.

Definition parent_of (ps : list (option nat)) (i : nat) : option nat :=
  match nth_error ps i with Some (Some p) => Some p | _ => None end.

(* obj.children: ascending lines whose parent is p *)
Definition kids (ps : list (option nat)) (p : nat) : list nat := indices_with p 0 ps.

Fixpoint insert_nat (x : nat) (l : list nat) : list nat :=
  match l with
  | [] => [x]
  | y :: r => if x <=? y then x :: l else y :: insert_nat x r
  end.
Definition sort_nat (l : list nat) : list nat := fold_right insert_nat [] l.

(* all_children: for child in children: append child, extend child.all_children; then sorted() *)
Fixpoint collect (fuel : nat) (ps : list (option nat)) (p : nat) : list nat :=
  match fuel with
  | O => []
  | S f => flat_map (fun c => c :: collect f ps c) (kids ps p)
  end.
Definition all_children (ps : list (option nat)) (p : nat) : list nat := sort_nat (collect (length ps) ps p).

(* all_parents: walk up while parent != self, collect in a set, sorted() *)
Fixpoint chain (fuel : nat) (ps : list (option nat)) (i : nat) : list nat :=
  match fuel with
  | O => []
  | S f => match parent_of ps i with Some p => p :: chain f ps p | None => [] end
  end.
Definition all_parents (ps : list (option nat)) (i : nat) : list nat :=
  sort_nat (nodup Nat.eq_dec (chain (length ps) ps i)).

Definition has_children (ps : list (option nat)) (i : nat) : bool := match kids ps i with [] => false | _ => true end.
Definition is_child (ps : list (option nat)) (i : nat) : bool := match parent_of ps i with Some _ => true | None => false end.

Definition lineage (ps : list (option nat)) (i : nat) : list nat :=
  sort_nat (all_parents ps i ++ [i] ++ (if has_children ps i then all_children ps i else [])).
Definition geneology (ps : list (option nat)) (i : nat) : list nat := all_parents ps i ++ [i].
Definition family_endpoint (ps : list (option nat)) (i : nat) : nat := last (all_children ps i) i.
Definition siblings (ps : list (option nat)) (inds : list nat) (i : nat) : list nat :=
  let p := match parent_of ps i with Some p => p | None => i end in
  filter (fun c => nth c inds 0 =? nth i inds 0) (kids ps p).

(* specification side: ancestor relation as iterated parent *)
Fixpoint iter_parent (k : nat) (ps : list (option nat)) (i : nat) : option nat :=
  match k with
  | O => Some i
  | S k' => match parent_of ps i with Some p => iter_parent k' ps p | None => None end
  end.
Definition ancestor (ps : list (option nat)) (a x : nat) : Prop := exists k, 0 < k /\ iter_parent k ps x = Some a.

Definition WFmap (ps : list (option nat)) : Prop := forall i p, nth_error ps i = Some (Some p) -> p < i.
Definition WFmapb (ps : list (option nat)) : bool :=
  forallb (fun ip => match snd ip with Some p => p <? fst ip | None => true end) (combine (seq 0 (length ps)) ps).
