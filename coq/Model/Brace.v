(* C08 — executable model of the brace parser:
     convert_junos_to_ios / BraceParse.__init__ / parse_braces_to_nested_list / unpack_nested_list_to_config_objs
   (ciscoconfparse2/ciscoconfparse2.py) including the part of pyparsing (third party, pinned by the
   correspondence) that
     nested_expr("{", "}", content = Combine(OneOrMore(Word(printables, exclude_chars="{}") | White(' '))))
       .parse_string("{" + txt + "}")
   amounts to, followed by the parent rule of the ordinary bootstrap (property C02) restated on
   (indent, is_config_line, is_comment) triples.  Definitions only.

   pyparsing behaviour modelled:
   * parse_string() first calls str.expandtabs() (tab stops every 8 columns, column reset by LF and CR);
   * every element skips the white characters " \t\r\n" before it matches;
   * ZeroOrMore(quoted_string | nested | content) is predictive here: after the skip, "}" closes the
     group, "{" opens a nested one, a quote character starts a quoted string if the whole quoted-string
     regex + closing quote matches (otherwise it is ordinary content), a printable non-brace character
     starts a content token = the maximal run of printable non-brace characters and spaces; anything
     else (a non-printable character, end of text) makes the whole parse fail (ParseException);
   * parse_string() stops after the outermost group: text after it is ignored;
   * a nested list only changes the depth, so the scanner returns (depth, token) pairs directly. *)
From Coq Require Import NArith List Bool Arith.
Require Import CCP.Lib.PyStr CCP.Lib.Res.
Import ListNotations.

Definition SP : char := 32%N.
Definition TAB : char := 9%N.
Definition NL : char := 10%N.
Definition CRc : char := 13%N.
Definition LBRACE : char := 123%N.
Definition RBRACE : char := 125%N.
Definition SEMI : char := 59%N.
Definition DQ : char := 34%N.
Definition SQ : char := 39%N.
Definition BSL : char := 92%N.
Definition HASH : char := 35%N.

(* pyparsing.printables = the ASCII characters 33..126 (checked against gen/TabC08.v in the proofs) *)
Definition is_printable (c : char) : bool := (N.leb 33 c && N.leb c 126)%bool.
Definition is_brace (c : char) : bool := (N.eqb c LBRACE || N.eqb c RBRACE)%bool.
(* ParserElement.DEFAULT_WHITE_CHARS *)
Definition is_pp_white (c : char) : bool := (N.eqb c SP || N.eqb c NL || N.eqb c TAB || N.eqb c CRc)%bool.
(* a character of Word(printables, exclude_chars="{}") | White(' ') *)
Definition is_content (c : char) : bool := ((is_printable c && negb (is_brace c)) || N.eqb c SP)%bool.

(* ---- str.expandtabs(8) *)
Fixpoint expandtabs_aux (col : nat) (s : str) : str :=
  match s with
  | [] => []
  | c :: r =>
      if N.eqb c TAB then
        let n := 8 - col mod 8 in repeat SP n ++ expandtabs_aux (col + n) r
      else if (N.eqb c NL || N.eqb c CRc)%bool then c :: expandtabs_aux 0 r
      else c :: expandtabs_aux (S col) r
  end.
Definition expandtabs (s : str) : str := expandtabs_aux 0 s.

(* ---- quoted_string = Regex(q(?:[^q\n\r\\]|(?:qq)|(?:\\(?:[^x]|x[0-9a-fA-F]+)))* ) + q
   `quoted_len q s`: s is the text after the opening quote q; Some n = the quoted string matches and
   its remainder (body + closing quote) is the first n characters of s.  The regex never has to
   backtrack: nothing follows the star inside it, and a hex run after "\x" consists of characters
   that the first alternative accepts as well. *)
Definition is_hex (c : char) : bool :=
  (is_digit c || (N.leb 97 c && N.leb c 102) || (N.leb 65 c && N.leb c 70))%bool.
Fixpoint quoted_len (q : char) (s : str) : option nat :=
  match s with
  | [] => None
  | c :: r =>
      if N.eqb c q then
        match r with
        | c2 :: r2 => if N.eqb c2 q then option_map (fun n => S (S n)) (quoted_len q r2) else Some 1
        | [] => Some 1
        end
      else if (N.eqb c NL || N.eqb c CRc)%bool then None
      else if N.eqb c BSL then
        match r with
        | [] => None
        | c2 :: r2 =>
            if N.eqb c2 120 then
              match r2 with
              | c3 :: r3 => if is_hex c3 then option_map (fun n => S (S (S n))) (quoted_len q r3) else None
              | [] => None
              end
            else option_map (fun n => S (S n)) (quoted_len q r2)
        end
      else option_map S (quoted_len q r)
  end.

(* ---- the scanner *)
Inductive mode :=
| MSkip                          (* between tokens *)
| MRun (acc : str)               (* inside a content token; acc = its characters so far, reversed *)
| MQuote (acc : str) (n : nat).  (* inside a quoted string; n more characters belong to it *)

Definition emit (d : nat) (acc : str) (k : result (list (nat * str))) : result (list (nat * str)) :=
  bind k (fun l => Ok ((d, rev acc) :: l)).

Fixpoint scan (m : mode) (d : nat) (s : str) {struct s} : result (list (nat * str)) :=
  match s with
  | [] => Raise E_ParseException            (* the closing brace of some group is missing *)
  | c :: r =>
      match m with
      | MQuote acc n =>
          match n with
          | S (S n') => scan (MQuote (c :: acc) (S n')) d r
          | _ => emit d (c :: acc) (scan MSkip d r)
          end
      | MRun acc =>
          if is_content c then scan (MRun (c :: acc)) d r
          else emit d acc
                 (if is_pp_white c then scan MSkip d r
                  else if N.eqb c LBRACE then scan MSkip (S d) r
                  else if N.eqb c RBRACE then match d with O => Ok [] | S d' => scan MSkip d' r end
                  else Raise E_ParseException)
      | MSkip =>
          if is_pp_white c then scan MSkip d r
          else if N.eqb c LBRACE then scan MSkip (S d) r
          else if N.eqb c RBRACE then match d with O => Ok [] | S d' => scan MSkip d' r end
          else if (N.eqb c DQ || N.eqb c SQ)%bool then
            match quoted_len c r with
            | Some n => scan (MQuote [c] n) d r
            | None => scan (MRun [c]) d r
            end
          else if is_content c then scan (MRun [c]) d r
          else Raise E_ParseException
      end
  end.

(* ---- unpack_nested_list_to_config_objs (after fix F09): strip, drop ONE final ";", strip, indent *)
Definition drop_semi (s : str) : str :=
  match rev s with
  | c :: r => if N.eqb c SEMI then rev r else s
  | [] => s
  end.
Definition unpack (sw : nat) (t : nat * str) : str :=
  repeat SP (fst t * sw) ++ strip (drop_semi (strip (snd t))).

(* ---- BraceParse(config_txt): initial-brace rejection, "{" + txt + "}", scan, unpack *)
Definition brace_tokens (txt : str) : result (list (nat * str)) :=
  if match txt with c :: _ => is_brace c | [] => false end then Raise E_ValueError
  else match expandtabs (LBRACE :: txt ++ [RBRACE]) with
       | _ :: r => scan MSkip 0 r
       | [] => Raise E_Other
       end.
Definition brace_lines (sw : nat) (txt : str) : result (list str) :=
  bind (brace_tokens txt) (fun toks => Ok (map (unpack sw) toks)).

(* ---- convert_junos_to_ios(input_list) with the default stop_width: non-empty list, joined by "\n" *)
Definition convert_junos (sw : nat) (lines : list str) : result (list str) :=
  match lines with
  | [] => Raise E_ValueError
  | _ => brace_lines sw (join [NL] lines)
  end.

(* ---- the parent rule of ConfigList.bootstrap (property C02), restated on triples
   (indent, is_config_line, is_comment):  a line at indent 0 is its own parent; otherwise the parent is
   the nearest earlier config line with a smaller indent (itself if there is none), except that a
   comment directly below a more indented line stays its own parent. *)
Definition linfo := (nat * bool * bool)%type.
Definition line_info (delims : list char) (t : str) : linfo :=
  let body := lstrip t in
  let cmt := match body with c :: _ => existsb (N.eqb c) delims | [] => false end in
  (length t - length body, (negb (match body with [] => true | _ => false end) && negb cmt)%bool, cmt).

Fixpoint find_parent (prev : list (nat * linfo)) (ind : nat) : option nat :=
  match prev with
  | [] => None
  | (j, (ij, cfg, _)) :: r => if (cfg && (ij <? ind))%bool then Some j else find_parent r ind
  end.
(* the line directly above is more indented than `ind` *)
Definition head_deeper (prev : list (nat * linfo)) (ind : nat) : bool :=
  match prev with (_, (ip, _, _)) :: _ => ind <? ip | [] => false end.
Definition parent_of (prev : list (nat * linfo)) (i : nat) (x : linfo) : nat :=
  let '(ind, _, cmt) := x in
  if ind =? 0 then i
  else match find_parent prev ind with
       | None => i
       | Some j => if (cmt && head_deeper prev ind)%bool then i else j
       end.
Fixpoint parents_go (prev : list (nat * linfo)) (i : nat) (ls : list linfo) : list nat :=
  match ls with
  | [] => []
  | x :: r => parent_of prev i x :: parents_go ((i, x) :: prev) (S i) r
  end.
Definition parents_model (ls : list linfo) : list nat := parents_go [] 0 ls.
(* property C02 (Model/Links.v) writes "no parent" as None; obj.parent is then the object itself *)
Fixpoint self_or (i : nat) (ps : list (option nat)) : list nat :=
  match ps with
  | [] => []
  | Some p :: r => p :: self_or (S i) r
  | None :: r => i :: self_or (S i) r
  end.
(* children of p: ascending list of the other lines whose parent is p *)
Definition children_model (ps : list nat) : list (list nat) :=
  map (fun p => filter (fun i => (nth i ps i =? p) && negb (i =? p))%bool (seq 0 (length ps))) (seq 0 (length ps)).

(* ====================================================================================== the spec side *)
(* a statement text: non-empty, only printable non-brace characters and spaces, does not start with a
   space or a quote, does not end with a space or a semicolon *)
Definition wf_text (t : str) : bool :=
  match t with
  | [] => false
  | c :: _ =>
      (forallb is_content t && negb (N.eqb c SP) && negb (N.eqb c DQ) && negb (N.eqb c SQ)
       && match rev t with l :: _ => negb (N.eqb l SP) && negb (N.eqb l SEMI) | [] => false end)%bool
  end.

(* A statement tree and its flattening (what the property promises) *)
Inductive tree := Node (text : str) (kids : forest)
with forest := FNil | FCons (t : tree) (f : forest).

Definition indent_of (sw d : nat) : str := repeat SP (d * sw).
Fixpoint flatten_tree (sw d : nat) (t : tree) : list str :=
  match t with Node text kids => (indent_of sw d ++ text) :: flatten_forest sw (S d) kids end
with flatten_forest (sw d : nat) (f : forest) : list str :=
  match f with FNil => [] | FCons t r => flatten_tree sw d t ++ flatten_forest sw d r end.

Fixpoint size_tree (t : tree) : nat := match t with Node _ kids => S (size_forest kids) end
with size_forest (f : forest) : nat := match f with FNil => 0 | FCons t r => size_tree t + size_forest r end.

(* the parent each line must have: the statement that opened its innermost enclosing block (itself at
   the top level).  `p` = index of that statement, `i` = index of the first line of the (sub)forest.
   `after_deeper` = the previous line is more indented (the previous sibling had a body): a comment
   there keeps itself as parent (C02's legacy exception). *)
Definition is_comment_text (t : str) : bool := match t with c :: _ => N.eqb c HASH | [] => false end.
Fixpoint tree_parents (p : option nat) (after_deeper : bool) (i : nat) (t : tree) : list nat :=
  match t with
  | Node text kids =>
      match p with
      | None => i
      | Some j => if (is_comment_text text && after_deeper)%bool then i else j
      end :: forest_parents (Some i) false (S i) kids
  end
with forest_parents (p : option nat) (after_deeper : bool) (i : nat) (f : forest) : list nat :=
  match f with
  | FNil => []
  | FCons t r =>
      tree_parents p after_deeper i t
      ++ forest_parents p (match t with Node _ FNil => false | _ => true end) (i + size_tree t) r
  end.

(* statement trees the parent theorem speaks about: every text is a statement text and a statement
   that opens a block is not a comment *)
Fixpoint wf_tree (t : tree) : bool :=
  match t with
  | Node text kids =>
      (wf_text text && match kids with FNil => true | _ => negb (is_comment_text text) end && wf_forest kids)%bool
  end
with wf_forest (f : forest) : bool :=
  match f with FNil => true | FCons t r => (wf_tree t && wf_forest r)%bool end.

(* A layout = the tree decorated with all the white space, semicolons and braces of one rendering.
   LLeaf pre text trail semi trail2 term :  pre text trail [;] trail2 term
   LBlock pre text gap kids pre_close closed :  pre text gap "{" kids pre_close ["}" if closed] *)
Inductive ltree :=
| LLeaf (pre text trail : str) (semi : bool) (trail2 term : str)
| LBlock (pre text gap : str) (kids : lforest) (pre_close : str) (closed : bool)
with lforest := LNil | LCons (t : ltree) (f : lforest).

Fixpoint render_tree (t : ltree) : str :=
  match t with
  | LLeaf pre text trail semi trail2 term => pre ++ text ++ trail ++ (if semi then [SEMI] else []) ++ trail2 ++ term
  | LBlock pre text gap kids pre_close closed =>
      pre ++ text ++ gap ++ [LBRACE] ++ render_forest kids ++ pre_close ++ (if closed then [RBRACE] else [])
  end
with render_forest (f : lforest) : str :=
  match f with LNil => [] | LCons t r => render_tree t ++ render_forest r end.

Fixpoint erase_tree (t : ltree) : tree :=
  match t with
  | LLeaf _ text _ _ _ _ => Node text FNil
  | LBlock _ text _ kids _ _ => Node text (erase_forest kids)
  end
with erase_forest (f : lforest) : forest :=
  match f with LNil => FNil | LCons t r => FCons (erase_tree t) (erase_forest r) end.

(* number of blocks whose closing brace is missing *)
Fixpoint unclosed_tree (t : ltree) : nat :=
  match t with
  | LLeaf _ _ _ _ _ _ => 0
  | LBlock _ _ _ kids _ closed => unclosed_forest kids + (if closed then 0 else 1)
  end
with unclosed_forest (f : lforest) : nat :=
  match f with LNil => 0 | LCons t r => unclosed_tree t + unclosed_forest r end.

(* lines as the scanner sees them when some closers are missing: the depth keeps growing *)
Fixpoint lines_tree (sw d : nat) (t : ltree) : list str :=
  match t with
  | LLeaf _ text _ _ _ _ => [indent_of sw d ++ text]
  | LBlock _ text _ kids _ _ => (indent_of sw d ++ text) :: lines_forest sw (S d) kids
  end
with lines_forest (sw d : nat) (f : lforest) : list str :=
  match f with LNil => [] | LCons t r => lines_tree sw d t ++ lines_forest sw (d + unclosed_tree t) r end.

(* well-formedness of a layout *)
Definition is_lb (c : char) : bool := (N.eqb c NL || N.eqb c CRc)%bool.
Definition is_ws3 (c : char) : bool := (N.eqb c SP || N.eqb c NL || N.eqb c CRc)%bool.   (* layout white space (no tabs) *)
Definition all_sp (s : str) : bool := forallb (N.eqb SP) s.
Definition all_ws (s : str) : bool := forallb is_ws3 s.
(* the white space that ends a leaf: starts with a line break *)
Definition wf_term (s : str) : bool := match s with c :: r => (is_lb c && all_ws r)%bool | [] => false end.

(* `closer_follows`: the text right after this forest is (spaces and) a line break or a "}" *)
Fixpoint wf_ltree (last_ok : bool) (t : ltree) : bool :=
  match t with
  | LLeaf pre text trail semi trail2 term =>
      (all_ws pre && wf_text text && all_sp trail && all_sp trail2
       && (wf_term term || (last_ok && match term with [] => true | _ => false end)))%bool
  | LBlock pre text gap kids pre_close closed =>
      (all_ws pre && wf_text text && all_ws gap && all_ws pre_close && wf_lforest closed kids)%bool
  end
with wf_lforest (closer_follows : bool) (f : lforest) : bool :=
  match f with
  | LNil => true
  | LCons t r => (wf_ltree (closer_follows && match r with LNil => true | _ => false end) t && wf_lforest closer_follows r)%bool
  end.

(* ---- layouts that may also use TAB characters as white space (pyparsing expands them first) *)
Definition is_ws4 (c : char) : bool := (is_ws3 c || N.eqb c TAB)%bool.
Definition all_ws4 (s : str) : bool := forallb is_ws4 s.
Definition all_spt (s : str) : bool := forallb (fun c => (N.eqb c SP || N.eqb c TAB)%bool) s.
Definition wf_termT (s : str) : bool := match s with c :: r => (is_lb c && all_ws4 r)%bool | [] => false end.
Fixpoint wfT_ltree (last_ok : bool) (t : ltree) : bool :=
  match t with
  | LLeaf pre text trail semi trail2 term =>
      (all_ws4 pre && wf_text text && all_spt trail && all_spt trail2
       && (wf_termT term || (last_ok && match term with [] => true | _ => false end)))%bool
  | LBlock pre text gap kids pre_close closed =>
      (all_ws4 pre && wf_text text && all_ws4 gap && all_ws4 pre_close && wfT_lforest closed kids)%bool
  end
with wfT_lforest (closer_follows : bool) (f : lforest) : bool :=
  match f with
  | LNil => true
  | LCons t r => (wfT_ltree (closer_follows && match r with LNil => true | _ => false end) t && wfT_lforest closer_follows r)%bool
  end.
