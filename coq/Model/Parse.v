(* Model of the constructor of an indentation-syntax parse (C01 / C03 / C07):
   ConfigList.bootstrap = parent pass (Model/Links.v) + banner pass + macro pass + ignore_blank_lines
   filter, and CiscoConfParse.__init__ = bootstrap followed by commit() = bootstrap of get_text().
   The banner-start test and delimiter extraction are regexes (\s, \w are Unicode classes): they are an
   ORACLE attached to each line; everything else is computed from the text.  No proofs here.

   The banner and macro passes of the code are forward walks started at every start line, processed in
   line order (later walks override earlier ones, macros override banners); this model is the
   equivalent single forward scan that keeps the set of walks still running. *)
From Coq Require Import List Arith Bool NArith.
Require Import CCP.Lib.PyStr CCP.Model.Links.
Import ListNotations.

(* banner oracle of a line:  None = the banner regex does not match;
   Some None = it matches but no delimiter can be extracted; Some (Some d) = delimiter d *)
Record pline := PL { ptext : str; pban : option (option N) }.

Record popts := PO { o_macro : bool;          (* syntax == "ios": macro pass enabled *)
                     o_ibl : bool;            (* ignore_blank_lines *)
                     o_delims : list char }.  (* comment delimiters *)

Definition blank (s : str) : bool := forallb is_space s.                (* s.strip() == "" *)
Definition has_char (d : N) (s : str) : bool := existsb (N.eqb d) s.    (* d in s *)
Definition count_char (d : N) (s : str) : nat := length (filter (N.eqb d) s).
Definition macro_prefix : str := [109; 97; 99; 114; 111; 32; 110; 97; 109; 101; 32]%N.   (* "macro name " *)
Definition is_macro_start (s : str) : bool := starts_with macro_prefix s.     (* txt[0:11] == "macro name " *)
Definition is_macro_end (s : str) : bool := str_eqb (rstrip s) [64%N].       (* txt.rstrip() == "@" *)

(* does this banner start line open a walk?  (delimiter found, and not both delimiters on the line) *)
Definition opens (l : pline) : option N :=
  match pban l with
  | Some (Some d) => if 2 <=? count_char d (ptext l) then None else Some d
  | _ => None
  end.
Definition is_banner_start (l : pline) : bool := match pban l with Some _ => true | None => false end.

(* scan state: running banner walks (delimiter, start index), running macro walk (start index) *)
Record sstate := SS { s_ban : list (N * nat); s_mac : option nat }.
Definition idle : sstate := SS [] None.

Definition max_start (a : list (N * nat)) : option nat :=
  fold_left (fun acc e => match acc with None => Some (snd e) | Some m => Some (Nat.max m (snd e)) end) a None.

(* per line: (blank_line_keep, parent imposed by the banner/macro passes) *)
Definition scan_line (macro : bool) (st : sstate) (j : nat) (l : pline) : (bool * option nat) * sstate :=
  let t := ptext l in
  let keep_b := existsb (fun e => negb (has_char (fst e) t)) (s_ban st) in
  let keep_m := match s_mac st with Some _ => true | None => false end in
  let mstart := macro && is_macro_start t in
  let keep := keep_b || keep_m || is_banner_start l || mstart in
  let par := match s_mac st with
             | Some m => Some m
             | None => max_start (s_ban st)
             end in
  let ban' := filter (fun e => negb (has_char (fst e) t)) (s_ban st)
              ++ match opens l with Some d => [(d, j)] | None => [] end in
  let mac' := if mstart then Some j
              else match s_mac st with
                   | Some m => if is_macro_end t then None else Some m
                   | None => None
                   end in
  ((keep, par), SS ban' mac').

Fixpoint scan (macro : bool) (st : sstate) (j : nat) (ls : list pline) : list (bool * option nat) :=
  match ls with
  | [] => []
  | l :: r => let '(out, st') := scan_line macro st j l in out :: scan macro st' (S j) r
  end.

Definition keep_flags (o : popts) (ls : list pline) : list bool := map fst (scan (o_macro o) idle 0 ls).

(* the ignore_blank_lines filter of bootstrap *)
Fixpoint filter2 {A} (ls : list A) (fs : list bool) : list A :=
  match ls, fs with
  | l :: r, f :: g => if f then l :: filter2 r g else filter2 r g
  | _, _ => []
  end.
Definition survives (l : pline) (keep : bool) : bool := negb (blank (ptext l)) || keep.
Definition ibl_filter (o : popts) (ls : list pline) : list pline :=
  if o_ibl o then filter2 ls (map (fun lk => survives (fst lk) (snd lk)) (combine ls (keep_flags o ls))) else ls.

(* one bootstrap: texts that remain, and the parent map over the UNFILTERED pass (indices of ls) *)
Definition pass_parents (o : popts) (ls : list pline) : list (option nat) :=
  let li := map (fun l => linfo_of (o_delims o) (ptext l)) ls in
  let boot := bootstrap_parents li in
  map (fun bs => match snd (snd bs) with Some p => Some p | None => fst bs end)
      (combine boot (scan (o_macro o) idle 0 ls)).

(* CiscoConfParse(...) : bootstrap, then commit() = bootstrap of the texts that remained *)
Definition construct_texts (o : popts) (ls : list pline) : list pline := ibl_filter o (ibl_filter o ls).
Definition construct_parents (o : popts) (ls : list pline) : list (option nat) := pass_parents o (ibl_filter o ls).
(* line numbers of the objects that remain: the second bootstrap numbers its objects by their index in the
   text it parsed and then applies the filter again *)
Definition construct_linenums (o : popts) (ls : list pline) : list nat :=
  let l1 := ibl_filter o ls in
  if o_ibl o then filter2 (seq 0 (length l1)) (map (fun lk => survives (fst lk) (snd lk)) (combine l1 (keep_flags o l1)))
  else seq 0 (length l1).
(* child lists: ascending inverse image of the parent map (what _add_child_to_parent / _reparent maintain) *)
Definition children_of_map (ps : list (option nat)) (p : nat) : list nat := indices_with p 0 ps.
Definition construct_children (o : popts) (ls : list pline) : list (list nat) :=
  let ps := construct_parents o ls in map (children_of_map ps) (seq 0 (length ps)).
