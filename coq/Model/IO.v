(* C09 — executable model of CiscoConfParse.read_config / read_config_file / openargs / save_as
   (ciscoconfparse2/ciscoconfparse2.py).  Definitions only.

   Characters are code points (char := N).  Encoding/decoding by one codec is outside the model
   (the tie encodes the model's output itself and compares bytes).  os.linesep is "\n" (POSIX):
   the text-mode write translation is the identity. *)
From Coq Require Import NArith List Bool.
Require Import CCP.Lib.PyStr CCP.Lib.Res CCP.gen.TabC09.
Import ListNotations.

Definition LF : char := 10%N.
Definition CR : char := 13%N.
Definition is_cr (c : char) : bool := N.eqb c CR.
Definition is_lf (c : char) : bool := N.eqb c LF.

(* ---- str.splitlines(): boundary table regenerated from the running interpreter (gen/TabC09.v) *)
Definition is_linebreak (c : char) : bool := existsb (N.eqb c) splitlines_breaks.

(* "\r\n" counts as one boundary; a final boundary does not start another line *)
Fixpoint splitlines_py (s : str) : list str :=
  match s with
  | [] => []
  | c :: r =>
      if is_linebreak c then
        [] :: match r with
              | c2 :: r2 => if (is_cr c && is_lf c2)%bool then splitlines_py r2 else splitlines_py r
              | [] => []
              end
      else match splitlines_py r with
           | f :: fs => (c :: f) :: fs
           | [] => [[c]]
           end
  end.

(* ---- open(newline=None): universal newlines on reading ("\r\n" -> "\n", lone "\r" -> "\n") *)
Fixpoint univ_nl (s : str) : str :=
  match s with
  | [] => []
  | c :: r =>
      if is_cr c then
        LF :: match r with
              | c2 :: r2 => if is_lf c2 then univ_nl r2 else univ_nl r
              | [] => []
              end
      else c :: univ_nl r
  end.

(* ---- re.split(r"\r*\n", text) *)
(* split at every "\n": always at least one field *)
Fixpoint split_nl (s : str) : list str :=
  match s with
  | [] => [[]]
  | c :: r => if is_lf c then [] :: split_nl r
              else match split_nl r with
                   | f :: fs => (c :: f) :: fs
                   | [] => [[c]]
                   end
  end.
(* the "\r" run directly before a "\n" belongs to the separator: every field but the last
   loses its trailing "\r"s *)
Fixpoint strip_cr_butlast (l : list str) : list str :=
  match l with
  | [] => []
  | [x] => [x]
  | x :: r => rstrip_by is_cr x :: strip_cr_butlast r
  end.
Definition split_crlf (s : str) : list str := strip_cr_butlast (split_nl s).

(* read_config_file: fh.read() under openargs, then rgx.split(text) *)
Definition load (content : str) : list str := split_crlf (univ_nl content).

(* ---- save_as (after fix F10): a trailing "" element is the text after the final newline and is
   not written; every other element is written followed by "\n" *)
Fixpoint drop_last_empty (l : list str) : list str :=
  match l with
  | [] => []
  | [x] => match x with [] => [] | _ => [x] end
  | x :: r => x :: drop_last_empty r
  end.
Definition terminate (l : list str) : str := concat (map (fun x => x ++ [LF]) l).
Definition save (lines : list str) : str := terminate (drop_last_empty lines).

(* ---- read_config dispatch.  The file system is a function from path text to decoded content. *)
Inductive cfg_input :=
| InStr (s : str)
| InList (l : list str)
| InTuple (l : list str).

(* read_config followed by handle_ccp_brace_syntax's list/tuple test (non-brace syntax):
   a str with exactly one splitlines() line is a file path; with several it is split by
   splitlines(); "" falls through to the Sequence branch as a str and is rejected afterwards. *)
Definition read_input (fs : str -> option str) (c : cfg_input) : result (list str) :=
  match c with
  | InStr s =>
      match splitlines_py s with
      | [] => Raise E_Other              (* the library's invalid-parameters exception *)
      | [_] => match fs s with
               | Some content => Ok (load content)
               | None => Raise E_Other            (* FileNotFoundError *)
               end
      | ls => Ok ls
      end
  | InList l => Ok l
  | InTuple l => Ok l
  end.

(* one save_as + re-load of the written file *)
Definition cycle (content : str) : str := save (load content).
Fixpoint cycles (n : nat) (content : str) : str :=
  match n with O => content | S k => cycles k (cycle content) end.

(* ---- vocabulary of the theorems *)
(* a line without CR / LF *)
Definition no_crlf (l : str) : bool := forallb (fun c => negb (is_cr c || is_lf c)) l.
(* a line without any str.splitlines() boundary *)
Definition no_break (l : str) : bool := forallb (fun c => negb (is_linebreak c)) l.
(* a text whose only str.splitlines() boundaries are CR and LF (none of VT FF FS GS RS NEL LS PS) *)
Definition no_exotic (s : str) : bool := forallb (fun c => negb (is_linebreak c) || is_cr c || is_lf c) s.
(* a config as (line, line end) pairs and its text *)
Definition text_of (pairs : list (str * str)) : str := concat (map (fun p => fst p ++ snd p) pairs).
Definition lines_of (pairs : list (str * str)) : list str := map fst pairs.
Definition is_lf_or_crlf (e : str) : bool := str_eqb e [LF] || str_eqb e [CR; LF].

(* the independent description of "the text split at its line ends" used by the theorems:
   line ends are LF, CRLF and lone CR *)
Definition spec_lines (s : str) : list str := split_nl (univ_nl s).
