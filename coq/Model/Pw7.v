(* C17 — executable model of CiscoPassword (ciscoconfparse2/ciscoconfparse2.py): pwd_check, decrypt_type_7
   (mirrors the code), the independent reference type-7 encoder, and the output formatting of
   encrypt_type_8 / encrypt_type_9 (base64, alphabet translation, [:-1], "$8$salt$hash") with the KDF
   digest as an input (oracle).  Definitions only.  Tables come from gen/TabC17.v (regenerated from the
   source on every run). *)
From Coq Require Import NArith ZArith List Bool.
Require Import CCP.Lib.PyStr CCP.Lib.Res CCP.gen.TabC17.
Import ListNotations.
Open Scope N_scope.

(* ------------------------------------------------------------------ pwd_check *)
(* `char in invalid_chars` *)
Definition is_invalid_char (c : char) : bool := existsb (N.eqb c) tab_invalid_chars.
(* raises InvalidPassword (mapped to E_Other) or returns None *)
Definition pwd_check (pwd : str) : result unit :=
  if Nat.ltb tab_max_len (length pwd) then Raise E_Other
  else if existsb is_invalid_char pwd then Raise E_Other
  else Ok tt.

(* ------------------------------------------------------------------ decrypt_type_7 *)
Definition NL : char := 10.
Definition not_nl (c : char) : bool := negb (N.eqb c NL).
Fixpoint take_while (p : char -> bool) (s : str) : str :=
  match s with [] => [] | c :: r => if p c then c :: take_while p r else [] end.

(* int(two characters, 16) restricted to two hex digits (signs / blanks / underscores that Python's int
   would also accept are not modelled; such strings are outside the compared input class) *)
Definition hex2 (a b : char) : option N :=
  match hex_val a, hex_val b with Some x, Some y => Some (16 * x + y) | _, _ => None end.

(* xlat[int(s % 53)] *)
Definition key_at (s : Z) : N := nth (Z.to_nat (Z.modulo s tab_wrap)) tab_xlat 0.

(* for ii in range(0, len(e), 2): magic = int(re.search(".{ii}(..)", e).group(1), 16);
   dp += "%c" % (magic ^ xlat[s % 53]); s += 1
   a lone last character gives re.search(...) = None -> AttributeError *)
Fixpoint walk7 (s : Z) (e : str) : result str :=
  match e with
  | [] => Ok []
  | [_] => Raise E_AttributeError
  | a :: b :: r =>
      match hex2 a b with
      | None => Raise E_ValueError
      | Some magic => bind (walk7 (s + 1)%Z r) (fun t => Ok (N.lxor magic (key_at s) :: t))
      end
  end.

Definition decrypt7 (ep : str) : result str :=
  if Nat.odd (length ep) then Ok []                          (* if not (len(ep) & 1): ... else dp = "" *)
  else
    (* regex ^(..)(.+): '.' does not match a newline; group 2 is greedy up to the first newline *)
    match ep with
    | a :: b :: c :: rest =>
        if not_nl a && not_nl b && not_nl c then
          match py_int [a; b] with
          | Some s => walk7 s (take_while not_nl (c :: rest))
          | None => Ok []                                    (* except ValueError: s, e = (0, "") *)
          end
        else Raise E_AttributeError                          (* result is None *)
    | _ => Raise E_AttributeError
    end.

(* ------------------------------------------------------------------ reference type-7 encoder (independent of the code):
   two decimal digits of the salt, then for the i-th byte b the two upper-case hex digits of b xor key[(salt+i) mod 53] *)
Definition hexU1 (d : N) : char := if d <? 10 then 48 + d else 55 + d.
Definition hexU2 (b : N) : str := [hexU1 (b / 16); hexU1 (b mod 16)].
Definition two_digits (n : N) : str := [48 + n / 10; 48 + n mod 10].
Fixpoint enc_body (s : N) (pw : list N) : str :=
  match pw with
  | [] => []
  | b :: r => hexU2 (N.lxor b (nth (N.to_nat (s mod 53)) tab_xlat 0)) ++ enc_body (s + 1) r
  end.
Definition encrypt7 (salt : N) (pw : list N) : str := two_digits salt ++ enc_body salt pw.

(* the Cisco key, written down independently of the source: "dsfd;kfoA,.iyewrkldJKDHSUBsgvca69834ncxv9873254k;fg87" *)
Definition cisco_key : list N :=
  [100;115;102;100;59;107;102;111;65;44;46;105;121;101;119;114;107;108;100;74;75;68;72;83;85;66;115;103;118;99;97;
   54;57;56;51;52;110;99;120;118;57;56;55;51;50;53;52;107;59;102;103;56;55].

(* CiscoPassword().encrypt_type_7(pwd): pwd_check, then passlib's encoder with the salt it draws (an input here) *)
Definition encrypt_type_7 (salt : N) (pwd : str) : result str :=
  bind (pwd_check pwd) (fun _ => Ok (encrypt7 salt pwd)).

(* ------------------------------------------------------------------ type 8 / type 9 output format *)
Definition PAD : char := 61.   (* '=' *)
Definition b64c (alpha : list N) (i : N) : char := nth (N.to_nat i) alpha 0.
(* base64.b64encode with alphabet alpha *)
Fixpoint b64enc (alpha : list N) (bs : list N) : str :=
  match bs with
  | [] => []
  | [a] => [b64c alpha (a / 4); b64c alpha ((a mod 4) * 16); PAD; PAD]
  | [a; b] => [b64c alpha (a / 4); b64c alpha ((a mod 4) * 16 + b / 16); b64c alpha ((b mod 16) * 4); PAD]
  | a :: b :: c :: r =>
      b64c alpha (a / 4) :: b64c alpha ((a mod 4) * 16 + b / 16) :: b64c alpha ((b mod 16) * 4 + c / 64)
      :: b64c alpha (c mod 64) :: b64enc alpha r
  end.
(* str.translate(str.maketrans(std, cisco)) *)
Fixpoint index_of (c : char) (l : list N) : option nat :=
  match l with [] => None | x :: r => if N.eqb c x then Some O else option_map S (index_of c r) end.
(* maketrans builds a dict from zip(std, cisco): a later duplicate key would win; the generated alphabets have none *)
Definition tr_char (c : char) : char :=
  match index_of c tab_std_b64 with Some i => nth i tab_cisco_b64 c | None => c end.
Definition translate (s : str) : str := map tr_char s.
(* base64.b64encode(h).decode().translate(b64table)[:-1] *)
Definition cisco_hash (digest : list N) : str := removelast (translate (b64enc tab_std_b64 digest)).
Definition DOLLAR : char := 36.
(* f"$8${salt}${chash}" / f"$9${salt}${hash}" *)
Definition type89_string (kind : char) (salt : str) (digest : list N) : str :=
  [DOLLAR; kind; DOLLAR] ++ salt ++ [DOLLAR] ++ cisco_hash digest.
