(* C20 — executable model of L4Object(protocol, port_spec, syntax).port_list  (ciscoconfparse2/ccp_util.py).
   Definitions only.  The dispatch chain is modelled in source order with the substring tests on the actual
   (stripped) string; `re.split(r"\s+", s)` on a stripped string is Lib/PyStr.split_ws (and [""] for "");
   `re.search(r"^\S+$", s)` on a stripped string is "non-empty and without white space";
   `int(ports.get(tok, tok))` is the table lookup followed by Lib/PyStr.py_int.
   The name tables come from gen/TabC20.v (regenerated from protocol_values.py on every run). *)
From Coq Require Import NArith ZArith List Bool.
Require Import CCP.Lib.PyStr CCP.Lib.Res CCP.Model.Range CCP.gen.TabC20.
Import ListNotations.
Open Scope Z_scope.

Definition kw_neq : str := [110; 101; 113; 32]%N.                 (* "neq " *)
Definition kw_eq : str := [101; 113; 32]%N.                       (* "eq " *)
Definition kw_range : str := [114; 97; 110; 103; 101; 32]%N.      (* "range " *)
Definition kw_lt : str := [108; 116; 32]%N.                       (* "lt " *)
Definition kw_gt : str := [103; 116; 32]%N.                       (* "gt " *)
Definition s_asa : str := [97; 115; 97]%N.
Definition s_tcp : str := [116; 99; 112]%N.
Definition s_udp : str := [117; 100; 112]%N.

Definition tbl_get (tbl : list (str * Z)) (k : str) : option Z :=
  match find (fun e => str_eqb (fst e) k) tbl with Some e => Some (snd e) | None => None end.

(* int(ports.get(tok, tok)) *)
Definition port_value (tbl : list (str * Z)) (tok : str) : result Z :=
  match tbl_get tbl tok with
  | Some p => Ok p
  | None => match py_int tok with Some z => Ok z | None => Raise E_ValueError end
  end.

Definition re_split_ws (s : str) : list str := match s with [] => [[]] | _ => split_ws s end.
Definition single_token (s : str) : bool :=
  match s with [] => false | _ => forallb (fun c => negb (is_space c)) s end.

Definition all_ports : list Z := zrange 1 65535.
Definition req (b : bool) (v : list Z) : result (list Z) := if b then Ok v else Raise E_RequirementFailure.

Definition l4_ports (tbl : list (str * Z)) (port_spec : str) : result (list Z) :=
  let s := strip port_spec in
  let toks := re_split_ws s in
  if contains kw_neq s then
    bind (port_value tbl (last toks [])) (fun p =>
      req ((1 <=? p) && (p <=? 65535)) (filter (fun x => negb (x =? p)) all_ports))
  else if contains kw_eq s then
    bind (port_value tbl (strip (last toks []))) (fun p => req ((1 <=? p) && (p <=? 65535)) [p])
  else if single_token s then
    bind (port_value tbl s) (fun p => req ((1 <=? p) && (p <=? 65535)) [p])
  else if contains kw_range s then
    match tl toks with
    | a :: b :: _ =>
        bind (port_value tbl a) (fun lo => bind (port_value tbl b) (fun hi =>
          if hi <? lo then Raise E_RequirementFailure
          else req ((1 <=? lo) && (hi <=? 65535)) (zrange lo hi)))
    | _ => Raise E_IndexError
    end
  else if contains kw_lt s then
    bind (port_value tbl (last toks [])) (fun hi => req ((2 <=? hi) && (hi <=? 65535)) (zrange 1 (hi - 1)))
  else if contains kw_gt s then
    bind (port_value tbl (last toks [])) (fun lo => req ((0 <? lo) && (lo <? 65535)) (zrange (lo + 1) 65535))
  else Raise E_NotImplementedError.

(* L4Object(protocol, port_spec, syntax).port_list *)
Definition l4_object (protocol port_spec syntax : str) : result (list Z) :=
  if str_eqb syntax s_asa then
    if str_eqb protocol s_tcp then l4_ports asa_tcp_ports port_spec
    else if str_eqb protocol s_udp then l4_ports asa_udp_ports port_spec
    else Raise E_NotImplementedError
  else Raise E_NotImplementedError.
