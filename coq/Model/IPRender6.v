(* String rendering of an IPv6 address as ipaddress does it (str(IPv6Address), _compress_hextets): eight groups in minimal
   lower-case hex, the leftmost longest run of two or more zero groups replaced by "::".  No proofs here. *)
From Coq Require Import List Arith Bool NArith ZArith.
Require Import CCP.Lib.PyStr CCP.Model.IPText CCP.Model.IPText6.
Import ListNotations.

Fixpoint groups_rev (n : nat) (a : Z) : list N :=
  match n with
  | O => []
  | S k => Z.to_N (a mod 65536) :: groups_rev k (a / 65536)
  end.
Definition groups_of_value (a : Z) : list N := rev (groups_rev 8 a).

Fixpoint zprefix (gs : list N) : nat :=
  match gs with
  | 0%N :: r => S (zprefix r)
  | _ => O
  end.
(* leftmost longest run of zero groups: (start, length) *)
Fixpoint best_run (gs : list N) (i bs bl : nat) : nat * nat :=
  match gs with
  | [] => (bs, bl)
  | _ :: r => let z := zprefix gs in
              if bl <? z then best_run r (S i) i z else best_run r (S i) bs bl
  end.

(* one hextet in minimal lower-case hex (%x) *)
Definition nib_l (d : N) : char := if (d <? 10)%N then (48 + d)%N else (87 + d)%N.
Fixpoint drop_zeros_l (l : list N) : list N :=
  match l with
  | [] => []
  | [d] => [d]
  | d :: r => if (d =? 0)%N then drop_zeros_l r else l
  end.
Definition hex_min (g : N) : str :=
  map nib_l (drop_zeros_l [(g / 4096) mod 16; (g / 256) mod 16; (g / 16) mod 16; g mod 16]%N).

Definition side_r (gs : list N) : list str := match gs with [] => [[]] | _ => map hex_min gs end.

Definition render6 (a : Z) : str :=
  let gs := groups_of_value a in
  let '(bs, bl) := best_run gs 0 0 0 in
  if bl <? 2 then join [c_colon] (map hex_min gs)
  else join [c_colon] (side_r (firstn bs gs) ++ [[]] ++ side_r (skipn (bs + bl) gs)).

Definition render6_cidr (a p : Z) : str := render6 a ++ [c_slash] ++ render_dec (Z.to_N p).
