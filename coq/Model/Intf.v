(* C15 — executable model of CiscoIOSInterface (name grammar, render, ordering, hashing) and of
   CiscoRange.parse_cisco_interfaces + its read accessors (ciscoconfparse2/ccp_util.py).
   Definitions only; proofs are in Proofs/C15Proofs.v.

   Regular expressions of the source are expanded by hand into scanners (documented next to each
   definition).  `\d` is modelled as the ASCII digits, `\s` as str.isspace (PyStr.is_space);
   non-ASCII decimal digits are outside the model and never generated. *)
From Coq Require Import NArith List Bool.
Require Import CCP.Lib.PyStr CCP.Lib.Res.
Import ListNotations.
Open Scope N_scope.

(* ------------------------------------------------------------------ characters *)
Definition c_comma : char := 44.
Definition c_dash : char := 45.
Definition c_dot : char := 46.
Definition c_slash : char := 47.
Definition c_colon : char := 58.
Definition c_caret : char := 94.
Definition c_space : char := 32.

(* [a-zA-Z\-\s]  : the prefix group *)
Definition in_prefix (c : char) : bool := is_alpha_ascii c || N.eqb c c_dash || is_space c.
(* [a-zA-Z\-]    : the class word *)
Definition in_classw (c : char) : bool := is_alpha_ascii c || N.eqb c c_dash.
(* [\d\:\.^\-^a-z^A-Z^\s] : the carets are literal members of the class *)
Definition in_short (c : char) : bool :=
  is_digit c || N.eqb c c_colon || N.eqb c c_dot || N.eqb c c_caret || N.eqb c c_dash
  || is_alpha_ascii c || is_space c.
(* [\d\:\.\/^\-^a-z^A-Z^\s] *)
Definition in_long (c : char) : bool := in_short c || N.eqb c c_slash.
(* [^\:^\.^\-^\s^\d^a-z^A-Z] : anything but  : ^ . - whitespace digit letter *)
Definition is_sep (c : char) : bool :=
  negb (N.eqb c c_colon || N.eqb c c_caret || N.eqb c c_dot || N.eqb c c_dash
        || is_space c || is_digit c || is_alpha_ascii c).

(* ------------------------------------------------------------------ scanners *)
Fixpoint take_while (p : char -> bool) (s : str) : str :=
  match s with [] => [] | c :: r => if p c then c :: take_while p r else [] end.
Fixpoint drop_while (p : char -> bool) (s : str) : str :=
  match s with [] => [] | c :: r => if p c then drop_while p r else s end.

Definition not_digit (c : char) : bool := negb (is_digit c).

(* int() of an ASCII digit string *)
Definition dec_val (s : str) : N := fold_left (fun a c => a * 10 + digit_val c) s 0.

Definition starts_digit (s : str) : bool := match s with c :: _ => is_digit c | [] => false end.

(* re.search(r"\.(?P<x>\d+)", s) / re.search(r"\:(?P<x>\d+)", s): leftmost `m` followed by a digit;
   the group is the maximal digit run *)
Fixpoint find_after (m : char) (s : str) : option N :=
  match s with
  | [] => None
  | c :: r => if N.eqb c m && starts_digit r then Some (dec_val (take_while is_digit r)) else find_after m r
  end.

(* re.search(r"(?P<interface_class>\s+[a-zA-Z\-]+)$", s): the trailing class word together with the
   whitespace run before it *)
Definition find_class (s : str) : option str :=
  let r := rev s in
  let w := take_while in_classw r in
  let r1 := drop_while in_classw r in
  let ws := take_while is_space r1 in
  match w, ws with
  | [], _ => None
  | _, [] => None
  | _, _ => Some (rev ws ++ rev w)
  end.

(* ------------------------------------------------------------------ the interface object *)
Record intf := mk_intf {
  i_prefix : str;
  i_sep : option str;         (* digit_separator *)
  i_slot : option N;
  i_card : option N;
  i_port : N;
  i_sub : option N;
  i_chan : option N;
  i_class : option str }.

(* the dict returned by parse_intf_short / parse_intf_long, before update_internal_state *)
Record rawd := mk_raw {
  r_prefix : str; r_sep : option str; r_slot : option N; r_card : option N; r_port : option N;
  r_sub : option N; r_chan : option N; r_class : option str }.

(* update_internal_state (+ the property setters: prefix.strip(), int(), interface_class.strip()) *)
Definition update_state (d : rawd) : result intf :=
  match r_slot d, r_port d with
  | Some sl, Some p =>
      Ok (mk_intf (strip (r_prefix d)) (r_sep d) (Some sl) (r_card d) p (r_sub d) (r_chan d)
                  (option_map strip (r_class d)))
  | None, Some p =>
      Ok (mk_intf (strip (r_prefix d)) (r_sep d) None None p (r_sub d) (r_chan d)
                  (option_map strip (r_class d)))
  | _, None => Raise E_Other         (* InvalidCiscoInterface *)
  end.

(* parse_intf_short: pre = prefix group, P = port_subinterface_channel group *)
Definition parse_short (pre P : str) : result intf :=
  let d := drop_while not_digit P in           (* ^\D*(?P<port>\d+) *)
  match d with
  | [] => Raise E_Other                          (* NoRegexMatch *)
  | _ => update_state (mk_raw (strip pre) None None None (Some (dec_val (take_while is_digit d)))
                              (find_after c_dot P) (find_after c_colon P) (find_class P))
  end.

Definition opt_digits (s : str) : option N := match s with [] => None | _ => Some (dec_val s) end.
Definition opt_sep (s : str) : option char * str :=
  match s with c :: r => if is_sep c then (Some c, r) else (None, s) | [] => (None, []) end.

(* parse_intf_long: L = slot_card_port_subinterface_channel group;
   ^(?P<slot>\d+)(?P<sep1>SEP)?(?P<card>\d+)?(?P<sep2>SEP)?(?P<port>\d+)?  — every group after the slot
   is optional and greedy, so the first attempt of the backtracking matcher succeeds *)
Definition parse_long (pre L : str) : result intf :=
  let slotd := take_while is_digit L in
  let r1 := drop_while is_digit L in
  match slotd with
  | [] => Raise E_Other                          (* InvalidCiscoInterface *)
  | _ =>
    let '(sep1, r2) := opt_sep r1 in
    let cardd := take_while is_digit r2 in
    let r3 := drop_while is_digit r2 in
    let '(_, r4) := opt_sep r3 in
    let portd := take_while is_digit r4 in
    let card0 := opt_digits cardd in
    let port0 := opt_digits portd in
    (* Ethernet1/48: 48 was assigned to card, it is the port *)
    let '(card, port) := match card0, port0 with Some c, None => (None, Some c) | _, _ => (card0, port0) end in
    match sep1 with
    | None => Raise E_ValueError                 (* "digit_separator inconsistency" *)
    | Some sc =>
        update_state (mk_raw pre (Some [sc]) (Some (dec_val slotd)) card port
                             (find_after c_dot L) (find_after c_colon L) (find_class L))
    end
  end.

(* parse_single_interface: the two outer regexes
     ^ (?P<prefix> PREFIXCHAR* ) (?P<rest> CLASS+ ) (?P<interface_class> \s+ CLASSWORDCHAR+ ){0,1} $
   CLASS contains every character of the prefix class and of the class word, so the greedy match is:
   prefix = longest leading run of prefix characters, rest = everything else; when the whole string
   consists of prefix characters the prefix gives its last character back. *)
Definition parse_intf (name : str) : result intf :=
  if existsb (N.eqb c_comma) name then Raise E_Other else
  let s := strip name in
  match s with
  | [] => Raise E_Other
  | _ =>
    if forallb in_short s then
      let pre := take_while in_prefix s in
      let rest := drop_while in_prefix s in
      match rest with
      | [] => parse_short (removelast s) [last s 0]
      | _ => parse_short pre rest
      end
    else if forallb in_long s then
      parse_long (take_while in_prefix s) (drop_while in_prefix s)
    else Raise E_Other
  end.

(* number property + render_as_string *)
Definition sep_str (c : intf) : str := match i_sep c with Some s => s | None => [78; 111; 110; 101] end.  (* f"{None}" *)
Definition number_str (c : intf) : str :=
  match i_slot c, i_card c with
  | None, _ => render_dec (i_port c)
  | Some sl, None => render_dec sl ++ sep_str c ++ render_dec (i_port c)
  | Some sl, Some cd => render_dec sl ++ sep_str c ++ render_dec cd ++ sep_str c ++ render_dec (i_port c)
  end.
Definition tail_str (c : intf) : str :=
  number_str c
  ++ match i_sub c with Some n => c_dot :: render_dec n | None => [] end
  ++ match i_chan c with Some n => c_colon :: render_dec n | None => [] end
  ++ match i_class c with Some w => c_space :: w | None => [] end.
Definition render (c : intf) : str := i_prefix c ++ tail_str c.

(* ------------------------------------------------------------------ ordering, equality, hash *)
Inductive item := INone | IInt (n : N) | IStr (s : str).
Definition oi (o : option N) : item := match o with Some n => IInt n | None => INone end.
Definition os (o : option str) : item := match o with Some s => IStr s | None => INone end.
Definition sort_list (c : intf) : list item :=
  [oi (i_slot c); oi (i_card c); IInt (i_port c); oi (i_sub c); oi (i_chan c); os (i_class c)].

Definition item_eqb (a b : item) : bool :=
  match a, b with
  | INone, INone => true
  | IInt x, IInt y => N.eqb x y
  | IStr x, IStr y => str_eqb x y
  | _, _ => false
  end.

(* Python str < str : lexicographic on code points *)
Fixpoint str_ltb (a b : str) : bool :=
  match a, b with
  | _, [] => false
  | [], _ :: _ => true
  | x :: r, y :: s => if N.ltb x y then true else if N.eqb x y then str_ltb r s else false
  end.

Definition item_lt (a b : item) : result bool :=
  match a, b with
  | IInt x, IInt y => Ok (N.ltb x y)
  | IStr x, IStr y => Ok (str_ltb x y)
  | _, _ => Raise E_TypeError
  end.

(* Python list < list : first index where the items differ (==) decides with <; else the lengths *)
Fixpoint list_lt (a b : list item) : result bool :=
  match a, b with
  | [], [] => Ok false
  | [], _ :: _ => Ok true
  | _ :: _, [] => Ok false
  | x :: r, y :: s => if item_eqb x y then list_lt r s else item_lt x y
  end.

Definition intf_lt (a b : intf) : result bool := list_lt (sort_list a) (sort_list b).
Definition intf_gt (a b : intf) : result bool := list_lt (sort_list b) (sort_list a).
Definition intf_eqb (a b : intf) : bool :=
  str_eqb (i_prefix a) (i_prefix b) && list_eqb item_eqb (sort_list a) (sort_list b).

(* sum((idx+1)**ii for idx, ii in enumerate(sort_list) if isinstance(ii, int)) *)
Definition pw (b : N) (o : option N) : N := match o with Some n => b ^ n | None => 0 end.
Definition intf_hash (c : intf) : N :=
  pw 1 (i_slot c) + pw 2 (i_card c) + 3 ^ (i_port c) + pw 4 (i_sub c) + pw 5 (i_chan c).

Definition ltb_tot (a b : intf) : bool := match intf_lt a b with Ok t => t | Raise _ => false end.
Definition comparable (a b : intf) : bool := is_ok (intf_lt a b).

(* sorted(): stable; uses __lt__ only *)
Fixpoint insert_sorted (x : intf) (l : list intf) : list intf :=
  match l with
  | [] => [x]
  | y :: r => if ltb_tot y x then y :: insert_sorted x r else x :: l
  end.
Definition isort (l : list intf) : list intf := fold_right insert_sorted [] l.

Fixpoint all_comparable (l : list intf) : bool :=
  match l with [] => true | x :: r => forallb (comparable x) r && all_comparable r end.

(* sorted(l): a comparison between two members whose keys differ first at a None/int position raises;
   any comparison sort of a list holding both kinds performs such a comparison *)
Definition py_sorted (l : list intf) : result (list intf) :=
  if all_comparable l then Ok (isort l) else Raise E_TypeError.

(* list(set(l)) followed by a sort: first occurrences are kept *)
Fixpoint dedup (l : list intf) : list intf :=
  match l with
  | [] => []
  | x :: r => x :: filter (fun y => negb (intf_eqb x y)) (dedup r)
  end.

(* ------------------------------------------------------------------ CiscoRange.parse_cisco_interfaces *)
Inductive iattr := A_chan | A_sub | A_port.

Definition pick_attr (b : intf) : iattr :=
  match i_chan b, i_sub b with Some _, _ => A_chan | None, Some _ => A_sub | None, None => A_port end.

Definition get_attr (a : iattr) (c : intf) : option N :=
  match a with A_chan => i_chan c | A_sub => i_sub c | A_port => Some (i_port c) end.

(* attribute assignment / from_dict with the iterated key replaced; the port is always an int *)
Definition set_attr (a : iattr) (c : intf) (v : option N) : intf :=
  match a with
  | A_chan => mk_intf (i_prefix c) (i_sep c) (i_slot c) (i_card c) (i_port c) (i_sub c) v (i_class c)
  | A_sub => mk_intf (i_prefix c) (i_sep c) (i_slot c) (i_card c) (i_port c) v (i_chan c) (i_class c)
  | A_port => mk_intf (i_prefix c) (i_sep c) (i_slot c) (i_card c)
                      (match v with Some n => n | None => i_port c end) (i_sub c) (i_chan c) (i_class c)
  end.

Definition set_class (c : intf) (w : str) : intf :=
  mk_intf (i_prefix c) (i_sep c) (i_slot c) (i_card c) (i_port c) (i_sub c) (i_chan c) (Some (strip w)).

(* one comma-separated part, tokenised:  the interface parsed from the text left of the first '-'
   and the end ordinal: None = no '-' ; Some e *)
Definition part_token (p : str) : result (intf * option N) :=
  let pieces := split_on c_dash p in
  bind (parse_intf (strip (nth_str pieces 0))) (fun start =>
  if existsb (N.eqb c_dash) p then
    match pieces with
    | [_; rgt] =>
        match filter is_digit (strip rgt) with
        | [] => Raise E_ValueError                       (* int('') *)
        | ds => Ok (start, Some (dec_val ds))
        end
    | _ => Raise E_Other                                 (* InvalidCiscoRange *)
    end
  else Ok (start, None)).

(* range(b, e + 1) *)
Fixpoint upto (n : nat) (b : N) : list N :=
  match n with O => [] | S k => b :: upto k (N.succ b) end.
Definition py_range (b e : N) : list N := upto (N.to_nat (N.succ e - b)) b.

(* the members appended for one part; `first` = the part at index 0 *)
Definition part_members (a : iattr) (base : intf) (first : bool) (tok : intf * option N) : result (list intf) :=
  let '(start, e) := tok in
  let this := if first then base else set_attr a base (get_attr a start) in
  match e with
  | None => Ok [this]
  | Some en =>
      match get_attr a start with
      | None => Raise E_TypeError                        (* range(None, ...) *)
      | Some b => Ok (map (fun v => set_attr a this (Some v)) (py_range b en))
      end
  end.

Fixpoint members_loop (a : iattr) (base : intf) (first : bool) (toks : list (intf * option N)) : result (list intf) :=
  match toks with
  | [] => Ok []
  | t :: r => bind (part_members a base first t) (fun m =>
              bind (members_loop a base false r) (fun ms => Ok (m ++ ms)))
  end.

(* everything after tokenisation: abstract inputs only *)
Definition expand (base : intf) (toks : list (intf * option N)) : result (list intf) :=
  bind (members_loop (pick_attr base) base true toks) (fun ms =>
  match dedup ms with
  | [] => Raise E_ValueError                             (* attribute_sort([]) *)
  | u => py_sorted u
  end).

Fixpoint map_res {A B} (f : A -> result B) (l : list A) : result (list B) :=
  match l with
  | [] => Ok []
  | x :: r => bind (f x) (fun y => bind (map_res f r) (fun ys => Ok (y :: ys)))
  end.

(* the class word of the whole range text: text.split()[-1] when it holds no digit *)
Definition range_class (text : str) : option str :=
  match rev (split_ws text) with
  | [] => None
  | w :: _ => match filter is_digit w with [] => Some w | _ => None end
  end.

(* CiscoRange(text, result_type=str).data *)
Definition parse_range (text : str) : result (list intf) :=
  match text with
  | [] => Ok []
  | _ =>
    if contains [c_comma; c_comma] text then Raise E_Other else
    bind (map_res part_token (split_on c_comma text)) (fun toks =>
    match toks with
    | [] => Raise E_Other
    | (b0, _) :: _ =>
        let base := match range_class text with Some w => set_class b0 w | None => b0 end in
        expand base toks
    end)
  end.

(* ------------------------------------------------------------------ read accessors *)
Inductive reader := R_len | R_iter | R_as_list | R_as_set_str | R_as_set.
Inductive rout := O_len (n : N) | O_list (l : list str) | O_set (l : list str) | O_raise.

(* as_set / as_set(result_type=str) are observed as the sorted list of distinct renderings *)
Fixpoint insert_str (x : str) (l : list str) : list str :=
  match l with
  | [] => [x]
  | y :: r => if str_ltb y x then y :: insert_str x r else if str_eqb x y then l else x :: l
  end.
Definition str_set (l : list str) : list str := fold_right insert_str [] l.

(* state = self.data ; every reader returns the (possibly rewritten) state and its output *)
Definition read (st : list intf) (r : reader) : list intf * rout :=
  match r with
  | R_len => (st, O_len (N.of_nat (length st)))
  | R_iter => (st, O_list (map render st))
  | R_as_list =>                                   (* self.data = copy ; sorted(set(self.data)) *)
      (st, match st with
           | [] => O_set []                        (* returns set() *)
           | _ => match py_sorted (dedup st) with Ok l => O_list (map render l) | Raise _ => O_raise end
           end)
  | R_as_set_str => (st, O_set (str_set (map render st)))
  | R_as_set => (st, O_set (str_set (map render (dedup st))))
  end.

Fixpoint read_all (st : list intf) (rs : list reader) : list intf * list rout :=
  match rs with
  | [] => (st, [])
  | r :: more => let '(st1, o) := read st r in let '(st2, os) := read_all st1 more in (st2, o :: os)
  end.
